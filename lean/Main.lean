import BV.C01.Driver
import BV.C02.Driver
import BV.C03.Driver
import BV.C04.Driver
import BV.C05.Driver
import BV.C06.Driver
import BV.C07.Driver
import BV.C08.Driver
import BV.C09.Driver
import BV.C10.Driver
import BV.C11.Driver
import BV.C12.Driver
import BV.C13.Driver
import BV.C14.Driver
import BV.C15.Driver
import BV.C16.Driver
import BV.C17.Driver
import BV.C18.Driver
import BV.C19.Driver
import BV.C20.Driver

/-!
`bvdrv`: one case per input line `Cxx <op> <args…>`, one canonical result line back.
Imports only core-only modules so that it links as a native executable.
-/

def dispatch (line : String) : String :=
  match (line.trimAscii.toString.splitOn " ").filter (· ≠ "") with
  | "C01" :: rest => BV.C01.Driver.handle rest
  | "C02" :: rest => BV.C02.Driver.handle rest
  | "C03" :: rest => BV.C03.Driver.handle rest
  | "C04" :: rest => BV.C04.Driver.handle rest
  | "C05" :: rest => BV.C05.Driver.handle rest
  | "C06" :: rest => BV.C06.Driver.handle rest
  | "C07" :: rest => BV.C07.Driver.handle rest
  | "C08" :: rest => BV.C08.Driver.handle rest
  | "C09" :: rest => BV.C09.Driver.handle rest
  | "C10" :: rest => BV.C10.Driver.handle rest
  | "C11" :: rest => BV.C11.Driver.handle rest
  | "C12" :: rest => BV.C12.Driver.handle rest
  | "C13" :: rest => BV.C13.Driver.handle rest
  | "C14" :: rest => BV.C14.Driver.handle rest
  | "C15" :: rest => BV.C15.Driver.handle rest
  | "C16" :: rest => BV.C16.Driver.handle rest
  | "C17" :: rest => BV.C17.Driver.handle rest
  | "C18" :: rest => BV.C18.Driver.handle rest
  | "C19" :: rest => BV.C19.Driver.handle rest
  | "C20" :: rest => BV.C20.Driver.handle rest
  | _ => "bad-op"

partial def loop (hin hout : IO.FS.Stream) : IO Unit := do
  let line ← hin.getLine
  if line.isEmpty then return ()
  hout.putStrLn (dispatch line)
  hout.flush
  loop hin hout

def main : IO Unit := do
  loop (← IO.getStdin) (← IO.getStdout)
