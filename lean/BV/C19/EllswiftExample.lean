/-
C19 — the hypotheses of `xswiftec_inv_correct` are satisfiable: the field with 13 elements has
c = 6 with c² = −3, 2 ≠ 0, 3 ≠ 0 and x³ + 7 has no root; a lawful record of operations exists.
-/
import Mathlib.Data.ZMod.Basic
import Mathlib.Algebra.Field.ZMod
import Mathlib.FieldTheory.Finite.Basic
import BV.C19.EllswiftLemmas
namespace BV.C19.Ellswift.Lemmas

instance fact13 : Fact (Nat.Prime 13) := ⟨by decide⟩

/-- square root in ZMod 13 by search -/
def sqrt13 (a : ZMod 13) : Option (ZMod 13) :=
  ((List.range 13).map (fun n : Nat => (n : ZMod 13))).find? (fun r => r * r = a)

def ops13 : FieldOps (ZMod 13) where
  add := (· + ·)
  sub := (· - ·)
  mul := (· * ·)
  neg := fun a => -a
  inv := fun a => a ^ 11
  ofNat := fun n => (n : ZMod 13)
  sqrt := sqrt13
  c := 6

theorem lawful13 : Lawful ops13 where
  add := fun _ _ => rfl
  sub := fun _ _ => rfl
  mul := fun _ _ => rfl
  neg := fun _ => rfl
  inv := by
    intro a
    show a ^ 11 = a⁻¹
    by_cases h : a = 0
    · subst h; simp
    · have h12 : a ^ (13 - 1) = 1 := ZMod.pow_card_sub_one_eq_one h
      exact eq_inv_of_mul_eq_one_left (by rw [← pow_succ]; exact h12)
  ofNat := fun _ => rfl
  sqrt_some := by
    intro a r h
    have := List.find?_some h
    simpa using this
  sqrt_none := by
    show ∀ a : ZMod 13, sqrt13 a = none → ∀ r : ZMod 13, r * r ≠ a
    decide
  c_sq := by show (6 : ZMod 13) * 6 = -3; decide

theorem hyps13 : (2 : ZMod 13) ≠ 0 ∧ (3 : ZMod 13) ≠ 0 ∧ ∀ a : ZMod 13, a ^ 3 + 7 ≠ 0 := by decide

end BV.C19.Ellswift.Lemmas
