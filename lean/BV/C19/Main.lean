import BV.Common.Loop
import BV.C19.Driver
/-! `drv_c19`: one case per input line `C19 <op> <args…>`, one canonical result line back.
Imports only core-only modules so that it links as a native executable. -/
def main : IO Unit := BV.Loop.run "C19" BV.C19.Driver.handle
