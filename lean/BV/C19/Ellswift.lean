/-
C19 — ElligatorSwift (BIP324): XSwiftEC, XSwiftECInv over an abstract record of field operations
(`FieldOps F`), so that the same definitions are (a) executed over secp256k1's prime field
(`natOps`, arithmetic on `Nat` mod p from BV/Common/Secp256k1.lean) by the driver and (b) reasoned
about over any Mathlib `Field` in `EllswiftLemmas.lean`. Core-only.
-/
import BV.Common.Hex
import BV.Common.Sha256
import BV.Common.Secp256k1
import BV.C19.Field
namespace BV.C19.Ellswift

structure FieldOps (F : Type) where
  add : F → F → F
  sub : F → F → F
  mul : F → F → F
  neg : F → F
  inv : F → F
  ofNat : Nat → F
  /-- some square root if one exists -/
  sqrt : F → Option F
  /-- a fixed square root of -3 -/
  c : F

section generic
variable {F : Type} [DecidableEq F] (O : FieldOps F)

local infixl:65 " +' " => O.add
local infixl:65 " -' " => O.sub
local infixl:70 " *' " => O.mul

/-- g(x) = x³ + 7 -/
def g (x : F) : F := x *' x *' x +' O.ofNat 7

def isSquare (a : F) : Bool := (O.sqrt a).isSome

def div (a b : F) : F := a *' O.inv b

/-- steps 1–3 of BIP324 `xswiftec`: u = 0 ↦ 1, t = 0 ↦ 1, and t ↦ 2t when g(u) = −t² -/
def normUT (u t : F) : F × F :=
  let u := if u = O.ofNat 0 then O.ofNat 1 else u
  let t := if t = O.ofNat 0 then O.ofNat 1 else t
  let t := if g O u = O.neg (t *' t) then t +' t else t
  (u, t)

/-- steps 4–6: X = (g(u) − t²)/(2t), Y = (X + t)/(c·u); candidates
(u + 4Y², −X/(2Y) − u/2, X/(2Y) − u/2) -/
def cands (u t : F) : F × F × F :=
  let X := div O (g O u -' t *' t) (O.ofNat 2 *' t)
  let Y := div O (X +' t) (O.c *' u)
  let h := div O X (O.ofNat 2 *' Y)
  let hu := div O u (O.ofNat 2)
  (u +' O.ofNat 4 *' (Y *' Y), O.neg h -' hu, h -' hu)

/-- the first candidate x with g(x) a square; `none` mirrors Go's "no calculated x-values were
square" (cannot happen over a finite field) -/
def pick (c : F × F × F) : Option F :=
  if isSquare O (g O c.1) then some c.1 else
  if isSquare O (g O c.2.1) then some c.2.1 else
  if isSquare O (g O c.2.2) then some c.2.2 else none

/-- BIP324 `xswiftec(u, t)` -/
def xswiftec (u t : F) : Option F :=
  pick O (cands O (normUT O u t).1 (normUT O u t).2)

/-- first half of BIP324 `xswiftec_inv(x, u, case)`: the conic point (v, s = w²) -/
def invVS (u x : F) (case : Nat) : Option (F × F) :=
  if case &&& 2 = 0 then
    if isSquare O (g O (O.neg (x +' u))) then none else
    some (x, O.neg (div O (g O u) (u *' u +' u *' x +' x *' x)))
  else
    let s := x -' u
    if s = O.ofNat 0 then none else
    match O.sqrt (O.neg (s *' (O.ofNat 4 *' g O u +' O.ofNat 3 *' (u *' u) *' s))) with
    | none => none
    | some r =>
      if case &&& 1 = 1 ∧ r = O.ofNat 0 then none else
      some (div O (div O r s -' u) (O.ofNat 2), s)

/-- second half: t = ±w·(u(1∓c)/2 + v);
case&5 = 0: −w(..(1−c)..), 1: w(..(1+c)..), 4: w(..(1−c)..), 5: −w(..(1+c)..) -/
def invT (u v w : F) (case : Nat) : F :=
  let a := if case &&& 1 = 0 then div O (u *' (O.ofNat 1 -' O.c)) (O.ofNat 2) +' v
           else div O (u *' (O.ofNat 1 +' O.c)) (O.ofNat 2) +' v
  if (case &&& 5 = 0) ∨ (case &&& 5 = 5) then O.neg (w *' a) else w *' a

/-- BIP324 `xswiftec_inv(x, u, case)` -/
def xswiftecInv (u x : F) (case : Nat) : Option F :=
  match invVS O u x case with
  | none => none
  | some (v, s) =>
    match O.sqrt s with
    | none => none
    | some w => some (invT O u v w case)

end generic

/-! ### the concrete field of secp256k1 -/
def natOps : FieldOps Nat where
  add := Field.fadd
  sub := Field.fsub
  mul := Field.fmul
  neg := Field.fneg
  inv := Field.finv
  ofNat := fun n => n % Field.p
  sqrt := Field.fsqrt
  c := Field.cSqrtM3

open BV.Hex BV.Secp256k1

/-- decode a 64-byte ElligatorSwift encoding to the x-coordinate it represents -/
def decode (ell : List UInt8) : Option Nat :=
  xswiftec natOps (beToNat (ell.take 32) % p) (beToNat ((ell.drop 32).take 32) % p)

/-- x-only ECDH: x(priv · lift_x(decode ell)) as 32 big-endian bytes -/
def ecdhXOnly (ell : List UInt8) (priv : Nat) : Option (List UInt8) :=
  match decode ell with
  | none => none
  | some x =>
    match liftX x with
    | none => none
    | some pt =>
      match mul (priv % n) pt with
      | .inf => some (natBE 0 32)
      | .aff sx _ => some (natBE sx 32)

def taggedList (tag : String) (msg : List UInt8) : List UInt8 :=
  (BV.Sha256.tagged tag ⟨msg.toArray⟩).toList

/-- BIP324 `v2_ecdh`: tagged hash over initiator key ‖ responder key ‖ shared x -/
def v2Ecdh (priv : Nat) (ellTheirs ellOurs : List UInt8) (initiating : Bool) : Option (List UInt8) :=
  match ecdhXOnly ellTheirs priv with
  | none => none
  | some x =>
    some (taggedList "bip324_ellswift_xonly_ecdh"
      (if initiating then ellOurs ++ ellTheirs ++ x else ellTheirs ++ ellOurs ++ x))

/-- mirror of `EllswiftCreate` on an explicit random byte stream `rnd` (Go: crypto/rand):
32 bytes private key, then repeatedly (32 bytes u, 1 byte case) until `xswiftecInv` succeeds.
Returns (private scalar, 64-byte encoding, unread rest of the stream). -/
def createLoop (x : Nat) : Nat → List UInt8 → Option (List UInt8 × List UInt8)
  | 0, _ => none
  | fuel + 1, rnd =>
    let u := beToNat (rnd.take 32) % p
    let case := ((rnd.drop 32).headD 0).toNat % 8
    let rest := rnd.drop 33
    match xswiftecInv natOps u x case with
    | some t => some (natBE u 32 ++ natBE t 32, rest)
    | none => createLoop x fuel rest

def create (rnd : List UInt8) : Option (Nat × List UInt8 × List UInt8) :=
  let priv := beToNat (rnd.take 32) % n
  match mulG priv with
  | .inf => none
  | .aff x _ =>
    match createLoop x 4096 (rnd.drop 32) with
    | none => none
    | some (ell, rest) => some (priv, ell, rest)

end BV.C19.Ellswift
