/-
C19 — executable mirror of btcd's v2transport: FSChaCha20, FSChaCha20Poly1305 (chacha.go) and the
packet layer V2EncPacket / V2ReceivePacket (transport.go), over abstract primitives `Prims`
(key stream + one-time MAC). Core-only.
-/
import BV.Common.Hex
import BV.Common.Aead
import BV.C19.Spec
namespace BV.C19
open BV.Hex BV.Aead

/-! ### FSChaCha20Poly1305 (chacha.go: crypt) -/

/-- state: current key and `packetCtr` -/
structure FSP where
  key : List UInt8
  ctr : Nat
deriving DecidableEq, Repr

def fspNonce (ctr : Nat) : List UInt8 := natLE (ctr % 224) 4 ++ natLE (ctr / 224) 8

def fspRekeyNonce (ctr : Nat) : List UInt8 := [0xff, 0xff, 0xff, 0xff] ++ natLE (ctr / 224) 8

/-- state update after one successful crypt: `packetCtr++`, and when the new counter is a multiple
of 224 the key becomes the first 32 bytes of Seal(rekeyNonce, 32 zero bytes). -/
def fspAdvance (P : Prims) (s : FSP) : FSP :=
  if (s.ctr + 1) % 224 = 0 then
    ⟨(aeadSeal P s.key (fspRekeyNonce s.ctr) [] (List.replicate 32 0)).take 32, s.ctr + 1⟩
  else ⟨s.key, s.ctr + 1⟩

def fspEncrypt (P : Prims) (s : FSP) (aad pt : List UInt8) : List UInt8 × FSP :=
  (aeadSeal P s.key (fspNonce s.ctr) aad pt, fspAdvance P s)

/-- decrypt: on authentication failure the state is NOT advanced (Go returns the error before
`packetCtr++`). -/
def fspDecrypt (P : Prims) (s : FSP) (aad c : List UInt8) : Option (List UInt8 × FSP) :=
  match aeadOpen? P s.key (fspNonce s.ctr) aad c with
  | some pt => some (pt, fspAdvance P s)
  | none => none

/-! ### FSChaCha20 (chacha.go: Crypt) -/

/-- state: current key, `chunkCtr`, and the number of key-stream bytes already consumed under the
current key (x/crypto's chacha20.Cipher keeps its position between XORKeyStream calls). -/
structure FSC where
  key : List UInt8
  ctr : Nat
  pos : Nat
deriving DecidableEq, Repr

def fscNonce (ctr : Nat) : List UInt8 := natLE 0 4 ++ natLE (ctr / 224) 8

def fscCrypt (P : Prims) (s : FSC) (text : List UInt8) : List UInt8 × FSC :=
  let out := xorBytes text (P.stream s.key (fscNonce s.ctr) s.pos text.length)
  let pos' := s.pos + text.length
  let s' : FSC :=
    if (s.ctr + 1) % 224 = 0 then ⟨P.stream s.key (fscNonce s.ctr) pos' 32, s.ctr + 1, 0⟩
    else ⟨s.key, s.ctr + 1, pos'⟩
  (out, s')

/-! ### one direction of a session: length cipher + packet cipher -/

structure Dir where
  l : FSC
  p : FSP
deriving DecidableEq, Repr

def Dir.init (keyL keyP : List UInt8) : Dir := ⟨⟨keyL, 0, 0⟩, ⟨keyP, 0⟩⟩

def header (ignore : Bool) : UInt8 := if ignore then 0x80 else 0

/-- the wire encoding of one packet with header byte `hdr` at direction state `d`:
3-byte length under the length cipher ‖ AEAD(hdr ‖ contents) under the packet cipher -/
def encodePacket (P : Prims) (d : Dir) (hdr : UInt8) (contents aad : List UInt8) : List UInt8 × Dir :=
  let body := fspEncrypt P d.p aad (hdr :: contents)
  let encLen := fscCrypt P d.l (natLE contents.length 3)
  (encLen.1 ++ body.1, ⟨encLen.2, body.2⟩)

/-- V2EncPacket: `none` = errContentLengthExceeded; otherwise the bytes written and the new state. -/
def sendPacket (P : Prims) (d : Dir) (contents aad : List UInt8) (ignore : Bool) :
    Option (List UInt8 × Dir) :=
  if contents.length > 2 ^ 24 - 1 then none else some (encodePacket P d (header ignore) contents aad)

inductive RecvOne where
  /-- the stream ended inside the packet (Go: the Read error of the connection) -/
  | short
  /-- the AEAD tag did not verify -/
  | authFail
  /-- one packet decrypted: ignore flag, contents, new state, remaining stream -/
  | packet (ignore : Bool) (contents : List UInt8) (d : Dir) (rest : List UInt8)
deriving DecidableEq, Repr

/-- one iteration of the V2ReceivePacket loop on the byte stream `wire` -/
def recvOne (P : Prims) (d : Dir) (wire aad : List UInt8) : RecvOne :=
  if wire.length < 3 then .short else
  let (lenBytes, l') := fscCrypt P d.l (wire.take 3)
  let n := leToNat lenBytes
  let need := 1 + n + 16
  let rest := wire.drop 3
  if rest.length < need then .short else
  match fspDecrypt P d.p aad (rest.take need) with
  | none => .authFail
  | some (pt, p') =>
    .packet ((pt.headD 0 &&& 0x80) != 0) pt.tail ⟨l', p'⟩ (rest.drop need)

inductive RecvOut where
  | short
  | authFail
  | ok (contents : List UInt8) (d : Dir) (rest : List UInt8)
deriving DecidableEq, Repr

/-- V2ReceivePacket: loop over packets, discarding those with the ignore bit; the AAD applies to
the first packet only. `fuel` bounds the number of iterations (`wire.length` suffices since each
iteration consumes at least 20 bytes). -/
def recvPacket (P : Prims) : Nat → Dir → List UInt8 → List UInt8 → RecvOut
  | 0, _, _, _ => .short
  | fuel + 1, d, wire, aad =>
    match recvOne P d wire aad with
    | .short => .short
    | .authFail => .authFail
    | .packet ign c d' rest => if ign then recvPacket P fuel d' rest [] else .ok c d' rest

/-! ### raw I/O helpers of the Peer (Send / Receive) -/

/-- `Peer.Receive(n)` on a stream that ends: either exactly `n` bytes and the rest of the stream, or
the error together with the number of bytes that had been read (everything that was left) -/
def recvN (inp : List UInt8) (n : Nat) : Except Nat (List UInt8 × List UInt8) :=
  if inp.length < n then .error inp.length else .ok (inp.take n, inp.drop n)

/-- `Peer.Send(data)` on a writer that accepts at most `cap` bytes per call without reporting an
error: bytes written, and whether the short write is reported (io.ErrShortWrite) -/
def sendN (len cap : Nat) : Nat × Bool := if cap < len then (cap, false) else (len, true)

end BV.C19
