/-
C19 — the prime field of secp256k1 as arithmetic on `Nat` modulo `p` (own small copy so that the
refinement proof in EllswiftRefine.lean does not depend on files owned by other properties).
Core-only, executable.
-/
namespace BV.C19.Field

def p : Nat := 0xFFFFFFFFFFFFFFFFFFFFFFFFFFFFFFFFFFFFFFFFFFFFFFFFFFFFFFFEFFFFFC2F

/-- square-and-multiply: `acc · b^e mod m`, structural on `fuel` (≥ bit length of `e`);
`b` and `acc` are kept reduced -/
def powAux (m : Nat) : Nat → Nat → Nat → Nat → Nat
  | 0, _, _, acc => acc
  | fuel + 1, b, e, acc =>
    if e = 0 then acc
    else powAux m fuel (b * b % m) (e / 2) (if e % 2 = 1 then acc * b % m else acc)

def powMod (m a e : Nat) : Nat := powAux m (e.log2 + 1) (a % m) e (1 % m)

def fadd (a b : Nat) : Nat := (a + b) % p
def fsub (a b : Nat) : Nat := (a + (p - b % p)) % p
def fmul (a b : Nat) : Nat := (a * b) % p
def fneg (a : Nat) : Nat := (p - a % p) % p
/-- a^(p−2) -/
def finv (a : Nat) : Nat := powMod p a (p - 2)
/-- a^((p+1)/4) if that is a square root (p ≡ 3 mod 4) -/
def fsqrt (a : Nat) : Option Nat :=
  let r := powMod p a ((p + 1) / 4)
  if r * r % p = a % p then some r else none

/-- a square root of −3 -/
def cSqrtM3 : Nat := 0x0a2d2ba93507f1df233770c2a797962cc61f6d15da14ecd47d8d27ae1cd5f852

/-- c² = −3 (mod p) -/
theorem cSqrtM3_sq : (cSqrtM3 * cSqrtM3 + 3) % p = 0 := by
  simp only [cSqrtM3, p, Nat.reduceMul, Nat.reduceAdd, Nat.reduceMod]

end BV.C19.Field
