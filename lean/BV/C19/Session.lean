/-
C19 — key schedule (createV2Ciphers) and the two handshake roles of v2transport.Peer as functions
of (random stream, scripted input bytes). Mirrors transport.go: InitiateV2Handshake,
RespondV2Handshake (v1-prefix detection), CompleteHandshake (terminator, decoys, version packet,
garbage scan, first packet with the garbage as AAD). Core-only.
-/
import BV.Common.Hex
import BV.Common.Aead
import BV.Common.Hmac
import BV.C19.Model
import BV.C19.Ellswift
namespace BV.C19
open BV.Hex BV.Aead

/-- abstract HKDF -/
structure Kdf where
  extract : (salt ikm : List UInt8) → List UInt8
  expand : (prk info : List UInt8) → (len : Nat) → List UInt8

def hkdfSha256 : Kdf := ⟨BV.Hmac.extractList, BV.Hmac.expandList⟩

structure Keys where
  initiatorL : List UInt8
  initiatorP : List UInt8
  responderL : List UInt8
  responderP : List UInt8
  sessionId : List UInt8
  initiatorTerm : List UInt8
  responderTerm : List UInt8
deriving DecidableEq, Repr

def ascii (s : String) : List UInt8 := s.toUTF8.toList

/-- BIP324 key schedule: salt = "bitcoin_v2_shared_secret" ‖ magic (LE32) -/
def schedule (K : Kdf) (secret : List UInt8) (magic : Nat) : Keys :=
  let prk := K.extract (ascii "bitcoin_v2_shared_secret" ++ natLE magic 4) secret
  let gt := K.expand prk (ascii "garbage_terminators") 32
  { initiatorL := K.expand prk (ascii "initiator_L") 32
    initiatorP := K.expand prk (ascii "initiator_P") 32
    responderL := K.expand prk (ascii "responder_L") 32
    responderP := K.expand prk (ascii "responder_P") 32
    sessionId := K.expand prk (ascii "session_id") 32
    initiatorTerm := gt.take 16
    responderTerm := gt.drop 16 }

structure Session where
  send : Dir
  recv : Dir
  sendTerm : List UInt8
  recvTerm : List UInt8
  sessionId : List UInt8
deriving DecidableEq, Repr

def mkSession (k : Keys) (initiating : Bool) : Session :=
  if initiating then
    ⟨Dir.init k.initiatorL k.initiatorP, Dir.init k.responderL k.responderP,
     k.initiatorTerm, k.responderTerm, k.sessionId⟩
  else
    ⟨Dir.init k.responderL k.responderP, Dir.init k.initiatorL k.initiatorP,
     k.responderTerm, k.initiatorTerm, k.sessionId⟩

/-- first 16 bytes of a v1 version message: magic ‖ "version" ‖ 5 zero bytes -/
def v1Prefix (magic : Nat) : List UInt8 :=
  natLE magic 4 ++ [0x76, 0x65, 0x72, 0x73, 0x69, 0x6f, 0x6e] ++ List.replicate 5 0

inductive Status where
  | ok | io | auth | useV1 | downgradeV1 | wrongnetV1 | noTerminator | contentTooLong
  | garbageTooLarge | internal | admission
deriving DecidableEq, Repr

def Status.toString : Status → String
  | .ok => "ok" | .io => "io" | .auth => "auth" | .useV1 => "use-v1"
  | .downgradeV1 => "downgrade-v1" | .wrongnetV1 => "wrongnet-v1"
  | .noTerminator => "no-terminator" | .contentTooLong => "content-too-long"
  | .garbageTooLarge => "garbage-too-large" | .internal => "internal" | .admission => "admission"

/-- result of a handshake: bytes written, status, session state (when key agreement completed),
unread rest of the input -/
structure HsOut where
  written : List UInt8
  status : Status
  sess : Option Session
  rest : List UInt8

/-- Garbage scan of CompleteHandshake. Go reads 16 bytes, then `MaxGarbageLen + 1` times compares
the last 16 bytes with the terminator, reading one more byte between two comparisons. `i` = number
of garbage bytes skipped so far, `fuel` = remaining comparisons. Result: `.ok g` (garbage length),
or the error. (Before commit "fix: v2transport: accept a garbage terminator after exactly
MaxGarbageLen bytes" the code made only `MaxGarbageLen` comparisons — finding F-C19-a.) -/
def scanGarbage (term : List UInt8) (inp : List UInt8) : Nat → Nat → Except Status Nat
  | 0, _ => .error .noTerminator
  | fuel + 1, i =>
    if ((inp.drop i).take 16) = term then .ok i
    else if fuel = 0 then .error .noTerminator
    else if inp.length ≤ i + 16 then .error .io
    else scanGarbage term inp fuel (i + 1)

/-- number of comparisons of the scan loop: garbage lengths 0 … MAX_GARBAGE_LEN -/
def scanIterations : Nat := Spec.MAX_GARBAGE_LEN + 1

/-- send the decoys (given contents — BIP324 leaves them to the sender —, ignore bit) then the (empty) version packet; the AAD
(our garbage) goes with the first packet only. -/
def sendDecoys (P : Prims) : Dir → List UInt8 → List (List UInt8) → List UInt8 → Except (List UInt8) (List UInt8 × Dir)
  | d, aad, [], acc =>
    match sendPacket P d [] aad false with
    | some (b, d') => .ok (acc ++ b, d')
    | none => .error acc
  | d, aad, n :: ns, acc =>
    match sendPacket P d n aad true with
    | some (b, d') => sendDecoys P d' [] ns (acc ++ b)
    | none => .error acc

/-- the part of CompleteHandshake after key agreement -/
def completeAfterKeys (P : Prims) (s : Session) (garbage : List UInt8) (decoys : List (List UInt8))
    (written inp : List UInt8) : HsOut :=
  let written := written ++ s.sendTerm
  match sendDecoys P s.send garbage decoys [] with
  | .error acc => ⟨written ++ acc, .contentTooLong, some s, inp⟩
  | .ok (bytes, send') =>
    let written := written ++ bytes
    let s := { s with send := send' }
    if inp.length < 16 then ⟨written, .io, some s, []⟩ else
    match scanGarbage s.recvTerm inp scanIterations 0 with
    | .error e => ⟨written, e, some s, []⟩
    | .ok g =>
      let rest := inp.drop (g + 16)
      match recvPacket P rest.length s.recv rest (inp.take g) with
      | .short => ⟨written, .io, some s, []⟩
      | .authFail => ⟨written, .auth, some s, []⟩
      | .ok _ recv' rest' => ⟨written, .ok, some { s with recv := recv' }, rest'⟩

/-- InitiateV2Handshake(gLen) followed by CompleteHandshake(true, decoys, magic) -/
def initiator (P : Prims) (K : Kdf) (magic : Nat) (rnd : List UInt8) (gLen : Nat) (decoys : List (List UInt8))
    (inp : List UInt8) : HsOut :=
  match Ellswift.create rnd with
  | none => ⟨[], .internal, none, inp⟩
  | some (priv, ell, rnd') =>
    if gLen > 4095 then ⟨[], .garbageTooLarge, none, inp⟩ else
    let garbage := rnd'.take gLen
    let written := ell ++ garbage
    if inp.length < 64 then
      ⟨written, if inp.length = 0 then .downgradeV1 else .io, none, []⟩
    else
    match Ellswift.v2Ecdh priv (inp.take 64) ell true with
    | none => ⟨written, .internal, none, inp.drop 64⟩
    | some secret =>
      completeAfterKeys P (mkSession (schedule K secret magic) true) garbage decoys written (inp.drop 64)

/-- index of the first byte of `inp` (among the first 16) that differs from the v1 prefix:
`.ok i`; `.error .io` if the input ends first; `.error .useV1` if all 16 match. -/
def v1Mismatch (v1 inp : List UInt8) : Nat → Nat → Except Status Nat
  | 0, _ => .error .useV1
  | fuel + 1, i =>
    if inp.length ≤ i then .error .io
    else if inp.getD i 0 ≠ v1.getD i 0 then .ok i
    else v1Mismatch v1 inp fuel (i + 1)

/-- RespondV2Handshake(gLen, magic) followed by CompleteHandshake(false, decoys, magic) -/
def responder (P : Prims) (K : Kdf) (magic : Nat) (rnd : List UInt8) (gLen : Nat) (decoys : List (List UInt8))
    (inp : List UInt8) : HsOut :=
  let v1 := v1Prefix magic
  match v1Mismatch v1 inp 16 0 with
  | .error e => ⟨[], e, none, []⟩
  | .ok _ =>
    match Ellswift.create rnd with
    | none => ⟨[], .internal, none, inp⟩
    | some (priv, ell, rnd') =>
      if gLen > 4095 then ⟨[], .garbageTooLarge, none, inp⟩ else
      let garbage := rnd'.take gLen
      let written := ell ++ garbage
      if inp.length < 64 then ⟨written, .io, none, []⟩ else
      let theirs := inp.take 64
      if (theirs.drop 4).take 12 = (v1.drop 4).take 12 then ⟨written, .wrongnetV1, none, inp.drop 64⟩ else
      match Ellswift.v2Ecdh priv theirs ell false with
      | none => ⟨written, .internal, none, inp.drop 64⟩
      | some secret =>
        completeAfterKeys P (mkSession (schedule K secret magic) false) garbage decoys written (inp.drop 64)

/-- RespondV2Handshake + CompleteHandshake with a HandshakeAdmission installed
(`WithResponderHandshakeAdmission`). `adm`: 0 = none / always admits, 1 = the first Acquire (before
key generation) fails, 2 = the second Acquire (before key agreement) fails, ≥ 3 = admits.
Result: the handshake outcome and the numbers of successful-or-attempted Acquire calls and of
release calls. The v1 path never consults the admission; a rejected first Acquire writes nothing;
every acquired lease is released before network I/O continues. -/
def responderAdm (P : Prims) (K : Kdf) (magic : Nat) (rnd : List UInt8) (gLen : Nat) (decoys : List (List UInt8))
    (inp : List UInt8) (adm : Nat) : HsOut × Nat × Nat :=
  let v1 := v1Prefix magic
  match v1Mismatch v1 inp 16 0 with
  | .error e => (⟨[], e, none, []⟩, 0, 0)
  | .ok _ =>
    if adm = 1 then (⟨[], .admission, none, inp⟩, 1, 0) else
    match Ellswift.create rnd with
    | none => (⟨[], .internal, none, inp⟩, 1, 1)
    | some (_, ell, rnd') =>
      if gLen > 4095 then (⟨[], .garbageTooLarge, none, inp⟩, 1, 1) else
      let written := ell ++ rnd'.take gLen
      if inp.length < 64 then (⟨written, .io, none, []⟩, 1, 1) else
      if ((inp.take 64).drop 4).take 12 = (v1.drop 4).take 12 then (⟨written, .wrongnetV1, none, inp.drop 64⟩, 1, 1) else
      if adm = 2 then (⟨written, .admission, none, inp.drop 64⟩, 2, 1) else
      (responder P K magic rnd gLen decoys inp, 2, 2)

/-- `Peer.ReceivedPrefix()` after RespondV2Handshake: the bytes consumed while classifying the
transport — the 16 matching bytes for a v1 peer (peer.go hands them to the v1 message reader),
the bytes up to and including the first mismatch if the handshake stopped before the rest of the
key arrived, the full 64-byte key otherwise. `stopped` = the responder gave up before reading the
rest of the key (admission rejected, garbage too large). -/
def responderPrefix (magic : Nat) (inp : List UInt8) (stopped : Bool) : List UInt8 :=
  match v1Mismatch (v1Prefix magic) inp 16 0 with
  | .error .useV1 => inp.take 16
  | .error _ => inp.take 16
  | .ok i => if stopped ∨ inp.length < 64 then inp.take (i + 1) else inp.take 64

end BV.C19
