/-
C19 — property theorems.
-/
import BV.C19.Spec
import BV.C19.Model
import BV.Generated.C19
namespace BV.C19
open BV.C19.Spec

/-! ### constants of the compiled tree pinned to the protocol constants -/
theorem pin_rekeyInterval : Generated.C19.rekeyInterval = REKEY_INTERVAL := by decide
theorem pin_keySize : Generated.C19.keySize = KEY_LEN := by decide
theorem pin_garbageSize : Generated.C19.garbageSize = GARBAGE_TERMINATOR_LEN := by decide
theorem pin_maxGarbageLen : Generated.C19.maxGarbageLen = MAX_GARBAGE_LEN := by decide
theorem pin_maxContentLen : Generated.C19.maxContentLen = MAX_CONTENT_LEN := by decide
theorem pin_lengthFieldLen : Generated.C19.lengthFieldLen = LENGTH_FIELD_LEN := by decide
theorem pin_headerLen : Generated.C19.headerLen = HEADER_LEN := by decide
theorem pin_tagLen : Generated.C19.chachapoly1305Expansion = TAG_LEN := by decide
theorem pin_ignoreBit : (2 : Int) ^ Generated.C19.ignoreBitPos.toNat = IGNORE_BIT := by decide
theorem pin_transportVersionLen : Generated.C19.transportVersionLen = 0 := by decide

end BV.C19
