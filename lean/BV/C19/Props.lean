/-
C19 — property theorems. `P : Prims` is an ARBITRARY pair (key stream, one-time MAC): ChaCha20 and
Poly1305 are never unfolded; the only hypothesis about them is that tags are 16 bytes long
(`hmac`), which the concrete instance satisfies (`chachaPoly_tag_length`).
-/
import BV.C19.Spec
import BV.C19.Model
import BV.C19.Session
import BV.C19.Lemmas
import BV.C19.Stream
import BV.C19.Nonce
import BV.C19.SessionLemmas
import BV.C19.EllswiftLemmas
import BV.C19.EllswiftExample
import BV.C19.EllswiftRefine
import BV.C19.EllswiftBytes
import BV.Generated.C19
namespace BV.C19
open BV.C19.Spec BV.Aead BV.Hex

/-! ### constants of the compiled tree pinned to the protocol constants -/
theorem pin_rekeyInterval : Generated.C19.rekeyInterval = REKEY_INTERVAL := by decide
theorem pin_keySize : Generated.C19.keySize = KEY_LEN := by decide
theorem pin_garbageSize : Generated.C19.garbageSize = GARBAGE_TERMINATOR_LEN := by decide
theorem pin_maxGarbageLen : Generated.C19.maxGarbageLen = MAX_GARBAGE_LEN := by decide
theorem pin_maxContentLen : Generated.C19.maxContentLen = MAX_CONTENT_LEN := by decide
theorem pin_lengthFieldLen : Generated.C19.lengthFieldLen = LENGTH_FIELD_LEN := by decide
theorem pin_headerLen : Generated.C19.headerLen = HEADER_LEN := by decide
theorem pin_tagLen : Generated.C19.chachapoly1305Expansion = TAG_LEN := by decide
theorem pin_ignoreBit : (2 : Int) ^ Generated.C19.ignoreBitPos.toNat = IGNORE_BIT := by decide
theorem pin_transportVersionLen : Generated.C19.transportVersionLen = 0 := by decide

theorem pin_v1Prefix :
    Generated.C19.v1PrefixMainnet = (v1Prefix 0xd9b4bef9).map (fun b => (b.toNat : Int)) := by decide

/-- the model's constants are the protocol constants -/
theorem model_constants :
    scanIterations = MAX_GARBAGE_LEN + 1 ∧ header true = UInt8.ofNat IGNORE_BIT ∧ header false = 0 ∧
    Aead.tagLen = TAG_LEN := by decide

/-- the hypothesis `hmac` of the theorems below holds for the concrete Poly1305 reference -/
theorem chachaPoly_tag_length (k m : List UInt8) : (chachaPoly.mac k m).length = 16 := by
  simp only [chachaPoly, BV.Poly1305.mac, Lemmas.natLE_length]

/-! ### AEAD: open ∘ seal, and soundness by construction -/

theorem aead_open_seal (P : Prims) (hmac : ∀ k m, (P.mac k m).length = 16)
    (key nonce aad pt : List UInt8) :
    aeadOpen? P key nonce aad (aeadSeal P key nonce aad pt) = some pt :=
  Lemmas.open_seal P hmac key nonce aad pt

theorem aead_accepted_is_sealed (P : Prims) (key nonce aad c pt : List UInt8)
    (h : aeadOpen? P key nonce aad c = some pt) : c = aeadSeal P key nonce aad pt :=
  Lemmas.open_sound P key nonce aad c pt h

/-! ### stream synchronisation: in-order lossless delivery across any number of rekeys -/

/-- For EVERY list of packets (any sizes below 2^24, any ignore flags, any AADs, any length — hence
across any number of rekey intervals) that the sender in state `d` turns into the byte string `w`
ending in state `d'`: a receiver in the same state `d`, reading `w` (followed by anything), gets
exactly the same packets — contents and ignore flag — in the same order, consumes exactly `w`, and
ends in the sender's state `d'`. -/
theorem stream_sync (P : Prims) (hmac : ∀ k m, (P.mac k m).length = 16)
    (pkts : List Pkt) (d d' : Dir) (w rest : List UInt8) (h : sendAll P d pkts = some (w, d')) :
    recvSeq P d (w ++ rest) (pkts.map (·.aad)) =
      some (pkts.map (fun p => (p.ignore, p.contents)), d', rest) :=
  Lemmas.stream_sync_pkts P hmac pkts d d' w rest h

/-- the same for one packet: `recv (send m) = m` at every position -/
theorem recv_send (P : Prims) (hmac : ∀ k m, (P.mac k m).length = 16) (d : Dir) (hdr : UInt8)
    (c aad rest : List UInt8) (hc : c.length < 2 ^ 24) :
    recvOne P d ((encodePacket P d hdr c aad).1 ++ rest) aad =
      .packet ((hdr &&& 0x80) != 0) c (encodePacket P d hdr c aad).2 rest :=
  Lemmas.recvOne_encode P hmac d hdr c aad rest hc

/-- V2ReceivePacket as written in transport.go: any number of decoys (ignore bit) in front of a
real packet are skipped, the caller's AAD is applied to the first packet on the wire only, the real
packet's contents are returned, and the receiver's ciphers end in the sender's state. -/
theorem receive_skips_decoys (P : Prims) (hmac : ∀ k m, (P.mac k m).length = 16)
    (ds : List Pkt) (p : Pkt) (A : List UInt8) (d d' : Dir) (w rest : List UInt8) (fuel : Nat)
    (hds : ∀ q ∈ ds, q.ignore = true) (hp : p.ignore = false) (hf : ds.length < fuel)
    (ha : (ds ++ [p]).map (·.aad) = A :: List.replicate ds.length [])
    (hs : sendAll P d (ds ++ [p]) = some (w, d')) :
    recvPacket P fuel d (w ++ rest) A = .ok p.contents d' rest :=
  Lemmas.recvPacket_skips P hmac ds p A d d' w rest fuel hds hp hf ha hs

/-- the exported length cipher FSChaCha20 on chunks of ANY sizes (not only the 3-byte fields of the
packet layer): a second instance started from the same state decrypts every chunk in order and
ends in the same state — across any number of rekeys -/
theorem length_cipher_sync (P : Prims) (cs : List (List UInt8)) (s : FSC) :
    Lemmas.fscAll P s (Lemmas.fscAll P s cs).1 = (cs, (Lemmas.fscAll P s cs).2) :=
  Lemmas.fscAll_invol P cs s

/-! ### accepted ⇒ sealed -/

/-- If a receiver in state `d` accepts a packet from ANY byte stream `wire`, then the bytes it
consumed are exactly the encoding — at this very position `d` of the stream (key, nonce) and under
this AAD — of the delivered contents with a header carrying the delivered ignore bit, and the
receiver moves to the state the sender of that encoding moves to. So a modified, reordered,
replayed or truncated ciphertext, or a wrong AAD, can be accepted only if it IS a valid sealing of
what is delivered (which an attacker without the key cannot produce if the MAC is unforgeable —
that last step is an assumption, not proved here). -/
theorem accepted_is_sealed (P : Prims) (hmac : ∀ k m, (P.mac k m).length = 16) (d d' : Dir)
    (wire aad c rest : List UInt8) (ign : Bool) (h : recvOne P d wire aad = .packet ign c d' rest) :
    ∃ hdr : UInt8, wire = (encodePacket P d hdr c aad).1 ++ rest ∧ d' = (encodePacket P d hdr c aad).2 ∧
      ign = ((hdr &&& 0x80) != 0) ∧ c.length < 2 ^ 24 :=
  Lemmas.recvOne_sound P hmac d d' wire aad c rest ign h

/-- consequence: if the stream at position `d` does NOT start with the encoding of the packet
(hdr₀, c₀) the honest sender produced at this position (it was modified, truncated, replaced by a
packet from another position, …) and the receiver nevertheless accepts something, then what it
accepts is a valid sealing, at this position, of a DIFFERENT (header, contents) — i.e. a forgery
of the MAC under a key the attacker does not know; it can never be delivered as an alteration of
the honest packet "for free". -/
theorem tampered_accept_is_forgery (P : Prims) (hmac : ∀ k m, (P.mac k m).length = 16) (d d' : Dir)
    (wire aad c rest : List UInt8) (ign : Bool) (hdr₀ : UInt8) (c₀ : List UInt8)
    (h : recvOne P d wire aad = .packet ign c d' rest)
    (hne : ¬ ∃ r, wire = (encodePacket P d hdr₀ c₀ aad).1 ++ r) :
    ∃ hdr : UInt8, (hdr, c) ≠ (hdr₀, c₀) ∧ wire = (encodePacket P d hdr c aad).1 ++ rest := by
  obtain ⟨hdr, hw, _, _, _⟩ := Lemmas.recvOne_sound P hmac d d' wire aad c rest ign h
  refine ⟨hdr, ?_, hw⟩
  intro heq
  injection heq with h1 h2
  subst h1; subst h2
  exact hne ⟨rest, hw⟩

/-- the same for a whole accepted sequence: the consumed prefix of the stream is the in-order
concatenation of the encodings of the delivered packets at positions 0,1,2,… -/
theorem accepted_sequence_is_sealed (P : Prims) (hmac : ∀ k m, (P.mac k m).length = 16)
    (aads : List (List UInt8)) (d : Dir) (wire : List UInt8) (rs : List (Bool × List UInt8))
    (d' : Dir) (rest : List UInt8) (h : recvSeq P d wire aads = some (rs, d', rest)) :
    ∃ raws : List RawPkt, raws.map (·.aad) = aads ∧
      raws.map (fun p => (ignoreBit p.hdr, p.contents)) = rs ∧
      wire = (encodeAll P d raws).1 ++ rest ∧ d' = (encodeAll P d raws).2 :=
  Lemmas.recvSeq_sound P hmac aads d wire rs d' rest h

/-! ### rekey schedule = specification -/

/-- The incremental state machine of chacha.go (counter, key, rekey when the counter reaches a
multiple of 224) computes the closed form of BIP324: after `n` packets a direction uses the
`n div 224`-th key of each chain (`Spec.aeadKey`, `Spec.lenKey`), and packet `n` is encrypted under
nonce LE32(n mod 224) ‖ LE64(n div 224), the length field at key-stream offset 3·(n mod 224)
under nonce 0 ‖ LE64(n div 224). -/
theorem rekey_schedule_eq_spec (P : Prims) (kL kP : List UInt8) (pkts : List Pkt) (w : List UInt8)
    (d : Dir) (h : sendAll P (Dir.init kL kP) pkts = some (w, d)) :
    d = specDir P kL kP pkts.length ∧
    (∀ n, fspNonce n = aeadNonce n) ∧ (∀ n, fscNonce n = lenNonce (n / REKEY_INTERVAL)) ∧
    (∀ n, fspRekeyNonce n = aeadRekeyNonce (n / REKEY_INTERVAL)) := by
  refine ⟨?_, fun _ => rfl, fun _ => rfl, fun _ => rfl⟩
  have he := Lemmas.sendAll_eq_encodeAll P pkts _ w d h
  have h0 : Dir.init kL kP = specDir P kL kP 0 := by
    simp [Dir.init, specDir, Spec.lenKey, Spec.aeadKey]
  rw [h0] at he
  have := Lemmas.encodeAll_specDir P kL kP (pkts.map Pkt.raw) 0
  rw [he] at this
  simpa using this

/-- … and a receiver that has accepted `n` packets is in the same closed-form state -/
theorem receiver_state_eq_spec (P : Prims) (hmac : ∀ k m, (P.mac k m).length = 16)
    (kL kP : List UInt8) (aads : List (List UInt8)) (wire : List UInt8)
    (rs : List (Bool × List UInt8)) (d : Dir) (rest : List UInt8)
    (h : recvSeq P (Dir.init kL kP) wire aads = some (rs, d, rest)) :
    d = specDir P kL kP aads.length := by
  obtain ⟨raws, ha, _, _, hd⟩ := Lemmas.recvSeq_sound P hmac aads _ wire rs d rest h
  have h0 : Dir.init kL kP = specDir P kL kP 0 := by
    simp [Dir.init, specDir, Spec.lenKey, Spec.aeadKey]
  rw [h0, Lemmas.encodeAll_specDir] at hd
  rw [hd, ← ha]
  simp

/-! ### both endpoints derive the same session -/

/-- symmetry of the key schedule: from the same ECDH secret, the initiator's send keys/terminator
are the responder's receive keys/terminator and vice versa, and the session ids agree — for ANY
KDF. -/
theorem endpoints_agree (K : Kdf) (secret : List UInt8) (magic : Nat) :
    (mkSession (schedule K secret magic) true).send = (mkSession (schedule K secret magic) false).recv ∧
    (mkSession (schedule K secret magic) true).recv = (mkSession (schedule K secret magic) false).send ∧
    (mkSession (schedule K secret magic) true).sendTerm = (mkSession (schedule K secret magic) false).recvTerm ∧
    (mkSession (schedule K secret magic) true).recvTerm = (mkSession (schedule K secret magic) false).sendTerm ∧
    (mkSession (schedule K secret magic) true).sessionId = (mkSession (schedule K secret magic) false).sessionId := by
  simp [mkSession]

/-- both sides compute the same shared secret, given that x-only ECDH is symmetric for the two key
pairs (hypothesis `hx`: x(a·B) = x(b·A); a group-theoretic fact about secp256k1 that is not proved
here — it is exercised by the correspondence run on every handshake). -/
theorem shared_secret_agree (a b : Nat) (ellA ellB : List UInt8)
    (hx : Ellswift.ecdhXOnly ellB a = Ellswift.ecdhXOnly ellA b) :
    Ellswift.v2Ecdh a ellB ellA true = Ellswift.v2Ecdh b ellA ellB false := by
  unfold Ellswift.v2Ecdh
  rw [hx]
  cases Ellswift.ecdhXOnly ellA b <;> simp

/-! ### garbage and terminator -/

/-- every garbage length 0 … 4095 is accepted: the scan of CompleteHandshake finds a terminator
that follows `g ≤ MAX_GARBAGE_LEN` bytes, provided it does not occur earlier in the stream. -/
theorem garbage_scan_complete (term inp : List UInt8) (g : Nat) (hg : g ≤ MAX_GARBAGE_LEN)
    (hat : (inp.drop g).take 16 = term)
    (hno : ∀ i, i < g → (inp.drop i).take 16 ≠ term) (hlen : g + 16 ≤ inp.length) :
    scanGarbage term inp scanIterations 0 = .ok g :=
  Lemmas.scanGarbage_finds term inp g hat hno hlen scanIterations 0 (Nat.zero_le _)
    (by simp only [scanIterations, MAX_GARBAGE_LEN] at *; omega)

/-- Either role completes the handshake against the other role derived from the same keys, for
EVERY garbage length 0 … 4095 on the peer's side and every number/size of decoys on both sides:
after key agreement, CompleteHandshake (terminator, decoys, version packet out; garbage scan,
first packet with the garbage as AAD, decoys skipped in) returns ok, consumes exactly the peer's
handshake bytes, and leaves the receive ciphers in the peer's send state (so `stream_sync` applies
to everything that follows). Hypothesis `hno`: the 16-byte terminator does not occur in the
peer's garbage at an earlier offset (probability ≤ 4095·2⁻¹²⁸). -/
theorem handshake_completes (P : Prims) (hmac : ∀ k m, (P.mac k m).length = 16) (k : Keys) (ini : Bool)
    (myGarbage : List UInt8) (myDecoys : List (List UInt8)) (written mb : List UInt8) (send' : Dir)
    (hmine : sendDecoys P (mkSession k ini).send myGarbage myDecoys [] = .ok (mb, send'))
    (G : List UInt8) (hG : G.length ≤ MAX_GARBAGE_LEN)
    (hT : (mkSession k (!ini)).sendTerm.length = 16)
    (peerDecoys : List (List UInt8)) (pb : List UInt8) (d' : Dir)
    (hpeer : sendDecoys P (mkSession k (!ini)).send G peerDecoys [] = .ok (pb, d')) (rest : List UInt8)
    (hno : ∀ i, i < G.length →
      ((G ++ ((mkSession k (!ini)).sendTerm ++ (pb ++ rest))).drop i).take 16 ≠ (mkSession k (!ini)).sendTerm) :
    let out := completeAfterKeys P (mkSession k ini) myGarbage myDecoys written
      (G ++ ((mkSession k (!ini)).sendTerm ++ (pb ++ rest)))
    out.status = .ok ∧ out.sess = some { mkSession k ini with send := send', recv := d' } ∧
      out.rest = rest ∧ out.written = written ++ (mkSession k ini).sendTerm ++ mb := by
  have e1 : (mkSession k (!ini)).send = (mkSession k ini).recv := by cases ini <;> rfl
  have e2 : (mkSession k (!ini)).sendTerm = (mkSession k ini).recvTerm := by cases ini <;> rfl
  rw [e1] at hpeer
  rw [e2] at hT hno ⊢
  exact Lemmas.complete_ok P hmac (mkSession k ini) myGarbage myDecoys written mb send' hmine G
    (by simpa [MAX_GARBAGE_LEN] using hG) hT peerDecoys pb d' hpeer rest hno

/-- **End to end, both roles.** An initiator (random stream `rndA`, garbage length `gA`, decoys
`decoysA`) and a responder (`rndB`, `gB`, `decoysB`) that read each other's bytes both complete
the handshake — for every garbage length 0 … 4095 and every list of decoys on either side — with
mirrored cipher states (each side's receive ciphers = the other side's send ciphers, so
`stream_sync` governs all later traffic in both directions), the same session id, and each having
consumed exactly the other's handshake bytes. Hypotheses: ECDH symmetry `hx` (group theory, not
proved here), the decoys are within the size limit (`hdA`, `hdB`), terminators are 16 bytes
(`hTA`, `hTB`: HKDF output length), the initiator's key is not mistaken for a v1 version message
(`hv1`, `hnet`), and a terminator does not occur inside the garbage preceding it (`hnoA`, `hnoB`). -/
theorem session_established (P : Prims) (hmac : ∀ k m, (P.mac k m).length = 16) (K : Kdf) (magic : Nat)
    (rndA rndB : List UInt8) (gA gB : Nat) (hgA : gA ≤ MAX_GARBAGE_LEN) (hgB : gB ≤ MAX_GARBAGE_LEN)
    (decoysA decoysB : List (List UInt8))
    (a b : Nat) (ellA ellB rA rB : List UInt8)
    (hcA : Ellswift.create rndA = some (a, ellA, rA)) (hcB : Ellswift.create rndB = some (b, ellB, rB))
    (hlA : ellA.length = 64) (hlB : ellB.length = 64)
    (hx : Ellswift.ecdhXOnly ellB a = Ellswift.ecdhXOnly ellA b)
    (secret : List UInt8) (hs : Ellswift.v2Ecdh a ellB ellA true = some secret)
    (pbA pbB : List UInt8) (dA dB : Dir)
    (hdA : sendDecoys P (mkSession (schedule K secret magic) true).send (rA.take gA) decoysA [] = .ok (pbA, dA))
    (hdB : sendDecoys P (mkSession (schedule K secret magic) false).send (rB.take gB) decoysB [] = .ok (pbB, dB))
    (hTA : (mkSession (schedule K secret magic) true).sendTerm.length = 16)
    (hTB : (mkSession (schedule K secret magic) false).sendTerm.length = 16)
    (restA restB : List UInt8) (i : Nat)
    (hv1 : v1Mismatch (v1Prefix magic) (ellA ++ (rA.take gA ++
      ((mkSession (schedule K secret magic) true).sendTerm ++ (pbA ++ restB)))) 16 0 = .ok i)
    (hnet : (ellA.drop 4).take 12 ≠ ((v1Prefix magic).drop 4).take 12)
    (hnoA : ∀ j, j < (rB.take gB).length → ((rB.take gB ++
      ((mkSession (schedule K secret magic) false).sendTerm ++ (pbB ++ restA))).drop j).take 16 ≠
        (mkSession (schedule K secret magic) false).sendTerm)
    (hnoB : ∀ j, j < (rA.take gA).length → ((rA.take gA ++
      ((mkSession (schedule K secret magic) true).sendTerm ++ (pbA ++ restB))).drop j).take 16 ≠
        (mkSession (schedule K secret magic) true).sendTerm) :
    let sI := mkSession (schedule K secret magic) true
    let sR := mkSession (schedule K secret magic) false
    let outA := initiator P K magic rndA gA decoysA (ellB ++ (rB.take gB ++ (sR.sendTerm ++ (pbB ++ restA))))
    let outB := responder P K magic rndB gB decoysB (ellA ++ (rA.take gA ++ (sI.sendTerm ++ (pbA ++ restB))))
    outA.status = .ok ∧ outB.status = .ok ∧
    outA.written = ellA ++ rA.take gA ++ sI.sendTerm ++ pbA ∧
    outB.written = ellB ++ rB.take gB ++ sR.sendTerm ++ pbB ∧
    outA.sess = some { sI with send := dA, recv := dB } ∧
    outB.sess = some { sR with send := dB, recv := dA } ∧
    outA.rest = restA ∧ outB.rest = restB := by
  have hs' : Ellswift.v2Ecdh b ellA ellB false = some secret := by
    rw [← shared_secret_agree a b ellA ellB hx]; exact hs
  have hA := Lemmas.initiator_keys P K magic rndA gA decoysA a ellA rA hcA (by simpa [MAX_GARBAGE_LEN] using hgA)
    ellB (rB.take gB ++ ((mkSession (schedule K secret magic) false).sendTerm ++ (pbB ++ restA))) hlB secret hs
  have hB := Lemmas.responder_keys P K magic rndB gB decoysB b ellB rB hcB (by simpa [MAX_GARBAGE_LEN] using hgB)
    ellA (rA.take gA ++ ((mkSession (schedule K secret magic) true).sendTerm ++ (pbA ++ restB))) hlA i hv1 hnet
    secret hs'
  have cA := handshake_completes P hmac (schedule K secret magic) true (rA.take gA) decoysA
    (ellA ++ rA.take gA) pbA dA hdA (rB.take gB)
    (by simp only [List.length_take]; exact Nat.le_trans (Nat.min_le_left _ _) hgB) hTB decoysB pbB dB hdB restA hnoA
  have cB := handshake_completes P hmac (schedule K secret magic) false (rB.take gB) decoysB
    (ellB ++ rB.take gB) pbB dB hdB (rA.take gA)
    (by simp only [List.length_take]; exact Nat.le_trans (Nat.min_le_left _ _) hgA) hTA decoysA pbA dA hdA restB hnoB
  simp only [Bool.not_true, Bool.not_false] at cA cB
  simp only []
  rw [hA, hB]
  exact ⟨cA.1, cB.1, cA.2.2.2, cB.2.2.2, cA.2.1, cB.2.1, cA.2.2.1, cB.2.2.1⟩

/-- what the `loop` cases observe, as a theorem: two sessions that are mirrored (as
`session_established` delivers them: each side's receive ciphers are the other side's send ciphers)
deliver every packet list in order, in both directions, and stay mirrored -/
theorem mirrored_sessions_deliver (P : Prims) (hmac : ∀ k m, (P.mac k m).length = 16)
    (sA sB : Session) (hAB : sA.send = sB.recv) (hBA : sB.send = sA.recv)
    (pa pb : List Pkt) (wa wb ra rb : List UInt8) (dA dB : Dir)
    (ha : sendAll P sA.send pa = some (wa, dA)) (hb : sendAll P sB.send pb = some (wb, dB)) :
    recvSeq P sB.recv (wa ++ ra) (pa.map (·.aad)) = some (pa.map (fun p => (p.ignore, p.contents)), dA, ra) ∧
    recvSeq P sA.recv (wb ++ rb) (pb.map (·.aad)) = some (pb.map (fun p => (p.ignore, p.contents)), dB, rb) := by
  rw [← hAB, ← hBA]
  exact ⟨stream_sync P hmac pa sA.send dA wa ra ha, stream_sync P hmac pb sB.send dB wb rb hb⟩

/-- v1 detection: a stream that starts with the 16-byte prefix of a v1 version message for this
network (magic ‖ "version" ‖ 5 zero bytes) makes the responder report ErrUseV1Protocol without
generating a key or writing a byte (so the caller can fall back to v1 on the same connection). -/
theorem v1_detected (P : Prims) (K : Kdf) (magic : Nat) (rnd : List UInt8) (gLen : Nat)
    (decoys : List (List UInt8)) (tail : List UInt8) :
    (responder P K magic rnd gLen decoys (v1Prefix magic ++ tail)).status = .useV1 ∧
    (responder P K magic rnd gLen decoys (v1Prefix magic ++ tail)).written = [] :=
  Lemmas.responder_v1 P K magic rnd gLen decoys tail

/-! ### options and signals used by peer/peer.go -/

/-- `WithResponderHandshakeAdmission`: an admission that admits both CPU phases does not change the
handshake in any way -/
theorem admission_transparent (P : Prims) (K : Kdf) (magic : Nat) (rnd : List UInt8) (gLen : Nat)
    (decoys : List (List UInt8)) (inp : List UInt8) (adm : Nat) (h1 : adm ≠ 1) (h2 : adm ≠ 2) :
    (responderAdm P K magic rnd gLen decoys inp adm).1 = responder P K magic rnd gLen decoys inp :=
  Lemmas.responderAdm_admits P K magic rnd gLen decoys inp adm h1 h2

/-- the v1 fallback path never consults the admission (and writes nothing, generates no key) -/
theorem admission_not_consulted_for_v1 (P : Prims) (K : Kdf) (magic : Nat) (rnd : List UInt8)
    (gLen : Nat) (decoys : List (List UInt8)) (tail : List UInt8) (adm : Nat) :
    responderAdm P K magic rnd gLen decoys (v1Prefix magic ++ tail) adm = (⟨[], .useV1, none, []⟩, 0, 0) :=
  Lemmas.responderAdm_v1 P K magic rnd gLen decoys tail adm

/-- a rejected key-generation phase costs the node nothing: no key is generated, nothing is
written, exactly one Acquire and no release -/
theorem admission_reject_first (P : Prims) (K : Kdf) (magic : Nat) (rnd : List UInt8) (gLen : Nat)
    (decoys : List (List UInt8)) (inp : List UInt8) (i : Nat)
    (hv : v1Mismatch (v1Prefix magic) inp 16 0 = .ok i) :
    responderAdm P K magic rnd gLen decoys inp 1 = (⟨[], .admission, none, inp⟩, 1, 0) :=
  Lemmas.responderAdm_reject_first P K magic rnd gLen decoys inp i hv

/-- leases are balanced on every path: releases ≤ acquisitions, equal unless an Acquire itself
failed (then exactly the failed one is outstanding and the status is the admission error) -/
theorem admission_balanced (P : Prims) (K : Kdf) (magic : Nat) (rnd : List UInt8) (gLen : Nat)
    (decoys : List (List UInt8)) (inp : List UInt8) (adm : Nat) :
    (responderAdm P K magic rnd gLen decoys inp adm).2.2 ≤ (responderAdm P K magic rnd gLen decoys inp adm).2.1 ∧
    ((responderAdm P K magic rnd gLen decoys inp adm).2.1 = (responderAdm P K magic rnd gLen decoys inp adm).2.2 ∨
      ((responderAdm P K magic rnd gLen decoys inp adm).1.status = .admission ∧
       (responderAdm P K magic rnd gLen decoys inp adm).2.1 = (responderAdm P K magic rnd gLen decoys inp adm).2.2 + 1)) :=
  Lemmas.responderAdm_balanced P K magic rnd gLen decoys inp adm

/-- `ReceivedPrefix()` after a v1 peer was detected is exactly the 16-byte v1 prefix (what peer.go
passes to the v1 message reader so that no byte of the version message is lost) -/
theorem received_prefix_v1 (magic : Nat) (tail : List UInt8) (stopped : Bool) :
    responderPrefix magic (v1Prefix magic ++ tail) stopped = v1Prefix magic :=
  Lemmas.responderPrefix_v1 magic tail stopped

/-- downgrade signalling: an initiator whose peer hangs up without sending a byte is told to retry
with v1 (ErrShouldDowngradeToV1); one that received 1..63 bytes gets a plain I/O error; in both
cases it has written exactly its key and garbage -/
theorem downgrade_signal (P : Prims) (K : Kdf) (magic : Nat) (rnd : List UInt8) (gLen : Nat)
    (decoys : List (List UInt8)) (priv : Nat) (ell rnd' : List UInt8)
    (hc : Ellswift.create rnd = some (priv, ell, rnd')) (hg : gLen ≤ MAX_GARBAGE_LEN)
    (inp : List UInt8) (hl : inp.length < 64) :
    (initiator P K magic rnd gLen decoys inp).status = (if inp.length = 0 then .downgradeV1 else .io) ∧
    (initiator P K magic rnd gLen decoys inp).written = ell ++ rnd'.take gLen :=
  Lemmas.initiator_short P K magic rnd gLen decoys priv ell rnd' hc (by simpa [MAX_GARBAGE_LEN] using hg) inp hl

/-- a refused send (contents above the limit) leaves the direction untouched, a failed receive
leaves the packet cipher untouched: both are pure functions returning no new state -/
theorem refused_operations_keep_state (P : Prims) (d : Dir) (c aad : List UInt8) (ign : Bool)
    (s : FSP) (ct : List UInt8) :
    (c.length > 2 ^ 24 - 1 → sendPacket P d c aad ign = none) ∧
    (aeadOpen? P s.key (fspNonce s.ctr) aad ct = none → fspDecrypt P s aad ct = none) := by
  refine ⟨fun h => ?_, fun h => ?_⟩
  · unfold sendPacket; rw [if_pos h]
  · unfold fspDecrypt; rw [h]

set_option maxRecDepth 8000 in
/-- all 256 values of the header byte: a packet is a decoy exactly when bit 7 is set (header ≥ 128);
the other seven bits are ignored -/
theorem ignore_bit_iff (h : UInt8) : ignoreBit h = decide (128 ≤ h.toNat) := by
  have key : ∀ n, n < 256 → ignoreBit (UInt8.ofNat n) = decide (128 ≤ n) := by decide
  have := key h.toNat h.toNat_lt
  simpa using this

/-- a fragmenting network does not matter: reading n bytes and then m bytes is reading n + m bytes -/
theorem receive_fragments (inp a b r1 r2 : List UInt8) (n m : Nat)
    (h1 : recvN inp n = .ok (a, r1)) (h2 : recvN r1 m = .ok (b, r2)) :
    recvN inp (n + m) = .ok (a ++ b, r2) := by
  unfold recvN at *
  split at h1
  · exact absurd h1 (by simp)
  · rename_i hn
    simp only [Except.ok.injEq, Prod.mk.injEq] at h1
    split at h2
    · exact absurd h2 (by simp)
    · rename_i hm
      simp only [Except.ok.injEq, Prod.mk.injEq] at h2
      have hr1 : r1.length = inp.length - n := by rw [← h1.2, List.length_drop]
      rw [if_neg (by omega)]
      simp only [Except.ok.injEq, Prod.mk.injEq]
      refine ⟨?_, ?_⟩
      · rw [← h1.1, ← h2.1, ← h1.2, List.take_add]
      · rw [← h2.2, ← h1.2, List.drop_drop]

/-- Peer.Receive(n) on a stream that holds the bytes returns exactly them and leaves the rest -/
theorem receive_exact (a b : List UInt8) : recvN (a ++ b) a.length = .ok (a, b) := by
  unfold recvN
  rw [if_neg (by simp), List.take_left, List.drop_left]

/-! ### ElligatorSwift: decode ∘ encode = id -/

/-- An ElligatorSwift encoding always decodes to the encoded x-coordinate: whenever
`xswiftecInv u x case` (BIP324 `xswiftec_inv`, as executed by `EllswiftCreate`'s loop) returns `t`
for the x-coordinate of a curve point, `xswiftec u t` (BIP324 `xswiftec`, as executed by
`EllswiftECDHXOnly`) returns `x`. Proved over an ARBITRARY field `F` whose operations are the ones
in the record `O` (`Lawful O`: +, −, ·, ⁻¹, numerals, a correct and complete partial square root,
c² = −3), with 2 ≠ 0, 3 ≠ 0 and no root of x³ + 7 (no point of order 2 — true for secp256k1),
for u ≠ 0 (u = 0 has probability 2⁻²⁵⁶ in `XElligatorSwift` and is excluded by BIP324).
The executable model runs the same two definitions over `Nat` mod p (`Ellswift.natOps`); that this
instance is a field, i.e. that secp256k1's p is prime, is not proved in Lean — see meta. -/
theorem xswiftec_inv_correct {F : Type} [Field F] [DecidableEq F] {O : Ellswift.FieldOps F}
    (L : Ellswift.Lemmas.Lawful O) (u x t : F) (case : Nat) (hu : u ≠ 0)
    (h2 : (2 : F) ≠ 0) (h3 : (3 : F) ≠ 0) (hg : ∀ a : F, a ^ 3 + 7 ≠ 0)
    (hx : ∃ y, y * y = x ^ 3 + 7) (h : Ellswift.xswiftecInv O u x case = some t) :
    Ellswift.xswiftec O u t = some x :=
  Ellswift.Lemmas.xswiftec_inv_correct L u x t case hu h2 h3 hg hx h

/-- The same for the EXECUTABLE model that is run against btcd (`natOps`: arithmetic on `Nat` modulo
secp256k1's p with square-and-multiply inverse and square root): transported from the field
`ZMod p` along the cast Nat → ZMod p, which is shown to be a homomorphism of all operations
(incl. `powMod = exponentiation`), injective on reduced representatives. Two number-theoretic
facts about secp256k1 remain HYPOTHESES (stated, not proved in Lean): `p` is prime
(`[Fact (Nat.Prime Field.p)]`) and x³ + 7 has no root mod p (`hg`). -/
theorem xswiftec_inv_correct_model [Fact (Nat.Prime Field.p)]
    (hg : ∀ a : ZMod Field.p, a ^ 3 + 7 ≠ 0)
    (u x t : Nat) (case : Nat) (hu : u < Field.p) (hu0 : u ≠ 0) (hx : x < Field.p)
    (hcurve : ∃ y : Nat, y * y % Field.p = (x ^ 3 + 7) % Field.p)
    (h : Ellswift.xswiftecInv Ellswift.natOps u x case = some t) :
    Ellswift.xswiftec Ellswift.natOps u t = some x :=
  Ellswift.Refine.xswiftec_inv_correct_nat hg u x t case hu hu0 hx hcurve h

/-- byte level: the 64-byte encoding bytes(u) ‖ bytes(t) that `EllswiftCreate`'s loop writes for a
successful draw (u, case) is decoded by the peer (`EllswiftECDHXOnly`'s XSwiftEC step) to x -/
theorem ellswift_encoding_decodes [Fact (Nat.Prime Field.p)] (hg : ∀ a : ZMod Field.p, a ^ 3 + 7 ≠ 0)
    (u x t : Nat) (case : Nat) (hu : u < Field.p) (hu0 : u ≠ 0) (hx : x < Field.p)
    (hcurve : ∃ y : Nat, y * y % Field.p = (x ^ 3 + 7) % Field.p)
    (h : Ellswift.xswiftecInv Ellswift.natOps u x case = some t) :
    Ellswift.decode (BV.Hex.natBE u 32 ++ BV.Hex.natBE t 32) = some x :=
  Ellswift.Refine.decode_encode hg u x t case hu hu0 hx hcurve h

/-- `XElligatorSwift` / `EllswiftCreate`'s retry loop as a whole (any number of rejected draws):
whatever encoding it returns for x decodes to x -/
theorem ellswift_create_decodes [Fact (Nat.Prime Field.p)] (hg : ∀ a : ZMod Field.p, a ^ 3 + 7 ≠ 0)
    (x : Nat) (hx : x < Field.p) (hcurve : ∃ y : Nat, y * y % Field.p = (x ^ 3 + 7) % Field.p)
    (fuel : Nat) (rnd ell rest : List UInt8) (h : Ellswift.createLoop x fuel rnd = some (ell, rest))
    (hnz : BV.Hex.beToNat (ell.take 32) ≠ 0) : Ellswift.decode ell = some x :=
  Ellswift.Refine.createLoop_decodes hg x hx hcurve fuel rnd ell rest h hnz

/-- the hypotheses of `xswiftec_inv_correct` are satisfiable (the field with 13 elements: c = 6,
no root of x³ + 7), and the theorem applies to a concrete encoding there -/
example : Ellswift.xswiftec Ellswift.Lemmas.ops13 1 2 = some 7 :=
  xswiftec_inv_correct Ellswift.Lemmas.lawful13 1 7 2 0 (by decide) Ellswift.Lemmas.hyps13.1
    Ellswift.Lemmas.hyps13.2.1 Ellswift.Lemmas.hyps13.2.2 ⟨5, by decide⟩ (by decide)

/-! ### nonce discipline of the packet cipher (chacha.go: `crypt` builds the 12-byte nonce from
`packetCtr % rekeyInterval` ‖ `packetCtr / rekeyInterval`; the key only changes when the second
component does) -/

/-- two packets protected under the same key (same key epoch) never share a nonce — for every
counter value, with no bound -/
theorem nonce_unique_within_epoch {c1 c2 : Nat} (he : c1 / 224 = c2 / 224)
    (h : fspNonce c1 = fspNonce c2) : c1 = c2 :=
  Nonce.nonce_unique_within_epoch he h

/-- while the epoch number fits its 8-byte field, the packet nonce determines the packet counter:
no nonce value is ever produced twice by one direction of a session -/
theorem packet_nonce_injective {c1 c2 : Nat} (h1 : c1 < 224 * 2 ^ 64) (h2 : c2 < 224 * 2 ^ 64)
    (h : fspNonce c1 = fspNonce c2) : c1 = c2 :=
  Nonce.fspNonce_injective h1 h2 h

/-- the nonce under which the next key is derived (ff ff ff ff ‖ epoch) is never a packet nonce, so
the rekeying key stream is never also used to protect a packet -/
theorem packet_nonce_ne_rekey_nonce (c c' : Nat) : fspNonce c ≠ fspRekeyNonce c' :=
  Nonce.fspNonce_ne_rekeyNonce c c'

/-- the bound of `packet_nonce_injective` is sharp: one epoch-field wrap later the nonce repeats -/
example : fspNonce 0 = fspNonce (224 * 2 ^ 64) := by decide

/-- hypotheses of the theorems above are satisfiable -/
example : ∃ P : Prims, ∀ k m, (P.mac k m).length = 16 := ⟨chachaPoly, chachaPoly_tag_length⟩

example : sendAll chachaPoly (Dir.init [] []) [] = some ([], Dir.init [] []) := rfl

end BV.C19
