/-
C19 — nonce discipline of the FSChaCha20-Poly1305 state (`fspNonce`, `fspRekeyNonce`): within one
key epoch (224 packets) all packet nonces are pairwise distinct and none equals the rekey nonce, so
no (key, nonce) pair is ever used twice as long as the epoch number fits the 8-byte field.
-/
import BV.C19.Model
import BV.C19.Lemmas
namespace BV.C19.Nonce
open BV.C19 BV.Hex

theorem natLE_succ (n k : Nat) :
    natLE n (k + 1) = UInt8.ofNat (n % 256) :: natLE (n / 256) k := by
  simp only [natLE, List.range_succ_eq_map, List.map_cons, List.map_map, Nat.pow_zero, Nat.div_one]
  congr 1
  apply List.map_congr_left
  intro i _
  simp only [Function.comp, Nat.pow_succ, Nat.div_div_eq_div_mul]
  rw [Nat.mul_comm]

theorem leToNat_natLE : ∀ (k n : Nat), leToNat (natLE n k) = n % 256 ^ k
  | 0, n => by simp [natLE, leToNat, Nat.mod_one]
  | k + 1, n => by
    rw [natLE_succ]
    simp only [leToNat, List.foldr_cons]
    have ih := leToNat_natLE k (n / 256)
    simp only [leToNat] at ih
    rw [ih]
    have h256 : (UInt8.ofNat (n % 256)).toNat = n % 256 := by
      simp [UInt8.toNat_ofNat']
    rw [h256, Nat.pow_succ, Nat.mul_comm (256 ^ k) 256, Nat.mod_mul, Nat.mul_comm]
    omega

theorem natLE_inj {n m k : Nat} (hn : n < 256 ^ k) (hm : m < 256 ^ k)
    (h : natLE n k = natLE m k) : n = m := by
  have := congrArg leToNat h
  rwa [leToNat_natLE, leToNat_natLE, Nat.mod_eq_of_lt hn, Nat.mod_eq_of_lt hm] at this

theorem fspNonce_parts {c1 c2 : Nat} (h : fspNonce c1 = fspNonce c2) :
    c1 % 224 = c2 % 224 ∧ natLE (c1 / 224) 8 = natLE (c2 / 224) 8 := by
  unfold fspNonce at h
  have hl : (natLE (c1 % 224) 4).length = (natLE (c2 % 224) 4).length := by
    rw [Lemmas.natLE_length, Lemmas.natLE_length]
  obtain ⟨ha, hb⟩ := List.append_inj h hl
  refine ⟨natLE_inj (k := 4) ?_ ?_ ha, hb⟩
  · have := Nat.mod_lt c1 (by decide : 0 < 224); omega
  · have := Nat.mod_lt c2 (by decide : 0 < 224); omega

/-- two packets of the same key epoch never share a nonce (no bound on the counter needed) -/
theorem nonce_unique_within_epoch {c1 c2 : Nat} (he : c1 / 224 = c2 / 224)
    (h : fspNonce c1 = fspNonce c2) : c1 = c2 := by
  have := (fspNonce_parts h).1
  omega

/-- as long as the epoch number fits its 8-byte field the packet nonce determines the counter -/
theorem fspNonce_injective {c1 c2 : Nat} (h1 : c1 < 224 * 2 ^ 64) (h2 : c2 < 224 * 2 ^ 64)
    (h : fspNonce c1 = fspNonce c2) : c1 = c2 := by
  obtain ⟨ha, hb⟩ := fspNonce_parts h
  have hq : c1 / 224 = c2 / 224 := by
    apply natLE_inj (k := 8) _ _ hb
    · have : c1 / 224 < 2 ^ 64 := Nat.div_lt_of_lt_mul h1
      simpa using this
    · have : c2 / 224 < 2 ^ 64 := Nat.div_lt_of_lt_mul h2
      simpa using this
  omega

/-- the nonce under which the next key is derived is never a packet nonce -/
theorem fspNonce_ne_rekeyNonce (c c' : Nat) : fspNonce c ≠ fspRekeyNonce c' := by
  intro h
  unfold fspNonce fspRekeyNonce at h
  have hl : (natLE (c % 224) 4).length = ([0xff, 0xff, 0xff, 0xff] : List UInt8).length := by
    rw [Lemmas.natLE_length]; rfl
  have ha := (List.append_inj h hl).1
  have hv := congrArg leToNat ha
  rw [leToNat_natLE] at hv
  have h2 : leToNat ([0xff, 0xff, 0xff, 0xff] : List UInt8) = 4294967295 := by decide
  rw [h2] at hv
  have := Nat.mod_lt c (by decide : 0 < 224)
  have h3 : c % 224 % 256 ^ 4 = c % 224 := Nat.mod_eq_of_lt (by omega)
  omega

end BV.C19.Nonce
