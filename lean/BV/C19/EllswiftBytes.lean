/-
C19 — byte level: the 64-byte encoding written by `EllswiftCreate`'s loop decodes to x.
-/
import BV.C19.EllswiftRefine
set_option linter.unusedSimpArgs false
namespace BV.C19.Ellswift.Refine
open BV.Hex BV.C19 BV.C19.Ellswift

theorem natBE_length (n len : Nat) : (natBE n len).length = len := by simp [natBE]

theorem natBE_succ (n len : Nat) : natBE n (len + 1) = natBE (n / 256) len ++ [UInt8.ofNat (n % 256)] := by
  unfold natBE
  rw [List.range_succ, List.map_append]
  congr 1
  · apply List.map_congr_left
    intro i hi
    have hi' : i < len := List.mem_range.mp hi
    have e : len + 1 - 1 - i = (len - 1 - i) + 1 := by omega
    rw [e, pow_succ, Nat.mul_comm, ← Nat.div_div_eq_div_mul]
  · simp

theorem beToNat_append (l : List UInt8) (b : UInt8) : beToNat (l ++ [b]) = beToNat l * 256 + b.toNat := by
  simp [beToNat, List.foldl_append]

theorem beToNat_natBE : ∀ (len n : Nat), beToNat (natBE n len) = n % 256 ^ len
  | 0, n => by simp [natBE, beToNat, Nat.mod_one]
  | len + 1, n => by
    rw [natBE_succ, beToNat_append, beToNat_natBE len (n / 256)]
    simp only [UInt8.toNat_ofNat']
    have h256 : n % 256 % 2 ^ 8 = n % 256 := by omega
    rw [h256, pow_succ]
    have := Nat.mod_mul_right_div_self n 256 (256 ^ len)
    have h2 : n % (256 ^ len * 256) = n % (256 * 256 ^ len) := by rw [Nat.mul_comm]
    rw [h2, Nat.mod_mul, Nat.mul_comm (n / 256 % 256 ^ len) 256]
    omega

theorem p_lt : Field.p < 256 ^ 32 := by
  simp only [Field.p, Nat.reducePow, Nat.reduceLT]

/-- the encoding (bytes(u) ‖ bytes(t)) that `createLoop` writes for a successful draw decodes to x -/
theorem decode_encode [Fact (Nat.Prime Field.p)] (hg : ∀ a : ZMod Field.p, a ^ 3 + 7 ≠ 0)
    (u x t : Nat) (case : Nat) (hu : u < Field.p) (hu0 : u ≠ 0) (hx : x < Field.p)
    (hcurve : ∃ y : Nat, y * y % Field.p = (x ^ 3 + 7) % Field.p)
    (h : xswiftecInv natOps u x case = some t) :
    decode (natBE u 32 ++ natBE t 32) = some x := by
  have hfwd := xswiftec_inv_correct_nat hg u x t case hu hu0 hx hcurve h
  have ht : t < Field.p := by
    have H := hom_natOps
    unfold xswiftecInv at h
    cases hvs : invVS natOps u x case with
    | none => rw [hvs] at h; exact absurd h (by simp)
    | some vs =>
      rw [hvs] at h
      simp only [] at h
      cases hs : natOps.sqrt vs.2 with
      | none => rw [hs] at h; exact absurd h (by simp)
      | some w =>
        rw [hs] at h
        simp only [Option.some.injEq] at h
        rw [← h]
        unfold invT
        by_cases h5 : (case &&& 5 = 0 ∨ case &&& 5 = 5)
        · simp only [h5, if_true]; exact H.S_neg _
        · simp only [h5, if_false]; exact H.S_mul _ _
  unfold decode
  have hl : (natBE u 32).length = 32 := natBE_length _ _
  have hl2 : (natBE t 32).length = 32 := natBE_length _ _
  have e1 : (natBE u 32 ++ natBE t 32).take 32 = natBE u 32 := List.take_left' hl
  have e2 : ((natBE u 32 ++ natBE t 32).drop 32).take 32 = natBE t 32 := by
    rw [List.drop_left' hl]
    have := List.take_left' (l₂ := []) hl2
    simpa using this
  rw [e1, e2, beToNat_natBE, beToNat_natBE]
  have hp : BV.Secp256k1.p = Field.p := rfl
  rw [hp, Nat.mod_eq_of_lt (Nat.lt_trans hu p_lt), Nat.mod_eq_of_lt (Nat.lt_trans ht p_lt),
    Nat.mod_eq_of_lt hu, Nat.mod_eq_of_lt ht]
  exact hfwd

/-- whatever `EllswiftCreate`'s loop returns (after any number of rejected draws) decodes to x -/
theorem createLoop_decodes [Fact (Nat.Prime Field.p)] (hg : ∀ a : ZMod Field.p, a ^ 3 + 7 ≠ 0)
    (x : Nat) (hx : x < Field.p) (hcurve : ∃ y : Nat, y * y % Field.p = (x ^ 3 + 7) % Field.p) :
    ∀ (fuel : Nat) (rnd ell rest : List UInt8), createLoop x fuel rnd = some (ell, rest) →
      beToNat (ell.take 32) ≠ 0 → decode ell = some x
  | 0, _, _, _, h, _ => by simp [createLoop] at h
  | fuel + 1, rnd, ell, rest, h, hnz => by
    unfold createLoop at h
    simp only [] at h
    have hp : BV.Secp256k1.p = Field.p := rfl
    cases hinv : xswiftecInv natOps (beToNat (rnd.take 32) % BV.Secp256k1.p) x
        (((rnd.drop 32).headD 0).toNat % 8) with
    | none =>
      rw [hinv] at h
      exact createLoop_decodes hg x hx hcurve fuel _ ell rest h hnz
    | some t =>
      rw [hinv] at h
      simp only [Option.some.injEq, Prod.mk.injEq] at h
      have hu : beToNat (rnd.take 32) % BV.Secp256k1.p < Field.p := by
        rw [hp]; exact Nat.mod_lt _ p_pos
      have hl : (natBE (beToNat (rnd.take 32) % BV.Secp256k1.p) 32).length = 32 := natBE_length _ _
      have hu0 : beToNat (rnd.take 32) % BV.Secp256k1.p ≠ 0 := by
        intro h0
        apply hnz
        rw [← h.1, List.take_left' hl, beToNat_natBE, h0]
        rfl
      rw [← h.1]
      exact decode_encode hg _ x t _ hu hu0 hx hcurve hinv

end BV.C19.Ellswift.Refine
