/-
C19 — the two handshake roles end to end: key agreement, then `complete_ok`.
-/
import BV.C19.Stream
namespace BV.C19.Lemmas
open BV.Hex BV.Aead BV.C19

/-- InitiateV2Handshake + CompleteHandshake(true): with a 64-byte remote key in front of the input
the initiator derives the session from v2_ecdh and continues with `completeAfterKeys` -/
theorem initiator_keys (P : Prims) (K : Kdf) (magic : Nat) (rnd : List UInt8) (gLen : Nat)
    (decoys : List Nat) (priv : Nat) (ell rnd' : List UInt8)
    (hc : Ellswift.create rnd = some (priv, ell, rnd')) (hg : gLen ≤ 4095)
    (ellB tail : List UInt8) (hB : ellB.length = 64) (secret : List UInt8)
    (hs : Ellswift.v2Ecdh priv ellB ell true = some secret) :
    initiator P K magic rnd gLen decoys (ellB ++ tail) =
      completeAfterKeys P (mkSession (schedule K secret magic) true) (rnd'.take gLen) decoys
        (ell ++ rnd'.take gLen) tail := by
  unfold initiator
  rw [hc]
  simp only []
  rw [if_neg (by omega), if_neg (by simp only [List.length_append, hB]; omega)]
  rw [← hB, List.take_left, List.drop_left, hs]

/-- RespondV2Handshake + CompleteHandshake(false): if the first 64 bytes are not taken for a v1
version message (some byte among the first 16 differs from the v1 prefix, and bytes 4..15 are not
"version\0\0\0\0\0"), the responder derives the session from v2_ecdh and continues with
`completeAfterKeys` -/
theorem responder_keys (P : Prims) (K : Kdf) (magic : Nat) (rnd : List UInt8) (gLen : Nat)
    (decoys : List Nat) (priv : Nat) (ell rnd' : List UInt8)
    (hc : Ellswift.create rnd = some (priv, ell, rnd')) (hg : gLen ≤ 4095)
    (ellA tail : List UInt8) (hA : ellA.length = 64) (i : Nat)
    (hv1 : v1Mismatch (v1Prefix magic) (ellA ++ tail) 16 0 = .ok i)
    (hnet : (ellA.drop 4).take 12 ≠ ((v1Prefix magic).drop 4).take 12)
    (secret : List UInt8) (hs : Ellswift.v2Ecdh priv ellA ell false = some secret) :
    responder P K magic rnd gLen decoys (ellA ++ tail) =
      completeAfterKeys P (mkSession (schedule K secret magic) false) (rnd'.take gLen) decoys
        (ell ++ rnd'.take gLen) tail := by
  unfold responder
  simp only [hv1]
  rw [hc]
  simp only []
  rw [if_neg (by omega), if_neg (by simp only [List.length_append, hA]; omega)]
  have ht : (ellA ++ tail).take 64 = ellA := by rw [← hA, List.take_left]
  have hd : (ellA ++ tail).drop 64 = tail := by rw [← hA, List.drop_left]
  rw [ht, hd, if_neg hnet, hs]

end BV.C19.Lemmas
