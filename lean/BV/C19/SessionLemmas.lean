/-
C19 — the two handshake roles end to end: key agreement, then `complete_ok`.
-/
import BV.C19.Stream
namespace BV.C19.Lemmas
open BV.Hex BV.Aead BV.C19

/-- InitiateV2Handshake + CompleteHandshake(true): with a 64-byte remote key in front of the input
the initiator derives the session from v2_ecdh and continues with `completeAfterKeys` -/
theorem initiator_keys (P : Prims) (K : Kdf) (magic : Nat) (rnd : List UInt8) (gLen : Nat)
    (decoys : List (List UInt8)) (priv : Nat) (ell rnd' : List UInt8)
    (hc : Ellswift.create rnd = some (priv, ell, rnd')) (hg : gLen ≤ 4095)
    (ellB tail : List UInt8) (hB : ellB.length = 64) (secret : List UInt8)
    (hs : Ellswift.v2Ecdh priv ellB ell true = some secret) :
    initiator P K magic rnd gLen decoys (ellB ++ tail) =
      completeAfterKeys P (mkSession (schedule K secret magic) true) (rnd'.take gLen) decoys
        (ell ++ rnd'.take gLen) tail := by
  unfold initiator
  rw [hc]
  simp only []
  rw [if_neg (by omega), if_neg (by simp only [List.length_append, hB]; omega)]
  rw [← hB, List.take_left, List.drop_left, hs]

/-- RespondV2Handshake + CompleteHandshake(false): if the first 64 bytes are not taken for a v1
version message (some byte among the first 16 differs from the v1 prefix, and bytes 4..15 are not
"version\0\0\0\0\0"), the responder derives the session from v2_ecdh and continues with
`completeAfterKeys` -/
theorem responder_keys (P : Prims) (K : Kdf) (magic : Nat) (rnd : List UInt8) (gLen : Nat)
    (decoys : List (List UInt8)) (priv : Nat) (ell rnd' : List UInt8)
    (hc : Ellswift.create rnd = some (priv, ell, rnd')) (hg : gLen ≤ 4095)
    (ellA tail : List UInt8) (hA : ellA.length = 64) (i : Nat)
    (hv1 : v1Mismatch (v1Prefix magic) (ellA ++ tail) 16 0 = .ok i)
    (hnet : (ellA.drop 4).take 12 ≠ ((v1Prefix magic).drop 4).take 12)
    (secret : List UInt8) (hs : Ellswift.v2Ecdh priv ellA ell false = some secret) :
    responder P K magic rnd gLen decoys (ellA ++ tail) =
      completeAfterKeys P (mkSession (schedule K secret magic) false) (rnd'.take gLen) decoys
        (ell ++ rnd'.take gLen) tail := by
  unfold responder
  simp only [hv1]
  rw [hc]
  simp only []
  rw [if_neg (by omega), if_neg (by simp only [List.length_append, hA]; omega)]
  have ht : (ellA ++ tail).take 64 = ellA := by rw [← hA, List.take_left]
  have hd : (ellA ++ tail).drop 64 = tail := by rw [← hA, List.drop_left]
  rw [ht, hd, if_neg hnet, hs]

theorem v1Mismatch_all (v1 inp : List UInt8) : ∀ (fuel i : Nat),
    (∀ j, i ≤ j → j < i + fuel → j < inp.length ∧ inp.getD j 0 = v1.getD j 0) →
    v1Mismatch v1 inp fuel i = .error .useV1
  | 0, _, _ => rfl
  | fuel + 1, i, h => by
    unfold v1Mismatch
    obtain ⟨h1, h2⟩ := h i (Nat.le_refl _) (by omega)
    rw [if_neg (by omega), if_neg (fun hne => hne h2)]
    exact v1Mismatch_all v1 inp fuel (i + 1) (fun j hj1 hj2 => h j (by omega) (by omega))

/-- a stream that starts with the 16-byte v1 version-message prefix of this network makes the
responder answer ErrUseV1Protocol without writing a single byte -/
theorem responder_v1 (P : Prims) (K : Kdf) (magic : Nat) (rnd : List UInt8) (gLen : Nat)
    (decoys : List (List UInt8)) (tail : List UInt8) :
    (responder P K magic rnd gLen decoys (v1Prefix magic ++ tail)).status = .useV1 ∧
    (responder P K magic rnd gLen decoys (v1Prefix magic ++ tail)).written = [] := by
  have hl : (v1Prefix magic).length = 16 := by
    simp [v1Prefix, natLE_length]
  have h := v1Mismatch_all (v1Prefix magic) (v1Prefix magic ++ tail) 16 0 (by
    intro j _ hj
    refine ⟨by simp only [List.length_append, hl]; omega, ?_⟩
    simp only [List.getD_eq_getElem?_getD]
    rw [List.getElem?_append_left (by omega)])
  unfold responder
  refine ⟨?_, ?_⟩ <;> simp only [h]

/-! ### admission, received prefix, downgrade -/

/-- an admission that admits both phases is transparent -/
theorem responderAdm_admits (P : Prims) (K : Kdf) (magic : Nat) (rnd : List UInt8) (gLen : Nat)
    (decoys : List (List UInt8)) (inp : List UInt8) (adm : Nat) (h1 : adm ≠ 1) (h2 : adm ≠ 2) :
    (responderAdm P K magic rnd gLen decoys inp adm).1 = responder P K magic rnd gLen decoys inp := by
  unfold responderAdm
  cases hv : v1Mismatch (v1Prefix magic) inp 16 0 with
  | error e => simp only []; unfold responder; simp only [hv]
  | ok i =>
    simp only [if_neg h1, if_neg h2]
    cases hc : Ellswift.create rnd with
    | none => simp only []; unfold responder; simp only [hv, hc]
    | some r =>
      obtain ⟨priv, ell, rnd'⟩ := r
      simp only []
      by_cases hg : gLen > 4095
      · simp only [hg, if_true]; unfold responder; simp only [hv, hc, hg, if_true]
      · simp only [hg, if_false]
        by_cases hl : inp.length < 64
        · simp only [hl, if_true]; unfold responder; simp only [hv, hc, hg, if_false, hl, if_true]
        · simp only [hl, if_false]
          by_cases hw : ((inp.take 64).drop 4).take 12 = ((v1Prefix magic).drop 4).take 12
          · simp only [hw, if_true]; unfold responder; simp only [hv, hc, hg, if_false, hl, hw, if_true]
          · simp only [hw, if_false, hv]

/-- the v1 path never consults the admission and writes nothing -/
theorem responderAdm_v1 (P : Prims) (K : Kdf) (magic : Nat) (rnd : List UInt8) (gLen : Nat)
    (decoys : List (List UInt8)) (tail : List UInt8) (adm : Nat) :
    responderAdm P K magic rnd gLen decoys (v1Prefix magic ++ tail) adm = (⟨[], .useV1, none, []⟩, 0, 0) := by
  have hl : (v1Prefix magic).length = 16 := by simp [v1Prefix, natLE_length]
  have h := v1Mismatch_all (v1Prefix magic) (v1Prefix magic ++ tail) 16 0 (by
    intro j _ hj
    refine ⟨by simp only [List.length_append, hl]; omega, ?_⟩
    simp only [List.getD_eq_getElem?_getD]
    rw [List.getElem?_append_left (by omega)])
  unfold responderAdm
  simp only [h]

/-- a rejected first phase: nothing is written (no key is generated), one Acquire, no release -/
theorem responderAdm_reject_first (P : Prims) (K : Kdf) (magic : Nat) (rnd : List UInt8) (gLen : Nat)
    (decoys : List (List UInt8)) (inp : List UInt8) (i : Nat)
    (hv : v1Mismatch (v1Prefix magic) inp 16 0 = .ok i) :
    responderAdm P K magic rnd gLen decoys inp 1 = (⟨[], .admission, none, inp⟩, 1, 0) := by
  unfold responderAdm
  simp only [hv, if_true]

/-- leases are balanced: never more releases than acquisitions, and every acquired lease has been
released unless an Acquire itself failed -/
theorem responderAdm_balanced (P : Prims) (K : Kdf) (magic : Nat) (rnd : List UInt8) (gLen : Nat)
    (decoys : List (List UInt8)) (inp : List UInt8) (adm : Nat) :
    (responderAdm P K magic rnd gLen decoys inp adm).2.2 ≤ (responderAdm P K magic rnd gLen decoys inp adm).2.1 ∧
    ((responderAdm P K magic rnd gLen decoys inp adm).2.1 = (responderAdm P K magic rnd gLen decoys inp adm).2.2 ∨
      ((responderAdm P K magic rnd gLen decoys inp adm).1.status = .admission ∧
       (responderAdm P K magic rnd gLen decoys inp adm).2.1 = (responderAdm P K magic rnd gLen decoys inp adm).2.2 + 1)) := by
  unfold responderAdm
  simp only []
  cases hv : v1Mismatch (v1Prefix magic) inp 16 0 with
  | error e => simp
  | ok i =>
    simp only []
    by_cases h1 : adm = 1
    · simp [h1]
    · simp only [if_neg h1]
      cases Ellswift.create rnd with
      | none => simp
      | some r =>
        simp only []
        split
        · simp
        · split
          · simp
          · split
            · simp
            · split
              · simp
              · simp

/-- `ReceivedPrefix()` of a responder that saw a v1 peer is exactly the 16-byte v1 prefix, which
peer.go hands to the v1 message reader -/
theorem responderPrefix_v1 (magic : Nat) (tail : List UInt8) (stopped : Bool) :
    responderPrefix magic (v1Prefix magic ++ tail) stopped = v1Prefix magic := by
  have hl : (v1Prefix magic).length = 16 := by simp [v1Prefix, natLE_length]
  have h := v1Mismatch_all (v1Prefix magic) (v1Prefix magic ++ tail) 16 0 (by
    intro j _ hj
    refine ⟨by simp only [List.length_append, hl]; omega, ?_⟩
    simp only [List.getD_eq_getElem?_getD]
    rw [List.getElem?_append_left (by omega)])
  unfold responderPrefix
  simp only [h]
  exact List.take_left' hl

/-- downgrade signalling: an initiator that reads NOTHING is told to retry with v1; one that reads
some but fewer than 64 bytes gets a plain I/O error -/
theorem initiator_short (P : Prims) (K : Kdf) (magic : Nat) (rnd : List UInt8) (gLen : Nat)
    (decoys : List (List UInt8)) (priv : Nat) (ell rnd' : List UInt8)
    (hc : Ellswift.create rnd = some (priv, ell, rnd')) (hg : gLen ≤ 4095)
    (inp : List UInt8) (hl : inp.length < 64) :
    (initiator P K magic rnd gLen decoys inp).status = (if inp.length = 0 then .downgradeV1 else .io) ∧
    (initiator P K magic rnd gLen decoys inp).written = ell ++ rnd'.take gLen := by
  unfold initiator
  rw [hc]
  simp only []
  rw [if_neg (by omega), if_pos hl]
  exact ⟨rfl, rfl⟩

end BV.C19.Lemmas
