/-
C19 — BIP324 protocol constants and the closed-form ("specification") view of the
forward-secure ciphers: which key and which nonce the i-th message of a direction uses.
Core-only.
-/
import BV.Common.Hex
import BV.Common.Aead
namespace BV.C19.Spec
open BV.Hex BV.Aead

/-- messages per key -/
def REKEY_INTERVAL : Nat := 224
/-- maximum garbage a peer may send before its terminator -/
def MAX_GARBAGE_LEN : Nat := 4095
def GARBAGE_TERMINATOR_LEN : Nat := 16
def LENGTH_FIELD_LEN : Nat := 3
def HEADER_LEN : Nat := 1
def IGNORE_BIT : Nat := 0x80
def IGNORE_BIT_POS : Nat := 7
def TAG_LEN : Nat := 16
def KEY_LEN : Nat := 32
def MAX_CONTENT_LEN : Nat := 2 ^ 24 - 1
def ELLSWIFT_LEN : Nat := 64
def V1_PREFIX_LEN : Nat := 16

/-- nonce of message `i` of an FSChaCha20Poly1305 instance: LE32(i mod 224) ‖ LE64(i div 224) -/
def aeadNonce (i : Nat) : List UInt8 := natLE (i % REKEY_INTERVAL) 4 ++ natLE (i / REKEY_INTERVAL) 8

/-- nonce used to derive the key of epoch `e+1` from the key of epoch `e`: ff ff ff ff ‖ LE64(e) -/
def aeadRekeyNonce (e : Nat) : List UInt8 := [0xff, 0xff, 0xff, 0xff] ++ natLE e 8

/-- key of epoch `e` of an FSChaCha20Poly1305 instance started with `k0`:
next key = first 32 bytes of AEAD-encrypting 32 zero bytes under the rekey nonce. -/
def aeadKey (P : Prims) (k0 : List UInt8) : Nat → List UInt8
  | 0 => k0
  | e + 1 => (aeadSeal P (aeadKey P k0 e) (aeadRekeyNonce e) [] (List.replicate 32 0)).take 32

/-- nonce of epoch `e` of the length cipher FSChaCha20: 00 00 00 00 ‖ LE64(e) -/
def lenNonce (e : Nat) : List UInt8 := natLE 0 4 ++ natLE e 8

/-- key of epoch `e` of an FSChaCha20 instance used for 3-byte length fields: the 32 key-stream
bytes that follow the 224·3 bytes consumed in the epoch. -/
def lenKey (P : Prims) (k0 : List UInt8) : Nat → List UInt8
  | 0 => k0
  | e + 1 => P.stream (lenKey P k0 e) (lenNonce e) (REKEY_INTERVAL * LENGTH_FIELD_LEN) 32

/-! ### what peer/peer.go must reach on top of the transport -/

/-- outcome of connecting an outbound peer (v2 attempted or not) to an inbound peer (v2 accepted or
not): did each side complete version/verack, is each side's connection still marked v2, how many
pongs answer `pings` pings sent from both sides, and is the initiator told to retry with v1. -/
structure PeerOutcome where
  inVerack : Bool
  outVerack : Bool
  inV2 : Bool
  outV2 : Bool
  pongs : Nat
  downgrade : Bool

/-- BIP324 negotiation between v1 and v2 capable nodes:
* v2 → v2 (same network): encrypted session, both sides complete;
* v1 → v2-capable responder: the responder recognises the v1 version message on its first 16 bytes,
  falls back to v1 on the same connection (no longer marked v2) and both complete;
* v2 → v1-only responder: the responder hangs up on the 64 key bytes; the initiator, having read
  nothing, is told to reconnect with v1 (`downgrade`);
* v1 → v1: unchanged;
* different networks never complete. -/
def peerNegotiation (outV2 inV2 sameNet : Bool) (pings : Nat) : PeerOutcome :=
  match outV2, inV2 with
  | true, true => if sameNet then ⟨true, true, true, true, 2 * pings, false⟩ else ⟨false, false, true, true, 0, false⟩
  | false, true => if sameNet then ⟨true, true, false, false, 2 * pings, false⟩ else ⟨false, false, true, false, 0, false⟩
  | true, false => ⟨false, false, false, true, 0, true⟩
  | false, false => if sameNet then ⟨true, true, false, false, 2 * pings, false⟩ else ⟨false, false, false, false, 0, false⟩

end BV.C19.Spec
