/-
C19 — ElligatorSwift algebra over an arbitrary field (Mathlib): the forward map `xswiftec`
evaluated at the `t` produced by `xswiftecInv` yields the three candidates
(u + w², −u − v, v) for the conic point (v, w), and the first square among them is `x`.
-/
import Mathlib.Algebra.Field.Basic
import Mathlib.Tactic.Ring
import Mathlib.Tactic.FieldSimp
import Mathlib.Tactic.LinearCombination
import BV.C19.Ellswift
namespace BV.C19.Ellswift.Lemmas

variable {F : Type} [Field F]

/-- SwiftEC identity: for a point (v, w) of the conic w²(u² + uv + v²) = −g(u),
g(u + w²)·(u² + uv + v²)² = w²·g(v)·g(−u − v), with g(x) = x³ + b. -/
theorem swift_identity (u v w b : F) (hconic : w ^ 2 * (u ^ 2 + u * v + v ^ 2) = -(u ^ 3 + b)) :
    ((u + w ^ 2) ^ 3 + b) * (u ^ 2 + u * v + v ^ 2) ^ 2 = w ^ 2 * (v ^ 3 + b) * ((-u - v) ^ 3 + b) := by
  have hb : b = -(w ^ 2 * (u ^ 2 + u * v + v ^ 2)) - u ^ 3 := by linear_combination hconic
  rw [hb]
  ring

/-- the forward map on the `t` of the inverse: all intermediate values in closed form -/
theorem forward_core (u v w c t b : F) (hu : u ≠ 0) (h2 : (2 : F) ≠ 0) (h3 : (3 : F) ≠ 0)
    (hc : c * c = -3) (hgu : u ^ 3 + b ≠ 0)
    (hconic : w ^ 2 * (u ^ 2 + u * v + v ^ 2) = -(u ^ 3 + b))
    (ht : 2 * t = -(w * (u * (1 - c) + 2 * v))) :
    w ≠ 0 ∧ t ≠ 0 ∧ c ≠ 0 ∧ (u ^ 3 + b) + t * t = t * w * u * c ∧
    (u ^ 3 + b) - t * t = w * t * (2 * v + u) := by
  have hw : w ≠ 0 := by
    rintro rfl
    apply hgu
    linear_combination hconic
  have hc0 : c ≠ 0 := by
    rintro rfl
    apply h3
    linear_combination hc
  have hminus : (u ^ 3 + b) - t * t = w * t * (2 * v + u) := by
    have h4 : (4 : F) ≠ 0 := by
      have : (4 : F) = 2 * 2 := by norm_num
      rw [this]; exact mul_ne_zero h2 h2
    have : 4 * ((u ^ 3 + b) - t * t) = 4 * (w * t * (2 * v + u)) := by
      linear_combination 4 * hconic - (w ^ 2 * u ^ 2) * hc
        - (2 * t - w * (u * (1 - c) + 2 * v) + 2 * w * (2 * v + u)) * ht
    exact mul_left_cancel₀ h4 this
  have ht0 : t ≠ 0 := by
    rintro rfl
    apply hgu
    linear_combination hminus
  have hplus : (u ^ 3 + b) + t * t = t * w * u * c := by
    linear_combination hminus + t * ht
  exact ⟨hw, ht0, hc0, hplus, hminus⟩

/-- the record of operations is the field's: +, −, ·, ⁻¹, numerals, a partial square root that is
correct and complete, and c² = −3 -/
structure Lawful (O : FieldOps F) : Prop where
  add : ∀ a b, O.add a b = a + b
  sub : ∀ a b, O.sub a b = a - b
  mul : ∀ a b, O.mul a b = a * b
  neg : ∀ a, O.neg a = -a
  inv : ∀ a, O.inv a = a⁻¹
  ofNat : ∀ n : Nat, O.ofNat n = (n : F)
  sqrt_some : ∀ a r, O.sqrt a = some r → r * r = a
  sqrt_none : ∀ a, O.sqrt a = none → ∀ r, r * r ≠ a
  c_sq : O.c * O.c = -3

variable [DecidableEq F] {O : FieldOps F}

theorem g_eq (L : Lawful O) (x : F) : g O x = x ^ 3 + 7 := by
  simp only [g, L.add, L.mul, L.ofNat]; push_cast; ring

theorem isSquare_true (L : Lawful O) (a y : F) (h : y * y = a) : isSquare O a = true := by
  unfold isSquare
  cases hs : O.sqrt a with
  | none => exact absurd h (L.sqrt_none a hs y)
  | some r => rfl

theorem isSquare_false (L : Lawful O) (a : F) (h : ∀ y, y * y ≠ a) : isSquare O a = false := by
  unfold isSquare
  cases hs : O.sqrt a with
  | none => rfl
  | some r => exact absurd (L.sqrt_some a r hs) (h r)

theorem of_isSquare_false (L : Lawful O) (a : F) (h : ¬ isSquare O a = true) : ∀ y, y * y ≠ a := by
  intro y hy
  exact h (isSquare_true L a y hy)

/-- the forward map at a `t` that encodes the conic point (v, w): no normalisation happens and the
candidates are (u + w², −u − v, v) -/
theorem forward_on_conic (L : Lawful O) (u v w t : F) (hu : u ≠ 0) (h2 : (2 : F) ≠ 0) (h3 : (3 : F) ≠ 0)
    (hgu : u ^ 3 + 7 ≠ 0) (hconic : w ^ 2 * (u ^ 2 + u * v + v ^ 2) = -(u ^ 3 + 7))
    (ht : 2 * t = -(w * (u * (1 - O.c) + 2 * v))) :
    xswiftec O u t = pick O (u + w ^ 2, -u - v, v) := by
  obtain ⟨hw, ht0, hc0, hplus, hminus⟩ := forward_core u v w O.c t 7 hu h2 h3 L.c_sq hgu hconic ht
  have hnorm : normUT O u t = (u, t) := by
    unfold normUT
    simp only [L.ofNat, Nat.cast_zero, Nat.cast_one, if_neg hu, if_neg ht0, g_eq L, L.neg, L.mul, L.add]
    rw [if_neg]
    intro h
    have : (u ^ 3 + 7) + t * t = 0 := by rw [h]; ring
    rw [hplus] at this
    exact (mul_ne_zero (mul_ne_zero (mul_ne_zero ht0 hw) hu) hc0) this
  have hX : (u ^ 3 + 7 - t * t) * (2 * t)⁻¹ = w * (2 * v + u) / 2 := by
    rw [hminus]; field_simp
  have hY : (w * (2 * v + u) / 2 + t) * (O.c * u)⁻¹ = w / 2 := by
    have : w * (2 * v + u) / 2 + t = w * u * O.c / 2 := by
      have h' : 2 * (w * (2 * v + u) / 2 + t) = 2 * (w * u * O.c / 2) := by
        field_simp; linear_combination ht
      exact mul_left_cancel₀ h2 h'
    rw [this]; field_simp
  have hcands : cands O u t = (u + w ^ 2, -u - v, v) := by
    unfold cands
    simp only [div, g_eq L, L.add, L.sub, L.mul, L.neg, L.inv, L.ofNat]
    push_cast
    rw [hX, hY]
    refine Prod.ext ?_ (Prod.ext ?_ ?_)
    · show u + 4 * (w / 2 * (w / 2)) = u + w ^ 2
      field_simp; ring
    · show -(w * (2 * v + u) / 2 * (2 * (w / 2))⁻¹) - u * 2⁻¹ = -u - v
      field_simp; ring
    · show w * (2 * v + u) / 2 * (2 * (w / 2))⁻¹ - u * 2⁻¹ = v
      field_simp; ring
  unfold xswiftec
  rw [hnorm, hcands]

theorem pick1 (a b c : F) (h : isSquare O (g O a) = true) : pick O (a, b, c) = some a := by
  simp only [pick, h, if_true]

theorem pick2 (a b c : F) (h1 : isSquare O (g O a) = false) (h2 : isSquare O (g O b) = true) :
    pick O (a, b, c) = some b := by
  simp [pick, h1, h2]

theorem pick3 (a b c : F) (h1 : isSquare O (g O a) = false) (h2 : isSquare O (g O b) = false)
    (h3 : isSquare O (g O c) = true) : pick O (a, b, c) = some c := by
  simp [pick, h1, h2, h3]

/-- what the first half of the inverse returns: a point of the conic s(u² + uv + v²) = −g(u) with
either v = x and g(−x−u) a non-square, or u + s = x -/
theorem invVS_spec (L : Lawful O) (u x v s : F) (case : Nat) (h2 : (2 : F) ≠ 0)
    (hg : ∀ a : F, a ^ 3 + 7 ≠ 0) (hx : ∃ y, y * y = x ^ 3 + 7)
    (h : invVS O u x case = some (v, s)) :
    s * (u ^ 2 + u * v + v ^ 2) = -(u ^ 3 + 7) ∧
    ((v = x ∧ ∀ y, y * y ≠ (-u - x) ^ 3 + 7) ∨ u + s = x) := by
  unfold invVS at h
  by_cases hb : case &&& 2 = 0
  · simp only [hb, if_true] at h
    by_cases hsq : isSquare O (g O (O.neg (O.add x u))) = true
    · simp only [hsq, if_true] at h; exact absurd h (by simp)
    · simp only [hsq] at h
      simp only [Bool.false_eq_true, if_false, Option.some.injEq, Prod.mk.injEq] at h
      obtain ⟨hv, hs⟩ := h
      have hns := of_isSquare_false L _ hsq
      simp only [g_eq L, L.neg, L.add] at hns
      have hns' : ∀ y, y * y ≠ (-u - x) ^ 3 + 7 := by
        intro y hy; apply hns y; rw [hy]; ring
      have hden : u ^ 2 + u * x + x ^ 2 ≠ 0 := by
        intro h0
        obtain ⟨y, hy⟩ := hx
        apply hns' y
        rw [hy]
        linear_combination (2 * x + u) * h0
      subst hv
      refine ⟨?_, Or.inl ⟨rfl, hns'⟩⟩
      rw [← hs]
      simp only [div, g_eq L, L.neg, L.add, L.mul, L.inv]
      have e : u * u + u * x + x * x = u ^ 2 + u * x + x ^ 2 := by ring
      rw [e, neg_mul, inv_mul_cancel_right₀ hden]
  · simp only [hb, if_false] at h
    by_cases hs0 : O.sub x u = O.ofNat 0
    · simp only [hs0, if_true] at h; exact absurd h (by simp)
    · simp only [hs0, if_false] at h
      cases hr : O.sqrt (O.neg (O.mul (O.sub x u) (O.add (O.mul (O.ofNat 4) (g O u))
          (O.mul (O.mul (O.ofNat 3) (O.mul u u)) (O.sub x u))))) with
      | none => rw [hr] at h; exact absurd h (by simp)
      | some r =>
        rw [hr] at h
        simp only [] at h
        by_cases hcz : case &&& 1 = 1 ∧ r = O.ofNat 0
        · simp only [hcz, and_self, if_true] at h; exact absurd h (by simp)
        · simp only [hcz, if_false, Option.some.injEq, Prod.mk.injEq] at h
          obtain ⟨hv, hs⟩ := h
          have hrr := L.sqrt_some _ _ hr
          simp only [g_eq L, L.neg, L.add, L.mul, L.sub, L.ofNat] at hrr hs0 hs hv
          push_cast at hrr hs0 hv
          simp only [div, L.sub, L.mul, L.inv, L.ofNat] at hv
          push_cast at hv
          have hsne : s ≠ 0 := by rw [← hs]; exact hs0
          refine ⟨?_, Or.inr (by rw [← hs]; ring)⟩
          rw [← hv, ← hs] at *
          have h4 : (4 : F) ≠ 0 := by
            have : (4 : F) = 2 * 2 := by norm_num
            rw [this]; exact mul_ne_zero h2 h2
          have key : 4 * ((x - u) * (u ^ 2 + u * ((r * (x - u)⁻¹ - u) * 2⁻¹) + ((r * (x - u)⁻¹ - u) * 2⁻¹) ^ 2))
              = 4 * (-(u ^ 3 + 7)) := by
            field_simp
            linear_combination hrr
          exact mul_left_cancel₀ h4 key

/-- what the second half returns: `t` encodes (v', w') with v' ∈ {v, −u−v}, w' ∈ {w, −w} -/
theorem invT_spec (L : Lawful O) (u v w : F) (case : Nat) (h2 : (2 : F) ≠ 0) :
    ∃ v' w', (v' = v ∨ v' = -u - v) ∧ (w' = w ∨ w' = -w) ∧
      2 * invT O u v w case = -(w' * (u * (1 - O.c) + 2 * v')) := by
  unfold invT
  simp only [div, L.add, L.sub, L.mul, L.neg, L.inv, L.ofNat]
  push_cast
  by_cases h1 : case &&& 1 = 0 <;> by_cases h5 : (case &&& 5 = 0 ∨ case &&& 5 = 5)
  · refine ⟨v, w, Or.inl rfl, Or.inl rfl, ?_⟩
    simp only [h1, h5, if_true]; field_simp; try ring
  · refine ⟨v, -w, Or.inl rfl, Or.inr rfl, ?_⟩
    simp only [h1, h5, if_true, if_false]; field_simp; try ring
  · refine ⟨-u - v, -w, Or.inr rfl, Or.inr rfl, ?_⟩
    simp only [h1, h5, if_true, if_false]; field_simp; try ring
  · refine ⟨-u - v, w, Or.inr rfl, Or.inl rfl, ?_⟩
    simp only [h1, h5, if_false]; field_simp; try ring

/-- **decode ∘ encode = id**: whenever `xswiftecInv` produces `t` for a curve x-coordinate `x`,
`xswiftec u t` is `x` — over any field in which 2, 3 ≠ 0 and x³ + 7 has no root (no point of
order 2), for a non-zero `u`. -/
theorem xswiftec_inv_correct (L : Lawful O) (u x t : F) (case : Nat) (hu : u ≠ 0)
    (h2 : (2 : F) ≠ 0) (h3 : (3 : F) ≠ 0) (hg : ∀ a : F, a ^ 3 + 7 ≠ 0)
    (hx : ∃ y, y * y = x ^ 3 + 7) (h : xswiftecInv O u x case = some t) :
    xswiftec O u t = some x := by
  unfold xswiftecInv at h
  cases hvs : invVS O u x case with
  | none => rw [hvs] at h; exact absurd h (by simp)
  | some vs =>
    obtain ⟨v, s⟩ := vs
    rw [hvs] at h
    simp only [] at h
    cases hsq : O.sqrt s with
    | none => rw [hsq] at h; exact absurd h (by simp)
    | some w =>
      rw [hsq] at h
      simp only [Option.some.injEq] at h
      have hww : w * w = s := L.sqrt_some s w hsq
      obtain ⟨hconic, hAB⟩ := invVS_spec L u x v s case h2 hg hx hvs
      obtain ⟨v', w', hv', hw', ht⟩ := invT_spec L u v w case h2
      rw [h] at ht
      have hw2 : w' ^ 2 = s := by
        rcases hw' with rfl | rfl
        · rw [← hww]; ring
        · rw [← hww]; ring
      have hh : u ^ 2 + u * v' + v' ^ 2 = u ^ 2 + u * v + v ^ 2 := by
        rcases hv' with rfl | rfl
        · rfl
        · ring
      have hconic' : w' ^ 2 * (u ^ 2 + u * v' + v' ^ 2) = -(u ^ 3 + 7) := by rw [hw2, hh, hconic]
      rw [forward_on_conic L u v' w' t hu h2 h3 (hg u) hconic' ht, hw2]
      obtain ⟨y, hy⟩ := hx
      have hxsq : isSquare O (g O x) = true := isSquare_true L _ y (by rw [g_eq L, hy])
      rcases hAB with ⟨hvx, hns⟩ | hB
      · -- v = x, g(−u−x) is not a square, hence g(u + s) is not a square either
        subst hvx
        have hy0 : y ≠ 0 := by
          rintro rfl
          apply hg v; rw [← hy]; ring
        have hs0 : s ≠ 0 := by
          rintro rfl
          apply hg u
          linear_combination hconic
        have h3sq : isSquare O (g O (u + s)) = false := by
          apply isSquare_false L
          intro z hz
          rw [g_eq L] at hz
          have hw0 : w ≠ 0 := by
            rintro rfl
            apply hs0; rw [← hww]; ring
          have hid := swift_identity u v w 7 (by rw [← hconic, ← hww]; ring)
          apply hns (z * (u ^ 2 + u * v + v ^ 2) / (w * y))
          have e1 : (u + w ^ 2) ^ 3 + 7 = z * z := by rw [hz, ← hww]; ring
          rw [e1, ← hy] at hid
          field_simp
          linear_combination hid
        have h2ns : isSquare O (g O (-u - v)) = false := by
          apply isSquare_false L
          intro z hz
          rw [g_eq L] at hz
          exact hns z hz
        rcases hv' with rfl | rfl
        · exact pick3 _ _ _ h3sq h2ns hxsq
        · have e : -u - (-u - v) = v := by ring
          rw [e]
          exact pick2 _ _ _ h3sq hxsq
      · rw [hB]
        exact pick1 _ _ _ hxsq

end BV.C19.Ellswift.Lemmas
