/-
C19 — the executable ElligatorSwift model (`natOps`, Nat mod p) refines the field-generic
definitions: a homomorphism argument transports `xswiftec_inv_correct` from the field `ZMod p`
to the executable model, ASSUMING that p is prime (`[Fact p.Prime]`, not proved in Lean) and that
x³ + 7 has no root mod p.
-/
import Mathlib.Data.ZMod.Basic
import Mathlib.Algebra.Field.ZMod
import Mathlib.FieldTheory.Finite.Basic
import BV.C19.EllswiftLemmas
set_option linter.unusedSectionVars false
set_option linter.unusedSimpArgs false
namespace BV.C19.Ellswift.Refine
open BV.C19 BV.C19.Ellswift BV.C19.Ellswift.Lemmas

/-! ### square-and-multiply is exponentiation -/

theorem powAux_modEq (m : Nat) : ∀ (fuel b e acc : Nat), e < 2 ^ fuel →
    Field.powAux m fuel b e acc ≡ acc * b ^ e [MOD m]
  | 0, b, e, acc, h => by
    have : e = 0 := by simpa using h
    subst this
    simp [Field.powAux, Nat.ModEq]
  | fuel + 1, b, e, acc, h => by
    unfold Field.powAux
    by_cases he : e = 0
    · subst he; simp [Nat.ModEq]
    · rw [if_neg he]
      have hlt : e / 2 < 2 ^ fuel := by
        rw [pow_succ] at h; omega
      have ih := powAux_modEq m fuel (b * b % m) (e / 2) (if e % 2 = 1 then acc * b % m else acc) hlt
      refine ih.trans ?_
      have hb : (b * b % m) ^ (e / 2) ≡ (b * b) ^ (e / 2) [MOD m] := (Nat.mod_modEq _ _).pow _
      by_cases ho : e % 2 = 1
      · rw [if_pos ho]
        have he2 : b ^ e = (b * b) ^ (e / 2) * b := by
          conv_lhs => rw [← Nat.div_add_mod e 2, ho]
          rw [pow_succ, pow_mul, pow_two]
        rw [he2]
        calc acc * b % m * (b * b % m) ^ (e / 2) ≡ acc * b * (b * b) ^ (e / 2) [MOD m] :=
              (Nat.mod_modEq _ _).mul hb
          _ = acc * ((b * b) ^ (e / 2) * b) := by ring
      · rw [if_neg ho]
        have he0 : e % 2 = 0 := by omega
        have he2 : b ^ e = (b * b) ^ (e / 2) := by
          conv_lhs => rw [← Nat.div_add_mod e 2, he0]
          rw [Nat.add_zero, pow_mul, pow_two]
        rw [he2]
        exact Nat.ModEq.mul_left _ hb

theorem powMod_modEq (m a e : Nat) : Field.powMod m a e ≡ a ^ e [MOD m] := by
  unfold Field.powMod
  refine (powAux_modEq m _ _ e _ Nat.lt_log2_self).trans ?_
  calc 1 % m * (a % m) ^ e ≡ 1 * a ^ e [MOD m] := (Nat.mod_modEq _ _).mul ((Nat.mod_modEq _ _).pow _)
    _ = a ^ e := by ring

theorem powAux_lt (m : Nat) (hm : 0 < m) : ∀ (fuel b e acc : Nat), acc < m →
    Field.powAux m fuel b e acc < m
  | 0, _, _, _, h => h
  | fuel + 1, b, e, acc, h => by
    unfold Field.powAux
    split
    · exact h
    · apply powAux_lt m hm
      split
      · exact Nat.mod_lt _ hm
      · exact h

theorem powMod_lt (m a e : Nat) (hm : 1 < m) : Field.powMod m a e < m := by
  unfold Field.powMod
  exact powAux_lt m (by omega) _ _ _ _ (Nat.mod_lt _ (by omega))

/-! ### homomorphisms of operation records preserve both maps -/

/-- `φ` maps the operations of `O` to those of `O'`; it is injective on the set `S` of
representatives, which contains every result of an operation. -/
structure Hom {F F' : Type} (O : FieldOps F) (O' : FieldOps F') (φ : F → F') (S : F → Prop) : Prop where
  add : ∀ a b, φ (O.add a b) = O'.add (φ a) (φ b)
  sub : ∀ a b, φ (O.sub a b) = O'.sub (φ a) (φ b)
  mul : ∀ a b, φ (O.mul a b) = O'.mul (φ a) (φ b)
  neg : ∀ a, φ (O.neg a) = O'.neg (φ a)
  inv : ∀ a, φ (O.inv a) = O'.inv (φ a)
  ofNat : ∀ n, φ (O.ofNat n) = O'.ofNat n
  c : φ O.c = O'.c
  sqrt : ∀ a, O'.sqrt (φ a) = (O.sqrt a).map φ
  inj : ∀ a b, S a → S b → (φ a = φ b ↔ a = b)
  S_add : ∀ a b, S (O.add a b)
  S_sub : ∀ a b, S (O.sub a b)
  S_mul : ∀ a b, S (O.mul a b)
  S_neg : ∀ a, S (O.neg a)
  S_ofNat : ∀ n, S (O.ofNat n)
  S_sqrt : ∀ a r, O.sqrt a = some r → S r

section hom
variable {F F' : Type} [DecidableEq F] [DecidableEq F'] {O : FieldOps F} {O' : FieldOps F'}
  {φ : F → F'} {S : F → Prop} (H : Hom O O' φ S)
include H

theorem g_hom (x : F) : g O' (φ x) = φ (g O x) := by
  simp only [g, H.add, H.mul, H.ofNat]

theorem S_g (x : F) : S (g O x) := by
  unfold g; exact H.S_add _ _

theorem div_hom (a b : F) : div O' (φ a) (φ b) = φ (div O a b) := by
  simp only [div, H.mul, H.inv]

theorem S_div (a b : F) : S (div O a b) := by
  unfold div; exact H.S_mul _ _

theorem isSquare_hom (a : F) : isSquare O' (φ a) = isSquare O a := by
  unfold isSquare
  rw [H.sqrt]
  cases O.sqrt a <;> rfl

theorem eq_hom (a b : F) (ha : S a) (hb : S b) : (φ a = φ b) ↔ (a = b) := H.inj a b ha hb

theorem normUT_hom (u t : F) (hu : S u) (ht : S t) :
    normUT O' (φ u) (φ t) = (φ (normUT O u t).1, φ (normUT O u t).2) ∧
    S (normUT O u t).1 ∧ S (normUT O u t).2 := by
  unfold normUT
  have e0 : O'.ofNat 0 = φ (O.ofNat 0) := (H.ofNat 0).symm
  have e1 : O'.ofNat 1 = φ (O.ofNat 1) := (H.ofNat 1).symm
  by_cases h1 : u = O.ofNat 0 <;> by_cases h2 : t = O.ofNat 0
  all_goals
    have h1' := (eq_hom H u (O.ofNat 0) hu (H.S_ofNat 0))
    have h2' := (eq_hom H t (O.ofNat 0) ht (H.S_ofNat 0))
    simp only [e0, e1, h1', h2', h1, h2, if_true, if_false]
  all_goals
    simp only [g_hom H, ← H.mul, ← H.neg, ← H.add]
  · have h3' := eq_hom H (g O (O.ofNat 1)) (O.neg (O.mul (O.ofNat 1) (O.ofNat 1))) (S_g H _) (H.S_neg _)
    by_cases h3 : g O (O.ofNat 1) = O.neg (O.mul (O.ofNat 1) (O.ofNat 1))
    · simp only [h3', h3, if_true]; exact ⟨trivial, H.S_ofNat 1, H.S_add _ _⟩
    · simp only [h3', h3, if_false]; exact ⟨trivial, H.S_ofNat 1, H.S_ofNat 1⟩
  · have h3' := eq_hom H (g O (O.ofNat 1)) (O.neg (O.mul t t)) (S_g H _) (H.S_neg _)
    by_cases h3 : g O (O.ofNat 1) = O.neg (O.mul t t)
    · simp only [h3', h3, if_true]; exact ⟨trivial, H.S_ofNat 1, H.S_add _ _⟩
    · simp only [h3', h3, if_false]; exact ⟨trivial, H.S_ofNat 1, ht⟩
  · have h3' := eq_hom H (g O u) (O.neg (O.mul (O.ofNat 1) (O.ofNat 1))) (S_g H _) (H.S_neg _)
    by_cases h3 : g O u = O.neg (O.mul (O.ofNat 1) (O.ofNat 1))
    · simp only [h3', h3, if_true]; exact ⟨trivial, hu, H.S_add _ _⟩
    · simp only [h3', h3, if_false]; exact ⟨trivial, hu, H.S_ofNat 1⟩
  · have h3' := eq_hom H (g O u) (O.neg (O.mul t t)) (S_g H _) (H.S_neg _)
    by_cases h3 : g O u = O.neg (O.mul t t)
    · simp only [h3', h3, if_true]; exact ⟨trivial, hu, H.S_add _ _⟩
    · simp only [h3', h3, if_false]; exact ⟨trivial, hu, ht⟩

theorem cands_hom (u t : F) :
    cands O' (φ u) (φ t) = (φ (cands O u t).1, φ (cands O u t).2.1, φ (cands O u t).2.2) := by
  simp only [cands, g_hom H, div_hom H, ← H.mul, ← H.add, ← H.sub, ← H.neg, ← H.ofNat, ← H.c]

theorem pick_hom (a b c : F) : pick O' (φ a, φ b, φ c) = (pick O (a, b, c)).map φ := by
  simp only [pick, g_hom H, isSquare_hom H]
  by_cases h1 : isSquare O (g O a) = true
  · simp [h1]
  · by_cases h2 : isSquare O (g O b) = true
    · simp [h1, h2]
    · by_cases h3 : isSquare O (g O c) = true
      · simp [h1, h2, h3]
      · simp [h1, h2, h3]

theorem xswiftec_hom (u t : F) (hu : S u) (ht : S t) :
    xswiftec O' (φ u) (φ t) = (xswiftec O u t).map φ := by
  unfold xswiftec
  obtain ⟨hn, _, _⟩ := normUT_hom H u t hu ht
  rw [hn]
  simp only []
  rw [cands_hom H, pick_hom H]

theorem invVS_hom (u x : F) (case : Nat) :
    invVS O' (φ u) (φ x) case = (invVS O u x case).map (fun vs => (φ vs.1, φ vs.2)) := by
  unfold invVS
  by_cases hb : case &&& 2 = 0
  · simp only [hb, if_true, ← H.add, ← H.neg, g_hom H, isSquare_hom H, ← H.mul, div_hom H]
    by_cases hs : isSquare O (g O (O.neg (O.add x u))) = true
    · simp [hs]
    · simp [hs]
  · simp only [hb, if_false, ← H.sub]
    have h0 := eq_hom H (O.sub x u) (O.ofNat 0) (H.S_sub _ _) (H.S_ofNat 0)
    rw [← H.ofNat 0]
    by_cases hs0 : O.sub x u = O.ofNat 0
    · simp only [h0, hs0, if_true, Option.map_none]
    · simp only [h0, hs0, if_false]
      rw [← H.ofNat 4, ← H.ofNat 3]
      simp only [g_hom H, ← H.mul, ← H.add, ← H.neg, H.sqrt]
      cases hr : O.sqrt (O.neg (O.mul (O.sub x u) (O.add (O.mul (O.ofNat 4) (g O u))
          (O.mul (O.mul (O.ofNat 3) (O.mul u u)) (O.sub x u))))) with
      | none => simp
      | some r =>
        have hr0 := eq_hom H r (O.ofNat 0) (H.S_sqrt _ _ hr) (H.S_ofNat 0)
        simp only [Option.map_some]
        rw [← H.ofNat 2]
        by_cases hc : case &&& 1 = 1 ∧ r = O.ofNat 0
        · have hc' : case &&& 1 = 1 ∧ φ r = φ (O.ofNat 0) := ⟨hc.1, by rw [hc.2]⟩
          simp only [hc, hc', and_self, if_true, Option.map_none]
        · have hc' : ¬ (case &&& 1 = 1 ∧ φ r = φ (O.ofNat 0)) := fun h => hc ⟨h.1, hr0.mp h.2⟩
          simp only [hc, hc', if_false, div_hom H, ← H.sub, Option.map_some]

theorem invT_hom (u v w : F) (case : Nat) :
    invT O' (φ u) (φ v) (φ w) case = φ (invT O u v w case) := by
  unfold invT
  rw [← H.ofNat 1, ← H.ofNat 2, ← H.c]
  by_cases h1 : case &&& 1 = 0 <;> by_cases h5 : (case &&& 5 = 0 ∨ case &&& 5 = 5) <;>
    simp only [h1, h5, if_true, if_false, ← H.sub, ← H.add, ← H.mul, div_hom H, ← H.neg]

theorem xswiftecInv_hom (u x : F) (case : Nat) :
    xswiftecInv O' (φ u) (φ x) case = (xswiftecInv O u x case).map φ := by
  unfold xswiftecInv
  rw [invVS_hom H]
  cases invVS O u x case with
  | none => rfl
  | some vs =>
    obtain ⟨v, s⟩ := vs
    simp only [Option.map_some, H.sqrt]
    cases O.sqrt s with
    | none => rfl
    | some w => simp only [Option.map_some, invT_hom H]

end hom

/-! ### the field ZMod p and the executable model -/

abbrev Fp := ZMod Field.p

theorem p_gt : 1 < Field.p := by unfold Field.p; omega
theorem p_pos : 0 < Field.p := by unfold Field.p; omega

/-- the operations of the field ZMod p, with the same algorithms for inverse and square root -/
def zOps : FieldOps Fp where
  add := (· + ·)
  sub := (· - ·)
  mul := (· * ·)
  neg := fun a => -a
  inv := fun a => a ^ (Field.p - 2)
  ofNat := fun n => (n : Fp)
  sqrt := fun a => if a ^ ((Field.p + 1) / 4) * a ^ ((Field.p + 1) / 4) = a then some (a ^ ((Field.p + 1) / 4)) else none
  c := (Field.cSqrtM3 : Fp)

theorem c_sq_nat : (Field.cSqrtM3 * Field.cSqrtM3 + 3) % Field.p = 0 := Field.cSqrtM3_sq

theorem lawful_zOps [Fact (Nat.Prime Field.p)] : Lawful zOps where
  add := fun _ _ => rfl
  sub := fun _ _ => rfl
  mul := fun _ _ => rfl
  neg := fun _ => rfl
  ofNat := fun _ => rfl
  inv := by
    intro a
    show a ^ (Field.p - 2) = a⁻¹
    by_cases h : a = 0
    · subst h
      rw [zero_pow (by unfold Field.p; omega), inv_zero]
    · have h1 : a ^ (Field.p - 1) = 1 := ZMod.pow_card_sub_one_eq_one h
      have e : Field.p - 1 = Field.p - 2 + 1 := by unfold Field.p; omega
      rw [e, pow_succ] at h1
      exact eq_inv_of_mul_eq_one_left h1
  sqrt_some := by
    intro a r h
    simp only [zOps] at h
    split at h
    · rename_i hc
      have h' := Option.some.inj h
      rw [← h']; exact hc
    · exact absurd h (by simp)
  sqrt_none := by
    intro a h y hy
    simp only [zOps] at h
    split at h
    · exact absurd h (by simp)
    · rename_i hc
      apply hc
      have e2 : (Field.p + 1) / 4 + (Field.p + 1) / 4 = (Field.p - 1) / 2 + 1 := by unfold Field.p; omega
      have e3 : 2 * ((Field.p - 1) / 2) = Field.p - 1 := by unfold Field.p; omega
      rw [← pow_add, e2, ← hy]
      by_cases h0 : y = 0
      · subst h0; simp
      · have h1 : y ^ (Field.p - 1) = 1 := ZMod.pow_card_sub_one_eq_one h0
        calc (y * y) ^ ((Field.p - 1) / 2 + 1) = y ^ (2 * ((Field.p - 1) / 2)) * (y * y) := by
              rw [pow_succ, ← pow_two, ← pow_mul]
          _ = y * y := by rw [e3, h1, one_mul]
  c_sq := by
    show (Field.cSqrtM3 : Fp) * (Field.cSqrtM3 : Fp) = -3
    have h : ((Field.cSqrtM3 * Field.cSqrtM3 + 3 : ℕ) : Fp) = 0 := by
      rw [ZMod.natCast_eq_zero_iff]
      exact Nat.dvd_of_mod_eq_zero c_sq_nat
    push_cast at h
    linear_combination h

/-- the cast Nat → ZMod p maps the executable operations to the field operations -/
theorem hom_natOps : Hom natOps zOps (fun n : Nat => (n : Fp)) (fun n => n < Field.p) where
  add := by intro a b; simp [natOps, zOps, Field.fadd]
  sub := by
    intro a b
    simp only [natOps, zOps, Field.fsub, ZMod.natCast_mod]
    have hle : b % Field.p ≤ Field.p := Nat.le_of_lt (Nat.mod_lt _ p_pos)
    rw [Nat.cast_add, Nat.cast_sub hle]
    simp
    ring
  mul := by intro a b; simp [natOps, zOps, Field.fmul]
  neg := by
    intro a
    simp only [natOps, zOps, Field.fneg, ZMod.natCast_mod]
    have hle : a % Field.p ≤ Field.p := Nat.le_of_lt (Nat.mod_lt _ p_pos)
    rw [Nat.cast_sub hle]
    simp
  inv := by
    intro a
    simp only [natOps, zOps, Field.finv]
    have h := (ZMod.natCast_eq_natCast_iff _ _ _).mpr (powMod_modEq Field.p a (Field.p - 2))
    rw [h, Nat.cast_pow]
  ofNat := by intro n; simp [natOps, zOps]
  c := rfl
  sqrt := by
    intro a
    simp only [natOps, zOps, Field.fsqrt]
    have h : ((Field.powMod Field.p a ((Field.p + 1) / 4) : ℕ) : Fp) = (a : Fp) ^ ((Field.p + 1) / 4) := by
      rw [(ZMod.natCast_eq_natCast_iff _ _ _).mpr (powMod_modEq Field.p a ((Field.p + 1) / 4)), Nat.cast_pow]
    have hiff : (Field.powMod Field.p a ((Field.p + 1) / 4) * Field.powMod Field.p a ((Field.p + 1) / 4) % Field.p = a % Field.p)
        ↔ ((a : Fp) ^ ((Field.p + 1) / 4) * (a : Fp) ^ ((Field.p + 1) / 4) = (a : Fp)) := by
      rw [← h, ← Nat.cast_mul, ZMod.natCast_eq_natCast_iff']
    by_cases hc : Field.powMod Field.p a ((Field.p + 1) / 4) * Field.powMod Field.p a ((Field.p + 1) / 4) % Field.p = a % Field.p
    · rw [if_pos hc, if_pos (hiff.mp hc), Option.map_some, h]
    · rw [if_neg hc, if_neg (fun hh => hc (hiff.mpr hh)), Option.map_none]
  inj := by
    intro a b ha hb
    rw [ZMod.natCast_eq_natCast_iff', Nat.mod_eq_of_lt ha, Nat.mod_eq_of_lt hb]
  S_add := fun _ _ => Nat.mod_lt _ p_pos
  S_sub := fun _ _ => Nat.mod_lt _ p_pos
  S_mul := fun _ _ => Nat.mod_lt _ p_pos
  S_neg := fun _ => Nat.mod_lt _ p_pos
  S_ofNat := fun _ => Nat.mod_lt _ p_pos
  S_sqrt := by
    intro a r h
    simp only [natOps, Field.fsqrt] at h
    split at h
    · have h' := Option.some.inj h
      rw [← h']; exact powMod_lt _ _ _ p_gt
    · exact absurd h (by simp)

/-- **decode ∘ encode = id for the executable model** (Nat mod p), assuming p is prime and
x³ + 7 has no root mod p -/
theorem xswiftec_inv_correct_nat [Fact (Nat.Prime Field.p)]
    (hg : ∀ a : Fp, a ^ 3 + 7 ≠ 0)
    (u x t : Nat) (case : Nat) (hu : u < Field.p) (hu0 : u ≠ 0) (hx : x < Field.p)
    (hcurve : ∃ y : Nat, y * y % Field.p = (x ^ 3 + 7) % Field.p)
    (h : xswiftecInv natOps u x case = some t) :
    xswiftec natOps u t = some x := by
  have H := hom_natOps
  have hinv := xswiftecInv_hom H u x case
  rw [h, Option.map_some] at hinv
  have hu' : ((u : ℕ) : Fp) ≠ 0 := by
    intro h0
    rw [ZMod.natCast_eq_zero_iff] at h0
    exact hu0 (Nat.eq_zero_of_dvd_of_lt h0 hu)
  have h2 : (2 : Fp) ≠ 0 := by
    intro h0
    have : ((2 : ℕ) : Fp) = 0 := by exact_mod_cast h0
    rw [ZMod.natCast_eq_zero_iff] at this
    have := Nat.le_of_dvd (by omega) this
    unfold Field.p at this; omega
  have h3 : (3 : Fp) ≠ 0 := by
    intro h0
    have : ((3 : ℕ) : Fp) = 0 := by exact_mod_cast h0
    rw [ZMod.natCast_eq_zero_iff] at this
    have := Nat.le_of_dvd (by omega) this
    unfold Field.p at this; omega
  have hx' : ∃ y : Fp, y * y = (x : Fp) ^ 3 + 7 := by
    obtain ⟨y, hy⟩ := hcurve
    refine ⟨(y : Fp), ?_⟩
    have := (ZMod.natCast_eq_natCast_iff' (y * y) (x ^ 3 + 7) Field.p).mpr hy
    push_cast at this
    exact this
  have hfwd := Lemmas.xswiftec_inv_correct lawful_zOps (u : Fp) (x : Fp) (t : Fp) case hu' h2 h3 hg hx' hinv
  -- t is a representative
  have ht : t < Field.p := by
    unfold xswiftecInv at h
    cases hvs : invVS natOps u x case with
    | none => rw [hvs] at h; exact absurd h (by simp)
    | some vs =>
      rw [hvs] at h
      simp only [] at h
      cases hs : natOps.sqrt vs.2 with
      | none => rw [hs] at h; exact absurd h (by simp)
      | some w =>
        rw [hs] at h
        simp only [Option.some.injEq] at h
        rw [← h]
        unfold invT
        by_cases h5 : (case &&& 5 = 0 ∨ case &&& 5 = 5)
        · simp only [h5, if_true]; exact H.S_neg _
        · simp only [h5, if_false]; exact H.S_mul _ _
  rw [xswiftec_hom H u t hu ht] at hfwd
  cases hr : xswiftec natOps u t with
  | none => rw [hr] at hfwd; exact absurd hfwd (by simp)
  | some r =>
    rw [hr, Option.map_some, Option.some.injEq] at hfwd
    have hrS : r < Field.p := by
      unfold xswiftec pick at hr
      split at hr
      · injection hr with hr; rw [← hr]; unfold cands; exact H.S_add _ _
      · split at hr
        · injection hr with hr; rw [← hr]; unfold cands; exact H.S_sub _ _
        · split at hr
          · injection hr with hr; rw [← hr]; unfold cands; exact H.S_sub _ _
          · exact absurd hr (by simp)
    rw [(H.inj r x hrS hx).mp hfwd]

end BV.C19.Ellswift.Refine
