/-
C19 — packet sequences: what a sender puts on the wire for a list of packets, what a receiver
reads off a byte stream, and the lemmas that connect the two (in-order lossless delivery across
any number of rekeys; accepted ⇒ sealed; closed form of the cipher states).
-/
import BV.C19.Lemmas
import BV.C19.Session
namespace BV.C19
open BV.Hex BV.Aead BV.C19.Lemmas

/-- a packet as handed to V2EncPacket -/
structure Pkt where
  contents : List UInt8
  aad : List UInt8
  ignore : Bool
deriving DecidableEq, Repr

/-- a packet with an arbitrary header byte (what a receiver can be made to accept) -/
structure RawPkt where
  hdr : UInt8
  contents : List UInt8
  aad : List UInt8
deriving DecidableEq, Repr

def Pkt.raw (p : Pkt) : RawPkt := ⟨header p.ignore, p.contents, p.aad⟩

def ignoreBit (hdr : UInt8) : Bool := (hdr &&& 0x80) != 0

/-- the sender: V2EncPacket for each packet in turn; `none` if one is too long -/
def sendAll (P : Prims) : Dir → List Pkt → Option (List UInt8 × Dir)
  | d, [] => some ([], d)
  | d, p :: ps =>
    match sendPacket P d p.contents p.aad p.ignore with
    | none => none
    | some (b, d') =>
      match sendAll P d' ps with
      | none => none
      | some (bs, d'') => some (b ++ bs, d'')

/-- wire bytes and final state for raw packets (no length limit check) -/
def encodeAll (P : Prims) : Dir → List RawPkt → List UInt8 × Dir
  | d, [] => ([], d)
  | d, p :: ps =>
    let e := encodePacket P d p.hdr p.contents p.aad
    let r := encodeAll P e.2 ps
    (e.1 ++ r.1, r.2)

/-- the receiver: one `recvOne` per expected AAD; delivers (ignore flag, contents) in order -/
def recvSeq (P : Prims) : Dir → List UInt8 → List (List UInt8) →
    Option (List (Bool × List UInt8) × Dir × List UInt8)
  | d, w, [] => some ([], d, w)
  | d, w, aad :: aads =>
    match recvOne P d w aad with
    | .packet ign c d' rest =>
      match recvSeq P d' rest aads with
      | some (r, d'', w') => some ((ign, c) :: r, d'', w')
      | none => none
    | _ => none

/-- closed form of a direction's state after `n` packets -/
def specDir (P : Prims) (kL kP : List UInt8) (n : Nat) : Dir :=
  ⟨⟨Spec.lenKey P kL (n / 224), n, 3 * (n % 224)⟩, ⟨Spec.aeadKey P kP (n / 224), n⟩⟩

namespace Lemmas

theorem sendAll_eq_encodeAll (P : Prims) : ∀ (pkts : List Pkt) (d : Dir) (w : List UInt8) (d' : Dir),
    sendAll P d pkts = some (w, d') → encodeAll P d (pkts.map Pkt.raw) = (w, d')
  | [], d, w, d', h => by
    simp only [sendAll, Option.some.injEq, Prod.mk.injEq] at h
    simp only [List.map_nil, encodeAll, Prod.mk.injEq]
    exact ⟨h.1, h.2⟩
  | p :: ps, d, w, d', h => by
    unfold sendAll at h
    cases hs : sendPacket P d p.contents p.aad p.ignore with
    | none => rw [hs] at h; exact absurd h (by simp)
    | some r =>
      obtain ⟨b, d1⟩ := r
      rw [hs] at h
      simp only [] at h
      cases hr : sendAll P d1 ps with
      | none => rw [hr] at h; exact absurd h (by simp)
      | some r2 =>
        obtain ⟨bs, d2⟩ := r2
        rw [hr] at h
        simp only [Option.some.injEq, Prod.mk.injEq] at h
        have ih := sendAll_eq_encodeAll P ps d1 bs d2 hr
        unfold sendPacket at hs
        split at hs
        · exact absurd hs (by simp)
        · simp only [Option.some.injEq] at hs
          simp only [List.map_cons, encodeAll, Pkt.raw]
          have e1 : (encodePacket P d (header p.ignore) p.contents p.aad).1 = b := by rw [hs]
          have e2 : (encodePacket P d (header p.ignore) p.contents p.aad).2 = d1 := by rw [hs]
          rw [e1, e2, ih]
          simp only [Prod.mk.injEq]
          exact ⟨h.1, h.2⟩

theorem sendAll_lengths (P : Prims) : ∀ (pkts : List Pkt) (d : Dir) (r : List UInt8 × Dir),
    sendAll P d pkts = some r → ∀ p ∈ pkts, p.contents.length < 2 ^ 24
  | [], _, _, _ => by intro p hp; simp at hp
  | q :: ps, d, r, h => by
    unfold sendAll at h
    cases hs : sendPacket P d q.contents q.aad q.ignore with
    | none => rw [hs] at h; exact absurd h (by simp)
    | some r1 =>
      rw [hs] at h
      simp only [] at h
      cases hr : sendAll P r1.2 ps with
      | none => rw [hr] at h; exact absurd h (by simp)
      | some r2 =>
        intro p hp
        rcases List.mem_cons.mp hp with rfl | hp
        · unfold sendPacket at hs
          split at hs
          · exact absurd hs (by simp)
          · omega
        · exact sendAll_lengths P ps r1.2 r2 hr p hp

/-- stream synchronisation for raw packets: a receiver that starts in the sender's state reads the
sender's stream back packet by packet and ends in the sender's final state. -/
theorem recvSeq_encodeAll (P : Prims) (hmac : ∀ k m, (P.mac k m).length = 16) :
    ∀ (raws : List RawPkt) (d : Dir) (rest : List UInt8),
    (∀ p ∈ raws, p.contents.length < 2 ^ 24) →
    recvSeq P d ((encodeAll P d raws).1 ++ rest) (raws.map (·.aad)) =
      some (raws.map (fun p => (ignoreBit p.hdr, p.contents)), (encodeAll P d raws).2, rest)
  | [], d, rest, _ => by simp [recvSeq, encodeAll]
  | p :: ps, d, rest, hl => by
    simp only [encodeAll, List.map_cons, recvSeq, List.append_assoc]
    rw [recvOne_encode P hmac d p.hdr p.contents p.aad _ (hl p List.mem_cons_self)]
    simp only []
    rw [recvSeq_encodeAll P hmac ps _ rest (fun q hq => hl q (List.mem_cons_of_mem _ hq))]
    simp only [ignoreBit]

/-- accepted ⇒ sealed for sequences -/
theorem recvSeq_sound (P : Prims) (hmac : ∀ k m, (P.mac k m).length = 16) :
    ∀ (aads : List (List UInt8)) (d : Dir) (wire : List UInt8) (rs : List (Bool × List UInt8))
      (d' : Dir) (rest : List UInt8),
    recvSeq P d wire aads = some (rs, d', rest) →
    ∃ raws : List RawPkt, raws.map (·.aad) = aads ∧
      raws.map (fun p => (ignoreBit p.hdr, p.contents)) = rs ∧
      wire = (encodeAll P d raws).1 ++ rest ∧ d' = (encodeAll P d raws).2
  | [], d, wire, rs, d', rest, h => by
    simp only [recvSeq, Option.some.injEq, Prod.mk.injEq] at h
    refine ⟨[], rfl, ?_, ?_, ?_⟩
    · simp [h.1]
    · simp [encodeAll, h.2.2]
    · simp [encodeAll, h.2.1]
  | aad :: aads, d, wire, rs, d', rest, h => by
    unfold recvSeq at h
    cases h1 : recvOne P d wire aad with
    | short => rw [h1] at h; exact absurd h (by simp)
    | authFail => rw [h1] at h; exact absurd h (by simp)
    | packet ign c d1 rest1 =>
      rw [h1] at h
      simp only [] at h
      cases h2 : recvSeq P d1 rest1 aads with
      | none => rw [h2] at h; exact absurd h (by simp)
      | some r =>
        obtain ⟨r, d2, w2⟩ := r
        rw [h2] at h
        simp only [Option.some.injEq, Prod.mk.injEq] at h
        obtain ⟨hdr, hw, hd1, hign, _⟩ := recvOne_sound P hmac d d1 wire aad c rest1 ign h1
        obtain ⟨raws, ha, hr, hw2, hd2⟩ := recvSeq_sound P hmac aads d1 rest1 r d2 w2 h2
        refine ⟨⟨hdr, c, aad⟩ :: raws, ?_, ?_, ?_, ?_⟩
        · simp [ha]
        · simp only [List.map_cons]; rw [hr]; unfold ignoreBit; rw [← hign]; exact h.1
        · simp only [encodeAll, ← hd1, List.append_assoc]
          rw [hw, hw2, h.2.2]
        · simp only [encodeAll, ← hd1]
          rw [← h.2.1, hd2]

/-! ### closed form of the states (rekey schedule) -/

theorem specDir_step (P : Prims) (kL kP : List UInt8) (n : Nat) (hdr : UInt8) (c aad : List UInt8) :
    (encodePacket P (specDir P kL kP n) hdr c aad).2 = specDir P kL kP (n + 1) := by
  unfold encodePacket specDir
  simp only [fscCrypt, fspEncrypt, fspAdvance, natLE_length]
  by_cases h : (n + 1) % 224 = 0
  · have hq : (n + 1) / 224 = n / 224 + 1 := by omega
    have hm : n % 224 = 223 := by omega
    simp only [h, if_true, hq, hm, Nat.mul_zero, Spec.lenKey, Spec.aeadKey, Spec.lenNonce,
      Spec.aeadRekeyNonce, fscNonce, fspRekeyNonce, Spec.REKEY_INTERVAL, Spec.LENGTH_FIELD_LEN]
  · have hq : (n + 1) / 224 = n / 224 := by omega
    have hm : 3 * (n % 224) + 3 = 3 * ((n + 1) % 224) := by omega
    simp only [h, if_false, hq, hm]

theorem encodeAll_specDir (P : Prims) (kL kP : List UInt8) : ∀ (raws : List RawPkt) (n : Nat),
    (encodeAll P (specDir P kL kP n) raws).2 = specDir P kL kP (n + raws.length)
  | [], n => by simp [encodeAll]
  | p :: ps, n => by
    simp only [encodeAll, specDir_step, List.length_cons]
    rw [encodeAll_specDir P kL kP ps (n + 1)]
    congr 1
    omega

theorem stream_sync_pkts (P : Prims) (hmac : ∀ k m, (P.mac k m).length = 16)
    (pkts : List Pkt) (d d' : Dir) (w rest : List UInt8) (h : sendAll P d pkts = some (w, d')) :
    recvSeq P d (w ++ rest) (pkts.map (·.aad)) =
      some (pkts.map (fun p => (p.ignore, p.contents)), d', rest) := by
  have he := sendAll_eq_encodeAll P pkts d w d' h
  have hl := sendAll_lengths P pkts d (w, d') h
  have hr := recvSeq_encodeAll P hmac (pkts.map Pkt.raw) d rest (by
    intro p hp
    obtain ⟨q, hq, rfl⟩ := List.mem_map.mp hp
    exact hl q hq)
  rw [he] at hr
  simp only [List.map_map] at hr
  have e1 : ((fun p : RawPkt => p.aad) ∘ Pkt.raw) = (fun p : Pkt => p.aad) := by funext p; rfl
  have e2 : ((fun p : RawPkt => (ignoreBit p.hdr, p.contents)) ∘ Pkt.raw) = (fun p : Pkt => (p.ignore, p.contents)) := by
    funext p; simp only [Function.comp, Pkt.raw, ignoreBit, header_ignore]
  rw [e1, e2] at hr
  exact hr

/-- V2ReceivePacket (the loop of transport.go): decoys are skipped, the AAD is applied to the first
packet on the wire only, and the first packet without ignore bit is delivered; the receiver ends
in the sender's state. -/
theorem recvPacket_skips (P : Prims) (hmac : ∀ k m, (P.mac k m).length = 16) :
    ∀ (ds : List Pkt) (p : Pkt) (A : List UInt8) (d d' : Dir) (w rest : List UInt8) (fuel : Nat),
    (∀ q ∈ ds, q.ignore = true) → p.ignore = false → ds.length < fuel →
    (ds ++ [p]).map (·.aad) = A :: List.replicate ds.length [] →
    sendAll P d (ds ++ [p]) = some (w, d') →
    recvPacket P fuel d (w ++ rest) A = .ok p.contents d' rest
  | [], p, A, d, d', w, rest, fuel, _, hp, hf, ha, hs => by
    cases fuel with
    | zero => simp at hf
    | succ fuel =>
      simp only [List.nil_append, sendAll] at hs
      cases h1 : sendPacket P d p.contents p.aad p.ignore with
      | none => rw [h1] at hs; exact absurd hs (by simp)
      | some r =>
        rw [h1] at hs
        simp only [Option.some.injEq, Prod.mk.injEq, List.append_nil] at hs
        have hA : p.aad = A := by simpa using ha
        unfold sendPacket at h1
        split at h1
        · exact absurd h1 (by simp)
        · rename_i hlen
          simp only [Option.some.injEq] at h1
          rw [hp] at h1
          unfold recvPacket
          rw [← hs.1, ← h1, ← hA, recvOne_encode P hmac d _ _ _ _ (by omega)]
          simp only [header_ignore]
          rw [h1, hs.2]
          simp
  | q :: ds, p, A, d, d', w, rest, fuel, hq, hp, hf, ha, hs => by
    cases fuel with
    | zero => simp at hf
    | succ fuel =>
      simp only [List.cons_append, sendAll] at hs
      cases h1 : sendPacket P d q.contents q.aad q.ignore with
      | none => rw [h1] at hs; exact absurd hs (by simp)
      | some r =>
        obtain ⟨b, d1⟩ := r
        rw [h1] at hs
        simp only [] at hs
        cases h2 : sendAll P d1 (ds ++ [p]) with
        | none => rw [h2] at hs; exact absurd hs (by simp)
        | some r2 =>
          obtain ⟨bs, d2⟩ := r2
          rw [h2] at hs
          simp only [Option.some.injEq, Prod.mk.injEq] at hs
          simp only [List.cons_append, List.map_cons, List.length_cons, List.replicate_succ,
            List.cons.injEq] at ha
          have hqi : q.ignore = true := hq q List.mem_cons_self
          unfold sendPacket at h1
          split at h1
          · exact absurd h1 (by simp)
          · rename_i hlen
            simp only [Option.some.injEq] at h1
            have e1 : (encodePacket P d (header q.ignore) q.contents q.aad).1 = b := by rw [h1]
            have e2 : (encodePacket P d (header q.ignore) q.contents q.aad).2 = d1 := by rw [h1]
            rw [hqi] at e1 e2
            unfold recvPacket
            rw [← hs.1, List.append_assoc, ← e1, ← ha.1,
              recvOne_encode P hmac d _ _ _ _ (by omega)]
            simp only [header_ignore, if_true, e2]
            have ha2 : (ds ++ [p]).map (·.aad) = [] :: List.replicate ds.length [] := by
              cases ds with
              | nil => simpa using ha.2
              | cons x xs =>
                simp only [List.cons_append, List.map_cons, List.length_cons, List.replicate_succ,
                  List.cons.injEq] at ha ⊢
                exact ⟨ha.2.1, by simpa [List.replicate_succ] using ha.2.2⟩
            have := recvPacket_skips P hmac ds p [] d1 d2 bs rest fuel
              (fun x hx => hq x (List.mem_cons_of_mem _ hx)) hp (by simp at hf; omega) ha2 h2
            rw [this, hs.2]

/-! ### garbage scan -/

/-- the scan finds a terminator that follows `g ≤ 4095` bytes of garbage, provided the terminator
does not occur earlier in the stream -/
theorem scanGarbage_finds (term inp : List UInt8) (g : Nat)
    (hat : (inp.drop g).take 16 = term)
    (hno : ∀ i, i < g → (inp.drop i).take 16 ≠ term) (hlen : g + 16 ≤ inp.length) :
    ∀ (fuel i : Nat), i ≤ g → g < i + fuel → scanGarbage term inp fuel i = .ok g
  | 0, i, h1, h2 => by omega
  | fuel + 1, i, h1, h2 => by
    unfold scanGarbage
    by_cases hi : i = g
    · subst hi; rw [if_pos hat]
    · have hlt : i < g := by omega
      rw [if_neg (hno i hlt)]
      have hf : ¬ fuel = 0 := by omega
      rw [if_neg hf, if_neg (by omega)]
      exact scanGarbage_finds term inp g hat hno hlen fuel (i + 1) (by omega) (by omega)

/-! ### the length cipher on chunks of any size -/

/-- FSChaCha20.Crypt over a list of chunks: outputs and final state -/
def fscAll (P : Prims) : FSC → List (List UInt8) → List (List UInt8) × FSC
  | s, [] => ([], s)
  | s, c :: cs =>
    let r := fscCrypt P s c
    let rs := fscAll P r.2 cs
    (r.1 :: rs.1, rs.2)

theorem fscAll_invol (P : Prims) : ∀ (cs : List (List UInt8)) (s : FSC),
    fscAll P s (fscAll P s cs).1 = (cs, (fscAll P s cs).2)
  | [], s => rfl
  | c :: cs, s => by
    simp only [fscAll]
    rw [fscCrypt_invol]
    simp only []
    rw [fscAll_invol P cs (fscCrypt P s c).2]

/-! ### the handshake after key agreement -/

/-- the packets CompleteHandshake sends after the terminator: decoys (zero contents, ignore bit),
then the empty version packet; the garbage is the AAD of the first of them -/
def hsPkts : List UInt8 → List (List UInt8) → List Pkt
  | aad, [] => [⟨[], aad, false⟩]
  | aad, n :: ns => ⟨n, aad, true⟩ :: hsPkts [] ns

theorem hsPkts_shape : ∀ (aad : List UInt8) (ns : List (List UInt8)),
    ∃ ds p, hsPkts aad ns = ds ++ [p] ∧ (∀ q ∈ ds, q.ignore = true) ∧ p.ignore = false ∧
      ds.length = ns.length ∧ (ds ++ [p]).map (·.aad) = aad :: List.replicate ds.length []
  | aad, [] => ⟨[], ⟨[], aad, false⟩, rfl, by simp, rfl, rfl, rfl⟩
  | aad, n :: ns => by
    obtain ⟨ds, p, he, hi, hp, hl, ha⟩ := hsPkts_shape [] ns
    refine ⟨⟨n, aad, true⟩ :: ds, p, ?_, ?_, hp, ?_, ?_⟩
    · simp only [hsPkts, he, List.cons_append]
    · intro q hq
      rcases List.mem_cons.mp hq with rfl | hq
      · rfl
      · exact hi q hq
    · simp [hl]
    · simp only [List.cons_append, List.map_cons, List.length_cons, List.replicate_succ, ha]

theorem sendDecoys_eq (P : Prims) : ∀ (ns : List (List UInt8)) (d : Dir) (aad acc bytes : List UInt8) (d' : Dir),
    sendDecoys P d aad ns acc = .ok (bytes, d') →
    ∃ w, sendAll P d (hsPkts aad ns) = some (w, d') ∧ bytes = acc ++ w
  | [], d, aad, acc, bytes, d', h => by
    unfold sendDecoys at h
    cases h1 : sendPacket P d [] aad false with
    | none => rw [h1] at h; exact absurd h (by simp)
    | some r =>
      rw [h1] at h
      simp only [Except.ok.injEq, Prod.mk.injEq] at h
      refine ⟨r.1, ?_, h.1.symm⟩
      simp only [hsPkts, sendAll, h1, List.append_nil, h.2]
  | n :: ns, d, aad, acc, bytes, d', h => by
    unfold sendDecoys at h
    cases h1 : sendPacket P d n aad true with
    | none => rw [h1] at h; exact absurd h (by simp)
    | some r =>
      obtain ⟨b, d1⟩ := r
      rw [h1] at h
      simp only [] at h
      obtain ⟨w, hw, hb⟩ := sendDecoys_eq P ns d1 [] (acc ++ b) bytes d' h
      refine ⟨b ++ w, ?_, by rw [hb, List.append_assoc]⟩
      simp only [hsPkts, sendAll, h1, hw]

theorem sendAll_length_ge (P : Prims) : ∀ (pkts : List Pkt) (d : Dir) (w : List UInt8) (d' : Dir),
    sendAll P d pkts = some (w, d') → pkts.length ≤ w.length
  | [], _, _, _, _ => by simp
  | p :: ps, d, w, d', h => by
    unfold sendAll at h
    cases h1 : sendPacket P d p.contents p.aad p.ignore with
    | none => rw [h1] at h; exact absurd h (by simp)
    | some r =>
      obtain ⟨b, d1⟩ := r
      rw [h1] at h
      simp only [] at h
      cases h2 : sendAll P d1 ps with
      | none => rw [h2] at h; exact absurd h (by simp)
      | some r2 =>
        obtain ⟨bs, d2⟩ := r2
        rw [h2] at h
        simp only [Option.some.injEq, Prod.mk.injEq] at h
        have ih := sendAll_length_ge P ps d1 bs d2 h2
        unfold sendPacket at h1
        split at h1
        · exact absurd h1 (by simp)
        · simp only [Option.some.injEq] at h1
          have hb : 3 ≤ b.length := by
            have : b = (encodePacket P d (header p.ignore) p.contents p.aad).1 := by rw [h1]
            rw [this]
            simp only [encodePacket, List.length_append, fscCrypt_length, natLE_length]
            omega
          rw [← h.1]
          simp only [List.length_cons, List.length_append]
          omega

/-- CompleteHandshake (after key agreement) succeeds against a peer that sent `G` (≤ 4095 bytes of
garbage), its terminator, any number of decoys and its version packet — and leaves the receive
ciphers in the peer's send state. -/
theorem complete_ok (P : Prims) (hmac : ∀ k m, (P.mac k m).length = 16) (s : Session)
    (myGarbage : List UInt8) (myDecoys : List (List UInt8)) (written : List UInt8)
    (mb : List UInt8) (send' : Dir) (hmine : sendDecoys P s.send myGarbage myDecoys [] = .ok (mb, send'))
    (G : List UInt8) (hG : G.length ≤ 4095) (hT : s.recvTerm.length = 16)
    (peerDecoys : List (List UInt8)) (pb : List UInt8) (d' : Dir)
    (hpeer : sendDecoys P s.recv G peerDecoys [] = .ok (pb, d')) (rest : List UInt8)
    (hno : ∀ i, i < G.length → ((G ++ (s.recvTerm ++ (pb ++ rest))).drop i).take 16 ≠ s.recvTerm) :
    let out := completeAfterKeys P s myGarbage myDecoys written (G ++ (s.recvTerm ++ (pb ++ rest)))
    out.status = .ok ∧ out.sess = some { s with send := send', recv := d' } ∧ out.rest = rest ∧
      out.written = written ++ s.sendTerm ++ mb := by
  obtain ⟨w, hw, hpb⟩ := sendDecoys_eq P peerDecoys s.recv G [] pb d' hpeer
  simp only [List.nil_append] at hpb
  subst hpb
  obtain ⟨ds, p, he, hi, hp, _, ha⟩ := hsPkts_shape G peerDecoys
  rw [he] at hw
  have hlen := sendAll_length_ge P _ _ _ _ hw
  have hscan : scanGarbage s.recvTerm (G ++ (s.recvTerm ++ (pb ++ rest))) scanIterations 0 = .ok G.length := by
    apply scanGarbage_finds _ _ G.length _ hno _ scanIterations 0 (Nat.zero_le _)
    · simp only [scanIterations, Spec.MAX_GARBAGE_LEN]; omega
    · rw [List.drop_left, ← hT, List.take_left]
    · simp only [List.length_append, hT]; omega
  have hrecv := recvPacket_skips P hmac ds p G s.recv d' pb rest (pb ++ rest).length hi hp
    (by simp only [List.length_append, List.length_singleton] at hlen ⊢; omega) ha hw
  have hlen16 : ¬ (G ++ (s.recvTerm ++ (pb ++ rest))).length < 16 := by
    simp only [List.length_append, hT]; omega
  have hdrop : (G ++ (s.recvTerm ++ (pb ++ rest))).drop (G.length + 16) = pb ++ rest := by
    rw [← List.drop_drop, List.drop_left, ← hT, List.drop_left]
  have htake : (G ++ (s.recvTerm ++ (pb ++ rest))).take G.length = G := List.take_left
  refine ⟨?_, ?_, ?_, ?_⟩ <;>
    simp only [completeAfterKeys, hmine, hlen16, if_false, hscan, hdrop, htake, hrecv]

end Lemmas
end BV.C19
