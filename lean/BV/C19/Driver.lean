/- C19 line-protocol driver (core-only). Stub until the property's model lands. -/
namespace BV.C19.Driver

def handle : List String → String
  | _ => "unimplemented"

end BV.C19.Driver
