/- C19 line-protocol driver (core-only). -/
import BV.Common.Hex
import BV.Common.Sha256
import BV.Common.Aead
import BV.C19.Model
namespace BV.C19.Driver
open BV.Hex BV.Aead BV.C19

def CP : Prims := chachaPoly

/-- deterministic filler shared with the Go harness: byte i = (seed + 131·i + 7·(i div 256)) mod 256 -/
def fill (seed len : Nat) : List UInt8 :=
  (List.range len).map (fun i => UInt8.ofNat ((seed + 131 * i + 7 * (i / 256)) % 256))

def digest (bs : List UInt8) : String :=
  toString bs.length ++ ":" ++ listToHex (BV.Sha256.hashList bs)

def parseNats? (s : String) (sep : String) : Option (List Nat) :=
  if s == "-" then some [] else (s.splitOn sep).mapM (fun (t : String) => t.toNat?)

/-- FSChaCha20.Crypt over chunks `len:seed` -/
def runFsc (key : List UInt8) (chunks : List (List Nat)) : Option String := do
  let mut s : FSC := ⟨key, 0, 0⟩
  let mut out : List (List UInt8) := []
  for c in chunks do
    match c with
    | [len, seed] =>
      let (o, s') := fscCrypt CP s (fill seed len)
      s := s'
      out := o :: out
    | _ => none
  pure (digest out.reverse.flatten ++ " " ++ listToHex s.key)

/-- FSChaCha20Poly1305.Encrypt over messages `len:seed:aadlen`, then Decrypt of each -/
def runFsp (key : List UInt8) (msgs : List (List Nat)) : Option String := do
  let mut s : FSP := ⟨key, 0⟩
  let mut r : FSP := ⟨key, 0⟩
  let mut out : List (List UInt8) := []
  for c in msgs do
    match c with
    | [len, seed, aadlen] =>
      let aad := fill (seed + 1) aadlen
      let (o, s') := fspEncrypt CP s aad (fill seed len)
      s := s'
      match fspDecrypt CP r aad o with
      | some (pt, r') => if pt == fill seed len then r := r' else none
      | none => none
      out := o :: out
    | _ => none
  pure (digest out.reverse.flatten ++ " " ++ listToHex s.key)

def handle : List String → String
  | ["fsc", key, chunks] =>
    match hexToList? key, (if chunks == "-" then some [] else (chunks.splitOn ",").mapM (parseNats? · ":")) with
    | some k, some cs => if k.length ≠ 32 then "bad-op" else (runFsc k cs).getD "bad-op"
    | _, _ => "bad-op"
  | ["fsp", key, msgs] =>
    match hexToList? key, (if msgs == "-" then some [] else (msgs.splitOn ",").mapM (parseNats? · ":")) with
    | some k, some cs => if k.length ≠ 32 then "bad-op" else (runFsp k cs).getD "bad-op"
    | _, _ => "bad-op"
  | _ => "bad-op"

end BV.C19.Driver
