/- C19 line-protocol driver (core-only). -/
import BV.Common.Hex
import BV.Common.Sha256
import BV.Common.Aead
import BV.C19.Model
import BV.C19.Ellswift
import BV.C19.Session
import BV.C19.Stream
namespace BV.C19.Driver
open BV.Hex BV.Aead BV.C19

def CP : Prims := chachaPoly

/-- deterministic filler shared with the Go harness: byte i = (seed + 131·i + 7·(i div 256)) mod 256 -/
def fill (seed len : Nat) : List UInt8 :=
  (List.range len).map (fun i => UInt8.ofNat ((seed + 131 * i + 7 * (i / 256)) % 256))

def digest (bs : List UInt8) : String :=
  toString bs.length ++ ":" ++ listToHex (BV.Sha256.hashList bs)

def parseNats? (s : String) (sep : String) : Option (List Nat) :=
  if s == "-" then some [] else (s.splitOn sep).mapM (fun (t : String) => t.toNat?)

/-- FSChaCha20.Crypt over chunks `len:seed` -/
def runFsc (key : List UInt8) (chunks : List (List Nat)) : Option String := do
  let mut s : FSC := ⟨key, 0, 0⟩
  let mut out : List (List UInt8) := []
  for c in chunks do
    match c with
    | [len, seed] =>
      let (o, s') := fscCrypt CP s (fill seed len)
      s := s'
      out := o :: out
    | _ => none
  pure (digest out.reverse.flatten ++ " " ++ listToHex s.key)

/-- FSChaCha20Poly1305.Encrypt over messages `len:seed:aadlen`, then Decrypt of each -/
def runFsp (key : List UInt8) (msgs : List (List Nat)) : Option String := do
  let mut s : FSP := ⟨key, 0⟩
  let mut r : FSP := ⟨key, 0⟩
  let mut out : List (List UInt8) := []
  for c in msgs do
    match c with
    | [len, seed, aadlen] =>
      let aad := fill (seed + 1) aadlen
      let (o, s') := fspEncrypt CP s aad (fill seed len)
      s := s'
      match fspDecrypt CP r aad o with
      | some (pt, r') => if pt == fill seed len then r := r' else none
      | none => none
      out := o :: out
    | _ => none
  pure (digest out.reverse.flatten ++ " " ++ listToHex s.key)

/-- the harness's deterministic replacement of crypto/rand: `prefix` then SHA-256(seed ‖ LE32 i), i = 0,1,… -/
def rndStream (pre seed : List UInt8) (n : Nat) : List UInt8 :=
  pre ++ ((List.range ((n + 31) / 32)).map (fun i => BV.Sha256.hashList (seed ++ natLE i 4))).flatten

def hex32 (n : Nat) : String := listToHex (natBE n 32)

def optHex : Option (List UInt8) → String
  | some b => listToHexTok b
  | none => "none"

def keysDigest (s : Session) : String :=
  listToHex ((BV.Sha256.hashList (s.send.l.key ++ s.send.p.key ++ s.recv.l.key ++ s.recv.p.key ++
    s.sendTerm ++ s.recvTerm)).take 8) ++ "," ++ toString s.send.l.ctr ++ "," ++ toString s.send.p.ctr ++
    "," ++ toString s.recv.l.ctr ++ "," ++ toString s.recv.p.ctr

/-- post-handshake actions: `s:len:seed:ign:aadlen` = V2EncPacket, `r:aadlen:aadseed` = V2ReceivePacket -/
def runActions : List (List String) → Session → List UInt8 → List UInt8 → List String → Option (List String × Option Session × List UInt8)
  | [], s, _, w, out => some (out.reverse, some s, w)
  | a :: as, s, inp, w, out =>
    match a with
    | ["s", len, seed, ign, aadlen] => do
      let len ← len.toNat?; let seed ← seed.toNat?; let aadlen ← aadlen.toNat?
      -- `sendPacket` answers `none` exactly when the contents are longer than 2^24-1 bytes; for such a
      -- request the 16 MiB list is not materialised
      if len > 2 ^ 24 - 1 then runActions as s inp w ("tx=err:content-too-long" :: out) else
      match sendPacket CP s.send (fill seed len) (fill (seed + 1) aadlen) (ign == "1") with
      | some (b, d') => runActions as { s with send := d' } inp (w ++ b) out
      | none => runActions as s inp w ("tx=err:content-too-long" :: out)
    | ["r", aadlen, aadseed] => do
      let aadlen ← aadlen.toNat?; let aadseed ← aadseed.toNat?
      match recvPacket CP inp.length s.recv inp (fill aadseed aadlen) with
      | .ok c d' rest => runActions as { s with recv := d' } rest w (("rx=" ++ digest c) :: out)
      | .short => some (("rx=err:io" :: out).reverse, none, w)
      | .authFail => some (("rx=err:auth" :: out).reverse, none, w)
    | _ => none

/-- flags after `+` in the role token of an `ep` line: `A<n>` admission mode, `L` logger on (no
effect on the observation), `N<hex>` the network passed to CompleteHandshake (the responder derives
its keys in RespondV2Handshake, so only the initiator uses it) -/
structure EpFlags where
  adm : Nat := 0
  magic2 : Option Nat := none

def parseFlags (toks : List String) : Option EpFlags :=
  toks.foldlM (fun (f : EpFlags) (t : String) =>
    if t == "L" || t.startsWith "R" || t.startsWith "G" then some f  -- logger, read chunking, garbage override: no effect on the answer
    else if t.startsWith "A" then (t.drop 1).toString.toNat?.map (fun n => { f with adm := n })
    else if t.startsWith "N" then (hexToNat? (t.drop 1).toString).map (fun n => { f with magic2 := some n })
    else none) {}

/-- BIP324 leaves three things to the sender: WHICH ElligatorSwift encoding of its public key it
sends, the garbage BYTES, and the decoy CONTENTS. They are not predicted: the harness records what
the real endpoint wrote during the handshake (`hs`) and its private key, and the reference
(1) checks that the first 64 bytes are an encoding of x(priv·G) obtainable from `xswiftec_inv`
(so it decodes to the right x), (2) takes the next `gLen` bytes as the garbage, (3) opens the decoys
with the session's own send keys, checks ignore bits and requested lengths and takes their contents —
then runs the model on exactly these choices and finally requires the model's handshake bytes to be
`hs` (anything else — wrong terminator, wrong AAD, missing ignore bit, extra bytes — is answered
`invalid-handshake-bytes`). The random stream handed to the model is synthesised from the choices. -/
def synthRnd (priv : Nat) (hs : List UInt8) (gLen : Nat) : Option (List UInt8) :=
  match BV.Secp256k1.mulG (priv % BV.Secp256k1.n) with
  | .inf => none
  | .aff x _ =>
    if hs.length < 64 then
      -- nothing recorded (the endpoint wrote nothing): any valid draw will do
      ((List.range 64).flatMap (fun u => (List.range 8).map (fun c => (u + 1, c)))).findSome? (fun uc =>
        match Ellswift.xswiftecInv Ellswift.natOps uc.1 x uc.2 with
        | some _ => some (natBE priv 32 ++ natBE uc.1 32 ++ [UInt8.ofNat uc.2] ++ List.replicate gLen 0)
        | none => none)
    else
    let u := beToNat (hs.take 32)
    let t := beToNat ((hs.drop 32).take 32)
    match (List.range 8).find? (fun c => Ellswift.xswiftecInv Ellswift.natOps (u % BV.Secp256k1.p) x c == some t) with
    | none => none
    | some c => some (natBE priv 32 ++ natBE u 32 ++ [UInt8.ofNat c] ++ (hs.drop 64).take gLen)

/-- the decoy contents the endpoint really sent (requested lengths `lens`); zeros if the handshake
bytes do not get that far -/
def decoyContents (s0 : Session) (garbage : List UInt8) (lens : List Nat) (body : List UInt8) :
    Option (List (List UInt8)) :=
  match recvSeq CP s0.send body (garbage :: List.replicate lens.length []) with
  | some (rs, _, _) =>
    let ds := rs.take lens.length
    if ds.all (·.1) && ds.map (·.2.length) == lens && (rs.drop lens.length).all (fun r => !r.1 && r.2.isEmpty)
    then some (ds.map (·.2)) else none
  | none => none

def runEp (roleTok : String) (magic : Nat) (pre seed : List UInt8) (gLen : Nat) (decoyLens : List Nat)
    (inp : List UInt8) (acts : List (List String)) (rec : Option (Nat × List UInt8)) : Option String := do
  let parts := roleTok.splitOn "+"
  let role := parts.headD ""
  let fl ← parseFlags (match parts with | [_, fs] => fs.splitOn "," | _ => [])
  let magicI := fl.magic2.getD magic
  let zeros := decoyLens.map (List.replicate · 0)
  -- the sender's free choices: recorded (validated) or, for old corpus lines, the seeded stream
  let (rnd, decoys) ← match rec with
    | none => some (rndStream pre seed (32 + 33 * 256 + (min gLen 4096)), zeros)
    | some (priv, hs) =>
      match synthRnd priv hs gLen with
      | none => none
      | some rnd =>
        let ell := hs.take 64
        let garbage := (hs.drop 64).take gLen
        let body := hs.drop (64 + gLen + 16)
        if hs.length ≤ 64 + gLen + 16 ∨ inp.length < 64 then some (rnd, zeros) else
        match Ellswift.v2Ecdh priv (inp.take 64) ell (role == "i") with
        | none => some (rnd, zeros)
        | some secret =>
          let s0 := mkSession (schedule hkdfSha256 secret (if role == "i" then magicI else magic)) (role == "i")
          some (rnd, (decoyContents s0 garbage decoyLens body).getD zeros)
  let (h, acq, rel) ←
    if role == "i" then some (initiator CP hkdfSha256 magicI rnd gLen decoys inp, 0, 0)
    else if role == "r" then some (responderAdm CP hkdfSha256 magic rnd gLen decoys inp fl.adm) else none
  -- the model, run on the sender's own choices, must reproduce the recorded handshake bytes
  if (match rec with | some (_, hs) => h.written != hs | none => false) then
    pure "invalid-handshake-bytes"
  else
  -- `ReceivedPrefix` is observed only where peer.go uses it: after ErrUseV1Protocol
  let pfx := if h.status == .useV1 then responderPrefix magic inp false else []
  -- without an installed admission nothing is counted
  let (acq, rel) := if fl.adm == 0 then (0, 0) else (acq, rel)
  let common := ["pfx=" ++ listToHexTok pfx, "dg=" ++ (if h.status == .downgradeV1 then "1" else "0"),
    -- third number: 1 iff the connection was used while an admission lease was outstanding (never)
    "adm=" ++ toString acq ++ "," ++ toString rel ++ ",0"]
  match h.status, h.sess with
  | .ok, some s =>
    let (outs, s', w) ← runActions acts s h.rest h.written []
    pure (String.intercalate " " (["hs=ok"] ++ common ++ ["sid=" ++ listToHex s.sessionId] ++ outs ++
      (match s' with | some s' => ["k=" ++ keysDigest s'] | none => []) ++ ["w=" ++ digest w]))
  | st, _ => pure (String.intercalate " " (["hs=err:" ++ st.toString] ++ common ++ ["w=" ++ digest h.written]))

/-- stream tampering shared with the Go harness (all offsets clamp like `List.take`/`List.drop`) -/
def tamper1 (w : List UInt8) (op : String) : Option (List UInt8) :=
  let kind := op.take 1 |>.toString
  let args := (op.drop 1).toString.splitOn ":"
  match kind, args with
  | "f", [off, mask] => do
    let off ← off.toNat?; let mask ← mask.toNat?
    pure (if off < w.length then w.take off ++ [(w.getD off 0) ^^^ UInt8.ofNat mask] ++ w.drop (off + 1) else w)
  | "t", [off] => do
    let off ← off.toNat?
    pure (w.take off)
  | "d", [off, len] => do
    let off ← off.toNat?; let len ← len.toNat?
    pure (w.take off ++ w.drop (off + len))
  | "u", [off, len] => do
    let off ← off.toNat?; let len ← len.toNat?
    pure (w.take (off + len) ++ (w.drop off).take len ++ w.drop (off + len))
  | "x", [off, l1, l2] => do
    let off ← off.toNat?; let l1 ← l1.toNat?; let l2 ← l2.toNat?
    pure (w.take off ++ (w.drop (off + l1)).take l2 ++ (w.drop off).take l1 ++ w.drop (off + l1 + l2))
  | "i", [off, hex] => do
    let off ← off.toNat?; let b ← hexToList? hex
    pure (w.take off ++ b ++ w.drop off)
  | _, _ => none

def tamper (w : List UInt8) (ops : String) : Option (List UInt8) :=
  if ops == "-" then some w else (ops.splitOn ",").foldlM tamper1 w

/-- packet-layer op: sender and receiver sessions from a given ECDH secret; the sender's packets
`len:seed:ign:aadlen` go onto a wire, the wire is tampered with, the receiver makes one
V2ReceivePacket call per entry `aadlen:aadseed` of `recvs`. -/
def runPk (secret : List UInt8) (magic : Nat) (ini : Bool) (pkts : List (List Nat)) (tam : String)
    (recvs : List (List Nat)) : Option String := do
  let k := schedule hkdfSha256 secret magic
  let mut sd := (mkSession k ini).send
  let mut wire : List (List UInt8) := []
  for pk in pkts do
    match pk with
    | [len, seed, ign, aadlen] =>
      if ign ≥ 256 then
        let e := encodePacket CP sd (UInt8.ofNat (ign - 256)) (fill seed len) (fill (seed + 1) aadlen)
        sd := e.2; wire := e.1 :: wire
      else
      match sendPacket CP sd (fill seed len) (fill (seed + 1) aadlen) (ign == 1) with
      | some (b, d') => sd := d'; wire := b :: wire
      | none => none
    | _ => none
  let w := wire.reverse.flatten
  let mut inp ← tamper w tam
  let mut rd := (mkSession k (!ini)).recv
  let mut out : List String := ["w=" ++ digest w]
  for r in recvs do
    match r with
    | [aadlen, aadseed] =>
      match recvPacket CP inp.length rd inp (fill aadseed aadlen) with
      | .ok c d' rest => rd := d'; inp := rest; out := ("rx=" ++ digest c) :: out
      | .short => return String.intercalate " " (("rx=err:io" :: out).reverse)
      | .authFail => return String.intercalate " " (("rx=err:auth" :: out).reverse)
    | _ => none
  pure (String.intercalate " " (("st=" ++ toString rd.l.ctr ++ "," ++ toString rd.p.ctr ++ "," ++
    toString sd.p.ctr ++ "," ++ toString (decide (rd = sd))) :: out).reverse)

/-- one cipher pair of the concurrent-schedule op, mode `skip`: start in epoch `epoch`; each round
fast-forwards to the last two packets of the current epoch and encrypts two packets (the second one
crosses the rekey boundary). Answer: digest of all ciphertexts, final key, final counter. -/
def concSkip (key : List UInt8) (epoch rounds seed : Nat) : String :=
  let step := fun (acc : FSP × List (List UInt8)) (i : Nat) =>
    let s : FSP := ⟨acc.1.key, acc.1.ctr + 222⟩
    let (c1, s1) := fspEncrypt CP s [] (fill (seed + 2 * i) (1 + (seed + i) % 40))
    let (c2, s2) := fspEncrypt CP s1 [] (fill (seed + 2 * i + 1) (1 + (seed + 3 * i) % 40))
    (s2, c2 :: c1 :: acc.2)
  let r := (List.range rounds).foldl step ((⟨key, epoch * 224⟩ : FSP), [])
  digest r.2.reverse.flatten ++ "," ++ listToHex r.1.key ++ "," ++ toString r.1.ctr

/-- mode `peer`: one direction of a session keyed from `secret`: `warm` + `n` packets through
V2EncPacket / V2ReceivePacket; answer: digest of the wire, receiver = sender state flag, counter -/
def concPeer (secret : List UInt8) (ini : Bool) (warm n seed : Nat) : String :=
  let k := schedule hkdfSha256 secret 0xd9b4bef9
  let step := fun (acc : Dir × List (List UInt8)) (i : Nat) =>
    match sendPacket CP acc.1 (fill (seed + i) (1 + (seed + 7 * i) % 40)) [] (i % 5 == 4 && i + 1 < warm + n) with
    | some (b, d') => (d', b :: acc.2)
    | none => acc
  let r := (List.range (warm + n)).foldl step ((mkSession k ini).send, [])
  digest r.2.reverse.flatten ++ "," ++ listToHex r.1.p.key ++ "," ++ toString r.1.p.ctr

def runRwio (inp : List UInt8) (ns : List Nat) (sends : List (List Nat)) : String :=
  let rec go : List Nat → List UInt8 → List String → List String
    | [], _, acc => acc.reverse
    | n :: ns, inp, acc =>
      match recvN inp n with
      | .ok (b, rest) => go ns rest (("rx=" ++ listToHexTok b) :: acc)
      | .error k => go ns [] (("rx=err:io:" ++ toString k) :: acc)
  let tx := sends.map (fun s => match s with
    | [len, cap] => let r := sendN len cap; "tx=" ++ toString r.1 ++ ":" ++ (if r.2 then "ok" else "io")
    | _ => "bad")
  String.intercalate " " (go ns inp [] ++ tx)

def b01 (b : Bool) : String := if b then "1" else "0"

/-- `loop`: what the property demands of a whole session between an initiator and a responder
(theorems `session_established`, `stream_sync`): for garbage lengths ≤ 4095 and decoys / packets
within the size limit both handshakes complete, the session ids agree, and each side receives the
other's non-ignored packets, contents identical, in order. -/
def loopAnswer (gA gB : Nat) (dA dB : List Nat) (pktsA pktsB : List (List Nat)) : Option String :=
  if gA > Spec.MAX_GARBAGE_LEN ∨ gB > Spec.MAX_GARBAGE_LEN ∨ (dA ++ dB).any (· > Spec.MAX_CONTENT_LEN) then none else do
  let rx := fun (ps : List (List Nat)) => ps.filterMapM (fun p => match p with
    -- a packet above the content limit is refused by the sender (nothing is sent, nothing changes)
    | [len, seed, ign] => some (if ign == 1 || len > Spec.MAX_CONTENT_LEN then none else some (digest (fill seed len)))
    | _ => none)
  let fromB ← rx pktsB
  let fromA ← rx pktsA
  let tok := fun (l : List String) => if l.isEmpty then "-" else String.intercalate "," l
  pure ("A:hs=ok B:hs=ok sid-eq=1 A-rx=" ++ tok fromB ++ " B-rx=" ++ tok fromA)

def handle : List String → String
  | ["loop", _magic, _sa, _sb, gA, gB, dA, dB, pa, pb] =>
    match gA.toNat?, gB.toNat?, parseNats? dA ",", parseNats? dB ",",
      (if pa == "-" then some [] else (pa.splitOn ";").mapM (parseNats? · ":")),
      (if pb == "-" then some [] else (pb.splitOn ";").mapM (parseNats? · ":")) with
    | some gA, some gB, some dA, some dB, some pa, some pb => (loopAnswer gA gB dA dB pa pb).getD "bad-op"
    | _, _, _, _, _, _ => "bad-op"
  | ["peerhs", o, i, onet, inet, pings] =>
    match pings.toNat? with
    | some pings =>
      let r := Spec.peerNegotiation (o == "1") (i == "1") (onet == inet) pings
      "in=" ++ b01 r.inVerack ++ ",v2:" ++ b01 r.inV2 ++ " out=" ++ b01 r.outVerack ++ ",v2:" ++ b01 r.outV2 ++
        " pongs=" ++ toString r.pongs ++ " downgrade=" ++ b01 r.downgrade
    | none => "bad-op"
  | ["rwio", _chunk, inp, ns, sends] =>
    match hexToList? inp, parseNats? ns ",", (if sends == "-" then some [] else (sends.splitOn ",").mapM (parseNats? · ":")) with
    | some inp, some ns, some sends => runRwio inp ns sends
    | _, _, _ => "bad-op"
  | ["xell", x, _pre, _seed, ell] =>
    -- the encoding is the sender's choice (read back from the real code): it must decode to x
    match hexToNat? x, hexToList? ell with
    | some x, some ell =>
      let d := Ellswift.decode ell
      listToHexTok ell ++ " " ++ optHex (d.map (natBE · 32)) ++ " " ++
        (if ell.length == 64 && d == some (x % BV.Secp256k1.p) then "ok" else "bad")
    | _, _ => "bad-op"
  | ["create", _pre, _seed, priv, ell] =>
    match hexToNat? priv, hexToList? ell with
    | some priv, some ell =>
      hex32 priv ++ " " ++ listToHexTok ell ++ " " ++ optHex ((Ellswift.decode ell).map (natBE · 32)) ++
        " " ++ optHex ((BV.Secp256k1.mulG (priv % BV.Secp256k1.n)).x?.map (natBE · 32))
    | _, _ => "bad-op"
  | ["xell", x, pre, seed] =>
    match hexToNat? x, hexToList? pre, hexToList? seed with
    | some x, some pre, some seed =>
      match Ellswift.createLoop (x % BV.Secp256k1.p) 4096 (rndStream pre seed (33 * 256)) with
      | some (ell, _) => listToHex ell ++ " " ++ optHex ((Ellswift.decode ell).map (natBE · 32)) ++ " ok"
      | none => "err"
    | _, _, _ => "bad-op"
  | ["conc", mode, sessions] =>
    let one := fun (t : String) =>
      match mode, t.splitOn ":" with
      | "skip", [key, epoch, rounds, seed] => do
        let key ← hexToList? key; let epoch ← epoch.toNat?; let rounds ← rounds.toNat?; let seed ← seed.toNat?
        pure (concSkip key epoch rounds seed)
      | "peer", [secret, ini, warm, n, seed] => do
        let secret ← hexToList? secret; let warm ← warm.toNat?; let n ← n.toNat?; let seed ← seed.toNat?
        pure (concPeer secret (ini == "1") warm n seed)
      | _, _ => none
    match (sessions.splitOn ";").mapM one with
    | some rs => String.intercalate "|" rs
    | none => "bad-op"
  | ["pk", secret, magic, ini, pkts, tam, recvs] =>
    match hexToList? secret, hexToNat? magic,
      (if pkts == "-" then some [] else (pkts.splitOn ";").mapM (parseNats? · ":")),
      (if recvs == "-" then some [] else (recvs.splitOn ";").mapM (parseNats? · ":")) with
    | some secret, some magic, some pkts, some recvs => (runPk secret magic (ini == "1") pkts tam recvs).getD "bad-op"
    | _, _, _, _ => "bad-op"
  | ["xswift", u, t] =>
    match hexToNat? u, hexToNat? t with
    | some u, some t =>
      match Ellswift.xswiftec Ellswift.natOps (u % BV.Secp256k1.p) (t % BV.Secp256k1.p) with
      | some x => hex32 x
      | none => "err"
    | _, _ => "bad-op"
  | ["xswiftinv", u, x, c] =>
    match hexToNat? u, hexToNat? x, c.toNat? with
    | some u, some x, some c =>
      match Ellswift.xswiftecInv Ellswift.natOps (u % BV.Secp256k1.p) (x % BV.Secp256k1.p) c with
      | some t => hex32 t
      | none => "none"
    | _, _, _ => "bad-op"
  | ["ecdh", priv, ellT, ellO, ini] =>
    match hexToNat? priv, hexToList? ellT, hexToList? ellO with
    | some priv, some ellT, some ellO =>
      if ellT.length ≠ 64 ∨ ellO.length ≠ 64 then "bad-op" else
      optHex (Ellswift.ecdhXOnly ellT priv) ++ " " ++ optHex (Ellswift.v2Ecdh priv ellT ellO (ini == "1"))
    | _, _, _ => "bad-op"
  | ["create", pre, seed] =>
    match hexToList? pre, hexToList? seed with
    | some pre, some seed =>
      match Ellswift.create (rndStream pre seed (32 + 33 * 256)) with
      | some (priv, ell, _) => hex32 priv ++ " " ++ listToHex ell ++ " " ++ optHex ((Ellswift.decode ell).map (natBE · 32)) ++
          " " ++ optHex ((BV.Secp256k1.mulG priv).x?.map (natBE · 32))
      | none => "err"
    | _, _ => "bad-op"
  | ["sched", secret, magic, ini] =>
    match hexToList? secret, hexToNat? magic with
    | some secret, some magic =>
      let k := schedule hkdfSha256 secret magic
      let s := mkSession k (ini == "1")
      String.intercalate " " [listToHex k.sessionId, listToHex k.initiatorL, listToHex k.initiatorP,
        listToHex k.responderL, listToHex k.responderP, listToHex s.sendTerm, listToHex s.recvTerm]
    | _, _ => "bad-op"
  | ["vec", secret, magic, ini, idx, contents, mult, aad, ign] =>
    match hexToList? secret, hexToNat? magic, idx.toNat?, hexToList? contents, mult.toNat?, hexToList? aad with
    | some secret, some magic, some idx, some contents, some mult, some aad =>
      let s := mkSession (schedule hkdfSha256 secret magic) (ini == "1")
      let d := (List.range idx).foldl (fun d _ => match sendPacket CP d [] [] false with
        | some (_, d') => d' | none => d) s.send
      match sendPacket CP d (List.replicate mult contents).flatten aad (ign == "1") with
      | some (b, _) => if b.length ≤ 200 then listToHex b else digest b ++ ":" ++ listToHex (b.drop (b.length - 32))
      | none => "err:content-too-long"
    | _, _, _, _, _, _ => "bad-op"
  | ["ep", role, magic, pre, seed, gLen, decoys, inp, acts] =>
    match hexToNat? magic, hexToList? pre, hexToList? seed, gLen.toNat?, parseNats? decoys ",", hexToList? inp with
    | some magic, some pre, some seed, some gLen, some decoys, some inp =>
      let acts := if acts == "-" then [] else (acts.splitOn ";").map (·.splitOn ":")
      (runEp role magic pre seed gLen decoys inp acts none).getD "bad-op"
    | _, _, _, _, _, _ => "bad-op"
  | ["ep", role, magic, pre, seed, gLen, decoys, inp, acts, priv, hs] =>
    match hexToNat? magic, hexToList? pre, hexToList? seed, gLen.toNat?, parseNats? decoys ",", hexToList? inp,
      hexToList? priv, hexToList? hs with
    | some magic, some pre, some seed, some gLen, some decoys, some inp, some priv, some hs =>
      let acts := if acts == "-" then [] else (acts.splitOn ";").map (·.splitOn ":")
      (runEp role magic pre seed gLen decoys inp acts (some (if priv.isEmpty then 1 else beToNat priv, hs))).getD "invalid-ellswift"
    | _, _, _, _, _, _, _, _ => "bad-op"
  | ["fsc", key, chunks] =>
    match hexToList? key, (if chunks == "-" then some [] else (chunks.splitOn ",").mapM (parseNats? · ":")) with
    | some k, some cs => if k.length ≠ 32 then "bad-op" else (runFsc k cs).getD "bad-op"
    | _, _ => "bad-op"
  | ["fsp", key, msgs] =>
    match hexToList? key, (if msgs == "-" then some [] else (msgs.splitOn ",").mapM (parseNats? · ":")) with
    | some k, some cs => if k.length ≠ 32 then "bad-op" else (runFsp k cs).getD "bad-op"
    | _, _ => "bad-op"
  | _ => "bad-op"

end BV.C19.Driver
