/-
C19 — helper lemmas: XOR stream involution, AEAD open∘seal, soundness of open, FS cipher and
packet-layer round trips. Everything is over abstract `Prims`.
-/
import BV.Common.Hex
import BV.Common.Aead
import BV.C19.Spec
import BV.C19.Model
namespace BV.C19.Lemmas
open BV.Hex BV.Aead BV.C19

/-! ### XOR with a key stream -/

theorem zipXor_invol : ∀ (m k : List UInt8), m.length ≤ k.length →
    List.zipWith (· ^^^ ·) (List.zipWith (· ^^^ ·) m k) k = m
  | [], _, _ => by simp
  | a :: m, [], h => by simp at h
  | a :: m, b :: k, h => by
    have ih := zipXor_invol m k (by simpa using h)
    simp only [List.zipWith_cons_cons, ih]
    congr 1
    rw [UInt8.xor_assoc, UInt8.xor_self, UInt8.xor_zero]

theorem xorBytes_length (m ks : List UInt8) : (xorBytes m ks).length = m.length := by
  unfold xorBytes
  simp only [List.length_zipWith, List.length_append, List.length_replicate]
  omega

theorem xorBytes_invol (m ks : List UInt8) : xorBytes (xorBytes m ks) ks = m := by
  have hl := xorBytes_length m ks
  unfold xorBytes at *
  rw [hl]
  apply zipXor_invol
  simp only [List.length_append, List.length_replicate]
  omega

/-! ### the AEAD construction -/

theorem open_append (P : Prims) (key nonce aad ct tag : List UInt8) (h : tag.length = 16) :
    aeadOpen? P key nonce aad (ct ++ tag) =
      if P.mac (otk P key nonce) (macData aad ct) = tag then
        some (xorBytes ct (encStream P key nonce ct.length)) else none := by
  have h1 : (ct ++ tag).length - 16 = ct.length := by simp only [List.length_append, h]; omega
  have h2 : ¬ (ct ++ tag).length < 16 := by simp only [List.length_append, h]; omega
  unfold aeadOpen?
  simp only [tagLen, h1, h2, if_false, List.take_left', List.drop_left']

/-- `aeadOpen?` accepts exactly what `aeadSeal` produced, and returns the plaintext.
Only hypothesis: tags are 16 bytes long. -/
theorem open_seal (P : Prims) (hmac : ∀ k m, (P.mac k m).length = 16)
    (key nonce aad pt : List UInt8) :
    aeadOpen? P key nonce aad (aeadSeal P key nonce aad pt) = some pt := by
  unfold aeadSeal
  simp only []
  rw [open_append P key nonce aad _ _ (hmac _ _), if_pos rfl, xorBytes_length, xorBytes_invol]

/-- Soundness of `aeadOpen?` by construction: whatever it accepts IS the sealing of the returned
plaintext (no hypothesis at all). Together with unforgeability of the MAC (an assumption outside
this development) this is authenticity. -/
theorem open_sound (P : Prims) (key nonce aad c pt : List UInt8)
    (h : aeadOpen? P key nonce aad c = some pt) : c = aeadSeal P key nonce aad pt := by
  unfold aeadOpen? at h
  simp only [tagLen] at h
  by_cases hl : c.length < 16
  · simp only [hl, if_true] at h
    exact absurd h (by simp)
  · simp only [hl, if_false] at h
    by_cases htag : P.mac (otk P key nonce) (macData aad (List.take (c.length - 16) c)) = List.drop (c.length - 16) c
    · simp only [htag, if_true] at h
      have hpt : pt = xorBytes (c.take (c.length - 16)) (encStream P key nonce (c.take (c.length - 16)).length) := by
        injection h with h; exact h.symm
      unfold aeadSeal
      have hlen : pt.length = (c.take (c.length - 16)).length := by rw [hpt, xorBytes_length]
      simp only [hlen]
      rw [hpt, xorBytes_invol, htag, List.take_append_drop]
    · simp only [htag, if_false] at h
      exact absurd h (by simp)

theorem seal_length (P : Prims) (hmac : ∀ k m, (P.mac k m).length = 16)
    (key nonce aad pt : List UInt8) : (aeadSeal P key nonce aad pt).length = pt.length + 16 := by
  unfold aeadSeal
  simp only [List.length_append, hmac, xorBytes_length]

/-! ### little-endian length field -/

theorem natLE_length (n k : Nat) : (natLE n k).length = k := by
  simp [natLE]

theorem natLE3 (n : Nat) :
    natLE n 3 = [UInt8.ofNat (n % 256), UInt8.ofNat (n / 256 % 256), UInt8.ofNat (n / 65536 % 256)] := by
  simp [natLE, List.range, List.range.loop]

theorem leToNat_natLE3 (n : Nat) (h : n < 2 ^ 24) : leToNat (natLE n 3) = n := by
  rw [natLE3]
  simp only [leToNat, List.foldr, UInt8.toNat_ofNat']
  omega

theorem natLE3_leToNat : ∀ (l : List UInt8), l.length = 3 → natLE (leToNat l) 3 = l
  | [a, b, c], _ => by
    rw [natLE3]
    simp only [leToNat, List.foldr]
    have ha := a.toNat_lt; have hb := b.toNat_lt; have hc := c.toNat_lt
    have e1 : ((0 * 256 + c.toNat) * 256 + b.toNat) * 256 + a.toNat = a.toNat + 256 * b.toNat + 65536 * c.toNat := by omega
    rw [e1]
    have h1 : (a.toNat + 256 * b.toNat + 65536 * c.toNat) % 256 = a.toNat := by omega
    have h2 : (a.toNat + 256 * b.toNat + 65536 * c.toNat) / 256 % 256 = b.toNat := by omega
    have h3 : (a.toNat + 256 * b.toNat + 65536 * c.toNat) / 65536 % 256 = c.toNat := by omega
    rw [h1, h2, h3]
    simp
  | [], h => by simp at h
  | [_], h => by simp at h
  | [_, _], h => by simp at h
  | _ :: _ :: _ :: _ :: _, h => by simp at h

theorem leToNat_lt3 : ∀ (l : List UInt8), l.length = 3 → leToNat l < 2 ^ 24
  | [a, b, c], _ => by
    simp only [leToNat, List.foldr]
    have ha := a.toNat_lt; have hb := b.toNat_lt; have hc := c.toNat_lt
    omega
  | [], h => by simp at h
  | [_], h => by simp at h
  | [_, _], h => by simp at h
  | _ :: _ :: _ :: _ :: _, h => by simp at h

/-! ### the forward-secure ciphers -/

theorem fscCrypt_length (P : Prims) (s : FSC) (t : List UInt8) : (fscCrypt P s t).1.length = t.length := by
  simp only [fscCrypt, xorBytes_length]

/-- the state update of the length cipher depends on the LENGTH of the text only -/
theorem fscCrypt_state (P : Prims) (s : FSC) (t t' : List UInt8) (h : t.length = t'.length) :
    (fscCrypt P s t).2 = (fscCrypt P s t').2 := by
  simp only [fscCrypt, h]

/-- decrypting with the same state undoes encrypting, and both sides move to the same state -/
theorem fscCrypt_invol (P : Prims) (s : FSC) (t : List UInt8) :
    fscCrypt P s (fscCrypt P s t).1 = (t, (fscCrypt P s t).2) := by
  have hl := fscCrypt_length P s t
  have hs := fscCrypt_state P s _ _ hl
  apply Prod.ext
  · show xorBytes (fscCrypt P s t).1 (P.stream s.key (fscNonce s.ctr) s.pos (fscCrypt P s t).1.length) = t
    rw [hl]
    show xorBytes (xorBytes t _) _ = t
    exact xorBytes_invol _ _
  · exact hs

theorem fspDecrypt_encrypt (P : Prims) (hmac : ∀ k m, (P.mac k m).length = 16) (s : FSP)
    (aad pt : List UInt8) :
    fspDecrypt P s aad (fspEncrypt P s aad pt).1 = some (pt, (fspEncrypt P s aad pt).2) := by
  simp only [fspDecrypt, fspEncrypt, open_seal P hmac]

theorem fspEncrypt_length (P : Prims) (hmac : ∀ k m, (P.mac k m).length = 16) (s : FSP)
    (aad pt : List UInt8) : (fspEncrypt P s aad pt).1.length = pt.length + 16 := by
  simp only [fspEncrypt, seal_length P hmac]

/-- whatever the packet cipher accepts is the encryption of the returned plaintext at this state -/
theorem fspDecrypt_sound (P : Prims) (s : FSP) (aad c pt : List UInt8) (s' : FSP)
    (h : fspDecrypt P s aad c = some (pt, s')) : fspEncrypt P s aad pt = (c, s') := by
  unfold fspDecrypt at h
  cases ho : aeadOpen? P s.key (fspNonce s.ctr) aad c with
  | none => rw [ho] at h; exact absurd h (by simp)
  | some q =>
    rw [ho] at h
    injection h with h
    injection h with h1 h2
    subst h1
    unfold fspEncrypt
    rw [← open_sound P _ _ _ _ _ ho, h2]

/-! ### the packet layer -/

theorem header_ignore (ign : Bool) : ((header ign &&& 0x80) != 0) = ign := by
  cases ign <;> decide

theorem encodePacket_length (P : Prims) (hmac : ∀ k m, (P.mac k m).length = 16) (d : Dir) (hdr : UInt8)
    (c aad : List UInt8) : (encodePacket P d hdr c aad).1.length = 3 + (1 + c.length + 16) := by
  simp only [encodePacket, List.length_append, fscCrypt_length, natLE_length,
    fspEncrypt_length P hmac, List.length_cons]
  omega

/-- the receiver, in the sender's state, reading the sender's bytes, gets the packet back and moves
to the sender's new state -/
theorem recvOne_encode (P : Prims) (hmac : ∀ k m, (P.mac k m).length = 16) (d : Dir) (hdr : UInt8)
    (c aad rest : List UInt8) (hc : c.length < 2 ^ 24) :
    recvOne P d ((encodePacket P d hdr c aad).1 ++ rest) aad =
      .packet ((hdr &&& 0x80) != 0) c (encodePacket P d hdr c aad).2 rest := by
  have hl3 : (fscCrypt P d.l (natLE c.length 3)).1.length = 3 := by rw [fscCrypt_length, natLE_length]
  have hbody : (fspEncrypt P d.p aad (hdr :: c)).1.length = 1 + c.length + 16 := by
    rw [fspEncrypt_length P hmac, List.length_cons]; omega
  unfold recvOne encodePacket
  simp only []
  have hw : ¬ ((fscCrypt P d.l (natLE c.length 3)).1 ++ (fspEncrypt P d.p aad (hdr :: c)).1 ++ rest).length < 3 := by
    simp only [List.length_append, hl3]; omega
  rw [if_neg hw]
  have htake : ((fscCrypt P d.l (natLE c.length 3)).1 ++ (fspEncrypt P d.p aad (hdr :: c)).1 ++ rest).take 3
      = (fscCrypt P d.l (natLE c.length 3)).1 := by
    rw [List.append_assoc, List.take_left' hl3]
  have hdrop : ((fscCrypt P d.l (natLE c.length 3)).1 ++ (fspEncrypt P d.p aad (hdr :: c)).1 ++ rest).drop 3
      = (fspEncrypt P d.p aad (hdr :: c)).1 ++ rest := by
    rw [List.append_assoc, List.drop_left' hl3]
  rw [htake, hdrop, fscCrypt_invol, leToNat_natLE3 _ hc]
  simp only []
  have hr : ¬ ((fspEncrypt P d.p aad (hdr :: c)).1 ++ rest).length < 1 + c.length + 16 := by
    simp only [List.length_append, hbody]; omega
  rw [if_neg hr, List.take_left' hbody, List.drop_left' hbody, fspDecrypt_encrypt P hmac]
  simp only [List.headD_cons, List.tail_cons]

/-- accepted ⇒ sealed: if the receiver in state `d` accepts a packet from the stream `wire`, then
the bytes it consumed are exactly the encoding, at state `d`, of the delivered contents under some
header byte with the delivered ignore bit, and the receiver's new state is the state the sender of
that encoding moves to. -/
theorem recvOne_sound (P : Prims) (hmac : ∀ k m, (P.mac k m).length = 16) (d d' : Dir) (wire aad c rest : List UInt8) (ign : Bool)
    (h : recvOne P d wire aad = .packet ign c d' rest) :
    ∃ hdr : UInt8, wire = (encodePacket P d hdr c aad).1 ++ rest ∧ d' = (encodePacket P d hdr c aad).2 ∧
      ign = ((hdr &&& 0x80) != 0) ∧ c.length < 2 ^ 24 := by
  unfold recvOne at h
  by_cases hw : wire.length < 3
  · simp only [hw, if_true] at h; exact absurd h (by simp)
  · simp only [hw, if_false] at h
    by_cases hr : (wire.drop 3).length < 1 + leToNat (fscCrypt P d.l (wire.take 3)).1 + 16
    · simp only [hr, if_true] at h; exact absurd h (by simp)
    · simp only [hr, if_false] at h
      cases hdec : fspDecrypt P d.p aad ((wire.drop 3).take (1 + leToNat (fscCrypt P d.l (wire.take 3)).1 + 16)) with
      | none => rw [hdec] at h; exact absurd h (by simp)
      | some r =>
        obtain ⟨pt, p'⟩ := r
        rw [hdec] at h
        simp only [RecvOne.packet.injEq] at h
        obtain ⟨hign, hc, hd, hrest⟩ := h
        have henc := fspDecrypt_sound P d.p aad _ pt p' hdec
        have ht3 : (wire.take 3).length = 3 := by rw [List.length_take]; omega
        have hl3 : (fscCrypt P d.l (wire.take 3)).1.length = 3 := by rw [fscCrypt_length, ht3]
        -- the plaintext is header :: contents with |contents| = decrypted length
        have hptlen : pt.length = 1 + leToNat (fscCrypt P d.l (wire.take 3)).1 := by
          have h1 := fspEncrypt_length P hmac d.p aad pt
          rw [henc] at h1
          simp only [List.length_take] at h1
          omega
        cases pt with
        | nil => simp only [List.length_nil] at hptlen; omega
        | cons hdr body =>
          simp only [List.headD_cons, List.tail_cons] at hign hc
          subst hc
          have hbl : body.length = leToNat (fscCrypt P d.l (wire.take 3)).1 := by
            simp only [List.length_cons] at hptlen; omega
          refine ⟨hdr, ?_, ?_, hign.symm, ?_⟩
          · -- wire = encLen ++ body' ++ rest
            unfold encodePacket
            simp only []
            rw [henc, hbl, natLE3_leToNat _ hl3]
            have hinv := fscCrypt_invol P d.l (wire.take 3)
            have hst : (fscCrypt P d.l (fscCrypt P d.l (wire.take 3)).1).1 = wire.take 3 := by rw [hinv]
            rw [hst, ← hrest, List.append_assoc, List.take_append_drop, List.take_append_drop]
          · unfold encodePacket
            simp only []
            rw [henc, hbl, natLE3_leToNat _ hl3, ← hd]
            have hinv := fscCrypt_invol P d.l (wire.take 3)
            have hst : (fscCrypt P d.l (fscCrypt P d.l (wire.take 3)).1).2 = (fscCrypt P d.l (wire.take 3)).2 := by rw [hinv]
            rw [hst]
          · rw [hbl]; exact leToNat_lt3 _ hl3

end BV.C19.Lemmas
