/-
secp256k1 public-key parsing for the C15 driver (core-only, executable): the concrete `Curve`
the model is run with in the correspondence check.  Mirrors btcec.ParsePubKey (decred secp256k1)
for the formats the compressed-script code can pass: 33-byte 02/03‖X and 65-byte 04‖X‖Y.
Nothing is proved about this file; the theorems are stated for an arbitrary `Curve`.
-/
import BV.Common.Hex
import BV.C15.Model
namespace BV.C15.Secp
open BV.Hex

def p : Nat := 2 ^ 256 - 2 ^ 32 - 977

def powMod (b e m : Nat) : Nat :=
  if h : e = 0 then 1 % m else
    let half := powMod (b * b % m) (e / 2) m
    if e % 2 = 1 then b * half % m else half
termination_by e
decreasing_by omega

/-- sqrt candidate: p ≡ 3 (mod 4). -/
def sqrtCand (c : Nat) : Nat := powMod c ((p + 1) / 4) p

def parse (k : List UInt8) : Option (List UInt8) :=
  match k with
  | [] => none
  | f :: body =>
    if k.length = 33 ∧ (f = 2 ∨ f = 3) then
      let x := beVal body
      if x ≥ p then none else
      let c := (x * x % p * x + 7) % p
      let y := sqrtCand c
      if y * y % p ≠ c then none else
      let y' := if (y % 2 = 1) = (f = 3) then y else (p - y) % p
      some (4 :: (natBE x 32 ++ natBE y' 32))
    else if k.length = 65 ∧ f = 4 then
      let x := beVal (body.take 32)
      let y := beVal (body.drop 32)
      if x ≥ p ∨ y ≥ p then none else
      if y * y % p = (x * x % p * x + 7) % p then some k else none
    else none

def curve : Spec.Curve := ⟨parse⟩

end BV.C15.Secp
