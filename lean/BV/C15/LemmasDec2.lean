/- C15 helper lemmas: no-panic for the record decoders built on decodeCompressedTxOut. -/
import BV.C15.LemmasDec
namespace BV.C15.Lemmas
open BV.C15 BV.C15.Spec

theorem drop_length_lt {s : List UInt8} {k : Nat} (h : s.length < 2 ^ 63) : (s.drop k).length < 2 ^ 63 := by
  rw [List.length_drop]; omega

theorem utxo_no_panic (C : Curve) (ser : List UInt8) (hlen : ser.length < 2 ^ 63) :
    deserializeUtxoEntry C ser ≠ .panic := by
  unfold deserializeUtxoEntry
  simp only []
  by_cases hbr : (deserializeVLQ ser).2 ≥ ser.length
  · rw [if_pos hbr]; intro h; cases h
  rw [if_neg hbr, slice_to_end (by omega)]
  simp only []
  have := decodeTxOut_no_panic C (ser.drop (deserializeVLQ ser).2) (drop_length_lt hlen)
  cases hd : decodeCompressedTxOut C (ser.drop (deserializeVLQ ser).2) with
  | panic => exact absurd hd this
  | err => simp only []; intro h; cases h
  | ok v => obtain ⟨a, s, n⟩ := v; simp only []; intro h; cases h

theorem stxo_no_panic (C : Curve) (ser : List UInt8) (hlen : ser.length < 2 ^ 63) :
    decodeSpentTxOut C ser ≠ .panic := by
  unfold decodeSpentTxOut
  by_cases h0 : ser.length = 0
  · rw [if_pos h0]; intro h; cases h
  rw [if_neg h0]
  simp only []
  by_cases hbr : (deserializeVLQ ser).2 ≥ ser.length
  · rw [if_pos hbr]; intro h; cases h
  rw [if_neg hbr]
  -- the offset after the optional reserved field is either an error or a valid offset < len
  have key : ∀ off : Nat, off < ser.length →
      (match slice ser off ser.length with
        | none => Outcome.panic
        | some rest =>
          match decodeCompressedTxOut C rest with
          | .ok (a, s, n) => Outcome.ok ((⟨a, s, toInt32 ((deserializeVLQ ser).1 / 2),
              decide ((deserializeVLQ ser).1 % 2 = 1)⟩ : Txo), off + n)
          | .err => .err
          | .panic => .panic) ≠ Outcome.panic := by
    intro off hoff
    rw [slice_to_end (by omega)]
    simp only []
    have := decodeTxOut_no_panic C (ser.drop off) (drop_length_lt hlen)
    cases hd : decodeCompressedTxOut C (ser.drop off) with
    | panic => exact absurd hd this
    | err => simp only []; intro h; cases h
    | ok v => obtain ⟨a, s, n⟩ := v; simp only []; intro h; cases h
  by_cases hh : toInt32 ((deserializeVLQ ser).1 / 2) > 0
  · rw [if_pos hh, slice_to_end (by omega)]
    simp only []
    by_cases hoff : (deserializeVLQ ser).2 + (deserializeVLQ (ser.drop (deserializeVLQ ser).2)).2 ≥ ser.length
    · rw [if_pos hoff]; simp only []; intro h; cases h
    · rw [if_neg hoff]; simp only []
      exact key _ (by omega)
  · rw [if_neg hh]; simp only []
    exact key _ (by omega)

/-- A successful stxo decode consumed at most `len` bytes. -/
theorem stxo_ok_le (C : Curve) (ser : List UInt8) (t : Txo) (n : Nat)
    (h : decodeSpentTxOut C ser = .ok (t, n)) : n ≤ ser.length := by
  unfold decodeSpentTxOut at h
  by_cases h0 : ser.length = 0
  · rw [if_pos h0] at h; cases h
  rw [if_neg h0] at h
  simp only [] at h
  by_cases hbr : (deserializeVLQ ser).2 ≥ ser.length
  · rw [if_pos hbr] at h; cases h
  rw [if_neg hbr] at h
  have key : ∀ off : Nat, off < ser.length →
      (match slice ser off ser.length with
        | none => Outcome.panic
        | some rest =>
          match decodeCompressedTxOut C rest with
          | .ok (a, s, n) => Outcome.ok ((⟨a, s, toInt32 ((deserializeVLQ ser).1 / 2),
              decide ((deserializeVLQ ser).1 % 2 = 1)⟩ : Txo), off + n)
          | .err => .err
          | .panic => .panic) = Outcome.ok (t, n) → n ≤ ser.length := by
    intro off hoff hk
    rw [slice_to_end (by omega)] at hk
    simp only [] at hk
    cases hd : decodeCompressedTxOut C (ser.drop off) with
    | panic => rw [hd] at hk; cases hk
    | err => rw [hd] at hk; cases hk
    | ok v =>
      obtain ⟨a, s, m⟩ := v
      rw [hd] at hk; simp only [] at hk
      have := (decodeTxOut_ok_le C _ a s m hd).1
      rw [List.length_drop] at this
      injection hk with hk
      injection hk with _ hk
      omega
  by_cases hh : toInt32 ((deserializeVLQ ser).1 / 2) > 0
  · rw [if_pos hh, slice_to_end (by omega)] at h
    simp only [] at h
    by_cases hoff : (deserializeVLQ ser).2 + (deserializeVLQ (ser.drop (deserializeVLQ ser).2)).2 ≥ ser.length
    · rw [if_pos hoff] at h; cases h
    · rw [if_neg hoff] at h; simp only [] at h
      exact key _ (by omega) h
  · rw [if_neg hh] at h; simp only [] at h
    exact key _ (by omega) h

theorem stxos_no_panic (C : Curve) (k : Nat) (ser : List UInt8) (hlen : ser.length < 2 ^ 63) :
    decodeStxos C k ser ≠ .panic := by
  induction k generalizing ser with
  | zero => unfold decodeStxos; intro h; cases h
  | succ k ih =>
    unfold decodeStxos
    have h1 := stxo_no_panic C ser hlen
    cases hd : decodeSpentTxOut C ser with
    | panic => exact absurd hd h1
    | err => simp only []; intro h; cases h
    | ok v =>
      obtain ⟨t, n⟩ := v
      simp only []
      have hn := stxo_ok_le C ser t n hd
      rw [slice_to_end hn]
      simp only []
      have h2 := ih (ser.drop n) (drop_length_lt hlen)
      cases hd2 : decodeStxos C k (ser.drop n) with
      | panic => exact absurd hd2 h2
      | err => simp only []; intro h; cases h
      | ok l => simp only []; intro h; cases h

theorem journal_no_panic (C : Curve) (ser : List UInt8) (shape : List Nat) (hlen : ser.length < 2 ^ 63) :
    deserializeSpendJournalEntry C ser shape ≠ .panic := by
  unfold deserializeSpendJournalEntry
  simp only []
  split
  · split <;> (intro h; cases h)
  · have := stxos_no_panic C shape.sum ser hlen
    cases hd : decodeStxos C shape.sum ser with
    | panic => exact absurd hd this
    | err => simp only []; intro h; cases h
    | ok l => simp only []; intro h; cases h

/-- `deserializeBestChainState` never panics (after the fix that removed the uint32 arithmetic). -/
theorem bestState_no_panic (ser : List UInt8) : deserializeBestChainState ser ≠ .panic := by
  unfold deserializeBestChainState
  by_cases h48 : ser.length < 48
  · rw [if_pos h48]; intro h; cases h
  rw [if_neg h48, slice_some (by omega) (by omega), slice_some (by omega) (by omega),
    slice_some (by omega) (by omega), slice_some (by omega) (by omega), slice_to_end (by omega)]
  simp only []
  split
  · intro h; cases h
  · rename_i hw
    rw [slice_some (by omega) (by omega)]
    simp only []; intro h; cases h

theorem blockRow_no_panic (ser : List UInt8) : deserializeBlockRow ser ≠ .panic := by
  unfold deserializeBlockRow
  split
  · intro h; cases h
  · split <;> (intro h; cases h)

end BV.C15.Lemmas
