/- C15 (round 3): spend-journal entries written by the legacy v1 format carry the version of the containing
transaction as a VLQ of ANY length in the slot that is written as a single 0x00 today; they decode to the
same stxo (this is what seeded change C15-d broke). -/
import BV.C15.LemmasRec
namespace BV.C15.Lemmas
open BV.C15 BV.C15.Spec

/-- a spent txout as the legacy v1 format wrote it: the slot after the header code holds `VLQ(version)` -/
def putSpentTxOutLegacy (C : Curve) (t : Txo) (version : Nat) : List UInt8 :=
  putVLQ (headerCodeOf t.height t.coinbase) ++ putVLQ version ++ putCompressedTxOut C t.amount t.script

theorem stxo_legacy_rt (C : Curve) (hC : C.YRecovery) (t : Txo) (hw : t.WF) (hh : t.height > 0)
    (version : Nat) (hv : version < 2 ^ 64) (tail : List UInt8) :
    decodeSpentTxOut C (putSpentTxOutLegacy C t version ++ tail) =
      .ok (t.rt, (putSpentTxOutLegacy C t version).length) := by
  obtain ⟨h1, h2, h3⟩ := hw
  obtain ⟨c1, c2, c3⟩ := header_decode t.height t.coinbase h1 h2
  have hvl := putVLQ_length (headerCodeOf t.height t.coinbase)
  have hsp := size_pos (headerCodeOf t.height t.coinbase)
  have hrl := putVLQ_length version
  have hrp := size_pos version
  have hp := txout_pos C t.amount t.script
  have htx := fun tl => txout_rt C hC t.amount t.script h3 tl
  unfold putSpentTxOutLegacy decodeSpentTxOut
  rw [if_neg (by simp only [List.length_append, hvl]; omega)]
  rw [List.append_assoc, List.append_assoc, deserialize_putVLQ _ c1]
  simp only []
  rw [if_neg (by simp only [List.length_append, hvl, hrl]; omega)]
  rw [c2, if_pos hh]
  rw [slice_to_end (by simp only [List.length_append, hvl]; omega)]
  simp only []
  rw [← hvl, List.drop_left, deserialize_putVLQ _ hv]
  simp only []
  rw [if_neg (by simp only [List.length_append, hrl]; omega)]
  simp only []
  rw [slice_to_end (by simp only [List.length_append, hrl]; omega)]
  simp only []
  have hd : (putVLQ (headerCodeOf t.height t.coinbase) ++
      (putVLQ version ++ (putCompressedTxOut C t.amount t.script ++ tail))).drop
        ((putVLQ (headerCodeOf t.height t.coinbase)).length + serializeSizeVLQ version) =
      putCompressedTxOut C t.amount t.script ++ tail := by
    rw [← List.drop_drop, List.drop_left, ← hrl, List.drop_left]
  rw [hd, htx tail]
  simp only [c3]
  congr 2
  simp only [List.length_append, hrl]

/-- an stxo as either format version wrote it: `version = 0` is today's encoding -/
def putSpentTxOutAny (C : Curve) (tv : Txo × Nat) : List UInt8 :=
  if tv.1.height > 0 then putSpentTxOutLegacy C tv.1 tv.2 else putSpentTxOut C tv.1

theorem stxo_any_rt (C : Curve) (hC : C.YRecovery) (tv : Txo × Nat) (hw : tv.1.WF) (hv : tv.2 < 2 ^ 64)
    (tail : List UInt8) :
    decodeSpentTxOut C (putSpentTxOutAny C tv ++ tail) = .ok (tv.1.rt, (putSpentTxOutAny C tv).length) := by
  unfold putSpentTxOutAny
  by_cases hh : tv.1.height > 0
  · rw [if_pos hh]; exact stxo_legacy_rt C hC tv.1 hw hh tv.2 hv tail
  · rw [if_neg hh]; exact stxo_rt C hC tv.1 hw tail

theorem stxos_any_rt (C : Curve) (hC : C.YRecovery) (l : List (Txo × Nat))
    (hw : ∀ tv ∈ l, tv.1.WF ∧ tv.2 < 2 ^ 64) (tail : List UInt8) :
    decodeStxos C l.length ((l.map (putSpentTxOutAny C)).flatten ++ tail) = .ok (l.map (fun tv => tv.1.rt)) := by
  induction l with
  | nil => rfl
  | cons t l ih =>
    simp only [List.map_cons, List.flatten_cons, List.length_cons]
    unfold decodeStxos
    rw [List.append_assoc, stxo_any_rt C hC t (hw t (by simp)).1 (hw t (by simp)).2]
    simp only []
    rw [slice_to_end (by simp only [List.length_append]; omega), List.drop_left]
    simp only []
    rw [ih (fun t ht => hw t (by simp [ht]))]

theorem any_pos (C : Curve) (tv : Txo × Nat) : 1 ≤ (putSpentTxOutAny C tv).length := by
  unfold putSpentTxOutAny putSpentTxOutLegacy
  have := txout_pos C tv.1.amount tv.1.script
  have := stxo_pos C tv.1
  split
  · simp only [List.length_append]; omega
  · assumption

/-- a whole journal entry written by the legacy format (any mix of versions) decodes to the stxos it holds -/
theorem journal_legacy_rt (C : Curve) (hC : C.YRecovery) (l : List (Txo × Nat))
    (hw : ∀ tv ∈ l, tv.1.WF ∧ tv.2 < 2 ^ 64) (shape : List Nat) (hs : shape.sum = l.length) :
    deserializeSpendJournalEntry C ((l.reverse.map (putSpentTxOutAny C)).flatten) shape =
      .ok (l.map (fun tv => tv.1.rt)) := by
  unfold deserializeSpendJournalEntry
  simp only []
  cases l with
  | nil => simp [hs]
  | cons t l =>
    have hne : ¬ ((((t :: l).reverse.map (putSpentTxOutAny C)).flatten).length = 0) := by
      rw [List.reverse_cons, List.map_append, List.flatten_append, List.length_append]
      have := any_pos C t
      simp only [List.map_cons, List.map_nil, List.flatten_cons, List.flatten_nil, List.append_nil]
      omega
    rw [if_neg hne, hs]
    have := stxos_any_rt C hC (t :: l).reverse (fun t' ht' => hw t' (List.mem_reverse.mp ht')) []
    rw [List.append_nil, List.length_reverse] at this
    rw [this]
    simp only []
    rw [← List.map_reverse, List.reverse_reverse]

end BV.C15.Lemmas
