/- C15 helper lemmas (hardening round): uint64 range of the decoder, unbounded VLQ inverse, injectivity /
prefix-freeness of the encodings (what makes the non-self-describing journal format decodable). -/
import BV.C15.LemmasRec
namespace BV.C15.Lemmas
open BV.C15 BV.C15.Spec

/-- the model's decoded value is always a `uint64` -/
theorem aux_val_u64 (acc sz : Nat) (l : List UInt8) (h : acc < 2 ^ 64) :
    (deserializeVLQAux acc sz l).1 < 2 ^ 64 := by
  induction l generalizing acc sz with
  | nil => simpa [deserializeVLQAux] using h
  | cons b r ih =>
    rw [deserializeVLQAux]; try dsimp only
    split
    · simp only []; omega
    · exact ih _ _ (Nat.mod_lt _ (by decide))

theorem deserializeVLQ_lt (l : List UInt8) : (deserializeVLQ l).1 < 2 ^ 64 :=
  aux_val_u64 0 0 l (by decide)

/-- unbounded decoder of the Spec inverts `vlq` on every natural number -/
theorem value_pre (n acc : Nat) (rest : List UInt8) (hacc : acc = 0) :
    vlqValue acc (vlqPre n ++ rest) = vlqValue (n / 128) rest := by
  subst hacc
  induction n using Nat.strongRecOn generalizing rest with
  | _ n ih =>
    by_cases h : n ≤ 127
    · rw [vlqPre_small h]
      have : n / 128 = 0 := by omega
      simp [this]
    · rw [vlqPre_big h, List.append_assoc, ih (n / 128 - 1) (by omega)]
      simp only [List.singleton_append]
      rw [vlqValue]
      have hb : (UInt8.ofNat ((n / 128 - 1) % 128 + 128)).toNat = (n / 128 - 1) % 128 + 128 :=
        ofNat_toNat_lt _ (by omega)
      simp only [hb]
      rw [if_neg (by omega)]
      congr 1
      omega

theorem vlqValue_vlq (n : Nat) : vlqValue 0 (vlq n) = n := by
  unfold vlq
  rw [value_pre n 0 _ rfl]
  simp only [vlqValue]
  have hb : (UInt8.ofNat (n % 128)).toNat = n % 128 := ofNat_toNat_lt _ (by omega)
  simp only [hb]
  rw [if_pos (by omega)]
  omega

theorem vlq_injective (n m : Nat) (h : vlq n = vlq m) : n = m := by
  have := congrArg (vlqValue 0) h
  rwa [vlqValue_vlq, vlqValue_vlq] at this

/-- no encoding of a uint64 is a proper prefix of another: a stream splits in one way only -/
theorem vlq_prefix_free (n m : Nat) (hn : n < 2 ^ 64) (hm : m < 2 ^ 64) (r r' : List UInt8)
    (h : vlq n ++ r = vlq m ++ r') : n = m ∧ r = r' := by
  have h1 := deserialize_vlq n hn r
  have h2 := deserialize_vlq m hm r'
  rw [h, h2] at h1
  have hnm : m = n := (Prod.mk.inj h1).1
  subst hnm
  exact ⟨rfl, List.append_cancel_left h⟩

theorem txo_rt_inj (t t' : Txo) (ha : t.amount ≤ amountBound) (ha' : t'.amount ≤ amountBound)
    (h : t.rt = t'.rt) : t = t' := by
  cases t; cases t'
  simp only [Txo.rt, Txo.mk.injEq] at h
  unfold rtAmount at h
  obtain ⟨h1, h2, h3, h4⟩ := h
  rw [amount_roundtrip _ ha, amount_roundtrip _ ha'] at h1
  simp only [Txo.mk.injEq]
  exact ⟨h1, h2, h3, h4⟩

/-- spent txouts: equal streams ⇒ equal first entry and equal remainder -/
theorem stxo_prefix_free (C : Curve) (hC : C.YRecovery) (t t' : Txo) (hw : t.WF) (hw' : t'.WF)
    (ha : t.amount ≤ amountBound) (ha' : t'.amount ≤ amountBound) (r r' : List UInt8)
    (h : putSpentTxOut C t ++ r = putSpentTxOut C t' ++ r') : t = t' ∧ r = r' := by
  have h1 := stxo_rt C hC t hw r
  have h2 := stxo_rt C hC t' hw' r'
  rw [h, h2] at h1
  have hp := Outcome.ok.inj h1
  have ht : t'.rt = t.rt := (Prod.mk.inj hp).1
  have htt : t = t' := txo_rt_inj t t' ha ha' ht.symm
  subst htt
  exact ⟨rfl, List.append_cancel_left h⟩

theorem utxo_injective (C : Curve) (hC : C.YRecovery) (e e' : Txo) (hw : e.WF) (hw' : e'.WF)
    (ha : e.amount ≤ amountBound) (ha' : e'.amount ≤ amountBound)
    (h : serializeUtxoEntry C e = serializeUtxoEntry C e') : e = e' := by
  have h1 := utxo_rt C hC e hw []
  have h2 := utxo_rt C hC e' hw' []
  rw [h, h2] at h1
  exact txo_rt_inj e e' ha ha' (Outcome.ok.inj h1).symm

theorem journal_injective (C : Curve) (hC : C.YRecovery) (l l' : List Txo)
    (hw : ∀ t ∈ l, t.WF ∧ t.amount ≤ amountBound) (hw' : ∀ t ∈ l', t.WF ∧ t.amount ≤ amountBound)
    (hlen : l.length = l'.length)
    (h : serializeSpendJournalEntry C l = serializeSpendJournalEntry C l') : l = l' := by
  have h1 := journal_rt C hC l (fun t ht => (hw t ht).1) [l.length] (by simp)
  have h2 := journal_rt C hC l' (fun t ht => (hw' t ht).1) [l.length] (by simp [hlen])
  rw [h, h2] at h1
  have hm : l'.map Txo.rt = l.map Txo.rt := by
    injection h1
  -- rt is injective on entries within the amount bound
  clear h h1 h2
  induction l generalizing l' with
  | nil => cases l' with
    | nil => rfl
    | cons _ _ => simp at hlen
  | cons t l ih =>
    cases l' with
    | nil => simp at hlen
    | cons t' l' =>
      simp only [List.map_cons, List.cons.injEq] at hm
      have e1 := txo_rt_inj t t' (hw t (by simp)).2 (hw' t' (by simp)).2 hm.1.symm
      have e2 := ih l' (fun x hx => hw x (by simp [hx])) (fun x hx => hw' x (by simp [hx]))
        (by simpa using hlen) hm.2
      rw [e1, e2]

end BV.C15.Lemmas
