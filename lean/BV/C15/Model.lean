/-
C15 Model: executable mirror of blockchain/compress.go and the record (de)serialisers of
blockchain/chainio.go (core-only).

Conventions
* `uint64` values are `Nat` with an explicit `% 2^64` where Go wraps.  Where a Go expression is a
  polynomial (+, *, and subtractions that provably do not go below zero) the wrap is applied once at
  the end (`Nat → ZMod 2^64` is a ring homomorphism); divisions are always taken on exact values.
* Go `int` is 64 bit (`toInt64`).
* A Go slice expression `s[a:b]` is `slice s a b`, which is `none` (= run-time panic or a read past the
  logical end of the data) unless `a ≤ b ≤ len s`.  Decoders return `Outcome`, in which `panic` is an
  explicit value, so that "never panics, never reads out of bounds" is a statement about the model.
* The decoders model the code AFTER the `fix:` commit that made `decodeCompressedScriptSize`
  bounds-safe (finding F-C15-a).
-/
import BV.C15.Spec
namespace BV.C15
open Spec

inductive Outcome (α : Type) where
  | ok (v : α)
  | err
  | panic
  deriving Repr, DecidableEq

def U64 : Nat := 2 ^ 64

def toInt64 (n : Nat) : Int :=
  let m : Nat := n % 2 ^ 64
  if m < 2 ^ 63 then (m : Int) else (m : Int) - 2 ^ 64

def toInt32 (n : Nat) : Int :=
  let m : Nat := n % 2 ^ 32
  if m < 2 ^ 31 then (m : Int) else (m : Int) - 2 ^ 32

/-- `uint64(h)` for an `int32` (or `int64`) `h`: two's complement sign extension. -/
def u64OfInt (h : Int) : Nat := (h % (2 ^ 64 : Int)).toNat

/-- Go `s[a:b]` with the capacity taken to be the length. -/
def slice (s : List UInt8) (a b : Nat) : Option (List UInt8) :=
  if a ≤ b ∧ b ≤ s.length then some ((s.drop a).take (b - a)) else none

/-! ### VLQ (compress.go: serializeSizeVLQ, putVLQ, deserializeVLQ) -/

/-- `size := 1; for ; n > 0x7f; n = (n >> 7) - 1 { size++ }` -/
def serializeSizeVLQ (n : Nat) : Nat :=
  if h : n ≤ 127 then 1 else serializeSizeVLQ (n / 128 - 1) + 1
termination_by n
decreasing_by omega

/-- The first loop of `putVLQ`: least significant group first; every byte but the first written
carries the high bit. -/
def putVLQLsb (n : Nat) (first : Bool) : List UInt8 :=
  UInt8.ofNat (n % 128 + (if first then 0 else 128)) ::
    (if h : n ≤ 127 then [] else putVLQLsb (n / 128 - 1) false)
termination_by n
decreasing_by omega

/-- `putVLQ`: the LSB-first bytes reversed in place. -/
def putVLQ (n : Nat) : List UInt8 := (putVLQLsb n true).reverse

/-- The loop of `deserializeVLQ` with the accumulator wrapping at 2^64. -/
def deserializeVLQAux : Nat → Nat → List UInt8 → Nat × Nat
  | acc, size, [] => (acc, size)
  | acc, size, b :: rest =>
    let acc' := (acc * 128) % 2 ^ 64 + b.toNat % 128
    if b.toNat < 128 then (acc', size + 1)
    else deserializeVLQAux ((acc' + 1) % 2 ^ 64) (size + 1) rest

def deserializeVLQ (s : List UInt8) : Nat × Nat := deserializeVLQAux 0 0 s

/-! ### amounts -/

def compressTxOutAmount (a : Nat) : Nat := compressNat a % 2 ^ 64

def decompressTxOutAmount (x : Nat) : Nat := decompressNat x % 2 ^ 64

/-! ### scripts -/

def isPubKeyHash (s : List UInt8) : Option (List UInt8) :=
  if s.length = 25 ∧ s.take 3 = [OP_DUP, OP_HASH160, OP_DATA_20] ∧ s.drop 23 = [OP_EQUALVERIFY, OP_CHECKSIG] then
    some ((s.drop 3).take 20) else none

def isScriptHash (s : List UInt8) : Option (List UInt8) :=
  if s.length = 23 ∧ s.take 2 = [OP_HASH160, OP_DATA_20] ∧ s.drop 22 = [OP_EQUAL] then
    some ((s.drop 2).take 20) else none

/-- `isPubKey`: the serialized key when the script is a pay-to-pubkey to a VALID 02/03/04 key. -/
def isPubKey (C : Curve) (s : List UInt8) : Option (List UInt8) :=
  if s.length = 35 ∧ s.take 1 = [OP_DATA_33] ∧ s.drop 34 = [OP_CHECKSIG] ∧
      ((s.drop 1).take 1 = [2] ∨ (s.drop 1).take 1 = [3]) ∧ (C.parse ((s.drop 1).take 33)).isSome then
    some ((s.drop 1).take 33)
  else if s.length = 67 ∧ s.take 1 = [OP_DATA_65] ∧ s.drop 66 = [OP_CHECKSIG] ∧
      (s.drop 1).take 1 = [4] ∧ (C.parse ((s.drop 1).take 65)).isSome then
    some ((s.drop 1).take 65)
  else none

def compressedScriptSize (C : Curve) (s : List UInt8) : Nat :=
  if (isPubKeyHash s).isSome then 21
  else if (isScriptHash s).isSome then 21
  else if (isPubKey C s).isSome then 33
  else serializeSizeVLQ ((s.length + numSpecialScripts) % 2 ^ 64) + s.length

def putCompressedScript (C : Curve) (s : List UInt8) : List UInt8 :=
  match isPubKeyHash s with
  | some h => 0 :: h
  | none =>
  match isScriptHash s with
  | some h => 1 :: h
  | none =>
  match isPubKey C s with
  | some k =>
    if k.length = 33 then k   -- format 02/03: target[0] = format, target[1:33] = X
    else (4 ||| ((k.drop 64).headD 0 &&& 1)) :: (k.drop 1).take 32
  | none => putVLQ ((s.length + numSpecialScripts) % 2 ^ 64) ++ s

/-- `decodeCompressedScriptSize` (after the fix).  `ser.length + 1` means "does not fit". -/
def decodeCompressedScriptSize (ser : List UInt8) : Nat :=
  let vb := deserializeVLQ ser
  if vb.2 = 0 then 0
  else if vb.1 = 0 ∨ vb.1 = 1 then vb.2 + 20
  else if 2 ≤ vb.1 ∧ vb.1 ≤ 5 then vb.2 + 32
  else
    let sz := vb.1 - numSpecialScripts   -- no wrap: vb.1 ≥ 6 here
    if sz > ser.length - vb.2 then ser.length + 1 else vb.2 + sz

/-- `copy(dst[:n], src)` into a zeroed destination of length `n`. -/
def copyInto (n : Nat) (src : List UInt8) : List UInt8 :=
  src.take n ++ List.replicate (n - min n src.length) 0

/-- `decompressScript`; `none` = the Go code would panic / read past the slice. A `nil` script is `[]`. -/
def decompressScript (C : Curve) (c : List UInt8) : Option (List UInt8) :=
  if c.length = 0 then some [] else
  let vb := deserializeVLQ c
  let enc := vb.1
  let br := vb.2
  if enc = 0 then
    (slice c br (br + 20)).map (fun h => [OP_DUP, OP_HASH160, OP_DATA_20] ++ h ++ [OP_EQUALVERIFY, OP_CHECKSIG])
  else if enc = 1 then
    (slice c br (br + 20)).map (fun h => [OP_HASH160, OP_DATA_20] ++ h ++ [OP_EQUAL])
  else if enc = 2 ∨ enc = 3 then
    (slice c br (br + 32)).map (fun x => [OP_DATA_33, UInt8.ofNat enc] ++ x ++ [OP_CHECKSIG])
  else if enc = 4 ∨ enc = 5 then
    -- compressedKey[0] = enc-2; copy(compressedKey[1:], c[1:])   (index 1, not bytesRead, as in Go)
    let key := UInt8.ofNat (enc - 2) :: copyInto 32 (c.drop 1)
    match C.parse key with
    | none => some []
    | some u => some ([OP_DATA_65] ++ u ++ [OP_CHECKSIG])   -- u = 65-byte SerializeUncompressed
  else
    let sz := toInt64 (enc - numSpecialScripts)
    if sz < 0 then none   -- make([]byte, negative) panics
    else slice c br (br + sz.toNat)

/-! ### compressed txout -/

def compressedTxOutSize (C : Curve) (amount : Nat) (s : List UInt8) : Nat :=
  serializeSizeVLQ (compressTxOutAmount amount) + compressedScriptSize C s

def putCompressedTxOut (C : Curve) (amount : Nat) (s : List UInt8) : List UInt8 :=
  putVLQ (compressTxOutAmount amount) ++ putCompressedScript C s

/-- `decodeCompressedTxOut`: (amount, script, bytes consumed). -/
def decodeCompressedTxOut (C : Curve) (ser : List UInt8) : Outcome (Nat × List UInt8 × Nat) :=
  let vb := deserializeVLQ ser
  let br := vb.2
  if br ≥ ser.length then .err else
  match slice ser br ser.length with
  | none => .panic
  | some rest =>
    let ss := decodeCompressedScriptSize rest
    if rest.length < ss then .err else
    match slice ser br (br + ss) with
    | none => .panic
    | some c =>
      match decompressScript C c with
      | none => .panic
      | some script => .ok (decompressTxOutAmount vb.1, script, br + ss)

/-! ### utxo entry -/

structure Txo where
  amount : Nat        -- uint64 bits of the int64 amount
  script : List UInt8
  height : Int        -- int32
  coinbase : Bool
  deriving Repr, DecidableEq

def headerCodeOf (height : Int) (coinbase : Bool) : Nat :=
  headerCode (u64OfInt height) coinbase

def serializeUtxoEntry (C : Curve) (e : Txo) : List UInt8 :=
  putVLQ (headerCodeOf e.height e.coinbase) ++ putCompressedTxOut C e.amount e.script

def utxoEntrySerializeSize (C : Curve) (e : Txo) : Nat :=
  serializeSizeVLQ (headerCodeOf e.height e.coinbase) + compressedTxOutSize C e.amount e.script

def deserializeUtxoEntry (C : Curve) (ser : List UInt8) : Outcome Txo :=
  let vb := deserializeVLQ ser
  if vb.2 ≥ ser.length then .err else
  match slice ser vb.2 ser.length with
  | none => .panic
  | some rest =>
    match decodeCompressedTxOut C rest with
    | .ok (a, s, _) => .ok ⟨a, s, toInt32 (vb.1 / 2), vb.1 % 2 = 1⟩
    | .err => .err
    | .panic => .panic

/-! ### spent txout and spend journal -/

def spentTxOutSerializeSize (C : Curve) (s : Txo) : Nat :=
  serializeSizeVLQ (headerCodeOf s.height s.coinbase) +
    (if s.height > 0 then serializeSizeVLQ 0 else 0) + compressedTxOutSize C s.amount s.script

def putSpentTxOut (C : Curve) (s : Txo) : List UInt8 :=
  putVLQ (headerCodeOf s.height s.coinbase) ++ (if s.height > 0 then putVLQ 0 else []) ++
    putCompressedTxOut C s.amount s.script

/-- `decodeSpentTxOut`: the stxo and the number of bytes read. -/
def decodeSpentTxOut (C : Curve) (ser : List UInt8) : Outcome (Txo × Nat) :=
  if ser.length = 0 then .err else
  let vb := deserializeVLQ ser
  if vb.2 ≥ ser.length then .err else
  let height := toInt32 (vb.1 / 2)
  let cb : Bool := vb.1 % 2 = 1
  let afterReserved : Outcome Nat :=
    if height > 0 then
      match slice ser vb.2 ser.length with
      | none => .panic
      | some r =>
        let off := vb.2 + (deserializeVLQ r).2
        if off ≥ ser.length then .err else .ok off
    else .ok vb.2
  match afterReserved with
  | .err => .err
  | .panic => .panic
  | .ok off =>
    match slice ser off ser.length with
    | none => .panic
    | some rest =>
      match decodeCompressedTxOut C rest with
      | .ok (a, s, n) => .ok (⟨a, s, height, cb⟩, off + n)
      | .err => .err
      | .panic => .panic

def serializeSpendJournalEntry (C : Curve) (stxos : List Txo) : List UInt8 :=
  (stxos.reverse.map (putSpentTxOut C)).flatten

def spendJournalSerializeSize (C : Curve) (stxos : List Txo) : Nat :=
  (stxos.map (spentTxOutSerializeSize C)).sum

/-- Decode `k` stxos one after the other (the order they appear on disk). -/
def decodeStxos (C : Curve) : Nat → List UInt8 → Outcome (List Txo)
  | 0, _ => .ok []
  | k + 1, ser =>
    match decodeSpentTxOut C ser with
    | .err => .err
    | .panic => .panic
    | .ok (st, n) =>
      match slice ser n ser.length with
      | none => .panic
      | some rest =>
        match decodeStxos C k rest with
        | .ok l => .ok (st :: l)
        | .err => .err
        | .panic => .panic

inductive JournalOutcome where
  | ok (l : List Txo)
  | err
  | assertErr
  | panic
  deriving Repr, DecidableEq

/-- `deserializeSpendJournalEntry`; `shape` = number of inputs of each (non-coinbase) transaction. -/
def deserializeSpendJournalEntry (C : Curve) (ser : List UInt8) (shape : List Nat) : JournalOutcome :=
  let num := shape.sum
  if ser.length = 0 then (if num ≠ 0 then .assertErr else .ok [])
  else match decodeStxos C num ser with
    | .ok l => .ok l.reverse
    | .err => .err
    | .panic => .panic

/-! ### fixed-width integers -/

def leBytes : Nat → Nat → List UInt8
  | 0, _ => []
  | k + 1, n => UInt8.ofNat (n % 256) :: leBytes k (n / 256)

def leVal : List UInt8 → Nat
  | [] => 0
  | b :: r => b.toNat + 256 * leVal r

def beBytesAux : Nat → Nat → List UInt8 → List UInt8
  | 0, _, acc => acc
  | f + 1, n, acc => if n = 0 then acc else beBytesAux f (n / 256) (UInt8.ofNat (n % 256) :: acc)

/-- `big.Int.Bytes`: minimal big-endian magnitude (fuel `n` is always enough). -/
def beBytes (n : Nat) : List UInt8 := beBytesAux n n []

/-- `big.Int.SetBytes` -/
def beVal (l : List UInt8) : Nat := l.foldl (fun acc b => acc * 256 + b.toNat) 0

/-! ### best chain state -/

structure BestState where
  hash : List UInt8     -- 32 bytes
  height : Nat          -- uint32
  totalTxns : Nat       -- uint64
  workSum : Nat
  deriving Repr, DecidableEq

def serializeBestChainState (st : BestState) : List UInt8 :=
  let ws := beBytes st.workSum
  copyInto 32 st.hash ++ leBytes 4 st.height ++ leBytes 8 st.totalTxns ++ leBytes 4 (ws.length % 2 ^ 32) ++ ws

def deserializeBestChainState (ser : List UInt8) : Outcome BestState :=
  if ser.length < 48 then .err else
  match slice ser 0 32, slice ser 32 36, slice ser 36 44, slice ser 44 48, slice ser 48 ser.length with
  | some h, some ht, some tt, some wl, some rest =>
    let wlen := leVal wl
    -- after the fix (F-C15-d): compared in uint64, sliced relative to the offset
    -- (`serializedData[offset:][:workSumBytesLen]`); before, both were uint32 and wrapped at 4 GiB
    if rest.length < wlen then .err else
    match slice rest 0 wlen with
    | none => .panic
    | some ws => .ok ⟨h, leVal ht, leVal tt, beVal ws⟩
  | _, _, _, _, _ => .panic

/-! ### block index row -/

structure Header where
  version : Nat   -- uint32 bits of the int32
  prev : List UInt8
  merkle : List UInt8
  time : Nat      -- uint32
  bits : Nat
  nonce : Nat
  deriving Repr, DecidableEq

def serializeHeader (h : Header) : List UInt8 :=
  leBytes 4 h.version ++ copyInto 32 h.prev ++ copyInto 32 h.merkle ++ leBytes 4 h.time ++ leBytes 4 h.bits ++ leBytes 4 h.nonce

def serializeBlockRow (h : Header) (status : UInt8) : List UInt8 := serializeHeader h ++ [status]

/-- `deserializeBlockRow`: reads through an `io.Reader`, so short data is an error, never a panic. -/
def deserializeBlockRow (ser : List UInt8) : Outcome (Header × UInt8) :=
  if ser.length < 80 then .err else
  match ser.drop 80 with
  | [] => .err
  | st :: _ =>
    .ok (⟨leVal (ser.take 4), (ser.drop 4).take 32, (ser.drop 36).take 32, leVal ((ser.drop 68).take 4),
         leVal ((ser.drop 72).take 4), leVal ((ser.drop 76).take 4)⟩, st)

end BV.C15
