/- C15 helper lemmas: fixed-width integers, best chain state, block index row, byte-exact formats. -/
import BV.C15.LemmasRec
namespace BV.C15.Lemmas
open BV.C15 BV.C15.Spec

theorem leBytes_length (k n : Nat) : (leBytes k n).length = k := by
  induction k generalizing n with
  | zero => rfl
  | succ k ih => simp [leBytes, ih]

theorem leVal_leBytes (k n : Nat) : leVal (leBytes k n) = n % 256 ^ k := by
  induction k generalizing n with
  | zero => simp [leBytes, leVal, Nat.mod_one]
  | succ k ih =>
    rw [leBytes, leVal, ih, ofNat_toNat_lt _ (Nat.mod_lt _ (by decide)), Nat.pow_succ, Nat.mul_comm (256 ^ k) 256,
      Nat.mod_mul]

theorem beVal_snoc (l : List UInt8) (b : UInt8) : beVal (l ++ [b]) = beVal l * 256 + b.toNat := by
  unfold beVal; rw [List.foldl_append]; rfl

theorem beAux_spec (f n : Nat) (acc : List UInt8) (h : n ≤ f) :
    ∃ d, beBytesAux f n acc = d ++ acc ∧ beVal d = n := by
  induction f generalizing n acc with
  | zero =>
    have : n = 0 := by omega
    subst this; exact ⟨[], rfl, rfl⟩
  | succ f ih =>
    by_cases h0 : n = 0
    · subst h0; exact ⟨[], by simp [beBytesAux], rfl⟩
    · obtain ⟨d, hd, hv⟩ := ih (n / 256) (UInt8.ofNat (n % 256) :: acc) (by omega)
      refine ⟨d ++ [UInt8.ofNat (n % 256)], ?_, ?_⟩
      · rw [beBytesAux, if_neg h0, hd]; simp
      · rw [beVal_snoc, hv, ofNat_toNat_lt _ (Nat.mod_lt _ (by decide))]; omega

theorem beVal_beBytes (n : Nat) : beVal (beBytes n) = n := by
  obtain ⟨d, hd, hv⟩ := beAux_spec n n [] (Nat.le_refl _)
  unfold beBytes; rw [hd, List.append_nil, hv]

/-! ### best chain state -/

def _root_.BV.C15.BestState.WF (st : BestState) : Prop :=
  st.hash.length = 32 ∧ st.height < 2 ^ 32 ∧ st.totalTxns < 2 ^ 64 ∧ (beBytes st.workSum).length < 2 ^ 32 - 48

theorem bestState_rt (st : BestState) (hw : st.WF) :
    deserializeBestChainState (serializeBestChainState st) = .ok st := by
  obtain ⟨h1, h2, h3, h4⟩ := hw
  unfold serializeBestChainState
  simp only []
  generalize hws : beBytes st.workSum = ws at h4
  have hwl : ws.length % 2 ^ 32 = ws.length := Nat.mod_eq_of_lt (by omega)
  rw [hwl, copyInto_exact 32 _ h1]
  simp only [List.append_assoc]
  have lA := h1
  have lB := leBytes_length 4 st.height
  have lC := leBytes_length 8 st.totalTxns
  have lD := leBytes_length 4 ws.length
  unfold deserializeBestChainState
  have hlen : (st.hash ++ (leBytes 4 st.height ++ (leBytes 8 st.totalTxns ++ (leBytes 4 ws.length ++ ws)))).length
      = 48 + ws.length := by
    simp only [List.length_append, lA, lB, lC, lD]; omega
  rw [if_neg (by omega), hlen]
  rw [slice_some (by omega) (by omega), slice_some (by omega) (by omega), slice_some (by omega) (by omega),
    slice_some (by omega) (by omega), slice_some (by omega) (by omega)]
  simp only []
  have d32 : ∀ X : List UInt8, (st.hash ++ X).drop 32 = X := fun X => List.drop_left' lA
  have e1 : ((st.hash ++ (leBytes 4 st.height ++ (leBytes 8 st.totalTxns ++ (leBytes 4 ws.length ++ ws)))).drop 0).take (32 - 0)
      = st.hash := by
    rw [List.drop_zero]; exact List.take_left' lA
  have e2 : ((st.hash ++ (leBytes 4 st.height ++ (leBytes 8 st.totalTxns ++ (leBytes 4 ws.length ++ ws)))).drop 32).take (36 - 32)
      = leBytes 4 st.height := by
    rw [d32]; exact List.take_left' lB
  have e3 : ((st.hash ++ (leBytes 4 st.height ++ (leBytes 8 st.totalTxns ++ (leBytes 4 ws.length ++ ws)))).drop 36).take (44 - 36)
      = leBytes 8 st.totalTxns := by
    rw [show 36 = 32 + 4 from rfl, ← List.drop_drop, d32, List.drop_left' lB]; exact List.take_left' lC
  have e4 : ((st.hash ++ (leBytes 4 st.height ++ (leBytes 8 st.totalTxns ++ (leBytes 4 ws.length ++ ws)))).drop 44).take (48 - 44)
      = leBytes 4 ws.length := by
    rw [show 44 = 32 + (4 + 8) from rfl, ← List.drop_drop, d32, ← List.drop_drop, List.drop_left' lB, List.drop_left' lC]
    exact List.take_left' lD
  have e5 : (st.hash ++ (leBytes 4 st.height ++ (leBytes 8 st.totalTxns ++ (leBytes 4 ws.length ++ ws)))).drop 48 = ws := by
    rw [show 48 = 32 + (4 + (8 + 4)) from rfl, ← List.drop_drop, d32, ← List.drop_drop, List.drop_left' lB,
      ← List.drop_drop, List.drop_left' lC, List.drop_left' lD]
  have e5' : ((st.hash ++ (leBytes 4 st.height ++ (leBytes 8 st.totalTxns ++ (leBytes 4 ws.length ++ ws)))).drop 48).take
      (48 + ws.length - 48) = ws := by
    rw [e5]; exact List.take_of_length_le (by omega)
  rw [e1, e2, e3, e4, e5']
  have v4 : leVal (leBytes 4 ws.length) = ws.length := by
    rw [leVal_leBytes]; exact Nat.mod_eq_of_lt (by omega)
  rw [v4, if_neg (by omega), slice_some (by omega) (by omega), List.drop_zero, Nat.sub_zero,
    List.take_of_length_le (Nat.le_refl _)]
  simp only []
  rw [leVal_leBytes, leVal_leBytes, ← hws, beVal_beBytes, Nat.mod_eq_of_lt (by omega : st.height < 256 ^ 4),
    Nat.mod_eq_of_lt (by omega : st.totalTxns < 256 ^ 8)]

theorem bestState_size (st : BestState) (h : st.hash.length = 32) :
    (serializeBestChainState st).length = 48 + (beBytes st.workSum).length := by
  unfold serializeBestChainState
  simp only [List.length_append, leBytes_length, copyInto_exact 32 _ h, h]

/-! ### block index row -/

def _root_.BV.C15.Header.WF (h : Header) : Prop :=
  h.version < 2 ^ 32 ∧ h.prev.length = 32 ∧ h.merkle.length = 32 ∧ h.time < 2 ^ 32 ∧ h.bits < 2 ^ 32 ∧ h.nonce < 2 ^ 32

theorem blockRow_size (h : Header) (st : UInt8) (hw : h.WF) : (serializeBlockRow h st).length = 81 := by
  obtain ⟨_, h2, h3, _⟩ := hw
  unfold serializeBlockRow serializeHeader
  simp only [List.length_append, leBytes_length, copyInto_exact 32 _ h2, copyInto_exact 32 _ h3, h2, h3,
    List.length_singleton]

theorem blockRow_rt (h : Header) (st : UInt8) (hw : h.WF) (tail : List UInt8) :
    deserializeBlockRow (serializeBlockRow h st ++ tail) = .ok (h, st) := by
  obtain ⟨h1, h2, h3, h4, h5, h6⟩ := hw
  unfold serializeBlockRow serializeHeader
  rw [copyInto_exact 32 _ h2, copyInto_exact 32 _ h3]
  simp only [List.append_assoc]
  have lV := leBytes_length 4 h.version
  have lT := leBytes_length 4 h.time
  have lB := leBytes_length 4 h.bits
  have lN := leBytes_length 4 h.nonce
  unfold deserializeBlockRow
  rw [if_neg (by simp only [List.length_append, lV, lT, lB, lN, h2, h3, List.length_singleton]; omega)]
  have dV : ∀ X : List UInt8, (leBytes 4 h.version ++ X).drop 4 = X := fun X => List.drop_left' lV
  have dP : ∀ X : List UInt8, (h.prev ++ X).drop 32 = X := fun X => List.drop_left' h2
  have dM : ∀ X : List UInt8, (h.merkle ++ X).drop 32 = X := fun X => List.drop_left' h3
  have dT : ∀ X : List UInt8, (leBytes 4 h.time ++ X).drop 4 = X := fun X => List.drop_left' lT
  have dB : ∀ X : List UInt8, (leBytes 4 h.bits ++ X).drop 4 = X := fun X => List.drop_left' lB
  have dN : ∀ X : List UInt8, (leBytes 4 h.nonce ++ X).drop 4 = X := fun X => List.drop_left' lN
  generalize hS : leBytes 4 h.version ++ (h.prev ++ (h.merkle ++ (leBytes 4 h.time ++ (leBytes 4 h.bits ++
      (leBytes 4 h.nonce ++ ([st] ++ tail)))))) = S
  have d4 : S.drop 4 = h.prev ++ (h.merkle ++ (leBytes 4 h.time ++ (leBytes 4 h.bits ++
      (leBytes 4 h.nonce ++ ([st] ++ tail))))) := by rw [← hS, dV]
  have d36 : S.drop 36 = h.merkle ++ (leBytes 4 h.time ++ (leBytes 4 h.bits ++
      (leBytes 4 h.nonce ++ ([st] ++ tail)))) := by
    rw [show 36 = 4 + 32 from rfl, ← List.drop_drop, d4, dP]
  have d68 : S.drop 68 = leBytes 4 h.time ++ (leBytes 4 h.bits ++ (leBytes 4 h.nonce ++ ([st] ++ tail))) := by
    rw [show 68 = 36 + 32 from rfl, ← List.drop_drop, d36, dM]
  have d72 : S.drop 72 = leBytes 4 h.bits ++ (leBytes 4 h.nonce ++ ([st] ++ tail)) := by
    rw [show 72 = 68 + 4 from rfl, ← List.drop_drop, d68, dT]
  have d76 : S.drop 76 = leBytes 4 h.nonce ++ ([st] ++ tail) := by
    rw [show 76 = 72 + 4 from rfl, ← List.drop_drop, d72, dB]
  have d80 : S.drop 80 = st :: tail := by
    rw [show 80 = 76 + 4 from rfl, ← List.drop_drop, d76, dN]; rfl
  have t4 : S.take 4 = leBytes 4 h.version := by rw [← hS]; exact List.take_left' lV
  rw [d80]
  simp only []
  rw [t4, d4, d36, d68, d72, d76, List.take_left' h2, List.take_left' h3, List.take_left' lT, List.take_left' lB,
    List.take_left' lN]
  rw [leVal_leBytes, leVal_leBytes, leVal_leBytes, leVal_leBytes,
    Nat.mod_eq_of_lt (by omega : h.version < 256 ^ 4), Nat.mod_eq_of_lt (by omega : h.time < 256 ^ 4),
    Nat.mod_eq_of_lt (by omega : h.bits < 256 ^ 4), Nat.mod_eq_of_lt (by omega : h.nonce < 256 ^ 4)]

/-! ### byte-exact documented formats -/

theorem script_fmt (C : Curve) (s : List UInt8) (h : s.length + 6 < 2 ^ 64) :
    putCompressedScript C s = compressedScript C s := by
  have hmod : (s.length + numSpecialScripts) % 2 ^ 64 = s.length + numSpecialScripts := by
    unfold numSpecialScripts; exact Nat.mod_eq_of_lt h
  unfold putCompressedScript compressedScript classify isPubKeyHash isScriptHash isPubKey
  rw [hmod, putVLQ_eq_spec]
  by_cases c1 : s.length = 25 ∧ s.take 3 = [OP_DUP, OP_HASH160, OP_DATA_20] ∧ s.drop 23 = [OP_EQUALVERIFY, OP_CHECKSIG]
  · simp only [c1, and_self, if_true]
  · simp only [c1, if_false]
    by_cases c2 : s.length = 23 ∧ s.take 2 = [OP_HASH160, OP_DATA_20] ∧ s.drop 22 = [OP_EQUAL]
    · simp only [c2, and_self, if_true]
    · simp only [c2, if_false]
      by_cases c3 : s.length = 35 ∧ s.take 1 = [OP_DATA_33] ∧ s.drop 34 = [OP_CHECKSIG] ∧
          ((s.drop 1).take 1 = [2] ∨ (s.drop 1).take 1 = [3]) ∧ (C.parse ((s.drop 1).take 33)).isSome
      · rw [if_pos c3, if_pos c3]
        simp only []
        rw [if_pos (by rw [List.length_take, List.length_drop]; omega)]
      · rw [if_neg c3, if_neg c3]
        by_cases c4 : s.length = 67 ∧ s.take 1 = [OP_DATA_65] ∧ s.drop 66 = [OP_CHECKSIG] ∧
            (s.drop 1).take 1 = [4] ∧ (C.parse ((s.drop 1).take 65)).isSome
        · rw [if_pos c4, if_pos c4]
          simp only []
          rw [if_neg (by rw [List.length_take, List.length_drop]; omega)]
        · rw [if_neg c4, if_neg c4]

theorem txout_fmt (C : Curve) (a : Nat) (s : List UInt8) (ha : a ≤ amountBound) (h : s.length + 6 < 2 ^ 64) :
    putCompressedTxOut C a s = compressedTxOut C a s := by
  unfold putCompressedTxOut compressedTxOut
  rw [putVLQ_eq_spec, script_fmt C s h]
  unfold compressTxOutAmount
  rw [Nat.mod_eq_of_lt (compressNat_lt a ha)]

end BV.C15.Lemmas
