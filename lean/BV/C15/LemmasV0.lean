/- C15 helper lemmas: the legacy v0 utxo decoder never panics. -/
import BV.C15.ModelV0
import BV.C15.LemmasDec2
namespace BV.C15.Lemmas
open BV.C15 BV.C15.Spec

theorem v0outs_no_panic (C : Curve) (ser : List UInt8) (hlen : ser.length < 2 ^ 63) (height : Int) (cb : Bool)
    (idxs : List Nat) (off : Nat) (hoff : off ≤ ser.length) :
    decodeV0Outs C ser height cb idxs off ≠ .panic := by
  induction idxs generalizing off with
  | nil => unfold decodeV0Outs; intro h; cases h
  | cons i r ih =>
    unfold decodeV0Outs
    rw [slice_to_end hoff]
    simp only []
    have h1 := decodeTxOut_no_panic C (ser.drop off) (drop_length_lt hlen)
    cases hd : decodeCompressedTxOut C (ser.drop off) with
    | panic => exact absurd hd h1
    | err => simp only []; intro h; cases h
    | ok v =>
      obtain ⟨a, s, n⟩ := v
      simp only []
      have hn := (decodeTxOut_ok_le C _ a s n hd).1
      rw [List.length_drop] at hn
      have h2 := ih (off + n) (by omega)
      cases hd2 : decodeV0Outs C ser height cb r (off + n) with
      | panic => exact absurd hd2 h2
      | err => simp only []; intro h; cases h
      | ok l => simp only []; intro h; cases h

theorem utxoV0_no_panic (C : Curve) (ser : List UInt8) (hlen : ser.length < 2 ^ 63) :
    deserializeUtxoEntryV0 C ser ≠ .panic := by
  unfold deserializeUtxoEntryV0
  simp only []
  by_cases h1 : (deserializeVLQ ser).2 ≥ ser.length
  · rw [if_pos h1]; intro h; cases h
  rw [if_neg h1, slice_to_end (by omega)]
  simp only []
  by_cases h2 : (deserializeVLQ ser).2 + (deserializeVLQ (ser.drop (deserializeVLQ ser).2)).2 ≥ ser.length
  · rw [if_pos h2]; intro h; cases h
  rw [if_neg h2, slice_to_end (by omega)]
  simp only []
  generalize hoff2 : (deserializeVLQ ser).2 + (deserializeVLQ (ser.drop (deserializeVLQ ser).2)).2 = off2 at *
  by_cases h3 : off2 + (deserializeVLQ (ser.drop off2)).2 ≥ ser.length
  · rw [if_pos h3]; intro h; cases h
  rw [if_neg h3]
  generalize hoff3 : off2 + (deserializeVLQ (ser.drop off2)).2 = off3 at *
  generalize hnb : (deserializeVLQ (ser.drop off2)).1 / 8 +
      (if (!decide ((deserializeVLQ (ser.drop off2)).1 / 2 % 2 = 1) &&
        !decide ((deserializeVLQ (ser.drop off2)).1 / 4 % 2 = 1)) = true then 1 else 0) = nb
  by_cases h4 : ser.length - off3 < nb
  · rw [if_pos h4]; intro h; cases h
  rw [if_neg h4]
  have hmod : nb % 2 ^ 32 ≤ nb := Nat.mod_le _ _
  rw [slice_some (by omega) (by omega)]
  simp only []
  exact v0outs_no_panic C ser hlen _ _ _ _ (by omega)

theorem v1row_no_panic (row : List UInt8) : readV1BlockRow row ≠ .panic := by
  unfold readV1BlockRow
  by_cases h : row.length < 92
  · rw [if_pos h]; intro h'; cases h'
  · rw [if_neg h, slice_some (by omega) (by omega)]; simp only []; intro h'; cases h'

end BV.C15.Lemmas
