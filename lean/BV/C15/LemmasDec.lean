/- C15 helper lemmas: the decoders never panic / never read out of bounds. -/
import BV.C15.LemmasVlq
namespace BV.C15.Lemmas
open BV.C15 BV.C15.Spec

theorem slice_some {s : List UInt8} {a b : Nat} (h1 : a ≤ b) (h2 : b ≤ s.length) :
    slice s a b = some ((s.drop a).take (b - a)) := by
  unfold slice; rw [if_pos ⟨h1, h2⟩]

theorem slice_to_end {s : List UInt8} {a : Nat} (h : a ≤ s.length) :
    slice s a s.length = some (s.drop a) := by
  rw [slice_some h (Nat.le_refl _)]
  congr 1
  apply List.take_of_length_le
  rw [List.length_drop]; omega

theorem slice_length {s c : List UInt8} {a b : Nat} (h : slice s a b = some c) :
    c.length = b - a ∧ a ≤ b ∧ b ≤ s.length := by
  unfold slice at h
  split at h
  · rename_i hc
    injection h with h; subst h
    rw [List.length_take, List.length_drop]; omega
  · cases h

theorem toInt64_small {n : Nat} (h : n < 2 ^ 63) : toInt64 n = (n : Int) := by
  unfold toInt64
  have : n % 2 ^ 64 = n := Nat.mod_eq_of_lt (by omega)
  simp only [this]
  rw [if_pos h]

/-- The size reported by `decodeCompressedScriptSize` always covers the VLQ it read. -/
theorem scriptSize_ge_bytesRead (rest : List UInt8) (h : (deserializeVLQ rest).2 ≠ 0) :
    (deserializeVLQ rest).2 ≤ decodeCompressedScriptSize rest := by
  unfold decodeCompressedScriptSize
  simp only []
  have := bytesRead_le rest
  rw [if_neg h]
  split
  · omega
  · split
    · omega
    · split <;> omega

/-- Key lemma: whenever the reported size fits, `decompressScript` on exactly that many bytes
neither panics nor reads past them. -/
theorem decompress_isSome (C : Curve) (rest : List UInt8) (hne : rest ≠ [])
    (hlen : rest.length < 2 ^ 63)
    (hfit : decodeCompressedScriptSize rest ≤ rest.length) :
    (decompressScript C (rest.take (decodeCompressedScriptSize rest))).isSome = true := by
  have hbr1 := bytesRead_pos rest hne
  have hbr2 := bytesRead_le rest
  have hge := scriptSize_ge_bytesRead rest (by omega)
  have hvb : deserializeVLQ (rest.take (decodeCompressedScriptSize rest)) = deserializeVLQ rest :=
    deserialize_take rest _ hge
  have hclen : (rest.take (decodeCompressedScriptSize rest)).length = decodeCompressedScriptSize rest := by
    rw [List.length_take]; omega
  unfold decompressScript
  have hc0 : ¬ ((rest.take (decodeCompressedScriptSize rest)).length = 0) := by omega
  rw [if_neg hc0]
  simp only [hvb]
  -- now case on the decoded type, computing the size in each case
  by_cases h0 : (deserializeVLQ rest).1 = 0
  · have hs : decodeCompressedScriptSize rest = (deserializeVLQ rest).2 + 20 := by
      unfold decodeCompressedScriptSize; simp only []
      rw [if_neg (by omega), if_pos (Or.inl h0)]
    rw [if_pos h0, slice_some (by omega) (by omega)]; rfl
  rw [if_neg h0]
  by_cases h1 : (deserializeVLQ rest).1 = 1
  · have hs : decodeCompressedScriptSize rest = (deserializeVLQ rest).2 + 20 := by
      unfold decodeCompressedScriptSize; simp only []
      rw [if_neg (by omega), if_pos (Or.inr h1)]
    rw [if_pos h1, slice_some (by omega) (by omega)]; rfl
  rw [if_neg h1]
  by_cases h23 : (deserializeVLQ rest).1 = 2 ∨ (deserializeVLQ rest).1 = 3
  · have hs : decodeCompressedScriptSize rest = (deserializeVLQ rest).2 + 32 := by
      unfold decodeCompressedScriptSize; simp only []
      rw [if_neg (by omega), if_neg (by omega), if_pos (by omega)]
    rw [if_pos h23, slice_some (by omega) (by omega)]; rfl
  rw [if_neg h23]
  by_cases h45 : (deserializeVLQ rest).1 = 4 ∨ (deserializeVLQ rest).1 = 5
  · rw [if_pos h45]
    split <;> rfl
  rw [if_neg h45]
  -- general form
  have hsz : ¬ ((deserializeVLQ rest).1 - numSpecialScripts > rest.length - (deserializeVLQ rest).2) := by
    intro hgt
    have : decodeCompressedScriptSize rest = rest.length + 1 := by
      unfold decodeCompressedScriptSize; simp only []
      rw [if_neg (by omega), if_neg (by omega), if_neg (by omega), if_pos hgt]
    omega
  have hs : decodeCompressedScriptSize rest =
      (deserializeVLQ rest).2 + ((deserializeVLQ rest).1 - numSpecialScripts) := by
    unfold decodeCompressedScriptSize; simp only []
    rw [if_neg (by omega), if_neg (by omega), if_neg (by omega), if_neg hsz]
  have hsmall : (deserializeVLQ rest).1 - numSpecialScripts < 2 ^ 63 := by omega
  rw [toInt64_small hsmall]
  have hnn : ¬ (((deserializeVLQ rest).1 - numSpecialScripts : Nat) : Int) < 0 := by omega
  rw [if_neg hnn, Int.toNat_natCast, slice_some (by omega) (by omega)]; rfl

theorem decodeTxOut_no_panic (C : Curve) (ser : List UInt8) (hlen : ser.length < 2 ^ 63) :
    decodeCompressedTxOut C ser ≠ .panic := by
  unfold decodeCompressedTxOut
  simp only []
  by_cases hbr : (deserializeVLQ ser).2 ≥ ser.length
  · rw [if_pos hbr]; intro h; cases h
  rw [if_neg hbr, slice_to_end (by omega)]
  simp only []
  have hrl : (ser.drop (deserializeVLQ ser).2).length = ser.length - (deserializeVLQ ser).2 := List.length_drop
  by_cases hss : (ser.drop (deserializeVLQ ser).2).length <
      decodeCompressedScriptSize (ser.drop (deserializeVLQ ser).2)
  · rw [if_pos hss]; intro h; cases h
  rw [if_neg hss, slice_some (by omega) (by omega), Nat.add_sub_cancel_left]
  simp only []
  have hne : ser.drop (deserializeVLQ ser).2 ≠ [] := by
    intro h; rw [h] at hrl; simp at hrl; omega
  have := decompress_isSome C _ hne (by omega) (by omega)
  cases hd : decompressScript C ((ser.drop (deserializeVLQ ser).2).take
      (decodeCompressedScriptSize (ser.drop (deserializeVLQ ser).2))) with
  | none => rw [hd] at this; cases this
  | some s => simp only []; intro h; cases h

/-- A successful decode consumed at least 2 and at most `len` bytes. -/
theorem decodeTxOut_ok_le (C : Curve) (ser : List UInt8) (a : Nat) (s : List UInt8) (n : Nat)
    (h : decodeCompressedTxOut C ser = .ok (a, s, n)) : n ≤ ser.length ∧ 1 ≤ n := by
  unfold decodeCompressedTxOut at h
  simp only [] at h
  by_cases hbr : (deserializeVLQ ser).2 ≥ ser.length
  · rw [if_pos hbr] at h; cases h
  rw [if_neg hbr, slice_to_end (by omega)] at h
  simp only [] at h
  have hrl : (ser.drop (deserializeVLQ ser).2).length = ser.length - (deserializeVLQ ser).2 := List.length_drop
  by_cases hss : (ser.drop (deserializeVLQ ser).2).length <
      decodeCompressedScriptSize (ser.drop (deserializeVLQ ser).2)
  · rw [if_pos hss] at h; cases h
  rw [if_neg hss, slice_some (by omega) (by omega)] at h
  simp only [] at h
  have hne : ser.drop (deserializeVLQ ser).2 ≠ [] := by
    intro h'; rw [h'] at hrl; simp at hrl; omega
  have hbr1 := bytesRead_pos _ hne
  have hge := scriptSize_ge_bytesRead (ser.drop (deserializeVLQ ser).2) (by omega)
  split at h
  · cases h
  · injection h with h
    injection h with _ h
    injection h with _ h
    omega

end BV.C15.Lemmas
