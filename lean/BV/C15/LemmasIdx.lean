/- C15: the special-form recognisers written with Go's index comparisons, and their equivalence with the
take/drop form used by the Model (closes the modelling step between `script[i] == OP_X` and `take/drop`). -/
import BV.C15.Model
namespace BV.C15
open Spec

/-- `len(script) == 25 && script[0] == OP_DUP && script[1] == OP_HASH160 && script[2] == OP_DATA_20 &&
script[23] == OP_EQUALVERIFY && script[24] == OP_CHECKSIG` -/
def isPubKeyHashIdx (s : List UInt8) : Bool :=
  s.length = 25 ∧ s[0]? = some OP_DUP ∧ s[1]? = some OP_HASH160 ∧ s[2]? = some OP_DATA_20 ∧
    s[23]? = some OP_EQUALVERIFY ∧ s[24]? = some OP_CHECKSIG

def isScriptHashIdx (s : List UInt8) : Bool :=
  s.length = 23 ∧ s[0]? = some OP_HASH160 ∧ s[1]? = some OP_DATA_20 ∧ s[22]? = some OP_EQUAL

def isPubKeyCompIdx (s : List UInt8) : Bool :=
  s.length = 35 ∧ s[0]? = some OP_DATA_33 ∧ s[34]? = some OP_CHECKSIG ∧ (s[1]? = some 2 ∨ s[1]? = some 3)

def isPubKeyUncompIdx (s : List UInt8) : Bool :=
  s.length = 67 ∧ s[0]? = some OP_DATA_65 ∧ s[66]? = some OP_CHECKSIG ∧ s[1]? = some 4

namespace Lemmas

theorem take1 (s : List UInt8) (a : UInt8) : s.take 1 = [a] ↔ s[0]? = some a := by
  cases s with
  | nil => simp
  | cons x r => simp

theorem take2 (s : List UInt8) (a b : UInt8) : s.take 2 = [a, b] ↔ s[0]? = some a ∧ s[1]? = some b := by
  match s with
  | [] => simp
  | [x] => simp
  | x :: y :: r => simp

theorem take3 (s : List UInt8) (a b c : UInt8) :
    s.take 3 = [a, b, c] ↔ s[0]? = some a ∧ s[1]? = some b ∧ s[2]? = some c := by
  match s with
  | [] => simp
  | [x] => simp
  | [x, y] => simp
  | x :: y :: z :: r => simp

theorem drop_last1 (s : List UInt8) (n : Nat) (a : UInt8) (h : s.length = n + 1) :
    s.drop n = [a] ↔ s[n]? = some a := by
  have hl : (s.drop n).length = 1 := by rw [List.length_drop]; omega
  have hg : s[n]? = (s.drop n)[0]? := by rw [List.getElem?_drop]; simp
  rw [hg]
  match hd : s.drop n, hl with
  | [x], _ => simp

theorem drop_last2 (s : List UInt8) (n : Nat) (a b : UInt8) (h : s.length = n + 2) :
    s.drop n = [a, b] ↔ s[n]? = some a ∧ s[n + 1]? = some b := by
  have hl : (s.drop n).length = 2 := by rw [List.length_drop]; omega
  have hg0 : s[n]? = (s.drop n)[0]? := by rw [List.getElem?_drop]; simp
  have hg1 : s[n + 1]? = (s.drop n)[1]? := by rw [List.getElem?_drop]
  rw [hg0, hg1]
  match hd : s.drop n, hl with
  | [x, y], _ => simp

theorem isPubKeyHash_idx (s : List UInt8) : (isPubKeyHash s).isSome = isPubKeyHashIdx s := by
  unfold isPubKeyHash isPubKeyHashIdx
  by_cases hl : s.length = 25
  · have h3 := take3 s OP_DUP OP_HASH160 OP_DATA_20
    have h2 := drop_last2 s 23 OP_EQUALVERIFY OP_CHECKSIG hl
    by_cases hc : s.take 3 = [OP_DUP, OP_HASH160, OP_DATA_20] ∧ s.drop 23 = [OP_EQUALVERIFY, OP_CHECKSIG]
    · have := h3.mp hc.1; have := h2.mp hc.2
      simp_all
    · have hn : ¬ (s[0]? = some OP_DUP ∧ s[1]? = some OP_HASH160 ∧ s[2]? = some OP_DATA_20 ∧
          s[23]? = some OP_EQUALVERIFY ∧ s[24]? = some OP_CHECKSIG) := by
        intro ⟨a, b, c, d, e⟩
        exact hc ⟨h3.mpr ⟨a, b, c⟩, h2.mpr ⟨d, e⟩⟩
      have hn' : ¬ (s.length = 25 ∧ s.take 3 = [OP_DUP, OP_HASH160, OP_DATA_20] ∧
          s.drop 23 = [OP_EQUALVERIFY, OP_CHECKSIG]) := fun h => hc ⟨h.2.1, h.2.2⟩
      rw [if_neg hn']
      exact (decide_eq_false (fun h => hn h.2)).symm
  · have hn' : ¬ (s.length = 25 ∧ s.take 3 = [OP_DUP, OP_HASH160, OP_DATA_20] ∧
        s.drop 23 = [OP_EQUALVERIFY, OP_CHECKSIG]) := fun h => hl h.1
    rw [if_neg hn']
    simp [hl]

theorem isScriptHash_idx (s : List UInt8) : (isScriptHash s).isSome = isScriptHashIdx s := by
  unfold isScriptHash isScriptHashIdx
  by_cases hl : s.length = 23
  · have h2 := take2 s OP_HASH160 OP_DATA_20
    have h1 := drop_last1 s 22 OP_EQUAL hl
    by_cases hc : s.take 2 = [OP_HASH160, OP_DATA_20] ∧ s.drop 22 = [OP_EQUAL]
    · have := h2.mp hc.1; have := h1.mp hc.2
      simp_all
    · have hn : ¬ (s[0]? = some OP_HASH160 ∧ s[1]? = some OP_DATA_20 ∧ s[22]? = some OP_EQUAL) := by
        intro ⟨a, b, c⟩
        exact hc ⟨h2.mpr ⟨a, b⟩, h1.mpr c⟩
      have hn' : ¬ (s.length = 23 ∧ s.take 2 = [OP_HASH160, OP_DATA_20] ∧ s.drop 22 = [OP_EQUAL]) :=
        fun h => hc ⟨h.2.1, h.2.2⟩
      rw [if_neg hn']
      exact (decide_eq_false (fun h => hn h.2)).symm
  · have hn' : ¬ (s.length = 23 ∧ s.take 2 = [OP_HASH160, OP_DATA_20] ∧ s.drop 22 = [OP_EQUAL]) :=
      fun h => hl h.1
    rw [if_neg hn']
    simp [hl]

/-- the form conditions of `isPubKey` (everything except the curve validity call) in index form -/
theorem isPubKey_form_idx (s : List UInt8) :
    (decide (s.length = 35 ∧ s.take 1 = [OP_DATA_33] ∧ s.drop 34 = [OP_CHECKSIG] ∧
      ((s.drop 1).take 1 = [2] ∨ (s.drop 1).take 1 = [3])) = isPubKeyCompIdx s) ∧
    (decide (s.length = 67 ∧ s.take 1 = [OP_DATA_65] ∧ s.drop 66 = [OP_CHECKSIG] ∧
      (s.drop 1).take 1 = [4]) = isPubKeyUncompIdx s) := by
  have hd : ∀ a : UInt8, (s.drop 1).take 1 = [a] ↔ s[1]? = some a := by
    intro a; rw [take1, List.getElem?_drop]
  constructor
  · unfold isPubKeyCompIdx
    apply decide_eq_decide.mpr
    by_cases hl : s.length = 35
    · rw [take1, drop_last1 s 34 OP_CHECKSIG hl, hd, hd]
    · constructor <;> intro h <;> exact absurd h.1 hl
  · unfold isPubKeyUncompIdx
    apply decide_eq_decide.mpr
    by_cases hl : s.length = 67
    · rw [take1, drop_last1 s 66 OP_CHECKSIG hl, hd]
    · constructor <;> intro h <;> exact absurd h.1 hl

end Lemmas
end BV.C15
