/- C15 helper lemmas: amount compression. -/
import BV.C15.Model
namespace BV.C15.Lemmas
open BV.C15 BV.C15.Spec

theorem strip_spec (f a e : Nat) :
    ∃ k, k ≤ f ∧ stripZeros f a e = (a / 10 ^ k, e + k) ∧ a = a / 10 ^ k * 10 ^ k ∧
      (k < f → (a / 10 ^ k) % 10 ≠ 0) := by
  induction f generalizing a e with
  | zero => exact ⟨0, Nat.le_refl _, by simp [stripZeros], by simp, by omega⟩
  | succ f ih =>
    by_cases h : a % 10 = 0
    · obtain ⟨k, hk, hs, ha, hnz⟩ := ih (a / 10) (e + 1)
      refine ⟨k + 1, by omega, ?_, ?_, ?_⟩
      · rw [stripZeros, if_pos h, hs, Nat.div_div_eq_div_mul, Nat.pow_succ, Nat.mul_comm 10]
        congr 1; omega
      · have h1 : a = a / 10 * 10 := by omega
        rw [Nat.pow_succ, Nat.mul_comm (10 ^ k) 10, ← Nat.div_div_eq_div_mul]
        calc a = a / 10 * 10 := h1
          _ = a / 10 / 10 ^ k * 10 ^ k * 10 := by rw [← ha]
          _ = a / 10 / 10 ^ k * (10 * 10 ^ k) := by rw [Nat.mul_assoc, Nat.mul_comm (10 ^ k) 10]
      · intro hlt
        rw [Nat.pow_succ, Nat.mul_comm (10 ^ k) 10, ← Nat.div_div_eq_div_mul]
        exact hnz (by omega)
    · exact ⟨0, by omega, by simp [stripZeros, h], by simp, by intro _; simpa using h⟩

/-- The core arithmetic of the round trip, with the mantissa split as `m = 10 n + d`. -/
theorem decompress_core_lt9 (n d k : Nat) (hd1 : 1 ≤ d) (hd9 : d ≤ 9) (hk : k < 9) :
    decompressNat (1 + 10 * (9 * n + d - 1) + k) = (10 * n + d) * 10 ^ k := by
  unfold decompressNat
  have h0 : ¬ (1 + 10 * (9 * n + d - 1) + k = 0) := by omega
  rw [if_neg h0]
  have e1 : (1 + 10 * (9 * n + d - 1) + k - 1) % 10 = k := by omega
  have e2 : (1 + 10 * (9 * n + d - 1) + k - 1) / 10 = 9 * n + d - 1 := by omega
  simp only [e1, e2, hk, if_true]
  have e3 : (9 * n + d - 1) / 9 = n := by omega
  have e4 : (9 * n + d - 1) % 9 + 1 = d := by omega
  rw [e3, e4, Nat.mul_comm n 10]

theorem decompress_core_9 (m : Nat) (hm : 1 ≤ m) :
    decompressNat (10 + 10 * (m - 1)) = m * 10 ^ 9 := by
  unfold decompressNat
  have h0 : ¬ (10 + 10 * (m - 1) = 0) := by omega
  rw [if_neg h0]
  have e1 : (10 + 10 * (m - 1) - 1) % 10 = 9 := by omega
  have e2 : (10 + 10 * (m - 1) - 1) / 10 = m - 1 := by omega
  simp only [e1, e2]
  have : m - 1 + 1 = m := by omega
  simp [this]

/-- On unbounded naturals decompression inverts compression for EVERY amount. -/
theorem decompressNat_compressNat (a : Nat) : decompressNat (compressNat a) = a := by
  unfold compressNat
  by_cases ha0 : a = 0
  · subst ha0; simp [decompressNat]
  · rw [if_neg ha0]
    obtain ⟨k, hk, hs, ha, hnz⟩ := strip_spec 9 a 0
    simp only [hs, Nat.zero_add]
    by_cases hk9 : k < 9
    · rw [if_pos hk9]
      have hd := hnz hk9
      have := decompress_core_lt9 (a / 10 ^ k / 10) (a / 10 ^ k % 10) k (by omega) (by omega) hk9
      rw [this]
      have hm : 10 * (a / 10 ^ k / 10) + a / 10 ^ k % 10 = a / 10 ^ k := by omega
      rw [hm]; exact ha.symm
    · rw [if_neg hk9]
      have hk' : k = 9 := by omega
      subst hk'
      have hm : 1 ≤ a / 10 ^ 9 := by
        rcases Nat.eq_zero_or_pos (a / 10 ^ 9) with h | h
        · rw [h] at ha; omega
        · exact h
      rw [decompress_core_9 _ hm]; exact ha.symm

/-- No `uint64` overflow up to the bound. -/
theorem compressNat_lt (a : Nat) (h : a ≤ amountBound) : compressNat a < 2 ^ 64 := by
  unfold compressNat amountBound at *
  by_cases ha0 : a = 0
  · rw [if_pos ha0]; decide
  · rw [if_neg ha0]
    obtain ⟨k, hk, hs, ha, hnz⟩ := strip_spec 9 a 0
    simp only [hs, Nat.zero_add]
    by_cases hk0 : k = 0
    · subst hk0
      simp only [Nat.pow_zero, Nat.div_one] at *
      rw [if_pos (by decide)]
      omega
    · have h10 : 10 ≤ 10 ^ k := by
        calc 10 = 10 ^ 1 := by decide
          _ ≤ 10 ^ k := Nat.pow_le_pow_right (by decide) (by omega)
      have hm : a / 10 ^ k * 10 ≤ a := by
        calc a / 10 ^ k * 10 ≤ a / 10 ^ k * 10 ^ k := Nat.mul_le_mul_left _ h10
          _ = a := ha.symm
      split <;> omega

theorem amount_roundtrip (a : Nat) (h : a ≤ amountBound) :
    decompressTxOutAmount (compressTxOutAmount a) = a := by
  unfold decompressTxOutAmount compressTxOutAmount
  rw [Nat.mod_eq_of_lt (compressNat_lt a h), decompressNat_compressNat]
  apply Nat.mod_eq_of_lt
  unfold amountBound at h; omega

end BV.C15.Lemmas
