/- C15 helper lemmas: compressed txout, utxo entry, spent txout, spend journal round trips and sizes. -/
import BV.C15.LemmasScript
import BV.C15.LemmasAmt
import BV.C15.LemmasDec2
namespace BV.C15.Lemmas
open BV.C15 BV.C15.Spec

/-- amount as it comes back from the disk format (identity up to `amountBound`) -/
def _root_.BV.C15.rtAmount (a : Nat) : Nat := decompressTxOutAmount (compressTxOutAmount a)

theorem compress_lt (a : Nat) : compressTxOutAmount a < 2 ^ 64 := by
  unfold compressTxOutAmount; exact Nat.mod_lt _ (by decide)

theorem txout_size (C : Curve) (a : Nat) (s : List UInt8) :
    (putCompressedTxOut C a s).length = compressedTxOutSize C a s := by
  unfold putCompressedTxOut compressedTxOutSize
  rw [List.length_append, putVLQ_length, script_size]

theorem txout_rt (C : Curve) (hC : C.YRecovery) (a : Nat) (s : List UInt8) (hlen : s.length < 2 ^ 63)
    (tail : List UInt8) :
    decodeCompressedTxOut C (putCompressedTxOut C a s ++ tail) =
      .ok (rtAmount a, s, (putCompressedTxOut C a s).length) := by
  have R := script_rt C hC s hlen
  unfold putCompressedTxOut
  generalize hc : putCompressedScript C s = c at R
  have hvl := putVLQ_length (compressTxOutAmount a)
  have hcl : 1 ≤ c.length := by
    cases c with
    | nil => exact absurd rfl R.ne
    | cons x xs => simp
  unfold decodeCompressedTxOut
  rw [List.append_assoc, deserialize_putVLQ _ (compress_lt a)]
  simp only []
  rw [if_neg (by simp only [List.length_append, hvl]; omega)]
  rw [slice_to_end (by simp only [List.length_append, hvl]; omega)]
  simp only []
  have hdrop : (putVLQ (compressTxOutAmount a) ++ (c ++ tail)).drop (serializeSizeVLQ (compressTxOutAmount a)) = c ++ tail := by
    rw [← hvl, List.drop_left]
  rw [hdrop, R.sz tail]
  rw [if_neg (by simp only [List.length_append]; omega)]
  rw [slice_some (by omega) (by simp only [List.length_append, hvl]; omega), hdrop, Nat.add_sub_cancel_left,
    List.take_left]
  simp only [R.dec]
  rw [List.length_append, hvl]
  rfl

/-! ### header code -/

theorem header_decode (h : Int) (cb : Bool) (h1 : -(2 ^ 31 : Int) ≤ h) (h2 : h < 2 ^ 31) :
    headerCodeOf h cb < 2 ^ 64 ∧ toInt32 (headerCodeOf h cb / 2) = h ∧
      decide (headerCodeOf h cb % 2 = 1) = cb := by
  unfold headerCodeOf headerCode u64OfInt toInt32
  simp only []
  cases cb <;> simp only [if_true, if_false, Bool.false_eq_true] <;>
    (refine ⟨by omega, ?_, ?_⟩
     · split <;> omega
     · simp <;> omega)

theorem vlq_zero : putVLQ 0 = [0] := by
  rw [putVLQ_eq_spec]; simp [vlq, vlqPre]

theorem size_zero : serializeSizeVLQ 0 = 1 := size_small (by omega)

/-! ### utxo entry -/

def _root_.BV.C15.Txo.WF (t : Txo) : Prop := -(2 ^ 31 : Int) ≤ t.height ∧ t.height < 2 ^ 31 ∧ t.script.length < 2 ^ 63

def _root_.BV.C15.Txo.rt (t : Txo) : Txo := { t with amount := rtAmount t.amount }

theorem utxo_size (C : Curve) (e : Txo) :
    (serializeUtxoEntry C e).length = utxoEntrySerializeSize C e := by
  unfold serializeUtxoEntry utxoEntrySerializeSize
  rw [List.length_append, putVLQ_length, txout_size]

theorem txout_pos (C : Curve) (a : Nat) (s : List UInt8) : 1 ≤ (putCompressedTxOut C a s).length := by
  unfold putCompressedTxOut
  rw [List.length_append, putVLQ_length]
  have := size_pos (compressTxOutAmount a); omega

theorem utxo_rt (C : Curve) (hC : C.YRecovery) (e : Txo) (hw : e.WF) (tail : List UInt8) :
    deserializeUtxoEntry C (serializeUtxoEntry C e ++ tail) = .ok e.rt := by
  obtain ⟨h1, h2, h3⟩ := hw
  obtain ⟨c1, c2, c3⟩ := header_decode e.height e.coinbase h1 h2
  unfold serializeUtxoEntry deserializeUtxoEntry
  have hvl := putVLQ_length (headerCodeOf e.height e.coinbase)
  have hp := txout_pos C e.amount e.script
  rw [List.append_assoc, deserialize_putVLQ _ c1]
  simp only []
  rw [if_neg (by simp only [List.length_append, hvl]; omega)]
  rw [slice_to_end (by simp only [List.length_append, hvl]; omega)]
  simp only []
  rw [← hvl, List.drop_left, txout_rt C hC _ _ h3]
  simp only [c2, c3]
  rfl

/-! ### spent txout -/

theorem stxo_size (C : Curve) (t : Txo) :
    (putSpentTxOut C t).length = spentTxOutSerializeSize C t := by
  unfold putSpentTxOut spentTxOutSerializeSize
  rw [List.length_append, List.length_append, putVLQ_length, txout_size]
  split
  · rw [putVLQ_length]
  · rfl

theorem stxo_rt (C : Curve) (hC : C.YRecovery) (t : Txo) (hw : t.WF) (tail : List UInt8) :
    decodeSpentTxOut C (putSpentTxOut C t ++ tail) = .ok (t.rt, (putSpentTxOut C t).length) := by
  obtain ⟨h1, h2, h3⟩ := hw
  obtain ⟨c1, c2, c3⟩ := header_decode t.height t.coinbase h1 h2
  have hvl := putVLQ_length (headerCodeOf t.height t.coinbase)
  have hsp := size_pos (headerCodeOf t.height t.coinbase)
  have hp := txout_pos C t.amount t.script
  have htx := fun tl => txout_rt C hC t.amount t.script h3 tl
  unfold putSpentTxOut decodeSpentTxOut
  by_cases hh : t.height > 0
  · rw [if_pos hh, vlq_zero]
    rw [if_neg (by simp only [List.length_append, hvl]; omega)]
    rw [List.append_assoc, List.append_assoc, deserialize_putVLQ _ c1]
    simp only []
    rw [if_neg (by simp only [List.length_append, hvl, List.length_singleton]; omega)]
    rw [c2, if_pos hh]
    rw [slice_to_end (by simp only [List.length_append, hvl]; omega)]
    simp only []
    rw [← hvl, List.drop_left]
    rw [show ([0] ++ (putCompressedTxOut C t.amount t.script ++ tail)) =
        (0 : UInt8) :: (putCompressedTxOut C t.amount t.script ++ tail) from rfl]
    rw [deserialize_single 0 _ (by decide)]
    simp only []
    rw [if_neg (by simp only [List.length_append, List.length_cons]; omega)]
    simp only []
    rw [slice_to_end (by simp only [List.length_append, List.length_cons]; omega)]
    simp only []
    have hd : (putVLQ (headerCodeOf t.height t.coinbase) ++
        (0 : UInt8) :: (putCompressedTxOut C t.amount t.script ++ tail)).drop
          ((putVLQ (headerCodeOf t.height t.coinbase)).length + 1) =
        putCompressedTxOut C t.amount t.script ++ tail := by
      rw [← List.drop_drop, List.drop_left]; rfl
    rw [hd, htx tail]
    simp only [c3]
    congr 2
    simp only [List.length_append, List.length_singleton]
  · rw [if_neg hh]
    rw [if_neg (by simp only [List.length_append, hvl]; omega)]
    rw [List.append_nil, List.append_assoc, deserialize_putVLQ _ c1]
    simp only []
    rw [if_neg (by simp only [List.length_append, hvl]; omega)]
    rw [c2, if_neg hh]
    simp only []
    rw [slice_to_end (by simp only [List.length_append, hvl]; omega)]
    simp only []
    rw [← hvl, List.drop_left, htx tail]
    simp only [c3]
    congr 2
    simp only [List.length_append]

/-! ### spend journal -/

theorem stxos_rt (C : Curve) (hC : C.YRecovery) (l : List Txo) (hw : ∀ t ∈ l, t.WF) (tail : List UInt8) :
    decodeStxos C l.length ((l.map (putSpentTxOut C)).flatten ++ tail) = .ok (l.map Txo.rt) := by
  induction l with
  | nil => rfl
  | cons t l ih =>
    simp only [List.map_cons, List.flatten_cons, List.length_cons]
    unfold decodeStxos
    rw [List.append_assoc, stxo_rt C hC t (hw t (by simp))]
    simp only []
    rw [slice_to_end (by simp only [List.length_append]; omega), List.drop_left]
    simp only []
    rw [ih (fun t ht => hw t (by simp [ht]))]

theorem journal_size (C : Curve) (l : List Txo) :
    (serializeSpendJournalEntry C l).length = spendJournalSerializeSize C l := by
  unfold serializeSpendJournalEntry spendJournalSerializeSize
  rw [List.length_flatten, List.map_map, List.map_reverse, List.sum_reverse]
  congr 1
  apply List.map_congr_left
  intro t _
  exact stxo_size C t

theorem stxo_pos (C : Curve) (t : Txo) : 1 ≤ (putSpentTxOut C t).length := by
  unfold putSpentTxOut
  have := txout_pos C t.amount t.script
  simp only [List.length_append]; omega

theorem journal_rt (C : Curve) (hC : C.YRecovery) (l : List Txo) (hw : ∀ t ∈ l, t.WF)
    (shape : List Nat) (hs : shape.sum = l.length) :
    deserializeSpendJournalEntry C (serializeSpendJournalEntry C l) shape = .ok (l.map Txo.rt) := by
  unfold deserializeSpendJournalEntry serializeSpendJournalEntry
  simp only []
  cases l with
  | nil => simp [hs]
  | cons t l =>
    have hne : ¬ ((((t :: l).reverse.map (putSpentTxOut C)).flatten).length = 0) := by
      rw [List.reverse_cons, List.map_append, List.flatten_append, List.length_append]
      have := stxo_pos C t
      simp only [List.map_cons, List.map_nil, List.flatten_cons, List.flatten_nil, List.append_nil]
      omega
    rw [if_neg hne, hs]
    have := stxos_rt C hC (t :: l).reverse (fun t' ht' => hw t' (List.mem_reverse.mp ht')) []
    rw [List.append_nil, List.length_reverse] at this
    rw [this]
    simp only []
    rw [← List.map_reverse, List.reverse_reverse]

end BV.C15.Lemmas
