/-
C15 Model, legacy part: `deserializeUtxoEntryV0` of blockchain/upgrade.go (the version-0 utxo set
format `<version><height><header code><unspentness bitmap>[<compressed txouts>,...]`), core-only.
-/
import BV.C15.Model
namespace BV.C15
open Spec

/-- output numbers flagged in bitmap byte `i` (bits from the least significant), `2 + i*8 + j` in uint32 -/
def bitmapIndexes (i : Nat) (b : UInt8) : List Nat :=
  (List.range 8).filterMap (fun j => if (b.toNat / 2 ^ j) % 2 = 1 then some ((2 + i * 8 + j) % 2 ^ 32) else none)

def bitmapAll : Nat → List UInt8 → List Nat
  | _, [] => []
  | i, b :: r => bitmapIndexes i b ++ bitmapAll (i + 1) r

/-- decode one compressed txout per output index, one after the other starting at `off` -/
def decodeV0Outs (C : Curve) (ser : List UInt8) (height : Int) (cb : Bool) :
    List Nat → Nat → Outcome (List (Nat × Txo))
  | [], _ => .ok []
  | idx :: rest, off =>
    match slice ser off ser.length with
    | none => .panic
    | some r =>
      match decodeCompressedTxOut C r with
      | .err => .err
      | .panic => .panic
      | .ok (a, s, n) =>
        match decodeV0Outs C ser height cb rest (off + n) with
        | .ok l => .ok ((idx, ⟨a, s, height, cb⟩) :: l)
        | .err => .err
        | .panic => .panic

/-- `deserializeUtxoEntryV0`: (output index, entry) in decoding order (strictly increasing indexes for
any input shorter than 2^29 bitmap bytes, which is how the Go map is printed). -/
def deserializeUtxoEntryV0 (C : Curve) (ser : List UInt8) : Outcome (List (Nat × Txo)) :=
  let v1 := deserializeVLQ ser
  let off1 := v1.2
  if off1 ≥ ser.length then .err else
  match slice ser off1 ser.length with
  | none => .panic
  | some r1 =>
  let v2 := deserializeVLQ r1
  let off2 := off1 + v2.2
  if off2 ≥ ser.length then .err else
  match slice ser off2 ser.length with
  | none => .panic
  | some r2 =>
  let v3 := deserializeVLQ r2
  let off3 := off2 + v3.2
  if off3 ≥ ser.length then .err else
  let code := v3.1
  let cb : Bool := code % 2 = 1
  let o0 : Bool := code / 2 % 2 = 1
  let o1 : Bool := code / 4 % 2 = 1
  let nb := code / 8 + (if !o0 && !o1 then 1 else 0)
  if ser.length - off3 < nb then .err else
  let nbt := nb % 2 ^ 32          -- the loop counter is a uint32
  match slice ser off3 (off3 + nbt) with
  | none => .panic                -- serialized[offset] out of range
  | some bm =>
    let idxs := (if o0 then [0] else []) ++ (if o1 then [1] else []) ++ bitmapAll 0 bm
    decodeV0Outs C ser (toInt32 v2.1) cb idxs (off3 + nbt)

/-- `outpointKey`: the utxo set database key `<32-byte hash><VLQ output index>`. -/
def outpointKey (hash : List UInt8) (index : Nat) : List UInt8 := copyInto 32 hash ++ putVLQ index

/-- `readBlockTree` (legacy v1 block index migration, upgrade.go) on one row
`<12-byte block location><80-byte header>…`: the header bytes and its prev-block field, or an error for
a row shorter than 92 bytes (after the `fix:` commit; the slice panicked before). -/
def readV1BlockRow (row : List UInt8) : Outcome (List UInt8 × List UInt8) :=
  if row.length < 92 then .err else
  match slice row 12 92 with
  | none => .panic
  | some hb => .ok (hb, (hb.drop 4).take 32)

/-- `blockIndexKey`: `<uint32 big-endian height><32-byte block hash>` (so the bucket iterates by height). -/
def blockIndexKey (hash : List UInt8) (height : Nat) : List UInt8 :=
  (leBytes 4 height).reverse ++ copyInto 32 hash

end BV.C15
