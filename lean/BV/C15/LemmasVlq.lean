/- C15 helper lemmas: VLQ. -/
import BV.C15.Model
namespace BV.C15.Lemmas
open BV.C15 BV.C15.Spec

/-! ### unfolding equations -/

theorem vlqPre_small {n : Nat} (h : n ≤ 127) : vlqPre n = [] := by
  rw [vlqPre]; simp [h]

theorem vlqPre_big {n : Nat} (h : ¬ n ≤ 127) :
    vlqPre n = vlqPre (n / 128 - 1) ++ [UInt8.ofNat ((n / 128 - 1) % 128 + 128)] := by
  rw [vlqPre]; simp [h]

theorem size_small {n : Nat} (h : n ≤ 127) : serializeSizeVLQ n = 1 := by
  rw [serializeSizeVLQ]; simp [h]

theorem size_big {n : Nat} (h : ¬ n ≤ 127) : serializeSizeVLQ n = serializeSizeVLQ (n / 128 - 1) + 1 := by
  rw [serializeSizeVLQ]; simp [h]

theorem lsb_small {n : Nat} (f : Bool) (h : n ≤ 127) :
    putVLQLsb n f = [UInt8.ofNat (n % 128 + (if f then 0 else 128))] := by
  rw [putVLQLsb]; simp [h]

theorem lsb_big {n : Nat} (f : Bool) (h : ¬ n ≤ 127) :
    putVLQLsb n f = UInt8.ofNat (n % 128 + (if f then 0 else 128)) :: putVLQLsb (n / 128 - 1) false := by
  rw [putVLQLsb]; simp [h]

/-! ### putVLQ = documented format -/

/-- The non-first part of the LSB-first loop, reversed, is the continuation prefix followed by the
continuation byte of the current group. -/
theorem lsb_false_reverse (n : Nat) :
    (putVLQLsb n false).reverse = vlqPre n ++ [UInt8.ofNat (n % 128 + 128)] := by
  induction n using Nat.strongRecOn with
  | _ n ih =>
    by_cases h : n ≤ 127
    · rw [lsb_small false h, vlqPre_small h]; simp
    · rw [lsb_big false h, vlqPre_big h, List.reverse_cons, ih (n / 128 - 1) (by omega)]
      simp

theorem putVLQ_eq_spec (n : Nat) : putVLQ n = vlq n := by
  unfold putVLQ vlq
  by_cases h : n ≤ 127
  · rw [lsb_small true h, vlqPre_small h]; simp
  · rw [lsb_big true h, vlqPre_big h, List.reverse_cons, lsb_false_reverse]
    simp

theorem vlqPre_length (n : Nat) : (vlqPre n).length + 1 = serializeSizeVLQ n := by
  induction n using Nat.strongRecOn with
  | _ n ih =>
    by_cases h : n ≤ 127
    · rw [vlqPre_small h, size_small h]; rfl
    · rw [vlqPre_big h, size_big h, List.length_append, ← ih (n / 128 - 1) (by omega)]; rfl

theorem vlq_length (n : Nat) : (vlq n).length = serializeSizeVLQ n := by
  unfold vlq; rw [List.length_append, ← vlqPre_length]; rfl

theorem putVLQ_length (n : Nat) : (putVLQ n).length = serializeSizeVLQ n := by
  rw [putVLQ_eq_spec, vlq_length]

theorem size_pos (n : Nat) : 1 ≤ serializeSizeVLQ n := by
  rw [← vlqPre_length]; omega

/-- a `uint64` needs at most ten bytes -/
theorem size_le_of_lt (n : Nat) (k : Nat) (h : n < 128 ^ (k + 1)) : serializeSizeVLQ n ≤ k + 1 := by
  induction k generalizing n with
  | zero => rw [size_small (by omega)]; omega
  | succ k ih =>
    by_cases h1 : n ≤ 127
    · rw [size_small h1]; omega
    · rw [size_big h1]
      have : n / 128 - 1 < 128 ^ (k + 1) := by
        have : n / 128 < 128 ^ (k + 1) := by
          apply Nat.div_lt_of_lt_mul; rw [Nat.pow_succ] at h; omega
        omega
      have := ih _ this; omega

theorem size_le_ten (n : Nat) (h : n < 2 ^ 64) : serializeSizeVLQ n ≤ 10 :=
  size_le_of_lt n 9 (by have : (2:Nat) ^ 64 ≤ 128 ^ 10 := by decide
                        omega)

/-! ### decoder -/

theorem ofNat_toNat_lt (k : Nat) (h : k < 256) : (UInt8.ofNat k).toNat = k := by
  rw [UInt8.toNat_ofNat']; omega

/-- Decoding the continuation prefix of `n` from accumulator 0 leaves `n / 128` in the accumulator. -/
theorem dec_pre (n : Nat) (hn : n < 2 ^ 64) (sz : Nat) (rest : List UInt8) :
    deserializeVLQAux 0 sz (vlqPre n ++ rest) = deserializeVLQAux (n / 128) (sz + (vlqPre n).length) rest := by
  induction n using Nat.strongRecOn generalizing sz rest with
  | _ n ih =>
    by_cases h : n ≤ 127
    · rw [vlqPre_small h]
      have : n / 128 = 0 := by omega
      simp [this]
    · rw [vlqPre_big h, List.append_assoc, ih (n / 128 - 1) (by omega) (by omega)]
      simp only [List.singleton_append, List.length_append, List.length_singleton]
      rw [deserializeVLQAux]
      have hb : (UInt8.ofNat ((n / 128 - 1) % 128 + 128)).toNat = (n / 128 - 1) % 128 + 128 :=
        ofNat_toNat_lt _ (by omega)
      simp only [hb]
      have h1 : ¬ ((n / 128 - 1) % 128 + 128 < 128) := by omega
      rw [if_neg h1]
      have h2 : ((n / 128 - 1) / 128 * 128 % 2 ^ 64 + ((n / 128 - 1) % 128 + 128) % 128 + 1) % 2 ^ 64 = n / 128 := by
        omega
      rw [h2, Nat.add_assoc]

theorem deserialize_vlq (n : Nat) (hn : n < 2 ^ 64) (rest : List UInt8) :
    deserializeVLQ (vlq n ++ rest) = (n, serializeSizeVLQ n) := by
  unfold deserializeVLQ vlq
  rw [List.append_assoc, dec_pre n hn]
  simp only [List.singleton_append]
  rw [deserializeVLQAux]
  have hb : (UInt8.ofNat (n % 128)).toNat = n % 128 := ofNat_toNat_lt _ (by omega)
  simp only [hb]
  have h1 : n % 128 < 128 := by omega
  rw [if_pos h1, ← vlqPre_length]
  congr 1
  · omega
  · omega

theorem deserialize_putVLQ (n : Nat) (hn : n < 2 ^ 64) (rest : List UInt8) :
    deserializeVLQ (putVLQ n ++ rest) = (n, serializeSizeVLQ n) := by
  rw [putVLQ_eq_spec]; exact deserialize_vlq n hn rest

/-! ### decoder: totality facts (bytes read ≤ length, value < 2^64, prefix-determined) -/

theorem aux_size_le (acc sz : Nat) (l : List UInt8) :
    sz ≤ (deserializeVLQAux acc sz l).2 ∧ (deserializeVLQAux acc sz l).2 ≤ sz + l.length := by
  induction l generalizing acc sz with
  | nil => simp [deserializeVLQAux]
  | cons b r ih =>
    rw [deserializeVLQAux]
    try dsimp only
    split
    · simp
    · have := ih ((acc * 128 % 2 ^ 64 + b.toNat % 128 + 1) % 2 ^ 64) (sz + 1)
      simp only [List.length_cons]; omega

theorem bytesRead_le (l : List UInt8) : (deserializeVLQ l).2 ≤ l.length := by
  have := aux_size_le 0 0 l; unfold deserializeVLQ; omega

theorem aux_size_pos (acc sz : Nat) (l : List UInt8) (h : l ≠ []) :
    sz + 1 ≤ (deserializeVLQAux acc sz l).2 := by
  cases l with
  | nil => exact absurd rfl h
  | cons b r =>
    rw [deserializeVLQAux]; try dsimp only
    split
    · simp
    · exact (aux_size_le _ _ _).1

theorem bytesRead_pos (l : List UInt8) (h : l ≠ []) : 1 ≤ (deserializeVLQ l).2 := by
  have := aux_size_pos 0 0 l h; unfold deserializeVLQ; omega

theorem aux_val_lt (acc sz : Nat) (l : List UInt8) (h : acc < 2 ^ 64) :
    (deserializeVLQAux acc sz l).1 < 2 ^ 64 + 128 := by
  induction l generalizing acc sz with
  | nil => simp [deserializeVLQAux]; omega
  | cons b r ih =>
    rw [deserializeVLQAux]; try dsimp only
    split
    · simp; omega
    · exact ih _ _ (Nat.mod_lt _ (by decide))

/-- Reading a VLQ only looks at the bytes it reports as read. -/
theorem aux_take (acc sz : Nat) (l : List UInt8) (k : Nat)
    (hk : (deserializeVLQAux acc sz l).2 ≤ sz + k) :
    deserializeVLQAux acc sz (l.take k) = deserializeVLQAux acc sz l := by
  induction l generalizing acc sz k with
  | nil => simp
  | cons b r ih =>
    cases k with
    | zero =>
      have := aux_size_pos acc sz (b :: r) (by simp); omega
    | succ k =>
      rw [List.take_succ_cons, deserializeVLQAux, deserializeVLQAux]
      try dsimp only
      split
      · rfl
      · rename_i hb
        apply ih
        rw [deserializeVLQAux] at hk
        simp only [hb, if_false] at hk
        omega

theorem deserialize_take (l : List UInt8) (k : Nat) (hk : (deserializeVLQ l).2 ≤ k) :
    deserializeVLQ (l.take k) = deserializeVLQ l := by
  unfold deserializeVLQ at *; exact aux_take 0 0 l k (by omega)

end BV.C15.Lemmas
