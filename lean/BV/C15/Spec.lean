/-
C15 Spec: the documented on-disk formats, stated directly (core-only).

* VLQ: MSB-first base-128 with the "+1 offset", defined by recursion on the value (`Spec.vlq`).
* Amount compression: the decimal exponent/mantissa split on unbounded naturals.
* Compressed script / txout / utxo entry / stxo / journal / best state / block row: byte layouts as
  documented in blockchain/compress.go and blockchain/chainio.go.
-/
namespace BV.C15.Spec

/-! ### VLQ -/

/-- The continuation bytes (all with the high bit set), most significant first. -/
def vlqPre (n : Nat) : List UInt8 :=
  if h : n ≤ 127 then [] else
    vlqPre (n / 128 - 1) ++ [UInt8.ofNat ((n / 128 - 1) % 128 + 128)]
termination_by n
decreasing_by omega

/-- The documented VLQ encoding: continuation bytes then the final byte without the high bit. -/
def vlq (n : Nat) : List UInt8 := vlqPre n ++ [UInt8.ofNat (n % 128)]

/-- Value of a byte string read as an (unbounded) VLQ with offset: the inverse of `vlq`. -/
def vlqValue : Nat → List UInt8 → Nat
  | acc, [] => acc
  | acc, b :: rest =>
    let acc' := acc * 128 + b.toNat % 128
    if b.toNat < 128 then acc' else vlqValue (acc' + 1) rest

/-! ### amount compression on unbounded naturals -/

/-- Strip up to `fuel` trailing decimal zeros: returns (mantissa, exponent). -/
def stripZeros : Nat → Nat → Nat → Nat × Nat
  | 0, a, e => (a, e)
  | f + 1, a, e => if a % 10 = 0 then stripZeros f (a / 10) (e + 1) else (a, e)

/-- `1 + 10*(9*n + d-1) + e` for `e < 9`, `10 + 10*(n-1)` for `e = 9`, `0 ↦ 0` — no overflow. -/
def compressNat (a : Nat) : Nat :=
  if a = 0 then 0 else
  let me := stripZeros 9 a 0
  if me.2 < 9 then 1 + 10 * (9 * (me.1 / 10) + me.1 % 10 - 1) + me.2
  else 10 + 10 * (me.1 - 1)

def decompressNat (x : Nat) : Nat :=
  if x = 0 then 0 else
  let y := x - 1
  let e := y % 10
  let q := y / 10
  let n := if e < 9 then (q / 9) * 10 + (q % 9 + 1) else q + 1
  n * 10 ^ e

/-- The exact largest bound below which every amount compresses without `uint64` overflow. -/
def amountBound : Nat := 2049638230412172402

def maxSatoshi : Nat := 2100000000000000

/-! ### protocol constants -/
def cstPayToPubKeyHash : Nat := 0
def cstPayToScriptHash : Nat := 1
def cstPayToPubKeyComp2 : Nat := 2
def cstPayToPubKeyComp3 : Nat := 3
def cstPayToPubKeyUncomp4 : Nat := 4
def cstPayToPubKeyUncomp5 : Nat := 5
def numSpecialScripts : Nat := 6

def OP_DUP : UInt8 := 0x76
def OP_HASH160 : UInt8 := 0xa9
def OP_DATA_20 : UInt8 := 0x14
def OP_EQUALVERIFY : UInt8 := 0x88
def OP_CHECKSIG : UInt8 := 0xac
def OP_EQUAL : UInt8 := 0x87
def OP_DATA_33 : UInt8 := 0x21
def OP_DATA_65 : UInt8 := 0x41

/-! ### script classification (the documented special forms) -/

/-- The foreign curve code (`btcec.ParsePubKey` + `SerializeUncompressed`) as a parameter:
`parse k = some u` iff `k` (33- or 65-byte serialized key) is a valid public key, `u` being its 65-byte
uncompressed serialization. -/
structure Curve where
  parse : List UInt8 → Option (List UInt8)

/-- The group-theoretic fact the uncompressed pay-to-pubkey form relies on (hypothesis of the script
round-trip theorems, true of secp256k1): a valid uncompressed key 04‖X‖Y is recovered from X and the
parity of Y. -/
def Curve.YRecovery (C : Curve) : Prop :=
  ∀ k : List UInt8, k.length = 65 → k.take 1 = [4] → (C.parse k).isSome →
    C.parse ((2 ||| ((k.drop 64).headD 0 &&& 1)) :: (k.drop 1).take 32) = some k

inductive ScriptClass where
  | p2pkh (hash : List UInt8)
  | p2sh (hash : List UInt8)
  | p2pkComp (key : List UInt8)     -- 33-byte key 02/03‖X, valid
  | p2pkUncomp (key : List UInt8)   -- 65-byte key 04‖X‖Y, valid
  | other
  deriving Repr, DecidableEq

def classify (C : Curve) (s : List UInt8) : ScriptClass :=
  if s.length = 25 ∧ s.take 3 = [OP_DUP, OP_HASH160, OP_DATA_20] ∧ s.drop 23 = [OP_EQUALVERIFY, OP_CHECKSIG] then
    .p2pkh ((s.drop 3).take 20)
  else if s.length = 23 ∧ s.take 2 = [OP_HASH160, OP_DATA_20] ∧ s.drop 22 = [OP_EQUAL] then
    .p2sh ((s.drop 2).take 20)
  else if s.length = 35 ∧ s.take 1 = [OP_DATA_33] ∧ s.drop 34 = [OP_CHECKSIG] ∧
      ((s.drop 1).take 1 = [2] ∨ (s.drop 1).take 1 = [3]) ∧ (C.parse ((s.drop 1).take 33)).isSome then
    .p2pkComp ((s.drop 1).take 33)
  else if s.length = 67 ∧ s.take 1 = [OP_DATA_65] ∧ s.drop 66 = [OP_CHECKSIG] ∧
      (s.drop 1).take 1 = [4] ∧ (C.parse ((s.drop 1).take 65)).isSome then
    .p2pkUncomp ((s.drop 1).take 65)
  else .other

/-- The documented compressed script format. -/
def compressedScript (C : Curve) (s : List UInt8) : List UInt8 :=
  match classify C s with
  | .p2pkh h => 0 :: h
  | .p2sh h => 1 :: h
  | .p2pkComp k => k
  | .p2pkUncomp k => (4 ||| ((k.drop 64).headD 0 &&& 1)) :: (k.drop 1).take 32
  | .other => vlq (s.length + numSpecialScripts) ++ s

/-- `<compressed amount VLQ><compressed script>` -/
def compressedTxOut (C : Curve) (amount : Nat) (s : List UInt8) : List UInt8 :=
  vlq (compressNat amount) ++ compressedScript C s

/-- header code = height << 1 | coinbase, for a height given as its `uint64` conversion. -/
def headerCode (heightU64 : Nat) (coinbase : Bool) : Nat :=
  (heightU64 * 2) % 2 ^ 64 + (if coinbase then 1 else 0)

end BV.C15.Spec
