/- C15 line-protocol driver (core-only). Answers from the Model (run with the concrete secp256k1 `Curve`);
the round-trip observations (`amtrt`, `scrrt`) are answered from the Spec (the value encoded). -/
import BV.Common.Hex
import BV.Common.Sha256
import BV.C15.Model
import BV.C15.ModelV0
import BV.C15.Secp
namespace BV.C15.Driver
open BV.Hex BV.C15 BV.C15.Spec

def C : Curve := Secp.curve

def b01 (b : Bool) : String := if b then "1" else "0"

def parseBool? (s : String) : Option Bool :=
  if s == "1" then some true else if s == "0" then some false else none

/-- amount:script:height:cb -/
def showTxo (t : Txo) : String :=
  s!"{t.amount}:{listToHexTok t.script}:{t.height}:{b01 t.coinbase}"

def parseTxo? (s : String) : Option Txo :=
  match s.splitOn ":" with
  | [a, sc, h, cb] => do
    let a ← a.toNat?
    let sc ← hexToList? sc
    let h ← h.toInt?
    let cb ← parseBool? cb
    pure ⟨a, sc, h, cb⟩
  | _ => none

def parseTxos? (s : String) : Option (List Txo) :=
  if s == "-" then some [] else (s.splitOn ";").mapM parseTxo?

def parseNats? (s : String) : Option (List Nat) :=
  if s == "-" then some [] else (s.splitOn ",").mapM (fun t => t.toNat?)

def showTxos (l : List Txo) : String :=
  if l.isEmpty then "-" else ";".intercalate (l.map showTxo)

def handle : List String → String
  | ["vlq", n] => match n.toNat? with
    | some n => s!"{listToHex (putVLQ n)} {serializeSizeVLQ n}"
    | none => "bad-op"
  | ["unvlq", h] => match hexToList? h with
    | some b => let r := deserializeVLQ b; s!"{r.1} {r.2}"
    | none => "bad-op"
  | ["amtc", n] => match n.toNat? with
    | some n => toString (compressTxOutAmount n)
    | none => "bad-op"
  | ["amtd", n] => match n.toNat? with
    | some n => toString (decompressTxOutAmount n)
    | none => "bad-op"
  | ["amtrt", n] => match n.toNat? with
    | some n => toString n      -- Spec: the amount encoded is the amount decoded
    | none => "bad-op"
  | ["scr", h] => match hexToList? h with
    | some s => let c := putCompressedScript C s
      s!"{listToHexTok c} {c.length} {compressedScriptSize C s}"
    | none => "bad-op"
  | ["scrrt", h] => match hexToList? h with
    | some s => listToHexTok s  -- Spec: the script encoded is the script decoded
    | none => "bad-op"
  | ["txo", a, h] => match a.toNat?, hexToList? h with
    | some a, some s => let c := putCompressedTxOut C a s
      s!"{listToHexTok c} {c.length} {compressedTxOutSize C a s}"
    | _, _ => "bad-op"
  | ["untxo", h] => match hexToList? h with
    | some b => match decodeCompressedTxOut C b with
      | .ok (a, s, n) => s!"ok {a} {listToHexTok s} {n}"
      | .err => "err"
      | .panic => "panic"
    | none => "bad-op"
  | ["utxo", t, spent] => match parseTxo? t, parseBool? spent with
    | some t, some sp => if sp then "nil" else
        let c := serializeUtxoEntry C t
        s!"{listToHexTok c} {utxoEntrySerializeSize C t}"
    | _, _ => "bad-op"
  | ["unutxo", h] => match hexToList? h with
    | some b => match deserializeUtxoEntry C b with
      | .ok t => s!"ok {showTxo t}"
      | .err => "err"
      | .panic => "panic"
    | none => "bad-op"
  | ["stxo", t] => match parseTxo? t with
    | some t => let c := putSpentTxOut C t
      s!"{listToHexTok c} {c.length} {spentTxOutSerializeSize C t}"
    | none => "bad-op"
  | ["unstxo", h] => match hexToList? h with
    | some b => match decodeSpentTxOut C b with
      | .ok (t, n) => s!"ok {showTxo t} {n}"
      | .err => "err"
      | .panic => "panic"
    | none => "bad-op"
  | ["journal", l] => match parseTxos? l with
    | some l => listToHexTok (serializeSpendJournalEntry C l)
    | none => "bad-op"
  | ["unjournal", h, shape] => match hexToList? h, parseNats? shape with
    | some b, some sh => match deserializeSpendJournalEntry C b sh with
      | .ok l => s!"ok {showTxos l}"
      | .err => "err"
      | .assertErr => "assert"
      | .panic => "panic"
    | _, _ => "bad-op"
  | ["best", hash, height, total, ws] => match hexToList? hash, height.toNat?, total.toNat?, hexToNat? ws with
    | some hash, some ht, some tt, some ws =>
      if hash.length ≠ 32 then "bad-op" else listToHex (serializeBestChainState ⟨hash, ht, tt, ws⟩)
    | _, _, _, _ => "bad-op"
  | ["unbest", h] => match hexToList? h with
    | some b => match deserializeBestChainState b with
      | .ok st => s!"ok {listToHex st.hash} {st.height} {st.totalTxns} {natToHex st.workSum}"
      | .err => "err"
      | .panic => "panic"
    | none => "bad-op"
  | ["row", ver, prev, merkle, time, bits, nonce, status, height] =>
    match ver.toNat?, hexToList? prev, hexToList? merkle, time.toNat?, bits.toNat?, nonce.toNat?, status.toNat?, height.toNat? with
    | some ver, some prev, some merkle, some time, some bits, some nonce, some status, some height =>
      if prev.length ≠ 32 ∨ merkle.length ≠ 32 then "bad-op" else
      let hd : Header := ⟨ver, prev, merkle, time, bits, nonce⟩
      let key := natBE height 4 ++ BV.Sha256.hash2List (serializeHeader hd)
      s!"{listToHex key} {listToHex (serializeBlockRow hd (UInt8.ofNat status))}"
    | _, _, _, _, _, _, _, _ => "bad-op"
  | ["unrow", h] => match hexToList? h with
    | some b => match deserializeBlockRow b with
      | .ok (hd, st) => s!"ok {hd.version} {listToHex hd.prev} {listToHex hd.merkle} {hd.time} {hd.bits} {hd.nonce} {st.toNat}"
      | .err => "err"
      | .panic => "panic"
    | none => "bad-op"
  | ["unv0", h] => match hexToList? h with
    | some b => match deserializeUtxoEntryV0 C b with
      | .ok l => if l.isEmpty then "ok -" else "ok " ++ ";".intercalate (l.map (fun p => s!"{p.1}={showTxo p.2}"))
      | .err => "err"
      | .panic => "panic"
    | none => "bad-op"
  | ["v1row", h] => match hexToList? h with
    | some b => match readV1BlockRow b with
      | .ok (hb, prev) => s!"ok {listToHex (BV.Sha256.hash2List hb)} {listToHex prev}"
      | .err => "err"
      | .panic => "panic"
    | none => "bad-op"
  | ["opkey", hash, idx] => match hexToList? hash, idx.toNat? with
    | some hash, some idx => if hash.length ≠ 32 then "bad-op" else listToHex (outpointKey hash idx)
    | _, _ => "bad-op"
  | _ => "bad-op"

end BV.C15.Driver
