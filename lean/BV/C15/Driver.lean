/- C15 line-protocol driver (core-only). Stub until the property's model lands. -/
namespace BV.C15.Driver

def handle : List String → String
  | _ => "unimplemented"

end BV.C15.Driver
