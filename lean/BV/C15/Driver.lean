/- C15 line-protocol driver (core-only). Answers from the Model (run with the concrete secp256k1 `Curve`);
the round-trip observations (`amtrt`, `scrrt`) are answered from the Spec (the value encoded). -/
import BV.Common.Hex
import BV.Common.Sha256
import BV.C15.Model
import BV.C15.ModelV0
import BV.C15.Secp
namespace BV.C15.Driver
open BV.Hex BV.C15 BV.C15.Spec

def C : Curve := Secp.curve

def b01 (b : Bool) : String := if b then "1" else "0"

def parseBool? (s : String) : Option Bool :=
  if s == "1" then some true else if s == "0" then some false else none

/-- amount:script:height:cb -/
def showTxo (t : Txo) : String :=
  s!"{t.amount}:{listToHexTok t.script}:{t.height}:{b01 t.coinbase}"

def parseTxo? (s : String) : Option Txo :=
  match s.splitOn ":" with
  | [a, sc, h, cb] => do
    let a ← a.toNat?
    let sc ← hexToList? sc
    let h ← h.toInt?
    let cb ← parseBool? cb
    pure ⟨a, sc, h, cb⟩
  | _ => none

def parseTxos? (s : String) : Option (List Txo) :=
  if s == "-" then some [] else (s.splitOn ";").mapM parseTxo?

def parseNats? (s : String) : Option (List Nat) :=
  if s == "-" then some [] else (s.splitOn ",").mapM (fun t => t.toNat?)

def showTxos (l : List Txo) : String :=
  if l.isEmpty then "-" else ";".intercalate (l.map showTxo)

/-! ### end-to-end chain op: the fold of a linear chain (which outputs exist, which were spent by which
block), every surviving entry / journal / best state pushed through the model's encode→decode. -/

abbrev CRef := Nat × Nat × Nat

def parseRef? (s : String) : Option CRef :=
  match s.splitOn "." with
  | [h, t, o] => do pure ((← h.toNat?), (← t.toNat?), (← o.toNat?))
  | _ => none

def parseCOut? (s : String) : Option (Nat × List UInt8) :=
  match s.splitOn "." with
  | [a, sc] => do pure ((← a.toNat?), (← hexToList? sc))
  | _ => none

def parseCTx? (s : String) : Option (List CRef × List (Nat × List UInt8)) :=
  match s.splitOn ";" with
  | [ins, outs] => do
    let i ← if ins == "-" then some [] else (ins.splitOn ",").mapM parseRef?
    let o ← (outs.splitOn ",").mapM parseCOut?
    pure (i, o)
  | _ => none

def parseCBlock? (s : String) : Option (List (List CRef × List (Nat × List UInt8))) :=
  (s.splitOn "/").mapM parseCTx?

/-- txscript.IsUnspendable on the generated lines: OP_RETURN first or longer than MaxScriptSize. -/
def unspendable (s : List UInt8) : Bool := s.head? == some 0x6a || s.length > 10000

abbrev Created := List (CRef × Option Txo)

def spendRef (st : Created) (r : CRef) : Created × Option Txo :=
  match st.find? (fun p => p.1 == r) with
  | some (_, some t) => (st.map (fun p => if p.1 == r then (p.1, none) else p), some t)
  | _ => (st, none)

/-- one transaction: spend the inputs in order, then add the outputs -/
def applyTx (st : Created) (h t : Nat) (tx : List CRef × List (Nat × List UInt8)) : Created × List Txo :=
  let (st1, stxos) := tx.1.foldl (fun (acc : Created × List Txo) r =>
      let (s', o) := spendRef acc.1 r
      (s', match o with | some x => acc.2 ++ [x] | none => acc.2)) (st, [])
  let outs := (List.range tx.2.length).zip tx.2 |>.map (fun (o, (a, sc)) =>
      (((h, t, o) : CRef), if unspendable sc then none else some (⟨a, sc, (h : Int), t == 0⟩ : Txo)))
  (st1 ++ outs, stxos)

def applyBlock (st : Created) (h : Nat) (blk : List (List CRef × List (Nat × List UInt8))) :
    Created × List Txo × List Nat :=
  let idx := (List.range blk.length).zip blk
  idx.foldl (fun (acc : Created × List Txo × List Nat) (t, tx) =>
      let (s', stx) := applyTx acc.1 h t tx
      if t == 0 then (s', acc.2.1, acc.2.2) else (s', acc.2.1 ++ stx, acc.2.2 ++ [tx.1.length])) (st, [], [])

def chainAnswer (blocks : List (List (List CRef × List (Nat × List UInt8)))) : String :=
  let idx := (List.range blocks.length).zip blocks
  let (st, journals) := idx.foldl (fun (acc : Created × List String) (i, blk) =>
      let (s', stx, shape) := applyBlock acc.1 (i + 1) blk
      let j := match deserializeSpendJournalEntry C (serializeSpendJournalEntry C stx) shape with
        | .ok l => showTxos l
        | _ => "err"
      (s', acc.2 ++ [j])) ([], [])
  let total := 1 + (blocks.map List.length).sum
  let best := match deserializeBestChainState (serializeBestChainState ⟨List.replicate 32 0, blocks.length, total, 0⟩) with
    | .ok b => s!"best={b.height},{b.totalTxns},tipok"
    | _ => "best=err"
  let utxos := st.map (fun p => match p.2 with
    | none => "x"
    | some e => match deserializeUtxoEntry C (serializeUtxoEntry C e) with
      | .ok t => showTxo t
      | _ => "err")
  let u := if utxos.isEmpty then "utxo=-" else "utxo=" ++ ",".intercalate utxos
  let j := if journals.isEmpty then "j=-" else "j=" ++ "|".intercalate journals
  " ".intercalate [best, u, j, "blk=ok", "stable=ok"]

def handle1 : List String → String
  | "chain" :: _cfg :: blocks => match blocks.mapM parseCBlock? with
    | some bs => chainAnswer bs
    | none => "bad-op"
  | ["vlq", n] => match n.toNat? with
    | some n => s!"{listToHex (putVLQ n)} {serializeSizeVLQ n}"
    | none => "bad-op"
  | ["unvlq", h] => match hexToList? h with
    | some b => let r := deserializeVLQ b; s!"{r.1} {r.2}"
    | none => "bad-op"
  | ["amtc", n] => match n.toNat? with
    | some n => toString (compressTxOutAmount n)
    | none => "bad-op"
  | ["amtd", n] => match n.toNat? with
    | some n => toString (decompressTxOutAmount n)
    | none => "bad-op"
  | ["amtrt", n] => match n.toNat? with
    | some n => toString n      -- Spec: the amount encoded is the amount decoded
    | none => "bad-op"
  | ["scr", h] => match hexToList? h with
    | some s => let c := putCompressedScript C s
      s!"{listToHexTok c} {c.length} {compressedScriptSize C s}"
    | none => "bad-op"
  | ["scrrt", h] => match hexToList? h with
    | some s => listToHexTok s  -- Spec: the script encoded is the script decoded
    | none => "bad-op"
  | ["txo", a, h] => match a.toNat?, hexToList? h with
    | some a, some s => let c := putCompressedTxOut C a s
      s!"{listToHexTok c} {c.length} {compressedTxOutSize C a s}"
    | _, _ => "bad-op"
  | ["untxo", h] => match hexToList? h with
    | some b => match decodeCompressedTxOut C b with
      | .ok (a, s, n) => s!"ok {a} {listToHexTok s} {n}"
      | .err => "err"
      | .panic => "panic"
    | none => "bad-op"
  | ["utxo", t, spent] => match parseTxo? t, parseBool? spent with
    | some t, some sp => if sp then "nil" else
        let c := serializeUtxoEntry C t
        s!"{listToHexTok c} {utxoEntrySerializeSize C t}"
    | _, _ => "bad-op"
  | ["unutxo", h] => match hexToList? h with
    | some b => match deserializeUtxoEntry C b with
      | .ok t => s!"ok {showTxo t}"
      | .err => "err"
      | .panic => "panic"
    | none => "bad-op"
  | ["stxo", t] => match parseTxo? t with
    | some t => let c := putSpentTxOut C t
      s!"{listToHexTok c} {c.length} {spentTxOutSerializeSize C t}"
    | none => "bad-op"
  | ["unstxo", h] => match hexToList? h with
    | some b => match decodeSpentTxOut C b with
      | .ok (t, n) => s!"ok {showTxo t} {n}"
      | .err => "err"
      | .panic => "panic"
    | none => "bad-op"
  | ["journal", l] => match parseTxos? l with
    | some l => listToHexTok (serializeSpendJournalEntry C l)
    | none => "bad-op"
  | ["unjournal", h, shape] => match hexToList? h, parseNats? shape with
    | some b, some sh => match deserializeSpendJournalEntry C b sh with
      | .ok l => s!"ok {showTxos l}"
      | .err => "err"
      | .assertErr => "err"   -- which error type is returned is not property-level
      | .panic => "panic"
    | _, _ => "bad-op"
  | ["best", hash, height, total, ws] => match hexToList? hash, height.toNat?, total.toNat?, hexToNat? ws with
    | some hash, some ht, some tt, some ws =>
      if hash.length ≠ 32 then "bad-op" else listToHex (serializeBestChainState ⟨hash, ht, tt, ws⟩)
    | _, _, _, _ => "bad-op"
  | ["unbest", h] => match hexToList? h with
    | some b => match deserializeBestChainState b with
      | .ok st => s!"ok {listToHex st.hash} {st.height} {st.totalTxns} {natToHex st.workSum}"
      | .err => "err"
      | .panic => "panic"
    | none => "bad-op"
  | ["row", ver, prev, merkle, time, bits, nonce, status, height] =>
    match ver.toNat?, hexToList? prev, hexToList? merkle, time.toNat?, bits.toNat?, nonce.toNat?, status.toNat?, height.toNat? with
    | some ver, some prev, some merkle, some time, some bits, some nonce, some status, some height =>
      if prev.length ≠ 32 ∨ merkle.length ≠ 32 then "bad-op" else
      let hd : Header := ⟨ver, prev, merkle, time, bits, nonce⟩
      let key := blockIndexKey (BV.Sha256.hash2List (serializeHeader hd)) height
      s!"{listToHex key} {listToHex (serializeBlockRow hd (UInt8.ofNat status))}"
    | _, _, _, _, _, _, _, _ => "bad-op"
  | ["unrow", h] => match hexToList? h with
    | some b => match deserializeBlockRow b with
      | .ok (hd, st) => s!"ok {hd.version} {listToHex hd.prev} {listToHex hd.merkle} {hd.time} {hd.bits} {hd.nonce} {st.toNat}"
      | .err => "err"
      | .panic => "panic"
    | none => "bad-op"
  | ["unv0", h] => match hexToList? h with
    | some b => match deserializeUtxoEntryV0 C b with
      | .ok l => if l.isEmpty then "ok -" else "ok " ++ ";".intercalate (l.map (fun p => s!"{p.1}={showTxo p.2}"))
      | .err => "err"
      | .panic => "panic"
    | none => "bad-op"
  | ["bestwrap"] => "ok"   -- theorem bestState_wrap_witness_ok (a 4 GiB list cannot be materialised here)
  | ["v1row", h] => match hexToList? h with
    | some b => match readV1BlockRow b with
      | .ok (hb, prev) => s!"ok {listToHex (BV.Sha256.hash2List hb)} {listToHex prev}"
      | .err => "err"
      | .panic => "panic"
    | none => "bad-op"
  | ["opkey", hash, idx] => match hexToList? hash, idx.toNat? with
    | some hash, some idx => if hash.length ≠ 32 then "bad-op" else listToHex (outpointKey hash idx)
    | _, _ => "bad-op"
  | _ => "bad-op"

/-- `par`: independent sub-lines (tokens joined by `~`, sub-lines by `|`), answers joined by `|`. -/
def handle : List String → String
  | ["par", arg] => "|".intercalate ((arg.splitOn "|").map (fun s => handle1 (s.splitOn "~")))
  | l => handle1 l

end BV.C15.Driver
