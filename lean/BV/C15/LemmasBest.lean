/- C15: the former 4 GiB counterexample of deserializeBestChainState decodes to a value after the fix. -/
import BV.C15.LemmasDec2
namespace BV.C15.Lemmas
open BV.C15 BV.C15.Spec

/-- 44 zero bytes, work-sum length 0xffffffff, then 2^32-1 bytes: 48 + 2^32 - 1 bytes in all. -/
def bestStateWrapWitness : List UInt8 :=
  List.replicate 44 0 ++ ([0xff, 0xff, 0xff, 0xff] ++ List.replicate (2 ^ 32 - 1) 0)

theorem bestState_wrap_ok : ∃ st, deserializeBestChainState bestStateWrapWitness = .ok st := by
  have hlen : bestStateWrapWitness.length = 48 + (2 ^ 32 - 1) := by
    unfold bestStateWrapWitness
    rw [List.length_append, List.length_append, List.length_replicate, List.length_replicate]
    rfl
  have hwl : (bestStateWrapWitness.drop 44).take (48 - 44) = [0xff, 0xff, 0xff, 0xff] := by
    unfold bestStateWrapWitness
    rw [List.drop_left' List.length_replicate]
    exact List.take_left' rfl
  unfold deserializeBestChainState
  rw [if_neg (by rw [hlen]; omega), slice_some (by omega) (by rw [hlen]; omega),
    slice_some (by omega) (by rw [hlen]; omega), slice_some (by omega) (by rw [hlen]; omega),
    slice_some (by omega) (by rw [hlen]; omega), slice_to_end (by rw [hlen]; omega)]
  simp only []
  rw [hwl]
  have hv : leVal [0xff, 0xff, 0xff, 0xff] = 2 ^ 32 - 1 := by decide
  rw [hv, List.length_drop, hlen, if_neg (by omega),
    slice_some (by omega) (by rw [List.length_drop, hlen]; omega)]
  exact ⟨_, rfl⟩

end BV.C15.Lemmas
