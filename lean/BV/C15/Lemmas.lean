/- C15 helper lemmas (aggregator). -/
import BV.C15.LemmasVlq
import BV.C15.LemmasAmt
import BV.C15.LemmasDec
import BV.C15.LemmasDec2
import BV.C15.LemmasScript
import BV.C15.LemmasRec
import BV.C15.LemmasFix
import BV.C15.LemmasV0
import BV.C15.LemmasAmt2
import BV.C15.LemmasIdx
import BV.C15.LemmasMore
import BV.C15.LemmasBest
import BV.C15.LemmasMore2
import BV.C15.LemmasLegacy
import BV.C15.LemmasCanon
