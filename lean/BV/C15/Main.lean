import BV.Common.Loop
import BV.C15.Driver
/-! `drv_c15`: one case per input line `C15 <op> <args…>`, one canonical result line back.
Imports only core-only modules so that it links as a native executable. -/
def main : IO Unit := BV.Loop.run "C15" BV.C15.Driver.handle
