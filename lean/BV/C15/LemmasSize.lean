/-
C15 — closed form and monotonicity of the VLQ size calculator (`serializeSizeVLQ`).
-/
import BV.C15.Model
namespace BV.C15.LemmasSize
open BV.C15
theorem size_small {n : Nat} (h : n ≤ 127) : serializeSizeVLQ n = 1 := by
  rw [serializeSizeVLQ]; simp [h]
theorem size_big {n : Nat} (h : ¬ n ≤ 127) : serializeSizeVLQ n = serializeSizeVLQ (n / 128 - 1) + 1 := by
  rw [serializeSizeVLQ]; simp [h]
theorem serializeSizeVLQ_pos (n : Nat) : 1 ≤ serializeSizeVLQ n := by
  by_cases h : n ≤ 127
  · rw [size_small h]; omega
  · rw [size_big h]; omega
theorem serializeSizeVLQ_mono : ∀ (m n : Nat), n ≤ m → serializeSizeVLQ n ≤ serializeSizeVLQ m := by
  intro m
  induction m using Nat.strongRecOn with
  | _ m ih =>
    intro n hnm
    by_cases hn : n ≤ 127
    · rw [size_small hn]; exact serializeSizeVLQ_pos m
    · have hm : ¬ m ≤ 127 := by omega
      rw [size_big hn, size_big hm]
      apply Nat.add_le_add_right
      apply ih (m / 128 - 1) (by omega)
      have := Nat.div_le_div_right (c := 128) hnm
      omega
/-- largest value whose VLQ encoding has `k+1` bytes: 0x7f, 0x407f, 0x20407f, … -/
def vlqMax : Nat → Nat
  | 0 => 127
  | k + 1 => (vlqMax k + 1) * 128 + 127
theorem size_vlqMax : ∀ k, serializeSizeVLQ (vlqMax k) = k + 1 ∧ serializeSizeVLQ (vlqMax k + 1) = k + 2
  | 0 => by
    refine ⟨size_small (by decide), ?_⟩
    rw [size_big (by decide)]; rw [size_small (by decide)]
  | k + 1 => by
    obtain ⟨h1, h2⟩ := size_vlqMax k
    have e1 : ((vlqMax k + 1) * 128 + 127) / 128 - 1 = vlqMax k := by omega
    have e2 : ((vlqMax k + 1) * 128 + 127 + 1) / 128 - 1 = vlqMax k + 1 := by omega
    constructor
    · simp only [vlqMax]; rw [size_big (by omega), e1, h1]
    · simp only [vlqMax]; rw [size_big (by omega), e2, h2]
/-- closed form of the size calculator: a value needs at most `k+1` bytes iff it is ≤ `vlqMax k` -/
theorem size_le_iff (n k : Nat) : serializeSizeVLQ n ≤ k + 1 ↔ n ≤ vlqMax k := by
  constructor
  · intro h
    apply Decidable.byContradiction
    intro hn
    have := serializeSizeVLQ_mono n (vlqMax k + 1) (by omega)
    rw [(size_vlqMax k).2] at this
    omega
  · intro h
    have := serializeSizeVLQ_mono (vlqMax k) n h
    rw [(size_vlqMax k).1] at this
    exact this
example : vlqMax 1 = 0x407f ∧ vlqMax 2 = 0x20407f ∧ vlqMax 5 = 0x4081020407f := by decide
end BV.C15.LemmasSize
