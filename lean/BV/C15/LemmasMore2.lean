/- C15 helper lemmas (hardening round, part 2): injectivity of keys, best state, block rows. -/
import BV.C15.LemmasMore
import BV.C15.LemmasFix
import BV.C15.ModelV0
namespace BV.C15.Lemmas
open BV.C15 BV.C15.Spec

theorem outpointKey_injective (h h' : List UInt8) (i i' : Nat) (hl : h.length = 32) (hl' : h'.length = 32)
    (e : outpointKey h i = outpointKey h' i') : h = h' ∧ i = i' := by
  unfold outpointKey at e
  rw [copyInto_exact 32 _ hl, copyInto_exact 32 _ hl', putVLQ_eq_spec, putVLQ_eq_spec] at e
  have hh : h = h' := by
    have := congrArg (List.take 32) e
    rwa [List.take_left' hl, List.take_left' hl'] at this
  subst hh
  exact ⟨rfl, vlq_injective i i' (List.append_cancel_left e)⟩

theorem bestState_injective (s s' : BestState) (hw : s.WF) (hw' : s'.WF)
    (e : serializeBestChainState s = serializeBestChainState s') : s = s' := by
  have h1 := bestState_rt s hw
  have h2 := bestState_rt s' hw'
  rw [e, h2] at h1
  exact (Outcome.ok.inj h1).symm

theorem blockRow_injective (h h' : Header) (st st' : UInt8) (hw : h.WF) (hw' : h'.WF)
    (e : serializeBlockRow h st = serializeBlockRow h' st') : h = h' ∧ st = st' := by
  have h1 := blockRow_rt h st hw []
  have h2 := blockRow_rt h' st' hw' []
  rw [List.append_nil] at h1 h2
  rw [e, h2] at h1
  have := Outcome.ok.inj h1
  exact ⟨(Prod.mk.inj this).1.symm, (Prod.mk.inj this).2.symm⟩

theorem journal_shape_only_sum (C : Curve) (ser : List UInt8) (s1 s2 : List Nat) (h : s1.sum = s2.sum) :
    deserializeSpendJournalEntry C ser s1 = deserializeSpendJournalEntry C ser s2 := by
  unfold deserializeSpendJournalEntry
  simp only [h]

theorem blockIndexKey_injective (h h' : List UInt8) (n n' : Nat) (hl : h.length = 32) (hl' : h'.length = 32)
    (hn : n < 2 ^ 32) (hn' : n' < 2 ^ 32) (e : blockIndexKey h n = blockIndexKey h' n') : h = h' ∧ n = n' := by
  unfold blockIndexKey at e
  rw [copyInto_exact 32 _ hl, copyInto_exact 32 _ hl'] at e
  have l1 : ((leBytes 4 n).reverse).length = 4 := by rw [List.length_reverse, leBytes_length]
  have l2 : ((leBytes 4 n').reverse).length = 4 := by rw [List.length_reverse, leBytes_length]
  have e1 : (leBytes 4 n).reverse = (leBytes 4 n').reverse := by
    have := congrArg (List.take 4) e
    rwa [List.take_left' l1, List.take_left' l2] at this
  have e2 : h = h' := by rw [e1] at e; exact List.append_cancel_left e
  have e3 : leBytes 4 n = leBytes 4 n' := by
    have := congrArg List.reverse e1
    rwa [List.reverse_reverse, List.reverse_reverse] at this
  have := congrArg leVal e3
  rw [leVal_leBytes, leVal_leBytes, Nat.mod_eq_of_lt (by omega : n < 256 ^ 4),
    Nat.mod_eq_of_lt (by omega : n' < 256 ^ 4)] at this
  exact ⟨e2, this⟩

theorem blockIndexKey_length (h : List UInt8) (n : Nat) (hl : h.length = 32) : (blockIndexKey h n).length = 36 := by
  unfold blockIndexKey
  rw [List.length_append, List.length_reverse, leBytes_length, copyInto_exact 32 _ hl, hl]

end BV.C15.Lemmas
