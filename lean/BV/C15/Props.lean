/-
C15 property theorems: persisted chain-state records are lossless, format-stable and robust.
Only statements of the property + non-vacuity / golden-vector examples live here; helper lemmas are in
Lemmas*.lean.  `C : Curve` is the foreign secp256k1 code (btcec.ParsePubKey + SerializeUncompressed) as a
parameter; every theorem holds for every `C` (hypotheses on `C` are stated where needed).
-/
import BV.C15.Lemmas
import BV.C15.LemmasSize
import BV.Generated.C15
namespace BV.C15
open Spec

/-! ### VLQ -/

/-- `putVLQ` (LSB-first loop + in-place reversal) produces exactly the documented MSB-first base-128
encoding with the +1 offset, for every natural number. -/
theorem putVLQ_eq_spec (n : Nat) : putVLQ n = vlq n := Lemmas.putVLQ_eq_spec n

/-- `serializeSizeVLQ` equals the encoded length. -/
theorem vlq_size (n : Nat) : (putVLQ n).length = serializeSizeVLQ n := Lemmas.putVLQ_length n

/-- Round trip for every `uint64`, with arbitrary trailing data; the bytes-read count is the size. -/
theorem vlq_roundtrip (n : Nat) (hn : n < 2 ^ 64) (rest : List UInt8) :
    deserializeVLQ (putVLQ n ++ rest) = (n, serializeSizeVLQ n) := Lemmas.deserialize_putVLQ n hn rest

/-- The size calculator is monotone: a larger value never gets a shorter encoding. -/
theorem vlq_size_monotone (n m : Nat) (h : n ≤ m) : serializeSizeVLQ n ≤ serializeSizeVLQ m :=
  LemmasSize.serializeSizeVLQ_mono m n h

/-- Closed form of the size calculator, for every natural number and every length: a value needs at most
`k+1` bytes iff it is at most `vlqMax k` (0x7f, 0x407f, 0x20407f, 0x1020407f, …) — hence, with `vlq_size`,
the encoded length of every value is determined by these thresholds alone. -/
theorem vlq_size_closed_form (n k : Nat) : serializeSizeVLQ n ≤ k + 1 ↔ n ≤ LemmasSize.vlqMax k :=
  LemmasSize.size_le_iff n k

/-- Both sides of every threshold: `vlqMax k` takes `k+1` bytes, `vlqMax k + 1` takes `k+2`. -/
theorem vlq_size_boundaries (k : Nat) :
    serializeSizeVLQ (LemmasSize.vlqMax k) = k + 1 ∧ serializeSizeVLQ (LemmasSize.vlqMax k + 1) = k + 2 :=
  LemmasSize.size_vlqMax k

/-- the thresholds are the documented ones (compress.go's table of example encodings) -/
example : LemmasSize.vlqMax 0 = 127 ∧ LemmasSize.vlqMax 1 = 16511 ∧ LemmasSize.vlqMax 2 = 2113663 ∧
    LemmasSize.vlqMax 5 = 0x4081020407f := by decide

/-- A `uint64` takes at most ten bytes. -/
theorem vlq_size_le_ten (n : Nat) (hn : n < 2 ^ 64) : serializeSizeVLQ n ≤ 10 := Lemmas.size_le_ten n hn

/-- Decoder totality: never reads more than it is given, reads at least one byte of non-empty data. -/
theorem vlq_decode_total (l : List UInt8) :
    (deserializeVLQ l).2 ≤ l.length ∧ (l ≠ [] → 1 ≤ (deserializeVLQ l).2) :=
  ⟨Lemmas.bytesRead_le l, Lemmas.bytesRead_pos l⟩

/-- The decoder depends only on the bytes it reports as read. -/
theorem vlq_decode_prefix (l : List UInt8) (k : Nat) (hk : (deserializeVLQ l).2 ≤ k) :
    deserializeVLQ (l.take k) = deserializeVLQ l := Lemmas.deserialize_take l k hk

/-- The model's decoded value is always a `uint64`. -/
theorem vlq_decode_u64 (l : List UInt8) : (deserializeVLQ l).1 < 2 ^ 64 := Lemmas.deserializeVLQ_lt l

/-- "each integer can be represented in exactly one way, and each representation stands for exactly one
integer": the unbounded decoder of the Spec inverts `vlq` on every natural number, so `vlq` is injective. -/
theorem vlq_injective (n m : Nat) (h : vlq n = vlq m) : n = m := Lemmas.vlq_injective n m h

/-- …and each representation stands for exactly one integer: every well-formed VLQ byte string (bytes ≥ 0x80
followed by one byte < 0x80, `Lemmas.Terminated`) is exactly the encoding of the value it decodes to — there
are no redundant (over-long, zero-padded) encodings in the unbounded scheme. -/
theorem vlq_canonical (l : List UInt8) (ht : Lemmas.Terminated l) : vlq (vlqValue 0 l) = l :=
  Lemmas.vlq_canonical l ht

example : Lemmas.Terminated [0x80, 0xfe, 0x7f] := by
  unfold Lemmas.Terminated Lemmas.Terminated Lemmas.Terminated; decide

/-- No encoding is a proper prefix of another: a concatenation of VLQs splits in exactly one way
(what lets the non-self-describing records be decoded). -/
theorem vlq_prefix_free (n m : Nat) (hn : n < 2 ^ 64) (hm : m < 2 ^ 64) (r r' : List UInt8)
    (h : vlq n ++ r = vlq m ++ r') : n = m ∧ r = r' := Lemmas.vlq_prefix_free n m hn hm r r' h

-- golden vectors from the format comment in compress.go
example : vlq 0 = [0x00] := by simp [vlq, vlqPre]
example : vlq 127 = [0x7f] := by simp [vlq, vlqPre]
example : vlq 128 = [0x80, 0x00] := by simp [vlq, vlqPre]
example : vlq 129 = [0x80, 0x01] := by simp [vlq, vlqPre]
example : vlq 255 = [0x80, 0x7f] := by simp [vlq, vlqPre]
example : vlq 256 = [0x81, 0x00] := by simp [vlq, vlqPre]
example : vlq 16511 = [0xff, 0x7f] := by simp [vlq, vlqPre]
example : vlq 16512 = [0x80, 0x80, 0x00] := by simp [vlq, vlqPre]
-- NOTE (observation, not part of the property): the comments call the encoding order-preserving under
-- byte-wise comparison; that holds within one encoded length only: 16511 ↦ ff 7f sorts AFTER 16512 ↦ 80 80 00.
example : vlq 32895 = [0x80, 0xff, 0x7f] := by simp [vlq, vlqPre]
example : vlq 2113663 = [0xff, 0xff, 0x7f] := by simp [vlq, vlqPre]
example : vlq 270549119 = [0xff, 0xff, 0xff, 0x7f] := by simp [vlq, vlqPre]
example : vlq (2 ^ 64 - 1) = [0x80, 0xfe, 0xfe, 0xfe, 0xfe, 0xfe, 0xfe, 0xfe, 0xfe, 0x7f] := by
  simp [vlq, vlqPre]
example : deserializeVLQ [0x80, 0xfe, 0xfe, 0xfe, 0xfe, 0xfe, 0xfe, 0xfe, 0xfe, 0x7f] = (2 ^ 64 - 1, 10) := by decide
example : deserializeVLQ [0xff, 0xff, 0x7f, 0x55] = (2113663, 3) := by decide

/-! ### amounts -/

/-- On unbounded naturals the documented compression is inverted by decompression for EVERY amount. -/
theorem amount_roundtrip_nat (a : Nat) : decompressNat (compressNat a) = a :=
  Lemmas.decompressNat_compressNat a

/-- …and compression inverts decompression: the compressed form is a bijection on ℕ, every value is the
code of exactly one amount (no redundant or invalid encodings). -/
theorem amount_bijection_nat (x : Nat) : compressNat (decompressNat x) = x :=
  Lemmas.compressNat_decompressNat x

/-- No `uint64` overflow up to the bound, hence the model (with wrap-around) equals the spec there. -/
theorem amount_no_overflow (a : Nat) (h : a ≤ amountBound) : compressTxOutAmount a = compressNat a := by
  unfold compressTxOutAmount; exact Nat.mod_eq_of_lt (Lemmas.compressNat_lt a h)

/-- Round trip in `uint64` arithmetic for every amount up to `amountBound` = 2049638230412172402
(976 × MaxSatoshi).  Partial w.r.t. the property ("every 64-bit amount"): see `amount_roundtrip_full_fails`. -/
theorem amount_roundtrip_partial (a : Nat) (h : a ≤ amountBound) :
    decompressTxOutAmount (compressTxOutAmount a) = a := Lemmas.amount_roundtrip a h

/-- F-C15-b: the round trip does NOT hold for every 64-bit amount (witness 2^64-1, which decodes
as 2049638230412172324). -/
theorem amount_roundtrip_full_fails :
    ¬ ∀ a, a < 2 ^ 64 → decompressTxOutAmount (compressTxOutAmount a) = a := by
  intro h
  have := h (2 ^ 64 - 1) (by decide)
  revert this; decide

/-- The bound is exact: the very next amount overflows and does not round-trip. -/
theorem amount_bound_exact :
    compressNat (amountBound + 1) ≥ 2 ^ 64 ∧
    decompressTxOutAmount (compressTxOutAmount (amountBound + 1)) ≠ amountBound + 1 := by decide

/-- The bound covers every valid amount with a wide margin. -/
theorem amount_bound_covers_maxSatoshi : 976 * maxSatoshi ≤ amountBound := by decide

example : (2100000000000000 : Nat) ≤ amountBound := by decide
-- golden vectors from the format comment in compress.go
example : compressTxOutAmount 0 = 0 := by decide
example : compressTxOutAmount 1000 = 4 := by decide
example : compressTxOutAmount 10000 = 5 := by decide
example : compressTxOutAmount 12345678 = 111111101 := by decide
-- NOTE: the comment in compress.go lists `50000000 -> 47`; the code (and Bitcoin Core) give 48
-- (e = 7, d = 5: 1 + 10*4 + 7); 47 is the code for 5000000.  A typo in the comment, not in the format.
example : compressTxOutAmount 50000000 = 48 := by decide
example : compressTxOutAmount 5000000 = 47 := by decide
example : compressTxOutAmount 100000000 = 9 := by decide
example : compressTxOutAmount 500000000 = 49 := by decide
example : compressTxOutAmount 1000000000 = 10 := by decide
example : decompressTxOutAmount 111111101 = 12345678 := by decide
example : decompressTxOutAmount (compressTxOutAmount (2 ^ 64 - 1)) = 2049638230412172324 := by decide

/-! ### compressed scripts

`C.YRecovery` is the explicit group hypothesis (a valid uncompressed key 04‖X‖Y is recovered by parsing
(02|parity Y)‖X); `s.length < 2^63` is the Go run-time invariant for slice lengths. -/

/-- The recognisers of the Model (take/drop equalities) are the same predicates as Go's
`len(script) == n && script[i] == OP_X && …` index comparisons (`isPubKey…`: the form part; the curve
validity call is the `Curve` parameter). -/
theorem recognisers_index_form (s : List UInt8) :
    (isPubKeyHash s).isSome = isPubKeyHashIdx s ∧ (isScriptHash s).isSome = isScriptHashIdx s ∧
    (decide (s.length = 35 ∧ s.take 1 = [OP_DATA_33] ∧ s.drop 34 = [OP_CHECKSIG] ∧
      ((s.drop 1).take 1 = [2] ∨ (s.drop 1).take 1 = [3])) = isPubKeyCompIdx s) ∧
    (decide (s.length = 67 ∧ s.take 1 = [OP_DATA_65] ∧ s.drop 66 = [OP_CHECKSIG] ∧
      (s.drop 1).take 1 = [4]) = isPubKeyUncompIdx s) :=
  ⟨Lemmas.isPubKeyHash_idx s, Lemmas.isScriptHash_idx s, (Lemmas.isPubKey_form_idx s).1, (Lemmas.isPubKey_form_idx s).2⟩

/-- `putCompressedScript` writes exactly the documented format (special forms 0–5 / VLQ(len+6)‖script). -/
theorem script_format (C : Curve) (s : List UInt8) (h : s.length + 6 < 2 ^ 64) :
    putCompressedScript C s = compressedScript C s := Lemmas.script_fmt C s h

/-- `compressedScriptSize` equals the encoded length, for every script and every curve. -/
theorem script_size_eq_length (C : Curve) (s : List UInt8) :
    (putCompressedScript C s).length = compressedScriptSize C s := Lemmas.script_size C s

/-- Every script (all six special forms with valid keys, P2PK forms with INVALID keys, everything else)
decompresses to itself; the size decoder reports exactly the encoded length whatever follows. -/
theorem script_roundtrip (C : Curve) (hC : C.YRecovery) (s : List UInt8) (hlen : s.length < 2 ^ 63)
    (tail : List UInt8) :
    decompressScript C (putCompressedScript C s) = some s ∧
    decodeCompressedScriptSize (putCompressedScript C s ++ tail) = (putCompressedScript C s).length :=
  have R := Lemmas.script_rt C hC s hlen
  ⟨R.dec, R.sz tail⟩

/-- The hypothesis is satisfiable (trivially by a curve with no valid uncompressed key; the
correspondence check runs the real secp256k1 code on valid and invalid points). -/
example : (⟨fun _ => none⟩ : Curve).YRecovery := by
  intro k _ _ h; cases h

/-! ### compressed txout, utxo entry, spent txout, spend journal

Amounts come back as `rtAmount a = decompress (compress a)`, which is `a` for every `a ≤ amountBound`
(`amount_roundtrip_partial`; F-C15-b beyond).  `Txo.WF`: height is an `int32` (negative ones included),
script shorter than 2^63. -/

theorem rtAmount_eq (a : Nat) (h : a ≤ amountBound) : rtAmount a = a := Lemmas.amount_roundtrip a h

theorem txout_format (C : Curve) (a : Nat) (s : List UInt8) (ha : a ≤ amountBound) (h : s.length + 6 < 2 ^ 64) :
    putCompressedTxOut C a s = compressedTxOut C a s := Lemmas.txout_fmt C a s ha h

theorem txout_size_eq_length (C : Curve) (a : Nat) (s : List UInt8) :
    (putCompressedTxOut C a s).length = compressedTxOutSize C a s := Lemmas.txout_size C a s

theorem txout_roundtrip (C : Curve) (hC : C.YRecovery) (a : Nat) (s : List UInt8) (hlen : s.length < 2 ^ 63)
    (tail : List UInt8) :
    decodeCompressedTxOut C (putCompressedTxOut C a s ++ tail) =
      .ok (rtAmount a, s, (putCompressedTxOut C a s).length) := Lemmas.txout_rt C hC a s hlen tail

/-- header code = height<<1 | coinbase decodes back for every `int32` height and both flags. -/
theorem headerCode_roundtrip (h : Int) (cb : Bool) (h1 : -(2 ^ 31 : Int) ≤ h) (h2 : h < 2 ^ 31) :
    headerCodeOf h cb < 2 ^ 64 ∧ toInt32 (headerCodeOf h cb / 2) = h ∧ decide (headerCodeOf h cb % 2 = 1) = cb :=
  Lemmas.header_decode h cb h1 h2

/-- utxo entry bytes are `<VLQ header code><compressed txout>` as documented. -/
theorem utxoEntry_format (C : Curve) (e : Txo) :
    serializeUtxoEntry C e = vlq (headerCode (u64OfInt e.height) e.coinbase) ++ putCompressedTxOut C e.amount e.script := by
  unfold serializeUtxoEntry headerCodeOf; rw [Lemmas.putVLQ_eq_spec]

theorem utxoEntry_size_eq_length (C : Curve) (e : Txo) :
    (serializeUtxoEntry C e).length = utxoEntrySerializeSize C e := Lemmas.utxo_size C e

theorem utxoEntry_roundtrip (C : Curve) (hC : C.YRecovery) (e : Txo) (hw : e.WF) (tail : List UInt8) :
    deserializeUtxoEntry C (serializeUtxoEntry C e ++ tail) = .ok e.rt := Lemmas.utxo_rt C hC e hw tail

/-- spent txout bytes are `<VLQ header code>[<reserved 0x00> iff height > 0]<compressed txout>`. -/
theorem stxo_format (C : Curve) (t : Txo) :
    putSpentTxOut C t = vlq (headerCode (u64OfInt t.height) t.coinbase) ++ (if t.height > 0 then [0] else []) ++
      putCompressedTxOut C t.amount t.script := by
  unfold putSpentTxOut headerCodeOf; rw [Lemmas.putVLQ_eq_spec, Lemmas.vlq_zero]

/-- the journal entry is the concatenation of the stxos, last spent first; nothing for an empty list. -/
theorem journal_format (C : Curve) (l : List Txo) :
    serializeSpendJournalEntry C l = (l.reverse.map (putSpentTxOut C)).flatten ∧
    serializeSpendJournalEntry C [] = [] := ⟨rfl, rfl⟩

theorem stxo_size_eq_length (C : Curve) (t : Txo) :
    (putSpentTxOut C t).length = spentTxOutSerializeSize C t := Lemmas.stxo_size C t

/-- Spent txout incl. the legacy reserved byte (present iff height > 0) round-trips, with trailing data. -/
theorem stxo_roundtrip (C : Curve) (hC : C.YRecovery) (t : Txo) (hw : t.WF) (tail : List UInt8) :
    decodeSpentTxOut C (putSpentTxOut C t ++ tail) = .ok (t.rt, (putSpentTxOut C t).length) :=
  Lemmas.stxo_rt C hC t hw tail

/-- Databases written by the legacy v1 spend-journal format stay readable: there the slot after the header
code holds `VLQ(version of the containing transaction)` of any length (today a single 0x00); the decoder
parses and skips it whatever its value (seeded change C15-d replaced the parse by `offset++`). -/
theorem stxo_legacy_roundtrip (C : Curve) (hC : C.YRecovery) (t : Txo) (hw : t.WF) (hh : t.height > 0)
    (version : Nat) (hv : version < 2 ^ 64) (tail : List UInt8) :
    decodeSpentTxOut C (Lemmas.putSpentTxOutLegacy C t version ++ tail) =
      .ok (t.rt, (Lemmas.putSpentTxOutLegacy C t version).length) :=
  Lemmas.stxo_legacy_rt C hC t hw hh version hv tail

/-- …and so does a whole legacy journal entry with any mix of versions, for every transaction shape. -/
theorem journal_legacy_roundtrip (C : Curve) (hC : C.YRecovery) (l : List (Txo × Nat))
    (hw : ∀ tv ∈ l, tv.1.WF ∧ tv.2 < 2 ^ 64) (shape : List Nat) (hs : shape.sum = l.length) :
    deserializeSpendJournalEntry C ((l.reverse.map (Lemmas.putSpentTxOutAny C)).flatten) shape =
      .ok (l.map (fun tv => tv.1.rt)) := Lemmas.journal_legacy_rt C hC l hw shape hs

/-- version 300 (two-byte VLQ 0x81 0x2c) in the reserved slot of the chainio.go stxo example -/
example : decodeSpentTxOut ⟨fun _ => none⟩ [0x8b,0x99,0x70, 0x81,0x2c, 0x91,0xf2,0x0f, 0x00, 0x6e,0xdb,0xc6,0xc4,0xd3,0x1b,0xae,0x9f,0x1c,0xcc,
    0x38,0x53,0x8a,0x11,0x4b,0xf4,0x2d,0xe6,0x5e,0x86]
  = .ok (⟨34405000000, [0x76,0xa9,0x14,0x6e,0xdb,0xc6,0xc4,0xd3,0x1b,0xae,0x9f,0x1c,0xcc,0x38,0x53,0x8a,0x11,0x4b,0xf4,
            0x2d,0xe6,0x5e,0x86,0x88,0xac], 100024, false⟩, 29) := by decide

theorem journal_size_eq_length (C : Curve) (l : List Txo) :
    (serializeSpendJournalEntry C l).length = spendJournalSerializeSize C l := Lemmas.journal_size C l

/-- Every list of spent outputs, serialised in reverse order, decodes back in order for EVERY
transaction shape whose input counts sum to the number of stxos (the empty list included). -/
theorem journal_roundtrip (C : Curve) (hC : C.YRecovery) (l : List Txo) (hw : ∀ t ∈ l, t.WF)
    (shape : List Nat) (hs : shape.sum = l.length) :
    deserializeSpendJournalEntry C (serializeSpendJournalEntry C l) shape = .ok (l.map Txo.rt) :=
  Lemmas.journal_rt C hC l hw shape hs

/-- Lossless in the strong sense: different entries never share an encoding (amounts within the bound). -/
theorem utxoEntry_injective (C : Curve) (hC : C.YRecovery) (e e' : Txo) (hw : e.WF) (hw' : e'.WF)
    (ha : e.amount ≤ amountBound) (ha' : e'.amount ≤ amountBound)
    (h : serializeUtxoEntry C e = serializeUtxoEntry C e') : e = e' :=
  Lemmas.utxo_injective C hC e e' hw hw' ha ha' h

/-- Spent txouts are prefix-free: equal streams have equal first entries and equal remainders. -/
theorem stxo_prefix_free (C : Curve) (hC : C.YRecovery) (t t' : Txo) (hw : t.WF) (hw' : t'.WF)
    (ha : t.amount ≤ amountBound) (ha' : t'.amount ≤ amountBound) (r r' : List UInt8)
    (h : putSpentTxOut C t ++ r = putSpentTxOut C t' ++ r') : t = t' ∧ r = r' :=
  Lemmas.stxo_prefix_free C hC t t' hw hw' ha ha' r r' h

/-- Two spend journals with as many entries and the same bytes are the same journal. -/
theorem journal_injective (C : Curve) (hC : C.YRecovery) (l l' : List Txo)
    (hw : ∀ t ∈ l, t.WF ∧ t.amount ≤ amountBound) (hw' : ∀ t ∈ l', t.WF ∧ t.amount ≤ amountBound)
    (hlen : l.length = l'.length)
    (h : serializeSpendJournalEntry C l = serializeSpendJournalEntry C l') : l = l' :=
  Lemmas.journal_injective C hC l l' hw hw' hlen h

/-- The journal decoder looks at the transaction shape only through the total number of inputs. -/
theorem journal_shape_only_sum (C : Curve) (ser : List UInt8) (s1 s2 : List Nat) (h : s1.sum = s2.sum) :
    deserializeSpendJournalEntry C ser s1 = deserializeSpendJournalEntry C ser s2 :=
  Lemmas.journal_shape_only_sum C ser s1 s2 h

example : (⟨5000000000, [0x51], 2147483647, true⟩ : Txo).WF := by unfold Txo.WF; decide
example : (⟨546, [], -2147483648, false⟩ : Txo).WF := by unfold Txo.WF; decide

/-- A non-trivial instance: the curve that knows exactly one key, the block-1 coinbase key (even Y). -/
def keyX : List UInt8 := [0x96, 0xb5, 0x38, 0xe8, 0x53, 0x51, 0x9c, 0x72, 0x6a, 0x2c, 0x91, 0xe6, 0x1e, 0xc1, 0x16, 0x00, 0xae, 0x13, 0x90, 0x81, 0x3a, 0x62, 0x7c, 0x66, 0xfb, 0x8b, 0xe7, 0x94, 0x7b, 0xe6, 0x3c, 0x52]
def keyY : List UInt8 := [0xda, 0x75, 0x89, 0x37, 0x95, 0x15, 0xd4, 0xe0, 0xa6, 0x04, 0xf8, 0x14, 0x17, 0x81, 0xe6, 0x22, 0x94, 0x72, 0x11, 0x66, 0xbf, 0x62, 0x1e, 0x73, 0xa8, 0x2c, 0xbf, 0x23, 0x42, 0xc8, 0x58, 0xee]
def C1 : Curve := ⟨fun k => if k = 4 :: (keyX ++ keyY) ∨ k = 2 :: keyX then some (4 :: (keyX ++ keyY)) else none⟩

example : C1.YRecovery := by
  intro k hl _ hv
  have hk : k = 4 :: (keyX ++ keyY) := by
    unfold C1 at hv
    simp only [] at hv
    split at hv
    · rename_i h
      rcases h with h | h
      · exact h
      · exfalso; rw [h] at hl
        have : (2 :: keyX).length ≠ 65 := by decide
        exact this hl
    · cases hv
  subst hk
  decide

/-- utxo example 1 of chainio.go (block 1 coinbase, 50 BTC, pay-to-uncompressed-pubkey, type 0x04):
both directions. -/
example : deserializeUtxoEntry C1 ([0x03, 0x32, 0x04] ++ keyX)
    = .ok ⟨5000000000, [0x41, 0x04] ++ keyX ++ keyY ++ [0xac], 1, true⟩ := by decide
example : putCompressedScript C1 ([0x41, 0x04] ++ keyX ++ keyY ++ [0xac]) = 0x04 :: keyX := by decide
example : compressTxOutAmount 5000000000 = 0x32 ∧ headerCodeOf 1 true = 0x03 := by decide

-- golden vectors from the format comments in chainio.go (decoding direction, any curve)
def C0 : Curve := ⟨fun _ => none⟩
/-- utxo example 2: blk 113931, 0.15 BTC, pay-to-pubkey-hash -/
example : deserializeUtxoEntry C0 [0x8c,0xf3,0x16,0x80,0x09,0x00,0xb8,0x02,0x5b,0xe1,0xb3,0xef,0xc6,0x3b,0x0a,0xd4,0x8e,
    0x7f,0x9f,0x10,0xe8,0x75,0x44,0x52,0x8d,0x58]
  = .ok ⟨15000000, [0x76,0xa9,0x14,0xb8,0x02,0x5b,0xe1,0xb3,0xef,0xc6,0x3b,0x0a,0xd4,0x8e,0x7f,0x9f,0x10,0xe8,0x75,
    0x44,0x52,0x8d,0x58,0x88,0xac], 113931, false⟩ := by decide
/-- utxo example 3: blk 338156, 3.66875659 BTC, pay-to-script-hash -/
example : deserializeUtxoEntry C0 [0xa8,0xa2,0x58,0x8b,0xa5,0xb9,0xe7,0x63,0x01,0x1d,0xd4,0x6a,0x00,0x65,0x72,0xd8,0x20,
    0xe4,0x48,0xe1,0x2d,0x2b,0xbb,0x38,0x64,0x0b,0xc7,0x18,0xe6]
  = .ok ⟨366875659, [0xa9,0x14,0x1d,0xd4,0x6a,0x00,0x65,0x72,0xd8,0x20,0xe4,0x48,0xe1,0x2d,0x2b,0xbb,0x38,0x64,0x0b,
    0xc7,0x18,0xe6,0x87], 338156, false⟩ := by decide
/-- spend journal example 2 (block 100025): two stxos, stored last-first -/
example : deserializeSpendJournalEntry C0 [0x8b,0x99,0x70,0x00,0x91,0xf2,0x0f,0x00,0x6e,0xdb,0xc6,0xc4,0xd3,0x1b,0xae,0x9f,
    0x1c,0xcc,0x38,0x53,0x8a,0x11,0x4b,0xf4,0x2d,0xe6,0x5e,0x86,0x8b,0x99,0x70,0x00,0x86,0xc6,0x47,0x00,0xb2,0xfb,0x57,
    0xea,0xdf,0x61,0xe1,0x06,0xa1,0x00,0xa7,0x44,0x5a,0x8c,0x3f,0x67,0x89,0x88,0x41,0xec] [1, 1]
  = .ok [⟨13761000000, [0x76,0xa9,0x14,0xb2,0xfb,0x57,0xea,0xdf,0x61,0xe1,0x06,0xa1,0x00,0xa7,0x44,0x5a,0x8c,0x3f,0x67,
            0x89,0x88,0x41,0xec,0x88,0xac], 100024, false⟩,
         ⟨34405000000, [0x76,0xa9,0x14,0x6e,0xdb,0xc6,0xc4,0xd3,0x1b,0xae,0x9f,0x1c,0xcc,0x38,0x53,0x8a,0x11,0x4b,0xf4,
            0x2d,0xe6,0x5e,0x86,0x88,0xac], 100024, false⟩] := by decide

/-! ### utxo set key -/

/-- `outpointKey` is `<32-byte hash><VLQ index>` and the index reads back for every `uint32`. -/
theorem outpointKey_format_roundtrip (hash : List UInt8) (idx : Nat) (h : hash.length = 32) (hi : idx < 2 ^ 32) :
    outpointKey hash idx = hash ++ vlq idx ∧
    deserializeVLQ ((outpointKey hash idx).drop 32) = (idx, serializeSizeVLQ idx) ∧
    (outpointKey hash idx).length = 32 + serializeSizeVLQ idx := by
  unfold outpointKey
  rw [Lemmas.copyInto_exact 32 _ h]
  refine ⟨by rw [Lemmas.putVLQ_eq_spec], ?_, ?_⟩
  · rw [List.drop_left' h]
    have := Lemmas.deserialize_putVLQ idx (by omega) []
    rwa [List.append_nil] at this
  · rw [List.length_append, h, Lemmas.putVLQ_length]

/-- Different outpoints never share a utxo-set key. -/
theorem outpointKey_injective (h h' : List UInt8) (i i' : Nat) (hl : h.length = 32) (hl' : h'.length = 32)
    (e : outpointKey h i = outpointKey h' i') : h = h' ∧ i = i' := Lemmas.outpointKey_injective h h' i i' hl hl' e

-- legacy v0 utxo entries, examples 1-3 of the upgrade.go format comment
example : deserializeUtxoEntryV0 C1 ([0x01, 0x01, 0x03, 0x32, 0x04] ++ keyX)
    = .ok [(0, ⟨5000000000, [0x41, 0x04] ++ keyX ++ keyY ++ [0xac], 1, true⟩)] := by decide
example : deserializeUtxoEntryV0 C0 [0x01, 0x85, 0xf9, 0x0b, 0x0a, 0x01, 0x12, 0x00, 0xe2, 0xcc, 0xd6, 0xec, 0x7c, 0x6e, 0x2e, 0x58, 0x13, 0x49, 0xc7, 0x7e, 0x06, 0x73, 0x85, 0xfa, 0x82, 0x36, 0xbf, 0x8a, 0x80, 0x09, 0x00, 0xb8, 0x02, 0x5b, 0xe1, 0xb3, 0xef, 0xc6, 0x3b, 0x0a, 0xd4, 0x8e, 0x7f, 0x9f, 0x10, 0xe8, 0x75, 0x44, 0x52, 0x8d, 0x58]
    = .ok [(0, ⟨20000000, [0x76,0xa9,0x14,0xe2,0xcc,0xd6,0xec,0x7c,0x6e,0x2e,0x58,0x13,0x49,0xc7,0x7e,0x06,0x73,0x85,0xfa,
             0x82,0x36,0xbf,0x8a,0x88,0xac], 113931, false⟩),
           (2, ⟨15000000, [0x76,0xa9,0x14,0xb8,0x02,0x5b,0xe1,0xb3,0xef,0xc6,0x3b,0x0a,0xd4,0x8e,0x7f,0x9f,0x10,0xe8,0x75,
             0x44,0x52,0x8d,0x58,0x88,0xac], 113931, false⟩)] := by decide
example : deserializeUtxoEntryV0 C0 [0x01, 0x93, 0xd0, 0x6c, 0x10, 0x00, 0x00, 0x10, 0x8b, 0xa5, 0xb9, 0xe7, 0x63, 0x01, 0x1d, 0xd4, 0x6a, 0x00, 0x65, 0x72, 0xd8, 0x20, 0xe4, 0x48, 0xe1, 0x2d, 0x2b, 0xbb, 0x38, 0x64, 0x0b, 0xc7, 0x18, 0xe6]
    = .ok [(22, ⟨366875659, [0xa9,0x14,0x1d,0xd4,0x6a,0x00,0x65,0x72,0xd8,0x20,0xe4,0x48,0xe1,0x2d,0x2b,0xbb,0x38,0x64,0x0b,
             0xc7,0x18,0xe6,0x87], 338156, false⟩)] := by decide

/-! ### best chain state and block index row -/

/-- `<hash 32><height u32 LE><total txns u64 LE><work sum length u32 LE><work sum big-endian>` round-trips. -/
theorem bestState_roundtrip (st : BestState) (hw : st.WF) :
    deserializeBestChainState (serializeBestChainState st) = .ok st := Lemmas.bestState_rt st hw

theorem bestState_size_eq_length (st : BestState) (h : st.hash.length = 32) :
    (serializeBestChainState st).length = 48 + (beBytes st.workSum).length := Lemmas.bestState_size st h

/-- `big.Int.SetBytes (big.Int.Bytes n) = n` for the model of the work sum bytes. -/
theorem workSum_bytes_roundtrip (n : Nat) : beVal (beBytes n) = n := Lemmas.beVal_beBytes n

/-- `<80-byte header><status byte>` round-trips, trailing data ignored. -/
theorem blockRow_roundtrip (h : Header) (st : UInt8) (hw : h.WF) (tail : List UInt8) :
    deserializeBlockRow (serializeBlockRow h st ++ tail) = .ok (h, st) := Lemmas.blockRow_rt h st hw tail

theorem blockRow_size_eq_length (h : Header) (st : UInt8) (hw : h.WF) : (serializeBlockRow h st).length = 81 :=
  Lemmas.blockRow_size h st hw

theorem bestState_injective (s s' : BestState) (hw : s.WF) (hw' : s'.WF)
    (e : serializeBestChainState s = serializeBestChainState s') : s = s' := Lemmas.bestState_injective s s' hw hw' e

theorem blockRow_injective (h h' : Header) (st st' : UInt8) (hw : h.WF) (hw' : h'.WF)
    (e : serializeBlockRow h st = serializeBlockRow h' st') : h = h' ∧ st = st' :=
  Lemmas.blockRow_injective h h' st st' hw hw' e

/-- block index key `<uint32 BE height><hash>`: 36 bytes, distinct (hash, height) pairs get distinct keys. -/
theorem blockIndexKey_injective (h h' : List UInt8) (n n' : Nat) (hl : h.length = 32) (hl' : h'.length = 32)
    (hn : n < 2 ^ 32) (hn' : n' < 2 ^ 32) (e : blockIndexKey h n = blockIndexKey h' n') : h = h' ∧ n = n' :=
  Lemmas.blockIndexKey_injective h h' n n' hl hl' hn hn' e

theorem blockIndexKey_length (h : List UInt8) (n : Nat) (hl : h.length = 32) : (blockIndexKey h n).length = 36 :=
  Lemmas.blockIndexKey_length h n hl

example : blockIndexKey (List.replicate 32 0xaa) 0x01020304 = [1, 2, 3, 4] ++ List.replicate 32 0xaa := by decide

example : (⟨List.replicate 32 7, 800000, 900000000, 2 ^ 95⟩ : BestState).WF := by
  unfold BestState.WF; decide
example : (⟨0x20000000, List.replicate 32 0, List.replicate 32 1, 1700000000, 0x1d00ffff, 42⟩ : Header).WF := by
  unfold Header.WF; decide

/-! ### decoders never panic and never read out of bounds

`slice` makes every Go slice expression of the decoders an explicit bounds check against the LENGTH of
the data (stricter than Go's capacity check), `Outcome.panic` is the result when one fails (or
`make` gets a negative size).  `ser.length < 2^63` is the Go run-time invariant for slice lengths. -/

theorem decodeCompressedTxOut_no_panic (C : Curve) (ser : List UInt8) (hlen : ser.length < 2 ^ 63) :
    decodeCompressedTxOut C ser ≠ .panic := Lemmas.decodeTxOut_no_panic C ser hlen

theorem deserializeUtxoEntry_no_panic (C : Curve) (ser : List UInt8) (hlen : ser.length < 2 ^ 63) :
    deserializeUtxoEntry C ser ≠ .panic := Lemmas.utxo_no_panic C ser hlen

theorem decodeSpentTxOut_no_panic (C : Curve) (ser : List UInt8) (hlen : ser.length < 2 ^ 63) :
    decodeSpentTxOut C ser ≠ .panic := Lemmas.stxo_no_panic C ser hlen

theorem deserializeSpendJournalEntry_no_panic (C : Curve) (ser : List UInt8) (shape : List Nat)
    (hlen : ser.length < 2 ^ 63) :
    deserializeSpendJournalEntry C ser shape ≠ .panic := Lemmas.journal_no_panic C ser shape hlen

/-- Every byte string, no length restriction (after the fix F-C15-d: before it the `uint32` arithmetic
wrapped for records of 4 GiB or more and the slice expression panicked, see `bestStateWrapWitness`). -/
theorem deserializeBestChainState_no_panic (ser : List UInt8) :
    deserializeBestChainState ser ≠ .panic := Lemmas.bestState_no_panic ser

/-- The former counterexample (`Lemmas.bestStateWrapWitness`: 44 zero bytes, work-sum length 0xffffffff,
2^32-1 more bytes; `uint32(len(rest)) < 0xffffffff` was false and `48 + 0xffffffff` wrapped to 47 ⇒ slice
`[48:47]`) now decodes to a value; the driver answers the corpus line `bestwrap` with this. -/
theorem bestState_wrap_witness_ok : ∃ st, deserializeBestChainState Lemmas.bestStateWrapWitness = .ok st :=
  Lemmas.bestState_wrap_ok

theorem deserializeBlockRow_no_panic (ser : List UInt8) : deserializeBlockRow ser ≠ .panic :=
  Lemmas.blockRow_no_panic ser

/-- The legacy (version 0 format) utxo entry decoder of upgrade.go. -/
theorem deserializeUtxoEntryV0_no_panic (C : Curve) (ser : List UInt8) (hlen : ser.length < 2 ^ 63) :
    deserializeUtxoEntryV0 C ser ≠ .panic := Lemmas.utxoV0_no_panic C ser hlen

/-- The legacy v1 block index row reader of the block index migration (after the fix, F-C15-c). -/
theorem readV1BlockRow_no_panic (row : List UInt8) : readV1BlockRow row ≠ .panic := Lemmas.v1row_no_panic row

/-- All decoders at once (`ser.length < 2^63` is the Go run-time invariant for slice lengths). -/
theorem decoders_no_panic (C : Curve) (ser : List UInt8) (shape : List Nat) (hlen : ser.length < 2 ^ 63) :
    decodeCompressedTxOut C ser ≠ .panic ∧ deserializeUtxoEntry C ser ≠ .panic ∧
    decodeSpentTxOut C ser ≠ .panic ∧ deserializeSpendJournalEntry C ser shape ≠ .panic ∧
    deserializeUtxoEntryV0 C ser ≠ .panic ∧ readV1BlockRow ser ≠ .panic ∧
    deserializeBestChainState ser ≠ .panic ∧ deserializeBlockRow ser ≠ .panic :=
  ⟨Lemmas.decodeTxOut_no_panic C ser hlen, Lemmas.utxo_no_panic C ser hlen, Lemmas.stxo_no_panic C ser hlen,
   Lemmas.journal_no_panic C ser shape hlen, Lemmas.utxoV0_no_panic C ser hlen, Lemmas.v1row_no_panic ser,
   Lemmas.bestState_no_panic ser, Lemmas.blockRow_no_panic ser⟩

/-- The triggers of F-C15-a (fixed): each is now an error (a curve that accepts nothing is enough to evaluate). -/
example : decodeCompressedTxOut ⟨fun _ => none⟩ [0x00, 0x80, 0xfe, 0xfe, 0xfe, 0xfe, 0xfe, 0xfe, 0xfe, 0xfe, 0x05] = .err := by
  decide
example : decodeCompressedTxOut ⟨fun _ => none⟩ [0x00, 0x80, 0xfe, 0xfe, 0xfe, 0xfe, 0xfe, 0xfe, 0xfe, 0xfe, 0x7f, 0x00] = .err := by
  decide
example : decodeCompressedTxOut ⟨fun _ => none⟩
    [0x00, 0x80, 0xfe, 0xfe, 0xfe, 0xfe, 0xfe, 0xfe, 0xfe, 0xff, 0x00, 1, 1, 1, 1, 1, 1, 1, 1, 1, 1, 1] = .err := by
  decide

/-! ### regenerated constants (T2) -/

theorem pin_cstPayToPubKeyHash : Generated.C15.cstPayToPubKeyHash = (cstPayToPubKeyHash : Int) := by decide
theorem pin_cstPayToScriptHash : Generated.C15.cstPayToScriptHash = (cstPayToScriptHash : Int) := by decide
theorem pin_cstPayToPubKeyComp2 : Generated.C15.cstPayToPubKeyComp2 = (cstPayToPubKeyComp2 : Int) := by decide
theorem pin_cstPayToPubKeyComp3 : Generated.C15.cstPayToPubKeyComp3 = (cstPayToPubKeyComp3 : Int) := by decide
theorem pin_cstPayToPubKeyUncomp4 : Generated.C15.cstPayToPubKeyUncomp4 = (cstPayToPubKeyUncomp4 : Int) := by decide
theorem pin_cstPayToPubKeyUncomp5 : Generated.C15.cstPayToPubKeyUncomp5 = (cstPayToPubKeyUncomp5 : Int) := by decide
theorem pin_numSpecialScripts : Generated.C15.numSpecialScripts = (numSpecialScripts : Int) := by decide
theorem pin_blockHdrSize : Generated.C15.blockHdrSize = 80 := by decide
theorem pin_hashSize : Generated.C15.hashSize = 32 := by decide
-- NOTE (false-alarm audit): the in-memory-only txoFlags bit values (tfCoinBase, tfSpent) and the key-pool
-- buffer size maxUint32VLQSerializeSize are internal and deliberately NOT pinned; the persisted coinbase bit is
-- covered by `headerCode_roundtrip` / `utxoEntry_format` and by the correspondence through IsCoinBase().
theorem pin_vlqMaxU64 : Generated.C15.vlqMaxU64 = "80fefefefefefefefe7f" := by decide

end BV.C15
