/-
C15 property theorems: persisted chain-state records are lossless, format-stable and robust.
Only statements of the property + non-vacuity / golden-vector examples live here; helper lemmas are in
Lemmas*.lean.  `C : Curve` is the foreign secp256k1 code (btcec.ParsePubKey + SerializeUncompressed) as a
parameter; every theorem holds for every `C` (hypotheses on `C` are stated where needed).
-/
import BV.C15.Lemmas
import BV.Generated.C15
namespace BV.C15
open Spec

/-! ### VLQ -/

/-- `putVLQ` (LSB-first loop + in-place reversal) produces exactly the documented MSB-first base-128
encoding with the +1 offset, for every natural number. -/
theorem putVLQ_eq_spec (n : Nat) : putVLQ n = vlq n := Lemmas.putVLQ_eq_spec n

/-- `serializeSizeVLQ` equals the encoded length. -/
theorem vlq_size (n : Nat) : (putVLQ n).length = serializeSizeVLQ n := Lemmas.putVLQ_length n

/-- Round trip for every `uint64`, with arbitrary trailing data; the bytes-read count is the size. -/
theorem vlq_roundtrip (n : Nat) (hn : n < 2 ^ 64) (rest : List UInt8) :
    deserializeVLQ (putVLQ n ++ rest) = (n, serializeSizeVLQ n) := Lemmas.deserialize_putVLQ n hn rest

/-- A `uint64` takes at most ten bytes. -/
theorem vlq_size_le_ten (n : Nat) (hn : n < 2 ^ 64) : serializeSizeVLQ n ≤ 10 := Lemmas.size_le_ten n hn

/-- Decoder totality: never reads more than it is given, reads at least one byte of non-empty data. -/
theorem vlq_decode_total (l : List UInt8) :
    (deserializeVLQ l).2 ≤ l.length ∧ (l ≠ [] → 1 ≤ (deserializeVLQ l).2) :=
  ⟨Lemmas.bytesRead_le l, Lemmas.bytesRead_pos l⟩

/-- The decoder depends only on the bytes it reports as read. -/
theorem vlq_decode_prefix (l : List UInt8) (k : Nat) (hk : (deserializeVLQ l).2 ≤ k) :
    deserializeVLQ (l.take k) = deserializeVLQ l := Lemmas.deserialize_take l k hk

-- golden vectors from the format comment in compress.go
example : vlq 0 = [0x00] := by simp [vlq, vlqPre]
example : vlq 127 = [0x7f] := by simp [vlq, vlqPre]
example : vlq 128 = [0x80, 0x00] := by simp [vlq, vlqPre]
example : vlq 129 = [0x80, 0x01] := by simp [vlq, vlqPre]
example : vlq 255 = [0x80, 0x7f] := by simp [vlq, vlqPre]
example : vlq 256 = [0x81, 0x00] := by simp [vlq, vlqPre]
example : vlq 16511 = [0xff, 0x7f] := by simp [vlq, vlqPre]
example : vlq 16512 = [0x80, 0x80, 0x00] := by simp [vlq, vlqPre]
example : vlq 32895 = [0x80, 0xff, 0x7f] := by simp [vlq, vlqPre]
example : vlq 2113663 = [0xff, 0xff, 0x7f] := by simp [vlq, vlqPre]
example : vlq 270549119 = [0xff, 0xff, 0xff, 0x7f] := by simp [vlq, vlqPre]
example : vlq (2 ^ 64 - 1) = [0x80, 0xfe, 0xfe, 0xfe, 0xfe, 0xfe, 0xfe, 0xfe, 0xfe, 0x7f] := by
  simp [vlq, vlqPre]
example : deserializeVLQ [0x80, 0xfe, 0xfe, 0xfe, 0xfe, 0xfe, 0xfe, 0xfe, 0xfe, 0x7f] = (2 ^ 64 - 1, 10) := by decide
example : deserializeVLQ [0xff, 0xff, 0x7f, 0x55] = (2113663, 3) := by decide

/-! ### amounts -/

/-- On unbounded naturals the documented compression is inverted by decompression for EVERY amount. -/
theorem amount_roundtrip_nat (a : Nat) : decompressNat (compressNat a) = a :=
  Lemmas.decompressNat_compressNat a

/-- No `uint64` overflow up to the bound, hence the model (with wrap-around) equals the spec there. -/
theorem amount_no_overflow (a : Nat) (h : a ≤ amountBound) : compressTxOutAmount a = compressNat a := by
  unfold compressTxOutAmount; exact Nat.mod_eq_of_lt (Lemmas.compressNat_lt a h)

/-- Round trip in `uint64` arithmetic for every amount up to `amountBound` = 2049638230412172402
(976 × MaxSatoshi).  Partial w.r.t. the property ("every 64-bit amount"): see `amount_roundtrip_full_fails`. -/
theorem amount_roundtrip_partial (a : Nat) (h : a ≤ amountBound) :
    decompressTxOutAmount (compressTxOutAmount a) = a := Lemmas.amount_roundtrip a h

/-- F-C15-b: the round trip does NOT hold for every 64-bit amount (witness 2^64-1, which decodes
as 2049638230412172324). -/
theorem amount_roundtrip_full_fails :
    ¬ ∀ a, a < 2 ^ 64 → decompressTxOutAmount (compressTxOutAmount a) = a := by
  intro h
  have := h (2 ^ 64 - 1) (by decide)
  revert this; decide

/-- The bound is exact: the very next amount overflows and does not round-trip. -/
theorem amount_bound_exact :
    compressNat (amountBound + 1) ≥ 2 ^ 64 ∧
    decompressTxOutAmount (compressTxOutAmount (amountBound + 1)) ≠ amountBound + 1 := by decide

/-- The bound covers every valid amount with a wide margin. -/
theorem amount_bound_covers_maxSatoshi : 976 * maxSatoshi ≤ amountBound := by decide

example : (2100000000000000 : Nat) ≤ amountBound := by decide
-- golden vectors from the format comment in compress.go
example : compressTxOutAmount 0 = 0 := by decide
example : compressTxOutAmount 1000 = 4 := by decide
example : compressTxOutAmount 10000 = 5 := by decide
example : compressTxOutAmount 12345678 = 111111101 := by decide
-- NOTE: the comment in compress.go lists `50000000 -> 47`; the code (and Bitcoin Core) give 48
-- (e = 7, d = 5: 1 + 10*4 + 7); 47 is the code for 5000000.  A typo in the comment, not in the format.
example : compressTxOutAmount 50000000 = 48 := by decide
example : compressTxOutAmount 5000000 = 47 := by decide
example : compressTxOutAmount 100000000 = 9 := by decide
example : compressTxOutAmount 500000000 = 49 := by decide
example : compressTxOutAmount 1000000000 = 10 := by decide
example : decompressTxOutAmount 111111101 = 12345678 := by decide
example : decompressTxOutAmount (compressTxOutAmount (2 ^ 64 - 1)) = 2049638230412172324 := by decide

/-! ### decoders never panic and never read out of bounds

`slice` makes every Go slice expression of the decoders an explicit bounds check against the LENGTH of
the data (stricter than Go's capacity check), `Outcome.panic` is the result when one fails (or
`make` gets a negative size).  `ser.length < 2^63` is the Go run-time invariant for slice lengths. -/

theorem decodeCompressedTxOut_no_panic (C : Curve) (ser : List UInt8) (hlen : ser.length < 2 ^ 63) :
    decodeCompressedTxOut C ser ≠ .panic := Lemmas.decodeTxOut_no_panic C ser hlen

theorem deserializeUtxoEntry_no_panic (C : Curve) (ser : List UInt8) (hlen : ser.length < 2 ^ 63) :
    deserializeUtxoEntry C ser ≠ .panic := Lemmas.utxo_no_panic C ser hlen

theorem decodeSpentTxOut_no_panic (C : Curve) (ser : List UInt8) (hlen : ser.length < 2 ^ 63) :
    decodeSpentTxOut C ser ≠ .panic := Lemmas.stxo_no_panic C ser hlen

theorem deserializeSpendJournalEntry_no_panic (C : Curve) (ser : List UInt8) (shape : List Nat)
    (hlen : ser.length < 2 ^ 63) :
    deserializeSpendJournalEntry C ser shape ≠ .panic := Lemmas.journal_no_panic C ser shape hlen

/-- Partial: records of 4 GiB or more are excluded (`uint32` offset arithmetic in
`deserializeBestChainState` can wrap there; the record is 48 bytes + the work sum in practice). -/
theorem deserializeBestChainState_no_panic_partial (ser : List UInt8) (hlen : ser.length < 2 ^ 32) :
    deserializeBestChainState ser ≠ .panic := Lemmas.bestState_no_panic ser hlen

theorem deserializeBlockRow_no_panic (ser : List UInt8) : deserializeBlockRow ser ≠ .panic :=
  Lemmas.blockRow_no_panic ser

/-- All decoders at once. -/
theorem decoders_no_panic (C : Curve) (ser : List UInt8) (shape : List Nat) (hlen : ser.length < 2 ^ 32) :
    decodeCompressedTxOut C ser ≠ .panic ∧ deserializeUtxoEntry C ser ≠ .panic ∧
    decodeSpentTxOut C ser ≠ .panic ∧ deserializeSpendJournalEntry C ser shape ≠ .panic ∧
    deserializeBestChainState ser ≠ .panic ∧ deserializeBlockRow ser ≠ .panic :=
  have h63 : ser.length < 2 ^ 63 := Nat.lt_of_lt_of_le hlen (by decide)
  ⟨Lemmas.decodeTxOut_no_panic C ser h63, Lemmas.utxo_no_panic C ser h63, Lemmas.stxo_no_panic C ser h63,
   Lemmas.journal_no_panic C ser shape h63, Lemmas.bestState_no_panic ser hlen, Lemmas.blockRow_no_panic ser⟩

/-- The triggers of F-C15-a (fixed): each is now an error (a curve that accepts nothing is enough to evaluate). -/
example : decodeCompressedTxOut ⟨fun _ => none⟩ [0x00, 0x80, 0xfe, 0xfe, 0xfe, 0xfe, 0xfe, 0xfe, 0xfe, 0xfe, 0x05] = .err := by
  decide
example : decodeCompressedTxOut ⟨fun _ => none⟩ [0x00, 0x80, 0xfe, 0xfe, 0xfe, 0xfe, 0xfe, 0xfe, 0xfe, 0xfe, 0x7f, 0x00] = .err := by
  decide
example : decodeCompressedTxOut ⟨fun _ => none⟩
    [0x00, 0x80, 0xfe, 0xfe, 0xfe, 0xfe, 0xfe, 0xfe, 0xfe, 0xff, 0x00, 1, 1, 1, 1, 1, 1, 1, 1, 1, 1, 1] = .err := by
  decide

/-! ### regenerated constants (T2) -/

theorem pin_cstPayToPubKeyHash : Generated.C15.cstPayToPubKeyHash = (cstPayToPubKeyHash : Int) := by decide
theorem pin_cstPayToScriptHash : Generated.C15.cstPayToScriptHash = (cstPayToScriptHash : Int) := by decide
theorem pin_cstPayToPubKeyComp2 : Generated.C15.cstPayToPubKeyComp2 = (cstPayToPubKeyComp2 : Int) := by decide
theorem pin_cstPayToPubKeyComp3 : Generated.C15.cstPayToPubKeyComp3 = (cstPayToPubKeyComp3 : Int) := by decide
theorem pin_cstPayToPubKeyUncomp4 : Generated.C15.cstPayToPubKeyUncomp4 = (cstPayToPubKeyUncomp4 : Int) := by decide
theorem pin_cstPayToPubKeyUncomp5 : Generated.C15.cstPayToPubKeyUncomp5 = (cstPayToPubKeyUncomp5 : Int) := by decide
theorem pin_numSpecialScripts : Generated.C15.numSpecialScripts = (numSpecialScripts : Int) := by decide
theorem pin_blockHdrSize : Generated.C15.blockHdrSize = 80 := by decide
theorem pin_hashSize : Generated.C15.hashSize = 32 := by decide
theorem pin_tfCoinBase : Generated.C15.tfCoinBase = 1 := by decide
theorem pin_tfSpent : Generated.C15.tfSpent = 2 := by decide
theorem pin_maxUint32VLQ : Generated.C15.maxUint32VLQSerializeSize = (serializeSizeVLQ (2 ^ 32 - 1) : Int) := by
  simp [serializeSizeVLQ, Generated.C15.maxUint32VLQSerializeSize]
theorem pin_vlqMaxU64 : Generated.C15.vlqMaxU64 = "80fefefefefefefefe7f" := by decide

end BV.C15
