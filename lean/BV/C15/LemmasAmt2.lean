/- C15 helper lemmas: compression is also a right inverse of decompression (the format is a bijection on ℕ). -/
import BV.C15.LemmasAmt
namespace BV.C15.Lemmas
open BV.C15 BV.C15.Spec

theorem strip_mul_pow (f m e k : Nat) (hk : k ≤ f) (hm : k < f → m % 10 ≠ 0) :
    stripZeros f (m * 10 ^ k) e = (m, e + k) := by
  induction k generalizing f e with
  | zero =>
    cases f with
    | zero => simp [stripZeros]
    | succ f =>
      have := hm (by omega)
      simp [stripZeros, this]
  | succ k ih =>
    cases f with
    | zero => omega
    | succ f =>
      have h1 : m * 10 ^ (k + 1) % 10 = 0 := by
        rw [Nat.pow_succ, ← Nat.mul_assoc]; exact Nat.mul_mod_left _ _
      have h2 : m * 10 ^ (k + 1) / 10 = m * 10 ^ k := by
        rw [Nat.pow_succ, ← Nat.mul_assoc]; exact Nat.mul_div_cancel _ (by decide)
      rw [stripZeros, if_pos h1, h2, ih f (e + 1) (by omega) (fun h => hm (by omega))]
      congr 1; omega

theorem compressNat_decompressNat (x : Nat) : compressNat (decompressNat x) = x := by
  unfold decompressNat
  by_cases hx : x = 0
  · subst hx; simp [compressNat]
  · rw [if_neg hx]
    simp only []
    have he : (x - 1) % 10 < 10 := Nat.mod_lt _ (by decide)
    by_cases h9 : (x - 1) % 10 < 9
    · rw [if_pos h9]
      generalize hq : (x - 1) / 10 = q
      generalize hee : (x - 1) % 10 = e at *
      have hx' : x = 1 + 10 * q + e := by omega
      have hmnz : ((q / 9) * 10 + (q % 9 + 1)) % 10 ≠ 0 := by omega
      have hpos : 0 < 10 ^ e := Nat.pow_pos (by decide)
      have hne : ¬ ((q / 9 * 10 + (q % 9 + 1)) * 10 ^ e = 0) := by
        intro h
        rcases Nat.eq_zero_or_pos (q / 9 * 10 + (q % 9 + 1)) with h0 | h0
        · omega
        · have := Nat.mul_pos h0 hpos; omega
      unfold compressNat
      rw [if_neg hne, strip_mul_pow 9 _ 0 e (by omega) (fun _ => hmnz)]
      simp only [Nat.zero_add]
      rw [if_pos h9]
      omega
    · rw [if_neg h9]
      have hee : (x - 1) % 10 = 9 := by omega
      rw [hee]
      generalize hq : (x - 1) / 10 = q
      have hx' : x = 10 + 10 * q := by omega
      have hne : ¬ ((q + 1) * 10 ^ 9 = 0) := by
        have : 0 < (q + 1) * 10 ^ 9 := Nat.mul_pos (by omega) (by decide)
        omega
      unfold compressNat
      rw [if_neg hne, strip_mul_pow 9 _ 0 9 (by omega) (fun h => by omega)]
      simp only [Nat.zero_add]
      rw [if_neg (by omega)]
      omega

end BV.C15.Lemmas
