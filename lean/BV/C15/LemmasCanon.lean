/- C15 (round 3): the other half of "each representation stands for exactly one integer": every terminated
byte string (continuation bytes ≥ 0x80, then one byte < 0x80) is the encoding of the value it decodes to. -/
import BV.C15.LemmasMore
namespace BV.C15.Lemmas
open BV.C15 BV.C15.Spec

/-- a well-formed VLQ: zero or more bytes with the high bit, then one byte without -/
def Terminated : List UInt8 → Prop
  | [] => False
  | [b] => b.toNat < 128
  | b :: c :: r => 128 ≤ b.toNat ∧ Terminated (c :: r)

theorem canon_aux (l : List UInt8) (ht : Terminated l) (acc : Nat) (p : List UInt8)
    (hp : ∀ n, n / 128 = acc → vlqPre n = p) : vlq (vlqValue acc l) = p ++ l := by
  induction l generalizing acc p with
  | nil => exact absurd ht (by simp [Terminated])
  | cons b r ih =>
    cases r with
    | nil =>
      have hb : b.toNat < 128 := ht
      rw [vlqValue]
      simp only [hb, if_true]
      unfold vlq
      have h1 : (acc * 128 + b.toNat % 128) / 128 = acc := by omega
      rw [hp _ h1]
      have h2 : (acc * 128 + b.toNat % 128) % 128 = b.toNat := by omega
      rw [h2, UInt8.ofNat_toNat]
    | cons c r =>
      obtain ⟨hb, hr⟩ := ht
      rw [vlqValue]
      try dsimp only
      rw [if_neg (by omega)]
      have := ih hr (acc * 128 + b.toNat % 128 + 1) (p ++ [b]) (by
        intro n hn
        have hbig : ¬ n ≤ 127 := by omega
        rw [vlqPre_big hbig]
        have hm : n / 128 - 1 = acc * 128 + b.toNat % 128 := by omega
        rw [hm, hp _ (by omega)]
        have hbyte : (acc * 128 + b.toNat % 128) % 128 + 128 = b.toNat := by
          have := UInt8.toNat_lt b
          omega
        rw [hbyte, UInt8.ofNat_toNat])
      rw [this, List.append_assoc]; rfl

theorem vlq_canonical (l : List UInt8) (ht : Terminated l) : vlq (vlqValue 0 l) = l := by
  have := canon_aux l ht 0 [] (by
    intro n hn
    exact vlqPre_small (by omega))
  simpa using this

end BV.C15.Lemmas
