/- C15 helper lemmas: compressed script round trip and size. -/
import BV.C15.LemmasDec
namespace BV.C15.Lemmas
open BV.C15 BV.C15.Spec

theorem split3 (s : List UInt8) (i j : Nat) : s = s.take i ++ ((s.drop i).take j ++ s.drop (i + j)) := by
  conv => lhs; rw [← List.take_append_drop i s, ← List.take_append_drop j (s.drop i), List.drop_drop]

theorem and1 (b : UInt8) : b &&& 1 = 0 ∨ b &&& 1 = 1 := by
  have h : (b &&& 1).toNat = b.toNat % 2 := by
    rw [UInt8.toNat_and]; exact Nat.and_one_is_mod _
  rcases Nat.mod_two_eq_zero_or_one b.toNat with h0 | h1
  · left; apply UInt8.toNat_inj.mp; rw [h, h0]; rfl
  · right; apply UInt8.toNat_inj.mp; rw [h, h1]; rfl

theorem deserialize_single (b : UInt8) (t : List UInt8) (h : b.toNat < 128) :
    deserializeVLQ (b :: t) = (b.toNat, 1) := by
  unfold deserializeVLQ; rw [deserializeVLQAux]
  simp only [h, if_true]
  congr 1
  omega

/-- What the three facts the txout round trip needs from a compressed script `c` of script `s`. -/
structure ScriptRT (C : Curve) (s c : List UInt8) : Prop where
  ne : c ≠ []
  sz : ∀ tail, decodeCompressedScriptSize (c ++ tail) = c.length
  dec : decompressScript C c = some s

theorem size_of_small (b : UInt8) (body tail : List UInt8) (hb : b.toNat ≤ 5) :
    decodeCompressedScriptSize ((b :: body) ++ tail) = 1 + (if b.toNat ≤ 1 then 20 else 32) := by
  unfold decodeCompressedScriptSize
  rw [List.cons_append, deserialize_single b _ (by omega)]
  simp only []
  rw [if_neg (by omega)]
  by_cases h1 : b.toNat ≤ 1
  · rw [if_pos (by omega), if_pos h1]
  · rw [if_neg (by omega), if_pos (by omega), if_neg h1]

theorem rt_p2pkh (C : Curve) (s h : List UInt8) (hs : isPubKeyHash s = some h) :
    ScriptRT C s (0 :: h) := by
  unfold isPubKeyHash at hs
  split at hs
  · rename_i hc
    obtain ⟨hl, ht, hd⟩ := hc
    injection hs with hs
    have hlen : h.length = 20 := by rw [← hs, List.length_take, List.length_drop]; omega
    refine ⟨by simp, ?_, ?_⟩
    · intro tail
      rw [size_of_small 0 h tail (by decide), if_pos (by decide), List.length_cons, hlen]
    · unfold decompressScript
      rw [if_neg (by simp), deserialize_single 0 h (by decide)]
      simp only []
      rw [if_pos (by decide), slice_some (by omega) (by simp [hlen])]
      simp only [Option.map_some]
      congr 1
      have e : ((0 :: h).drop 1).take (1 + 20 - 1) = h := by
        simp only [List.drop_succ_cons, List.drop_zero]
        apply List.take_of_length_le; omega
      rw [e, ← hs]
      have := (split3 s 3 20).symm
      rw [ht, hd] at this
      simpa using this
  · cases hs

theorem rt_p2sh (C : Curve) (s h : List UInt8) (hs : isScriptHash s = some h) :
    ScriptRT C s (1 :: h) := by
  unfold isScriptHash at hs
  split at hs
  · rename_i hc
    obtain ⟨hl, ht, hd⟩ := hc
    injection hs with hs
    have hlen : h.length = 20 := by rw [← hs, List.length_take, List.length_drop]; omega
    refine ⟨by simp, ?_, ?_⟩
    · intro tail
      rw [size_of_small 1 h tail (by decide), if_pos (by decide), List.length_cons, hlen]
    · unfold decompressScript
      rw [if_neg (by simp), deserialize_single 1 h (by decide)]
      simp only []
      rw [if_neg (by decide), if_pos (by decide), slice_some (by omega) (by simp [hlen])]
      simp only [Option.map_some]
      congr 1
      have e : ((1 :: h).drop 1).take (1 + 20 - 1) = h := by
        simp only [List.drop_succ_cons, List.drop_zero]
        apply List.take_of_length_le; omega
      rw [e, ← hs]
      have := (split3 s 2 20).symm
      rw [ht, hd] at this
      simpa using this
  · cases hs

/-- compressed key: `k = f :: x` with `f ∈ {2,3}`, `|x| = 32`, script `= 0x21 :: k ++ [0xac]` -/
theorem rt_comp (C : Curve) (s x : List UInt8) (f : UInt8) (hf : f = 2 ∨ f = 3) (hx : x.length = 32)
    (hs : s = OP_DATA_33 :: f :: x ++ [OP_CHECKSIG]) : ScriptRT C s (f :: x) := by
  have hfn : f.toNat = 2 ∨ f.toNat = 3 := by rcases hf with h | h <;> subst h <;> decide
  refine ⟨by simp, ?_, ?_⟩
  · intro tail
    rw [size_of_small f x tail (by omega), if_neg (by omega), List.length_cons, hx]
  · unfold decompressScript
    rw [if_neg (by simp), deserialize_single f x (by omega)]
    simp only []
    rw [if_neg (by omega), if_neg (by omega), if_pos hfn, slice_some (by omega) (by simp [hx])]
    simp only [Option.map_some]
    congr 1
    have e : ((f :: x).drop 1).take (1 + 32 - 1) = x := by
      simp only [List.drop_succ_cons, List.drop_zero]
      apply List.take_of_length_le; omega
    rw [e, hs, UInt8.ofNat_toNat]; simp

theorem copyInto_exact (n : Nat) (l : List UInt8) (h : l.length = n) : copyInto n l = l := by
  unfold copyInto
  rw [List.take_of_length_le (by omega)]
  have : n - min n l.length = 0 := by omega
  rw [this]; simp

/-- uncompressed key `k = 4 :: x ++ y` (valid), script `= 0x41 :: k ++ [0xac]` -/
theorem rt_uncomp (C : Curve) (hC : C.YRecovery) (s k : List UInt8) (hk : k.length = 65)
    (hk4 : k.take 1 = [4]) (hv : (C.parse k).isSome)
    (hs : s = OP_DATA_65 :: k ++ [OP_CHECKSIG]) :
    ScriptRT C s ((4 ||| ((k.drop 64).headD 0 &&& 1)) :: (k.drop 1).take 32) := by
  have hx : ((k.drop 1).take 32).length = 32 := by rw [List.length_take, List.length_drop]; omega
  have hrec := hC k hk hk4 hv
  generalize hp : (k.drop 64).headD 0 &&& 1 = p at *
  have hp01 : p = 0 ∨ p = 1 := by rw [← hp]; exact and1 _
  have hfn : (4 ||| p).toNat = 4 ∨ (4 ||| p).toNat = 5 := by
    rcases hp01 with h | h <;> subst h <;> decide
  have hkey : UInt8.ofNat ((4 ||| p).toNat - 2) = 2 ||| p := by
    rcases hp01 with h | h <;> subst h <;> decide
  refine ⟨by simp, ?_, ?_⟩
  · intro tail
    rw [size_of_small _ _ tail (by omega), if_neg (by omega), List.length_cons, hx]
  · unfold decompressScript
    rw [if_neg (by simp), deserialize_single _ _ (by omega)]
    simp only []
    rw [if_neg (by omega), if_neg (by omega), if_neg (by omega), if_pos hfn]
    simp only [List.drop_succ_cons, List.drop_zero]
    rw [copyInto_exact 32 _ hx, hkey, hrec]
    simp only []
    rw [hs]; simp

/-- generic form -/
theorem rt_other (C : Curve) (s : List UInt8) (hlen : s.length < 2 ^ 63) :
    ScriptRT C s (putVLQ ((s.length + numSpecialScripts) % 2 ^ 64) ++ s) := by
  have hmod : (s.length + numSpecialScripts) % 2 ^ 64 = s.length + 6 := by
    unfold numSpecialScripts; exact Nat.mod_eq_of_lt (by omega)
  rw [hmod]
  have hvl := putVLQ_length (s.length + 6)
  have hsp := size_pos (s.length + 6)
  refine ⟨?_, ?_, ?_⟩
  · intro h
    have := congrArg List.length h
    rw [List.length_append, hvl] at this; simp at this; omega
  · intro tail
    unfold decodeCompressedScriptSize
    rw [List.append_assoc, deserialize_putVLQ _ (by omega)]
    simp only []
    rw [if_neg (by omega), if_neg (by omega), if_neg (by omega)]
    unfold numSpecialScripts
    simp only [List.length_append, hvl]
    rw [if_neg (by omega)]
    omega
  · unfold decompressScript
    rw [if_neg (by rw [List.length_append, hvl]; omega), deserialize_putVLQ _ (by omega)]
    simp only []
    rw [if_neg (by omega), if_neg (by omega), if_neg (by omega), if_neg (by omega)]
    unfold numSpecialScripts
    have e : s.length + 6 - 6 = s.length := by omega
    rw [e, toInt64_small hlen, if_neg (by omega), Int.toNat_natCast,
      slice_some (by omega) (by rw [List.length_append, hvl]; omega)]
    congr 1
    rw [← hvl, List.drop_left, Nat.add_sub_cancel_left]
    exact List.take_of_length_le (Nat.le_refl _)

/-- Every script compresses to something the decoder maps back to it. -/
theorem script_rt (C : Curve) (hC : C.YRecovery) (s : List UInt8) (hlen : s.length < 2 ^ 63) :
    ScriptRT C s (putCompressedScript C s) := by
  unfold putCompressedScript
  cases h1 : isPubKeyHash s with
  | some h => exact rt_p2pkh C s h h1
  | none =>
    simp only []
    cases h2 : isScriptHash s with
    | some h => exact rt_p2sh C s h h2
    | none =>
      simp only []
      cases h3 : isPubKey C s with
      | none => exact rt_other C s hlen
      | some k =>
        simp only []
        unfold isPubKey at h3
        split at h3
        · rename_i hc
          obtain ⟨hl, ht, hd, hf, hv⟩ := hc
          injection h3 with h3
          have hk : k.length = 33 := by rw [← h3, List.length_take, List.length_drop]; omega
          rw [if_pos hk]
          -- k = f :: x
          have hsplit := split3 s 1 33
          rw [ht, hd, h3] at hsplit
          match k, hk with
          | f :: x, hk =>
            have hx : x.length = 32 := by simpa using hk
            have hf1 : (s.drop 1).take 1 = [f] := by
              have := congrArg (List.take 1) h3
              rw [List.take_take] at this
              simpa using this
            have hf' : f = 2 ∨ f = 3 := by
              rw [hf1] at hf
              rcases hf with h | h
              · left; simpa using h
              · right; simpa using h
            exact rt_comp C s x f hf' hx (by rw [hsplit]; simp [OP_DATA_33, OP_CHECKSIG])
        · split at h3
          · rename_i hc
            obtain ⟨hl, ht, hd, hf, hv⟩ := hc
            injection h3 with h3
            have hk : k.length = 65 := by rw [← h3, List.length_take, List.length_drop]; omega
            rw [if_neg (by omega)]
            have hsplit := split3 s 1 65
            rw [ht, hd, h3] at hsplit
            have hf1 : k.take 1 = [4] := by
              rw [← h3, List.take_take]; simpa using hf
            rw [h3] at hv
            exact rt_uncomp C hC s k hk hf1 hv (by rw [hsplit]; simp)
          · cases h3

theorem script_size (C : Curve) (s : List UInt8) :
    (putCompressedScript C s).length = compressedScriptSize C s := by
  unfold putCompressedScript compressedScriptSize
  cases h1 : isPubKeyHash s with
  | some h =>
    simp only [Option.isSome_some, if_true]
    unfold isPubKeyHash at h1
    split at h1
    · rename_i hc; injection h1 with h1
      rw [← h1]; simp [List.length_take, List.length_drop]; omega
    · cases h1
  | none =>
    simp only [Option.isSome_none, Bool.false_eq_true, if_false]
    cases h2 : isScriptHash s with
    | some h =>
      simp only [Option.isSome_some, if_true]
      unfold isScriptHash at h2
      split at h2
      · rename_i hc; injection h2 with h2
        rw [← h2]; simp [List.length_take, List.length_drop]; omega
      · cases h2
    | none =>
      simp only [Option.isSome_none, Bool.false_eq_true, if_false]
      cases h3 : isPubKey C s with
      | none =>
        simp only [Option.isSome_none, Bool.false_eq_true, if_false]
        rw [List.length_append, putVLQ_length]
      | some k =>
        simp only [Option.isSome_some, if_true]
        split
        · assumption
        · unfold isPubKey at h3
          split at h3
          · rename_i hn hc; injection h3 with h3
            exfalso; apply hn; rw [← h3, List.length_take, List.length_drop]; omega
          · split at h3
            · rename_i hc; injection h3 with h3
              rw [← h3]; simp [List.length_take, List.length_drop]; omega
            · cases h3

end BV.C15.Lemmas
