/-
C06 property theorems. Only statements of the property + non-vacuity examples live here;
helper lemmas are in Lemmas.lean.
-/
import BV.C06.Model
import BV.Generated.C06
namespace BV.C06

/-! ### constants and tables regenerated from the btcd tree, pinned to the Spec -/

set_option maxRecDepth 100000 in
/-- btcd's 256-entry opcode table (name and encoded length of every opcode) is the Spec's table. -/
theorem pin_opcode_names : Generated.C06.opNames = opTable.map (·.1) := by decide
set_option maxRecDepth 100000 in
theorem pin_opcode_lengths : Generated.C06.opLengths = opTable.map (·.2) := by decide

set_option maxRecDepth 100000 in
/-- the disabled and OP_SUCCESSx opcode sets of btcd are the Spec's predicates -/
theorem pin_disabled :
    Generated.C06.disabledOpcodes = ((List.range 256).filter isDisabled).map Int.ofNat := by decide
set_option maxRecDepth 100000 in
theorem pin_op_success :
    Generated.C06.successOpcodes = ((List.range 256).filter isOpSuccess).map Int.ofNat := by decide

/-- flag names and bit values of btcd's `ScriptFlags` are the protocol's numbering used by `Flags.ofNat` -/
theorem pin_flag_names : Generated.C06.flagNames = flagBits.map (·.1) := by decide
theorem pin_flag_values : Generated.C06.flagValues = flagBits.map (fun p => ((2 ^ p.2 : Nat) : Int)) := by decide
theorem pin_standard_flags : Generated.C06.standardVerifyFlags = (standardFlagsNat : Int) := by decide

theorem pin_limits :
    Generated.C06.maxStackSize = MAX_STACK_SIZE ∧ Generated.C06.maxScriptSize = MAX_SCRIPT_SIZE ∧
    Generated.C06.maxOpsPerScript = MAX_OPS_PER_SCRIPT ∧
    Generated.C06.maxPubKeysPerMultiSig = MAX_PUBKEYS_PER_MULTISIG ∧
    Generated.C06.maxScriptElementSize = MAX_SCRIPT_ELEMENT_SIZE ∧
    Generated.C06.lockTimeThreshold = LOCKTIME_THRESHOLD ∧
    Generated.C06.maxScriptNumLen = 4 ∧ Generated.C06.cltvMaxScriptNumLen = 5 ∧
    Generated.C06.sigOpsDelta = VALIDATION_WEIGHT_PER_SIGOP_PASSED ∧
    Generated.C06.sigOpsDelta = VALIDATION_WEIGHT_OFFSET ∧
    Generated.C06.blankCodeSepValue = 0xffffffff := by decide

theorem pin_taproot :
    Generated.C06.taprootAnnexTag = (ANNEX_TAG.toNat : Int) ∧
    Generated.C06.taprootLeafMask = TAPROOT_LEAF_MASK ∧
    Generated.C06.baseLeafVersion = TAPROOT_LEAF_TAPSCRIPT ∧
    Generated.C06.controlBlockBaseSize = TAPROOT_CONTROL_BASE_SIZE ∧
    Generated.C06.controlBlockNodeSize = TAPROOT_CONTROL_NODE_SIZE ∧
    Generated.C06.controlBlockMaxNodeCount = TAPROOT_CONTROL_MAX_NODE_COUNT := by decide

theorem pin_sequence :
    Generated.C06.sequenceLockTimeDisabled = SEQUENCE_LOCKTIME_DISABLE_FLAG ∧
    Generated.C06.sequenceLockTimeIsSeconds = SEQUENCE_LOCKTIME_TYPE_FLAG ∧
    Generated.C06.sequenceLockTimeMask = SEQUENCE_LOCKTIME_MASK ∧
    Generated.C06.maxTxInSequenceNum = SEQUENCE_FINAL := by decide

end BV.C06
