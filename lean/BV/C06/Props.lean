/-
C06 property theorems. Only statements of the property + non-vacuity examples live here;
helper lemmas are in Lemmas.lean.
-/
import BV.C06.Mono
import BV.C06.Mono2
import BV.C06.Mono3
import BV.C06.NoFuel
import BV.C06.Elems
import BV.C06.Der
import BV.C06.Shape
import BV.Generated.C06
namespace BV.C06

/-! ### constants and tables regenerated from the btcd tree, pinned to the Spec -/

set_option maxRecDepth 100000 in
/-- Encoded length of every opcode as btcd's exported tokenizer consumes it (opcode followed by zero bytes:
1 for a bare opcode, n+1 for a direct push of n bytes, 2 / 3 / 5 for PUSHDATA1 / 2 / 4 with a zero length) is
what the Spec's table says. Names are not pinned: they are display strings, not protocol. -/
theorem pin_opcode_consumed :
    Generated.C06.opConsumed = opTable.map (fun e => if e.2 > 0 then e.2 else 1 - e.2) := by decide

set_option maxRecDepth 100000 in
/-- the disabled and OP_SUCCESSx opcode sets of btcd are the Spec's predicates -/
theorem pin_disabled :
    Generated.C06.disabledOpcodes = ((List.range 256).filter isDisabled).map Int.ofNat := by decide
set_option maxRecDepth 100000 in
theorem pin_op_success :
    Generated.C06.successOpcodes = ((List.range 256).filter isOpSuccess).map Int.ofNat := by decide

/-- The relay-policy flag set, translated by the harness from btcd's named constants into the protocol's own
flag numbering (btcd's in-memory bit values are not part of the protocol and are not pinned). -/
theorem pin_standard_flags : Generated.C06.standardVerifyFlags = (standardFlagsNat : Int) := by decide

theorem pin_limits :
    Generated.C06.maxStackSize = MAX_STACK_SIZE ∧ Generated.C06.maxScriptSize = MAX_SCRIPT_SIZE ∧
    Generated.C06.maxOpsPerScript = MAX_OPS_PER_SCRIPT ∧
    Generated.C06.maxPubKeysPerMultiSig = MAX_PUBKEYS_PER_MULTISIG ∧
    Generated.C06.maxScriptElementSize = MAX_SCRIPT_ELEMENT_SIZE ∧
    Generated.C06.lockTimeThreshold = LOCKTIME_THRESHOLD := by decide

theorem pin_taproot :
    Generated.C06.taprootAnnexTag = (ANNEX_TAG.toNat : Int) ∧
    Generated.C06.taprootLeafMask = TAPROOT_LEAF_MASK ∧
    Generated.C06.baseLeafVersion = TAPROOT_LEAF_TAPSCRIPT ∧
    Generated.C06.controlBlockBaseSize = TAPROOT_CONTROL_BASE_SIZE ∧
    Generated.C06.controlBlockNodeSize = TAPROOT_CONTROL_NODE_SIZE ∧
    Generated.C06.controlBlockMaxNodeCount = TAPROOT_CONTROL_MAX_NODE_COUNT := by decide

theorem pin_sequence :
    Generated.C06.sequenceLockTimeDisabled = SEQUENCE_LOCKTIME_DISABLE_FLAG ∧
    Generated.C06.sequenceLockTimeIsSeconds = SEQUENCE_LOCKTIME_TYPE_FLAG ∧
    Generated.C06.sequenceLockTimeMask = SEQUENCE_LOCKTIME_MASK ∧
    Generated.C06.maxTxInSequenceNum = SEQUENCE_FINAL := by decide

/-! ### totality: fuel = script length suffices -/

/-- The evaluator is structurally recursive on its fuel (every definition of the model is a total
function, so there is no `panic` outcome), and any fuel ≥ the script length gives the same answer: the
fuel `script.length` used by `evalScript` is never the reason for a result. -/
theorem eval_total (c : Ctx) (script : Bytes) (st : St) (k : Nat) :
    evalLoop c (script.length + k) script st = evalLoop c script.length script st :=
  Lemmas.evalLoop_fuel_irrelevant c script st k

/-- … and with that fuel the evaluator never answers with its out-of-fuel marker `FUEL` (the only outcome of
the model that is not a Bitcoin script result), for any checker that does not produce the marker itself.
Together with the fact that every function of the model is total, there is no `panic`-like outcome. -/
theorem eval_total_no_fuel_error {c : Ctx} (hc : Lemmas.ChkNoFuel c.chk) (script : Bytes) (st : St) :
    evalLoop c script.length script st ≠ .error .FUEL :=
  Lemmas.evalLoop_noFuel hc script.length script st (Nat.le_refl _)

example : Lemmas.ChkNoFuel
    ⟨fun _ _ _ _ => .ok false, fun _ _ _ _ => .ok (), fun _ => false, fun _ => false, fun _ _ _ _ => .ok false⟩ :=
  ⟨fun _ _ _ _ => Lemmas.NoFuel.ok _, fun _ _ _ _ => Lemmas.NoFuel.ok _, fun _ _ _ _ => Lemmas.NoFuel.ok _⟩

/-- The checker the driver uses for every protocol line (signature hash computed in Lean, curve equations
from the line's oracle table) satisfies that hypothesis, so the driver's `VerifyScript` on an input never
ends in `FUEL`. -/
theorem eval_total_driver (sp : Spend) (fl : Flags) (sv : SigVer) (xd : ExecData) (script : Bytes) (st : St) :
    evalLoop { flags := fl, sv := sv, chk := sp.checker, xd := xd } script.length script st ≠ .error .FUEL :=
  Lemmas.evalLoop_noFuel (c := { flags := fl, sv := sv, chk := sp.checker, xd := xd })
    (Lemmas.spend_checker_noFuel sp) script.length script st (Nat.le_refl _)

/-! ### bounds -/

/-- Every successful step of the interpreter — executed or in an unexecuted branch — respects the
bounds: the data carried by the opcode is ≤ 520 bytes, stack + altstack ≤ 1000 elements afterwards, and
the operation count (which includes the key count of every executed CHECKMULTISIG) is ≤ 201; so a
program that exceeds a bound fails at that step. No hypothesis on the state before the step. -/
theorem bounds_respected {c : Ctx} {op : Nat} {d rest : Bytes} {st st' : St}
    (h : stepOp c op d rest st = .ok st') :
    d.length ≤ MAX_SCRIPT_ELEMENT_SIZE ∧ st'.stack.length + st'.alt.length ≤ MAX_STACK_SIZE ∧
    st'.nOps ≤ MAX_OPS_PER_SCRIPT :=
  Lemmas.stepOp_ok_bounds h

/-- Element size: if every element of stack and altstack is ≤ 520 bytes before a step, the same holds after
it — for every opcode (pushes are checked, numeric / boolean results are ≤ 10 bytes, hash results are 20 or 32
bytes — proved for the model's own SHA-256 / SHA-1 / RIPEMD-160 —, everything else copies, moves or drops
elements). -/
theorem bounds_respected_elements {c : Ctx} {op : Nat} {d rest : Bytes} {st st' : St}
    (hs : Lemmas.StOk st) (h : stepOp c op d rest st = .ok st') : Lemmas.StOk st' :=
  Lemmas.stepOp_stOk Lemmas.hashLens_holds hs h

/-- … hence a whole `EvalScript` started on elements ≤ 520 bytes (which `ExecuteWitnessScript` checks for the
witness stack, and which holds for the empty stack of a scriptSig) ends with elements ≤ 520 bytes. -/
theorem bounds_respected_elements_script {c : Ctx} {script : Bytes}
    {stack out : List Bytes} {w : Int} (hs : Lemmas.ElemsOk stack)
    (h : evalScript c script stack w = .ok out) : Lemmas.ElemsOk out :=
  Lemmas.evalScript_elemsOk Lemmas.hashLens_holds hs h

example : Lemmas.StOk { stack := [[1, 2, 3]], code := [] } :=
  ⟨fun e he => by simp at he; subst he; decide, fun e he => by cases he⟩

/-- A successful `EvalScript`: the script is ≤ 10000 bytes outside tapscript, and the resulting stack has
≤ 1000 elements unless the script is empty (then the stack is returned untouched). -/
theorem bounds_respected_script {c : Ctx} {script : Bytes} {stack out : List Bytes} {w : Int}
    (h : evalScript c script stack w = .ok out) :
    ((c.sv = .base ∨ c.sv = .witnessV0) → script.length ≤ MAX_SCRIPT_SIZE) ∧
    ((script = [] ∧ out = stack) ∨ out.length ≤ MAX_STACK_SIZE) :=
  Lemmas.evalScript_ok h

/-- Whenever a script evaluation succeeds, every IF/NOTIF has been closed: the conditional stack is empty
at the script boundary (conditionals cannot straddle scriptSig / scriptPubKey / redeem script). -/
theorem cond_balanced (c : Ctx) (fuel : Nat) (script : Bytes) (st st' : St)
    (h : evalLoop c fuel script st = .ok st') : st'.cond = [] :=
  Lemmas.evalLoop_cond_empty c fuel script st st' h

/-- In a non-executing branch an opcode other than IF/NOTIF/VERIF/VERNOTIF/ELSE/ENDIF that does not make
the script fail changes neither stack, altstack, conditional stack, script-code start, code-separator
position nor the sigop budget: only the op count and the opcode position advance. -/
theorem unexecuted_branch_inert {c : Ctx} {op : Nat} {d rest : Bytes} {st st' : St}
    (hex : st.exec = false) (hop : ¬ (OP_IF ≤ op ∧ op ≤ OP_ENDIF))
    (h : stepOp c op d rest st = .ok st') :
    st' = { st with nOps := countOp c op st.nOps, opPos := st.opPos + 1 } :=
  Lemmas.stepOp_unexecuted hex hop h

/-- … while a disabled opcode fails there as everywhere. -/
theorem disabled_fails_unexecuted (c : Ctx) (op : Nat) (d rest : Bytes) (st : St) (hd : isDisabled op = true) :
    ∀ st', stepOp c op d rest st ≠ .ok st' := by
  intro st' h
  obtain ⟨st0, _, h0, _, _⟩ := Lemmas.stepOp_ok_iff h
  have := (Lemmas.stepPre_ok h0).2.2.1
  rw [hd] at this; cases this

example : ∃ st : St, st.exec = false := ⟨{ stack := [], code := [], cond := [false] }, rfl⟩

/-! ### minimal pushes -/

/-- Under MINIMALDATA a byte string of at most 65535 bytes has at most one accepted push opcode. -/
theorem minimal_push_unique (d : Bytes) (op op' : Nat) (hl : d.length ≤ 65535)
    (h : checkMinimalPush op d = true) (h' : checkMinimalPush op' d = true) : op = op' :=
  Lemmas.minimal_push_unique d op op' hl h h'

example : checkMinimalPush 2 [7, 7] = true := by decide

/-! ### script numbers -/

/-- `CScriptNum` serialisation round-trips and is minimal for every value of 64-bit magnitude (script
arithmetic only ever produces values below 2^32 in magnitude). -/
theorem scriptnum_roundtrip (n : Int) (hn : n.natAbs < 2 ^ 63) :
    numValue (encodeNum n) = n ∧ isMinimalNum (encodeNum n) = true :=
  Lemmas.scriptnum_roundtrip n hn

example : numValue (encodeNum (-2147483648)) = -2147483648 := (scriptnum_roundtrip _ (by decide)).1

/-! ### script forms and tokenizer -/

/-- A witness program is `<OP_0 | OP_1..OP_16> <direct push of 2..40 bytes>` and nothing else: version ≤ 16,
program length 2..40, total length = program length + 2. -/
theorem witness_program_shape (s : Bytes) (v : Nat) (p : Bytes) (h : witnessProgram? s = some (v, p)) :
    v ≤ 16 ∧ 2 ≤ p.length ∧ p.length ≤ 40 ∧ s.length = p.length + 2 ∧
    ∃ vb lb, s = vb :: lb :: p ∧ lb.toNat = p.length ∧
      (vb.toNat = 0 ∧ v = 0 ∨ 0x51 ≤ vb.toNat ∧ v = vb.toNat - 0x50) :=
  Lemmas.witnessProgram_shape s v p h

/-- P2SH and witness-program scriptPubKeys are disjoint, so `VerifyScript` applies at most one of the two
special evaluations to the scriptPubKey itself. -/
theorem p2sh_not_witness_program (s : Bytes) (h : isP2SH s = true) : witnessProgram? s = none :=
  Lemmas.p2sh_not_witnessProgram s h

/-- The Spec's (pinned) opcode-length table is the formula 1 / n+1 / -1 / -2 / -4, … -/
theorem opTable_lengths_formula : opTable.map (·.2) = (List.range 256).map Lemmas.opLengthFormula :=
  Lemmas.opTable_lengths_formula

/-- … and the tokenizer consumes exactly that: a direct push opcode `n ≤ 75` takes the next `n` bytes as data
(malformed if fewer remain), -/
theorem tokenizer_direct_push (b : UInt8) (rest : Bytes) (h75 : b.toNat ≤ 75) :
    getOp (b :: rest) =
      if rest.length < b.toNat then none else some (b.toNat, rest.take b.toNat, rest.drop b.toNat) :=
  Lemmas.getOp_direct_push b rest h75

/-- an opcode ≥ OP_1NEGATE is a single byte without data. -/
theorem tokenizer_bare_opcode (b : UInt8) (rest : Bytes) (h : 79 ≤ b.toNat) :
    getOp (b :: rest) = some (b.toNat, [], rest) :=
  Lemmas.getOp_bare b rest h

/-- Two empty scripts never verify (btcd answers this case before building an engine). -/
theorem empty_scripts_fail (fl : Flags) (chk : Checker) (wit : List Bytes) :
    verifyScript fl chk [] [] wit = .error .EVAL_FALSE :=
  Lemmas.empty_scripts_fail fl chk wit

/-- Before taproot activation a native version-1 32-byte program is anyone-can-spend, … -/
theorem taproot_inactive_succeeds (fl : Flags) (chk : Checker) (wit : List Bytes) (prog : Bytes)
    (h32 : prog.length = 32) (ht : fl.taproot = false) :
    verifyWitnessProgram fl chk wit 1 prog false = .ok () :=
  Lemmas.taproot_inactive_succeeds fl chk wit prog h32 ht

/-- … and witness versions 2..16 succeed for every program, witness and nesting unless discouraged by policy. -/
theorem future_witness_version_succeeds (fl : Flags) (chk : Checker) (wit : List Bytes) (ver : Nat)
    (prog : Bytes) (p : Bool) (hv : 2 ≤ ver) (hd : fl.discourageWitnessProgram = false) :
    verifyWitnessProgram fl chk wit ver prog p = .ok () :=
  Lemmas.future_witness_version_succeeds fl chk wit ver prog p hv hd

/-- The canonical push `CScript() << d` (used for the P2SH-nested witness malleation rule and for
`FindAndDelete`) tokenizes back to exactly one opcode carrying `d`, for every `d` of at most 65535 bytes. -/
theorem canonical_push_roundtrip (d : Bytes) (h : d.length ≤ 65535) :
    ∃ op, getOp (pushData d) = some (op, d, []) :=
  Lemmas.getOp_pushData d h

/-- Under the WITNESS flag, witness data on an input whose scriptPubKey is neither a witness program nor
P2SH never verifies (WITNESS_UNEXPECTED), whatever the scripts do. -/
theorem witness_unexpected (fl : Flags) (chk : Checker) (sig pk : Bytes) (wit : List Bytes)
    (hw : fl.witness = true) (hne : wit ≠ []) (hwp : witnessProgram? pk = none) (hp : isP2SH pk = false) :
    verifyScript fl chk sig pk wit ≠ .ok () :=
  Lemmas.witness_unexpected fl chk sig pk wit hw hne hwp hp

/-- Under the WITNESS flag, a native witness program spent with a non-empty scriptSig never verifies
(WITNESS_MALLEATED). -/
theorem witness_malleated (fl : Flags) (chk : Checker) (sig pk : Bytes) (wit : List Bytes) (v : Nat) (p : Bytes)
    (hw : fl.witness = true) (hwp : witnessProgram? pk = some (v, p)) (hs : sig ≠ []) :
    verifyScript fl chk sig pk wit ≠ .ok () :=
  Lemmas.witness_malleated fl chk sig pk wit v p hw hwp hs

/-- With the P2SH flag, a pay-to-script-hash output can only be spent by a push-only scriptSig (whatever
the redeem script is). -/
theorem p2sh_requires_push_only (fl : Flags) (chk : Checker) (sig pk : Bytes) (wit : List Bytes)
    (hp : fl.p2sh = true) (hpk : isP2SH pk = true) (hpo : isPushOnly sig = false) :
    verifyScript fl chk sig pk wit ≠ .ok () :=
  Lemmas.p2sh_requires_push_only fl chk sig pk wit hp hpk hpo

/-! ### signature encodings -/

/-- `der_strict ⊆ der_lax`: a signature that satisfies the strict DER rule (BIP66, as enforced under
DERSIG / LOW_S / STRICTENC) is always parsed by the lax parser that feeds the curve equation, so the strict
rule only ever removes signatures, it never changes how an accepted one is read. -/
theorem der_strict_subset_lax (sig : Bytes) (h : isValidSignatureEncoding sig = true) :
    (parseDerLax sig.dropLast).isSome = true :=
  Lemmas.der_strict_subset_lax sig h

example : isValidSignatureEncoding [0x30, 0x06, 0x02, 0x01, 0x01, 0x02, 0x01, 0x01, 0x01] = true := by decide

/-! ### soft-fork monotonicity -/

/-- CHECKLOCKTIMEVERIFY is a soft fork: every spend that verifies with the flag verifies without it. -/
theorem softfork_monotone_cltv (fl : Flags) (chk : Checker) (scriptSig scriptPubKey : Bytes)
    (wit : List Bytes) (h : verifyScript { fl with cltv := true } chk scriptSig scriptPubKey wit = .ok ()) :
    verifyScript { fl with cltv := false } chk scriptSig scriptPubKey wit = .ok () :=
  Lemmas.verifyScript_mono Lemmas.cltv_tightening fl chk scriptSig scriptPubKey wit () h

/-- CHECKSEQUENCEVERIFY is a soft fork. -/
theorem softfork_monotone_csv (fl : Flags) (chk : Checker) (scriptSig scriptPubKey : Bytes)
    (wit : List Bytes) (h : verifyScript { fl with csv := true } chk scriptSig scriptPubKey wit = .ok ()) :
    verifyScript { fl with csv := false } chk scriptSig scriptPubKey wit = .ok () :=
  Lemmas.verifyScript_mono Lemmas.csv_tightening fl chk scriptSig scriptPubKey wit () h

/-- NULLDUMMY (BIP147) is a soft fork. -/
theorem softfork_monotone_nulldummy (fl : Flags) (chk : Checker) (scriptSig scriptPubKey : Bytes)
    (wit : List Bytes) (h : verifyScript { fl with nulldummy := true } chk scriptSig scriptPubKey wit = .ok ()) :
    verifyScript { fl with nulldummy := false } chk scriptSig scriptPubKey wit = .ok () :=
  Lemmas.verifyScript_mono Lemmas.nulldummy_tightening fl chk scriptSig scriptPubKey wit () h

/-- Strict DER signatures (BIP66) are a soft fork of the script semantics: whatever verifies with DERSIG
verifies without it (same checker, i.e. Core's lax parser feeds the curve equation in both cases). -/
theorem softfork_monotone_dersig (fl : Flags) (chk : Checker) (scriptSig scriptPubKey : Bytes)
    (wit : List Bytes) (h : verifyScript { fl with dersig := true } chk scriptSig scriptPubKey wit = .ok ()) :
    verifyScript { fl with dersig := false } chk scriptSig scriptPubKey wit = .ok () :=
  Lemmas.verifyScript_mono Lemmas.dersig_tightening fl chk scriptSig scriptPubKey wit () h

/-- Segregated witness is a soft fork: for every flag set without CLEANSTACK (a policy flag that Core only
allows together with WITNESS), a spend that verifies with the WITNESS flag verifies without it. -/
theorem softfork_monotone_witness (fl : Flags) (hcs : fl.cleanstack = false) (chk : Checker)
    (scriptSig scriptPubKey : Bytes) (wit : List Bytes)
    (h : verifyScript { fl with witness := true } chk scriptSig scriptPubKey wit = .ok ()) :
    verifyScript { fl with witness := false } chk scriptSig scriptPubKey wit = .ok () :=
  Lemmas.verifyScript_witness_off fl hcs chk scriptSig scriptPubKey wit h

/-- Taproot is a soft fork. -/
theorem softfork_monotone_taproot (fl : Flags) (chk : Checker) (scriptSig scriptPubKey : Bytes)
    (wit : List Bytes) (h : verifyScript { fl with taproot := true } chk scriptSig scriptPubKey wit = .ok ()) :
    verifyScript { fl with taproot := false } chk scriptSig scriptPubKey wit = .ok () :=
  Lemmas.verifyScript_mono_seq Lemmas.taproot_seq fl chk scriptSig scriptPubKey wit () h

/-- P2SH (BIP16) is a soft fork, for flag sets without CLEANSTACK and WITNESS (both of which Core only allows
on top of P2SH). -/
theorem softfork_monotone_p2sh (fl : Flags) (hcs : fl.cleanstack = false) (hw : fl.witness = false)
    (chk : Checker) (scriptSig scriptPubKey : Bytes) (wit : List Bytes)
    (h : verifyScript { fl with p2sh := true } chk scriptSig scriptPubKey wit = .ok ()) :
    verifyScript { fl with p2sh := false } chk scriptSig scriptPubKey wit = .ok () :=
  Lemmas.verifyScript_p2sh_off fl hcs hw chk scriptSig scriptPubKey wit h

/-! ### the DISCOURAGE_* policy flags only add failures -/

/-- DISCOURAGE_UPGRADABLE_NOPS: whatever verifies with the flag verifies without it. -/
theorem discourage_monotone_nops (fl : Flags) (chk : Checker) (scriptSig scriptPubKey : Bytes) (wit : List Bytes)
    (h : verifyScript { fl with discourageNops := true } chk scriptSig scriptPubKey wit = .ok ()) :
    verifyScript { fl with discourageNops := false } chk scriptSig scriptPubKey wit = .ok () :=
  Lemmas.verifyScript_mono Lemmas.dnops_tightening fl chk scriptSig scriptPubKey wit () h

/-- DISCOURAGE_UPGRADABLE_PUBKEYTYPE (tapscript). -/
theorem discourage_monotone_pubkeytype (fl : Flags) (chk : Checker) (scriptSig scriptPubKey : Bytes)
    (wit : List Bytes)
    (h : verifyScript { fl with discouragePubkeytype := true } chk scriptSig scriptPubKey wit = .ok ()) :
    verifyScript { fl with discouragePubkeytype := false } chk scriptSig scriptPubKey wit = .ok () :=
  Lemmas.verifyScript_mono Lemmas.DPK_tightening fl chk scriptSig scriptPubKey wit () h

/-- DISCOURAGE_UPGRADABLE_WITNESS_PROGRAM. -/
theorem discourage_monotone_witness_program (fl : Flags) (chk : Checker) (scriptSig scriptPubKey : Bytes)
    (wit : List Bytes)
    (h : verifyScript { fl with discourageWitnessProgram := true } chk scriptSig scriptPubKey wit = .ok ()) :
    verifyScript { fl with discourageWitnessProgram := false } chk scriptSig scriptPubKey wit = .ok () :=
  Lemmas.verifyScript_mono_seq Lemmas.DWP_seq fl chk scriptSig scriptPubKey wit () h

/-- DISCOURAGE_UPGRADABLE_TAPROOT_VERSION. -/
theorem discourage_monotone_taproot_version (fl : Flags) (chk : Checker) (scriptSig scriptPubKey : Bytes)
    (wit : List Bytes)
    (h : verifyScript { fl with discourageTaprootVersion := true } chk scriptSig scriptPubKey wit = .ok ()) :
    verifyScript { fl with discourageTaprootVersion := false } chk scriptSig scriptPubKey wit = .ok () :=
  Lemmas.verifyScript_mono_seq Lemmas.DTV_seq fl chk scriptSig scriptPubKey wit () h

/-- DISCOURAGE_OP_SUCCESS. -/
theorem discourage_monotone_op_success (fl : Flags) (chk : Checker) (scriptSig scriptPubKey : Bytes)
    (wit : List Bytes)
    (h : verifyScript { fl with discourageOpSuccess := true } chk scriptSig scriptPubKey wit = .ok ()) :
    verifyScript { fl with discourageOpSuccess := false } chk scriptSig scriptPubKey wit = .ok () :=
  Lemmas.verifyScript_mono_seq Lemmas.DOS_seq fl chk scriptSig scriptPubKey wit () h

/-- LOW_S (BIP62 rule 5, policy): dropping the flag never turns a success into a failure. -/
theorem policy_monotone_low_s (fl : Flags) (chk : Checker) (scriptSig scriptPubKey : Bytes)
    (wit : List Bytes) (h : verifyScript { fl with lowS := true } chk scriptSig scriptPubKey wit = .ok ()) :
    verifyScript { fl with lowS := false } chk scriptSig scriptPubKey wit = .ok () :=
  Lemmas.verifyScript_mono Lemmas.lowS_tightening fl chk scriptSig scriptPubKey wit () h

/-- STRICTENC (signature hash type and public key format, policy). -/
theorem policy_monotone_strictenc (fl : Flags) (chk : Checker) (scriptSig scriptPubKey : Bytes)
    (wit : List Bytes) (h : verifyScript { fl with strictenc := true } chk scriptSig scriptPubKey wit = .ok ()) :
    verifyScript { fl with strictenc := false } chk scriptSig scriptPubKey wit = .ok () :=
  Lemmas.verifyScript_mono Lemmas.strictenc_tightening fl chk scriptSig scriptPubKey wit () h

/-- WITNESS_PUBKEYTYPE (compressed keys in segwit v0, policy). -/
theorem policy_monotone_witness_pubkeytype (fl : Flags) (chk : Checker) (scriptSig scriptPubKey : Bytes)
    (wit : List Bytes) (h : verifyScript { fl with witnessPubkeytype := true } chk scriptSig scriptPubKey wit = .ok ()) :
    verifyScript { fl with witnessPubkeytype := false } chk scriptSig scriptPubKey wit = .ok () :=
  Lemmas.verifyScript_mono Lemmas.witnessPubkeytype_tightening fl chk scriptSig scriptPubKey wit () h

/-- NULLFAIL (failed signatures must be empty, policy): affects CHECKSIG and both CHECKMULTISIG forms. -/
theorem policy_monotone_nullfail (fl : Flags) (chk : Checker) (scriptSig scriptPubKey : Bytes)
    (wit : List Bytes) (h : verifyScript { fl with nullfail := true } chk scriptSig scriptPubKey wit = .ok ()) :
    verifyScript { fl with nullfail := false } chk scriptSig scriptPubKey wit = .ok () :=
  Lemmas.verifyScript_mono Lemmas.nullfail_tightening fl chk scriptSig scriptPubKey wit () h

/-- MINIMALIF (segwit v0 policy; the tapscript rule is unconditional and untouched). -/
theorem policy_monotone_minimalif (fl : Flags) (chk : Checker) (scriptSig scriptPubKey : Bytes)
    (wit : List Bytes) (h : verifyScript { fl with minimalif := true } chk scriptSig scriptPubKey wit = .ok ()) :
    verifyScript { fl with minimalif := false } chk scriptSig scriptPubKey wit = .ok () :=
  Lemmas.verifyScript_mono Lemmas.minimalif_tightening fl chk scriptSig scriptPubKey wit () h

/-- the hypotheses of the monotonicity theorems are satisfiable: a spend that verifies under all six flags -/
example : ∃ chk : Checker,
    verifyScript { cltv := true, csv := true, nulldummy := true, dersig := true, witness := true, taproot := true }
      chk [0x51] [0x51] [] = .ok () :=
  ⟨⟨fun _ _ _ _ => .ok false, fun _ _ _ _ => .ok (), fun _ => false, fun _ => false, fun _ _ _ _ => .ok false⟩,
   by rfl⟩

end BV.C06
