/- C06 line-protocol driver (core-only). Stub until the property's model lands. -/
namespace BV.C06.Driver

def handle : List String → String
  | _ => "unimplemented"

end BV.C06.Driver
