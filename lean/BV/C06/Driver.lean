/- C06 line-protocol driver (core-only).

  run  <flags> <tx> <idx> <spent> <oracle>            → ok | err | miss
  core <EXPECTED> <flags> <tx> <idx> <spent> <oracle> → ok | err:<CLASS> (or ok | err when EXPECTED = FAIL)
  collect <flags> <tx> <idx> <spent> <oracle>         → the oracle queries still unanswered (`,`-joined) or -
  runtx / coretx <EXPECTED> / collecttx               → the same over every input of the transaction
  runv <variant> … / par … / valtx … / multi …        → as run / run / runtx / runtx (other ways of driving the Go engine)
  classify <script>                                   → po= wp= p2sh= succ= p2a= p2tr= p2wpkh= p2wsh=
  sha1 | ripemd160 | sha256 | hash160 <hex>           → digest
  num <hex> <minimal 0|1> <maxlen>                    → value | err ;  numenc <int> → hex
  sighash legacy|v0|tap …                             → digest | none
  tok <script>                                        → opcode:datalen,… | err
  expect <value> <op> <args…>                         → answer of <op> (the Go side echoes <value>)

flags = btcd's numeric ScriptFlags; spent = amount:scriptPubKey,… (one per input); oracle = q=a,… | -
-/
import BV.C06.Checker
namespace BV.C06.Driver
open BV.Hex BV.C06

def hexE (s : String) : Option Bytes := if s.isEmpty then some [] else hexToList? s

def parseSpent (s : String) : Option (List TxOut) :=
  if s == "-" then some [] else
  (s.splitOn ",").mapM (fun e =>
    match e.splitOn ":" with
    | [a, sc] => do
      let a ← a.toNat?
      let sc ← hexE sc
      some { value := a, script := sc }
    | _ => none)

def parseOracle (s : String) : List (String × String) :=
  if s == "-" then [] else
  (s.splitOn ",").filterMap (fun e =>
    match e.splitOn "=" with
    | [q, a] => some (q, a)
    | _ => none)

def parseSpend (tx idx spent oracle : String) : Option Spend := do
  let txb ← hexToList? tx
  let tx ← parseTx txb
  let idx ← idx.toNat?
  let spent ← parseSpent spent
  if idx ≥ tx.ins.length || spent.length != tx.ins.length then none else
  some { tx := tx, idx := idx, spent := spent, oracle := parseOracle oracle }

def showResult (withClass : Bool) : R Unit → String
  | .ok _ => "ok"
  | .error (.ORACLE _) => "miss"
  | .error e => if withClass then "err:" ++ e.name else "err"

/-- collect mode: answer every missing query with the assumption "?" (treated as true) and go on, so that
one pass reports (almost) all the queries a spend needs. -/
def collect (sp : Spend) (fl : Flags) : Nat → List String → List String
  | 0, acc => acc
  | fuel + 1, acc =>
    match sp.verify fl with
    | .error (.ORACLE q) => collect { sp with oracle := (q, "?") :: sp.oracle } fl fuel (q :: acc)
    | _ => acc

def parseAnnex (s : String) : Option (Option Bytes) :=
  if s == "none" then some none else (hexE s).map some

def handleRun (fl tx idx spent oracle : String) : String :=
  match fl.toNat?, parseSpend tx idx spent oracle with
  | some fl, some sp => showResult false (sp.verify (Flags.ofNat fl))
  | _, _ => "bad-op"

def handleTx (fl tx spent oracle : String) : String :=
  match fl.toNat?, parseSpend tx "0" spent oracle with
  | some fl, some sp =>
    showResult false ((List.range sp.tx.ins.length).foldl
      (fun acc i => match acc with
        | .ok _ => ({ sp with idx := i } : Spend).verify (Flags.ofNat fl)
        | e => e) (.ok ()))
  | _, _ => "bad-op"

def handle : List String → String
  | "expect" :: _ :: rest => handle rest
  | ["run", fl, tx, idx, spent, oracle] =>
    match fl.toNat?, parseSpend tx idx spent oracle with
    | some fl, some sp => showResult false (sp.verify (Flags.ofNat fl))
    | _, _ => "bad-op"
  | ["core", expected, fl, tx, idx, spent, oracle] =>
    match fl.toNat?, parseSpend tx idx spent oracle with
    | some fl, some sp => showResult (expected != "FAIL") (sp.verify (Flags.ofNat fl))
    | _, _ => "bad-op"
  | ["collect", fl, tx, idx, spent, oracle] =>
    match fl.toNat?, parseSpend tx idx spent oracle with
    | some fl, some sp =>
      let ms := collect sp (Flags.ofNat fl) 5000 []
      if ms.isEmpty then "-" else ",".intercalate ms.reverse
    | _, _ => "bad-op"
  | ["collecttx", fl, tx, _, spent, oracle] =>
    match fl.toNat?, parseSpend tx "0" spent oracle with
    | some fl, some sp =>
      let ms := (List.range sp.tx.ins.length).foldl
        (fun acc i => collect { sp with idx := i, oracle := acc.map (fun q => (q, "?")) ++ sp.oracle } (Flags.ofNat fl) 5000 acc) []
      if ms.isEmpty then "-" else ",".intercalate ms.reverse
    | _, _ => "bad-op"
  | ["runtx", fl, tx, _, spent, oracle] =>
    match fl.toNat?, parseSpend tx "0" spent oracle with
    | some fl, some sp =>
      showResult false ((List.range sp.tx.ins.length).foldl
        (fun acc i => match acc with
          | .ok _ => ({ sp with idx := i } : Spend).verify (Flags.ofNat fl)
          | e => e) (.ok ()))
    | _, _ => "bad-op"
  | ["coretx", _, fl, tx, _, spent, oracle] =>
    match fl.toNat?, parseSpend tx "0" spent oracle with
    | some fl, some sp =>
      showResult false ((List.range sp.tx.ins.length).foldl
        (fun acc i => match acc with
          | .ok _ => ({ sp with idx := i } : Spend).verify (Flags.ofNat fl)
          | e => e) (.ok ()))
    | _, _ => "bad-op"
  | ["runv", _, fl, tx, idx, spent, oracle] => handleRun fl tx idx spent oracle
  | ["par", fl, tx, idx, spent, oracle] => handleRun fl tx idx spent oracle
  | ["multi", fl, tx, _, spent, oracle] => handleTx fl tx spent oracle
  | ["valtx", fl, tx, _, spent, oracle] =>
    match fl.toNat?, parseSpend tx "0" spent oracle with
    | some fl, some sp =>
      showResult false ((List.range sp.tx.ins.length).foldl
        (fun acc i => match acc with
          | .ok _ => ({ sp with idx := i } : Spend).verify (Flags.ofNat fl)
          | e => e) (.ok ()))
    | _, _ => "bad-op"
  | ["classify", sc] =>
    match hexToList? sc with
    | none => "bad-op"
    | some s =>
      let b := fun (x : Bool) => if x then "1" else "0"
      let wp := witnessProgram? s
      let wps := match wp with
        | some (v, p) => toString v ++ ":" ++ listToHex p
        | none => "-"
      let isWp := fun (v n : Nat) => match wp with
        | some (v', p) => v' == v && p.length == n
        | none => false
      "po=" ++ b (isPushOnly s) ++ " wp=" ++ wps ++ " p2sh=" ++ b (isP2SH s) ++
        " succ=" ++ b (scanOpSuccess s.length s == some true) ++ " p2a=" ++ b (s == [0x51, 0x02, 0x4e, 0x73]) ++
        " p2tr=" ++ b (isWp 1 32) ++ " p2wpkh=" ++ b (isWp 0 20) ++ " p2wsh=" ++ b (isWp 0 32)
  | ["sha1", h] => match hexToList? h with | some b => listToHex (sha1 b) | none => "bad-op"
  | ["ripemd160", h] => match hexToList? h with | some b => listToHex (ripemd160 b) | none => "bad-op"
  | ["sha256", h] => match hexToList? h with | some b => listToHex (sha256 b) | none => "bad-op"
  | ["hash160", h] => match hexToList? h with | some b => listToHex (hash160 b) | none => "bad-op"
  | ["num", h, m, len] =>
    match hexToList? h, len.toNat? with
    | some b, some len =>
      match decodeNum b (m == "1") len with
      | .ok v => toString v
      | .error _ => "err"
    | _, _ => "bad-op"
  | ["numenc", n] => match n.toInt? with | some n => listToHexTok (encodeNum n) | none => "bad-op"
  | ["sighash", "legacy", tx, idx, script, ht] =>
    match (hexToList? tx).bind parseTx, idx.toNat?, hexToList? script, ht.toNat? with
    | some tx, some idx, some sc, some ht => listToHex (sighashLegacy tx idx sc ht)
    | _, _, _, _ => "bad-op"
  | ["sighash", "v0", tx, idx, script, ht, amt] =>
    match (hexToList? tx).bind parseTx, idx.toNat?, hexToList? script, ht.toNat?, amt.toNat? with
    | some tx, some idx, some sc, some ht, some amt => listToHex (sighashBip143 tx idx sc ht amt)
    | _, _, _, _, _ => "bad-op"
  | ["sighash", "tap", tx, idx, spent, ht, annex, leaf, pos] =>
    match (hexToList? tx).bind parseTx, idx.toNat?, parseSpent spent, ht.toNat?, parseAnnex annex, pos.toNat? with
    | some tx, some idx, some spent, some ht, some annex, some pos =>
      let ext := if leaf == "none" then none else (hexE leaf).map (fun l => (l, pos))
      match sighashTaproot tx idx spent ht annex ext with
      | some d => listToHex d
      | none => "none"
    | _, _, _, _, _, _ => "bad-op"
  | ["tok", s] =>
    match hexToList? s with
    | none => "bad-op"
    | some b =>
      let rec go : Nat → Bytes → List String → String
        | _, [], acc => if acc.isEmpty then "-" else ",".intercalate acc.reverse
        | 0, _ :: _, _ => "err"
        | fuel + 1, s@(_ :: _), acc =>
          match getOp s with
          | none => "err"
          | some (op, d, rest) => go fuel rest ((toString op ++ ":" ++ toString d.length) :: acc)
      go b.length b []
  | _ => "bad-op"

end BV.C06.Driver
