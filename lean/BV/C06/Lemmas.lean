/-
C06 helper lemmas about the interpreter of Model.lean (core-only).
-/
import BV.C06.Model
namespace BV.C06.Lemmas
open BV.C06

/-! ### tokenizer consumes input -/

theorem getOp_shorter {s : Bytes} {op : Nat} {d rest : Bytes} (h : getOp s = some (op, d, rest)) :
    rest.length < s.length := by
  unfold getOp at h
  split at h
  · cases h
  · rename_i b r
    simp only [] at h
    split at h
    · split at h
      · cases h
      · cases h; simp [List.length_drop]; omega
    · split at h
      · split at h
        · rename_i l r'
          split at h
          · cases h
          · cases h; simp [List.length_drop]; omega
        · cases h
      · split at h
        · split at h
          · rename_i l0 l1 r'
            split at h
            · cases h
            · cases h; simp [List.length_drop]; omega
          · cases h
        · split at h
          · split at h
            · rename_i l0 l1 l2 l3 r'
              split at h
              · cases h
              · cases h; simp [List.length_drop]; omega
            · cases h
          · cases h; simp

/-! ### fuel -/

theorem evalLoop_fuel_succ (c : Ctx) : ∀ (fuel : Nat) (script : Bytes) (st : St),
    script.length ≤ fuel → evalLoop c (fuel + 1) script st = evalLoop c fuel script st := by
  intro fuel
  induction fuel with
  | zero =>
    intro script st h
    have : script = [] := List.eq_nil_of_length_eq_zero (by omega)
    subst this
    simp [evalLoop]
  | succ n ih =>
    intro script st h
    cases script with
    | nil => simp [evalLoop]
    | cons b t =>
      rw [evalLoop, evalLoop]
      cases hg : getOp (b :: t) with
      | none => rfl
      | some r =>
        obtain ⟨op, d, rest⟩ := r
        have hl := getOp_shorter hg
        simp only []
        cases hs : stepOp c op d rest st with
        | error e => rfl
        | ok st' =>
          simp only [bind, Except.bind]
          apply ih
          simp only [List.length_cons] at hl h; omega

theorem evalLoop_fuel_irrelevant (c : Ctx) (script : Bytes) (st : St) :
    ∀ k, evalLoop c (script.length + k) script st = evalLoop c script.length script st := by
  intro k
  induction k with
  | zero => rfl
  | succ k ih =>
    rw [← ih, ← Nat.add_assoc]
    exact evalLoop_fuel_succ c _ _ _ (by omega)

/-! ### conditional stack is empty on success -/

theorem evalLoop_cond_empty (c : Ctx) : ∀ (fuel : Nat) (script : Bytes) (st st' : St),
    evalLoop c fuel script st = .ok st' → st'.cond = [] := by
  intro fuel
  induction fuel with
  | zero =>
    intro script st st' h
    cases script with
    | nil =>
      simp only [evalLoop] at h
      split at h
      · cases h; rename_i hc; simpa using hc
      · cases h
    | cons b t => simp [evalLoop] at h
  | succ n ih =>
    intro script st st' h
    cases script with
    | nil =>
      simp only [evalLoop] at h
      split at h
      · cases h; rename_i hc; simpa using hc
      · cases h
    | cons b t =>
      rw [evalLoop] at h
      cases hg : getOp (b :: t) with
      | none => rw [hg] at h; cases h
      | some r =>
        obtain ⟨op, d, rest⟩ := r
        rw [hg] at h
        simp only [] at h
        cases hs : stepOp c op d rest st with
        | error e => rw [hs] at h; cases h
        | ok st1 =>
          rw [hs] at h
          simp only [bind, Except.bind] at h
          exact ih rest st1 st' h

/-! ### one step -/


theorem stepOp_ok_iff {c : Ctx} {op : Nat} {d rest : Bytes} {st st' : St}
    (h : stepOp c op d rest st = .ok st') :
    ∃ st0 st1, stepPre c op d st = .ok st0 ∧ stepCore c op d rest st0 = .ok st1 ∧ stepPost st1 = .ok st' := by
  unfold stepOp at h
  simp only [bind, Except.bind] at h
  split at h
  · cases h
  · rename_i st0 h0
    split at h
    · cases h
    · rename_i st1 h1
      exact ⟨st0, st1, h0, h1, h⟩

theorem stepPre_ok {c : Ctx} {op : Nat} {d : Bytes} {st st0 : St} (h : stepPre c op d st = .ok st0) :
    d.length ≤ MAX_SCRIPT_ELEMENT_SIZE ∧ countOp c op st.nOps ≤ MAX_OPS_PER_SCRIPT ∧ isDisabled op = false ∧
    st0 = { st with nOps := countOp c op st.nOps } := by
  unfold stepPre at h
  split at h
  · cases h
  · split at h
    · cases h
    · split at h
      · cases h
      · split at h
        · cases h
        · cases h
          rename_i h1 h2 h3 h4
          refine ⟨by omega, by omega, by simpa using h3, rfl⟩

theorem stepPost_ok {st st' : St} (h : stepPost st = .ok st') :
    st.stack.length + st.alt.length ≤ MAX_STACK_SIZE ∧ st' = { st with opPos := st.opPos + 1 } := by
  unfold stepPost at h
  split at h
  · cases h
  · cases h; exact ⟨by omega, rfl⟩


theorem unaryNum_nOps {c : Ctx} {st st' : St} {f : Int → Int} (h : unaryNum c st f = .ok st') :
    st'.nOps = st.nOps := by
  unfold unaryNum at h
  split at h
  · simp only [bind, Except.bind] at h
    split at h
    · cases h
    · cases h; rfl
  · cases h

theorem binaryNum_nOps {c : Ctx} {st st' : St} {f : Int → Int → Bytes} (h : binaryNum c st f = .ok st') :
    st'.nOps = st.nOps := by
  unfold binaryNum at h
  split at h
  · simp only [bind, Except.bind] at h
    split at h
    · cases h
    · split at h
      · cases h
      · cases h; rfl
  · cases h

theorem hashOp_nOps {st st' : St} {f : Bytes → Bytes} (h : hashOp st f = .ok st') :
    st'.nOps = st.nOps := by
  unfold hashOp at h
  split at h
  · cases h; rfl
  · cases h

theorem opIf_nOps {c : Ctx} {st st' : St} {b : Bool} (h : opIf c st b = .ok st') :
    st'.nOps = st.nOps := by
  unfold opIf at h
  split at h
  · split at h
    · cases h
    · split at h
      · cases h
      · split at h
        · cases h
        · cases h; rfl
  · cases h; rfl

theorem multisigArgs_nOps {c : Ctx} {st : St} {a : MsArgs} (h : multisigArgs c st = .ok a) :
    a.nOps ≤ MAX_OPS_PER_SCRIPT := by
  unfold multisigArgs at h
  split at h
  · cases h
  · split at h
    · cases h
    · split at h
      · cases h
      · simp only [] at h
        split at h
        · cases h
        · split at h
          · cases h
          · rename_i hops
            split at h
            · cases h
            · split at h
              · cases h
              · split at h
                · cases h
                · split at h
                  · cases h
                  · split at h
                    · cases h
                    · cases h; simp only []; omega

theorem multisigFinish_nOps {c : Ctx} {st st' : St} {a : MsArgs} {s v : Bool}
    (h : multisigFinish c st a s v = .ok st') : st'.nOps = a.nOps := by
  unfold multisigFinish at h
  split at h
  · cases h
  · split at h
    · cases h
    · split at h
      · split at h
        · cases h; rfl
        · cases h
      · cases h; rfl

theorem opCheckMultisig_nOps {c : Ctx} {st st' : St} {v : Bool} (h : opCheckMultisig c st v = .ok st') :
    st'.nOps ≤ MAX_OPS_PER_SCRIPT := by
  unfold opCheckMultisig at h
  simp only [bind, Except.bind] at h
  split at h
  · cases h
  · rename_i a ha
    split at h
    · cases h
    · split at h
      · cases h
      · rw [multisigFinish_nOps h]; exact multisigArgs_nOps ha

theorem opCLTV_eq {c : Ctx} {st st' : St} (h : opCLTV c st = .ok st') : st' = st := by
  unfold opCLTV at h
  split at h
  · cases h; rfl
  · split at h
    · cases h
    · split at h
      · cases h
      · split at h
        · cases h
        · split at h
          · cases h
          · cases h; rfl

theorem opCSV_eq {c : Ctx} {st st' : St} (h : opCSV c st = .ok st') : st' = st := by
  unfold opCSV at h
  split at h
  · cases h; rfl
  · split at h
    · cases h
    · split at h
      · cases h
      · split at h
        · cases h
        · split at h
          · cases h; rfl
          · split at h
            · cases h
            · cases h; rfl

theorem opPickRoll_nOps {c : Ctx} {st st' : St} {b : Bool} (h : opPickRoll c st b = .ok st') :
    st'.nOps = st.nOps := by
  unfold opPickRoll at h
  split at h
  · split at h
    · cases h
    · simp only [] at h
      split at h
      · cases h
      · split at h
        · cases h
        · split at h
          · cases h; rfl
          · cases h; rfl
  · cases h

theorem opWithin_nOps {c : Ctx} {st st' : St} (h : opWithin c st = .ok st') : st'.nOps = st.nOps := by
  unfold opWithin at h
  split at h
  · split at h
    · cases h; rfl
    · cases h
    · cases h
    · cases h
  · cases h

theorem opNumEqualVerify_nOps {c : Ctx} {st st' : St} (h : opNumEqualVerify c st = .ok st') :
    st'.nOps = st.nOps := by
  unfold opNumEqualVerify at h
  split at h
  · cases h
  · rename_i st1 h1
    have := binaryNum_nOps h1
    split at h
    · split at h
      · cases h; exact this
      · cases h
    · cases h

theorem opChecksig_nOps {c : Ctx} {st st' : St} {v : Bool} (h : opChecksig c st v = .ok st') :
    st'.nOps = st.nOps := by
  unfold opChecksig at h
  split at h
  · split at h
    · cases h
    · split at h
      · split at h
        · cases h; rfl
        · cases h
      · cases h; rfl
  · cases h

theorem opChecksigAdd_nOps {c : Ctx} {st st' : St} (h : opChecksigAdd c st = .ok st') :
    st'.nOps = st.nOps := by
  unfold opChecksigAdd at h
  split at h
  · cases h
  · split at h
    · split at h
      · cases h
      · split at h
        · cases h
        · cases h; rfl
    · cases h

set_option maxHeartbeats 1000000 in
theorem execOp_nOps {c : Ctx} {op : Nat} {rest : Bytes} {st st' : St}
    (h : execOp c op rest st = .ok st') :
    st'.nOps = st.nOps ∨ st'.nOps ≤ MAX_OPS_PER_SCRIPT := by
  unfold execOp at h
  split at h
  all_goals first
    | (cases h; done)
    | (cases h; exact Or.inl rfl)
    | exact Or.inl (unaryNum_nOps h)
    | exact Or.inl (binaryNum_nOps h)
    | exact Or.inl (hashOp_nOps h)
    | exact Or.inl (opIf_nOps h)
    | exact Or.inl (opPickRoll_nOps h)
    | exact Or.inl (opWithin_nOps h)
    | exact Or.inl (opNumEqualVerify_nOps h)
    | exact Or.inl (opChecksig_nOps h)
    | exact Or.inl (opChecksigAdd_nOps h)
    | exact Or.inl (by rw [opCLTV_eq h])
    | exact Or.inl (by rw [opCSV_eq h])
    | exact Or.inr (opCheckMultisig_nOps h)
    | (split at h <;> first
        | (cases h; done)
        | (cases h; exact Or.inl rfl)
        | (simp only [invalidStack] at h; cases h)
        | (split at h <;> first
            | (cases h; done)
            | (cases h; exact Or.inl rfl)
            | (simp only [invalidStack] at h; cases h)))

theorem stepCore_nOps {c : Ctx} {op : Nat} {d rest : Bytes} {st st' : St}
    (h : stepCore c op d rest st = .ok st') :
    st'.nOps = st.nOps ∨ st'.nOps ≤ MAX_OPS_PER_SCRIPT := by
  unfold stepCore at h
  split at h
  · split at h
    · cases h
    · cases h; exact Or.inl rfl
  · split at h
    · exact execOp_nOps h
    · cases h; exact Or.inl rfl

/-- every successful step: pushed data ≤ 520 bytes, stack + altstack ≤ 1000, op count ≤ 201 -/
theorem stepOp_ok_bounds {c : Ctx} {op : Nat} {d rest : Bytes} {st st' : St}
    (h : stepOp c op d rest st = .ok st') :
    d.length ≤ MAX_SCRIPT_ELEMENT_SIZE ∧ st'.stack.length + st'.alt.length ≤ MAX_STACK_SIZE ∧
    st'.nOps ≤ MAX_OPS_PER_SCRIPT := by
  obtain ⟨st0, st1, h0, h1, h2⟩ := stepOp_ok_iff h
  obtain ⟨hd, hc, _, e0⟩ := stepPre_ok h0
  obtain ⟨hs, e2⟩ := stepPost_ok h2
  refine ⟨hd, ?_, ?_⟩
  · subst e2; exact hs
  · subst e2
    simp only []
    rcases stepCore_nOps h1 with h' | h'
    · rw [h', e0]; exact hc
    · exact h'

def Bounded (st : St) : Prop :=
  st.stack.length + st.alt.length ≤ MAX_STACK_SIZE ∧ st.nOps ≤ MAX_OPS_PER_SCRIPT

theorem evalLoop_ok_bounded (c : Ctx) : ∀ (fuel : Nat) (script : Bytes) (st st' : St),
    evalLoop c fuel script st = .ok st' → (script = [] ∧ st' = st) ∨ Bounded st' := by
  intro fuel
  induction fuel with
  | zero =>
    intro script st st' h
    cases script with
    | nil =>
      simp only [evalLoop] at h
      split at h
      · cases h; exact Or.inl ⟨rfl, rfl⟩
      · cases h
    | cons b t => simp [evalLoop] at h
  | succ n ih =>
    intro script st st' h
    cases script with
    | nil =>
      simp only [evalLoop] at h
      split at h
      · cases h; exact Or.inl ⟨rfl, rfl⟩
      · cases h
    | cons b t =>
      rw [evalLoop] at h
      cases hg : getOp (b :: t) with
      | none => rw [hg] at h; cases h
      | some r =>
        obtain ⟨op, d, rest⟩ := r
        rw [hg] at h
        simp only [] at h
        cases hs : stepOp c op d rest st with
        | error e => rw [hs] at h; cases h
        | ok st1 =>
          rw [hs] at h
          simp only [bind, Except.bind] at h
          have hb := stepOp_ok_bounds hs
          rcases ih rest st1 st' h with ⟨_, e⟩ | hB
          · subst e; exact Or.inr ⟨hb.2.1, hb.2.2⟩
          · exact Or.inr hB

theorem evalScript_ok {c : Ctx} {script : Bytes} {stack out : List Bytes} {w : Int}
    (h : evalScript c script stack w = .ok out) :
    ((c.sv = .base ∨ c.sv = .witnessV0) → script.length ≤ MAX_SCRIPT_SIZE) ∧
    ((script = [] ∧ out = stack) ∨ out.length ≤ MAX_STACK_SIZE) := by
  unfold evalScript at h
  simp only [bind, Except.bind] at h
  split at h
  · cases h
  · rename_i hsz
    split at h
    · cases h
    · rename_i st' hl
      cases h
      constructor
      · intro hsv
        simp only [Bool.and_eq_true, Bool.or_eq_true, beq_iff_eq, decide_eq_true_eq, not_and, Nat.not_lt] at hsz
        exact hsz hsv
      · rcases evalLoop_ok_bounded c _ _ _ _ hl with ⟨e1, e2⟩ | hB
        · subst e2; exact Or.inl ⟨e1, rfl⟩
        · exact Or.inr (by have := hB.1; omega)

theorem exec_of_cond {st st0 : St} (h : st0.cond = st.cond) : st0.exec = st.exec := by
  unfold St.exec; rw [h]

/-- a non-conditional opcode in a non-executing branch leaves everything but the counters unchanged -/
theorem stepOp_unexecuted {c : Ctx} {op : Nat} {d rest : Bytes} {st st' : St}
    (hex : st.exec = false) (hop : ¬ (OP_IF ≤ op ∧ op ≤ OP_ENDIF))
    (h : stepOp c op d rest st = .ok st') :
    st' = { st with nOps := countOp c op st.nOps, opPos := st.opPos + 1 } := by
  obtain ⟨st0, st1, h0, h1, h2⟩ := stepOp_ok_iff h
  obtain ⟨_, _, _, e0⟩ := stepPre_ok h0
  obtain ⟨_, e2⟩ := stepPost_ok h2
  have hex0 : st0.exec = false := by rw [e0]; exact hex
  unfold stepCore at h1
  rw [hex0] at h1
  simp only [Bool.false_and, Bool.false_or, Bool.false_eq_true, if_false] at h1
  split at h1
  · rename_i hc
    simp only [Bool.and_eq_true, decide_eq_true_eq] at hc
    exact absurd hc hop
  · cases h1
    rw [e2, e0]


/-! ### Spec-level facts -/

theorem minimal_push_unique (d : Bytes) (op op' : Nat) (hl : d.length ≤ 65535)
    (h : checkMinimalPush op d = true) (h' : checkMinimalPush op' d = true) : op = op' := by
  match d, hl, h, h' with
  | [], _, h, h' =>
    simp only [checkMinimalPush, beq_iff_eq] at h h'; omega
  | [b], _, h, h' =>
    simp only [checkMinimalPush] at h h'
    by_cases c1 : (decide (1 ≤ b.toNat) && decide (b.toNat ≤ 16)) = true
    · simp [c1] at h
    · by_cases c2 : (b == 0x81) = true
      · simp [c1, c2] at h
      · simp only [c1, c2, if_false, Bool.false_eq_true, beq_iff_eq] at h h'; omega
  | b1 :: b2 :: t, hl, h, h' =>
    simp only [checkMinimalPush, OP_PUSHDATA1, OP_PUSHDATA2] at h h'
    by_cases c1 : (b1 :: b2 :: t).length ≤ 75
    · simp only [c1, if_true, beq_iff_eq] at h h'; omega
    · by_cases c2 : (b1 :: b2 :: t).length ≤ 255
      · simp only [c1, c2, if_true, if_false, beq_iff_eq] at h h'; omega
      · by_cases c3 : (b1 :: b2 :: t).length ≤ 65535
        · simp only [c1, c2, c3, if_true, if_false, beq_iff_eq] at h h'; omega
        · omega


/-! ### script numbers -/


theorem leNat_append (a b : Bytes) : leNat (a ++ b) = leNat a + 256 ^ a.length * leNat b := by
  induction a with
  | nil => simp [leNat]
  | cons x xs ih =>
    simp only [List.cons_append, leNat, ih, List.length_cons, Nat.pow_succ]
    rw [Nat.mul_add, Nat.mul_comm (256 ^ xs.length) 256, Nat.mul_assoc, Nat.add_assoc]

theorem natLEBytes_zero (fuel : Nat) : natLEBytes fuel 0 = [] := by cases fuel <;> simp [natLEBytes]

theorem toNat_ofNat_lt (k : Nat) (h : k < 256) : (UInt8.ofNat k).toNat = k := by
  simp [UInt8.toNat_ofNat']; omega

theorem natLEBytes_leNat : ∀ fuel m, m < 256 ^ fuel → leNat (natLEBytes fuel m) = m := by
  intro fuel
  induction fuel with
  | zero => intro m h; simp at h; subst h; simp [natLEBytes, leNat]
  | succ f ih =>
    intro m h
    unfold natLEBytes
    split
    · rename_i h0; simp at h0; subst h0; simp [leNat]
    · have hd : m / 256 < 256 ^ f := by
        rw [Nat.pow_succ] at h
        exact Nat.div_lt_of_lt_mul (by rw [Nat.mul_comm]; exact h)
      simp only [leNat, ih _ hd, toNat_ofNat_lt _ (Nat.mod_lt m (by decide))]
      omega

/-- the encoding of a positive magnitude ends in a non-zero byte -/
theorem natLEBytes_snoc : ∀ fuel m, 0 < m → m < 256 ^ fuel →
    ∃ init last, natLEBytes fuel m = init ++ [last] ∧ last.toNat ≠ 0 := by
  intro fuel
  induction fuel with
  | zero => intro m h0 h; simp at h; omega
  | succ f ih =>
    intro m h0 h
    have hd : m / 256 < 256 ^ f := by
      rw [Nat.pow_succ] at h
      exact Nat.div_lt_of_lt_mul (by rw [Nat.mul_comm]; exact h)
    have hne : (m == 0) = false := by simp; omega
    by_cases hq : m / 256 = 0
    · refine ⟨[], UInt8.ofNat (m % 256), ?_, ?_⟩
      · simp [natLEBytes, hne, hq, natLEBytes_zero]
      · rw [toNat_ofNat_lt _ (Nat.mod_lt m (by decide))]
        have : m < 256 := by
          rcases Nat.lt_or_ge m 256 with h' | h'
          · exact h'
          · have := Nat.div_pos h' (by decide : 0 < 256); omega
        omega
    · obtain ⟨init, last, e, hl⟩ := ih (m / 256) (by omega) hd
      refine ⟨UInt8.ofNat (m % 256) :: init, last, ?_, hl⟩
      simp [natLEBytes, hne, e]


theorem numValue_snoc (init : Bytes) (last : UInt8) :
    numValue (init ++ [last]) =
      if last.toNat ≥ 0x80 then
        -(((leNat init + 256 ^ init.length * last.toNat : Nat) : Int) - (0x80 : Int) * 256 ^ init.length)
      else ((leNat init + 256 ^ init.length * last.toNat : Nat) : Int) := by
  unfold numValue
  rw [List.getLast?_concat]
  simp only [leNat_append, List.length_append, List.length_singleton, Nat.add_sub_cancel, leNat, Nat.mul_zero,
    Nat.add_zero]

theorem isMinimalNum_snoc (init : Bytes) (last : UInt8) (h0 : last.toNat ≠ 0) (h80 : last.toNat ≠ 0x80) :
    isMinimalNum (init ++ [last]) = true := by
  unfold isMinimalNum
  rw [List.reverse_concat]
  have e0 : (last == 0x00) = false := by
    apply Bool.eq_false_iff.mpr; intro h; simp at h; subst h; exact h0 rfl
  have e1 : (last == 0x80) = false := by
    apply Bool.eq_false_iff.mpr; intro h; simp at h; subst h; exact h80 rfl
  simp only [e0, e1, Bool.or_false, Bool.false_eq_true, if_false]

theorem isMinimalNum_snoc2 (init : Bytes) (prev last : UInt8) (hp : prev.toNat ≥ 0x80) :
    isMinimalNum (init ++ [prev] ++ [last]) = true := by
  unfold isMinimalNum
  rw [List.reverse_concat, List.reverse_concat]
  simp only []
  split
  · simp [hp]
  · rfl

set_option maxRecDepth 10000 in
/-- `encodeNum` then `numValue` is the identity, and the encoding is minimal, for every 64-bit magnitude -/
theorem scriptnum_roundtrip (n : Int) (hn : n.natAbs < 2 ^ 63) :
    numValue (encodeNum n) = n ∧ isMinimalNum (encodeNum n) = true := by
  unfold encodeNum
  by_cases hz : n = 0
  · subst hz; simp [numValue, isMinimalNum]
  · have hne : (n == 0) = false := by simpa using hz
    simp only [hne, Bool.false_eq_true, if_false]
    have hpos : 0 < n.natAbs := by omega
    have hlt : n.natAbs < 256 ^ 9 := by
      have : (2:Nat) ^ 63 < 256 ^ 9 := by decide
      omega
    obtain ⟨init, last, e, hl⟩ := natLEBytes_snoc 9 n.natAbs hpos hlt
    have hval := natLEBytes_leNat 9 n.natAbs hlt
    rw [e] at hval
    rw [leNat_append] at hval
    simp only [leNat, Nat.mul_zero, Nat.add_zero] at hval
    rw [e, List.getLast?_concat]
    simp only []
    have hlast : last.toNat < 256 := last.toNat_lt
    by_cases hb : last.toNat ≥ 0x80
    · simp only [hb, if_true]
      by_cases hneg : n < 0
      · simp only [hneg, if_true]
        constructor
        · rw [numValue_snoc]
          have h128 : (0x80 : UInt8).toNat = 128 := by decide
          rw [h128, if_pos (by decide), leNat_append, List.length_append, List.length_singleton]
          simp only [leNat, Nat.mul_zero, Nat.add_zero]
          rw [Nat.pow_succ]
          push_cast
          have : (n.natAbs : Int) = -n := by omega
          have hv : ((leNat init + 256 ^ init.length * last.toNat : Nat) : Int) = -n := by rw [hval]; exact this
          push_cast at hv
          omega
        · exact isMinimalNum_snoc2 init last 0x80 hb
      · simp only [hneg, if_false]
        constructor
        · rw [numValue_snoc]
          have h0 : (0x00 : UInt8).toNat = 0 := by decide
          rw [h0, if_neg (by decide), leNat_append]
          simp only [leNat, Nat.mul_zero, Nat.add_zero]
          have : (n.natAbs : Int) = n := by omega
          have hv : ((leNat init + 256 ^ init.length * last.toNat : Nat) : Int) = n := by rw [hval]; exact this
          push_cast at hv ⊢
          omega
        · exact isMinimalNum_snoc2 init last 0x00 hb
    · simp only [hb, if_false]
      by_cases hneg : n < 0
      · simp only [hneg, if_true, List.dropLast_concat]
        have hlt128 : last.toNat + 0x80 < 256 := by omega
        have hto : (UInt8.ofNat (last.toNat + 0x80)).toNat = last.toNat + 0x80 := toNat_ofNat_lt _ hlt128
        constructor
        · rw [numValue_snoc, hto]
          have : last.toNat + 0x80 ≥ 0x80 := by omega
          rw [if_pos this]
          have e : leNat init + 256 ^ init.length * (last.toNat + 0x80) = n.natAbs + 256 ^ init.length * 0x80 := by
            rw [Nat.mul_add, ← Nat.add_assoc, hval]
          rw [e]
          have e2 : ((n.natAbs + 256 ^ init.length * 0x80 : Nat) : Int) =
              (n.natAbs : Int) + (256 : Int) ^ init.length * 0x80 := by push_cast; rfl
          rw [e2]
          have e3 : (n.natAbs : Int) = -n := by omega
          rw [e3]
          generalize (256 : Int) ^ init.length = P
          omega
        · apply isMinimalNum_snoc
          · rw [hto]; omega
          · rw [hto]; omega
      · simp only [hneg, if_false]
        constructor
        · rw [numValue_snoc]
          simp only [hb, if_false]
          have : (n.natAbs : Int) = n := by omega
          rw [hval]; exact this
        · apply isMinimalNum_snoc
          · exact hl
          · omega

end BV.C06.Lemmas
