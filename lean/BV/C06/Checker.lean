/-
C06 Checker: the concrete `Checker` for one spend (`GenericTransactionSignatureChecker`): computes
the signature hash in Lean and asks the protocol line's oracle table only for the curve equations
(ECDSA verify of (pubkey, r, s, digest); BIP340 verify; taproot tweak addition). A query that is not
in the table is the explicit error `ORACLE q`. The answer "?" (never sent by the harness; inserted only by the driver's
`collect` mode while it enumerates the queries of a spend) counts as "holds". Core-only.
-/
import BV.C06.SigHash
import BV.Common.Hex
namespace BV.C06
open BV.Hex

structure Spend where
  tx : Tx
  idx : Nat
  spent : List TxOut          -- one per input (amount, scriptPubKey)
  oracle : List (String × String)

def Spend.amount (s : Spend) : Nat := match s.spent[s.idx]? with | some o => o.value | none => 0

def hex32 (n : Nat) : String := listToHex ((le n 32).reverse)

def lookup (tbl : List (String × String)) (q : String) : R String :=
  match tbl.find? (fun e => e.1 == q) with
  | some e => .ok e.2
  | none => .error (.ORACLE q)

/-- `CPubKey(vch).IsValid()`: length matches the header byte -/
def pubkeyShapeOk (pk : Bytes) : Bool :=
  match pk with
  | [] => false
  | h :: _ =>
    if h == 2 || h == 3 then pk.length == 33
    else if h == 4 || h == 6 || h == 7 then pk.length == 65
    else false

def ecdsaQuery (pk : Bytes) (r s : Nat) (digest : Bytes) : String :=
  "e:" ++ listToHex pk ++ ":" ++ hex32 r ++ ":" ++ hex32 s ++ ":" ++ listToHex digest

/-- `CheckECDSASignature` -/
def Spend.ecdsa (sp : Spend) (sig pk code : Bytes) (sv : SigVer) : R Bool :=
  if !pubkeyShapeOk pk then .ok false else
  match sig.getLast? with
  | none => .ok false
  | some ht =>
    let digest := match sv with
      | .witnessV0 => sighashBip143 sp.tx sp.idx code ht.toNat sp.amount
      | _ => sighashLegacy sp.tx sp.idx code ht.toNat
    match parseDerLax sig.dropLast with
    | none => .ok false
    | some (r, s) =>
      if r == 0 || s == 0 then .ok false else
      let s := if s > SECP_N / 2 then SECP_N - s else s     -- secp256k1_ecdsa_signature_normalize
      do let a ← lookup sp.oracle (ecdsaQuery pk r s digest)
         .ok (a == "1" || a == "?")

def schnorrQuery (pk sig digest : Bytes) : String :=
  "s:" ++ listToHex pk ++ ":" ++ listToHex sig ++ ":" ++ listToHex digest

/-- `CheckSchnorrSignature` -/
def Spend.schnorr (sp : Spend) (sig pk : Bytes) (sv : SigVer) (xd : ExecData) : R Unit :=
  if sig.length != 64 && sig.length != 65 then .error .SCHNORR_SIG_SIZE else
  let ht := if sig.length == 65 then byteAt sig 64 else 0
  if sig.length == 65 && ht == 0 then .error .SCHNORR_SIG_HASHTYPE else
  let ext := if sv == .tapscript then some (xd.tapleafHash, xd.codesepPos) else none
  match sighashTaproot sp.tx sp.idx sp.spent ht xd.annex ext with
  | none => .error .SCHNORR_SIG_HASHTYPE
  | some digest => do
    let a ← lookup sp.oracle (schnorrQuery pk (sig.take 64) digest)
    if a == "1" || a == "?" then .ok () else .error .SCHNORR_SIG

/-- `CheckLockTime` -/
def Spend.lockTime (sp : Spend) (n : Int) : Bool :=
  let txLt : Int := sp.tx.lockTime
  if !((txLt < LOCKTIME_THRESHOLD && n < LOCKTIME_THRESHOLD) ||
       (txLt ≥ LOCKTIME_THRESHOLD && n ≥ LOCKTIME_THRESHOLD)) then false
  else if n > txLt then false
  else match sp.tx.ins[sp.idx]? with
    | some i => i.sequence != SEQUENCE_FINAL
    | none => false

/-- `CheckSequence` -/
def Spend.sequence (sp : Spend) (n : Int) : Bool :=
  match sp.tx.ins[sp.idx]? with
  | none => false
  | some i =>
    if sp.tx.version < 2 then false
    else if i.sequence &&& SEQUENCE_LOCKTIME_DISABLE_FLAG != 0 then false
    else
      let mask := SEQUENCE_LOCKTIME_TYPE_FLAG ||| SEQUENCE_LOCKTIME_MASK
      let txS := i.sequence &&& mask
      let nS := n.toNat &&& mask
      if !((txS < SEQUENCE_LOCKTIME_TYPE_FLAG && nS < SEQUENCE_LOCKTIME_TYPE_FLAG) ||
           (txS ≥ SEQUENCE_LOCKTIME_TYPE_FLAG && nS ≥ SEQUENCE_LOCKTIME_TYPE_FLAG)) then false
      else !(nS > txS)

def tweakQuery (p t : Bytes) : String := "t:" ++ listToHex p ++ ":" ++ listToHex t

/-- `XOnlyPubKey::CheckTapTweak`: the table answers `lift_x(p) + t·G` as parity byte ‖ x, or "x". -/
def Spend.tapTweak (sp : Spend) (p t q : Bytes) (parity : Bool) : R Bool := do
  let a ← lookup sp.oracle (tweakQuery p t)
  .ok (a == "?" || a == (if parity then "01" else "00") ++ listToHex q)

def Spend.checker (sp : Spend) : Checker :=
  { ecdsa := sp.ecdsa, schnorr := sp.schnorr, lockTime := sp.lockTime, sequence := sp.sequence,
    tapTweak := sp.tapTweak }

/-- The whole observation of C06 for one spend: `VerifyScript` on input `idx` of `tx`. -/
def Spend.verify (sp : Spend) (fl : Flags) : R Unit :=
  match sp.tx.ins[sp.idx]?, sp.spent[sp.idx]? with
  | some i, some o => verifyScript fl sp.checker i.scriptSig o.script i.witness
  | _, _ => .error .UNKNOWN_ERROR

end BV.C06
