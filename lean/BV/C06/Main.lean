import BV.Common.Loop
import BV.C06.Driver
/-! `drv_c06`: one case per input line `C06 <op> <args…>`, one canonical result line back.
Imports only core-only modules so that it links as a native executable. -/
def main : IO Unit := BV.Loop.run "C06" BV.C06.Driver.handle
