/-
C06: every stack / altstack element stays within MAX_SCRIPT_ELEMENT_SIZE (520 bytes): an invariant of
every opcode, lifted to one step, the evaluation loop and `EvalScript`. The only assumption is that the five
hash opcodes produce outputs of at most 520 bytes (they produce 20 or 32). Core-only.
-/
import BV.C06.Lemmas
namespace BV.C06.Lemmas
open BV.C06

def ElemsOk (l : List Bytes) : Prop := ∀ e ∈ l, e.length ≤ MAX_SCRIPT_ELEMENT_SIZE
def StOk (st : St) : Prop := ElemsOk st.stack ∧ ElemsOk st.alt

theorem natLEBytes_length : ∀ fuel n, (natLEBytes fuel n).length ≤ fuel := by
  intro fuel
  induction fuel with
  | zero => intro n; simp [natLEBytes]
  | succ f ih =>
    intro n
    unfold natLEBytes
    split
    · simp
    · simp only [List.length_cons]; have := ih (n / 256); omega

theorem encodeNum_length (n : Int) : (encodeNum n).length ≤ MAX_SCRIPT_ELEMENT_SIZE := by
  unfold encodeNum MAX_SCRIPT_ELEMENT_SIZE
  have h9 := natLEBytes_length 9 n.natAbs
  split
  · simp
  · simp only []
    split
    · simp
    · split
      · simp only [List.length_append, List.length_singleton]; omega
      · split
        · simp only [List.length_append, List.length_singleton, List.length_dropLast]; omega
        · omega

theorem boolBytes_length (b : Bool) : (boolBytes b).length ≤ MAX_SCRIPT_ELEMENT_SIZE := by
  cases b <;> simp [boolBytes, MAX_SCRIPT_ELEMENT_SIZE]

/-- the five hash opcodes produce short outputs (20 / 32 bytes in reality; only ≤ 520 is needed) -/
structure HashLens : Prop where
  ripemd160 : ∀ b, (BV.C06.ripemd160 b).length ≤ MAX_SCRIPT_ELEMENT_SIZE
  sha1 : ∀ b, (BV.C06.sha1 b).length ≤ MAX_SCRIPT_ELEMENT_SIZE
  sha256 : ∀ b, (BV.C06.sha256 b).length ≤ MAX_SCRIPT_ELEMENT_SIZE
  hash160 : ∀ b, (BV.C06.hash160 b).length ≤ MAX_SCRIPT_ELEMENT_SIZE
  hash256 : ∀ b, (BV.C06.hash256 b).length ≤ MAX_SCRIPT_ELEMENT_SIZE

theorem unaryNum_stOk {c : Ctx} {st st' : St} {f : Int → Int} (hs : StOk st) (h : unaryNum c st f = .ok st') :
    StOk st' := by
  unfold unaryNum at h
  split at h
  · rename_i a s heq
    simp only [bind, Except.bind] at h
    split at h
    · cases h
    · cases h
      obtain ⟨h1, h2⟩ := hs
      rw [heq] at h1
      simp only [ElemsOk, List.forall_mem_cons] at h1
      exact ⟨by simp only [ElemsOk, List.forall_mem_cons]; exact ⟨encodeNum_length _, h1.2⟩, h2⟩
  · cases h


theorem binaryNum_stOk {c : Ctx} {st st' : St} {f : Int → Int → Bytes} (hf : ∀ a b, (f a b).length ≤ MAX_SCRIPT_ELEMENT_SIZE)
    (hs : StOk st) (h : binaryNum c st f = .ok st') : StOk st' := by
  unfold binaryNum at h
  split at h
  · rename_i b a s heq
    simp only [bind, Except.bind] at h
    split at h
    · cases h
    · split at h
      · cases h
      · cases h
        obtain ⟨h1, h2⟩ := hs
        rw [heq] at h1
        simp only [ElemsOk, List.forall_mem_cons] at h1
        exact ⟨by simp only [ElemsOk, List.forall_mem_cons]; exact ⟨hf _ _, h1.2.2⟩, h2⟩
  · cases h

theorem hashOp_stOk {st st' : St} {f : Bytes → Bytes} (hf : ∀ b, (f b).length ≤ MAX_SCRIPT_ELEMENT_SIZE)
    (hs : StOk st) (h : hashOp st f = .ok st') : StOk st' := by
  unfold hashOp at h
  split at h
  · rename_i a s heq
    cases h
    obtain ⟨h1, h2⟩ := hs
    rw [heq] at h1
    simp only [ElemsOk, List.forall_mem_cons] at h1
    exact ⟨by simp only [ElemsOk, List.forall_mem_cons]; exact ⟨hf _, h1.2⟩, h2⟩
  · cases h

theorem opIf_stOk {c : Ctx} {st st' : St} {b : Bool} (hs : StOk st) (h : opIf c st b = .ok st') : StOk st' := by
  unfold opIf at h
  split at h
  · split at h
    · cases h
    · rename_i v s heq
      split at h
      · cases h
      · split at h
        · cases h
        · cases h
          obtain ⟨h1, h2⟩ := hs
          rw [heq] at h1
          simp only [ElemsOk, List.forall_mem_cons] at h1
          exact ⟨h1.2, h2⟩
  · cases h; exact hs

theorem mem_of_getElem? {l : List Bytes} {i : Nat} {v : Bytes} (h : l[i]? = some v) : v ∈ l :=
  List.mem_of_getElem? h

theorem opPickRoll_stOk {c : Ctx} {st st' : St} {b : Bool} (hs : StOk st) (h : opPickRoll c st b = .ok st') :
    StOk st' := by
  unfold opPickRoll at h
  split at h
  · rename_i nb hd tl heq
    split at h
    · cases h
    · simp only [] at h
      split at h
      · cases h
      · split at h
        · cases h
        · rename_i v hv
          obtain ⟨h1, h2⟩ := hs
          rw [heq] at h1
          have hvl : v.length ≤ MAX_SCRIPT_ELEMENT_SIZE := h1 v (List.mem_cons_of_mem _ (List.mem_of_getElem? hv))
          have htl : ElemsOk (hd :: tl) := fun e he => h1 e (List.mem_cons_of_mem _ he)
          split at h
          · cases h
            refine ⟨?_, h2⟩
            intro e he
            simp only [List.mem_cons] at he
            rcases he with rfl | he
            · exact hvl
            · exact htl e (List.mem_of_mem_eraseIdx he)
          · cases h
            refine ⟨?_, h2⟩
            intro e he
            simp only [List.mem_cons] at he
            rcases he with rfl | he
            · exact hvl
            · exact htl e (by simpa using he)
  · cases h


theorem ElemsOk.tail {a : Bytes} {l : List Bytes} (h : ElemsOk (a :: l)) : ElemsOk l :=
  fun e he => h e (List.mem_cons_of_mem _ he)

theorem ElemsOk.drop {l : List Bytes} (n : Nat) (h : ElemsOk l) : ElemsOk (l.drop n) :=
  fun e he => h e (List.mem_of_mem_drop he)

theorem ElemsOk.cons {a : Bytes} {l : List Bytes} (ha : a.length ≤ MAX_SCRIPT_ELEMENT_SIZE) (h : ElemsOk l) :
    ElemsOk (a :: l) := by
  intro e he
  simp only [List.mem_cons] at he
  rcases he with rfl | he
  · exact ha
  · exact h e he

theorem opWithin_stOk {c : Ctx} {st st' : St} (hs : StOk st) (h : opWithin c st = .ok st') : StOk st' := by
  unfold opWithin at h
  split at h
  · rename_i mx mn x s heq
    obtain ⟨h1, h2⟩ := hs
    rw [heq] at h1
    split at h
    · cases h; exact ⟨ElemsOk.cons (boolBytes_length _) h1.tail.tail.tail, h2⟩
    · cases h
    · cases h
    · cases h
  · cases h

theorem opNumEqualVerify_stOk {c : Ctx} {st st' : St} (hs : StOk st) (h : opNumEqualVerify c st = .ok st') :
    StOk st' := by
  unfold opNumEqualVerify at h
  split at h
  · cases h
  · rename_i st1 h1
    have hs1 := binaryNum_stOk (fun a b => boolBytes_length _) hs h1
    split at h
    · rename_i r s heq
      split at h
      · cases h
        obtain ⟨k1, k2⟩ := hs1
        rw [heq] at k1
        exact ⟨k1.tail, k2⟩
      · cases h
    · cases h

theorem opChecksig_stOk {c : Ctx} {st st' : St} {v : Bool} (hs : StOk st) (h : opChecksig c st v = .ok st') :
    StOk st' := by
  unfold opChecksig at h
  split at h
  · rename_i pk sig s heq
    obtain ⟨h1, h2⟩ := hs
    rw [heq] at h1
    split at h
    · cases h
    · split at h
      · split at h
        · cases h; exact ⟨h1.tail.tail, h2⟩
        · cases h
      · cases h; exact ⟨ElemsOk.cons (boolBytes_length _) h1.tail.tail, h2⟩
  · cases h

theorem opChecksigAdd_stOk {c : Ctx} {st st' : St} (hs : StOk st) (h : opChecksigAdd c st = .ok st') :
    StOk st' := by
  unfold opChecksigAdd at h
  split at h
  · cases h
  · split at h
    · rename_i pk nb sig s heq
      obtain ⟨h1, h2⟩ := hs
      rw [heq] at h1
      split at h
      · cases h
      · split at h
        · cases h
        · cases h; exact ⟨ElemsOk.cons (encodeNum_length _) h1.tail.tail.tail, h2⟩
    · cases h

theorem multisigArgs_rest {c : Ctx} {st : St} {a : MsArgs} (hs : ElemsOk st.stack)
    (h : multisigArgs c st = .ok a) : ElemsOk a.rest := by
  unfold multisigArgs at h
  split at h
  · cases h
  · split at h
    · cases h
    · rename_i nk s1 heq
      rw [heq] at hs
      have hs1 := hs.tail
      split at h
      · cases h
      · simp only [] at h
        split at h
        · cases h
        · split at h
          · cases h
          · split at h
            · cases h
            · split at h
              · cases h
              · rename_i ns s2 heq2
                have hs2 : ElemsOk s2 := by
                  have := hs1.drop (clampInt ‹Int›).toNat
                  rw [heq2] at this
                  exact this.tail
                split at h
                · cases h
                · split at h
                  · cases h
                  · split at h
                    · cases h
                    · rename_i dummy s4 heq4
                      cases h
                      have := hs2.drop (clampInt ‹Int›).toNat
                      rw [heq4] at this
                      exact this.tail

theorem multisigFinish_stOk {c : Ctx} {st st' : St} {a : MsArgs} {s v : Bool} (hr : ElemsOk a.rest)
    (halt : ElemsOk st.alt) (h : multisigFinish c st a s v = .ok st') : StOk st' := by
  unfold multisigFinish at h
  split at h
  · cases h
  · split at h
    · cases h
    · split at h
      · split at h
        · cases h; exact ⟨hr, halt⟩
        · cases h
      · cases h; exact ⟨ElemsOk.cons (boolBytes_length _) hr, halt⟩

theorem opCheckMultisig_stOk {c : Ctx} {st st' : St} {v : Bool} (hs : StOk st)
    (h : opCheckMultisig c st v = .ok st') : StOk st' := by
  unfold opCheckMultisig at h
  simp only [bind, Except.bind] at h
  split at h
  · cases h
  · rename_i a ha
    split at h
    · cases h
    · split at h
      · cases h
      · exact multisigFinish_stOk (multisigArgs_rest hs.1 ha) hs.2 h

theorem ifdup_stOk {st st' : St} {a : Bytes} {s : List Bytes} (hs : StOk st) (heq : st.stack = a :: s)
    (h : (Except.ok { st with stack := if castToBool a then a :: a :: s else a :: s } : R St) = .ok st') :
    StOk st' := by
  cases h
  obtain ⟨h1, h2⟩ := hs
  rw [heq] at h1
  refine ⟨?_, h2⟩
  show ElemsOk (if castToBool a then a :: a :: s else a :: s)
  split
  · exact ElemsOk.cons (h1 a (by simp)) h1
  · exact h1

set_option maxHeartbeats 4000000 in
theorem execOp_stOk (H : HashLens) {c : Ctx} {op : Nat} {rest : Bytes} {st st' : St} (hs : StOk st)
    (h : execOp c op rest st = .ok st') : StOk st' := by
  by_cases e0 : op = 139
  · subst e0
    exact unaryNum_stOk hs h
  by_cases e1 : op = 140
  · subst e1
    exact unaryNum_stOk hs h
  by_cases e2 : op = 143
  · subst e2
    exact unaryNum_stOk hs h
  by_cases e3 : op = 144
  · subst e3
    exact unaryNum_stOk hs h
  by_cases e4 : op = 145
  · subst e4
    exact unaryNum_stOk hs h
  by_cases e5 : op = 146
  · subst e5
    exact unaryNum_stOk hs h
  by_cases e6 : op = 147
  · subst e6
    exact binaryNum_stOk (fun a b => encodeNum_length _) hs h
  by_cases e7 : op = 148
  · subst e7
    exact binaryNum_stOk (fun a b => encodeNum_length _) hs h
  by_cases e8 : op = 163
  · subst e8
    exact binaryNum_stOk (fun a b => encodeNum_length _) hs h
  by_cases e9 : op = 164
  · subst e9
    exact binaryNum_stOk (fun a b => encodeNum_length _) hs h
  by_cases e10 : op = 154
  · subst e10
    exact binaryNum_stOk (fun a b => boolBytes_length _) hs h
  by_cases e11 : op = 155
  · subst e11
    exact binaryNum_stOk (fun a b => boolBytes_length _) hs h
  by_cases e12 : op = 156
  · subst e12
    exact binaryNum_stOk (fun a b => boolBytes_length _) hs h
  by_cases e13 : op = 158
  · subst e13
    exact binaryNum_stOk (fun a b => boolBytes_length _) hs h
  by_cases e14 : op = 159
  · subst e14
    exact binaryNum_stOk (fun a b => boolBytes_length _) hs h
  by_cases e15 : op = 160
  · subst e15
    exact binaryNum_stOk (fun a b => boolBytes_length _) hs h
  by_cases e16 : op = 161
  · subst e16
    exact binaryNum_stOk (fun a b => boolBytes_length _) hs h
  by_cases e17 : op = 162
  · subst e17
    exact binaryNum_stOk (fun a b => boolBytes_length _) hs h
  by_cases e18 : op = 157
  · subst e18
    exact opNumEqualVerify_stOk hs h
  by_cases e19 : op = 165
  · subst e19
    exact opWithin_stOk hs h
  by_cases e20 : op = 166
  · subst e20
    exact hashOp_stOk H.ripemd160 hs h
  by_cases e21 : op = 167
  · subst e21
    exact hashOp_stOk H.sha1 hs h
  by_cases e22 : op = 168
  · subst e22
    exact hashOp_stOk H.sha256 hs h
  by_cases e23 : op = 169
  · subst e23
    exact hashOp_stOk H.hash160 hs h
  by_cases e24 : op = 170
  · subst e24
    exact hashOp_stOk H.hash256 hs h
  by_cases e25 : op = 99
  · subst e25
    exact opIf_stOk hs h
  by_cases e26 : op = 100
  · subst e26
    exact opIf_stOk hs h
  by_cases e27 : op = 121
  · subst e27
    exact opPickRoll_stOk hs h
  by_cases e28 : op = 122
  · subst e28
    exact opPickRoll_stOk hs h
  by_cases e29 : op = 172
  · subst e29
    exact opChecksig_stOk hs h
  by_cases e30 : op = 173
  · subst e30
    exact opChecksig_stOk hs h
  by_cases e31 : op = 186
  · subst e31
    exact opChecksigAdd_stOk hs h
  by_cases e32 : op = 174
  · subst e32
    exact opCheckMultisig_stOk hs h
  by_cases e33 : op = 175
  · subst e33
    exact opCheckMultisig_stOk hs h
  by_cases e34 : op = 177
  · subst e34
    have h' : opCLTV c st = .ok st' := h
    rw [opCLTV_eq h']; exact hs
  by_cases e35 : op = 178
  · subst e35
    have h' : opCSV c st = .ok st' := h
    rw [opCSV_eq h']; exact hs
  unfold execOp at h
  split at h
  all_goals first
    | contradiction
    | (cases h; done)
    | (cases h; exact ⟨ElemsOk.cons (encodeNum_length _) hs.1, hs.2⟩)
    | (cases h; exact hs)
    | (split at h <;> first
        | (cases h; done)
        | (simp only [invalidStack] at h; cases h; done)
        | (cases h; exact hs)
        | (rename_i heq; exact ifdup_stOk hs heq h)
        | (rename_i heq; cases h; obtain ⟨h1, h2⟩ := hs;
           first | rw [heq] at h1 | rw [heq] at h2;
           simp only [ElemsOk, List.forall_mem_cons] at h1 h2;
           simp only [StOk, ElemsOk, List.forall_mem_cons];
           repeat' (apply And.intro);
           all_goals first
             | assumption
             | exact encodeNum_length _
             | exact boolBytes_length _
             | exact h1.1 | exact h1.2.1 | exact h1.2.2.1 | exact h1.2.2.2.1 | exact h1.2.2.2.2.1
             | exact h1.2.2.2.2.2.1
             | exact h1.2 | exact h1.2.2 | exact h1.2.2.2 | exact h1.2.2.2.2 | exact h1.2.2.2.2.2
             | exact h1.2.2.2.2.2.2
             | exact h2.1 | exact h2.2 | exact h1 | exact h2)
        | (split at h <;> first
            | (cases h; done)
            | (rename_i heq _; cases h; obtain ⟨h1, h2⟩ := hs; rw [heq] at h1;
               simp only [ElemsOk, List.forall_mem_cons] at h1;
               simp only [StOk, ElemsOk, List.forall_mem_cons];
               repeat' (apply And.intro);
               all_goals first
                 | assumption
                 | exact boolBytes_length _
                 | exact h1.2.2 | exact h1.2 | exact h2)))

theorem stepOp_stOk (H : HashLens) {c : Ctx} {op : Nat} {d rest : Bytes} {st st' : St} (hs : StOk st)
    (h : stepOp c op d rest st = .ok st') : StOk st' := by
  obtain ⟨st0, st1, h0, h1, h2⟩ := stepOp_ok_iff h
  obtain ⟨hd, _, _, e0⟩ := stepPre_ok h0
  obtain ⟨_, e2⟩ := stepPost_ok h2
  have hs0 : StOk st0 := by rw [e0]; exact hs
  have hs1 : StOk st1 := by
    unfold stepCore at h1
    split at h1
    · split at h1
      · cases h1
      · cases h1; exact ⟨ElemsOk.cons hd hs0.1, hs0.2⟩
    · split at h1
      · exact execOp_stOk H hs0 h1
      · cases h1; exact hs0
  rw [e2]; exact hs1

theorem evalLoop_stOk (H : HashLens) (c : Ctx) : ∀ (fuel : Nat) (script : Bytes) (st st' : St),
    StOk st → evalLoop c fuel script st = .ok st' → StOk st' := by
  intro fuel
  induction fuel with
  | zero =>
    intro script st st' hs h
    cases script with
    | nil =>
      simp only [evalLoop] at h
      split at h
      · cases h; exact hs
      · cases h
    | cons b t => simp [evalLoop] at h
  | succ n ih =>
    intro script st st' hs h
    cases script with
    | nil =>
      simp only [evalLoop] at h
      split at h
      · cases h; exact hs
      · cases h
    | cons b t =>
      rw [evalLoop] at h
      cases hg : getOp (b :: t) with
      | none => rw [hg] at h; cases h
      | some r =>
        obtain ⟨op, d, rest⟩ := r
        rw [hg] at h
        simp only [] at h
        cases hst : stepOp c op d rest st with
        | error e => rw [hst] at h; cases h
        | ok st1 =>
          rw [hst] at h
          simp only [bind, Except.bind] at h
          exact ih rest st1 st' (stepOp_stOk H hs hst) h

theorem evalScript_elemsOk (H : HashLens) {c : Ctx} {script : Bytes} {stack out : List Bytes} {w : Int}
    (hs : ElemsOk stack) (h : evalScript c script stack w = .ok out) : ElemsOk out := by
  unfold evalScript at h
  simp only [bind, Except.bind] at h
  split at h
  · cases h
  · split at h
    · cases h
    · rename_i st' hl
      cases h
      exact (evalLoop_stOk H c _ _ _ _ ⟨hs, fun e he => by cases he⟩ hl).1

/-! ### the hash opcodes of the model do produce 20 / 32 bytes -/


theorem sha256_put32_size (out : ByteArray) (x : UInt32) : (BV.Sha256.put32 out x).size = out.size + 4 := by
  unfold BV.Sha256.put32
  simp [ByteArray.size_push]

theorem sha256_size (msg : ByteArray) : (BV.Sha256.hash msg).size = 32 := by
  unfold BV.Sha256.hash
  simp [Id.run, ByteArray.emptyWithCapacity]
  show ByteArray.size (BV.Sha256.put32 _ _) = 32
  simp only [sha256_put32_size]
  rfl

theorem sha1_put32_size (out : ByteArray) (x : UInt32) : (BV.Sha1.put32 out x).size = out.size + 4 := by
  unfold BV.Sha1.put32
  simp [ByteArray.size_push]

theorem sha1_size (msg : ByteArray) : (BV.Sha1.hash msg).size = 20 := by
  unfold BV.Sha1.hash
  simp [Id.run, ByteArray.emptyWithCapacity]
  show ByteArray.size (BV.Sha1.put32 _ _) = 20
  simp only [sha1_put32_size]
  rfl

theorem ripemd160_put32_size (out : ByteArray) (x : UInt32) : (BV.Ripemd160.put32 out x).size = out.size + 4 := by
  unfold BV.Ripemd160.put32
  simp [ByteArray.size_push]

theorem ripemd160_size (msg : ByteArray) : (BV.Ripemd160.hash msg).size = 20 := by
  unfold BV.Ripemd160.hash
  simp [Id.run, ByteArray.emptyWithCapacity]
  show ByteArray.size (BV.Ripemd160.put32 _ _) = 20
  simp only [ripemd160_put32_size]
  rfl


theorem toList_loop_length (bs : ByteArray) (n : Nat) : ∀ i r, bs.size - i = n →
    (ByteArray.toList.loop bs i r).length = r.length + n := by
  induction n with
  | zero =>
    intro i r h
    unfold ByteArray.toList.loop
    have : ¬ i < bs.size := by omega
    simp [this]
  | succ k ih =>
    intro i r h
    unfold ByteArray.toList.loop
    have : i < bs.size := by omega
    simp only [this, if_true]
    rw [ih (i + 1) _ (by omega)]
    simp only [List.length_cons]; omega

theorem byteArray_toList_length (bs : ByteArray) : bs.toList.length = bs.size := by
  unfold ByteArray.toList
  rw [toList_loop_length bs bs.size 0 [] (by omega)]
  simp


theorem hashLens_holds : HashLens := by
  have e256 : ∀ b, (BV.C06.sha256 b).length = 32 := fun b => by
    unfold BV.C06.sha256 BV.Sha256.hashList; rw [byteArray_toList_length, sha256_size]
  have e1 : ∀ b, (BV.C06.sha1 b).length = 20 := fun b => by
    unfold BV.C06.sha1 BV.Sha1.hashList; rw [byteArray_toList_length, sha1_size]
  have er : ∀ b, (BV.C06.ripemd160 b).length = 20 := fun b => by
    unfold BV.C06.ripemd160 BV.Ripemd160.hashList; rw [byteArray_toList_length, ripemd160_size]
  refine ⟨fun b => ?_, fun b => ?_, fun b => ?_, fun b => ?_, fun b => ?_⟩
  · rw [er]; decide
  · rw [e1]; decide
  · rw [e256]; decide
  · unfold BV.C06.hash160; rw [er]; decide
  · unfold BV.C06.hash256 BV.Sha256.hash2List BV.Sha256.hash2
    rw [byteArray_toList_length, sha256_size]; decide

end BV.C06.Lemmas
