/-
C06: relaxing a DISCOURAGE_* policy flag never turns a successful verification into a failure
(the discouragement flags only ever add failures). Core-only.
-/
import BV.C06.Mono
namespace BV.C06.Lemmas
open BV.C06


/-! ### DISCOURAGE_UPGRADABLE_NOPS -/

def setDNops (c : Ctx) (b : Bool) : Ctx := { c with flags := { c.flags with discourageNops := b } }

theorem setDNops_agree (c : Ctx) (b : Bool) : SigAgree c (setDNops c b) :=
  ⟨fun _ => rfl, fun _ _ => rfl, rfl, rfl, rfl⟩

theorem opCheckMultisig_dnops (c : Ctx) (b v : Bool) (st : St) :
    opCheckMultisig (setDNops c b) st v = opCheckMultisig c st v := by
  unfold opCheckMultisig
  simp only [multisigLoop_congr (setDNops_agree c b), multisigStrip_congr (setDNops_agree c b)]
  rfl

theorem nopArm_mono (c : Ctx) (st : St) :
    MonoR (if (setDNops c true).flags.discourageNops then (.error .DISCOURAGE_UPGRADABLE_NOPS : R St) else .ok st)
          (if (setDNops c false).flags.discourageNops then (.error .DISCOURAGE_UPGRADABLE_NOPS : R St) else .ok st) := by
  have e1 : (setDNops c true).flags.discourageNops = true := rfl
  have e2 : (setDNops c false).flags.discourageNops = false := rfl
  simp only [e1, e2, if_true, Bool.false_eq_true, if_false]
  exact MonoR.error_left _ _

set_option maxHeartbeats 2000000 in
theorem execOp_dnops_mono (c : Ctx) (op : Nat) (rest : Bytes) (st : St) :
    MonoR (execOp (setDNops c true) op rest st) (execOp (setDNops c false) op rest st) := by
  unfold execOp
  split <;> first
    | exact MonoR.of_eq rfl
    | exact MonoR.of_eq (by rw [opCheckMultisig_dnops, opCheckMultisig_dnops])
    | exact nopArm_mono c st

theorem dnops_step : StepTightening setDNops :=
  ⟨execOp_dnops_mono, fun _ _ _ _ _ => rfl, fun _ _ => rfl, fun _ _ => rfl⟩

theorem dnops_tightening : EvalTightening (fun fl b => { fl with discourageNops := b }) where
  eval := fun fl chk sv xd s st w =>
    evalScript_mono dnops_step { flags := fl, sv := sv, chk := chk, xd := xd } s st w
  dOpSuccess := fun _ _ => rfl
  sigpushonly := fun _ _ => rfl
  witness := fun _ _ => rfl
  p2sh := fun _ _ => rfl
  cleanstack := fun _ _ => rfl
  taproot := fun _ _ => rfl
  dTapVer := fun _ _ => rfl
  dWitProg := fun _ _ => rfl


/-! ### DISCOURAGE_UPGRADABLE_WITNESS_PROGRAM -/

def twDWP (fl : Flags) (b : Bool) : Flags := { fl with discourageWitnessProgram := b }
def setDWP (c : Ctx) (b : Bool) : Ctx := { c with flags := twDWP c.flags b }

theorem setDWP_agree (c : Ctx) (b : Bool) : SigAgree c (setDWP c b) :=
  ⟨fun _ => rfl, fun _ _ => rfl, rfl, rfl, rfl⟩

theorem opCheckMultisig_DWP (c : Ctx) (b v : Bool) (st : St) :
    opCheckMultisig (setDWP c b) st v = opCheckMultisig c st v := by
  unfold opCheckMultisig
  simp only [multisigLoop_congr (setDWP_agree c b), multisigStrip_congr (setDWP_agree c b)]
  rfl

set_option maxHeartbeats 2000000 in
theorem execOp_DWP (c : Ctx) (b : Bool) (op : Nat) (rest : Bytes) (st : St) :
    execOp (setDWP c b) op rest st = execOp c op rest st := by
  unfold execOp
  split <;> first | rfl | exact opCheckMultisig_DWP c b _ st

theorem DWP_step : StepTightening setDWP :=
  ⟨fun c op rest st => MonoR.of_eq (by rw [execOp_DWP, execOp_DWP]),
   fun _ _ _ _ _ => rfl, fun _ _ => rfl, fun _ _ => rfl⟩

theorem DWP_eval (fl : Flags) (chk : Checker) (sv : SigVer) (xd : ExecData) (s : Bytes) (st : List Bytes) (w : Int) :
    MonoR (evalScript { flags := twDWP fl true, sv := sv, chk := chk, xd := xd } s st w)
          (evalScript { flags := twDWP fl false, sv := sv, chk := chk, xd := xd } s st w) :=
  evalScript_mono DWP_step { flags := fl, sv := sv, chk := chk, xd := xd } s st w

/-! ### DISCOURAGE_UPGRADABLE_TAPROOT_VERSION -/

def twDTV (fl : Flags) (b : Bool) : Flags := { fl with discourageTaprootVersion := b }
def setDTV (c : Ctx) (b : Bool) : Ctx := { c with flags := twDTV c.flags b }

theorem setDTV_agree (c : Ctx) (b : Bool) : SigAgree c (setDTV c b) :=
  ⟨fun _ => rfl, fun _ _ => rfl, rfl, rfl, rfl⟩

theorem opCheckMultisig_DTV (c : Ctx) (b v : Bool) (st : St) :
    opCheckMultisig (setDTV c b) st v = opCheckMultisig c st v := by
  unfold opCheckMultisig
  simp only [multisigLoop_congr (setDTV_agree c b), multisigStrip_congr (setDTV_agree c b)]
  rfl

set_option maxHeartbeats 2000000 in
theorem execOp_DTV (c : Ctx) (b : Bool) (op : Nat) (rest : Bytes) (st : St) :
    execOp (setDTV c b) op rest st = execOp c op rest st := by
  unfold execOp
  split <;> first | rfl | exact opCheckMultisig_DTV c b _ st

theorem DTV_step : StepTightening setDTV :=
  ⟨fun c op rest st => MonoR.of_eq (by rw [execOp_DTV, execOp_DTV]),
   fun _ _ _ _ _ => rfl, fun _ _ => rfl, fun _ _ => rfl⟩

theorem DTV_eval (fl : Flags) (chk : Checker) (sv : SigVer) (xd : ExecData) (s : Bytes) (st : List Bytes) (w : Int) :
    MonoR (evalScript { flags := twDTV fl true, sv := sv, chk := chk, xd := xd } s st w)
          (evalScript { flags := twDTV fl false, sv := sv, chk := chk, xd := xd } s st w) :=
  evalScript_mono DTV_step { flags := fl, sv := sv, chk := chk, xd := xd } s st w

/-! ### DISCOURAGE_OP_SUCCESS -/

def twDOS (fl : Flags) (b : Bool) : Flags := { fl with discourageOpSuccess := b }
def setDOS (c : Ctx) (b : Bool) : Ctx := { c with flags := twDOS c.flags b }

theorem setDOS_agree (c : Ctx) (b : Bool) : SigAgree c (setDOS c b) :=
  ⟨fun _ => rfl, fun _ _ => rfl, rfl, rfl, rfl⟩

theorem opCheckMultisig_DOS (c : Ctx) (b v : Bool) (st : St) :
    opCheckMultisig (setDOS c b) st v = opCheckMultisig c st v := by
  unfold opCheckMultisig
  simp only [multisigLoop_congr (setDOS_agree c b), multisigStrip_congr (setDOS_agree c b)]
  rfl

set_option maxHeartbeats 2000000 in
theorem execOp_DOS (c : Ctx) (b : Bool) (op : Nat) (rest : Bytes) (st : St) :
    execOp (setDOS c b) op rest st = execOp c op rest st := by
  unfold execOp
  split <;> first | rfl | exact opCheckMultisig_DOS c b _ st

theorem DOS_step : StepTightening setDOS :=
  ⟨fun c op rest st => MonoR.of_eq (by rw [execOp_DOS, execOp_DOS]),
   fun _ _ _ _ _ => rfl, fun _ _ => rfl, fun _ _ => rfl⟩

theorem DOS_eval (fl : Flags) (chk : Checker) (sv : SigVer) (xd : ExecData) (s : Bytes) (st : List Bytes) (w : Int) :
    MonoR (evalScript { flags := twDOS fl true, sv := sv, chk := chk, xd := xd } s st w)
          (evalScript { flags := twDOS fl false, sv := sv, chk := chk, xd := xd } s st w) :=
  evalScript_mono DOS_step { flags := fl, sv := sv, chk := chk, xd := xd } s st w

theorem DWP_exec : ExecTightening twDWP := ⟨DWP_eval, fun _ _ => rfl⟩
theorem DTV_exec : ExecTightening twDTV := ⟨DTV_eval, fun _ _ => rfl⟩

theorem MonoR.unit_ok (a : R Unit) : MonoR a (.ok ()) := fun v _ => by cases v; rfl

theorem executeWitnessScript_DOS_mono (fl : Flags) (chk : Checker) (sv : SigVer) (xd : ExecData) (w : Int)
    (stack : List Bytes) (script : Bytes) :
    MonoR (executeWitnessScript (twDOS fl true) chk sv xd w stack script)
          (executeWitnessScript (twDOS fl false) chk sv xd w stack script) := by
  unfold executeWitnessScript
  have e1 : (twDOS fl true).discourageOpSuccess = true := rfl
  have e2 : (twDOS fl false).discourageOpSuccess = false := rfl
  simp only [e1, e2, if_true, Bool.false_eq_true, if_false]
  apply MonoR.bind
  · split
    · split
      · exact MonoR.refl _
      · exact MonoR.error_left _ _
      · exact MonoR.refl _
    · exact MonoR.refl _
  · intro go
    split
    · exact MonoR.refl _
    · split
      · exact MonoR.refl _
      · exact MonoR.bind (DOS_eval fl chk sv xd script stack w) (fun out => MonoR.refl _)

theorem vwp_DWP_mono (fl : Flags) (chk : Checker) (wit : List Bytes) (ver : Nat) (prog : Bytes) (p : Bool) :
    MonoR (verifyWitnessProgram (twDWP fl true) chk wit ver prog p)
          (verifyWitnessProgram (twDWP fl false) chk wit ver prog p) := by
  unfold verifyWitnessProgram
  have e1 : (twDWP fl true).discourageWitnessProgram = true := rfl
  have e2 : (twDWP fl false).discourageWitnessProgram = false := rfl
  have e3 : ∀ b, (twDWP fl b).taproot = fl.taproot := fun _ => rfl
  have e4 : ∀ b, (twDWP fl b).discourageTaprootVersion = fl.discourageTaprootVersion := fun _ => rfl
  simp only [e1, e2, e3, e4, if_true, Bool.false_eq_true, if_false]
  repeat' (first
    | exact MonoR.refl _
    | exact MonoR.error_left _ _
    | exact MonoR.unit_ok _
    | exact executeWitnessScript_mono DWP_exec _ _ _ _ _ _ _
    | (apply MonoR.bind (MonoR.refl _); intro _)
    | split)

theorem vwp_DTV_mono (fl : Flags) (chk : Checker) (wit : List Bytes) (ver : Nat) (prog : Bytes) (p : Bool) :
    MonoR (verifyWitnessProgram (twDTV fl true) chk wit ver prog p)
          (verifyWitnessProgram (twDTV fl false) chk wit ver prog p) := by
  unfold verifyWitnessProgram
  have e1 : (twDTV fl true).discourageTaprootVersion = true := rfl
  have e2 : (twDTV fl false).discourageTaprootVersion = false := rfl
  have e3 : ∀ b, (twDTV fl b).taproot = fl.taproot := fun _ => rfl
  have e4 : ∀ b, (twDTV fl b).discourageWitnessProgram = fl.discourageWitnessProgram := fun _ => rfl
  simp only [e1, e2, e3, e4, if_true, Bool.false_eq_true, if_false]
  repeat' (first
    | exact MonoR.refl _
    | exact MonoR.error_left _ _
    | exact MonoR.unit_ok _
    | exact executeWitnessScript_mono DTV_exec _ _ _ _ _ _ _
    | (apply MonoR.bind (MonoR.refl _); intro _)
    | split)

theorem vwp_DOS_mono (fl : Flags) (chk : Checker) (wit : List Bytes) (ver : Nat) (prog : Bytes) (p : Bool) :
    MonoR (verifyWitnessProgram (twDOS fl true) chk wit ver prog p)
          (verifyWitnessProgram (twDOS fl false) chk wit ver prog p) := by
  unfold verifyWitnessProgram
  have e3 : ∀ b, (twDOS fl b).taproot = fl.taproot := fun _ => rfl
  have e4 : ∀ b, (twDOS fl b).discourageWitnessProgram = fl.discourageWitnessProgram := fun _ => rfl
  have e5 : ∀ b, (twDOS fl b).discourageTaprootVersion = fl.discourageTaprootVersion := fun _ => rfl
  simp only [e3, e4, e5]
  repeat' (first
    | exact MonoR.refl _
    | exact executeWitnessScript_DOS_mono _ _ _ _ _ _ _
    | (apply MonoR.bind (MonoR.refl _); intro _)
    | split)

theorem DWP_seq : SeqTightening twDWP :=
  ⟨DWP_eval, vwp_DWP_mono, fun _ _ => rfl, fun _ _ => rfl, fun _ _ => rfl, fun _ _ => rfl⟩
theorem DTV_seq : SeqTightening twDTV :=
  ⟨DTV_eval, vwp_DTV_mono, fun _ _ => rfl, fun _ _ => rfl, fun _ _ => rfl, fun _ _ => rfl⟩
theorem DOS_seq : SeqTightening twDOS :=
  ⟨DOS_eval, vwp_DOS_mono, fun _ _ => rfl, fun _ _ => rfl, fun _ _ => rfl, fun _ _ => rfl⟩


/-! ### DISCOURAGE_UPGRADABLE_PUBKEYTYPE -/

def setDPK (c : Ctx) (b : Bool) : Ctx := { c with flags := { c.flags with discouragePubkeytype := b } }

theorem setDPK_agree (c : Ctx) (b : Bool) : SigAgree c (setDPK c b) :=
  ⟨fun _ => rfl, fun _ _ => rfl, rfl, rfl, rfl⟩

theorem opCheckMultisig_DPK (c : Ctx) (b v : Bool) (st : St) :
    opCheckMultisig (setDPK c b) st v = opCheckMultisig c st v := by
  unfold opCheckMultisig
  simp only [multisigLoop_congr (setDPK_agree c b), multisigStrip_congr (setDPK_agree c b)]
  rfl

theorem evalChecksigTapscript_DPK_mono (c : Ctx) (st : St) (sig pk : Bytes) :
    MonoR (evalChecksigTapscript (setDPK c true) st sig pk) (evalChecksigTapscript (setDPK c false) st sig pk) := by
  unfold evalChecksigTapscript
  have e1 : (setDPK c true).flags.discouragePubkeytype = true := rfl
  have e2 : (setDPK c false).flags.discouragePubkeytype = false := rfl
  simp only [e1, e2, if_true, Bool.false_eq_true, if_false]
  repeat' (first
    | exact MonoR.refl _
    | exact MonoR.of_eq rfl
    | exact MonoR.error_left _ _
    | split)

theorem evalChecksig_DPK_mono (c : Ctx) (st : St) (sig pk : Bytes) :
    MonoR (evalChecksig (setDPK c true) st sig pk) (evalChecksig (setDPK c false) st sig pk) := by
  unfold evalChecksig
  have e : ∀ b, (setDPK c b).sv = c.sv := fun _ => rfl
  simp only [e]
  split
  · exact MonoR.of_eq rfl
  · exact MonoR.of_eq rfl
  · exact evalChecksigTapscript_DPK_mono c st sig pk
  · exact MonoR.refl _

theorem opChecksig_DPK_mono (c : Ctx) (st : St) (v : Bool) :
    MonoR (opChecksig (setDPK c true) st v) (opChecksig (setDPK c false) st v) := by
  unfold opChecksig
  split
  · rename_i pk sig s _
    intro st' h
    cases h1 : evalChecksig (setDPK c true) st sig pk with
    | error e => rw [h1] at h; cases h
    | ok r =>
      rw [h1] at h
      rw [evalChecksig_DPK_mono c st sig pk r h1]
      exact h
  · exact MonoR.refl _

theorem opChecksigAdd_DPK_mono (c : Ctx) (st : St) :
    MonoR (opChecksigAdd (setDPK c true) st) (opChecksigAdd (setDPK c false) st) := by
  unfold opChecksigAdd
  have e : ∀ b, (setDPK c b).sv = c.sv := fun _ => rfl
  have e2 : ∀ b, (setDPK c b).flags.minimaldata = c.flags.minimaldata := fun _ => rfl
  simp only [e, e2]
  split
  · exact MonoR.refl _
  · split
    · rename_i pk nb sig s _
      split
      · exact MonoR.refl _
      · intro st' h
        cases h1 : evalChecksig (setDPK c true) st sig pk with
        | error e => rw [h1] at h; cases h
        | ok r =>
          rw [h1] at h
          rw [evalChecksig_DPK_mono c st sig pk r h1]
          exact h
    · exact MonoR.refl _

set_option maxHeartbeats 2000000 in
theorem execOp_DPK_mono (c : Ctx) (op : Nat) (rest : Bytes) (st : St) :
    MonoR (execOp (setDPK c true) op rest st) (execOp (setDPK c false) op rest st) := by
  unfold execOp
  split <;> first
    | exact MonoR.of_eq rfl
    | exact MonoR.of_eq (by rw [opCheckMultisig_DPK, opCheckMultisig_DPK])
    | exact opChecksig_DPK_mono c st _
    | exact opChecksigAdd_DPK_mono c st

theorem DPK_step : StepTightening setDPK :=
  ⟨execOp_DPK_mono, fun _ _ _ _ _ => rfl, fun _ _ => rfl, fun _ _ => rfl⟩

theorem DPK_tightening : EvalTightening (fun fl b => { fl with discouragePubkeytype := b }) where
  eval := fun fl chk sv xd s st w =>
    evalScript_mono DPK_step { flags := fl, sv := sv, chk := chk, xd := xd } s st w
  dOpSuccess := fun _ _ => rfl
  sigpushonly := fun _ _ => rfl
  witness := fun _ _ => rfl
  p2sh := fun _ _ => rfl
  cleanstack := fun _ _ => rfl
  taproot := fun _ _ => rfl
  dTapVer := fun _ _ => rfl
  dWitProg := fun _ _ => rfl

end BV.C06.Lemmas
