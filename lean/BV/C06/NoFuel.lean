/-
C06: the evaluator never reports running out of fuel (its only non-Bitcoin outcome) when the fuel is at
least the script length and the signature checker does not produce that marker itself. Core-only.
-/
import BV.C06.Lemmas
import BV.C06.Checker
namespace BV.C06.Lemmas
open BV.C06


/-- the result is not the evaluator's own out-of-fuel marker -/
def NoFuel {α : Type} (r : R α) : Prop := r ≠ .error .FUEL

theorem NoFuel.ok {α : Type} (v : α) : NoFuel (.ok v : R α) := fun h => by cases h
theorem NoFuel.err {α : Type} {e : Err} (h : e ≠ .FUEL) : NoFuel (.error e : R α) :=
  fun h' => by cases h'; exact h rfl
theorem NoFuel.bind {α β : Type} {a : R α} {f : α → R β} (ha : NoFuel a) (hf : ∀ v, NoFuel (f v)) :
    NoFuel (a >>= f) := by
  cases a with
  | error e => exact fun h => ha (show (Except.error e : R α) = .error .FUEL from by cases h; rfl)
  | ok v => exact hf v

theorem decodeNum_noFuel (v : Bytes) (m : Bool) (k : Nat) : NoFuel (decodeNum v m k) := by
  unfold decodeNum
  split
  · exact NoFuel.err (by decide)
  · split
    · exact NoFuel.err (by decide)
    · exact NoFuel.ok _

macro "nofuel_step" : tactic => `(tactic| first
  | exact NoFuel.ok _
  | exact NoFuel.err (by decide)
  | exact decodeNum_noFuel _ _ _
  | (apply NoFuel.bind (decodeNum_noFuel _ _ _); intro _)
  | split)

theorem unaryNum_noFuel (c : Ctx) (st : St) (f : Int → Int) : NoFuel (unaryNum c st f) := by
  unfold unaryNum invalidStack
  repeat' nofuel_step

theorem binaryNum_noFuel (c : Ctx) (st : St) (f : Int → Int → Bytes) : NoFuel (binaryNum c st f) := by
  unfold binaryNum invalidStack
  repeat' nofuel_step

theorem hashOp_noFuel (st : St) (f : Bytes → Bytes) : NoFuel (hashOp st f) := by
  unfold hashOp invalidStack
  repeat' nofuel_step

theorem opIf_noFuel (c : Ctx) (st : St) (b : Bool) : NoFuel (opIf c st b) := by
  unfold opIf
  repeat' nofuel_step


theorem NoFuel.of_eq {α β : Type} {a : R α} {e : Err} (ha : NoFuel a) (h : a = .error e) :
    NoFuel (.error e : R β) := fun h' => by cases h'; exact ha h

/-- a checker that never answers with the evaluator's out-of-fuel marker -/
structure ChkNoFuel (chk : Checker) : Prop where
  ecdsa : ∀ a b c d, NoFuel (chk.ecdsa a b c d)
  schnorr : ∀ a b c d, NoFuel (chk.schnorr a b c d)
  tapTweak : ∀ a b c d, NoFuel (chk.tapTweak a b c d)

theorem checkSignatureEncoding_noFuel (f : Flags) (s : Bytes) : NoFuel (checkSignatureEncoding f s) := by
  unfold checkSignatureEncoding
  repeat' nofuel_step

theorem checkPubKeyEncoding_noFuel (f : Flags) (sv : SigVer) (p : Bytes) : NoFuel (checkPubKeyEncoding f sv p) := by
  unfold checkPubKeyEncoding
  repeat' nofuel_step

theorem scriptCodeFor_noFuel (c : Ctx) (st : St) (sig : Bytes) : NoFuel (scriptCodeFor c st sig) := by
  unfold scriptCodeFor
  repeat' nofuel_step

theorem opCLTV_noFuel (c : Ctx) (st : St) : NoFuel (opCLTV c st) := by
  unfold opCLTV invalidStack
  repeat' (first | nofuel_step | exact NoFuel.of_eq (decodeNum_noFuel _ _ _) ‹_›)

theorem opCSV_noFuel (c : Ctx) (st : St) : NoFuel (opCSV c st) := by
  unfold opCSV invalidStack
  repeat' (first | nofuel_step | exact NoFuel.of_eq (decodeNum_noFuel _ _ _) ‹_›)

theorem opPickRoll_noFuel (c : Ctx) (st : St) (b : Bool) : NoFuel (opPickRoll c st b) := by
  unfold opPickRoll invalidStack
  repeat' (first | nofuel_step | exact NoFuel.of_eq (decodeNum_noFuel _ _ _) ‹_› | dsimp only)

theorem opWithin_noFuel (c : Ctx) (st : St) : NoFuel (opWithin c st) := by
  unfold opWithin invalidStack
  repeat' (first | nofuel_step | exact NoFuel.of_eq (decodeNum_noFuel _ _ _) ‹_›)

theorem opNumEqualVerify_noFuel (c : Ctx) (st : St) : NoFuel (opNumEqualVerify c st) := by
  unfold opNumEqualVerify invalidStack
  repeat' (first | nofuel_step | exact NoFuel.of_eq (binaryNum_noFuel _ _ _) ‹_›)

section
variable {c : Ctx} (hc : ChkNoFuel c.chk)
include hc

theorem evalChecksigPre_noFuel (st : St) (sig pk : Bytes) : NoFuel (evalChecksigPre c st sig pk) := by
  unfold evalChecksigPre
  apply NoFuel.bind (scriptCodeFor_noFuel _ _ _); intro code
  apply NoFuel.bind (checkSignatureEncoding_noFuel _ _); intro _
  apply NoFuel.bind (checkPubKeyEncoding_noFuel _ _ _); intro _
  apply NoFuel.bind (hc.ecdsa _ _ _ _); intro ok
  repeat' nofuel_step

theorem evalChecksigTapscript_noFuel (st : St) (sig pk : Bytes) : NoFuel (evalChecksigTapscript c st sig pk) := by
  unfold evalChecksigTapscript
  simp only [pure, Except.pure]
  repeat' (first | nofuel_step | (apply NoFuel.bind (hc.schnorr _ _ _ _); intro _))

theorem evalChecksig_noFuel (st : St) (sig pk : Bytes) : NoFuel (evalChecksig c st sig pk) := by
  unfold evalChecksig
  simp only [pure, Except.pure]
  repeat' (first
    | nofuel_step
    | (apply NoFuel.bind (evalChecksigPre_noFuel hc _ _ _); intro _)
    | exact evalChecksigTapscript_noFuel hc _ _ _)

theorem opChecksig_noFuel (st : St) (v : Bool) : NoFuel (opChecksig c st v) := by
  unfold opChecksig invalidStack
  repeat' (first | nofuel_step | exact NoFuel.of_eq (evalChecksig_noFuel hc _ _ _) ‹_›)

theorem opChecksigAdd_noFuel (st : St) : NoFuel (opChecksigAdd c st) := by
  unfold opChecksigAdd invalidStack
  repeat' (first
    | nofuel_step
    | exact NoFuel.of_eq (evalChecksig_noFuel hc _ _ _) ‹_›
    | exact NoFuel.of_eq (decodeNum_noFuel _ _ _) ‹_›)

theorem multisigLoop_noFuel (code : Bytes) : ∀ fuel sigs keys, NoFuel (multisigLoop c code fuel sigs keys) := by
  intro fuel
  induction fuel with
  | zero => intro sigs keys; cases sigs <;> (simp only [multisigLoop]; exact NoFuel.ok _)
  | succ n ih =>
    intro sigs keys
    cases sigs with
    | nil => simp only [multisigLoop]; exact NoFuel.ok _
    | cons s ss =>
      cases keys with
      | nil => simp only [multisigLoop]; exact NoFuel.ok _
      | cons k ks =>
        simp only [multisigLoop]
        apply NoFuel.bind (checkSignatureEncoding_noFuel _ _); intro _
        apply NoFuel.bind (checkPubKeyEncoding_noFuel _ _ _); intro _
        apply NoFuel.bind (hc.ecdsa _ _ _ _); intro ok
        cases ok
        · simp only [Bool.false_eq_true, if_false]
          split
          · exact NoFuel.ok _
          · exact ih _ _
        · simp only [if_true]
          split
          · exact NoFuel.ok _
          · exact ih _ _

omit hc in
theorem multisigStrip_noFuel : ∀ sigs code, NoFuel (multisigStrip c sigs code) := by
  intro sigs
  induction sigs with
  | nil => intro code; simp only [multisigStrip]; exact NoFuel.ok _
  | cons s ss ih =>
    intro code
    simp only [multisigStrip]
    repeat' (first | nofuel_step | exact ih _)

omit hc in
theorem multisigArgs_noFuel (st : St) : NoFuel (multisigArgs c st) := by
  unfold multisigArgs
  repeat' (first | nofuel_step | exact NoFuel.of_eq (decodeNum_noFuel _ _ _) ‹_› | dsimp only)

omit hc in
theorem multisigFinish_noFuel (st : St) (a : MsArgs) (s v : Bool) : NoFuel (multisigFinish c st a s v) := by
  unfold multisigFinish
  repeat' nofuel_step

theorem opCheckMultisig_noFuel (st : St) (v : Bool) : NoFuel (opCheckMultisig c st v) := by
  unfold opCheckMultisig
  apply NoFuel.bind (multisigArgs_noFuel _); intro a
  apply NoFuel.bind (multisigStrip_noFuel _ _); intro code
  apply NoFuel.bind (multisigLoop_noFuel hc _ _ _ _); intro s
  exact multisigFinish_noFuel _ _ _ _

set_option maxHeartbeats 2000000 in
theorem execOp_noFuel (op : Nat) (rest : Bytes) (st : St) : NoFuel (execOp c op rest st) := by
  unfold execOp
  split
  all_goals first
    | exact NoFuel.ok _
    | exact NoFuel.err (by decide)
    | exact unaryNum_noFuel _ _ _
    | exact binaryNum_noFuel _ _ _
    | exact hashOp_noFuel _ _
    | exact opIf_noFuel _ _ _
    | exact opCLTV_noFuel _ _
    | exact opCSV_noFuel _ _
    | exact opPickRoll_noFuel _ _ _
    | exact opWithin_noFuel _ _
    | exact opNumEqualVerify_noFuel _ _
    | exact opChecksig_noFuel hc _ _
    | exact opChecksigAdd_noFuel hc _
    | exact opCheckMultisig_noFuel hc _ _
    | (simp only [invalidStack]; repeat' nofuel_step)
    | (repeat' nofuel_step)

theorem stepOp_noFuel (op : Nat) (d rest : Bytes) (st : St) : NoFuel (stepOp c op d rest st) := by
  unfold stepOp
  apply NoFuel.bind
  · unfold stepPre; repeat' nofuel_step
  · intro st0
    apply NoFuel.bind
    · unfold stepCore
      repeat' (first | nofuel_step | exact execOp_noFuel hc _ _ _)
    · intro st1; unfold stepPost; repeat' nofuel_step

/-- with enough fuel the evaluator never reports running out of it -/
theorem evalLoop_noFuel : ∀ (fuel : Nat) (script : Bytes) (st : St), script.length ≤ fuel →
    NoFuel (evalLoop c fuel script st) := by
  intro fuel
  induction fuel with
  | zero =>
    intro script st h
    have : script = [] := List.eq_nil_of_length_eq_zero (by omega)
    subst this
    simp only [evalLoop]
    repeat' nofuel_step
  | succ n ih =>
    intro script st h
    cases script with
    | nil => simp only [evalLoop]; repeat' nofuel_step
    | cons b t =>
      rw [evalLoop]
      cases hg : getOp (b :: t) with
      | none => exact NoFuel.err (by decide)
      | some r =>
        obtain ⟨op, d, rest⟩ := r
        have hl := getOp_shorter hg
        simp only []
        apply NoFuel.bind (stepOp_noFuel hc _ _ _ _)
        intro st'
        apply ih
        simp only [List.length_cons] at hl h; omega

end

/-! ### the checker used by the driver -/


theorem lookup_noFuel (tbl : List (String × String)) (q : String) : NoFuel (lookup tbl q) := by
  unfold lookup
  split
  · exact NoFuel.ok _
  · exact NoFuel.err (by intro h; cases h)

/-- the concrete checker of a spend (signature hash in Lean + oracle table) never produces the marker -/
theorem spend_checker_noFuel (sp : Spend) : ChkNoFuel sp.checker := by
  refine ⟨fun sig pk code sv => ?_, fun sig pk sv xd => ?_, fun p t q par => ?_⟩
  · show NoFuel (sp.ecdsa sig pk code sv)
    unfold Spend.ecdsa
    repeat' (first | nofuel_step | (apply NoFuel.bind (lookup_noFuel _ _); intro _) | dsimp only)
  · show NoFuel (sp.schnorr sig pk sv xd)
    unfold Spend.schnorr
    repeat' (first | nofuel_step | (apply NoFuel.bind (lookup_noFuel _ _); intro _) | dsimp only)
  · show NoFuel (sp.tapTweak p t q par)
    unfold Spend.tapTweak
    repeat' (first | nofuel_step | (apply NoFuel.bind (lookup_noFuel _ _); intro _) | dsimp only)

end BV.C06.Lemmas
