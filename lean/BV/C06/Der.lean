/-
C06: strict DER (BIP66 `IsValidSignatureEncoding`) signatures are a subset of what Core's lax parser accepts.
Core-only.
-/
import BV.C06.Model
namespace BV.C06.Lemmas
open BV.C06

theorem and128_of_lt : ∀ x, x < 128 → x &&& 0x80 = 0 := by decide

theorem byteAt_zero (a : UInt8) (l : Bytes) : byteAt (a :: l) 0 = a.toNat := rfl
theorem byteAt_succ (a : UInt8) (l : Bytes) (k : Nat) : byteAt (a :: l) (k + 1) = byteAt l k := rfl

theorem byteAt_drop (l : Bytes) (k : Nat) : byteAt (l.drop k) 0 = byteAt l k := by
  induction k generalizing l with
  | zero => rfl
  | succ n ih =>
    cases l with
    | nil => rfl
    | cons a t => simp only [List.drop_succ_cons]; rw [ih]; rfl

theorem uint8_eq_of_toNat (a : UInt8) (n : Nat) (hn : n < 256) (h : a.toNat = n) : a = UInt8.ofNat n := by
  apply UInt8.toNat_inj.mp
  rw [h]; simp [UInt8.toNat_ofNat']; omega

/-- laxLen on a short-form length byte -/
theorem laxLen_short (lb : UInt8) (rest : Bytes) (h : lb.toNat < 128) : laxLen (lb :: rest) = some (lb.toNat, rest) := by
  unfold laxLen
  simp only [and128_of_lt _ h, bne_self_eq_false, Bool.false_eq_true, if_false]

theorem derLax_shape (b1 b3 c1 : UInt8) (X Y : Bytes) (h1 : b1.toNat < 128) (h3 : b3.toNat < 128)
    (hX : b3.toNat ≤ X.length) (hd : X.drop b3.toNat = 0x02 :: c1 :: Y) (hc : c1.toNat < 128)
    (hY : c1.toNat ≤ Y.length) :
    (parseDerLax (0x30 :: b1 :: 0x02 :: b3 :: X)).isSome = true := by
  unfold parseDerLax
  simp only [and128_of_lt _ h1, bne_self_eq_false, Bool.false_eq_true, if_false, laxLen_short b3 X h3]
  have : ¬ (b3.toNat > X.length) := by omega
  simp only [this, if_false, hd, laxLen_short c1 Y hc]
  have : ¬ (c1.toNat > Y.length) := by omega
  simp only [this, if_false]
  split
  · rfl
  · split <;> rfl

theorem derShape_facts (sig : Bytes) (h : derShape sig = true) :
    9 ≤ sig.length ∧ sig.length ≤ 73 ∧ byteAt sig 0 = 0x30 ∧ byteAt sig 1 = sig.length - 3 ∧
    5 + byteAt sig 3 < sig.length ∧ byteAt sig 3 + byteAt sig (5 + byteAt sig 3) + 7 = sig.length ∧
    byteAt sig 2 = 0x02 ∧ byteAt sig (byteAt sig 3 + 4) = 0x02 := by
  unfold derShape at h
  simp only [Bool.and_eq_true, decide_eq_true_eq, beq_iff_eq] at h
  obtain ⟨⟨⟨⟨⟨⟨⟨a1, a2⟩, a3⟩, a4⟩, a5⟩, a6⟩, a7⟩, a8⟩ := h
  exact ⟨a1, a2, a3, a4, a5, a6, a7, a8⟩

theorem derShape_lax (sig : Bytes) (h : derShape sig = true) : (parseDerLax sig.dropLast).isSome = true := by
  obtain ⟨h9, h73, e0, e1, h5, hsum, e2, e4⟩ := derShape_facts sig h
  -- expose the first four bytes
  match sig, h9, h73, e0, e1, h5, hsum, e2, e4 with
  | b0 :: b1 :: b2 :: b3 :: rest, h9, h73, e0, e1, h5, hsum, e2, e4 =>
    simp only [byteAt_zero, byteAt_succ, List.length_cons] at e0 e1 e2 h5 hsum e4 h9 h73
    have hb0 : b0 = 0x30 := by
      have := uint8_eq_of_toNat b0 0x30 (by decide) e0; simpa using this
    have hb2 : b2 = 0x02 := by
      have := uint8_eq_of_toNat b2 0x02 (by decide) e2; simpa using this
    subst hb0 hb2
    -- rest = R ++ 0x02 :: c1 :: S ++ [ht]
    have e4' : byteAt rest b3.toNat = 2 := e4
    have elS : byteAt (48 :: b1 :: 2 :: b3 :: rest) (5 + b3.toNat) = byteAt rest (b3.toNat + 1) := by
      rw [Nat.add_comm 5]; rfl
    rw [elS] at hsum
    generalize hT : rest.drop b3.toNat = T
    have hTlen : T.length = rest.length - b3.toNat := by rw [← hT]; simp
    have hT0 : byteAt T 0 = 2 := by rw [← hT, byteAt_drop]; exact e4'
    have hT1 : byteAt T 1 = byteAt rest (b3.toNat + 1) := by
      rw [← hT]
      have : byteAt (List.drop b3.toNat rest) 1 = byteAt (List.drop 1 (List.drop b3.toNat rest)) 0 := (byteAt_drop _ 1).symm
      rw [this, List.drop_drop, byteAt_drop]
    match T, hTlen, hT0, hT1, hT with
    | c0 :: c1 :: Y, hTlen, hT0, hT1, hT =>
      simp only [byteAt_zero, byteAt_succ, List.length_cons] at hTlen hT0 hT1
      have hc0 : c0 = 0x02 := by
        have := uint8_eq_of_toNat c0 0x02 (by decide) hT0; simpa using this
      subst hc0
      rw [← hT1] at hsum
      -- sig.dropLast
      have hrne : rest ≠ [] := by intro e; subst e; simp at hTlen
      have hdl : (48 :: b1 :: 2 :: b3 :: rest).dropLast = 48 :: b1 :: 2 :: b3 :: rest.dropLast := by
        cases rest with
        | nil => exact absurd rfl hrne
        | cons x xs => rfl
      rw [hdl]
      have hYne : Y ≠ [] := by intro e; subst e; simp at hTlen; omega
      have hdrop : rest.dropLast.drop b3.toNat = 2 :: c1 :: Y.dropLast := by
        rw [List.dropLast_eq_take, List.drop_take, hT]
        have : rest.length - 1 - b3.toNat = (2 :: c1 :: Y).length - 1 := by simp only [List.length_cons]; omega
        rw [this, ← List.dropLast_eq_take]
        cases Y with
        | nil => exact absurd rfl hYne
        | cons y ys => rfl
      apply derLax_shape b1 b3 c1 rest.dropLast Y.dropLast
      · omega
      · omega
      · simp only [List.length_dropLast]; omega
      · exact hdrop
      · omega
      · simp only [List.length_dropLast]; omega
    | [], hTlen, _, _, _ => simp at hTlen; omega
    | [_], hTlen, _, _, _ => simp at hTlen; omega
  | [], h9, _, _, _, _, _, _, _ => simp at h9
  | [_], h9, _, _, _, _, _, _, _ => simp at h9
  | [_, _], h9, _, _, _, _, _, _, _ => simp at h9
  | [_, _, _], h9, _, _, _, _, _, _, _ => simp at h9


/-- every signature accepted by the strict (BIP66) encoding rule is parsed by the lax parser -/
theorem der_strict_subset_lax (sig : Bytes) (h : isValidSignatureEncoding sig = true) :
    (parseDerLax sig.dropLast).isSome = true := by
  unfold isValidSignatureEncoding at h
  simp only [Bool.and_eq_true] at h
  exact derShape_lax sig h.1

end BV.C06.Lemmas
