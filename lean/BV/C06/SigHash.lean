/-
C06 SigHash: transaction (de)serialisation and the three signature-hash algorithms (legacy,
BIP143, BIP341/342), written from Bitcoin Core's `SignatureHash` / `SignatureHashSchnorr`.
Core-only. (C07 owns the theorems about these digests; this file is the executable definition the
C06 interpreter's checker uses and may be shared.)
-/
import BV.C06.Model
namespace BV.C06

structure TxIn where
  prevHash : Bytes
  prevIdx : Nat
  scriptSig : Bytes
  sequence : Nat
  witness : List Bytes := []
  deriving Repr

structure TxOut where
  value : Nat      -- raw 64-bit pattern
  script : Bytes
  deriving Repr

structure Tx where
  version : Nat    -- raw 32-bit pattern
  ins : List TxIn
  outs : List TxOut
  lockTime : Nat
  deriving Repr

/-! ### parsing -/

def leN (n : Nat) (b : Bytes) : Option (Nat × Bytes) :=
  if b.length < n then none else some (leNat (b.take n), b.drop n)

def readCompact (b : Bytes) : Option (Nat × Bytes) :=
  match b with
  | [] => none
  | x :: rest =>
    if x.toNat < 253 then some (x.toNat, rest)
    else if x.toNat == 253 then leN 2 rest
    else if x.toNat == 254 then leN 4 rest
    else leN 8 rest

def readBytes (n : Nat) (b : Bytes) : Option (Bytes × Bytes) :=
  if b.length < n then none else some (b.take n, b.drop n)

def readVarBytes (b : Bytes) : Option (Bytes × Bytes) := do
  let (n, b) ← readCompact b
  readBytes n b

def readMany {α : Type} (f : Bytes → Option (α × Bytes)) : Nat → Bytes → Option (List α × Bytes)
  | 0, b => some ([], b)
  | n + 1, b => do
    let (x, b) ← f b
    let (xs, b) ← readMany f n b
    some (x :: xs, b)

def readTxIn (b : Bytes) : Option (TxIn × Bytes) := do
  let (h, b) ← readBytes 32 b
  let (i, b) ← leN 4 b
  let (s, b) ← readVarBytes b
  let (q, b) ← leN 4 b
  some ({ prevHash := h, prevIdx := i, scriptSig := s, sequence := q }, b)

def readTxOut (b : Bytes) : Option (TxOut × Bytes) := do
  let (v, b) ← leN 8 b
  let (s, b) ← readVarBytes b
  some ({ value := v, script := s }, b)

def readWitness (b : Bytes) : Option (List Bytes × Bytes) := do
  let (n, b) ← readCompact b
  if n > b.length then none else readMany readVarBytes n b

def readCounted {α : Type} (f : Bytes → Option (α × Bytes)) (b : Bytes) : Option (List α × Bytes) := do
  let (n, b) ← readCompact b
  if n > b.length then none else readMany f n b

/-- BIP144 transaction deserialisation (witness marker/flag optional); must consume all bytes. -/
def parseTx (b : Bytes) : Option Tx := do
  let (ver, b) ← leN 4 b
  let (segwit, b) := match b with
    | 0x00 :: 0x01 :: r => (true, r)
    | _ => (false, b)
  let (ins, b) ← readCounted readTxIn b
  let (outs, b) ← readCounted readTxOut b
  let (ins, b) ←
    if segwit then do
      let (ws, b) ← readMany readWitness ins.length b
      some ((ins.zip ws).map (fun (i, w) => { i with witness := w }), b)
    else some (ins, b)
  let (lt, b) ← leN 4 b
  if !b.isEmpty then none else
  some { version := ver, ins := ins, outs := outs, lockTime := lt }

/-! ### serialisation -/

def le (n len : Nat) : Bytes := (List.range len).map (fun i => UInt8.ofNat (n / 256 ^ i % 256))

def serOutpoint (i : TxIn) : Bytes := i.prevHash ++ le i.prevIdx 4
def serVar (b : Bytes) : Bytes := compactSize b.length ++ b
def serTxOut (o : TxOut) : Bytes := le o.value 8 ++ serVar o.script

/-- drop every OP_CODESEPARATOR opcode (`SerializeScriptCode`); a malformed tail is kept verbatim -/
def removeCodeSeps : Nat → Bytes → Bytes
  | 0, s => s
  | fuel + 1, s =>
    match getOp s with
    | none => s
    | some (op, _, rest) =>
      let opBytes := s.take (s.length - rest.length)
      if op == OP_CODESEPARATOR then removeCodeSeps fuel rest else opBytes ++ removeCodeSeps fuel rest

def uint256One : Bytes := 1 :: List.replicate 31 0
def zero32 : Bytes := List.replicate 32 0

/-- legacy `SignatureHash` (SigVersion::BASE) -/
def sighashLegacy (tx : Tx) (nIn : Nat) (scriptCode : Bytes) (hashType : Nat) : Bytes :=
  let base := hashType &&& 0x1f
  let acp := hashType &&& 0x80 != 0
  let single := base == 3
  let none_ := base == 2
  if nIn ≥ tx.ins.length then uint256One else
  if single && nIn ≥ tx.outs.length then uint256One else
  let code := removeCodeSeps scriptCode.length scriptCode
  let serIn (k : Nat) (i : TxIn) : Bytes :=
    serOutpoint i ++ (if k == nIn then serVar code else [0]) ++
      (if k != nIn && (single || none_) then le 0 4 else le i.sequence 4)
  let insSer : Bytes :=
    if acp then
      match tx.ins[nIn]? with
      | some i => compactSize 1 ++ serIn nIn i
      | none => []
    else compactSize tx.ins.length ++ (tx.ins.zipIdx.map (fun (i, k) => serIn k i)).flatten
  let nOut := if none_ then 0 else if single then nIn + 1 else tx.outs.length
  let outsSer : Bytes :=
    compactSize nOut ++ ((tx.outs.take nOut).zipIdx.map (fun (o, k) =>
      if single && k != nIn then le 0xffffffffffffffff 8 ++ [0] else serTxOut o)).flatten
  hash256 (le tx.version 4 ++ insSer ++ outsSer ++ le tx.lockTime 4 ++ le hashType 4)

/-- BIP143 `SignatureHash` (SigVersion::WITNESS_V0) -/
def sighashBip143 (tx : Tx) (nIn : Nat) (scriptCode : Bytes) (hashType : Nat) (amount : Nat) : Bytes :=
  let base := hashType &&& 0x1f
  let acp := hashType &&& 0x80 != 0
  match tx.ins[nIn]? with
  | none => uint256One
  | some inp =>
    let hashPrevouts := if !acp then hash256 (tx.ins.map serOutpoint).flatten else zero32
    let hashSequence :=
      if !acp && base != 3 && base != 2 then hash256 (tx.ins.map (fun i => le i.sequence 4)).flatten else zero32
    let hashOutputs :=
      if base != 3 && base != 2 then hash256 (tx.outs.map serTxOut).flatten
      else if base == 3 then
        match tx.outs[nIn]? with
        | some o => hash256 (serTxOut o)
        | none => zero32
      else zero32
    hash256 (le tx.version 4 ++ hashPrevouts ++ hashSequence ++ serOutpoint inp ++ serVar scriptCode ++
      le amount 8 ++ le inp.sequence 4 ++ hashOutputs ++ le tx.lockTime 4 ++ le hashType 4)

/-- BIP341 `SignatureHashSchnorr`; `ext` = `some (tapleafHash, codesepPos)` for tapscript.
`spent` = all spent outputs (amount, scriptPubKey), one per input. `none` = invalid hash type /
missing SIGHASH_SINGLE output. -/
def sighashTaproot (tx : Tx) (nIn : Nat) (spent : List TxOut) (hashType : Nat) (annex : Option Bytes)
    (ext : Option (Bytes × Nat)) : Option Bytes :=
  if !(hashType ≤ 3 || (0x81 ≤ hashType && hashType ≤ 0x83)) then none else
  match tx.ins[nIn]?, spent[nIn]? with
  | some inp, some sp =>
    let outType := if hashType == 0 then 1 else hashType &&& 3
    let acp := hashType &&& 0x80 != 0
    let pre := [0x00, UInt8.ofNat hashType] ++ le tx.version 4 ++ le tx.lockTime 4
    let insPart :=
      if !acp then
        sha256 (tx.ins.map serOutpoint).flatten ++ sha256 (spent.map (fun o => le o.value 8)).flatten ++
        sha256 (spent.map (fun o => serVar o.script)).flatten ++
        sha256 (tx.ins.map (fun i => le i.sequence 4)).flatten
      else []
    let outsPart := if outType == 1 then sha256 (tx.outs.map serTxOut).flatten else []
    let extFlag := if ext.isSome then 1 else 0
    let spendType := extFlag * 2 + (if annex.isSome then 1 else 0)
    let inPart :=
      if acp then serOutpoint inp ++ le sp.value 8 ++ serVar sp.script ++ le inp.sequence 4
      else le nIn 4
    let annexPart := match annex with
      | some a => sha256 (serVar a)
      | none => []
    let single? : Option Bytes :=
      if outType == 3 then
        match tx.outs[nIn]? with
        | some o => some (sha256 (serTxOut o))
        | none => none
      else some []
    match single? with
    | none => none
    | some singlePart =>
      let extPart := match ext with
        | some (leaf, pos) => leaf ++ [0x00] ++ le pos 4
        | none => []
      some (taggedHash "TapSighash" (pre ++ insPart ++ outsPart ++ [UInt8.ofNat spendType] ++ inPart ++
        annexPart ++ singlePart ++ extPart))
  | _, _ => none

end BV.C06
