/-
C06 Model: an executable Bitcoin script interpreter written from Bitcoin Core's semantics
(script/interpreter.cpp: `EvalScript`, `ExecuteWitnessScript`, `VerifyWitnessProgram`, `VerifyScript`),
not from btcd. Signature checking is abstracted exactly as in Core by a `Checker`
(`BaseSignatureChecker`): the interpreter does all encoding / flag logic itself and asks the checker
for `CheckECDSASignature`, `CheckSchnorrSignature`, `CheckLockTime`, `CheckSequence` and the taproot
tweak equation. Core-only; structural recursion only (fuel = script length).
-/
import BV.C06.Spec
import BV.Common.Sha256
import BV.Common.Sha1
import BV.Common.Ripemd160
namespace BV.C06

abbrev R := Except Err

/-! ### hashes -/
def sha256 (b : Bytes) : Bytes := BV.Sha256.hashList b
def hash256 (b : Bytes) : Bytes := BV.Sha256.hash2List b
def sha1 (b : Bytes) : Bytes := BV.Sha1.hashList b
def ripemd160 (b : Bytes) : Bytes := BV.Ripemd160.hashList b
def hash160 (b : Bytes) : Bytes := ripemd160 (sha256 b)
def taggedHash (tag : String) (b : Bytes) : Bytes :=
  (BV.Sha256.tagged tag (ByteArray.mk b.toArray)).toList

/-! ### tokenizer (`GetScriptOp`) -/

/-- One opcode: `(opcode, pushed data, rest of script)`; `none` = malformed push. -/
def getOp : Bytes → Option (Nat × Bytes × Bytes)
  | [] => none
  | b :: rest =>
    let op := b.toNat
    if op < OP_PUSHDATA1 then
      if rest.length < op then none else some (op, rest.take op, rest.drop op)
    else if op == OP_PUSHDATA1 then
      match rest with
      | l :: r => if r.length < l.toNat then none else some (op, r.take l.toNat, r.drop l.toNat)
      | _ => none
    else if op == OP_PUSHDATA2 then
      match rest with
      | l0 :: l1 :: r =>
        let n := l0.toNat + 256 * l1.toNat
        if r.length < n then none else some (op, r.take n, r.drop n)
      | _ => none
    else if op == OP_PUSHDATA4 then
      match rest with
      | l0 :: l1 :: l2 :: l3 :: r =>
        let n := l0.toNat + 256 * l1.toNat + 65536 * l2.toNat + 16777216 * l3.toNat
        if r.length < n then none else some (op, r.take n, r.drop n)
      | _ => none
    else some (op, [], rest)

/-- `CScript::IsPushOnly` -/
def isPushOnlyAux : Nat → Bytes → Bool
  | _, [] => true
  | 0, _ :: _ => false
  | fuel + 1, s@(_ :: _) =>
    match getOp s with
    | none => false
    | some (op, _, rest) => if op > OP_16 then false else isPushOnlyAux fuel rest
def isPushOnly (s : Bytes) : Bool := isPushOnlyAux s.length s

/-- canonical push of a byte string (`CScript() << vch`): size-directed, never OP_N. -/
def pushData (d : Bytes) : Bytes :=
  let n := d.length
  if n < OP_PUSHDATA1 then UInt8.ofNat n :: d
  else if n ≤ 0xff then 0x4c :: UInt8.ofNat n :: d
  else if n ≤ 0xffff then 0x4d :: UInt8.ofNat (n % 256) :: UInt8.ofNat (n / 256) :: d
  else 0x4e :: UInt8.ofNat (n % 256) :: UInt8.ofNat (n / 256 % 256) :: UInt8.ofNat (n / 65536 % 256) ::
    UInt8.ofNat (n / 16777216 % 256) :: d

def isPrefix : Bytes → Bytes → Bool
  | [], _ => true
  | _ :: _, [] => false
  | a :: as, b :: bs => a == b && isPrefix as bs

/-- strip every leading occurrence of `pat` (inner `while` of `FindAndDelete`) -/
def stripPrefixes (pat : Bytes) : Nat → Bytes → Bytes × Nat
  | 0, s => (s, 0)
  | fuel + 1, s =>
    if pat.length ≤ s.length && isPrefix pat s then
      let (s', k) := stripPrefixes pat fuel (s.drop pat.length)
      (s', k + 1)
    else (s, 0)

/-- `FindAndDelete(script, pat)`: delete `pat` wherever it starts at an opcode boundary. Returns the new
script and the number of deletions. -/
def findAndDeleteAux (pat : Bytes) : Nat → Bytes → Bytes × Nat
  | 0, s => (s, 0)
  | fuel + 1, s =>
    let (s1, k) := stripPrefixes pat s.length s
    match getOp s1 with
    | none => (s1, k)
    | some (_, _, rest) =>
      let opBytes := s1.take (s1.length - rest.length)
      let (r, k') := findAndDeleteAux pat fuel rest
      (opBytes ++ r, k + k')

def findAndDelete (script pat : Bytes) : Bytes × Nat :=
  if pat.isEmpty then (script, 0) else findAndDeleteAux pat (script.length + 1) script

/-! ### script numbers -/

/-- `CScriptNum(vch, fRequireMinimal, nMaxNumSize)`; both failures throw `scriptnum_error`, which
`EvalScript` reports as SCRIPTNUM. -/
def decodeNum (v : Bytes) (minimal : Bool) (maxLen : Nat := 4) : R Int :=
  if v.length > maxLen then .error .SCRIPTNUM
  else if minimal && !isMinimalNum v then .error .SCRIPTNUM
  else .ok (numValue v)

/-- `CScriptNum::getint` -/
def clampInt (n : Int) : Int :=
  if n > 2147483647 then 2147483647 else if n < -2147483648 then -2147483648 else n

def boolBytes (b : Bool) : Bytes := if b then [1] else []

/-! ### signature / public key encoding checks -/

def byteAt (s : Bytes) (i : Nat) : Nat := (s.getD i 0).toNat

/-- structural part of `IsValidSignatureEncoding` (BIP66): total length, sequence tag and length, the two
integer tags, and the element lengths adding up -/
def derShape (sig : Bytes) : Bool :=
  decide (9 ≤ sig.length) && decide (sig.length ≤ 73) && (byteAt sig 0 == 0x30) &&
  (byteAt sig 1 == sig.length - 3) && decide (5 + byteAt sig 3 < sig.length) &&
  (byteAt sig 3 + byteAt sig (5 + byteAt sig 3) + 7 == sig.length) && (byteAt sig 2 == 0x02) &&
  (byteAt sig (byteAt sig 3 + 4) == 0x02)

/-- the rules on the two integers: not empty, not negative, no unnecessary leading zero byte -/
def derInts (sig : Bytes) : Bool :=
  let lenR := byteAt sig 3
  let lenS := byteAt sig (5 + lenR)
  lenR != 0 && (byteAt sig 4 &&& 0x80 == 0) &&
  !(lenR > 1 && byteAt sig 4 == 0 && byteAt sig 5 &&& 0x80 == 0) &&
  lenS != 0 && (byteAt sig (lenR + 6) &&& 0x80 == 0) &&
  !(lenS > 1 && byteAt sig (lenR + 6) == 0 && byteAt sig (lenR + 7) &&& 0x80 == 0)

/-- `IsValidSignatureEncoding` (BIP66), on the full signature including the hash type byte: Core's chain of
`if (…) return false` is a conjunction (every test is a total function of the bytes). -/
def isValidSignatureEncoding (sig : Bytes) : Bool := derShape sig && derInts sig

def beNat (b : Bytes) : Nat := b.foldl (fun acc x => acc * 256 + x.toNat) 0

/-- DER length field of `ecdsa_signature_parse_der_lax`: returns (length, rest). -/
def laxLen (inp : Bytes) : Option (Nat × Bytes) :=
  match inp with
  | [] => none
  | lb :: rest =>
    if lb.toNat &&& 0x80 != 0 then
      let k := lb.toNat - 0x80
      if k > rest.length then none else
      let lenBytes := (rest.take k).dropWhile (· == 0)
      if lenBytes.length ≥ 4 then none else some (beNat lenBytes, rest.drop k)
    else some (lb.toNat, rest)

/-- Core's `ecdsa_signature_parse_der_lax` followed by `secp256k1_ecdsa_signature_parse_compact`:
`none` = parse failure; `some (r, s)` with `(0,0)` when a component overflows. -/
def parseDerLax (inp : Bytes) : Option (Nat × Nat) :=
  match inp with
  | 0x30 :: rest =>
    match rest with
    | [] => none
    | lb :: rest =>
      -- sequence length: skipped, not checked
      let rest? : Option Bytes :=
        if lb.toNat &&& 0x80 != 0 then
          let k := lb.toNat - 0x80
          if k > rest.length then none else some (rest.drop k)
        else some rest
      match rest? with
      | none => none
      | some rest =>
        match rest with
        | 0x02 :: rest =>
          match laxLen rest with
          | none => none
          | some (rlen, rest) =>
            if rlen > rest.length then none else
            let rb := rest.take rlen
            match rest.drop rlen with
            | 0x02 :: rest =>
              match laxLen rest with
              | none => none
              | some (slen, rest) =>
                if slen > rest.length then none else
                let sb := rest.take slen
                let rb := rb.dropWhile (· == 0)
                let sb := sb.dropWhile (· == 0)
                if rb.length > 32 || sb.length > 32 then some (0, 0)
                else
                  let r := beNat rb
                  let s := beNat sb
                  if r ≥ SECP_N || s ≥ SECP_N then some (0, 0) else some (r, s)
            | _ => none
        | _ => none
  | _ => none

/-- `IsLowDERSignature` tail: `CPubKey::CheckLowS` on the signature without hash type. -/
def checkLowS (sigNoHt : Bytes) : Bool :=
  match parseDerLax sigNoHt with
  | none => false
  | some (_, s) => s ≤ SECP_N / 2

def isDefinedHashtype (sig : Bytes) : Bool :=
  match sig.getLast? with
  | none => false
  | some ht =>
    let t := ht.toNat &&& 0x7f    -- ~SIGHASH_ANYONECANPAY
    1 ≤ t && t ≤ 3

/-- `CheckSignatureEncoding` -/
def checkSignatureEncoding (f : Flags) (sig : Bytes) : R Unit :=
  if sig.isEmpty then .ok () else
  if (f.dersig || f.lowS || f.strictenc) && !isValidSignatureEncoding sig then .error .SIG_DER
  else if f.lowS && !(isValidSignatureEncoding sig) then .error .SIG_DER
  else if f.lowS && !checkLowS sig.dropLast then .error .SIG_HIGH_S
  else if f.strictenc && !isDefinedHashtype sig then .error .SIG_HASHTYPE
  else .ok ()

def isCompressedOrUncompressedPubKey (pk : Bytes) : Bool :=
  if pk.length < 33 then false
  else if byteAt pk 0 == 0x04 then pk.length == 65
  else if byteAt pk 0 == 0x02 || byteAt pk 0 == 0x03 then pk.length == 33
  else false

def isCompressedPubKey (pk : Bytes) : Bool :=
  pk.length == 33 && (byteAt pk 0 == 0x02 || byteAt pk 0 == 0x03)

/-- `CheckPubKeyEncoding` -/
def checkPubKeyEncoding (f : Flags) (sv : SigVer) (pk : Bytes) : R Unit :=
  if f.strictenc && !isCompressedOrUncompressedPubKey pk then .error .PUBKEYTYPE
  else if f.witnessPubkeytype && sv == .witnessV0 && !isCompressedPubKey pk then .error .WITNESS_PUBKEYTYPE
  else .ok ()

/-! ### the signature checker interface (`BaseSignatureChecker`) -/

/-- Per-input data of a tapscript execution that the Schnorr checker needs (`ScriptExecutionData`). -/
structure ExecData where
  annex : Option Bytes := none
  tapleafHash : Bytes := []
  codesepPos : Nat := 0xffffffff
  deriving Repr

structure Checker where
  /-- `CheckECDSASignature(sig, pubkey, scriptCode, sigversion)`; an error is only ever `ORACLE`. -/
  ecdsa : Bytes → Bytes → Bytes → SigVer → R Bool
  /-- `CheckSchnorrSignature(sig, pubkey, sigversion, execdata)`: ok or the SCHNORR_* error. -/
  schnorr : Bytes → Bytes → SigVer → ExecData → R Unit
  lockTime : Int → Bool
  sequence : Int → Bool
  /-- `q.CheckTapTweak(p, merkle_root, parity)` given `tweak = H_TapTweak(p ‖ root)`:
  internal key, tweak, output key, parity bit. -/
  tapTweak : Bytes → Bytes → Bytes → Bool → R Bool

/-! ### interpreter state -/

structure Ctx where
  flags : Flags
  sv : SigVer
  chk : Checker
  xd : ExecData := {}

structure St where
  stack : List Bytes
  alt : List Bytes := []
  /-- `vfExec`: one entry per open IF/NOTIF, innermost first -/
  cond : List Bool := []
  nOps : Nat := 0
  /-- script from the last executed OP_CODESEPARATOR (`pbegincodehash .. pend`) -/
  code : Bytes
  codesepPos : Nat := 0xffffffff
  opPos : Nat := 0
  /-- `m_validation_weight_left` -/
  weight : Int := 0

def St.exec (st : St) : Bool := st.cond.all id

def invalidStack : R St := .error .INVALID_STACK_OPERATION

def unaryNum (c : Ctx) (st : St) (f : Int → Int) : R St :=
  match st.stack with
  | a :: s => do
    let n ← decodeNum a c.flags.minimaldata
    .ok { st with stack := encodeNum (f n) :: s }
  | _ => invalidStack

def binaryNum (c : Ctx) (st : St) (f : Int → Int → Bytes) : R St :=
  match st.stack with
  | b :: a :: s => do
    let n1 ← decodeNum a c.flags.minimaldata
    let n2 ← decodeNum b c.flags.minimaldata
    .ok { st with stack := f n1 n2 :: s }
  | _ => invalidStack

def hashOp (st : St) (h : Bytes → Bytes) : R St :=
  match st.stack with
  | a :: s => .ok { st with stack := h a :: s }
  | _ => invalidStack

/-- script code of a pre-tapscript signature check: BASE deletes the signature from it (`FindAndDelete`);
with CONST_SCRIPTCODE a deletion is an error -/
def scriptCodeFor (c : Ctx) (st : St) (sig : Bytes) : R Bytes :=
  if c.sv == .base then
    if (findAndDelete st.code (pushData sig)).2 > 0 && c.flags.constScriptcode then .error .SIG_FINDANDDELETE
    else .ok (findAndDelete st.code (pushData sig)).1
  else .ok st.code

/-- `EvalChecksigPreTapscript` -/
def evalChecksigPre (c : Ctx) (st : St) (sig pk : Bytes) : R Bool :=
  scriptCodeFor c st sig >>= fun code =>
  checkSignatureEncoding c.flags sig >>= fun _ =>
  checkPubKeyEncoding c.flags c.sv pk >>= fun _ =>
  c.chk.ecdsa sig pk code c.sv >>= fun ok =>
  if !ok && c.flags.nullfail && !sig.isEmpty then .error .NULLFAIL else .ok ok

/-- `EvalChecksigTapscript`: returns success and the new validation weight. -/
def evalChecksigTapscript (c : Ctx) (st : St) (sig pk : Bytes) : R (Bool × Int) := do
  let success := !sig.isEmpty
  let w := if success then st.weight - VALIDATION_WEIGHT_PER_SIGOP_PASSED else st.weight
  if success && w < 0 then .error .TAPSCRIPT_VALIDATION_WEIGHT else
  if pk.isEmpty then .error .TAPSCRIPT_EMPTY_PUBKEY
  else if pk.length == 32 then
    if success then do
      c.chk.schnorr sig pk c.sv { c.xd with codesepPos := st.codesepPos }
      pure (true, w)
    else pure (false, w)
  else if c.flags.discouragePubkeytype then .error .DISCOURAGE_UPGRADABLE_PUBKEYTYPE
  else pure (success, w)

def evalChecksig (c : Ctx) (st : St) (sig pk : Bytes) : R (Bool × Int) :=
  match c.sv with
  | .base | .witnessV0 => do let ok ← evalChecksigPre c st sig pk; pure (ok, st.weight)
  | .tapscript => evalChecksigTapscript c st sig pk
  | .taproot => .error .UNKNOWN_ERROR   -- key path spends have no script

/-- signature loop of OP_CHECKMULTISIG: `sigs`/`keys` in stack order (first = nearest the top). -/
def multisigLoop (c : Ctx) (code : Bytes) : Nat → List Bytes → List Bytes → R Bool
  | _, [], _ => .ok true
  | 0, _ :: _, _ => .ok false
  | _ + 1, _ :: _, [] => .ok false
  | fuel + 1, sig :: sigs, pk :: keys => do
    checkSignatureEncoding c.flags sig
    checkPubKeyEncoding c.flags c.sv pk
    let ok ← c.chk.ecdsa sig pk code c.sv
    let sigs' := if ok then sigs else sig :: sigs
    -- more signatures left than keys left: too many have failed
    if sigs'.length > keys.length then .ok false
    else multisigLoop c code fuel sigs' keys

/-- FindAndDelete of every signature (BASE only), with the CONST_SCRIPTCODE rule. -/
def multisigStrip (c : Ctx) : List Bytes → Bytes → R Bytes
  | [], code => .ok code
  | sig :: sigs, code =>
    if c.sv == .base then
      let (code', found) := findAndDelete code (pushData sig)
      if found > 0 && c.flags.constScriptcode then .error .SIG_FINDANDDELETE
      else multisigStrip c sigs code'
    else .ok code

/-- the arguments of OP_CHECKMULTISIG as popped from the stack -/
structure MsArgs where
  keys : List Bytes
  sigs : List Bytes
  dummy : Bytes
  rest : List Bytes
  nOps : Nat

/-- argument extraction of OP_CHECKMULTISIG: counts, op-count accounting, stack size checks (the extra
"dummy" element is part of the size check) -/
def multisigArgs (c : Ctx) (st : St) : R MsArgs :=
  if c.sv == .tapscript then .error .TAPSCRIPT_CHECKMULTISIG else
  match st.stack with
  | [] => .error .INVALID_STACK_OPERATION
  | nk :: s1 =>
    match decodeNum nk c.flags.minimaldata with
    | .error e => .error e
    | .ok nKeys =>
      let nKeys := clampInt nKeys
      if nKeys < 0 || nKeys > (MAX_PUBKEYS_PER_MULTISIG : Int) then .error .PUBKEY_COUNT else
      let nKeys := nKeys.toNat
      let nOps := st.nOps + nKeys
      if nOps > MAX_OPS_PER_SCRIPT then .error .OP_COUNT else
      if s1.length < nKeys + 1 then .error .INVALID_STACK_OPERATION else
      match s1.drop nKeys with
      | [] => .error .INVALID_STACK_OPERATION
      | ns :: s2 =>
        match decodeNum ns c.flags.minimaldata with
        | .error e => .error e
        | .ok nSigs =>
          let nSigs := clampInt nSigs
          if nSigs < 0 || nSigs > (nKeys : Int) then .error .SIG_COUNT else
          let nSigs := nSigs.toNat
          match s2.drop nSigs with
          | [] => .error .INVALID_STACK_OPERATION
          | dummy :: s4 =>
            .ok { keys := s1.take nKeys, sigs := s2.take nSigs, dummy := dummy, rest := s4, nOps := nOps }

/-- after the signature loop: NULLFAIL, NULLDUMMY, result -/
def multisigFinish (c : Ctx) (st : St) (a : MsArgs) (success verify : Bool) : R St :=
  if !success && c.flags.nullfail && a.sigs.any (fun s => !s.isEmpty) then .error .NULLFAIL else
  if c.flags.nulldummy && !a.dummy.isEmpty then .error .SIG_NULLDUMMY else
  if verify then
    if success then .ok { st with stack := a.rest, nOps := a.nOps } else .error .CHECKMULTISIGVERIFY
  else .ok { st with stack := boolBytes success :: a.rest, nOps := a.nOps }

def opCheckMultisig (c : Ctx) (st : St) (verify : Bool) : R St :=
  multisigArgs c st >>= fun a =>
  multisigStrip c a.sigs st.code >>= fun code =>
  multisigLoop c code (a.keys.length + a.sigs.length + 1) a.sigs a.keys >>= fun success =>
  multisigFinish c st a success verify

/-- `OP_IF` / `OP_NOTIF` -/
def opIf (c : Ctx) (st : St) (isNotIf : Bool) : R St :=
  if st.exec then
    match st.stack with
    | [] => .error .INVALID_STACK_OPERATION
    | v :: s =>
      if c.sv == .tapscript && (v.length > 1 || (v.length == 1 && v != [1])) then
        .error .TAPSCRIPT_MINIMALIF
      else if c.sv == .witnessV0 && c.flags.minimalif && (v.length > 1 || (v.length == 1 && v != [1])) then
        .error .MINIMALIF
      else
        let b := castToBool v
        .ok { st with stack := s, cond := (if isNotIf then !b else b) :: st.cond }
  else .ok { st with cond := false :: st.cond }

/-- OP_CHECKLOCKTIMEVERIFY -/
def opCLTV (c : Ctx) (st : St) : R St :=
  if !c.flags.cltv then .ok st else
  match st.stack with
  | [] => invalidStack
  | a :: _ =>
    match decodeNum a c.flags.minimaldata 5 with
    | .error e => .error e
    | .ok n =>
      if n < 0 then .error .NEGATIVE_LOCKTIME
      else if !c.chk.lockTime n then .error .UNSATISFIED_LOCKTIME
      else .ok st

/-- OP_CHECKSEQUENCEVERIFY -/
def opCSV (c : Ctx) (st : St) : R St :=
  if !c.flags.csv then .ok st else
  match st.stack with
  | [] => invalidStack
  | a :: _ =>
    match decodeNum a c.flags.minimaldata 5 with
    | .error e => .error e
    | .ok n =>
      if n < 0 then .error .NEGATIVE_LOCKTIME
      else if n.toNat &&& SEQUENCE_LOCKTIME_DISABLE_FLAG != 0 then .ok st
      else if !c.chk.sequence n then .error .UNSATISFIED_LOCKTIME
      else .ok st

/-- OP_PICK / OP_ROLL -/
def opPickRoll (c : Ctx) (st : St) (roll : Bool) : R St :=
  match st.stack with
  | nb :: s@(_ :: _) =>
    match decodeNum nb c.flags.minimaldata with
    | .error e => .error e
    | .ok n =>
      let n := clampInt n
      if n < 0 || n ≥ (s.length : Int) then invalidStack else
      let i := n.toNat
      match s[i]? with
      | none => invalidStack
      | some v =>
        if roll then .ok { st with stack := v :: s.eraseIdx i }
        else .ok { st with stack := v :: s }
  | _ => invalidStack

/-- OP_WITHIN -/
def opWithin (c : Ctx) (st : St) : R St :=
  match st.stack with
  | mx :: mn :: x :: s =>
    match decodeNum x c.flags.minimaldata, decodeNum mn c.flags.minimaldata, decodeNum mx c.flags.minimaldata with
    | .ok n1, .ok n2, .ok n3 => .ok { st with stack := boolBytes (decide (n2 ≤ n1) && decide (n1 < n3)) :: s }
    | .error e, _, _ => .error e
    | _, .error e, _ => .error e
    | _, _, .error e => .error e
  | _ => invalidStack

/-- OP_NUMEQUALVERIFY -/
def opNumEqualVerify (c : Ctx) (st : St) : R St :=
  match binaryNum c st (fun a b => boolBytes (a == b)) with
  | .error e => .error e
  | .ok st' =>
    match st'.stack with
    | r :: s => if castToBool r then .ok { st' with stack := s } else .error .NUMEQUALVERIFY
    | _ => invalidStack

/-- OP_CHECKSIG / OP_CHECKSIGVERIFY -/
def opChecksig (c : Ctx) (st : St) (verify : Bool) : R St :=
  match st.stack with
  | pk :: sig :: s =>
    match evalChecksig c st sig pk with
    | .error e => .error e
    | .ok (ok, w) =>
      if verify then
        if ok then .ok { st with stack := s, weight := w } else .error .CHECKSIGVERIFY
      else .ok { st with stack := boolBytes ok :: s, weight := w }
  | _ => invalidStack

/-- OP_CHECKSIGADD -/
def opChecksigAdd (c : Ctx) (st : St) : R St :=
  if c.sv == .base || c.sv == .witnessV0 then .error .BAD_OPCODE else
  match st.stack with
  | pk :: nb :: sig :: s =>
    match decodeNum nb c.flags.minimaldata with
    | .error e => .error e
    | .ok n =>
      match evalChecksig c st sig pk with
      | .error e => .error e
      | .ok (ok, w) => .ok { st with stack := encodeNum (n + (if ok then 1 else 0)) :: s, weight := w }
  | _ => invalidStack

/-- The body of `EvalScript`'s `switch (opcode)` for a non-push opcode that is executed
(or is one of OP_IF..OP_ENDIF). `rest` = script after this opcode (for OP_CODESEPARATOR). -/
def execOp (c : Ctx) (op : Nat) (rest : Bytes) (st : St) : R St :=
  match op with
  -- OP_1NEGATE, OP_1 .. OP_16
  | 0x4f => .ok { st with stack := encodeNum (-1) :: st.stack }
  | 0x51 | 0x52 | 0x53 | 0x54 | 0x55 | 0x56 | 0x57 | 0x58
  | 0x59 | 0x5a | 0x5b | 0x5c | 0x5d | 0x5e | 0x5f | 0x60 =>
    .ok { st with stack := encodeNum ((op : Int) - 0x50) :: st.stack }
  | 0x61 => .ok st   -- NOP
  | 0xb1 => opCLTV c st
  | 0xb2 => opCSV c st
  | 0xb0 | 0xb3 | 0xb4 | 0xb5 | 0xb6 | 0xb7 | 0xb8 | 0xb9 =>   -- NOP1, NOP4..NOP10
    if c.flags.discourageNops then .error .DISCOURAGE_UPGRADABLE_NOPS else .ok st
  | 0x63 => opIf c st false
  | 0x64 => opIf c st true
  | 0x67 =>          -- ELSE
    match st.cond with
    | [] => .error .UNBALANCED_CONDITIONAL
    | b :: cs => .ok { st with cond := (!b) :: cs }
  | 0x68 =>          -- ENDIF
    match st.cond with
    | [] => .error .UNBALANCED_CONDITIONAL
    | _ :: cs => .ok { st with cond := cs }
  | 0x69 =>          -- VERIFY
    match st.stack with
    | a :: s => if castToBool a then .ok { st with stack := s } else .error .VERIFY
    | _ => invalidStack
  | 0x6a => .error .OP_RETURN
  | 0x6b =>          -- TOALTSTACK
    match st.stack with
    | a :: s => .ok { st with stack := s, alt := a :: st.alt }
    | _ => invalidStack
  | 0x6c =>          -- FROMALTSTACK
    match st.alt with
    | a :: s => .ok { st with stack := a :: st.stack, alt := s }
    | _ => .error .INVALID_ALTSTACK_OPERATION
  | 0x6d => match st.stack with   -- 2DROP
    | _ :: _ :: s => .ok { st with stack := s } | _ => invalidStack
  | 0x6e => match st.stack with   -- 2DUP
    | x2 :: x1 :: s => .ok { st with stack := x2 :: x1 :: x2 :: x1 :: s } | _ => invalidStack
  | 0x6f => match st.stack with   -- 3DUP
    | x3 :: x2 :: x1 :: s => .ok { st with stack := x3 :: x2 :: x1 :: x3 :: x2 :: x1 :: s }
    | _ => invalidStack
  | 0x70 => match st.stack with   -- 2OVER
    | x4 :: x3 :: x2 :: x1 :: s => .ok { st with stack := x2 :: x1 :: x4 :: x3 :: x2 :: x1 :: s }
    | _ => invalidStack
  | 0x71 => match st.stack with   -- 2ROT
    | x6 :: x5 :: x4 :: x3 :: x2 :: x1 :: s => .ok { st with stack := x2 :: x1 :: x6 :: x5 :: x4 :: x3 :: s }
    | _ => invalidStack
  | 0x72 => match st.stack with   -- 2SWAP
    | x4 :: x3 :: x2 :: x1 :: s => .ok { st with stack := x2 :: x1 :: x4 :: x3 :: s }
    | _ => invalidStack
  | 0x73 => match st.stack with   -- IFDUP
    | a :: s => .ok { st with stack := if castToBool a then a :: a :: s else a :: s }
    | _ => invalidStack
  | 0x74 => .ok { st with stack := encodeNum st.stack.length :: st.stack }   -- DEPTH
  | 0x75 => match st.stack with   -- DROP
    | _ :: s => .ok { st with stack := s } | _ => invalidStack
  | 0x76 => match st.stack with   -- DUP
    | a :: s => .ok { st with stack := a :: a :: s } | _ => invalidStack
  | 0x77 => match st.stack with   -- NIP
    | x2 :: _ :: s => .ok { st with stack := x2 :: s } | _ => invalidStack
  | 0x78 => match st.stack with   -- OVER
    | x2 :: x1 :: s => .ok { st with stack := x1 :: x2 :: x1 :: s } | _ => invalidStack
  | 0x79 => opPickRoll c st false
  | 0x7a => opPickRoll c st true
  | 0x7b => match st.stack with   -- ROT
    | x3 :: x2 :: x1 :: s => .ok { st with stack := x1 :: x3 :: x2 :: s } | _ => invalidStack
  | 0x7c => match st.stack with   -- SWAP
    | x2 :: x1 :: s => .ok { st with stack := x1 :: x2 :: s } | _ => invalidStack
  | 0x7d => match st.stack with   -- TUCK
    | x2 :: x1 :: s => .ok { st with stack := x2 :: x1 :: x2 :: s } | _ => invalidStack
  | 0x82 => match st.stack with   -- SIZE
    | a :: s => .ok { st with stack := encodeNum a.length :: a :: s } | _ => invalidStack
  | 0x87 => match st.stack with   -- EQUAL
    | b :: a :: s => .ok { st with stack := boolBytes (a == b) :: s } | _ => invalidStack
  | 0x88 => match st.stack with   -- EQUALVERIFY
    | b :: a :: s => if a == b then .ok { st with stack := s } else .error .EQUALVERIFY
    | _ => invalidStack
  | 0x8b => unaryNum c st (· + 1)
  | 0x8c => unaryNum c st (· - 1)
  | 0x8f => unaryNum c st (fun n => -n)
  | 0x90 => unaryNum c st (fun n => if n < 0 then -n else n)
  | 0x91 => unaryNum c st (fun n => if n == 0 then 1 else 0)
  | 0x92 => unaryNum c st (fun n => if n != 0 then 1 else 0)
  | 0x93 => binaryNum c st (fun a b => encodeNum (a + b))
  | 0x94 => binaryNum c st (fun a b => encodeNum (a - b))
  | 0x9a => binaryNum c st (fun a b => boolBytes (a != 0 && b != 0))
  | 0x9b => binaryNum c st (fun a b => boolBytes (a != 0 || b != 0))
  | 0x9c => binaryNum c st (fun a b => boolBytes (a == b))
  | 0x9d => opNumEqualVerify c st
  | 0x9e => binaryNum c st (fun a b => boolBytes (a != b))
  | 0x9f => binaryNum c st (fun a b => boolBytes (decide (a < b)))
  | 0xa0 => binaryNum c st (fun a b => boolBytes (decide (a > b)))
  | 0xa1 => binaryNum c st (fun a b => boolBytes (decide (a ≤ b)))
  | 0xa2 => binaryNum c st (fun a b => boolBytes (decide (a ≥ b)))
  | 0xa3 => binaryNum c st (fun a b => encodeNum (if a < b then a else b))
  | 0xa4 => binaryNum c st (fun a b => encodeNum (if a > b then a else b))
  | 0xa5 => opWithin c st
  | 0xa6 => hashOp st ripemd160
  | 0xa7 => hashOp st sha1
  | 0xa8 => hashOp st sha256
  | 0xa9 => hashOp st hash160
  | 0xaa => hashOp st hash256
  | 0xab => .ok { st with code := rest, codesepPos := st.opPos }   -- CODESEPARATOR
  | 0xac => opChecksig c st false
  | 0xad => opChecksig c st true
  | 0xba => opChecksigAdd c st
  | 0xae => opCheckMultisig c st false
  | 0xaf => opCheckMultisig c st true
  | _ => .error .BAD_OPCODE

/-- op counting: only BASE / WITNESS_V0 scripts count non-push opcodes -/
def countOp (c : Ctx) (op : Nat) (n : Nat) : Nat :=
  if (c.sv == .base || c.sv == .witnessV0) && op > OP_16 then n + 1 else n

/-- checks made for every opcode seen, executed or not; returns the state with the op counted -/
def stepPre (c : Ctx) (op : Nat) (data : Bytes) (st : St) : R St :=
  if data.length > MAX_SCRIPT_ELEMENT_SIZE then .error .PUSH_SIZE else
  if countOp c op st.nOps > MAX_OPS_PER_SCRIPT then .error .OP_COUNT else
  if isDisabled op then .error .DISABLED_OPCODE else
  if op == OP_CODESEPARATOR && c.sv == .base && c.flags.constScriptcode then .error .OP_CODESEPARATOR else
  .ok { st with nOps := countOp c op st.nOps }

/-- push / execute / skip -/
def stepCore (c : Ctx) (op : Nat) (data rest : Bytes) (st : St) : R St :=
  if st.exec && op ≤ OP_PUSHDATA4 then
    if c.flags.minimaldata && !checkMinimalPush op data then .error .MINIMALDATA
    else .ok { st with stack := data :: st.stack }
  else if st.exec || (OP_IF ≤ op && op ≤ OP_ENDIF) then execOp c op rest st
  else .ok st

/-- combined stack size limit, then advance the opcode position -/
def stepPost (st : St) : R St :=
  if st.stack.length + st.alt.length > MAX_STACK_SIZE then .error .STACK_SIZE
  else .ok { st with opPos := st.opPos + 1 }

/-- One iteration of the `EvalScript` loop for an already tokenised opcode. -/
def stepOp (c : Ctx) (op : Nat) (data rest : Bytes) (st : St) : R St := do
  let st0 ← stepPre c op data st
  let st1 ← stepCore c op data rest st0
  stepPost st1

/-- The main loop of `EvalScript`; `fuel ≥ script.length` always suffices (`eval_total`). -/
def evalLoop (c : Ctx) : Nat → Bytes → St → R St
  | _, [], st => if st.cond.isEmpty then .ok st else .error .UNBALANCED_CONDITIONAL
  | 0, _ :: _, _ => .error .FUEL
  | fuel + 1, script@(_ :: _), st =>
    match getOp script with
    | none => .error .BAD_OPCODE
    | some (op, data, rest) => do
      let st' ← stepOp c op data rest st
      evalLoop c fuel rest st'

/-- `EvalScript(stack, script, flags, checker, sigversion, execdata)`; returns the final stack. -/
def evalScript (c : Ctx) (script : Bytes) (stack : List Bytes) (weight : Int := 0) : R (List Bytes) := do
  if (c.sv == .base || c.sv == .witnessV0) && script.length > MAX_SCRIPT_SIZE then .error .SCRIPT_SIZE else
  let st ← evalLoop c script.length script { stack := stack, code := script, weight := weight }
  .ok st.stack

/-! ### witness programs -/

def compactSize (n : Nat) : Bytes :=
  if n < 253 then [UInt8.ofNat n]
  else if n ≤ 0xffff then [253, UInt8.ofNat (n % 256), UInt8.ofNat (n / 256)]
  else if n ≤ 0xffffffff then
    [254, UInt8.ofNat (n % 256), UInt8.ofNat (n / 256 % 256), UInt8.ofNat (n / 65536 % 256),
      UInt8.ofNat (n / 16777216 % 256)]
  else 255 :: (List.range 8).map (fun i => UInt8.ofNat (n / 256 ^ i % 256))

/-- `GetSerializeSize(witness.stack)` -/
def witnessSerializedSize (w : List Bytes) : Nat :=
  (compactSize w.length).length + (w.map (fun e => (compactSize e.length).length + e.length)).sum

/-- `CScript::IsWitnessProgram` → (version, program) -/
def witnessProgram? (s : Bytes) : Option (Nat × Bytes) :=
  if s.length < 4 || s.length > 42 then none else
  match s with
  | v :: l :: prog =>
    if (v.toNat == 0 || (OP_1 ≤ v.toNat && v.toNat ≤ OP_16)) && l.toNat + 2 == s.length then
      some (if v.toNat == 0 then 0 else v.toNat - 0x50, prog)
    else none
  | _ => none

/-- `CScript::IsPayToScriptHash` -/
def isP2SH (s : Bytes) : Bool :=
  s.length == 23 && byteAt s 0 == OP_HASH160 && byteAt s 1 == 0x14 && byteAt s 22 == OP_EQUAL

/-- lexicographic `a < b` on byte strings -/
def bytesLt : Bytes → Bytes → Bool
  | _, [] => false
  | [], _ :: _ => true
  | a :: as, b :: bs => a < b || (a == b && bytesLt as bs)

def tapleafHash (leafVer : Nat) (script : Bytes) : Bytes :=
  taggedHash "TapLeaf" (UInt8.ofNat leafVer :: (compactSize script.length ++ script))

def tapbranchHash (a b : Bytes) : Bytes :=
  if bytesLt a b then taggedHash "TapBranch" (a ++ b) else taggedHash "TapBranch" (b ++ a)

/-- `ComputeTaprootMerkleRoot`: fold the 32-byte path nodes of the control block -/
def merkleRootAux : Nat → Bytes → Bytes → Bytes
  | 0, _, k => k
  | fuel + 1, path, k =>
    if path.isEmpty then k else merkleRootAux fuel (path.drop 32) (tapbranchHash k (path.take 32))

def taprootMerkleRoot (control : Bytes) (leafHash : Bytes) : Bytes :=
  merkleRootAux 129 (control.drop 33) leafHash

/-- the OP_SUCCESSx pre-scan of `ExecuteWitnessScript`: `some true` = an OP_SUCCESS was found first,
`some false` = script parses and has none, `none` = malformed before any OP_SUCCESS. -/
def scanOpSuccess : Nat → Bytes → Option Bool
  | _, [] => some false
  | 0, _ :: _ => none
  | fuel + 1, s@(_ :: _) =>
    match getOp s with
    | none => none
    | some (op, _, rest) => if isOpSuccess op then some true else scanOpSuccess fuel rest

/-- `ExecuteWitnessScript` -/
def executeWitnessScript (fl : Flags) (chk : Checker) (sv : SigVer) (xd : ExecData) (weight : Int)
    (stack : List Bytes) (script : Bytes) : R Unit := do
  let cont : R Bool :=
    if sv == .tapscript then
      match scanOpSuccess script.length script with
      | none => .error .BAD_OPCODE
      | some true => if fl.discourageOpSuccess then .error .DISCOURAGE_OP_SUCCESS else .ok false
      | some false => if stack.length > MAX_STACK_SIZE then .error .STACK_SIZE else .ok true
    else .ok true
  let go ← cont
  if !go then .ok () else
  if stack.any (fun e => e.length > MAX_SCRIPT_ELEMENT_SIZE) then .error .PUSH_SIZE else
  let out ← evalScript { flags := fl, sv := sv, chk := chk, xd := xd } script stack weight
  match out with
  | [v] => if castToBool v then .ok () else .error .EVAL_FALSE
  | _ => .error .CLEANSTACK

def p2pkhScript (h : Bytes) : Bytes := [0x76, 0xa9] ++ pushData h ++ [0x88, 0xac]

/-- `VerifyWitnessProgram`; `witness` bottom-first as on the wire (last = top of stack). -/
def verifyWitnessProgram (fl : Flags) (chk : Checker) (witness : List Bytes) (ver : Nat) (prog : Bytes)
    (isP2sh : Bool) : R Unit :=
  if ver == 0 then
    if prog.length == 32 then
      match witness.reverse with
      | [] => .error .WITNESS_PROGRAM_WITNESS_EMPTY
      | script :: stack =>
        if sha256 script != prog then .error .WITNESS_PROGRAM_MISMATCH
        else executeWitnessScript fl chk .witnessV0 {} 0 stack script
    else if prog.length == 20 then
      if witness.length != 2 then .error .WITNESS_PROGRAM_MISMATCH
      else executeWitnessScript fl chk .witnessV0 {} 0 witness.reverse (p2pkhScript prog)
    else .error .WITNESS_PROGRAM_WRONG_LENGTH
  else if ver == 1 && prog.length == 32 && !isP2sh then
    if !fl.taproot then .ok () else
    match witness.reverse with
    | [] => .error .WITNESS_PROGRAM_WITNESS_EMPTY
    | top :: below =>
      let hasAnnex := !below.isEmpty && top.head? == some ANNEX_TAG
      let annex : Option Bytes := if hasAnnex then some top else none
      let stack := if hasAnnex then below else top :: below
      match stack with
      | [] => .error .WITNESS_PROGRAM_WITNESS_EMPTY   -- unreachable
      | [sig] => chk.schnorr sig prog .taproot { annex := annex }
      | control :: script :: stack' =>
        if control.length < TAPROOT_CONTROL_BASE_SIZE ||
            control.length > TAPROOT_CONTROL_BASE_SIZE + TAPROOT_CONTROL_NODE_SIZE * TAPROOT_CONTROL_MAX_NODE_COUNT ||
            (control.length - TAPROOT_CONTROL_BASE_SIZE) % TAPROOT_CONTROL_NODE_SIZE != 0 then
          .error .TAPROOT_WRONG_CONTROL_SIZE
        else do
          let leafVer := byteAt control 0 &&& TAPROOT_LEAF_MASK
          let leafHash := tapleafHash leafVer script
          let p := (control.drop 1).take 32
          let root := taprootMerkleRoot control leafHash
          let tweak := taggedHash "TapTweak" (p ++ root)
          let okc ← chk.tapTweak p tweak prog (byteAt control 0 &&& 1 == 1)
          if !okc then .error .WITNESS_PROGRAM_MISMATCH else
          if leafVer == TAPROOT_LEAF_TAPSCRIPT then
            executeWitnessScript fl chk .tapscript { annex := annex, tapleafHash := leafHash }
              ((witnessSerializedSize witness : Int) + VALIDATION_WEIGHT_OFFSET) stack' script
          else if fl.discourageTaprootVersion then .error .DISCOURAGE_UPGRADABLE_TAPROOT_VERSION
          else .ok ()
  else if !isP2sh && ver == 1 && prog == [0x4e, 0x73] then .ok ()   -- pay-to-anchor
  else if fl.discourageWitnessProgram then .error .DISCOURAGE_UPGRADABLE_WITNESS_PROGRAM
  else .ok ()

/-! ### VerifyScript -/

def baseCtx (fl : Flags) (chk : Checker) : Ctx := { flags := fl, sv := .base, chk := chk }

def topTrue (stack : List Bytes) : R Unit :=
  match stack with
  | [] => .error .EVAL_FALSE
  | v :: _ => if castToBool v then .ok () else .error .EVAL_FALSE

/-- `VerifyScript(scriptSig, scriptPubKey, witness, flags, checker)` -/
def verifyScript (fl : Flags) (chk : Checker) (scriptSig scriptPubKey : Bytes) (witness : List Bytes) :
    R Unit := do
  if fl.sigpushonly && !isPushOnly scriptSig then .error .SIG_PUSHONLY else
  let stack0 ← evalScript (baseCtx fl chk) scriptSig []
  let stack1 ← evalScript (baseCtx fl chk) scriptPubKey stack0
  topTrue stack1
  -- bare witness programs
  let (hadWitness1, stack2) ← (
    if fl.witness then
      match witnessProgram? scriptPubKey with
      | some (ver, prog) =>
        if !scriptSig.isEmpty then .error .WITNESS_MALLEATED else do
          verifyWitnessProgram fl chk witness ver prog false
          pure (true, stack1.take 1)
      | none => pure (false, stack1)
    else pure (false, stack1) : R (Bool × List Bytes))
  -- P2SH
  let (hadWitness2, stack3) ← (
    if fl.p2sh && isP2SH scriptPubKey then
      if !isPushOnly scriptSig then .error .SIG_PUSHONLY else
      match stack0 with
      | [] => .error .EVAL_FALSE   -- unreachable: scriptPubKey would have failed
      | redeem :: stackP => do
        let stackR ← evalScript (baseCtx fl chk) redeem stackP
        topTrue stackR
        if fl.witness then
          match witnessProgram? redeem with
          | some (ver, prog) =>
            if scriptSig != pushData redeem then .error .WITNESS_MALLEATED_P2SH else do
              verifyWitnessProgram fl chk witness ver prog true
              pure (true, stackR.take 1)
          | none => pure (hadWitness1, stackR)
        else pure (hadWitness1, stackR)
    else pure (hadWitness1, stack2) : R (Bool × List Bytes))
  if fl.cleanstack && stack3.length != 1 then .error .CLEANSTACK else
  if fl.witness && !hadWitness2 && !witness.isEmpty then .error .WITNESS_UNEXPECTED else
  .ok ()

end BV.C06
