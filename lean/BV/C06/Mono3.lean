/-
C06: relaxing one of the signature/public-key encoding policy flags (LOW_S, STRICTENC,
WITNESS_PUBKEYTYPE, NULLFAIL) never turns a successful verification into a failure.
The four sections are instances of one proof shape (the DERSIG section of Mono.lean). Core-only.
-/
import BV.C06.Mono
namespace BV.C06.Lemmas
open BV.C06

/-- `checkSignatureEncoding` only gets stricter when flags are added. -/
theorem checkSignatureEncoding_flags_mono (f g : Flags) (s : Bytes)
    (h1 : g.dersig = true → f.dersig = true) (h2 : g.lowS = true → f.lowS = true)
    (h3 : g.strictenc = true → f.strictenc = true) :
    MonoR (checkSignatureEncoding f s) (checkSignatureEncoding g s) := by
  unfold checkSignatureEncoding
  generalize s.isEmpty = e
  generalize isValidSignatureEncoding s = v
  generalize checkLowS s.dropLast = l
  generalize isDefinedHashtype s = d
  revert h1 h2 h3
  generalize f.dersig = a1; generalize f.lowS = a2; generalize f.strictenc = a3
  generalize g.dersig = b1; generalize g.lowS = b2; generalize g.strictenc = b3
  intro h1 h2 h3
  cases e <;> cases v <;> cases l <;> cases d <;> cases a1 <;> cases a2 <;> cases a3 <;>
    cases b1 <;> cases b2 <;> cases b3 <;> simp at h1 h2 h3 <;> simp <;>
    first | exact MonoR.refl _ | exact MonoR.error_left _ _

/-- `checkPubKeyEncoding` only gets stricter when flags are added. -/
theorem checkPubKeyEncoding_flags_mono (f g : Flags) (sv : SigVer) (pk : Bytes)
    (h1 : g.strictenc = true → f.strictenc = true)
    (h2 : g.witnessPubkeytype = true → f.witnessPubkeytype = true) :
    MonoR (checkPubKeyEncoding f sv pk) (checkPubKeyEncoding g sv pk) := by
  unfold checkPubKeyEncoding
  generalize isCompressedOrUncompressedPubKey pk = u
  generalize isCompressedPubKey pk = k
  generalize (sv == SigVer.witnessV0) = w
  revert h1 h2
  generalize f.strictenc = a1; generalize f.witnessPubkeytype = a2
  generalize g.strictenc = b1; generalize g.witnessPubkeytype = b2
  intro h1 h2
  cases u <;> cases k <;> cases w <;> cases a1 <;> cases a2 <;> cases b1 <;> cases b2 <;>
    simp at h1 h2 <;> simp <;> first | exact MonoR.refl _ | exact MonoR.error_left _ _

/-! ### LOW_S -/

def setLowS (c : Ctx) (b : Bool) : Ctx := { c with flags := { c.flags with lowS := b } }

theorem checkSignatureEncoding_lowS_mono (f : Flags) (s : Bytes) :
    MonoR (checkSignatureEncoding { f with lowS := true } s) (checkSignatureEncoding { f with lowS := false } s) :=
  checkSignatureEncoding_flags_mono _ _ s
    (by intro h; first | exact h | rfl) (by intro h; first | exact h | rfl) (by intro h; first | exact h | rfl)

theorem checkPubKeyEncoding_lowS_mono (f : Flags) (sv : SigVer) (pk : Bytes) :
    MonoR (checkPubKeyEncoding { f with lowS := true } sv pk) (checkPubKeyEncoding { f with lowS := false } sv pk) :=
  checkPubKeyEncoding_flags_mono _ _ sv pk
    (by intro h; first | exact h | rfl) (by intro h; first | exact h | rfl)

theorem multisigLoop_lowS_mono (c : Ctx) (code : Bytes) : ∀ fuel sigs keys,
    MonoR (multisigLoop (setLowS c true) code fuel sigs keys) (multisigLoop (setLowS c false) code fuel sigs keys) := by
  intro fuel
  induction fuel with
  | zero => intro sigs keys; cases sigs <;> (simp only [multisigLoop]; exact MonoR.refl _)
  | succ n ih =>
    intro sigs keys
    cases sigs with
    | nil => simp only [multisigLoop]; exact MonoR.refl _
    | cons s ss =>
      cases keys with
      | nil => simp only [multisigLoop]; exact MonoR.refl _
      | cons k ks =>
        simp only [multisigLoop]
        apply MonoR.bind (checkSignatureEncoding_lowS_mono c.flags s)
        intro _
        apply MonoR.bind (checkPubKeyEncoding_lowS_mono c.flags c.sv k)
        intro _
        apply MonoR.bind (MonoR.of_eq rfl)
        intro ok
        cases ok
        · simp only [Bool.false_eq_true, if_false]
          split
          · exact MonoR.refl _
          · exact ih _ _
        · simp only [if_true]
          split
          · exact MonoR.refl _
          · exact ih _ _

theorem multisigStrip_lowS (c : Ctx) (b : Bool) : ∀ sigs code,
    multisigStrip (setLowS c b) sigs code = multisigStrip c sigs code := by
  intro sigs
  induction sigs with
  | nil => intro code; simp [multisigStrip]
  | cons s ss ih =>
    intro code
    have e1 : (setLowS c b).sv = c.sv := rfl
    have e2 : (setLowS c b).flags.constScriptcode = c.flags.constScriptcode := rfl
    simp only [multisigStrip, e1, e2, ih]

theorem opCheckMultisig_lowS_mono (c : Ctx) (v : Bool) (st : St) :
    MonoR (opCheckMultisig (setLowS c true) st v) (opCheckMultisig (setLowS c false) st v) :=
  opCheckMultisig_mono_of _ _ v st rfl
    (fun sigs code => by rw [multisigStrip_lowS, multisigStrip_lowS])
    (multisigLoop_lowS_mono c)
    (fun a s => MonoR.of_eq rfl)

theorem evalChecksigPre_lowS_mono (c : Ctx) (st : St) (sig pk : Bytes) :
    MonoR (evalChecksigPre (setLowS c true) st sig pk) (evalChecksigPre (setLowS c false) st sig pk) := by
  unfold evalChecksigPre
  apply MonoR.bind (MonoR.of_eq rfl)
  intro code
  apply MonoR.bind (checkSignatureEncoding_lowS_mono c.flags sig)
  intro _
  apply MonoR.bind (checkPubKeyEncoding_lowS_mono c.flags c.sv pk)
  intro _
  exact MonoR.of_eq rfl

theorem evalChecksig_lowS_mono (c : Ctx) (st : St) (sig pk : Bytes) :
    MonoR (evalChecksig (setLowS c true) st sig pk) (evalChecksig (setLowS c false) st sig pk) := by
  unfold evalChecksig
  have e : ∀ b, (setLowS c b).sv = c.sv := fun _ => rfl
  simp only [e]
  split
  · exact MonoR.bind (evalChecksigPre_lowS_mono c st sig pk) (fun _ => MonoR.refl _)
  · exact MonoR.bind (evalChecksigPre_lowS_mono c st sig pk) (fun _ => MonoR.refl _)
  · exact MonoR.of_eq rfl
  · exact MonoR.refl _


theorem opChecksig_lowS_mono (c : Ctx) (st : St) (v : Bool) :
    MonoR (opChecksig (setLowS c true) st v) (opChecksig (setLowS c false) st v) := by
  unfold opChecksig
  split
  · rename_i pk sig s _
    intro st' h
    cases h1 : evalChecksig (setLowS c true) st sig pk with
    | error e => rw [h1] at h; cases h
    | ok r =>
      rw [h1] at h
      rw [evalChecksig_lowS_mono c st sig pk r h1]
      exact h
  · exact MonoR.refl _

theorem opChecksigAdd_lowS_mono (c : Ctx) (st : St) :
    MonoR (opChecksigAdd (setLowS c true) st) (opChecksigAdd (setLowS c false) st) := by
  unfold opChecksigAdd
  have e : ∀ b, (setLowS c b).sv = c.sv := fun _ => rfl
  have e2 : ∀ b, (setLowS c b).flags.minimaldata = c.flags.minimaldata := fun _ => rfl
  simp only [e, e2]
  split
  · exact MonoR.refl _
  · split
    · rename_i pk nb sig s _
      split
      · exact MonoR.refl _
      · intro st' h
        cases h1 : evalChecksig (setLowS c true) st sig pk with
        | error e => rw [h1] at h; cases h
        | ok r =>
          rw [h1] at h
          rw [evalChecksig_lowS_mono c st sig pk r h1]
          exact h
    · exact MonoR.refl _

set_option maxHeartbeats 2000000 in
theorem execOp_lowS_mono (c : Ctx) (op : Nat) (rest : Bytes) (st : St) :
    MonoR (execOp (setLowS c true) op rest st) (execOp (setLowS c false) op rest st) := by
  unfold execOp
  split <;> first
    | exact MonoR.of_eq rfl
    | exact opCheckMultisig_lowS_mono c _ st
    | exact opChecksig_lowS_mono c st _
    | exact opChecksigAdd_lowS_mono c st

theorem lowS_step : StepTightening setLowS :=
  ⟨execOp_lowS_mono, fun _ _ _ _ _ => rfl, fun _ _ => rfl, fun _ _ => rfl⟩

theorem lowS_tightening : EvalTightening (fun fl b => { fl with lowS := b }) where
  eval := fun fl chk sv xd s st w =>
    evalScript_mono lowS_step { flags := fl, sv := sv, chk := chk, xd := xd } s st w
  sigpushonly := fun _ _ => rfl
  witness := fun _ _ => rfl
  p2sh := fun _ _ => rfl
  cleanstack := fun _ _ => rfl
  taproot := fun _ _ => rfl
  dOpSuccess := fun _ _ => rfl
  dTapVer := fun _ _ => rfl
  dWitProg := fun _ _ => rfl

/-! ### STRICTENC -/

def setStrictenc (c : Ctx) (b : Bool) : Ctx := { c with flags := { c.flags with strictenc := b } }

theorem checkSignatureEncoding_strictenc_mono (f : Flags) (s : Bytes) :
    MonoR (checkSignatureEncoding { f with strictenc := true } s) (checkSignatureEncoding { f with strictenc := false } s) :=
  checkSignatureEncoding_flags_mono _ _ s
    (by intro h; first | exact h | rfl) (by intro h; first | exact h | rfl) (by intro h; first | exact h | rfl)

theorem checkPubKeyEncoding_strictenc_mono (f : Flags) (sv : SigVer) (pk : Bytes) :
    MonoR (checkPubKeyEncoding { f with strictenc := true } sv pk) (checkPubKeyEncoding { f with strictenc := false } sv pk) :=
  checkPubKeyEncoding_flags_mono _ _ sv pk
    (by intro h; first | exact h | rfl) (by intro h; first | exact h | rfl)

theorem multisigLoop_strictenc_mono (c : Ctx) (code : Bytes) : ∀ fuel sigs keys,
    MonoR (multisigLoop (setStrictenc c true) code fuel sigs keys) (multisigLoop (setStrictenc c false) code fuel sigs keys) := by
  intro fuel
  induction fuel with
  | zero => intro sigs keys; cases sigs <;> (simp only [multisigLoop]; exact MonoR.refl _)
  | succ n ih =>
    intro sigs keys
    cases sigs with
    | nil => simp only [multisigLoop]; exact MonoR.refl _
    | cons s ss =>
      cases keys with
      | nil => simp only [multisigLoop]; exact MonoR.refl _
      | cons k ks =>
        simp only [multisigLoop]
        apply MonoR.bind (checkSignatureEncoding_strictenc_mono c.flags s)
        intro _
        apply MonoR.bind (checkPubKeyEncoding_strictenc_mono c.flags c.sv k)
        intro _
        apply MonoR.bind (MonoR.of_eq rfl)
        intro ok
        cases ok
        · simp only [Bool.false_eq_true, if_false]
          split
          · exact MonoR.refl _
          · exact ih _ _
        · simp only [if_true]
          split
          · exact MonoR.refl _
          · exact ih _ _

theorem multisigStrip_strictenc (c : Ctx) (b : Bool) : ∀ sigs code,
    multisigStrip (setStrictenc c b) sigs code = multisigStrip c sigs code := by
  intro sigs
  induction sigs with
  | nil => intro code; simp [multisigStrip]
  | cons s ss ih =>
    intro code
    have e1 : (setStrictenc c b).sv = c.sv := rfl
    have e2 : (setStrictenc c b).flags.constScriptcode = c.flags.constScriptcode := rfl
    simp only [multisigStrip, e1, e2, ih]

theorem opCheckMultisig_strictenc_mono (c : Ctx) (v : Bool) (st : St) :
    MonoR (opCheckMultisig (setStrictenc c true) st v) (opCheckMultisig (setStrictenc c false) st v) :=
  opCheckMultisig_mono_of _ _ v st rfl
    (fun sigs code => by rw [multisigStrip_strictenc, multisigStrip_strictenc])
    (multisigLoop_strictenc_mono c)
    (fun a s => MonoR.of_eq rfl)

theorem evalChecksigPre_strictenc_mono (c : Ctx) (st : St) (sig pk : Bytes) :
    MonoR (evalChecksigPre (setStrictenc c true) st sig pk) (evalChecksigPre (setStrictenc c false) st sig pk) := by
  unfold evalChecksigPre
  apply MonoR.bind (MonoR.of_eq rfl)
  intro code
  apply MonoR.bind (checkSignatureEncoding_strictenc_mono c.flags sig)
  intro _
  apply MonoR.bind (checkPubKeyEncoding_strictenc_mono c.flags c.sv pk)
  intro _
  exact MonoR.of_eq rfl

theorem evalChecksig_strictenc_mono (c : Ctx) (st : St) (sig pk : Bytes) :
    MonoR (evalChecksig (setStrictenc c true) st sig pk) (evalChecksig (setStrictenc c false) st sig pk) := by
  unfold evalChecksig
  have e : ∀ b, (setStrictenc c b).sv = c.sv := fun _ => rfl
  simp only [e]
  split
  · exact MonoR.bind (evalChecksigPre_strictenc_mono c st sig pk) (fun _ => MonoR.refl _)
  · exact MonoR.bind (evalChecksigPre_strictenc_mono c st sig pk) (fun _ => MonoR.refl _)
  · exact MonoR.of_eq rfl
  · exact MonoR.refl _


theorem opChecksig_strictenc_mono (c : Ctx) (st : St) (v : Bool) :
    MonoR (opChecksig (setStrictenc c true) st v) (opChecksig (setStrictenc c false) st v) := by
  unfold opChecksig
  split
  · rename_i pk sig s _
    intro st' h
    cases h1 : evalChecksig (setStrictenc c true) st sig pk with
    | error e => rw [h1] at h; cases h
    | ok r =>
      rw [h1] at h
      rw [evalChecksig_strictenc_mono c st sig pk r h1]
      exact h
  · exact MonoR.refl _

theorem opChecksigAdd_strictenc_mono (c : Ctx) (st : St) :
    MonoR (opChecksigAdd (setStrictenc c true) st) (opChecksigAdd (setStrictenc c false) st) := by
  unfold opChecksigAdd
  have e : ∀ b, (setStrictenc c b).sv = c.sv := fun _ => rfl
  have e2 : ∀ b, (setStrictenc c b).flags.minimaldata = c.flags.minimaldata := fun _ => rfl
  simp only [e, e2]
  split
  · exact MonoR.refl _
  · split
    · rename_i pk nb sig s _
      split
      · exact MonoR.refl _
      · intro st' h
        cases h1 : evalChecksig (setStrictenc c true) st sig pk with
        | error e => rw [h1] at h; cases h
        | ok r =>
          rw [h1] at h
          rw [evalChecksig_strictenc_mono c st sig pk r h1]
          exact h
    · exact MonoR.refl _

set_option maxHeartbeats 2000000 in
theorem execOp_strictenc_mono (c : Ctx) (op : Nat) (rest : Bytes) (st : St) :
    MonoR (execOp (setStrictenc c true) op rest st) (execOp (setStrictenc c false) op rest st) := by
  unfold execOp
  split <;> first
    | exact MonoR.of_eq rfl
    | exact opCheckMultisig_strictenc_mono c _ st
    | exact opChecksig_strictenc_mono c st _
    | exact opChecksigAdd_strictenc_mono c st

theorem strictenc_step : StepTightening setStrictenc :=
  ⟨execOp_strictenc_mono, fun _ _ _ _ _ => rfl, fun _ _ => rfl, fun _ _ => rfl⟩

theorem strictenc_tightening : EvalTightening (fun fl b => { fl with strictenc := b }) where
  eval := fun fl chk sv xd s st w =>
    evalScript_mono strictenc_step { flags := fl, sv := sv, chk := chk, xd := xd } s st w
  sigpushonly := fun _ _ => rfl
  witness := fun _ _ => rfl
  p2sh := fun _ _ => rfl
  cleanstack := fun _ _ => rfl
  taproot := fun _ _ => rfl
  dOpSuccess := fun _ _ => rfl
  dTapVer := fun _ _ => rfl
  dWitProg := fun _ _ => rfl

/-! ### WITNESS_PUBKEYTYPE -/

def setWitPk (c : Ctx) (b : Bool) : Ctx := { c with flags := { c.flags with witnessPubkeytype := b } }

theorem checkSignatureEncoding_witnessPubkeytype_mono (f : Flags) (s : Bytes) :
    MonoR (checkSignatureEncoding { f with witnessPubkeytype := true } s) (checkSignatureEncoding { f with witnessPubkeytype := false } s) :=
  checkSignatureEncoding_flags_mono _ _ s
    (by intro h; first | exact h | rfl) (by intro h; first | exact h | rfl) (by intro h; first | exact h | rfl)

theorem checkPubKeyEncoding_witnessPubkeytype_mono (f : Flags) (sv : SigVer) (pk : Bytes) :
    MonoR (checkPubKeyEncoding { f with witnessPubkeytype := true } sv pk) (checkPubKeyEncoding { f with witnessPubkeytype := false } sv pk) :=
  checkPubKeyEncoding_flags_mono _ _ sv pk
    (by intro h; first | exact h | rfl) (by intro h; first | exact h | rfl)

theorem multisigLoop_witnessPubkeytype_mono (c : Ctx) (code : Bytes) : ∀ fuel sigs keys,
    MonoR (multisigLoop (setWitPk c true) code fuel sigs keys) (multisigLoop (setWitPk c false) code fuel sigs keys) := by
  intro fuel
  induction fuel with
  | zero => intro sigs keys; cases sigs <;> (simp only [multisigLoop]; exact MonoR.refl _)
  | succ n ih =>
    intro sigs keys
    cases sigs with
    | nil => simp only [multisigLoop]; exact MonoR.refl _
    | cons s ss =>
      cases keys with
      | nil => simp only [multisigLoop]; exact MonoR.refl _
      | cons k ks =>
        simp only [multisigLoop]
        apply MonoR.bind (checkSignatureEncoding_witnessPubkeytype_mono c.flags s)
        intro _
        apply MonoR.bind (checkPubKeyEncoding_witnessPubkeytype_mono c.flags c.sv k)
        intro _
        apply MonoR.bind (MonoR.of_eq rfl)
        intro ok
        cases ok
        · simp only [Bool.false_eq_true, if_false]
          split
          · exact MonoR.refl _
          · exact ih _ _
        · simp only [if_true]
          split
          · exact MonoR.refl _
          · exact ih _ _

theorem multisigStrip_witnessPubkeytype (c : Ctx) (b : Bool) : ∀ sigs code,
    multisigStrip (setWitPk c b) sigs code = multisigStrip c sigs code := by
  intro sigs
  induction sigs with
  | nil => intro code; simp [multisigStrip]
  | cons s ss ih =>
    intro code
    have e1 : (setWitPk c b).sv = c.sv := rfl
    have e2 : (setWitPk c b).flags.constScriptcode = c.flags.constScriptcode := rfl
    simp only [multisigStrip, e1, e2, ih]

theorem opCheckMultisig_witnessPubkeytype_mono (c : Ctx) (v : Bool) (st : St) :
    MonoR (opCheckMultisig (setWitPk c true) st v) (opCheckMultisig (setWitPk c false) st v) :=
  opCheckMultisig_mono_of _ _ v st rfl
    (fun sigs code => by rw [multisigStrip_witnessPubkeytype, multisigStrip_witnessPubkeytype])
    (multisigLoop_witnessPubkeytype_mono c)
    (fun a s => MonoR.of_eq rfl)

theorem evalChecksigPre_witnessPubkeytype_mono (c : Ctx) (st : St) (sig pk : Bytes) :
    MonoR (evalChecksigPre (setWitPk c true) st sig pk) (evalChecksigPre (setWitPk c false) st sig pk) := by
  unfold evalChecksigPre
  apply MonoR.bind (MonoR.of_eq rfl)
  intro code
  apply MonoR.bind (checkSignatureEncoding_witnessPubkeytype_mono c.flags sig)
  intro _
  apply MonoR.bind (checkPubKeyEncoding_witnessPubkeytype_mono c.flags c.sv pk)
  intro _
  exact MonoR.of_eq rfl

theorem evalChecksig_witnessPubkeytype_mono (c : Ctx) (st : St) (sig pk : Bytes) :
    MonoR (evalChecksig (setWitPk c true) st sig pk) (evalChecksig (setWitPk c false) st sig pk) := by
  unfold evalChecksig
  have e : ∀ b, (setWitPk c b).sv = c.sv := fun _ => rfl
  simp only [e]
  split
  · exact MonoR.bind (evalChecksigPre_witnessPubkeytype_mono c st sig pk) (fun _ => MonoR.refl _)
  · exact MonoR.bind (evalChecksigPre_witnessPubkeytype_mono c st sig pk) (fun _ => MonoR.refl _)
  · exact MonoR.of_eq rfl
  · exact MonoR.refl _


theorem opChecksig_witnessPubkeytype_mono (c : Ctx) (st : St) (v : Bool) :
    MonoR (opChecksig (setWitPk c true) st v) (opChecksig (setWitPk c false) st v) := by
  unfold opChecksig
  split
  · rename_i pk sig s _
    intro st' h
    cases h1 : evalChecksig (setWitPk c true) st sig pk with
    | error e => rw [h1] at h; cases h
    | ok r =>
      rw [h1] at h
      rw [evalChecksig_witnessPubkeytype_mono c st sig pk r h1]
      exact h
  · exact MonoR.refl _

theorem opChecksigAdd_witnessPubkeytype_mono (c : Ctx) (st : St) :
    MonoR (opChecksigAdd (setWitPk c true) st) (opChecksigAdd (setWitPk c false) st) := by
  unfold opChecksigAdd
  have e : ∀ b, (setWitPk c b).sv = c.sv := fun _ => rfl
  have e2 : ∀ b, (setWitPk c b).flags.minimaldata = c.flags.minimaldata := fun _ => rfl
  simp only [e, e2]
  split
  · exact MonoR.refl _
  · split
    · rename_i pk nb sig s _
      split
      · exact MonoR.refl _
      · intro st' h
        cases h1 : evalChecksig (setWitPk c true) st sig pk with
        | error e => rw [h1] at h; cases h
        | ok r =>
          rw [h1] at h
          rw [evalChecksig_witnessPubkeytype_mono c st sig pk r h1]
          exact h
    · exact MonoR.refl _

set_option maxHeartbeats 2000000 in
theorem execOp_witnessPubkeytype_mono (c : Ctx) (op : Nat) (rest : Bytes) (st : St) :
    MonoR (execOp (setWitPk c true) op rest st) (execOp (setWitPk c false) op rest st) := by
  unfold execOp
  split <;> first
    | exact MonoR.of_eq rfl
    | exact opCheckMultisig_witnessPubkeytype_mono c _ st
    | exact opChecksig_witnessPubkeytype_mono c st _
    | exact opChecksigAdd_witnessPubkeytype_mono c st

theorem witnessPubkeytype_step : StepTightening setWitPk :=
  ⟨execOp_witnessPubkeytype_mono, fun _ _ _ _ _ => rfl, fun _ _ => rfl, fun _ _ => rfl⟩

theorem witnessPubkeytype_tightening : EvalTightening (fun fl b => { fl with witnessPubkeytype := b }) where
  eval := fun fl chk sv xd s st w =>
    evalScript_mono witnessPubkeytype_step { flags := fl, sv := sv, chk := chk, xd := xd } s st w
  sigpushonly := fun _ _ => rfl
  witness := fun _ _ => rfl
  p2sh := fun _ _ => rfl
  cleanstack := fun _ _ => rfl
  taproot := fun _ _ => rfl
  dOpSuccess := fun _ _ => rfl
  dTapVer := fun _ _ => rfl
  dWitProg := fun _ _ => rfl

/-! ### NULLFAIL -/

def setNullfail (c : Ctx) (b : Bool) : Ctx := { c with flags := { c.flags with nullfail := b } }

theorem checkSignatureEncoding_nullfail_mono (f : Flags) (s : Bytes) :
    MonoR (checkSignatureEncoding { f with nullfail := true } s) (checkSignatureEncoding { f with nullfail := false } s) :=
  checkSignatureEncoding_flags_mono _ _ s
    (by intro h; first | exact h | rfl) (by intro h; first | exact h | rfl) (by intro h; first | exact h | rfl)

theorem checkPubKeyEncoding_nullfail_mono (f : Flags) (sv : SigVer) (pk : Bytes) :
    MonoR (checkPubKeyEncoding { f with nullfail := true } sv pk) (checkPubKeyEncoding { f with nullfail := false } sv pk) :=
  checkPubKeyEncoding_flags_mono _ _ sv pk
    (by intro h; first | exact h | rfl) (by intro h; first | exact h | rfl)

theorem multisigLoop_nullfail_mono (c : Ctx) (code : Bytes) : ∀ fuel sigs keys,
    MonoR (multisigLoop (setNullfail c true) code fuel sigs keys) (multisigLoop (setNullfail c false) code fuel sigs keys) := by
  intro fuel
  induction fuel with
  | zero => intro sigs keys; cases sigs <;> (simp only [multisigLoop]; exact MonoR.refl _)
  | succ n ih =>
    intro sigs keys
    cases sigs with
    | nil => simp only [multisigLoop]; exact MonoR.refl _
    | cons s ss =>
      cases keys with
      | nil => simp only [multisigLoop]; exact MonoR.refl _
      | cons k ks =>
        simp only [multisigLoop]
        apply MonoR.bind (checkSignatureEncoding_nullfail_mono c.flags s)
        intro _
        apply MonoR.bind (checkPubKeyEncoding_nullfail_mono c.flags c.sv k)
        intro _
        apply MonoR.bind (MonoR.of_eq rfl)
        intro ok
        cases ok
        · simp only [Bool.false_eq_true, if_false]
          split
          · exact MonoR.refl _
          · exact ih _ _
        · simp only [if_true]
          split
          · exact MonoR.refl _
          · exact ih _ _

theorem multisigStrip_nullfail (c : Ctx) (b : Bool) : ∀ sigs code,
    multisigStrip (setNullfail c b) sigs code = multisigStrip c sigs code := by
  intro sigs
  induction sigs with
  | nil => intro code; simp [multisigStrip]
  | cons s ss ih =>
    intro code
    have e1 : (setNullfail c b).sv = c.sv := rfl
    have e2 : (setNullfail c b).flags.constScriptcode = c.flags.constScriptcode := rfl
    simp only [multisigStrip, e1, e2, ih]

theorem opCheckMultisig_nullfail_mono (c : Ctx) (v : Bool) (st : St) :
    MonoR (opCheckMultisig (setNullfail c true) st v) (opCheckMultisig (setNullfail c false) st v) :=
  opCheckMultisig_mono_of _ _ v st rfl
    (fun sigs code => by rw [multisigStrip_nullfail, multisigStrip_nullfail])
    (multisigLoop_nullfail_mono c)
    (fun a s => by
      unfold multisigFinish
      have e1 : (setNullfail c true).flags.nullfail = true := rfl
      have e2 : (setNullfail c false).flags.nullfail = false := rfl
      have e3 : ∀ b, (setNullfail c b).flags.nulldummy = c.flags.nulldummy := fun _ => rfl
      simp only [e1, e2, e3]
      generalize (a.sigs.any fun s => !s.isEmpty) = q
      cases s <;> cases q <;> simp <;> first | exact MonoR.refl _ | exact MonoR.error_left _ _)

theorem evalChecksigPre_nullfail_mono (c : Ctx) (st : St) (sig pk : Bytes) :
    MonoR (evalChecksigPre (setNullfail c true) st sig pk) (evalChecksigPre (setNullfail c false) st sig pk) := by
  unfold evalChecksigPre
  apply MonoR.bind (MonoR.of_eq rfl)
  intro code
  apply MonoR.bind (checkSignatureEncoding_nullfail_mono c.flags sig)
  intro _
  apply MonoR.bind (checkPubKeyEncoding_nullfail_mono c.flags c.sv pk)
  intro _
  apply MonoR.bind (MonoR.of_eq rfl)
  intro ok
  have e1 : (setNullfail c true).flags.nullfail = true := rfl
  have e2 : (setNullfail c false).flags.nullfail = false := rfl
  simp only [e1, e2]
  generalize sig.isEmpty = q
  cases ok <;> cases q <;> simp <;> first | exact MonoR.refl _ | exact MonoR.error_left _ _

theorem evalChecksig_nullfail_mono (c : Ctx) (st : St) (sig pk : Bytes) :
    MonoR (evalChecksig (setNullfail c true) st sig pk) (evalChecksig (setNullfail c false) st sig pk) := by
  unfold evalChecksig
  have e : ∀ b, (setNullfail c b).sv = c.sv := fun _ => rfl
  simp only [e]
  split
  · exact MonoR.bind (evalChecksigPre_nullfail_mono c st sig pk) (fun _ => MonoR.refl _)
  · exact MonoR.bind (evalChecksigPre_nullfail_mono c st sig pk) (fun _ => MonoR.refl _)
  · exact MonoR.of_eq rfl
  · exact MonoR.refl _


theorem opChecksig_nullfail_mono (c : Ctx) (st : St) (v : Bool) :
    MonoR (opChecksig (setNullfail c true) st v) (opChecksig (setNullfail c false) st v) := by
  unfold opChecksig
  split
  · rename_i pk sig s _
    intro st' h
    cases h1 : evalChecksig (setNullfail c true) st sig pk with
    | error e => rw [h1] at h; cases h
    | ok r =>
      rw [h1] at h
      rw [evalChecksig_nullfail_mono c st sig pk r h1]
      exact h
  · exact MonoR.refl _

theorem opChecksigAdd_nullfail_mono (c : Ctx) (st : St) :
    MonoR (opChecksigAdd (setNullfail c true) st) (opChecksigAdd (setNullfail c false) st) := by
  unfold opChecksigAdd
  have e : ∀ b, (setNullfail c b).sv = c.sv := fun _ => rfl
  have e2 : ∀ b, (setNullfail c b).flags.minimaldata = c.flags.minimaldata := fun _ => rfl
  simp only [e, e2]
  split
  · exact MonoR.refl _
  · split
    · rename_i pk nb sig s _
      split
      · exact MonoR.refl _
      · intro st' h
        cases h1 : evalChecksig (setNullfail c true) st sig pk with
        | error e => rw [h1] at h; cases h
        | ok r =>
          rw [h1] at h
          rw [evalChecksig_nullfail_mono c st sig pk r h1]
          exact h
    · exact MonoR.refl _

set_option maxHeartbeats 2000000 in
theorem execOp_nullfail_mono (c : Ctx) (op : Nat) (rest : Bytes) (st : St) :
    MonoR (execOp (setNullfail c true) op rest st) (execOp (setNullfail c false) op rest st) := by
  unfold execOp
  split <;> first
    | exact MonoR.of_eq rfl
    | exact opCheckMultisig_nullfail_mono c _ st
    | exact opChecksig_nullfail_mono c st _
    | exact opChecksigAdd_nullfail_mono c st

theorem nullfail_step : StepTightening setNullfail :=
  ⟨execOp_nullfail_mono, fun _ _ _ _ _ => rfl, fun _ _ => rfl, fun _ _ => rfl⟩

theorem nullfail_tightening : EvalTightening (fun fl b => { fl with nullfail := b }) where
  eval := fun fl chk sv xd s st w =>
    evalScript_mono nullfail_step { flags := fl, sv := sv, chk := chk, xd := xd } s st w
  sigpushonly := fun _ _ => rfl
  witness := fun _ _ => rfl
  p2sh := fun _ _ => rfl
  cleanstack := fun _ _ => rfl
  taproot := fun _ _ => rfl
  dOpSuccess := fun _ _ => rfl
  dTapVer := fun _ _ => rfl
  dWitProg := fun _ _ => rfl

/-! ### MINIMALIF -/

def setMinimalif (c : Ctx) (b : Bool) : Ctx := { c with flags := { c.flags with minimalif := b } }

theorem setMinimalif_agree (c : Ctx) (b : Bool) : SigAgree c (setMinimalif c b) :=
  ⟨fun _ => rfl, fun _ _ => rfl, rfl, rfl, rfl⟩

theorem opCheckMultisig_minimalif (c : Ctx) (b v : Bool) (st : St) :
    opCheckMultisig (setMinimalif c b) st v = opCheckMultisig c st v := by
  unfold opCheckMultisig
  simp only [multisigLoop_congr (setMinimalif_agree c b), multisigStrip_congr (setMinimalif_agree c b)]
  rfl

theorem opIf_minimalif_mono (c : Ctx) (st : St) (n : Bool) :
    MonoR (opIf (setMinimalif c true) st n) (opIf (setMinimalif c false) st n) := by
  unfold opIf
  have e : ∀ b, (setMinimalif c b).sv = c.sv := fun _ => rfl
  have e1 : (setMinimalif c true).flags.minimalif = true := rfl
  have e2 : (setMinimalif c false).flags.minimalif = false := rfl
  simp only [e, e1, e2, Bool.and_false, Bool.false_and, Bool.false_eq_true, if_false]
  split
  · split
    · exact MonoR.refl _
    · split
      · exact MonoR.refl _
      · split
        · exact MonoR.error_left _ _
        · exact MonoR.refl _
  · exact MonoR.refl _

set_option maxHeartbeats 2000000 in
theorem execOp_minimalif_mono (c : Ctx) (op : Nat) (rest : Bytes) (st : St) :
    MonoR (execOp (setMinimalif c true) op rest st) (execOp (setMinimalif c false) op rest st) := by
  unfold execOp
  split <;> first
    | exact MonoR.of_eq rfl
    | exact opIf_minimalif_mono c st _
    | exact MonoR.of_eq (by rw [opCheckMultisig_minimalif, opCheckMultisig_minimalif])

theorem minimalif_step : StepTightening setMinimalif :=
  ⟨execOp_minimalif_mono, fun _ _ _ _ _ => rfl, fun _ _ => rfl, fun _ _ => rfl⟩

theorem minimalif_tightening : EvalTightening (fun fl b => { fl with minimalif := b }) where
  eval := fun fl chk sv xd s st w =>
    evalScript_mono minimalif_step { flags := fl, sv := sv, chk := chk, xd := xd } s st w
  sigpushonly := fun _ _ => rfl
  witness := fun _ _ => rfl
  p2sh := fun _ _ => rfl
  cleanstack := fun _ _ => rfl
  taproot := fun _ _ => rfl
  dOpSuccess := fun _ _ => rfl
  dTapVer := fun _ _ => rfl
  dWitProg := fun _ _ => rfl

end BV.C06.Lemmas
