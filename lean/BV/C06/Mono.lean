/-
C06 soft-fork monotonicity lemmas: turning a NOP-tightening flag off never turns a successful
verification into a failure. Core-only.
-/
import BV.C06.Lemmas
namespace BV.C06.Lemmas
open BV.C06

/-! ### plumbing -/

/-- two contexts that agree on everything the signature opcodes look at -/
structure SigAgree (c c' : Ctx) : Prop where
  sigEnc : ∀ s, checkSignatureEncoding c'.flags s = checkSignatureEncoding c.flags s
  pkEnc : ∀ sv p, checkPubKeyEncoding c'.flags sv p = checkPubKeyEncoding c.flags sv p
  chk : c'.chk = c.chk
  sv : c'.sv = c.sv
  const : c'.flags.constScriptcode = c.flags.constScriptcode

theorem multisigLoop_congr {c c' : Ctx} (a : SigAgree c c') (code : Bytes) :
    ∀ fuel sigs keys, multisigLoop c' code fuel sigs keys = multisigLoop c code fuel sigs keys := by
  intro fuel
  induction fuel with
  | zero => intro sigs keys; cases sigs <;> simp [multisigLoop]
  | succ n ih =>
    intro sigs keys
    cases sigs with
    | nil => simp [multisigLoop]
    | cons s ss =>
      cases keys with
      | nil => simp [multisigLoop]
      | cons k ks =>
        simp only [multisigLoop, a.sigEnc, a.pkEnc, a.chk, a.sv, ih]

theorem multisigStrip_congr {c c' : Ctx} (a : SigAgree c c') :
    ∀ sigs code, multisigStrip c' sigs code = multisigStrip c sigs code := by
  intro sigs
  induction sigs with
  | nil => intro code; simp [multisigStrip]
  | cons s ss ih => intro code; simp only [multisigStrip, a.sv, a.const, ih]


/-- `a` succeeding implies `b` succeeds with the same value -/
def MonoR {α : Type} (a b : R α) : Prop := ∀ v, a = .ok v → b = .ok v

theorem MonoR.refl {α : Type} (a : R α) : MonoR a a := fun _ h => h

theorem MonoR.of_eq {α : Type} {a b : R α} (h : a = b) : MonoR a b := fun _ h' => h ▸ h'

theorem MonoR.bind {α β : Type} {a b : R α} {f g : α → R β} (h : MonoR a b) (hf : ∀ v, MonoR (f v) (g v)) :
    MonoR (a >>= f) (b >>= g) := by
  intro v hv
  cases ha : a with
  | error e => rw [ha] at hv; cases hv
  | ok x =>
    rw [ha] at hv
    rw [h x ha]
    exact hf x v hv


/-! ### generic lifting from script evaluation to VerifyScript -/

/-- A flag tweak `tw fl b` (set one flag to `b`) under which script evaluation is monotone and which
`ExecuteWitnessScript` does not look at. -/
structure ExecTightening (tw : Flags → Bool → Flags) : Prop where
  eval : ∀ fl chk sv xd script stack w,
    MonoR (evalScript { flags := tw fl true, sv := sv, chk := chk, xd := xd } script stack w)
          (evalScript { flags := tw fl false, sv := sv, chk := chk, xd := xd } script stack w)
  dOpSuccess : ∀ fl b, (tw fl b).discourageOpSuccess = fl.discourageOpSuccess

/-- … and which the sequencing code of `VerifyScript` / `VerifyWitnessProgram` never looks at either. -/
structure EvalTightening (tw : Flags → Bool → Flags) : Prop extends ExecTightening tw where
  sigpushonly : ∀ fl b, (tw fl b).sigpushonly = fl.sigpushonly
  witness : ∀ fl b, (tw fl b).witness = fl.witness
  p2sh : ∀ fl b, (tw fl b).p2sh = fl.p2sh
  cleanstack : ∀ fl b, (tw fl b).cleanstack = fl.cleanstack
  taproot : ∀ fl b, (tw fl b).taproot = fl.taproot
  dTapVer : ∀ fl b, (tw fl b).discourageTaprootVersion = fl.discourageTaprootVersion
  dWitProg : ∀ fl b, (tw fl b).discourageWitnessProgram = fl.discourageWitnessProgram

/-- What `VerifyScript` itself needs: monotone evaluation and witness-program verification, and the flags it
reads directly unchanged. -/
structure SeqTightening (tw : Flags → Bool → Flags) : Prop where
  eval : ∀ fl chk sv xd script stack w,
    MonoR (evalScript { flags := tw fl true, sv := sv, chk := chk, xd := xd } script stack w)
          (evalScript { flags := tw fl false, sv := sv, chk := chk, xd := xd } script stack w)
  wp : ∀ fl chk wit ver prog p,
    MonoR (verifyWitnessProgram (tw fl true) chk wit ver prog p) (verifyWitnessProgram (tw fl false) chk wit ver prog p)
  sigpushonly : ∀ fl b, (tw fl b).sigpushonly = fl.sigpushonly
  witness : ∀ fl b, (tw fl b).witness = fl.witness
  p2sh : ∀ fl b, (tw fl b).p2sh = fl.p2sh
  cleanstack : ∀ fl b, (tw fl b).cleanstack = fl.cleanstack

theorem executeWitnessScript_mono {tw : Flags → Bool → Flags} (T : ExecTightening tw)
    (fl : Flags) (chk : Checker) (sv : SigVer) (xd : ExecData) (w : Int)
    (stack : List Bytes) (script : Bytes) :
    MonoR (executeWitnessScript (tw fl true) chk sv xd w stack script)
          (executeWitnessScript (tw fl false) chk sv xd w stack script) := by
  unfold executeWitnessScript
  simp only [T.dOpSuccess]
  apply MonoR.bind (MonoR.refl _)
  intro go
  split
  · exact MonoR.refl _
  · split
    · exact MonoR.refl _
    · exact MonoR.bind (T.eval fl chk sv xd script stack w) (fun out => MonoR.refl _)

theorem verifyScript_mono_seq {tw : Flags → Bool → Flags} (T : SeqTightening tw) (fl : Flags) (chk : Checker) (scriptSig scriptPubKey : Bytes) (wit : List Bytes) :
    MonoR (verifyScript (tw fl true) chk scriptSig scriptPubKey wit)
          (verifyScript (tw fl false) chk scriptSig scriptPubKey wit) := by
  unfold verifyScript baseCtx
  simp only [T.sigpushonly, T.witness, T.p2sh, T.cleanstack]
  split
  · exact MonoR.refl _
  · apply MonoR.bind (T.eval fl chk .base {} scriptSig [] 0)
    intro stack0
    apply MonoR.bind (T.eval fl chk .base {} scriptPubKey stack0 0)
    intro stack1
    apply MonoR.bind (MonoR.refl _)
    intro _
    apply MonoR.bind
    · split
      · split
        · split
          · exact MonoR.refl _
          · exact MonoR.bind (T.wp _ _ _ _ _ _) (fun _ => MonoR.refl _)
        · exact MonoR.refl _
      · exact MonoR.refl _
    · intro r1
      apply MonoR.bind
      · split
        · split
          · exact MonoR.refl _
          · split
            · exact MonoR.refl _
            · apply MonoR.bind (T.eval fl chk .base {} _ _ 0)
              intro stackR
              apply MonoR.bind (MonoR.refl _)
              intro _
              split
              · split
                · split
                  · exact MonoR.refl _
                  · exact MonoR.bind (T.wp _ _ _ _ _ _) (fun _ => MonoR.refl _)
                · exact MonoR.refl _
              · exact MonoR.refl _
        · exact MonoR.refl _
      · intro r2
        exact MonoR.refl _




section
variable {tw : Flags → Bool → Flags} (T : EvalTightening tw)
include T

theorem verifyWitnessProgram_mono (fl : Flags) (chk : Checker) (wit : List Bytes) (ver : Nat) (prog : Bytes)
    (p : Bool) :
    MonoR (verifyWitnessProgram (tw fl true) chk wit ver prog p)
          (verifyWitnessProgram (tw fl false) chk wit ver prog p) := by
  unfold verifyWitnessProgram
  simp only [T.taproot, T.dTapVer, T.dWitProg]
  split
  · split
    · split
      · exact MonoR.refl _
      · split
        · exact MonoR.refl _
        · exact executeWitnessScript_mono T.toExecTightening _ _ _ _ _ _ _
    · split
      · split
        · exact MonoR.refl _
        · exact executeWitnessScript_mono T.toExecTightening _ _ _ _ _ _ _
      · exact MonoR.refl _
  · split
    · split
      · exact MonoR.refl _
      · split
        · exact MonoR.refl _
        · split
          · exact MonoR.refl _
          · exact MonoR.refl _
          · split
            · exact MonoR.refl _
            · apply MonoR.bind (MonoR.refl _)
              intro okc
              split
              · exact MonoR.refl _
              · split
                · exact executeWitnessScript_mono T.toExecTightening _ _ _ _ _ _ _
                · exact MonoR.refl _
    · exact MonoR.refl _


theorem EvalTightening.toSeq : SeqTightening tw :=
  ⟨T.eval, verifyWitnessProgram_mono T, T.sigpushonly, T.witness, T.p2sh, T.cleanstack⟩

theorem verifyScript_mono (fl : Flags) (chk : Checker) (scriptSig scriptPubKey : Bytes) (wit : List Bytes) :
    MonoR (verifyScript (tw fl true) chk scriptSig scriptPubKey wit)
          (verifyScript (tw fl false) chk scriptSig scriptPubKey wit) :=
  verifyScript_mono_seq (EvalTightening.toSeq T) fl chk scriptSig scriptPubKey wit

end

/-! ### generic chain: from one opcode step to `EvalScript` -/

/-- A context tweak `set c b` under which every opcode is monotone and which the per-opcode checks of the
evaluation loop do not look at. -/
structure StepTightening (set : Ctx → Bool → Ctx) : Prop where
  exec : ∀ c op rest st, MonoR (execOp (set c true) op rest st) (execOp (set c false) op rest st)
  pre : ∀ c b op d st, stepPre (set c b) op d st = stepPre c op d st
  minimaldata : ∀ c b, (set c b).flags.minimaldata = c.flags.minimaldata
  sv : ∀ c b, (set c b).sv = c.sv

section
variable {set : Ctx → Bool → Ctx} (S : StepTightening set)
include S

theorem stepOp_mono (c : Ctx) (op : Nat) (d rest : Bytes) (st : St) :
    MonoR (stepOp (set c true) op d rest st) (stepOp (set c false) op d rest st) := by
  unfold stepOp
  rw [S.pre c true, S.pre c false]
  apply MonoR.bind (MonoR.refl _)
  intro st0
  apply MonoR.bind
  · unfold stepCore
    simp only [S.minimaldata]
    split
    · exact MonoR.refl _
    · split
      · exact S.exec c op rest st0
      · exact MonoR.refl _
  · intro st1; exact MonoR.refl _

theorem evalLoop_mono (c : Ctx) : ∀ (fuel : Nat) (script : Bytes) (st : St),
    MonoR (evalLoop (set c true) fuel script st) (evalLoop (set c false) fuel script st) := by
  intro fuel
  induction fuel with
  | zero =>
    intro script st
    cases script with
    | nil => simp only [evalLoop]; exact MonoR.refl _
    | cons b t => simp only [evalLoop]; exact MonoR.refl _
  | succ n ih =>
    intro script st
    cases script with
    | nil => simp only [evalLoop]; exact MonoR.refl _
    | cons b t =>
      rw [evalLoop, evalLoop]
      cases getOp (b :: t) with
      | none => exact MonoR.refl _
      | some r =>
        obtain ⟨op, d, rest⟩ := r
        simp only []
        exact MonoR.bind (stepOp_mono S c op d rest st) (fun st1 => ih rest st1)

theorem evalScript_mono (c : Ctx) (script : Bytes) (stack : List Bytes) (w : Int) :
    MonoR (evalScript (set c true) script stack w) (evalScript (set c false) script stack w) := by
  unfold evalScript
  simp only [S.sv]
  split
  · exact MonoR.refl _
  · exact MonoR.bind (evalLoop_mono S c _ _ _) (fun st => MonoR.refl _)

end

theorem MonoR.error_left {α : Type} (e : Err) (b : R α) : MonoR (.error e) b := fun _ h => by cases h

/-- OP_CHECKMULTISIG is monotone between two contexts that agree on argument extraction and signature
deletion, have monotone signature loops and a monotone final step -/
theorem opCheckMultisig_mono_of (c₁ c₂ : Ctx) (v : Bool) (st : St)
    (hargs : multisigArgs c₁ st = multisigArgs c₂ st)
    (hstrip : ∀ sigs code, multisigStrip c₁ sigs code = multisigStrip c₂ sigs code)
    (hloop : ∀ code fuel sigs keys, MonoR (multisigLoop c₁ code fuel sigs keys) (multisigLoop c₂ code fuel sigs keys))
    (hfin : ∀ a s, MonoR (multisigFinish c₁ st a s v) (multisigFinish c₂ st a s v)) :
    MonoR (opCheckMultisig c₁ st v) (opCheckMultisig c₂ st v) := by
  unfold opCheckMultisig
  rw [hargs]
  apply MonoR.bind (MonoR.refl _); intro a
  rw [hstrip]
  apply MonoR.bind (MonoR.refl _); intro code
  apply MonoR.bind (hloop _ _ _ _); intro s
  exact hfin a s

/-! ### CHECKLOCKTIMEVERIFY -/

def setCltv (c : Ctx) (b : Bool) : Ctx := { c with flags := { c.flags with cltv := b } }

theorem setCltv_agree (c : Ctx) (b : Bool) : SigAgree c (setCltv c b) :=
  ⟨fun _ => rfl, fun _ _ => rfl, rfl, rfl, rfl⟩

theorem opCheckMultisig_cltv (c : Ctx) (b v : Bool) (st : St) :
    opCheckMultisig (setCltv c b) st v = opCheckMultisig c st v := by
  unfold opCheckMultisig
  simp only [multisigLoop_congr (setCltv_agree c b), multisigStrip_congr (setCltv_agree c b)]
  rfl

set_option maxHeartbeats 2000000 in
theorem execOp_cltv_irrelevant (c : Ctx) (b : Bool) (op : Nat) (rest : Bytes) (st : St) (hop : op ≠ 0xb1) :
    execOp (setCltv c b) op rest st = execOp c op rest st := by
  unfold execOp
  split <;> first | rfl | exact opCheckMultisig_cltv c b _ st | exact absurd rfl hop

theorem execOp_cltv_mono (c : Ctx) (op : Nat) (rest : Bytes) (st : St) :
    MonoR (execOp (setCltv c true) op rest st) (execOp (setCltv c false) op rest st) := by
  by_cases hop : op = 0xb1
  · subst hop
    intro st' h
    have h1 : execOp (setCltv c true) 0xb1 rest st = opCLTV (setCltv c true) st := rfl
    have h2 : execOp (setCltv c false) 0xb1 rest st = opCLTV (setCltv c false) st := rfl
    rw [h1] at h
    rw [h2, opCLTV_eq h]
    rfl
  · rw [execOp_cltv_irrelevant c true op rest st hop, execOp_cltv_irrelevant c false op rest st hop]
    exact MonoR.refl _

theorem cltv_step : StepTightening setCltv :=
  ⟨execOp_cltv_mono, fun _ _ _ _ _ => rfl, fun _ _ => rfl, fun _ _ => rfl⟩

theorem cltv_tightening : EvalTightening (fun fl b => { fl with cltv := b }) where
  eval := fun fl chk sv xd s st w => evalScript_mono cltv_step { flags := fl, sv := sv, chk := chk, xd := xd } s st w
  sigpushonly := fun _ _ => rfl
  witness := fun _ _ => rfl
  p2sh := fun _ _ => rfl
  cleanstack := fun _ _ => rfl
  taproot := fun _ _ => rfl
  dOpSuccess := fun _ _ => rfl
  dTapVer := fun _ _ => rfl
  dWitProg := fun _ _ => rfl

/-! ### CHECKSEQUENCEVERIFY -/

def setCsv (c : Ctx) (b : Bool) : Ctx := { c with flags := { c.flags with csv := b } }

theorem setCsv_agree (c : Ctx) (b : Bool) : SigAgree c (setCsv c b) :=
  ⟨fun _ => rfl, fun _ _ => rfl, rfl, rfl, rfl⟩

theorem opCheckMultisig_csv (c : Ctx) (b v : Bool) (st : St) :
    opCheckMultisig (setCsv c b) st v = opCheckMultisig c st v := by
  unfold opCheckMultisig
  simp only [multisigLoop_congr (setCsv_agree c b), multisigStrip_congr (setCsv_agree c b)]
  rfl

set_option maxHeartbeats 2000000 in
theorem execOp_csv_irrelevant (c : Ctx) (b : Bool) (op : Nat) (rest : Bytes) (st : St) (hop : op ≠ 0xb2) :
    execOp (setCsv c b) op rest st = execOp c op rest st := by
  unfold execOp
  split <;> first | rfl | exact opCheckMultisig_csv c b _ st | exact absurd rfl hop

theorem execOp_csv_mono (c : Ctx) (op : Nat) (rest : Bytes) (st : St) :
    MonoR (execOp (setCsv c true) op rest st) (execOp (setCsv c false) op rest st) := by
  by_cases hop : op = 0xb2
  · subst hop
    intro st' h
    have h1 : execOp (setCsv c true) 0xb2 rest st = opCSV (setCsv c true) st := rfl
    have h2 : execOp (setCsv c false) 0xb2 rest st = opCSV (setCsv c false) st := rfl
    rw [h1] at h
    rw [h2, opCSV_eq h]
    rfl
  · rw [execOp_csv_irrelevant c true op rest st hop, execOp_csv_irrelevant c false op rest st hop]
    exact MonoR.refl _

theorem csv_step : StepTightening setCsv :=
  ⟨execOp_csv_mono, fun _ _ _ _ _ => rfl, fun _ _ => rfl, fun _ _ => rfl⟩

theorem csv_tightening : EvalTightening (fun fl b => { fl with csv := b }) where
  eval := fun fl chk sv xd s st w => evalScript_mono csv_step { flags := fl, sv := sv, chk := chk, xd := xd } s st w
  sigpushonly := fun _ _ => rfl
  witness := fun _ _ => rfl
  p2sh := fun _ _ => rfl
  cleanstack := fun _ _ => rfl
  taproot := fun _ _ => rfl
  dOpSuccess := fun _ _ => rfl
  dTapVer := fun _ _ => rfl
  dWitProg := fun _ _ => rfl

/-! ### NULLDUMMY -/

def setNulldummy (c : Ctx) (b : Bool) : Ctx := { c with flags := { c.flags with nulldummy := b } }

theorem setNulldummy_agree (c : Ctx) (b : Bool) : SigAgree c (setNulldummy c b) :=
  ⟨fun _ => rfl, fun _ _ => rfl, rfl, rfl, rfl⟩

theorem multisigFinish_nulldummy_mono (c : Ctx) (st : St) (a : MsArgs) (s v : Bool) :
    MonoR (multisigFinish (setNulldummy c true) st a s v) (multisigFinish (setNulldummy c false) st a s v) := by
  unfold multisigFinish
  have e1 : (setNulldummy c true).flags.nulldummy = true := rfl
  have e2 : (setNulldummy c false).flags.nulldummy = false := rfl
  have e5 : ∀ b, (setNulldummy c b).flags.nullfail = c.flags.nullfail := fun _ => rfl
  simp only [e1, e2, e5, Bool.true_and, Bool.false_and, Bool.false_eq_true, if_false]
  split
  · exact MonoR.refl _
  · split
    · exact MonoR.error_left _ _
    · exact MonoR.refl _

theorem opCheckMultisig_nulldummy_mono (c : Ctx) (v : Bool) (st : St) :
    MonoR (opCheckMultisig (setNulldummy c true) st v) (opCheckMultisig (setNulldummy c false) st v) :=
  opCheckMultisig_mono_of _ _ v st rfl
    (fun sigs code => by
      rw [multisigStrip_congr (setNulldummy_agree c true), multisigStrip_congr (setNulldummy_agree c false)])
    (fun code fuel sigs keys => by
      rw [multisigLoop_congr (setNulldummy_agree c true), multisigLoop_congr (setNulldummy_agree c false)]
      exact MonoR.refl _)
    (fun a s => multisigFinish_nulldummy_mono c st a s v)

set_option maxHeartbeats 2000000 in
theorem execOp_nulldummy_mono (c : Ctx) (op : Nat) (rest : Bytes) (st : St) :
    MonoR (execOp (setNulldummy c true) op rest st) (execOp (setNulldummy c false) op rest st) := by
  unfold execOp
  split <;> first | exact MonoR.of_eq rfl | exact opCheckMultisig_nulldummy_mono c _ st

theorem nulldummy_step : StepTightening setNulldummy :=
  ⟨execOp_nulldummy_mono, fun _ _ _ _ _ => rfl, fun _ _ => rfl, fun _ _ => rfl⟩

theorem nulldummy_tightening : EvalTightening (fun fl b => { fl with nulldummy := b }) where
  eval := fun fl chk sv xd s st w =>
    evalScript_mono nulldummy_step { flags := fl, sv := sv, chk := chk, xd := xd } s st w
  sigpushonly := fun _ _ => rfl
  witness := fun _ _ => rfl
  p2sh := fun _ _ => rfl
  cleanstack := fun _ _ => rfl
  taproot := fun _ _ => rfl
  dOpSuccess := fun _ _ => rfl
  dTapVer := fun _ _ => rfl
  dWitProg := fun _ _ => rfl

/-! ### DERSIG -/

def setDersig (c : Ctx) (b : Bool) : Ctx := { c with flags := { c.flags with dersig := b } }

theorem checkSignatureEncoding_dersig_mono (f : Flags) (s : Bytes) :
    MonoR (checkSignatureEncoding { f with dersig := true } s) (checkSignatureEncoding { f with dersig := false } s) := by
  unfold checkSignatureEncoding
  by_cases hv : isValidSignatureEncoding s = true
  · simp only [hv, Bool.not_true, Bool.and_false, Bool.false_eq_true, if_false]
    exact MonoR.refl _
  · have hv' : isValidSignatureEncoding s = false := by simpa using hv
    simp only [hv', Bool.not_false, Bool.and_true, Bool.true_or, if_true]
    split
    · exact MonoR.refl _
    · exact MonoR.error_left _ _

theorem multisigLoop_dersig_mono (c : Ctx) (code : Bytes) : ∀ fuel sigs keys,
    MonoR (multisigLoop (setDersig c true) code fuel sigs keys) (multisigLoop (setDersig c false) code fuel sigs keys) := by
  intro fuel
  induction fuel with
  | zero => intro sigs keys; cases sigs <;> (simp only [multisigLoop]; exact MonoR.refl _)
  | succ n ih =>
    intro sigs keys
    cases sigs with
    | nil => simp only [multisigLoop]; exact MonoR.refl _
    | cons s ss =>
      cases keys with
      | nil => simp only [multisigLoop]; exact MonoR.refl _
      | cons k ks =>
        simp only [multisigLoop]
        apply MonoR.bind (checkSignatureEncoding_dersig_mono c.flags s)
        intro _
        apply MonoR.bind (MonoR.of_eq rfl)
        intro _
        apply MonoR.bind (MonoR.of_eq rfl)
        intro ok
        cases ok
        · simp only [Bool.false_eq_true, if_false]
          split
          · exact MonoR.refl _
          · exact ih _ _
        · simp only [if_true]
          split
          · exact MonoR.refl _
          · exact ih _ _

theorem multisigStrip_dersig (c : Ctx) (b : Bool) : ∀ sigs code,
    multisigStrip (setDersig c b) sigs code = multisigStrip c sigs code := by
  intro sigs
  induction sigs with
  | nil => intro code; simp [multisigStrip]
  | cons s ss ih =>
    intro code
    have e1 : (setDersig c b).sv = c.sv := rfl
    have e2 : (setDersig c b).flags.constScriptcode = c.flags.constScriptcode := rfl
    simp only [multisigStrip, e1, e2, ih]

theorem opCheckMultisig_dersig_mono (c : Ctx) (v : Bool) (st : St) :
    MonoR (opCheckMultisig (setDersig c true) st v) (opCheckMultisig (setDersig c false) st v) :=
  opCheckMultisig_mono_of _ _ v st rfl
    (fun sigs code => by rw [multisigStrip_dersig, multisigStrip_dersig])
    (multisigLoop_dersig_mono c)
    (fun a s => MonoR.of_eq rfl)

theorem evalChecksigPre_dersig_mono (c : Ctx) (st : St) (sig pk : Bytes) :
    MonoR (evalChecksigPre (setDersig c true) st sig pk) (evalChecksigPre (setDersig c false) st sig pk) := by
  unfold evalChecksigPre
  apply MonoR.bind (MonoR.of_eq rfl)
  intro code
  apply MonoR.bind (checkSignatureEncoding_dersig_mono c.flags sig)
  intro _
  exact MonoR.of_eq rfl

theorem evalChecksig_dersig_mono (c : Ctx) (st : St) (sig pk : Bytes) :
    MonoR (evalChecksig (setDersig c true) st sig pk) (evalChecksig (setDersig c false) st sig pk) := by
  unfold evalChecksig
  have e : ∀ b, (setDersig c b).sv = c.sv := fun _ => rfl
  simp only [e]
  split
  · exact MonoR.bind (evalChecksigPre_dersig_mono c st sig pk) (fun _ => MonoR.refl _)
  · exact MonoR.bind (evalChecksigPre_dersig_mono c st sig pk) (fun _ => MonoR.refl _)
  · exact MonoR.of_eq rfl
  · exact MonoR.refl _


theorem opChecksig_dersig_mono (c : Ctx) (st : St) (v : Bool) :
    MonoR (opChecksig (setDersig c true) st v) (opChecksig (setDersig c false) st v) := by
  unfold opChecksig
  split
  · rename_i pk sig s _
    intro st' h
    cases h1 : evalChecksig (setDersig c true) st sig pk with
    | error e => rw [h1] at h; cases h
    | ok r =>
      rw [h1] at h
      rw [evalChecksig_dersig_mono c st sig pk r h1]
      exact h
  · exact MonoR.refl _

theorem opChecksigAdd_dersig_mono (c : Ctx) (st : St) :
    MonoR (opChecksigAdd (setDersig c true) st) (opChecksigAdd (setDersig c false) st) := by
  unfold opChecksigAdd
  have e : ∀ b, (setDersig c b).sv = c.sv := fun _ => rfl
  have e2 : ∀ b, (setDersig c b).flags.minimaldata = c.flags.minimaldata := fun _ => rfl
  simp only [e, e2]
  split
  · exact MonoR.refl _
  · split
    · rename_i pk nb sig s _
      split
      · exact MonoR.refl _
      · intro st' h
        cases h1 : evalChecksig (setDersig c true) st sig pk with
        | error e => rw [h1] at h; cases h
        | ok r =>
          rw [h1] at h
          rw [evalChecksig_dersig_mono c st sig pk r h1]
          exact h
    · exact MonoR.refl _

set_option maxHeartbeats 2000000 in
theorem execOp_dersig_mono (c : Ctx) (op : Nat) (rest : Bytes) (st : St) :
    MonoR (execOp (setDersig c true) op rest st) (execOp (setDersig c false) op rest st) := by
  unfold execOp
  split <;> first
    | exact MonoR.of_eq rfl
    | exact opCheckMultisig_dersig_mono c _ st
    | exact opChecksig_dersig_mono c st _
    | exact opChecksigAdd_dersig_mono c st

theorem dersig_step : StepTightening setDersig :=
  ⟨execOp_dersig_mono, fun _ _ _ _ _ => rfl, fun _ _ => rfl, fun _ _ => rfl⟩

theorem dersig_tightening : EvalTightening (fun fl b => { fl with dersig := b }) where
  eval := fun fl chk sv xd s st w =>
    evalScript_mono dersig_step { flags := fl, sv := sv, chk := chk, xd := xd } s st w
  sigpushonly := fun _ _ => rfl
  witness := fun _ _ => rfl
  p2sh := fun _ _ => rfl
  cleanstack := fun _ _ => rfl
  taproot := fun _ _ => rfl
  dOpSuccess := fun _ _ => rfl
  dTapVer := fun _ _ => rfl
  dWitProg := fun _ _ => rfl


/-! ### flags the opcode interpreter never reads: WITNESS, TAPROOT, P2SH -/

def setWitness (c : Ctx) (b : Bool) : Ctx := { c with flags := { c.flags with witness := b } }

theorem setWitness_agree (c : Ctx) (b : Bool) : SigAgree c (setWitness c b) :=
  ⟨fun _ => rfl, fun _ _ => rfl, rfl, rfl, rfl⟩

theorem opCheckMultisig_witness (c : Ctx) (b v : Bool) (st : St) :
    opCheckMultisig (setWitness c b) st v = opCheckMultisig c st v := by
  unfold opCheckMultisig
  simp only [multisigLoop_congr (setWitness_agree c b), multisigStrip_congr (setWitness_agree c b)]
  rfl

set_option maxHeartbeats 2000000 in
theorem execOp_witness (c : Ctx) (b : Bool) (op : Nat) (rest : Bytes) (st : St) :
    execOp (setWitness c b) op rest st = execOp c op rest st := by
  unfold execOp
  split <;> first | rfl | exact opCheckMultisig_witness c b _ st

theorem witness_step : StepTightening setWitness :=
  ⟨fun c op rest st => MonoR.of_eq (by rw [execOp_witness, execOp_witness]),
   fun _ _ _ _ _ => rfl, fun _ _ => rfl, fun _ _ => rfl⟩

/-- script evaluation does not depend on the WITNESS flag (success direction) -/
theorem evalScript_witness_off (fl : Flags) (chk : Checker) (script : Bytes) (stack out : List Bytes)
    (h : evalScript (baseCtx { fl with witness := true } chk) script stack = .ok out) :
    evalScript (baseCtx { fl with witness := false } chk) script stack = .ok out :=
  evalScript_mono witness_step (baseCtx fl chk) script stack 0 out h


theorem verifyScript_witness_off (fl : Flags) (hcs : fl.cleanstack = false) (chk : Checker)
    (scriptSig scriptPubKey : Bytes) (wit : List Bytes)
    (h : verifyScript { fl with witness := true } chk scriptSig scriptPubKey wit = .ok ()) :
    verifyScript { fl with witness := false } chk scriptSig scriptPubKey wit = .ok () := by
  have ev : ∀ s st out, evalScript (baseCtx { fl with witness := true } chk) s st = .ok out →
      evalScript (baseCtx { fl with witness := false } chk) s st = .ok out :=
    fun s st out => evalScript_witness_off fl chk s st out
  generalize hT : ({ fl with witness := true } : Flags) = flT at h ev
  generalize hF : ({ fl with witness := false } : Flags) = flF at ev ⊢
  have eTw : flT.witness = true := by rw [← hT]
  have eFw : flF.witness = false := by rw [← hF]
  have eTs : flT.sigpushonly = flF.sigpushonly := by rw [← hT, ← hF]
  have eTp : flT.p2sh = flF.p2sh := by rw [← hT, ← hF]
  have eFc : flF.cleanstack = false := by rw [← hF]; exact hcs
  have eTc : flT.cleanstack = false := by rw [← hT]; exact hcs
  unfold verifyScript at h ⊢
  simp only [eTw, eFw, eTs, eTp, eFc, eTc, Bool.false_and, Bool.false_eq_true, if_false, if_true, bind,
    Except.bind, pure, Except.pure] at h ⊢
  split at h
  · cases h
  · rename_i hpo
    rw [if_neg hpo]
    split at h
    · cases h
    · rename_i stack0 h0
      rw [ev _ _ _ h0]
      simp only []
      split at h
      · cases h
      · rename_i stack1 h1
        rw [ev _ _ _ h1]
        simp only []
        split at h
        · cases h
        · rename_i u ht
          split at h
          · cases h
          · rename_i r1 hr1
            by_cases hp : (flF.p2sh && isP2SH scriptPubKey) = true
            · simp only [hp, if_true] at h ⊢
              by_cases hpu : (!isPushOnly scriptSig) = true
              · simp only [hpu, if_true] at h; cases h
              · simp only [hpu, if_false] at h ⊢
                cases stack0 with
                | nil => simp only [] at h; cases h
                | cons redeem stackP =>
                  simp only [] at h ⊢
                  cases hR : evalScript (baseCtx flT chk) redeem stackP with
                  | error e => rw [hR] at h; simp only [] at h; cases h
                  | ok stackR =>
                    rw [hR] at h; rw [ev _ _ _ hR]; simp only [] at h ⊢
                    cases ht2 : topTrue stackR with
                    | error e => rw [ht2] at h; simp only [] at h; cases h
                    | ok u2 => rfl
            · simp only [hp, Bool.false_eq_true, if_false]


/-! ### TAPROOT -/

def twTaproot (fl : Flags) (b : Bool) : Flags := { fl with taproot := b }
def setTaproot (c : Ctx) (b : Bool) : Ctx := { c with flags := twTaproot c.flags b }

theorem setTaproot_agree (c : Ctx) (b : Bool) : SigAgree c (setTaproot c b) :=
  ⟨fun _ => rfl, fun _ _ => rfl, rfl, rfl, rfl⟩

theorem opCheckMultisig_taproot (c : Ctx) (b v : Bool) (st : St) :
    opCheckMultisig (setTaproot c b) st v = opCheckMultisig c st v := by
  unfold opCheckMultisig
  simp only [multisigLoop_congr (setTaproot_agree c b), multisigStrip_congr (setTaproot_agree c b)]
  rfl

set_option maxHeartbeats 2000000 in
theorem execOp_taproot (c : Ctx) (b : Bool) (op : Nat) (rest : Bytes) (st : St) :
    execOp (setTaproot c b) op rest st = execOp c op rest st := by
  unfold execOp
  split <;> first | rfl | exact opCheckMultisig_taproot c b _ st

theorem taproot_step : StepTightening setTaproot :=
  ⟨fun c op rest st => MonoR.of_eq (by rw [execOp_taproot, execOp_taproot]),
   fun _ _ _ _ _ => rfl, fun _ _ => rfl, fun _ _ => rfl⟩

theorem taproot_exec : ExecTightening twTaproot :=
  ⟨fun fl chk sv xd s st w => evalScript_mono taproot_step { flags := fl, sv := sv, chk := chk, xd := xd } s st w,
   fun _ _ => rfl⟩

theorem verifyWitnessProgram_taproot_mono (fl : Flags) (chk : Checker) (wit : List Bytes) (ver : Nat)
    (prog : Bytes) (p : Bool) :
    MonoR (verifyWitnessProgram (twTaproot fl true) chk wit ver prog p)
          (verifyWitnessProgram (twTaproot fl false) chk wit ver prog p) := by
  unfold verifyWitnessProgram
  have eT : (twTaproot fl true).taproot = true := rfl
  have eF : (twTaproot fl false).taproot = false := rfl
  have e1 : ∀ b, (twTaproot fl b).discourageTaprootVersion = fl.discourageTaprootVersion := fun _ => rfl
  have e2 : ∀ b, (twTaproot fl b).discourageWitnessProgram = fl.discourageWitnessProgram := fun _ => rfl
  simp only [eT, eF, e1, e2, Bool.not_true, Bool.not_false, Bool.false_eq_true, if_false, if_true]
  split
  · split
    · split
      · exact MonoR.refl _
      · split
        · exact MonoR.refl _
        · exact executeWitnessScript_mono taproot_exec _ _ _ _ _ _ _
    · split
      · split
        · exact MonoR.refl _
        · exact executeWitnessScript_mono taproot_exec _ _ _ _ _ _ _
      · exact MonoR.refl _
  · split
    · intro v _; cases v; rfl
    · exact MonoR.refl _

theorem taproot_seq : SeqTightening twTaproot :=
  ⟨taproot_exec.eval, verifyWitnessProgram_taproot_mono, fun _ _ => rfl, fun _ _ => rfl, fun _ _ => rfl,
   fun _ _ => rfl⟩


/-! ### P2SH -/

def setP2sh (c : Ctx) (b : Bool) : Ctx := { c with flags := { c.flags with p2sh := b } }

theorem setP2sh_agree (c : Ctx) (b : Bool) : SigAgree c (setP2sh c b) :=
  ⟨fun _ => rfl, fun _ _ => rfl, rfl, rfl, rfl⟩

theorem opCheckMultisig_p2sh (c : Ctx) (b v : Bool) (st : St) :
    opCheckMultisig (setP2sh c b) st v = opCheckMultisig c st v := by
  unfold opCheckMultisig
  simp only [multisigLoop_congr (setP2sh_agree c b), multisigStrip_congr (setP2sh_agree c b)]
  rfl

set_option maxHeartbeats 2000000 in
theorem execOp_p2sh (c : Ctx) (b : Bool) (op : Nat) (rest : Bytes) (st : St) :
    execOp (setP2sh c b) op rest st = execOp c op rest st := by
  unfold execOp
  split <;> first | rfl | exact opCheckMultisig_p2sh c b _ st

theorem p2sh_step : StepTightening setP2sh :=
  ⟨fun c op rest st => MonoR.of_eq (by rw [execOp_p2sh, execOp_p2sh]),
   fun _ _ _ _ _ => rfl, fun _ _ => rfl, fun _ _ => rfl⟩

theorem evalScript_p2sh_off (fl : Flags) (chk : Checker) (script : Bytes) (stack out : List Bytes)
    (h : evalScript (baseCtx { fl with p2sh := true } chk) script stack = .ok out) :
    evalScript (baseCtx { fl with p2sh := false } chk) script stack = .ok out :=
  evalScript_mono p2sh_step (baseCtx fl chk) script stack 0 out h

theorem verifyScript_p2sh_off (fl : Flags) (hcs : fl.cleanstack = false) (hw : fl.witness = false)
    (chk : Checker) (scriptSig scriptPubKey : Bytes) (wit : List Bytes)
    (h : verifyScript { fl with p2sh := true } chk scriptSig scriptPubKey wit = .ok ()) :
    verifyScript { fl with p2sh := false } chk scriptSig scriptPubKey wit = .ok () := by
  have ev : ∀ s st out, evalScript (baseCtx { fl with p2sh := true } chk) s st = .ok out →
      evalScript (baseCtx { fl with p2sh := false } chk) s st = .ok out :=
    fun s st out => evalScript_p2sh_off fl chk s st out
  generalize hT : ({ fl with p2sh := true } : Flags) = flT at h ev
  generalize hF : ({ fl with p2sh := false } : Flags) = flF at ev ⊢
  have eTp : flT.p2sh = true := by rw [← hT]
  have eFp : flF.p2sh = false := by rw [← hF]
  have eTs : flT.sigpushonly = flF.sigpushonly := by rw [← hT, ← hF]
  have eTw : flT.witness = false := by rw [← hT]; exact hw
  have eFw : flF.witness = false := by rw [← hF]; exact hw
  have eFc : flF.cleanstack = false := by rw [← hF]; exact hcs
  have eTc : flT.cleanstack = false := by rw [← hT]; exact hcs
  unfold verifyScript at h ⊢
  simp only [eTp, eFp, eTs, eTw, eFw, eFc, eTc, Bool.false_and, Bool.true_and, Bool.false_eq_true, if_false, if_true,
    bind, Except.bind, pure, Except.pure] at h ⊢
  split at h
  · cases h
  · rename_i hpo
    rw [if_neg hpo]
    split at h
    · cases h
    · rename_i stack0 h0
      rw [ev _ _ _ h0]
      simp only []
      split at h
      · cases h
      · rename_i stack1 h1
        rw [ev _ _ _ h1]
        simp only []
        split at h
        · cases h
        · rfl

end BV.C06.Lemmas
