/-
C06 soft-fork monotonicity lemmas: turning a NOP-tightening flag off never turns a successful
verification into a failure. Core-only.
-/
import BV.C06.Lemmas
namespace BV.C06.Lemmas
open BV.C06

/-! ### plumbing -/

/-- two contexts that agree on everything the signature opcodes look at -/
structure SigAgree (c c' : Ctx) : Prop where
  sigEnc : ∀ s, checkSignatureEncoding c'.flags s = checkSignatureEncoding c.flags s
  pkEnc : ∀ sv p, checkPubKeyEncoding c'.flags sv p = checkPubKeyEncoding c.flags sv p
  chk : c'.chk = c.chk
  sv : c'.sv = c.sv
  const : c'.flags.constScriptcode = c.flags.constScriptcode

theorem multisigLoop_congr {c c' : Ctx} (a : SigAgree c c') (code : Bytes) :
    ∀ fuel sigs keys, multisigLoop c' code fuel sigs keys = multisigLoop c code fuel sigs keys := by
  intro fuel
  induction fuel with
  | zero => intro sigs keys; cases sigs <;> simp [multisigLoop]
  | succ n ih =>
    intro sigs keys
    cases sigs with
    | nil => simp [multisigLoop]
    | cons s ss =>
      cases keys with
      | nil => simp [multisigLoop]
      | cons k ks =>
        simp only [multisigLoop, a.sigEnc, a.pkEnc, a.chk, a.sv, ih]

theorem multisigStrip_congr {c c' : Ctx} (a : SigAgree c c') :
    ∀ sigs code, multisigStrip c' sigs code = multisigStrip c sigs code := by
  intro sigs
  induction sigs with
  | nil => intro code; simp [multisigStrip]
  | cons s ss ih => intro code; simp only [multisigStrip, a.sv, a.const, ih]


/-- `a` succeeding implies `b` succeeds with the same value -/
def MonoR {α : Type} (a b : R α) : Prop := ∀ v, a = .ok v → b = .ok v

theorem MonoR.refl {α : Type} (a : R α) : MonoR a a := fun _ h => h

theorem MonoR.of_eq {α : Type} {a b : R α} (h : a = b) : MonoR a b := fun _ h' => h ▸ h'

theorem MonoR.bind {α β : Type} {a b : R α} {f g : α → R β} (h : MonoR a b) (hf : ∀ v, MonoR (f v) (g v)) :
    MonoR (a >>= f) (b >>= g) := by
  intro v hv
  cases ha : a with
  | error e => rw [ha] at hv; cases hv
  | ok x =>
    rw [ha] at hv
    rw [h x ha]
    exact hf x v hv


/-! ### generic lifting from script evaluation to VerifyScript -/

/-- A flag tweak `tw fl b` (set one flag to `b`) that the sequencing code of `VerifyScript` never looks at
and under which script evaluation is monotone. -/
structure EvalTightening (tw : Flags → Bool → Flags) : Prop where
  eval : ∀ fl chk sv xd script stack w,
    MonoR (evalScript { flags := tw fl true, sv := sv, chk := chk, xd := xd } script stack w)
          (evalScript { flags := tw fl false, sv := sv, chk := chk, xd := xd } script stack w)
  sigpushonly : ∀ fl b, (tw fl b).sigpushonly = fl.sigpushonly
  witness : ∀ fl b, (tw fl b).witness = fl.witness
  p2sh : ∀ fl b, (tw fl b).p2sh = fl.p2sh
  cleanstack : ∀ fl b, (tw fl b).cleanstack = fl.cleanstack
  taproot : ∀ fl b, (tw fl b).taproot = fl.taproot
  dOpSuccess : ∀ fl b, (tw fl b).discourageOpSuccess = fl.discourageOpSuccess
  dTapVer : ∀ fl b, (tw fl b).discourageTaprootVersion = fl.discourageTaprootVersion
  dWitProg : ∀ fl b, (tw fl b).discourageWitnessProgram = fl.discourageWitnessProgram

variable {tw : Flags → Bool → Flags} (T : EvalTightening tw)
include T

theorem executeWitnessScript_mono (fl : Flags) (chk : Checker) (sv : SigVer) (xd : ExecData) (w : Int)
    (stack : List Bytes) (script : Bytes) :
    MonoR (executeWitnessScript (tw fl true) chk sv xd w stack script)
          (executeWitnessScript (tw fl false) chk sv xd w stack script) := by
  unfold executeWitnessScript
  simp only [T.dOpSuccess]
  apply MonoR.bind (MonoR.refl _)
  intro go
  split
  · exact MonoR.refl _
  · split
    · exact MonoR.refl _
    · exact MonoR.bind (T.eval fl chk sv xd script stack w) (fun out => MonoR.refl _)

theorem verifyWitnessProgram_mono (fl : Flags) (chk : Checker) (wit : List Bytes) (ver : Nat) (prog : Bytes)
    (p : Bool) :
    MonoR (verifyWitnessProgram (tw fl true) chk wit ver prog p)
          (verifyWitnessProgram (tw fl false) chk wit ver prog p) := by
  unfold verifyWitnessProgram
  simp only [T.taproot, T.dTapVer, T.dWitProg]
  split
  · split
    · split
      · exact MonoR.refl _
      · split
        · exact MonoR.refl _
        · exact executeWitnessScript_mono T _ _ _ _ _ _ _
    · split
      · split
        · exact MonoR.refl _
        · exact executeWitnessScript_mono T _ _ _ _ _ _ _
      · exact MonoR.refl _
  · split
    · split
      · exact MonoR.refl _
      · split
        · exact MonoR.refl _
        · split
          · exact MonoR.refl _
          · exact MonoR.refl _
          · split
            · exact MonoR.refl _
            · apply MonoR.bind (MonoR.refl _)
              intro okc
              split
              · exact MonoR.refl _
              · split
                · exact executeWitnessScript_mono T _ _ _ _ _ _ _
                · exact MonoR.refl _
    · exact MonoR.refl _


theorem verifyScript_mono (fl : Flags) (chk : Checker) (scriptSig scriptPubKey : Bytes) (wit : List Bytes) :
    MonoR (verifyScript (tw fl true) chk scriptSig scriptPubKey wit)
          (verifyScript (tw fl false) chk scriptSig scriptPubKey wit) := by
  unfold verifyScript baseCtx
  simp only [T.sigpushonly, T.witness, T.p2sh, T.cleanstack]
  split
  · exact MonoR.refl _
  · apply MonoR.bind (T.eval fl chk .base {} scriptSig [] 0)
    intro stack0
    apply MonoR.bind (T.eval fl chk .base {} scriptPubKey stack0 0)
    intro stack1
    apply MonoR.bind (MonoR.refl _)
    intro _
    apply MonoR.bind
    · split
      · split
        · split
          · exact MonoR.refl _
          · exact MonoR.bind (verifyWitnessProgram_mono T _ _ _ _ _ _) (fun _ => MonoR.refl _)
        · exact MonoR.refl _
      · exact MonoR.refl _
    · intro r1
      apply MonoR.bind
      · split
        · split
          · exact MonoR.refl _
          · split
            · exact MonoR.refl _
            · apply MonoR.bind (T.eval fl chk .base {} _ _ 0)
              intro stackR
              apply MonoR.bind (MonoR.refl _)
              intro _
              split
              · split
                · split
                  · exact MonoR.refl _
                  · exact MonoR.bind (verifyWitnessProgram_mono T _ _ _ _ _ _) (fun _ => MonoR.refl _)
                · exact MonoR.refl _
              · exact MonoR.refl _
        · exact MonoR.refl _
      · intro r2
        exact MonoR.refl _

omit T

/-! ### CHECKLOCKTIMEVERIFY -/

def setCltv (c : Ctx) (b : Bool) : Ctx := { c with flags := { c.flags with cltv := b } }

theorem setCltv_agree (c : Ctx) (b : Bool) : SigAgree c (setCltv c b) :=
  ⟨fun _ => rfl, fun _ _ => rfl, rfl, rfl, rfl⟩

theorem opCheckMultisig_cltv (c : Ctx) (b v : Bool) (st : St) :
    opCheckMultisig (setCltv c b) st v = opCheckMultisig c st v := by
  unfold opCheckMultisig
  simp only [multisigLoop_congr (setCltv_agree c b), multisigStrip_congr (setCltv_agree c b)]
  rfl

set_option maxHeartbeats 2000000 in
theorem execOp_cltv_irrelevant (c : Ctx) (b : Bool) (op : Nat) (rest : Bytes) (st : St) (hop : op ≠ 0xb1) :
    execOp (setCltv c b) op rest st = execOp c op rest st := by
  unfold execOp
  split <;> first | rfl | exact opCheckMultisig_cltv c b _ st | exact absurd rfl hop

theorem execOp_cltv_mono (c : Ctx) (op : Nat) (rest : Bytes) (st : St) :
    MonoR (execOp (setCltv c true) op rest st) (execOp (setCltv c false) op rest st) := by
  by_cases hop : op = 0xb1
  · subst hop
    intro st' h
    have h1 : execOp (setCltv c true) 0xb1 rest st = opCLTV (setCltv c true) st := rfl
    have h2 : execOp (setCltv c false) 0xb1 rest st = opCLTV (setCltv c false) st := rfl
    rw [h1] at h
    rw [h2, opCLTV_eq h]
    rfl
  · rw [execOp_cltv_irrelevant c true op rest st hop, execOp_cltv_irrelevant c false op rest st hop]
    exact MonoR.refl _

theorem stepOp_cltv_mono (c : Ctx) (op : Nat) (d rest : Bytes) (st : St) :
    MonoR (stepOp (setCltv c true) op d rest st) (stepOp (setCltv c false) op d rest st) := by
  unfold stepOp
  apply MonoR.bind (MonoR.of_eq rfl)
  intro st0
  apply MonoR.bind
  · unfold stepCore
    split
    · exact MonoR.of_eq rfl
    · split
      · exact execOp_cltv_mono c op rest st0
      · exact MonoR.refl _
  · intro st1; exact MonoR.refl _

theorem evalLoop_cltv_mono (c : Ctx) : ∀ (fuel : Nat) (script : Bytes) (st : St),
    MonoR (evalLoop (setCltv c true) fuel script st) (evalLoop (setCltv c false) fuel script st) := by
  intro fuel
  induction fuel with
  | zero =>
    intro script st
    cases script with
    | nil => simp only [evalLoop]; exact MonoR.refl _
    | cons b t => simp only [evalLoop]; exact MonoR.refl _
  | succ n ih =>
    intro script st
    cases script with
    | nil => simp only [evalLoop]; exact MonoR.refl _
    | cons b t =>
      rw [evalLoop, evalLoop]
      cases getOp (b :: t) with
      | none => exact MonoR.refl _
      | some r =>
        obtain ⟨op, d, rest⟩ := r
        simp only []
        exact MonoR.bind (stepOp_cltv_mono c op d rest st) (fun st1 => ih rest st1)

theorem evalScript_cltv_mono (c : Ctx) (script : Bytes) (stack : List Bytes) (w : Int) :
    MonoR (evalScript (setCltv c true) script stack w) (evalScript (setCltv c false) script stack w) := by
  unfold evalScript
  have hsv : (setCltv c true).sv = (setCltv c false).sv := rfl
  simp only [hsv]
  split
  · exact MonoR.refl _
  · exact MonoR.bind (evalLoop_cltv_mono c _ _ _) (fun st => MonoR.refl _)

theorem cltv_tightening : EvalTightening (fun fl b => { fl with cltv := b }) where
  eval := fun fl chk sv xd s st w => evalScript_cltv_mono { flags := fl, sv := sv, chk := chk, xd := xd } s st w
  sigpushonly := fun _ _ => rfl
  witness := fun _ _ => rfl
  p2sh := fun _ _ => rfl
  cleanstack := fun _ _ => rfl
  taproot := fun _ _ => rfl
  dOpSuccess := fun _ _ => rfl
  dTapVer := fun _ _ => rfl
  dWitProg := fun _ _ => rfl

/-! ### CHECKSEQUENCEVERIFY -/

def setCsv (c : Ctx) (b : Bool) : Ctx := { c with flags := { c.flags with csv := b } }

theorem setCsv_agree (c : Ctx) (b : Bool) : SigAgree c (setCsv c b) :=
  ⟨fun _ => rfl, fun _ _ => rfl, rfl, rfl, rfl⟩

theorem opCheckMultisig_csv (c : Ctx) (b v : Bool) (st : St) :
    opCheckMultisig (setCsv c b) st v = opCheckMultisig c st v := by
  unfold opCheckMultisig
  simp only [multisigLoop_congr (setCsv_agree c b), multisigStrip_congr (setCsv_agree c b)]
  rfl

set_option maxHeartbeats 2000000 in
theorem execOp_csv_irrelevant (c : Ctx) (b : Bool) (op : Nat) (rest : Bytes) (st : St) (hop : op ≠ 0xb2) :
    execOp (setCsv c b) op rest st = execOp c op rest st := by
  unfold execOp
  split <;> first | rfl | exact opCheckMultisig_csv c b _ st | exact absurd rfl hop

theorem execOp_csv_mono (c : Ctx) (op : Nat) (rest : Bytes) (st : St) :
    MonoR (execOp (setCsv c true) op rest st) (execOp (setCsv c false) op rest st) := by
  by_cases hop : op = 0xb2
  · subst hop
    intro st' h
    have h1 : execOp (setCsv c true) 0xb2 rest st = opCSV (setCsv c true) st := rfl
    have h2 : execOp (setCsv c false) 0xb2 rest st = opCSV (setCsv c false) st := rfl
    rw [h1] at h
    rw [h2, opCSV_eq h]
    rfl
  · rw [execOp_csv_irrelevant c true op rest st hop, execOp_csv_irrelevant c false op rest st hop]
    exact MonoR.refl _

theorem stepOp_csv_mono (c : Ctx) (op : Nat) (d rest : Bytes) (st : St) :
    MonoR (stepOp (setCsv c true) op d rest st) (stepOp (setCsv c false) op d rest st) := by
  unfold stepOp
  apply MonoR.bind (MonoR.of_eq rfl)
  intro st0
  apply MonoR.bind
  · unfold stepCore
    split
    · exact MonoR.of_eq rfl
    · split
      · exact execOp_csv_mono c op rest st0
      · exact MonoR.refl _
  · intro st1; exact MonoR.refl _

theorem evalLoop_csv_mono (c : Ctx) : ∀ (fuel : Nat) (script : Bytes) (st : St),
    MonoR (evalLoop (setCsv c true) fuel script st) (evalLoop (setCsv c false) fuel script st) := by
  intro fuel
  induction fuel with
  | zero =>
    intro script st
    cases script with
    | nil => simp only [evalLoop]; exact MonoR.refl _
    | cons b t => simp only [evalLoop]; exact MonoR.refl _
  | succ n ih =>
    intro script st
    cases script with
    | nil => simp only [evalLoop]; exact MonoR.refl _
    | cons b t =>
      rw [evalLoop, evalLoop]
      cases getOp (b :: t) with
      | none => exact MonoR.refl _
      | some r =>
        obtain ⟨op, d, rest⟩ := r
        simp only []
        exact MonoR.bind (stepOp_csv_mono c op d rest st) (fun st1 => ih rest st1)

theorem evalScript_csv_mono (c : Ctx) (script : Bytes) (stack : List Bytes) (w : Int) :
    MonoR (evalScript (setCsv c true) script stack w) (evalScript (setCsv c false) script stack w) := by
  unfold evalScript
  have hsv : (setCsv c true).sv = (setCsv c false).sv := rfl
  simp only [hsv]
  split
  · exact MonoR.refl _
  · exact MonoR.bind (evalLoop_csv_mono c _ _ _) (fun st => MonoR.refl _)

theorem csv_tightening : EvalTightening (fun fl b => { fl with csv := b }) where
  eval := fun fl chk sv xd s st w => evalScript_csv_mono { flags := fl, sv := sv, chk := chk, xd := xd } s st w
  sigpushonly := fun _ _ => rfl
  witness := fun _ _ => rfl
  p2sh := fun _ _ => rfl
  cleanstack := fun _ _ => rfl
  taproot := fun _ _ => rfl
  dOpSuccess := fun _ _ => rfl
  dTapVer := fun _ _ => rfl
  dWitProg := fun _ _ => rfl

end BV.C06.Lemmas
