/-
C06: shape facts about the special script forms and the tokenizer (core-only).
-/
import BV.C06.Model
namespace BV.C06.Lemmas
open BV.C06


/-- shape of a witness program -/
theorem witnessProgram_shape (s : Bytes) (v : Nat) (p : Bytes) (h : witnessProgram? s = some (v, p)) :
    v ≤ 16 ∧ 2 ≤ p.length ∧ p.length ≤ 40 ∧ s.length = p.length + 2 ∧
    ∃ vb lb, s = vb :: lb :: p ∧ lb.toNat = p.length ∧ (vb.toNat = 0 ∧ v = 0 ∨ 0x51 ≤ vb.toNat ∧ v = vb.toNat - 0x50) := by
  unfold witnessProgram? at h
  split at h
  · cases h
  · rename_i hlen
    split at h
    · rename_i vb lb prog
      split at h
      · rename_i hc
        simp only [Option.some.injEq, Prod.mk.injEq] at h
        obtain ⟨hv, hp⟩ := h
        subst hp
        simp [OP_1, OP_16] at hc hlen
        obtain ⟨hver, hl⟩ := hc
        have hver' : vb.toNat = 0 ∨ (0x51 ≤ vb.toNat ∧ vb.toNat ≤ 0x60) := by
          rcases hver with h0 | h1
          · exact Or.inl h0
          · exact Or.inr ⟨of_decide_eq_true h1.1, of_decide_eq_true h1.2⟩
        refine ⟨?_, by omega, by omega, by simp, vb, lb, rfl, by omega, ?_⟩
        · split at hv <;> omega
        · rcases hver' with h0 | h1
          · left; simp only [h0, beq_self_eq_true, if_true] at hv; exact ⟨h0, hv.symm⟩
          · right
            have : ¬ (vb.toNat = 0) := by omega
            have hb : (vb.toNat == 0) = false := by simpa using this
            simp only [hb, Bool.false_eq_true, if_false] at hv
            exact ⟨h1.1, hv.symm⟩
      · cases h
    · cases h

/-- a pay-to-script-hash script is never a witness program (so at most one of the two special forms applies
to a scriptPubKey) -/
theorem p2sh_not_witnessProgram (s : Bytes) (h : isP2SH s = true) : witnessProgram? s = none := by
  cases hw : witnessProgram? s with
  | none => rfl
  | some r =>
    obtain ⟨v, p⟩ := r
    obtain ⟨_, _, _, _, vb, lb, hs, _, hv⟩ := witnessProgram_shape s v p hw
    subst hs
    unfold isP2SH at h
    simp only [Bool.and_eq_true, beq_iff_eq, byteAt_zero', OP_HASH160] at h
    obtain ⟨⟨⟨_, h0⟩, _⟩, _⟩ := h
    have : vb.toNat = 0xa9 := h0
    rcases hv with ⟨e, _⟩ | ⟨e, _⟩ <;> omega
where byteAt_zero' : ∀ (a : UInt8) (l : Bytes), byteAt (a :: l) 0 = a.toNat := fun _ _ => rfl


/-- expected encoded length of opcode `b` (as in the pinned table): 1 for a bare opcode, n+1 for a direct push
of n bytes, minus 1, 2, 4 for PUSHDATA1, 2, 4 -/
def opLengthFormula (b : Nat) : Int :=
  if b == 0 then 1 else if b ≤ 75 then (b : Int) + 1 else if b == 76 then -1 else if b == 77 then -2
  else if b == 78 then -4 else 1

set_option maxRecDepth 100000 in
theorem opTable_lengths_formula : opTable.map (·.2) = (List.range 256).map opLengthFormula := by decide

theorem getOp_direct_push (b : UInt8) (rest : Bytes) (h75 : b.toNat ≤ 75) :
    getOp (b :: rest) =
      if rest.length < b.toNat then none else some (b.toNat, rest.take b.toNat, rest.drop b.toNat) := by
  unfold getOp
  have : b.toNat < OP_PUSHDATA1 := by unfold OP_PUSHDATA1; omega
  simp only [this, if_true]

theorem getOp_bare (b : UInt8) (rest : Bytes) (h : 79 ≤ b.toNat) :
    getOp (b :: rest) = some (b.toNat, [], rest) := by
  unfold getOp
  have h1 : ¬ b.toNat < OP_PUSHDATA1 := by unfold OP_PUSHDATA1; omega
  have h2 : (b.toNat == OP_PUSHDATA1) = false := by unfold OP_PUSHDATA1; simp; omega
  have h3 : (b.toNat == OP_PUSHDATA2) = false := by unfold OP_PUSHDATA2; simp; omega
  have h4 : (b.toNat == OP_PUSHDATA4) = false := by unfold OP_PUSHDATA4; simp; omega
  simp only [h1, h2, h3, h4, if_false, Bool.false_eq_true]


/-- two empty scripts never verify (the shortcut btcd takes in NewEngine) -/
theorem empty_scripts_fail (fl : Flags) (chk : Checker) (wit : List Bytes) :
    verifyScript fl chk [] [] wit = .error .EVAL_FALSE := by
  unfold verifyScript
  have h1 : isPushOnly [] = true := rfl
  have h2 : ∀ c : Ctx, evalScript c [] [] = .ok [] := by
    intro c; unfold evalScript; simp [evalLoop, MAX_SCRIPT_SIZE]; rfl
  simp only [h1, Bool.not_true, Bool.and_false, Bool.false_eq_true, if_false, h2, bind, Except.bind, topTrue]

/-- before taproot activation a version-1 32-byte native program is anyone-can-spend -/
theorem taproot_inactive_succeeds (fl : Flags) (chk : Checker) (wit : List Bytes) (prog : Bytes)
    (h32 : prog.length = 32) (ht : fl.taproot = false) :
    verifyWitnessProgram fl chk wit 1 prog false = .ok () := by
  unfold verifyWitnessProgram
  simp [h32, ht]

/-- witness versions 2..16 (any length) succeed unless discouraged by policy -/
theorem future_witness_version_succeeds (fl : Flags) (chk : Checker) (wit : List Bytes) (ver : Nat) (prog : Bytes)
    (p : Bool) (hv : 2 ≤ ver) (hd : fl.discourageWitnessProgram = false) :
    verifyWitnessProgram fl chk wit ver prog p = .ok () := by
  unfold verifyWitnessProgram
  have h0 : (ver == 0) = false := by simp; omega
  have h1 : (ver == 1) = false := by simp; omega
  simp [h0, h1, hd]


theorem toNat_ofNat_lt' (k : Nat) (h : k < 256) : (UInt8.ofNat k).toNat = k := by
  simp [UInt8.toNat_ofNat']; omega

/-- the canonical push of `d` tokenizes back to exactly one opcode carrying `d` -/
theorem getOp_pushData (d : Bytes) (h : d.length ≤ 65535) :
    ∃ op, getOp (pushData d) = some (op, d, []) := by
  unfold pushData
  simp only []
  by_cases h1 : d.length < OP_PUSHDATA1
  · simp only [h1, if_true]
    have hlt : d.length < 256 := by unfold OP_PUSHDATA1 at h1; omega
    refine ⟨d.length, ?_⟩
    unfold getOp
    simp only [toNat_ofNat_lt' _ hlt, h1, if_true, Nat.lt_irrefl, if_false, List.take_length, List.drop_length]
  · simp only [h1, if_false]
    by_cases h2 : d.length ≤ 0xff
    · simp only [h2, if_true]
      refine ⟨OP_PUSHDATA1, ?_⟩
      unfold getOp
      have e : (0x4c : UInt8).toNat = OP_PUSHDATA1 := rfl
      have hlt : d.length < 256 := by omega
      simp only [e, Nat.lt_irrefl, if_false, beq_self_eq_true, if_true, toNat_ofNat_lt' _ hlt, List.take_length,
        List.drop_length]
    · simp only [h2, if_false, h, if_true]
      refine ⟨OP_PUSHDATA2, ?_⟩
      unfold getOp
      have e : (0x4d : UInt8).toNat = OP_PUSHDATA2 := rfl
      have n1 : ¬ OP_PUSHDATA2 < OP_PUSHDATA1 := by decide
      have n2 : (OP_PUSHDATA2 == OP_PUSHDATA1) = false := by decide
      have hm : d.length % 256 < 256 := Nat.mod_lt _ (by decide)
      have hq : d.length / 256 < 256 := by omega
      have hsum : d.length % 256 + 256 * (d.length / 256) = d.length := Nat.mod_add_div _ _
      simp only [e, n1, n2, if_false, Bool.false_eq_true, beq_self_eq_true, if_true, toNat_ofNat_lt' _ hm,
        toNat_ofNat_lt' _ hq, hsum, Nat.lt_irrefl, List.take_length, List.drop_length]


/-- witness data on an input whose scriptPubKey is neither a witness program nor P2SH never verifies
under the WITNESS flag -/
theorem witness_unexpected (fl : Flags) (chk : Checker) (sig pk : Bytes) (wit : List Bytes)
    (hw : fl.witness = true) (hne : wit ≠ []) (hwp : witnessProgram? pk = none) (hp : isP2SH pk = false) :
    verifyScript fl chk sig pk wit ≠ .ok () := by
  intro h
  unfold verifyScript at h
  have hemp : wit.isEmpty = false := by cases wit with | nil => exact absurd rfl hne | cons _ _ => rfl
  simp only [hw, hwp, hp, hemp, Bool.and_false, Bool.false_eq_true, if_false, if_true, bind, Except.bind, pure,
    Except.pure, Bool.not_false, Bool.and_true, Bool.true_and] at h
  split at h
  · cases h
  · split at h
    · cases h
    · split at h
      · cases h
      · split at h
        · cases h
        · split at h
          · cases h
          · cases h


/-- a native witness program spent with a non-empty scriptSig never verifies under the WITNESS flag -/
theorem witness_malleated (fl : Flags) (chk : Checker) (sig pk : Bytes) (wit : List Bytes) (v : Nat) (p : Bytes)
    (hw : fl.witness = true) (hwp : witnessProgram? pk = some (v, p)) (hs : sig ≠ []) :
    verifyScript fl chk sig pk wit ≠ .ok () := by
  intro h
  unfold verifyScript at h
  have hemp : sig.isEmpty = false := by cases sig with | nil => exact absurd rfl hs | cons _ _ => rfl
  simp only [hw, hwp, hemp, if_true, bind, Except.bind, pure, Except.pure, Bool.not_false] at h
  split at h
  · cases h
  · split at h
    · cases h
    · split at h
      · cases h
      · split at h
        · cases h
        · cases h


/-- a P2SH output can only be spent with a push-only scriptSig -/
theorem p2sh_requires_push_only (fl : Flags) (chk : Checker) (sig pk : Bytes) (wit : List Bytes)
    (hp : fl.p2sh = true) (hpk : isP2SH pk = true) (hpo : isPushOnly sig = false) :
    verifyScript fl chk sig pk wit ≠ .ok () := by
  intro h
  unfold verifyScript at h
  have hwp := p2sh_not_witnessProgram pk hpk
  simp only [hp, hpk, hpo, hwp, Bool.not_false, Bool.and_true, Bool.true_and, if_true, bind, Except.bind, pure,
    Except.pure] at h
  split at h
  · cases h
  · split at h
    · cases h
    · split at h
      · cases h
      · split at h
        · cases h
        · split at h
          · cases h
          · cases h

end BV.C06.Lemmas
