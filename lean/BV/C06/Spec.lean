/-
C06 Spec: the protocol-level definitions of Bitcoin script that the interpreter (Model.lean) is built
from: limits, verification flags, error classes (Bitcoin Core's `ScriptError` names as used in
script_tests.json), the 256-entry opcode table, script numbers, truthiness, minimal pushes.
Written from Bitcoin Core's script/interpreter.cpp + script/script.h semantics. Core-only.
-/
namespace BV.C06

abbrev Bytes := List UInt8

/-! ### limits (script.h) -/
def MAX_SCRIPT_ELEMENT_SIZE : Nat := 520
def MAX_OPS_PER_SCRIPT : Nat := 201
def MAX_PUBKEYS_PER_MULTISIG : Nat := 20
def MAX_SCRIPT_SIZE : Nat := 10000
def MAX_STACK_SIZE : Nat := 1000
def LOCKTIME_THRESHOLD : Int := 500000000
def VALIDATION_WEIGHT_PER_SIGOP_PASSED : Int := 50
def VALIDATION_WEIGHT_OFFSET : Int := 50
def TAPROOT_LEAF_MASK : Nat := 0xfe
def TAPROOT_LEAF_TAPSCRIPT : Nat := 0xc0
def TAPROOT_CONTROL_BASE_SIZE : Nat := 33
def TAPROOT_CONTROL_NODE_SIZE : Nat := 32
def TAPROOT_CONTROL_MAX_NODE_COUNT : Nat := 128
def ANNEX_TAG : UInt8 := 0x50
def SEQUENCE_FINAL : Nat := 0xffffffff
def SEQUENCE_LOCKTIME_DISABLE_FLAG : Nat := 2^31
def SEQUENCE_LOCKTIME_TYPE_FLAG : Nat := 2^22
def SEQUENCE_LOCKTIME_MASK : Nat := 0xffff
/-- order of secp256k1 -/
def SECP_N : Nat := 0xFFFFFFFFFFFFFFFFFFFFFFFFFFFFFFFEBAAEDCE6AF48A03BBFD25E8CD0364141

inductive SigVer | base | witnessV0 | taproot | tapscript
  deriving DecidableEq, Repr

/-- Bitcoin Core `ScriptError`, named as in script_tests.json; `ORACLE` = the signature table of the
protocol line has no entry for a query (never produced by Core), `FUEL` = the evaluator ran out of fuel
(proved unreachable: `eval_total`). -/
inductive Err
  | UNKNOWN_ERROR | SCRIPTNUM | EVAL_FALSE | OP_RETURN | SCRIPT_SIZE | PUSH_SIZE | OP_COUNT | STACK_SIZE | SIG_COUNT
  | PUBKEY_COUNT | VERIFY | EQUALVERIFY | CHECKMULTISIGVERIFY | CHECKSIGVERIFY | NUMEQUALVERIFY
  | BAD_OPCODE | DISABLED_OPCODE | INVALID_STACK_OPERATION | INVALID_ALTSTACK_OPERATION
  | UNBALANCED_CONDITIONAL | NEGATIVE_LOCKTIME | UNSATISFIED_LOCKTIME | SIG_HASHTYPE | SIG_DER
  | MINIMALDATA | SIG_PUSHONLY | SIG_HIGH_S | SIG_NULLDUMMY | PUBKEYTYPE | CLEANSTACK | MINIMALIF
  | NULLFAIL | DISCOURAGE_UPGRADABLE_NOPS | DISCOURAGE_UPGRADABLE_WITNESS_PROGRAM
  | DISCOURAGE_UPGRADABLE_TAPROOT_VERSION | DISCOURAGE_OP_SUCCESS | DISCOURAGE_UPGRADABLE_PUBKEYTYPE
  | WITNESS_PROGRAM_WRONG_LENGTH | WITNESS_PROGRAM_WITNESS_EMPTY | WITNESS_PROGRAM_MISMATCH
  | WITNESS_MALLEATED | WITNESS_MALLEATED_P2SH | WITNESS_UNEXPECTED | WITNESS_PUBKEYTYPE
  | SCHNORR_SIG_SIZE | SCHNORR_SIG_HASHTYPE | SCHNORR_SIG | TAPROOT_WRONG_CONTROL_SIZE
  | TAPSCRIPT_VALIDATION_WEIGHT | TAPSCRIPT_CHECKMULTISIG | TAPSCRIPT_MINIMALIF | TAPSCRIPT_EMPTY_PUBKEY
  | OP_CODESEPARATOR | SIG_FINDANDDELETE
  | ORACLE (q : String) | FUEL
  deriving DecidableEq, Repr

def Err.name : Err → String
  | .UNKNOWN_ERROR => "UNKNOWN_ERROR" | .SCRIPTNUM => "SCRIPTNUM" | .EVAL_FALSE => "EVAL_FALSE" | .OP_RETURN => "OP_RETURN"
  | .SCRIPT_SIZE => "SCRIPT_SIZE" | .PUSH_SIZE => "PUSH_SIZE" | .OP_COUNT => "OP_COUNT"
  | .STACK_SIZE => "STACK_SIZE" | .SIG_COUNT => "SIG_COUNT" | .PUBKEY_COUNT => "PUBKEY_COUNT"
  | .VERIFY => "VERIFY" | .EQUALVERIFY => "EQUALVERIFY" | .CHECKMULTISIGVERIFY => "CHECKMULTISIGVERIFY"
  | .CHECKSIGVERIFY => "CHECKSIGVERIFY" | .NUMEQUALVERIFY => "NUMEQUALVERIFY" | .BAD_OPCODE => "BAD_OPCODE"
  | .DISABLED_OPCODE => "DISABLED_OPCODE" | .INVALID_STACK_OPERATION => "INVALID_STACK_OPERATION"
  | .INVALID_ALTSTACK_OPERATION => "INVALID_ALTSTACK_OPERATION"
  | .UNBALANCED_CONDITIONAL => "UNBALANCED_CONDITIONAL" | .NEGATIVE_LOCKTIME => "NEGATIVE_LOCKTIME"
  | .UNSATISFIED_LOCKTIME => "UNSATISFIED_LOCKTIME" | .SIG_HASHTYPE => "SIG_HASHTYPE" | .SIG_DER => "SIG_DER"
  | .MINIMALDATA => "MINIMALDATA" | .SIG_PUSHONLY => "SIG_PUSHONLY" | .SIG_HIGH_S => "SIG_HIGH_S"
  | .SIG_NULLDUMMY => "SIG_NULLDUMMY" | .PUBKEYTYPE => "PUBKEYTYPE" | .CLEANSTACK => "CLEANSTACK"
  | .MINIMALIF => "MINIMALIF" | .NULLFAIL => "NULLFAIL"
  | .DISCOURAGE_UPGRADABLE_NOPS => "DISCOURAGE_UPGRADABLE_NOPS"
  | .DISCOURAGE_UPGRADABLE_WITNESS_PROGRAM => "DISCOURAGE_UPGRADABLE_WITNESS_PROGRAM"
  | .DISCOURAGE_UPGRADABLE_TAPROOT_VERSION => "DISCOURAGE_UPGRADABLE_TAPROOT_VERSION"
  | .DISCOURAGE_OP_SUCCESS => "DISCOURAGE_OP_SUCCESS"
  | .DISCOURAGE_UPGRADABLE_PUBKEYTYPE => "DISCOURAGE_UPGRADABLE_PUBKEYTYPE"
  | .WITNESS_PROGRAM_WRONG_LENGTH => "WITNESS_PROGRAM_WRONG_LENGTH"
  | .WITNESS_PROGRAM_WITNESS_EMPTY => "WITNESS_PROGRAM_WITNESS_EMPTY"
  | .WITNESS_PROGRAM_MISMATCH => "WITNESS_PROGRAM_MISMATCH" | .WITNESS_MALLEATED => "WITNESS_MALLEATED"
  | .WITNESS_MALLEATED_P2SH => "WITNESS_MALLEATED_P2SH" | .WITNESS_UNEXPECTED => "WITNESS_UNEXPECTED"
  | .WITNESS_PUBKEYTYPE => "WITNESS_PUBKEYTYPE" | .SCHNORR_SIG_SIZE => "SCHNORR_SIG_SIZE"
  | .SCHNORR_SIG_HASHTYPE => "SCHNORR_SIG_HASHTYPE" | .SCHNORR_SIG => "SCHNORR_SIG"
  | .TAPROOT_WRONG_CONTROL_SIZE => "TAPROOT_WRONG_CONTROL_SIZE"
  | .TAPSCRIPT_VALIDATION_WEIGHT => "TAPSCRIPT_VALIDATION_WEIGHT"
  | .TAPSCRIPT_CHECKMULTISIG => "TAPSCRIPT_CHECKMULTISIG" | .TAPSCRIPT_MINIMALIF => "TAPSCRIPT_MINIMALIF"
  | .TAPSCRIPT_EMPTY_PUBKEY => "TAPSCRIPT_EMPTY_PUBKEY" | .OP_CODESEPARATOR => "OP_CODESEPARATOR"
  | .SIG_FINDANDDELETE => "SIG_FINDANDDELETE" | .ORACLE q => "ORACLE:" ++ q | .FUEL => "FUEL"

/-- Script verification flags (one Bool per `SCRIPT_VERIFY_*`). -/
structure Flags where
  p2sh : Bool := false
  nulldummy : Bool := false
  discourageNops : Bool := false
  cltv : Bool := false
  csv : Bool := false
  cleanstack : Bool := false
  dersig : Bool := false
  lowS : Bool := false
  minimaldata : Bool := false
  nullfail : Bool := false
  sigpushonly : Bool := false
  strictenc : Bool := false
  witness : Bool := false
  discourageWitnessProgram : Bool := false
  minimalif : Bool := false
  witnessPubkeytype : Bool := false
  taproot : Bool := false
  discourageTaprootVersion : Bool := false
  discourageOpSuccess : Bool := false
  discouragePubkeytype : Bool := false
  constScriptcode : Bool := false
  deriving DecidableEq, Repr

/-- Bit positions of the flags in the protocol line: the protocol's own numbering (the harness translates from
and to btcd's named `ScriptFlags` constants; btcd's in-memory bit values are never used). The names are the Go
constant names, for the reader only. -/
def flagBits : List (String × Nat) := [
  ("ScriptBip16", 0), ("ScriptStrictMultiSig", 1), ("ScriptDiscourageUpgradableNops", 2),
  ("ScriptVerifyCheckLockTimeVerify", 3), ("ScriptVerifyCheckSequenceVerify", 4),
  ("ScriptVerifyCleanStack", 5), ("ScriptVerifyDERSignatures", 6), ("ScriptVerifyLowS", 7),
  ("ScriptVerifyMinimalData", 8), ("ScriptVerifyNullFail", 9), ("ScriptVerifySigPushOnly", 10),
  ("ScriptVerifyStrictEncoding", 11), ("ScriptVerifyWitness", 12),
  ("ScriptVerifyDiscourageUpgradeableWitnessProgram", 13), ("ScriptVerifyMinimalIf", 14),
  ("ScriptVerifyWitnessPubKeyType", 15), ("ScriptVerifyTaproot", 16),
  ("ScriptVerifyDiscourageUpgradeableTaprootVersion", 17), ("ScriptVerifyDiscourageOpSuccess", 18),
  ("ScriptVerifyDiscourageUpgradeablePubkeyType", 19), ("ScriptVerifyConstScriptCode", 20)]

def Flags.ofNat (n : Nat) : Flags :=
  { p2sh := n.testBit 0, nulldummy := n.testBit 1, discourageNops := n.testBit 2, cltv := n.testBit 3,
    csv := n.testBit 4, cleanstack := n.testBit 5, dersig := n.testBit 6, lowS := n.testBit 7,
    minimaldata := n.testBit 8, nullfail := n.testBit 9, sigpushonly := n.testBit 10,
    strictenc := n.testBit 11, witness := n.testBit 12, discourageWitnessProgram := n.testBit 13,
    minimalif := n.testBit 14, witnessPubkeytype := n.testBit 15, taproot := n.testBit 16,
    discourageTaprootVersion := n.testBit 17, discourageOpSuccess := n.testBit 18,
    discouragePubkeytype := n.testBit 19, constScriptcode := n.testBit 20 }

/-- The relay-policy flag set (btcd `StandardVerifyFlags`, Core `STANDARD_SCRIPT_VERIFY_FLAGS`). -/
def standardFlagsNat : Nat := 2^21 - 1 - 2^10   -- everything except SIGPUSHONLY

/-! ### opcode table (value = index, name, length: 1 = bare opcode, n+1 = direct push of n bytes,
minus 1, 2, 4 = PUSHDATA with that many length bytes) -/
def opTable : List (String × Int) := [
  ("OP_0", 1),
  ("OP_DATA_1", 2),
  ("OP_DATA_2", 3),
  ("OP_DATA_3", 4),
  ("OP_DATA_4", 5),
  ("OP_DATA_5", 6),
  ("OP_DATA_6", 7),
  ("OP_DATA_7", 8),
  ("OP_DATA_8", 9),
  ("OP_DATA_9", 10),
  ("OP_DATA_10", 11),
  ("OP_DATA_11", 12),
  ("OP_DATA_12", 13),
  ("OP_DATA_13", 14),
  ("OP_DATA_14", 15),
  ("OP_DATA_15", 16),
  ("OP_DATA_16", 17),
  ("OP_DATA_17", 18),
  ("OP_DATA_18", 19),
  ("OP_DATA_19", 20),
  ("OP_DATA_20", 21),
  ("OP_DATA_21", 22),
  ("OP_DATA_22", 23),
  ("OP_DATA_23", 24),
  ("OP_DATA_24", 25),
  ("OP_DATA_25", 26),
  ("OP_DATA_26", 27),
  ("OP_DATA_27", 28),
  ("OP_DATA_28", 29),
  ("OP_DATA_29", 30),
  ("OP_DATA_30", 31),
  ("OP_DATA_31", 32),
  ("OP_DATA_32", 33),
  ("OP_DATA_33", 34),
  ("OP_DATA_34", 35),
  ("OP_DATA_35", 36),
  ("OP_DATA_36", 37),
  ("OP_DATA_37", 38),
  ("OP_DATA_38", 39),
  ("OP_DATA_39", 40),
  ("OP_DATA_40", 41),
  ("OP_DATA_41", 42),
  ("OP_DATA_42", 43),
  ("OP_DATA_43", 44),
  ("OP_DATA_44", 45),
  ("OP_DATA_45", 46),
  ("OP_DATA_46", 47),
  ("OP_DATA_47", 48),
  ("OP_DATA_48", 49),
  ("OP_DATA_49", 50),
  ("OP_DATA_50", 51),
  ("OP_DATA_51", 52),
  ("OP_DATA_52", 53),
  ("OP_DATA_53", 54),
  ("OP_DATA_54", 55),
  ("OP_DATA_55", 56),
  ("OP_DATA_56", 57),
  ("OP_DATA_57", 58),
  ("OP_DATA_58", 59),
  ("OP_DATA_59", 60),
  ("OP_DATA_60", 61),
  ("OP_DATA_61", 62),
  ("OP_DATA_62", 63),
  ("OP_DATA_63", 64),
  ("OP_DATA_64", 65),
  ("OP_DATA_65", 66),
  ("OP_DATA_66", 67),
  ("OP_DATA_67", 68),
  ("OP_DATA_68", 69),
  ("OP_DATA_69", 70),
  ("OP_DATA_70", 71),
  ("OP_DATA_71", 72),
  ("OP_DATA_72", 73),
  ("OP_DATA_73", 74),
  ("OP_DATA_74", 75),
  ("OP_DATA_75", 76),
  ("OP_PUSHDATA1", (-1)),
  ("OP_PUSHDATA2", (-2)),
  ("OP_PUSHDATA4", (-4)),
  ("OP_1NEGATE", 1),
  ("OP_RESERVED", 1),
  ("OP_1", 1),
  ("OP_2", 1),
  ("OP_3", 1),
  ("OP_4", 1),
  ("OP_5", 1),
  ("OP_6", 1),
  ("OP_7", 1),
  ("OP_8", 1),
  ("OP_9", 1),
  ("OP_10", 1),
  ("OP_11", 1),
  ("OP_12", 1),
  ("OP_13", 1),
  ("OP_14", 1),
  ("OP_15", 1),
  ("OP_16", 1),
  ("OP_NOP", 1),
  ("OP_VER", 1),
  ("OP_IF", 1),
  ("OP_NOTIF", 1),
  ("OP_VERIF", 1),
  ("OP_VERNOTIF", 1),
  ("OP_ELSE", 1),
  ("OP_ENDIF", 1),
  ("OP_VERIFY", 1),
  ("OP_RETURN", 1),
  ("OP_TOALTSTACK", 1),
  ("OP_FROMALTSTACK", 1),
  ("OP_2DROP", 1),
  ("OP_2DUP", 1),
  ("OP_3DUP", 1),
  ("OP_2OVER", 1),
  ("OP_2ROT", 1),
  ("OP_2SWAP", 1),
  ("OP_IFDUP", 1),
  ("OP_DEPTH", 1),
  ("OP_DROP", 1),
  ("OP_DUP", 1),
  ("OP_NIP", 1),
  ("OP_OVER", 1),
  ("OP_PICK", 1),
  ("OP_ROLL", 1),
  ("OP_ROT", 1),
  ("OP_SWAP", 1),
  ("OP_TUCK", 1),
  ("OP_CAT", 1),
  ("OP_SUBSTR", 1),
  ("OP_LEFT", 1),
  ("OP_RIGHT", 1),
  ("OP_SIZE", 1),
  ("OP_INVERT", 1),
  ("OP_AND", 1),
  ("OP_OR", 1),
  ("OP_XOR", 1),
  ("OP_EQUAL", 1),
  ("OP_EQUALVERIFY", 1),
  ("OP_RESERVED1", 1),
  ("OP_RESERVED2", 1),
  ("OP_1ADD", 1),
  ("OP_1SUB", 1),
  ("OP_2MUL", 1),
  ("OP_2DIV", 1),
  ("OP_NEGATE", 1),
  ("OP_ABS", 1),
  ("OP_NOT", 1),
  ("OP_0NOTEQUAL", 1),
  ("OP_ADD", 1),
  ("OP_SUB", 1),
  ("OP_MUL", 1),
  ("OP_DIV", 1),
  ("OP_MOD", 1),
  ("OP_LSHIFT", 1),
  ("OP_RSHIFT", 1),
  ("OP_BOOLAND", 1),
  ("OP_BOOLOR", 1),
  ("OP_NUMEQUAL", 1),
  ("OP_NUMEQUALVERIFY", 1),
  ("OP_NUMNOTEQUAL", 1),
  ("OP_LESSTHAN", 1),
  ("OP_GREATERTHAN", 1),
  ("OP_LESSTHANOREQUAL", 1),
  ("OP_GREATERTHANOREQUAL", 1),
  ("OP_MIN", 1),
  ("OP_MAX", 1),
  ("OP_WITHIN", 1),
  ("OP_RIPEMD160", 1),
  ("OP_SHA1", 1),
  ("OP_SHA256", 1),
  ("OP_HASH160", 1),
  ("OP_HASH256", 1),
  ("OP_CODESEPARATOR", 1),
  ("OP_CHECKSIG", 1),
  ("OP_CHECKSIGVERIFY", 1),
  ("OP_CHECKMULTISIG", 1),
  ("OP_CHECKMULTISIGVERIFY", 1),
  ("OP_NOP1", 1),
  ("OP_CHECKLOCKTIMEVERIFY", 1),
  ("OP_CHECKSEQUENCEVERIFY", 1),
  ("OP_NOP4", 1),
  ("OP_NOP5", 1),
  ("OP_NOP6", 1),
  ("OP_NOP7", 1),
  ("OP_NOP8", 1),
  ("OP_NOP9", 1),
  ("OP_NOP10", 1),
  ("OP_CHECKSIGADD", 1),
  ("OP_UNKNOWN187", 1),
  ("OP_UNKNOWN188", 1),
  ("OP_UNKNOWN189", 1),
  ("OP_UNKNOWN190", 1),
  ("OP_UNKNOWN191", 1),
  ("OP_UNKNOWN192", 1),
  ("OP_UNKNOWN193", 1),
  ("OP_UNKNOWN194", 1),
  ("OP_UNKNOWN195", 1),
  ("OP_UNKNOWN196", 1),
  ("OP_UNKNOWN197", 1),
  ("OP_UNKNOWN198", 1),
  ("OP_UNKNOWN199", 1),
  ("OP_UNKNOWN200", 1),
  ("OP_UNKNOWN201", 1),
  ("OP_UNKNOWN202", 1),
  ("OP_UNKNOWN203", 1),
  ("OP_UNKNOWN204", 1),
  ("OP_UNKNOWN205", 1),
  ("OP_UNKNOWN206", 1),
  ("OP_UNKNOWN207", 1),
  ("OP_UNKNOWN208", 1),
  ("OP_UNKNOWN209", 1),
  ("OP_UNKNOWN210", 1),
  ("OP_UNKNOWN211", 1),
  ("OP_UNKNOWN212", 1),
  ("OP_UNKNOWN213", 1),
  ("OP_UNKNOWN214", 1),
  ("OP_UNKNOWN215", 1),
  ("OP_UNKNOWN216", 1),
  ("OP_UNKNOWN217", 1),
  ("OP_UNKNOWN218", 1),
  ("OP_UNKNOWN219", 1),
  ("OP_UNKNOWN220", 1),
  ("OP_UNKNOWN221", 1),
  ("OP_UNKNOWN222", 1),
  ("OP_UNKNOWN223", 1),
  ("OP_UNKNOWN224", 1),
  ("OP_UNKNOWN225", 1),
  ("OP_UNKNOWN226", 1),
  ("OP_UNKNOWN227", 1),
  ("OP_UNKNOWN228", 1),
  ("OP_UNKNOWN229", 1),
  ("OP_UNKNOWN230", 1),
  ("OP_UNKNOWN231", 1),
  ("OP_UNKNOWN232", 1),
  ("OP_UNKNOWN233", 1),
  ("OP_UNKNOWN234", 1),
  ("OP_UNKNOWN235", 1),
  ("OP_UNKNOWN236", 1),
  ("OP_UNKNOWN237", 1),
  ("OP_UNKNOWN238", 1),
  ("OP_UNKNOWN239", 1),
  ("OP_UNKNOWN240", 1),
  ("OP_UNKNOWN241", 1),
  ("OP_UNKNOWN242", 1),
  ("OP_UNKNOWN243", 1),
  ("OP_UNKNOWN244", 1),
  ("OP_UNKNOWN245", 1),
  ("OP_UNKNOWN246", 1),
  ("OP_UNKNOWN247", 1),
  ("OP_UNKNOWN248", 1),
  ("OP_UNKNOWN249", 1),
  ("OP_SMALLINTEGER", 1),
  ("OP_PUBKEYS", 1),
  ("OP_UNKNOWN252", 1),
  ("OP_PUBKEYHASH", 1),
  ("OP_PUBKEY", 1),
  ("OP_INVALIDOPCODE", 1)
]

/-! ### opcode values used by the interpreter -/
def OP_0 : Nat := 0x00
def OP_PUSHDATA1 : Nat := 0x4c
def OP_PUSHDATA2 : Nat := 0x4d
def OP_PUSHDATA4 : Nat := 0x4e
def OP_1NEGATE : Nat := 0x4f
def OP_RESERVED : Nat := 0x50
def OP_1 : Nat := 0x51
def OP_16 : Nat := 0x60
def OP_IF : Nat := 0x63
def OP_NOTIF : Nat := 0x64
def OP_ELSE : Nat := 0x67
def OP_ENDIF : Nat := 0x68
def OP_DUP : Nat := 0x76
def OP_EQUAL : Nat := 0x87
def OP_EQUALVERIFY : Nat := 0x88
def OP_HASH160 : Nat := 0xa9
def OP_CODESEPARATOR : Nat := 0xab
def OP_CHECKSIG : Nat := 0xac

/-- Disabled opcodes (CVE-2010-5137): fail whenever they are *seen*, executed or not. -/
def isDisabled (op : Nat) : Bool :=
  op == 0x7e || op == 0x7f || op == 0x80 || op == 0x81 ||    -- CAT SUBSTR LEFT RIGHT
  op == 0x83 || op == 0x84 || op == 0x85 || op == 0x86 ||    -- INVERT AND OR XOR
  op == 0x8d || op == 0x8e ||                                -- 2MUL 2DIV
  op == 0x95 || op == 0x96 || op == 0x97 || op == 0x98 || op == 0x99  -- MUL DIV MOD LSHIFT RSHIFT

/-- BIP342 `IsOpSuccess`. -/
def isOpSuccess (op : Nat) : Bool :=
  op == 80 || op == 98 || (126 ≤ op && op ≤ 129) || (131 ≤ op && op ≤ 134) ||
  (137 ≤ op && op ≤ 138) || (141 ≤ op && op ≤ 142) || (149 ≤ op && op ≤ 153) ||
  (187 ≤ op && op ≤ 254)

/-- NOP1, NOP4..NOP10 -/
def isUpgradableNop (op : Nat) : Bool := op == 0xb0 || (0xb3 ≤ op && op ≤ 0xb9)

/-! ### truthiness and script numbers -/

/-- `CastToBool`: any non-zero byte, except that "negative zero" (…00 80) is false. -/
def castToBool : Bytes → Bool
  | [] => false
  | [b] => b != 0 && b != 0x80
  | b :: rest => b != 0 || castToBool rest

/-- little-endian magnitude of a byte string -/
def leNat : Bytes → Nat
  | [] => 0
  | b :: rest => b.toNat + 256 * leNat rest

/-- `CScriptNum::set_vch`: sign-magnitude little-endian, sign bit = top bit of the last byte. -/
def numValue (v : Bytes) : Int :=
  match v.getLast? with
  | none => 0
  | some last =>
    if last.toNat ≥ 0x80 then -((leNat v : Int) - (0x80 : Int) * 256 ^ (v.length - 1))
    else (leNat v : Int)

/-- minimal encoding rule of `CScriptNum(vch, fRequireMinimal)`: if the last byte carries no magnitude bits
(`& 0x7f == 0`, i.e. it is 0x00 or 0x80) then the byte before it must have its top bit set -/
def isMinimalNum (v : Bytes) : Bool :=
  match v.reverse with
  | [] => true
  | last :: rest =>
    if last == 0x00 || last == 0x80 then
      match rest with
      | [] => false
      | prev :: _ => decide (prev.toNat ≥ 0x80)
    else true

def natLEBytes : Nat → Nat → Bytes
  | 0, _ => []
  | fuel + 1, n => if n == 0 then [] else UInt8.ofNat (n % 256) :: natLEBytes fuel (n / 256)

/-- `CScriptNum::serialize` -/
def encodeNum (n : Int) : Bytes :=
  if n == 0 then [] else
  let mag := natLEBytes 9 n.natAbs
  match mag.getLast? with
  | none => []
  | some last =>
    if last.toNat ≥ 0x80 then mag ++ [if n < 0 then 0x80 else 0x00]
    else if n < 0 then mag.dropLast ++ [UInt8.ofNat (last.toNat + 0x80)] else mag

/-- `CheckMinimalPush(data, opcode)` -/
def checkMinimalPush (op : Nat) (data : Bytes) : Bool :=
  match data with
  | [] => op == OP_0
  | [b] =>
    if 1 ≤ b.toNat && b.toNat ≤ 16 then false     -- should have used OP_1..OP_16
    else if b == 0x81 then false                   -- should have used OP_1NEGATE
    else op == 1
  | _ =>
    if data.length ≤ 75 then op == data.length
    else if data.length ≤ 255 then op == OP_PUSHDATA1
    else if data.length ≤ 65535 then op == OP_PUSHDATA2
    else true

end BV.C06
