/-
C04 — Lemmas, part 5: start-up (`recover`) on an image that satisfies the invariant.
-/
import BV.C04.Lemmas4
namespace BV.C04

variable {A : UtxoAlg}

theorem markValid_spec {base : Image A} (l : List Chain) : ∀ (nd : Node A), Core base nd →
    (∀ a, a ∈ l → a ∈ keys nd.index) →
    Core base (markValid nd l) ∧ Ext nd (markValid nd l) ∧ Frame nd (markValid nd l) := by
  induction l with
  | nil => intro nd h _; exact ⟨h, Ext.refl nd, Frame.refl nd⟩
  | cons a rest ih =>
    intro nd h hall
    simp only [markValid]
    by_cases hv : (statusOf nd.index a).valid = true
    · rw [if_pos hv]
      exact ih nd h (fun x hx => hall x (by simp [hx]))
    · rw [if_neg hv]
      obtain ⟨c1, e1, _⟩ := core_setStatus h { statusOf nd.index a with valid := true }
        (Or.inl (hall a (by simp)))
      obtain ⟨c2, e2, f2⟩ := ih _ c1 (fun x hx => e1.2.1 _ (hall x (by simp [hx])))
      exact ⟨c2, Ext.trans e1 e2, Frame.trans (⟨rfl, rfl, rfl⟩ : Frame nd (setStatus nd a _)) f2⟩

theorem flushIfNeeded_eff (cfg : Cfg) (nd : Node A) (a : Chain) :
    effMarker (flushIfNeeded cfg nd a).img = effMarker nd.img ∨ effMarker (flushIfNeeded cfg nd a).img = a := by
  unfold flushIfNeeded
  split
  · exact Or.inl rfl
  · split
    · exact Or.inr rfl
    · exact Or.inl rfl

theorem flushDirty_img_utxo (nd : Node A) : (flushDirty nd).img.utxo = nd.img.utxo := by
  unfold flushDirty; split <;> rfl

theorem replayBlocks_spec {base : Image A} (cfg : Cfg) (bs : List Blk) : ∀ (cur : Chain) (nd : Node A),
    Core base nd → nd.img.marker ≠ none → nd.utxo = utxoOf A cur →
    (effMarker nd.img).length ≤ cur.length → bs.reverse ++ cur = nd.tip →
    ∃ nd', replayBlocks cfg bs cur nd = .ok nd' ∧ Core base nd' ∧ nd'.img.marker ≠ none ∧
      nd'.utxo = utxoOf A nd'.tip ∧ nd'.tip = nd.tip ∧ Ext nd nd' := by
  induction bs with
  | nil =>
    intro cur nd h hm hu _ ht
    have : cur = nd.tip := by simpa using ht
    subst this
    exact ⟨nd, rfl, h, hm, hu, rfl, Ext.refl nd⟩
  | cons b rest ih =>
    intro cur nd h hm hu hl ht
    have ht' : rest.reverse ++ (b :: cur) = nd.tip := by rw [← ht]; simp
    have hsuf : (b :: cur) <:+ nd.tip := ⟨rest.reverse, ht'⟩
    have hst : (b :: cur) ∈ nd.img.stored :=
      h.inv.between _ (h.tip_eq ▸ hsuf) (by simp; omega)
    simp only [replayBlocks]
    rw [if_neg (fun hh => hh hst)]
    obtain ⟨c1, e1⟩ := core_flushIfNeeded cfg (nd := { nd with utxo := A.conn b nd.utxo })
      (core_with_utxo h _) (at_ := b :: cur) hsuf (by simp; omega)
      (by show A.conn b nd.utxo = utxoOf A (b :: cur); rw [hu]; rfl)
    have hl' : (effMarker (flushIfNeeded cfg { nd with utxo := A.conn b nd.utxo } (b :: cur)).img).length
        ≤ (b :: cur).length := by
      rcases flushIfNeeded_eff cfg { nd with utxo := A.conn b nd.utxo } (b :: cur) with h1 | h1
      · rw [h1]; show (effMarker nd.img).length ≤ _; simp; omega
      · rw [h1]; exact Nat.le_refl _
    obtain ⟨nd', r, c2, m2, u2, t2, e2⟩ := ih (b :: cur) _ c1 (e1.2.2.1 hm)
      (by rw [flushIfNeeded_utxo]; show A.conn b nd.utxo = utxoOf A (b :: cur); rw [hu]; rfl)
      hl' (by rw [flushIfNeeded_tip]; exact ht')
    refine ⟨nd', r, c2, m2, u2, ?_, ?_⟩
    · rw [t2, flushIfNeeded_tip]
    · exact Ext.trans (show Ext nd (flushIfNeeded cfg { nd with utxo := A.conn b nd.utxo } (b :: cur)) from e1) e2

theorem core_with_lastFlush {base : Image A} {nd : Node A} (h : Core base nd) (l : Option Chain) :
    Core base { nd with lastFlush := l } :=
  ⟨h.img_eq, h.sound, h.created, h.tip_eq, h.idx_closed, h.idx_rows, h.dirty_idx⟩

theorem initConsistent_spec {base : Image A} {nd : Node A} (cfg : Cfg) (h : Core base nd)
    (hu : nd.utxo = nd.img.utxo) (htip : nd.tip ∈ keys nd.index) :
    ∃ nd', initConsistent cfg nd = .ok nd' ∧ Good base nd' ∧ nd'.tip = nd.tip ∧ Ext nd nd' := by
  have hi := h.inv
  unfold initConsistent
  cases hmk : nd.img.marker with
  | none =>
    simp only
    have hb : nd.tip = [] := by rw [← h.tip_eq]; exact hi.marker_none hmk
    have he : effMarker nd.img = [] := by simp [effMarker, hmk]
    obtain ⟨c1, e1⟩ := core_step (nd' := { emit nd (.setMarker nd.tip) with lastFlush := some nd.tip })
      h (c := .setMarker nd.tip) ⟨hmk, hb⟩ rfl rfl rfl rfl rfl h.tip_eq
    refine ⟨_, rfl, ⟨c1, ?_, by simp [emit, apply]⟩, rfl, e1⟩
    show nd.utxo = utxoOf A nd.tip
    rw [hu, hi.utxo_eq, he, hb]
  | some m =>
    simp only
    have he : effMarker nd.img = m := by simp [effMarker, hmk]
    have hm_anc : m <:+ nd.tip := by rw [← he, ← h.tip_eq]; exact hi.marker_anc
    have hmsome : nd.img.marker ≠ none := by rw [hmk]; simp
    by_cases hmt : m = nd.tip
    · rw [if_pos hmt]
      refine ⟨_, rfl, ⟨core_with_lastFlush h _, ?_, hmsome⟩, rfl, ⟨fun _ hx => hx, fun _ hx => hx, fun hh => hh, fun _ hx => hx, List.prefix_refl _⟩⟩
      show nd.utxo = utxoOf A nd.tip
      rw [hu, hi.utxo_eq, he, hmt]
    · rw [if_neg hmt]
      have hmi : m ∈ keys nd.index := closed_suffix h.idx_closed htip hm_anc
      rw [if_neg (fun hh => hh hmi)]
      rw [forkOf_of_suffix hm_anc]
      obtain ⟨nd', r, c2, m2, u2, t2, e2⟩ := replayBlocks_spec cfg (blocksAbove nd.tip m.length) m
        { nd with lastFlush := some m } (core_with_lastFlush h _) hmsome
        (by show nd.utxo = _; rw [hu, hi.utxo_eq, he]) (by show (effMarker nd.img).length ≤ _; rw [he]; exact Nat.le_refl _)
        (blocksAbove_append hm_anc)
      exact ⟨nd', r, ⟨c2, u2, m2⟩, t2, e2⟩

theorem sound_nil {base : Image A} (h : Inv' base) : Sound base [] := by
  intro k
  have : (([] : List (Commit A)).take k) = [] := by cases k <;> rfl
  rw [this]
  exact ⟨h, fun hb => hb⟩

theorem recover_spec {img : Image A} (cfg : Cfg) (hi : Inv img) :
    ∃ rn, recover cfg img = .ok rn ∧ Good img rn ∧ rn.tip = img.best ∧
      (∀ x, x ∈ keys img.rows → x ∈ keys rn.index) := by
  unfold recover
  simp only [hi.created, Bool.not_true, Bool.false_eq_true, if_false]
  have hany : (img.rows.any (fun e => e.1 ≠ [] && e.1.tail ∉ keys img.rows)) = false := by
    rw [Bool.eq_false_iff]
    intro hh
    rw [List.any_eq_true] at hh
    obtain ⟨e, he, hp⟩ := hh
    have hk : e.1 ∈ keys img.rows := List.mem_map_of_mem he
    have := hi.rows_closed _ hk
    simp [this] at hp
  rw [if_neg (by rw [hany]; simp)]
  rw [if_neg (fun hh => hh hi.tip_row)]
  rw [if_neg (fun hh => hh hi.tip_stored)]
  have c0 : Core img (bootNode img img.rows img.best) :=
    { img_eq := rfl
      sound := sound_nil (Or.inr hi)
      created := hi.created
      tip_eq := rfl
      idx_closed := hi.rows_closed
      idx_rows := fun n hn => Or.inl hn
      dirty_idx := fun n hn => by simp [bootNode] at hn }
  obtain ⟨c1, e1, f1⟩ := markValid_spec (suffixes img.best) _ c0
    (fun a ha => closed_suffix hi.rows_closed hi.tip_row (mem_suffixes.mp ha))
  obtain ⟨c2, e2⟩ := core_flushDirty c1
  obtain ⟨c3, e3⟩ := core_step
    (nd' := emit (flushDirty (markValid (bootNode img img.rows img.best) (suffixes img.best))) .nop)
    c2 (c := .nop) trivial rfl rfl rfl rfl rfl c2.tip_eq
  have e03 := Ext.trans e1 (Ext.trans e2 e3)
  have hu3 : (emit (flushDirty (markValid (bootNode img img.rows img.best) (suffixes img.best))) .nop).utxo
      = (emit (flushDirty (markValid (bootNode img img.rows img.best) (suffixes img.best))) .nop).img.utxo := by
    show (flushDirty _).utxo = (flushDirty _).img.utxo
    rw [flushDirty_utxo, flushDirty_img_utxo, f1.2.1, f1.2.2]; rfl
  have ht3 : (emit (flushDirty (markValid (bootNode img img.rows img.best) (suffixes img.best))) .nop).tip
      = img.best := by
    show (flushDirty _).tip = img.best
    rw [flushDirty_tip, f1.1]; rfl
  obtain ⟨rn, r, g, t, e4⟩ := initConsistent_spec cfg c3 hu3
    (by rw [ht3]; exact e03.2.1 _ hi.tip_row)
  exact ⟨rn, r, g, by rw [t, ht3], fun x hx => e4.2.1 _ (e03.2.1 _ hx)⟩

/-- `blockchain.New` on an empty directory. -/
theorem recover_empty_spec (cfg : Cfg) :
    ∃ nd0 : Node A, recover cfg (Image.empty A) = .ok nd0 ∧ Good (Image.empty A) nd0 ∧ nd0.tip = [] := by
  unfold recover
  have hcr : (Image.empty A).created = false := rfl
  simp only [hcr, Bool.not_false, if_true]
  have c0 : Core (Image.empty A) (emit (bootNode (Image.empty A) [([], genesisStatus)] []) .create) :=
    { img_eq := rfl
      sound := sound_snoc (sound_nil (Or.inl rfl)) (show Safe' (replay (Image.empty A) []) .create from rfl) rfl
      created := rfl
      tip_eq := rfl
      idx_closed := by
        intro n hn
        have : n = [] := by simpa [emit, keys, bootNode] using hn
        subst this; exact hn
      idx_rows := by
        intro n hn
        have : n = [] := by simpa [emit, keys, bootNode] using hn
        subst this
        left; simp [emit, apply, Image.empty, upsert, keys, bootNode]
      dirty_idx := fun n hn => by simp [emit, bootNode] at hn }
  obtain ⟨c1, e1⟩ := core_step
    (nd' := emit (emit (bootNode (Image.empty A) [([], genesisStatus)] []) .create) .nop)
    c0 (c := .nop) trivial rfl rfl rfl rfl rfl c0.tip_eq
  obtain ⟨rn, r, g, t, _⟩ := initConsistent_spec cfg c1 rfl (by simp [emit, keys, bootNode])
  exact ⟨rn, r, g, t⟩

end BV.C04
