/-
C04 — Lemmas, part 2: the running node only ever makes safe commits.
-/
import BV.C04.Lemmas
namespace BV.C04

variable {A : UtxoAlg}

/-- Every prefix of the log, replayed on the base image, is a legal crash image. -/
def Sound (base : Image A) (log : List (Commit A)) : Prop :=
  ∀ k, Inv' (replay base (log.take k)) ∧ (JI base → JI (replay base (log.take k)))

theorem replay_snoc (base : Image A) (log : List (Commit A)) (c : Commit A) :
    replay base (log ++ [c]) = apply (replay base log) c := by
  simp [replay, List.foldl_append]

theorem sound_snoc {base : Image A} {log : List (Commit A)} {c : Commit A}
    (h : Sound base log) (hs : Safe' (replay base log) c) (hnp : isPrune c = false) :
    Sound base (log ++ [c]) := by
  intro k
  by_cases hk : k ≤ log.length
  · rw [List.take_append_of_le_length hk]; exact h k
  · have h1 : (log ++ [c]).take k = log ++ [c] := List.take_of_length_le (by simp; omega)
    rw [h1, replay_snoc]
    have h2 := h log.length
    rw [List.take_length] at h2
    exact ⟨safe_preserves' h2.1 hs, fun hb => ji_preserves (h2.2 hb) hs hnp⟩

theorem safe'_of {img : Image A} {c : Commit A} (hc : img.created = true) (hs : Safe img c) : Safe' img c := by
  cases c with
  | create => exact absurd hs (by simp [Safe])
  | nop => trivial
  | setMarker m => exact ⟨hc, hs⟩
  | storeBlock n => exact ⟨hc, hs⟩
  | indexRows rs => exact ⟨hc, hs⟩
  | connect n fl => exact ⟨hc, hs⟩
  | connectPrune n ps fl => exact ⟨hc, hs⟩
  | disconnect n u => exact ⟨hc, hs⟩
  | utxoFlush u m => exact ⟨hc, hs⟩

/-! ### monotone parts of an image -/

theorem apply_created {img : Image A} (c : Commit A) (h : img.created = true) : (apply img c).created = true := by
  cases c with
  | connect n fl => cases fl <;> exact h
  | connectPrune n ps fl => cases fl <;> exact h
  | create => rfl
  | _ => exact h

theorem apply_stored_mono {img : Image A} (c : Commit A) (hnp : isPrune c = false) {x : Chain}
    (h : x ∈ img.stored) : x ∈ (apply img c).stored := by
  cases c with
  | connect n fl => cases fl <;> exact h
  | connectPrune n ps fl => simp [isPrune] at hnp
  | create => exact List.mem_cons_of_mem _ h
  | storeBlock n => exact List.mem_cons_of_mem _ h
  | _ => exact h

theorem apply_rows_mono {img : Image A} (c : Commit A) {x : Chain} (h : x ∈ keys img.rows) :
    x ∈ keys (apply img c).rows := by
  cases c with
  | connect n fl => cases fl <;> exact h
  | connectPrune n ps fl => cases fl <;> exact h
  | create => exact mem_keys_upsert.mpr (Or.inr h)
  | indexRows rs => exact (mem_keys_foldl_upsert rs img.rows x).mpr (Or.inl h)
  | _ => exact h

theorem apply_marker_some {img : Image A} (c : Commit A) (h : img.marker ≠ none) : (apply img c).marker ≠ none := by
  cases c with
  | connect n fl => cases fl with
    | none => exact h
    | some u => simp [apply]
  | connectPrune n ps fl => cases fl with
    | none => exact h
    | some u => simp [apply]
  | setMarker m => simp [apply]
  | disconnect n u => simp [apply]
  | utxoFlush u m => simp [apply]
  | _ => exact h

/-! ### the coupling between memory and image -/

structure Core (base : Image A) (nd : Node A) : Prop where
  img_eq : nd.img = replay base nd.log
  sound : Sound base nd.log
  created : nd.img.created = true
  tip_eq : nd.img.best = nd.tip
  idx_closed : ∀ n, n ∈ keys nd.index → n.tail ∈ keys nd.index
  idx_rows : ∀ n, n ∈ keys nd.index → n ∈ keys nd.img.rows ∨ n ∈ nd.dirty
  dirty_idx : ∀ n, n ∈ nd.dirty → n ∈ keys nd.index

theorem Core.inv {base : Image A} {nd : Node A} (h : Core base nd) : Inv nd.img := by
  have h1 := (h.sound nd.log.length).1
  rw [List.take_length, ← h.img_eq] at h1
  exact inv_of_inv' h1 h.created

/-- Things that only grow. -/
def Ext (nd nd' : Node A) : Prop :=
  (∀ x, x ∈ nd.img.stored → x ∈ nd'.img.stored) ∧ (∀ x, x ∈ keys nd.index → x ∈ keys nd'.index) ∧
  (nd.img.marker ≠ none → nd'.img.marker ≠ none) ∧
  (∀ x, x ∈ keys nd.img.rows → x ∈ keys nd'.img.rows) ∧ nd.log <+: nd'.log

theorem Ext.refl (nd : Node A) : Ext nd nd :=
  ⟨fun _ h => h, fun _ h => h, fun h => h, fun _ h => h, List.prefix_refl _⟩

theorem Ext.trans {a b c : Node A} (h1 : Ext a b) (h2 : Ext b c) : Ext a c :=
  ⟨fun x h => h2.1 x (h1.1 x h), fun x h => h2.2.1 x (h1.2.1 x h), fun h => h2.2.2.1 (h1.2.2.1 h),
   fun x h => h2.2.2.2.1 x (h1.2.2.2.1 x h), List.IsPrefix.trans h1.2.2.2.2 h2.2.2.2.2⟩

theorem core_step {base : Image A} {nd nd' : Node A} {c : Commit A} (h : Core base nd)
    (hs : Safe nd.img c) (hnp : isPrune c = false)
    (himg : nd'.img = apply nd.img c) (hlog : nd'.log = nd.log ++ [c])
    (hidx : nd'.index = nd.index) (hdirty : nd'.dirty = nd.dirty)
    (htip : nd'.img.best = nd'.tip) : Core base nd' ∧ Ext nd nd' := by
  refine ⟨?_, ?_⟩
  · exact { img_eq := by rw [himg, hlog, replay_snoc, h.img_eq]
            sound := by
              rw [hlog]
              exact sound_snoc h.sound (by rw [← h.img_eq]; exact safe'_of h.created hs) hnp
            created := by rw [himg]; exact apply_created c h.created
            tip_eq := htip
            idx_closed := by rw [hidx]; exact h.idx_closed
            idx_rows := by
              intro n hn
              rw [hidx] at hn
              rcases h.idx_rows n hn with h1 | h1
              · left; rw [himg]; exact apply_rows_mono c h1
              · right; rw [hdirty]; exact h1
            dirty_idx := by rw [hidx, hdirty]; exact h.dirty_idx }
  · refine ⟨?_, ?_, ?_, ?_, ?_⟩
    · intro x hx; rw [himg]; exact apply_stored_mono c hnp hx
    · intro x hx; rw [hidx]; exact hx
    · intro hm; rw [himg]; exact apply_marker_some c hm
    · intro x hx; rw [himg]; exact apply_rows_mono c hx
    · rw [hlog]; exact List.prefix_append _ _

/-! ### flushDirty -/

theorem keys_dirty_rows (nd : Node A) :
    keys (nd.dirty.map (fun c => (c, statusOf nd.index c))) = nd.dirty := by
  simp [keys, List.map_map, Function.comp_def]

theorem core_flushDirty {base : Image A} {nd : Node A} (h : Core base nd) :
    Core base (flushDirty nd) ∧ Ext nd (flushDirty nd) := by
  unfold flushDirty
  by_cases hd : nd.dirty = []
  · simp only [hd, if_true]; exact ⟨h, Ext.refl nd⟩
  · simp only [hd, if_false]
    have hs : Safe nd.img (.indexRows (nd.dirty.map (fun c => (c, statusOf nd.index c)))) := by
      intro c hc
      rw [keys_dirty_rows] at hc ⊢
      exact h.idx_rows _ (h.idx_closed _ (h.dirty_idx _ hc))
    refine ⟨?_, ?_⟩
    · exact { img_eq := by simp only [emit]; rw [replay_snoc, h.img_eq]
              sound := by
                simp only [emit]
                exact sound_snoc h.sound (by rw [← h.img_eq]; exact safe'_of h.created hs) rfl
              created := by simp only [emit]; exact apply_created _ h.created
              tip_eq := h.tip_eq
              idx_closed := h.idx_closed
              idx_rows := by
                intro n hn
                left
                show n ∈ keys (List.foldl _ nd.img.rows _)
                rw [mem_keys_foldl_upsert, keys_dirty_rows]
                exact h.idx_rows n hn
              dirty_idx := by intro n hn; simp [emit] at hn }
    · exact ⟨fun x hx => hx, fun x hx => hx, fun hm => hm,
        fun x hx => (mem_keys_foldl_upsert _ _ x).mpr (Or.inl hx), List.prefix_append _ _⟩

theorem flushDirty_tip (nd : Node A) : (flushDirty nd).tip = nd.tip := by
  unfold flushDirty; split <;> rfl
theorem flushDirty_utxo (nd : Node A) : (flushDirty nd).utxo = nd.utxo := by
  unfold flushDirty; split <;> rfl
theorem flushDirty_index (nd : Node A) : (flushDirty nd).index = nd.index := by
  unfold flushDirty; split <;> rfl
theorem flushDirty_dirty (nd : Node A) : (flushDirty nd).dirty = [] := by
  unfold flushDirty; split
  · assumption
  · rfl
theorem flushDirty_stored (nd : Node A) : (flushDirty nd).img.stored = nd.img.stored := by
  unfold flushDirty; split <;> rfl
theorem flushDirty_marker (nd : Node A) : (flushDirty nd).img.marker = nd.img.marker := by
  unfold flushDirty; split <;> rfl
theorem flushDirty_lastFlush (nd : Node A) : (flushDirty nd).lastFlush = nd.lastFlush := by
  unfold flushDirty; split <;> rfl

/-- After a flush every index entry has a row. -/
theorem rows_of_flushed {base : Image A} {nd : Node A} (h : Core base nd) (hd : nd.dirty = []) {n : Chain}
    (hn : n ∈ keys nd.index) : n ∈ keys nd.img.rows := by
  rcases h.idx_rows n hn with h1 | h1
  · exact h1
  · rw [hd] at h1; simp at h1

/-! ### setStatus -/

theorem core_setStatus {base : Image A} {nd : Node A} (h : Core base nd) {a : Chain} (s : Status)
    (ha : a ∈ keys nd.index ∨ a.tail ∈ keys nd.index) :
    Core base (setStatus nd a s) ∧ Ext nd (setStatus nd a s) ∧ a ∈ keys (setStatus nd a s).index := by
  refine ⟨?_, ⟨fun x hx => hx, fun x hx => mem_keys_upsert.mpr (Or.inr hx), fun hm => hm, fun x hx => hx,
      List.prefix_refl _⟩,
    mem_keys_upsert.mpr (Or.inl rfl)⟩
  exact { img_eq := h.img_eq
          sound := h.sound
          created := h.created
          tip_eq := h.tip_eq
          idx_closed := by
            intro n hn
            have hn' : n ∈ keys (upsert nd.index a s) := hn
            show n.tail ∈ keys (upsert nd.index a s)
            rw [mem_keys_upsert] at hn' ⊢
            rcases hn' with h1 | h1
            · subst h1
              rcases ha with h2 | h2
              · exact Or.inr (h.idx_closed _ h2)
              · exact Or.inr h2
            · exact Or.inr (h.idx_closed _ h1)
          idx_rows := by
            intro n hn
            have hn' : n ∈ keys (upsert nd.index a s) := hn
            rw [mem_keys_upsert] at hn'
            show n ∈ keys nd.img.rows ∨ n ∈ (if a ∈ nd.dirty then nd.dirty else nd.dirty ++ [a])
            rcases hn' with h1 | h1
            · subst h1
              right
              by_cases hd : n ∈ nd.dirty
              · simp [hd]
              · simp [hd]
            · rcases h.idx_rows n h1 with h2 | h2
              · exact Or.inl h2
              · right
                by_cases hd : a ∈ nd.dirty
                · simp [hd, h2]
                · simp [hd, h2]
          dirty_idx := by
            intro n hn
            have hn' : n ∈ (if a ∈ nd.dirty then nd.dirty else nd.dirty ++ [a]) := hn
            show n ∈ keys (upsert nd.index a s)
            rw [mem_keys_upsert]
            by_cases hd : a ∈ nd.dirty
            · simp only [hd, if_true] at hn'
              exact Or.inr (h.dirty_idx _ hn')
            · simp only [hd, if_false, List.mem_append, List.mem_singleton] at hn'
              rcases hn' with h1 | h1
              · exact Or.inr (h.dirty_idx _ h1)
              · exact Or.inl h1 }

/-! ### utxo flushes -/

theorem core_flushIfNeeded {base : Image A} {nd : Node A} (cfg : Cfg) (h : Core base nd) {at_ : Chain}
    (h1 : at_ <:+ nd.tip) (h2 : (effMarker nd.img).length ≤ at_.length) (h3 : nd.utxo = utxoOf A at_) :
    Core base (flushIfNeeded cfg nd at_) ∧ Ext nd (flushIfNeeded cfg nd at_) := by
  unfold flushIfNeeded
  have hnop : Core base (emit nd .nop) ∧ Ext nd (emit nd .nop) :=
    core_step h (c := .nop) trivial rfl rfl rfl rfl rfl h.tip_eq
  split
  · exact hnop
  · split
    · exact core_step h (c := .utxoFlush nd.utxo at_) ⟨h.tip_eq ▸ h1, h2, h3⟩ rfl rfl rfl rfl rfl h.tip_eq
    · exact hnop

theorem flushIfNeeded_tip (cfg : Cfg) (nd : Node A) (a : Chain) : (flushIfNeeded cfg nd a).tip = nd.tip := by
  unfold flushIfNeeded; split
  · rfl
  · split <;> rfl
theorem flushIfNeeded_utxo (cfg : Cfg) (nd : Node A) (a : Chain) : (flushIfNeeded cfg nd a).utxo = nd.utxo := by
  unfold flushIfNeeded; split
  · rfl
  · split <;> rfl
theorem flushIfNeeded_best (cfg : Cfg) (nd : Node A) (a : Chain) : (flushIfNeeded cfg nd a).img.best = nd.img.best := by
  unfold flushIfNeeded; split
  · rfl
  · split <;> rfl

theorem core_flushRequired {base : Image A} {nd : Node A} (h : Core base nd) (h3 : nd.utxo = utxoOf A nd.tip) :
    Core base (flushRequired nd) ∧ Ext nd (flushRequired nd) := by
  unfold flushRequired
  exact core_step h (c := .utxoFlush nd.utxo nd.tip)
    ⟨h.tip_eq ▸ List.suffix_refl _, by
      have := List.IsSuffix.length_le h.inv.marker_anc
      rw [h.tip_eq] at this; exact this, h3⟩ rfl rfl rfl rfl rfl h.tip_eq

end BV.C04
