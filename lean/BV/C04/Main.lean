import BV.Common.Loop
import BV.C04.Driver
/-! `drv_c04`: one case per input line `C04 <op> <args…>`, one canonical result line back.
Imports only core-only modules so that it links as a native executable. -/
def main : IO Unit := BV.Loop.run "C04" BV.C04.Driver.handle
