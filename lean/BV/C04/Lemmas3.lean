/-
C04 — Lemmas, part 3: chains (suffixes, fork point), connect and disconnect.
-/
import BV.C04.Lemmas2
namespace BV.C04

variable {A : UtxoAlg}

/-! ### chains -/

theorem mem_suffixes {s a : Chain} : s ∈ suffixes a ↔ s <:+ a := by
  induction a with
  | nil => simp [suffixes]
  | cons b t ih =>
    simp only [suffixes, List.mem_cons, ih]
    exact List.suffix_cons_iff.symm

theorem forkOf_suffix_left (a b : Chain) : forkOf a b <:+ a := by
  unfold forkOf
  cases h : (suffixes a).find? (fun s => s.isSuffixOf b) with
  | none => exact List.nil_suffix
  | some s => exact mem_suffixes.mp (List.mem_of_find?_eq_some h)

theorem forkOf_suffix_right (a b : Chain) : forkOf a b <:+ b := by
  unfold forkOf
  cases h : (suffixes a).find? (fun s => s.isSuffixOf b) with
  | none => exact List.nil_suffix
  | some s =>
    have := List.find?_some h
    simpa using this

theorem forkOf_of_suffix {m t : Chain} (h : m <:+ t) : forkOf t m = m := by
  unfold forkOf
  induction t with
  | nil =>
    have : m = [] := List.suffix_nil.mp h
    subst this
    simp [suffixes]
  | cons b t ih =>
    simp only [suffixes, List.find?_cons]
    by_cases hb : (b :: t).isSuffixOf m = true
    · simp only [hb]
      have h1 : (b :: t) <:+ m := by simpa using hb
      have : m = b :: t := List.IsSuffix.eq_of_length_le h (List.IsSuffix.length_le h1)
      simp [this]
    · have hb' : (b :: t).isSuffixOf m = false := Bool.eq_false_iff.mpr hb
      simp only [hb']
      rcases List.suffix_cons_iff.mp h with h1 | h1
      · exfalso; apply hb; subst h1; simp
      · exact ih h1

theorem suffix_drop {s a : Chain} (h : s <:+ a) : a.drop (a.length - s.length) = s := by
  obtain ⟨pre, rfl⟩ := h
  simp

theorem suffix_take_append {s a : Chain} (h : s <:+ a) : a.take (a.length - s.length) ++ s = a := by
  have := List.take_append_drop (a.length - s.length) a
  rw [suffix_drop h] at this
  exact this

theorem blocksAbove_append {f n : Chain} (h : f <:+ n) : (blocksAbove n f.length).reverse ++ f = n := by
  unfold blocksAbove
  rw [List.reverse_reverse]
  exact suffix_take_append h

theorem chainsOn_suffix {a cur : Chain} {bs : List Blk} (h : a ∈ chainsOn cur bs) :
    a <:+ bs.reverse ++ cur := by
  induction bs generalizing cur with
  | nil => simp [chainsOn] at h
  | cons b rest ih =>
    simp only [chainsOn, List.mem_cons] at h
    have e : (b :: rest).reverse ++ cur = rest.reverse ++ (b :: cur) := by simp
    rw [e]
    rcases h with h | h
    · subst h; exact List.suffix_append _ _
    · exact ih h

theorem closed_suffix {r : Rows} (hc : ∀ n, n ∈ keys r → n.tail ∈ keys r) {n s : Chain}
    (hn : n ∈ keys r) (hs : s <:+ n) : s ∈ keys r := by
  induction n with
  | nil =>
    have : s = [] := List.suffix_nil.mp hs
    subst this; exact hn
  | cons b t ih =>
    rcases List.suffix_cons_iff.mp hs with h | h
    · subst h; exact hn
    · exact ih (hc _ hn) h

/-! ### Good nodes -/

structure Good (base : Image A) (nd : Node A) : Prop where
  core : Core base nd
  utxo_eq : nd.utxo = utxoOf A nd.tip
  marker_some : nd.img.marker ≠ none

theorem core_with_utxo {base : Image A} {nd : Node A} (h : Core base nd) (u : A.U) :
    Core base { nd with utxo := u } :=
  ⟨h.img_eq, h.sound, h.created, h.tip_eq, h.idx_closed, h.idx_rows, h.dirty_idx⟩

theorem connectBlock_spec {base : Image A} {nd : Node A} (cfg : Cfg) (hp : cfg.prune = none) {n : Chain}
    (h : Core base nd)
    (hm : nd.img.marker ≠ none) (hn : n ∈ nd.img.stored) (hi : n ∈ keys nd.index)
    (hu : nd.utxo = utxoOf A n) :
    ((connectBlock cfg nd n).2 = true →
        Good base (connectBlock cfg nd n).1 ∧ (connectBlock cfg nd n).1.tip = n ∧
        Ext nd (connectBlock cfg nd n).1) ∧
    ((connectBlock cfg nd n).2 = false → (connectBlock cfg nd n).1 = nd) ∧
    (n ≠ [] → n.tail = nd.tip → (connectBlock cfg nd n).2 = true) := by
  unfold connectBlock
  by_cases hc : n = [] ∨ n.tail ≠ nd.tip
  · simp only [hc, if_true]
    refine ⟨fun h => absurd h (by simp), fun _ => trivial, ?_⟩
    intro h1 h2
    rcases hc with h3 | h3
    · exact absurd h3 h1
    · exact absurd h2 h3
  · simp only [hc, if_false, hp, if_true]
    have hc1 : n ≠ [] := fun e => hc (Or.inl e)
    have hc2 : n.tail = nd.tip := by
      by_cases e : n.tail = nd.tip
      · exact e
      · exact absurd (Or.inr e) hc
    refine ⟨fun _ => ?_, fun h => absurd h (by simp), fun _ _ => trivial⟩
    obtain ⟨c1, e1⟩ := core_flushDirty h
    have hs : Safe (flushDirty nd).img (.connect n none) := by
      refine ⟨hc1, ?_, ?_, ?_, ?_⟩
      · rw [c1.tip_eq, flushDirty_tip]; exact hc2
      · rw [flushDirty_stored]; exact hn
      · exact rows_of_flushed c1 (flushDirty_dirty nd) (by rw [flushDirty_index]; exact hi)
      · rw [flushDirty_marker]; exact hm
    obtain ⟨c2, e2⟩ := core_step (nd' := { emit (flushDirty nd) (.connect n none) with tip := n })
      c1 hs rfl rfl rfl rfl rfl rfl
    have hlen : (effMarker ({ emit (flushDirty nd) (.connect n none) with tip := n } : Node A).img).length ≤ n.length := by
      have := List.IsSuffix.length_le c2.inv.marker_anc
      exact this
    obtain ⟨c3, e3⟩ := core_flushIfNeeded cfg c2 (at_ := n) (List.suffix_refl n) hlen
      (by show (flushDirty nd).utxo = utxoOf A n; rw [flushDirty_utxo]; exact hu)
    refine ⟨⟨c3, ?_, ?_⟩, ?_, ?_⟩
    · rw [flushIfNeeded_utxo, flushIfNeeded_tip]
      show (flushDirty nd).utxo = utxoOf A n
      rw [flushDirty_utxo]; exact hu
    · exact e3.2.2.1 (e2.2.2.1 (e1.2.2.1 hm))
    · rw [flushIfNeeded_tip]
    · exact Ext.trans e1 (Ext.trans e2 e3)

theorem disconnectTip_spec {base : Image A} {nd : Node A} (hA : A.Lawful) (h : Good base nd) :
    Good base (disconnectTip nd).1 ∧ Ext nd (disconnectTip nd).1 ∧
    ((disconnectTip nd).2 = true → (disconnectTip nd).1.tip = nd.tip.tail) := by
  unfold disconnectTip
  cases htip : nd.tip with
  | nil => exact ⟨h, Ext.refl nd, fun h => absurd h (by simp)⟩
  | cons b p =>
    simp only
    by_cases hp : p ∈ nd.img.stored
    · simp only [hp, not_true_eq_false, if_false]
      obtain ⟨c1, e1⟩ := core_flushDirty h.core
      have hu : A.disc b (flushDirty nd).utxo = utxoOf A p := by
        rw [flushDirty_utxo, h.utxo_eq, htip]
        exact hA b (utxoOf A p)
      have hs : Safe (flushDirty nd).img (.disconnect (b :: p) (A.disc b (flushDirty nd).utxo)) := by
        refine ⟨by simp, ?_, ?_, hu⟩
        · rw [c1.tip_eq, flushDirty_tip, htip]
        · rw [flushDirty_stored]; exact hp
      obtain ⟨c2, e2⟩ := core_step
        (nd' := { emit (flushDirty nd) (.disconnect (b :: p) (A.disc b (flushDirty nd).utxo)) with
                  tip := p, utxo := A.disc b (flushDirty nd).utxo, lastFlush := some p })
        c1 hs rfl rfl rfl rfl rfl rfl
      exact ⟨⟨c2, hu, by simp [emit, apply]⟩, Ext.trans e1 e2, fun _ => rfl⟩
    · simp only [hp, not_false_eq_true, if_true]
      exact ⟨h, Ext.refl nd, fun h => absurd h (by simp)⟩

theorem disconnectN_spec {base : Image A} (hA : A.Lawful) (k : Nat) : ∀ (nd : Node A), Good base nd →
    Good base (disconnectN k nd).1 ∧ Ext nd (disconnectN k nd).1 ∧
    ((disconnectN k nd).2 = true → (disconnectN k nd).1.tip = nd.tip.drop k) := by
  induction k with
  | zero => intro nd h; exact ⟨h, Ext.refl nd, fun _ => by simp [disconnectN]⟩
  | succ k ih =>
    intro nd h
    obtain ⟨g1, e1, t1⟩ := disconnectTip_spec hA h
    unfold disconnectN
    cases hd : disconnectTip nd with
    | mk nd1 ok =>
      rw [hd] at g1 e1 t1
      cases ok with
      | false => exact ⟨g1, e1, fun h => absurd h (by simp)⟩
      | true =>
        simp only
        obtain ⟨g2, e2, t2⟩ := ih nd1 g1
        refine ⟨g2, Ext.trans e1 e2, fun hok => ?_⟩
        rw [t2 hok, t1 rfl, List.drop_tail]

theorem connectAll_spec {base : Image A} (cfg : Cfg) (hp : cfg.prune = none) (bs : List Blk) : ∀ (nd : Node A), Good base nd →
    (∀ a, a ∈ chainsOn nd.tip bs → a ∈ nd.img.stored ∧ a ∈ keys nd.index) →
    Good base (connectAll cfg (chainsOn nd.tip bs) nd).1 ∧ Ext nd (connectAll cfg (chainsOn nd.tip bs) nd).1 := by
  induction bs with
  | nil => intro nd h _; exact ⟨h, Ext.refl nd⟩
  | cons b rest ih =>
    intro nd h hall
    simp only [chainsOn, connectAll]
    have hmem := hall (b :: nd.tip) (by simp [chainsOn])
    have hspec := connectBlock_spec (nd := { nd with utxo := A.conn b nd.utxo }) cfg hp (n := b :: nd.tip)
      (core_with_utxo h.core _) h.marker_some hmem.1 hmem.2
      (by show A.conn b nd.utxo = utxoOf A (b :: nd.tip); rw [h.utxo_eq]; rfl)
    have hok := hspec.2.2 (by simp) rfl
    cases hcb : connectBlock cfg { nd with utxo := A.conn b nd.utxo } (b :: nd.tip) with
    | mk nd1 ok =>
      rw [hcb] at hspec hok
      simp only at hok
      subst hok
      simp only
      obtain ⟨g1, t1, e1⟩ := hspec.1 rfl
      simp only at g1 t1 e1
      have e1' : Ext nd nd1 := e1
      have hall' : ∀ a, a ∈ chainsOn nd1.tip rest → a ∈ nd1.img.stored ∧ a ∈ keys nd1.index := by
        intro a ha
        rw [t1] at ha
        have := hall a (by simp only [chainsOn, List.mem_cons]; exact Or.inr ha)
        exact ⟨e1'.1 _ this.1, e1'.2.1 _ this.2⟩
      have := ih nd1 g1 hall'
      rw [t1] at this
      exact ⟨this.1, Ext.trans e1' this.2⟩

end BV.C04
