/-
C04 — Lemmas, part 6: what a log tells (active tips, acknowledged rows) and the
main statements in the form used by Props.
-/
import BV.C04.Lemmas5
namespace BV.C04

variable {A : UtxoAlg}

/-- The tip a commit records as best state, if it records one. -/
def bestOf : Commit A → Option Chain
  | .create => some []
  | .connect n _ => some n
  | .connectPrune n _ _ => some n
  | .disconnect n _ => some n.tail
  | _ => none

/-- The tips the node had made active: genesis and every tip that a commit of
the log recorded as best state (the in-memory tip follows each such commit). -/
def activeTips (log : List (Commit A)) : List Chain := [] :: log.filterMap bestOf

def rowKeysOf : Commit A → List Chain
  | .create => [[]]
  | .indexRows rs => keys rs
  | _ => []

/-- The blocks whose index row was committed by the log. -/
def rowKeys (log : List (Commit A)) : List Chain := log.flatMap rowKeysOf

theorem apply_best (img : Image A) (c : Commit A) :
    (apply img c).best = img.best ∨ bestOf c = some (apply img c).best := by
  cases c with
  | connect n fl => cases fl <;> exact Or.inr rfl
  | connectPrune n ps fl => cases fl <;> exact Or.inr rfl
  | create => exact Or.inr rfl
  | disconnect n u => exact Or.inr rfl
  | _ => exact Or.inl rfl

theorem best_replay (l : List (Commit A)) : ∀ (base : Image A),
    (replay base l).best = base.best ∨ (replay base l).best ∈ l.filterMap bestOf := by
  induction l with
  | nil => intro base; exact Or.inl rfl
  | cons c rest ih =>
    intro base
    have e : replay base (c :: rest) = replay (apply base c) rest := rfl
    rw [e]
    rcases ih (apply base c) with h | h
    · rcases apply_best base c with h1 | h1
      · exact Or.inl (h.trans h1)
      · right
        rw [List.filterMap_cons, h1, h]
        exact List.mem_cons_self
    · right
      rw [List.filterMap_cons]
      cases bestOf c with
      | none => exact h
      | some x => exact List.mem_cons_of_mem _ h

theorem apply_rows (img : Image A) (c : Commit A) (x : Chain) :
    x ∈ keys (apply img c).rows ↔ x ∈ keys img.rows ∨ x ∈ rowKeysOf c := by
  cases c with
  | connect n fl => cases fl <;> simp [apply, rowKeysOf]
  | connectPrune n ps fl => cases fl <;> simp [apply, rowKeysOf]
  | create =>
    show x ∈ keys (upsert img.rows [] genesisStatus) ↔ _
    rw [mem_keys_upsert]; simp [rowKeysOf, or_comm]
  | indexRows rs => exact mem_keys_foldl_upsert rs img.rows x
  | nop => simp [apply, rowKeysOf]
  | setMarker m => simp [apply, rowKeysOf]
  | storeBlock n => simp [apply, rowKeysOf]
  | disconnect n u => simp [apply, rowKeysOf]
  | utxoFlush u m => simp [apply, rowKeysOf]

theorem rows_replay (l : List (Commit A)) : ∀ (base : Image A) (x : Chain),
    x ∈ keys (replay base l).rows ↔ x ∈ keys base.rows ∨ x ∈ rowKeys l := by
  induction l with
  | nil => intro base x; simp [replay, rowKeys]
  | cons c rest ih =>
    intro base x
    have e : replay base (c :: rest) = replay (apply base c) rest := rfl
    rw [e, ih, apply_rows]
    simp only [rowKeys, List.flatMap_cons, List.mem_append]
    exact or_assoc

theorem created_replay (l : List (Commit A)) : ∀ (base : Image A), base.created = true →
    (replay base l).created = true := by
  induction l with
  | nil => intro base h; exact h
  | cons c rest ih => intro base h; exact ih _ (apply_created c h)

/-! ### every prefix recovers -/

theorem prefix_recovers_aux (hA : A.Lawful) (cfg cfg' : Cfg) (hp : cfg.prune = none) (ops : List Op) (nd0 : Node A)
    (h0 : recover cfg (Image.empty A) = .ok nd0) (k : Nat) :
    ∃ rn, recover cfg' (replay (Image.empty A) ((runOps cfg nd0 ops).log.take k)) = .ok rn ∧
      RecoverOk A (activeTips ((runOps cfg nd0 ops).log.take k)) (rowKeys ((runOps cfg nd0 ops).log.take k))
        ⟨rn.tip, rn.utxo, keys rn.index⟩ := by
  obtain ⟨nd0', r0, g0, _⟩ := recover_empty_spec (A := A) cfg
  rw [r0] at h0
  have hnd : nd0' = nd0 := by injection h0
  subst hnd
  obtain ⟨gfin, _⟩ := runOps_spec hA cfg hp ops nd0' g0
  have hs := (gfin.core.sound k).1
  rcases hs with hs | hs
  · rw [hs]
    obtain ⟨rn, r, g, t⟩ := recover_empty_spec (A := A) cfg'
    refine ⟨rn, r, ⟨?_, ?_, ?_⟩⟩
    · show rn.tip ∈ activeTips _
      rw [t]; exact List.mem_cons_self
    · exact g.utxo_eq
    · intro n hn
      have := (rows_replay _ (Image.empty A) n).mpr (Or.inr hn)
      rw [hs] at this
      simp [Image.empty, keys] at this
  · obtain ⟨rn, r, g, t, hrows⟩ := recover_spec cfg' hs
    refine ⟨rn, r, ⟨?_, ?_, ?_⟩⟩
    · show rn.tip ∈ activeTips _
      rw [t]
      rcases best_replay ((runOps cfg nd0' ops).log.take k) (Image.empty A) with h | h
      · rw [h]; exact List.mem_cons_self
      · exact List.mem_cons_of_mem _ h
    · exact g.utxo_eq
    · intro n hn
      exact hrows n ((rows_replay _ (Image.empty A) n).mpr (Or.inr hn))

/-! ### crash during recovery -/

def NoBest (log : List (Commit A)) : Prop := ∀ c, c ∈ log → bestOf c = none

theorem nobest_snoc {log : List (Commit A)} {c : Commit A} (h : NoBest log) (hc : bestOf c = none) :
    NoBest (log ++ [c]) := by
  intro x hx
  rcases List.mem_append.mp hx with h1 | h1
  · exact h x h1
  · rw [List.mem_singleton.mp h1]; exact hc

theorem flushDirty_nobest {nd : Node A} (h : NoBest nd.log) : NoBest (flushDirty nd).log := by
  unfold flushDirty; split
  · exact h
  · exact nobest_snoc h rfl

theorem flushIfNeeded_nobest (cfg : Cfg) {nd : Node A} (a : Chain) (h : NoBest nd.log) :
    NoBest (flushIfNeeded cfg nd a).log := by
  unfold flushIfNeeded; split
  · exact nobest_snoc h rfl
  · split
    · exact nobest_snoc h rfl
    · exact nobest_snoc h rfl

theorem markValid_log (l : List Chain) : ∀ (nd : Node A), (markValid nd l).log = nd.log := by
  induction l with
  | nil => intro nd; rfl
  | cons a rest ih =>
    intro nd
    simp only [markValid]
    split
    · exact ih nd
    · rw [ih]; rfl

theorem replayBlocks_nobest (cfg : Cfg) (bs : List Blk) : ∀ (cur : Chain) (nd nd' : Node A),
    NoBest nd.log → replayBlocks cfg bs cur nd = .ok nd' → NoBest nd'.log := by
  induction bs with
  | nil => intro cur nd nd' h r; simp only [replayBlocks] at r; injection r with r; rw [← r]; exact h
  | cons b rest ih =>
    intro cur nd nd' h r
    simp only [replayBlocks] at r
    split at r
    · exact absurd r (by simp)
    · exact ih _ _ _ (flushIfNeeded_nobest cfg _ (show NoBest ({ nd with utxo := A.conn b nd.utxo } : Node A).log from h)) r

theorem initConsistent_nobest (cfg : Cfg) {nd nd' : Node A} (h : NoBest nd.log)
    (r : initConsistent cfg nd = .ok nd') : NoBest nd'.log := by
  unfold initConsistent at r
  split at r
  · injection r with r; rw [← r]; exact nobest_snoc h rfl
  · split at r
    · injection r with r; rw [← r]; exact h
    · split at r
      · exact absurd r (by simp)
      · simp only at r
        exact replayBlocks_nobest cfg _ _ _ nd' (show NoBest ({ nd with lastFlush := some _ } : Node A).log from h) r

theorem recover_nobest (cfg : Cfg) {img : Image A} (hc : img.created = true) {rn : Node A}
    (r : recover cfg img = .ok rn) : NoBest rn.log := by
  unfold recover at r
  simp only [hc, Bool.not_true, Bool.false_eq_true, if_false] at r
  split at r
  · exact absurd r (by simp)
  · split at r
    · exact absurd r (by simp)
    · split at r
      · exact absurd r (by simp)
      · refine initConsistent_nobest cfg ?_ r
        show NoBest ((flushDirty _).log ++ [Commit.nop])
        refine nobest_snoc (flushDirty_nobest ?_) rfl
        rw [markValid_log]
        intro c hc; simp [bootNode] at hc

theorem best_replay_nobest (l : List (Commit A)) (h : NoBest l) (base : Image A) :
    (replay base l).best = base.best := by
  rcases best_replay l base with h1 | h1
  · exact h1
  · exfalso
    rw [List.mem_filterMap] at h1
    obtain ⟨c, hc, hb⟩ := h1
    rw [h c hc] at hb
    exact absurd hb (by simp)

theorem recover_idempotent_aux (cfg cfg' : Cfg) {img : Image A} (hi : Inv img) {rn : Node A}
    (r : recover cfg img = .ok rn) (j : Nat) :
    Inv (replay img (rn.log.take j)) ∧
    ∃ rn', recover cfg' (replay img (rn.log.take j)) = .ok rn' ∧ rn'.tip = rn.tip ∧
      rn'.utxo = utxoOf A rn.tip ∧ (∀ x, x ∈ keys img.rows → x ∈ keys rn'.index) := by
  obtain ⟨rn0, r0, g0, t0, _⟩ := recover_spec cfg hi
  rw [r0] at r
  have hrn : rn0 = rn := by injection r
  subst hrn
  have hinv : Inv (replay img (rn0.log.take j)) :=
    inv_of_inv' (g0.core.sound j).1 (created_replay _ _ hi.created)
  obtain ⟨rn', r', g', t', hrows⟩ := recover_spec cfg' hinv
  have hnb : NoBest (rn0.log.take j) := fun c hc => recover_nobest cfg hi.created r0 c (List.mem_of_mem_take hc)
  have ht : rn'.tip = rn0.tip := by rw [t', best_replay_nobest _ hnb, t0]
  refine ⟨hinv, rn', r', ht, ?_, ?_⟩
  · rw [← ht]; exact g'.utxo_eq
  · intro x hx
    exact hrows x ((rows_replay _ img x).mpr (Or.inl hx))

end BV.C04
