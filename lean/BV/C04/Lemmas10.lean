/-
C04 — Lemmas, part 10: the validity tower through connect / disconnect / verify.
-/
import BV.C04.Lemmas9
namespace BV.C04

variable {A : UtxoAlg}

theorem emit_img_eq {base : Image A} {nd : Node A} (hi : nd.img = replay base nd.log) (c : Commit A) :
    (emit nd c).img = replay base (emit nd c).log := by
  show apply nd.img c = replay base (nd.log ++ [c])
  rw [replay_snoc, hi]

theorem flushDirty_best (nd : Node A) : (flushDirty nd).img.best = nd.img.best := by
  unfold flushDirty; split <;> rfl

theorem vn_flushIfNeeded {base : Image A} {nd : Node A} (cfg : Cfg) (a : Chain) (h : VN base nd)
    (hi : nd.img = replay base nd.log) : VN base (flushIfNeeded cfg nd a) := by
  unfold flushIfNeeded
  split
  · exact vn_emit h hi trivial
  · split
    · exact vn_emit (nd := { nd with lastFlush := some a }) ⟨h.sv, h.idx⟩ hi trivial
    · exact vn_emit h hi trivial

theorem vn_flushRequired {base : Image A} {nd : Node A} (h : VN base nd) (hi : nd.img = replay base nd.log) :
    VN base (flushRequired nd) :=
  vn_emit (nd := { nd with lastFlush := some nd.tip }) ⟨h.sv, h.idx⟩ hi trivial

theorem vn_connectBlock {base : Image A} {nd : Node A} (cfg : Cfg) (hp : cfg.prune = none) {n : Chain}
    (c : Core base nd) (h : VN base nd)
    (hok : ∀ b, n = b :: nd.tip → A.ok b (utxoOf A nd.tip) = true) : VN base (connectBlock cfg nd n).1 := by
  unfold connectBlock
  by_cases hc : n = [] ∨ n.tail ≠ nd.tip
  · simp only [hc, if_true]; exact h
  · simp only [hc, if_false, hp, if_true]
    have hn : ∃ b, n = b :: nd.tip := by
      cases n with
      | nil => exact absurd (Or.inl rfl) hc
      | cons b t =>
        refine ⟨b, ?_⟩
        have : t = nd.tip := by
          by_cases e : t = nd.tip
          · exact e
          · exact absurd (Or.inr e) hc
        rw [this]
    obtain ⟨b, hb⟩ := hn
    obtain ⟨c1, _⟩ := core_flushDirty c
    have v1 := vn_flushDirty h c.img_eq
    have hbest : (flushDirty nd).img.best = nd.tip := by rw [flushDirty_best, c.tip_eq]
    have v2 : VN base (emit (flushDirty nd) (.connect n none)) :=
      vn_emit v1 c1.img_eq ⟨b, by rw [hbest]; exact hb, by rw [hbest]; exact hok b hb⟩
    exact vn_flushIfNeeded cfg n (nd := { emit (flushDirty nd) (.connect n none) with tip := n })
      ⟨v2.sv, v2.idx⟩
      (by show (emit (flushDirty nd) (.connect n none)).img = replay base (emit (flushDirty nd) (.connect n none)).log
          exact emit_img_eq c1.img_eq _)

theorem vn_disconnectTip {base : Image A} {nd : Node A} (c : Core base nd) (h : VN base nd) :
    VN base (disconnectTip nd).1 := by
  unfold disconnectTip
  cases htip : nd.tip with
  | nil => exact h
  | cons b p =>
    simp only
    split
    · exact h
    · obtain ⟨c1, _⟩ := core_flushDirty c
      have v1 := vn_flushDirty h c.img_eq
      have hbest : (flushDirty nd).img.best = b :: p := by rw [flushDirty_best, c.tip_eq, htip]
      have v2 := vn_emit v1 c1.img_eq (c := .disconnect (b :: p) (A.disc b (flushDirty nd).utxo)) hbest.symm
      exact ⟨v2.sv, v2.idx⟩

theorem vn_disconnectN {base : Image A} (hA : A.Lawful) (k : Nat) : ∀ (nd : Node A), Good base nd → VN base nd →
    VN base (disconnectN k nd).1 := by
  induction k with
  | zero => intro nd _ h; exact h
  | succ k ih =>
    intro nd g h
    have v1 := vn_disconnectTip g.core h
    obtain ⟨g1, _, _⟩ := disconnectTip_spec hA g
    unfold disconnectN
    generalize disconnectTip nd = r at v1 g1 ⊢
    obtain ⟨nd1, ok⟩ := r
    cases ok with
    | false => exact v1
    | true => exact ih nd1 g1 v1

theorem vn_connectAll {base : Image A} (cfg : Cfg) (hp : cfg.prune = none) (bs : List Blk) : ∀ (nd : Node A),
    Good base nd → VN base nd →
    (∀ a, a ∈ chainsOn nd.tip bs → a ∈ nd.img.stored ∧ a ∈ keys nd.index) →
    (∀ b p, (b :: p) ∈ chainsOn nd.tip bs → A.ok b (utxoOf A p) = true) →
    VN base (connectAll cfg (chainsOn nd.tip bs) nd).1 := by
  induction bs with
  | nil => intro nd _ h _ _; exact h
  | cons b rest ih =>
    intro nd g h hall hoks
    simp only [chainsOn, connectAll]
    have hmem := hall (b :: nd.tip) (by simp [chainsOn])
    have hspec := connectBlock_spec (nd := { nd with utxo := A.conn b nd.utxo }) cfg hp (n := b :: nd.tip)
      (core_with_utxo g.core _) g.marker_some hmem.1 hmem.2
      (by show A.conn b nd.utxo = utxoOf A (b :: nd.tip); rw [g.utxo_eq]; rfl)
    have hok := hspec.2.2 (by simp) rfl
    have v1 := vn_connectBlock (nd := { nd with utxo := A.conn b nd.utxo }) cfg hp (n := b :: nd.tip)
      (core_with_utxo g.core _) ⟨h.sv, h.idx⟩
      (fun b' e => by
        injection e with e1 _
        rw [← e1]
        exact hoks b nd.tip (by simp [chainsOn]))
    generalize connectBlock cfg { nd with utxo := A.conn b nd.utxo } (b :: nd.tip) = r at hspec hok v1 ⊢
    obtain ⟨nd1, ok⟩ := r
    simp only at hok
    subst hok
    simp only
    obtain ⟨g1, t1, e1⟩ := hspec.1 rfl
    simp only at g1 t1 e1 v1
    have e1' : Ext nd nd1 := e1
    have hall' : ∀ a, a ∈ chainsOn nd1.tip rest → a ∈ nd1.img.stored ∧ a ∈ keys nd1.index := by
      intro a ha
      rw [t1] at ha
      have := hall a (by simp only [chainsOn, List.mem_cons]; exact Or.inr ha)
      exact ⟨e1'.1 _ this.1, e1'.2.1 _ this.2⟩
    have hoks' : ∀ b' p, (b' :: p) ∈ chainsOn nd1.tip rest → A.ok b' (utxoOf A p) = true := by
      intro b' p hm
      rw [t1] at hm
      exact hoks b' p (by simp only [chainsOn, List.mem_cons]; exact Or.inr hm)
    have := ih nd1 g1 v1 hall' hoks'
    rw [t1] at this
    exact this

theorem vn_markInvAnc {base : Image A} (l : List Chain) : ∀ (nd : Node A), VN base nd → VN base (markInvAnc nd l) := by
  induction l with
  | nil => intro nd h; exact h
  | cons a rest ih =>
    intro nd h
    simp only [markInvAnc]
    exact ih _ (vn_setStatus_keep h (fun hv => hv))

/-- the attach part of the verification: the view is the fold of the chain it stands on -/
theorem vn_verifyAttach {base : Image A} (bs : List Blk) : ∀ (nd : Node A) (v : A.U) (cur : Chain),
    VN base nd → v = utxoOf A cur →
    VN base (verifyAttach nd v cur bs).1 ∧
    ((verifyAttach nd v cur bs).2 = true → ∀ b p, (b :: p) ∈ chainsOn cur bs → A.ok b (utxoOf A p) = true) := by
  induction bs with
  | nil => intro nd v cur h _; exact ⟨h, fun _ b p hm => by simp [chainsOn] at hm⟩
  | cons b rest ih =>
    intro nd v cur h hv
    simp only [verifyAttach]
    have hnext : A.conn b v = utxoOf A (b :: cur) := by rw [hv]; rfl
    have hsplit : ∀ {x : Node A × Bool}, (A.ok b (utxoOf A cur) = true) →
        (x.2 = true → ∀ b' p, (b' :: p) ∈ chainsOn (b :: cur) rest → A.ok b' (utxoOf A p) = true) →
        (x.2 = true → ∀ b' p, (b' :: p) ∈ chainsOn cur (b :: rest) → A.ok b' (utxoOf A p) = true) := by
      intro x h0 h1 hx b' p hm
      simp only [chainsOn, List.mem_cons] at hm
      rcases hm with hm | hm
      · injection hm with e1 e2; subst e1; subst e2; exact h0
      · exact h1 hx b' p hm
    split
    · exact ⟨h, fun hf => absurd hf (by simp)⟩
    · split
      · rename_i hval
        obtain ⟨v1, o1⟩ := ih nd (A.conn b v) (b :: cur) h hnext
        exact ⟨v1, hsplit (iv_statusOf h.idx hval) o1⟩
      · split
        · rename_i hok
          have hok' : A.ok b (utxoOf A cur) = true := by rw [← hv]; exact hok
          obtain ⟨v1, o1⟩ := ih _ (A.conn b v) (b :: cur)
            (vn_setStatus h (a := b :: cur) (s := { statusOf nd.index (b :: cur) with valid := true })
              (fun _ b' p e => by injection e with e1 e2; subst e1; subst e2; exact hok')) hnext
          exact ⟨v1, hsplit hok' o1⟩
        · refine ⟨vn_markInvAnc _ _ (vn_setStatus_keep h (fun hv' => hv')), fun hf => absurd hf (by simp)⟩

theorem discAll_utxoOf (hA : A.Lawful) : ∀ (c : Chain) (k : Nat), discAll (utxoOf A c) c k = utxoOf A (c.drop k) := by
  intro c
  induction c with
  | nil => intro k; cases k <;> rfl
  | cons b p ih =>
    intro k
    cases k with
    | zero => rfl
    | succ k =>
      show discAll (A.disc b (A.conn b (utxoOf A p))) p k = _
      rw [hA, ih]; rfl

end BV.C04
