/-
C04 — Lemmas, part 1: the durable invariant and the commits that preserve it.
-/
import BV.C04.Model
namespace BV.C04

variable {A : UtxoAlg}

/-! ### rows -/

theorem mem_keys_upsert {r : Rows} {c c' : Chain} {s : Status} :
    c' ∈ keys (upsert r c s) ↔ c' = c ∨ c' ∈ keys r := by
  induction r with
  | nil => simp [upsert, keys]
  | cons e t ih =>
    unfold upsert
    by_cases h : e.1 = c
    · simp only [h, if_true]
      simp only [keys, List.map_cons, List.mem_cons] at *
      rw [h]
      constructor
      · rintro (h1 | h1)
        · exact Or.inl h1
        · exact Or.inr (Or.inr h1)
      · rintro (h1 | h1 | h1)
        · exact Or.inl h1
        · exact Or.inl h1
        · exact Or.inr h1
    · simp only [h, if_false]
      simp only [keys, List.map_cons, List.mem_cons] at *
      rw [ih]
      constructor
      · rintro (h1 | h1 | h1)
        · exact Or.inr (Or.inl h1)
        · exact Or.inl h1
        · exact Or.inr (Or.inr h1)
      · rintro (h1 | h1 | h1)
        · exact Or.inr (Or.inl h1)
        · exact Or.inl h1
        · exact Or.inr (Or.inr h1)

theorem mem_keys_foldl_upsert (rs : Rows) (r : Rows) (c : Chain) :
    c ∈ keys (rs.foldl (fun r e => upsert r e.1 e.2) r) ↔ c ∈ keys r ∨ c ∈ keys rs := by
  induction rs generalizing r with
  | nil => simp [keys]
  | cons e t ih =>
    simp only [List.foldl_cons]
    rw [ih, mem_keys_upsert]
    simp only [keys, List.map_cons, List.mem_cons]
    constructor
    · rintro ((h | h) | h)
      · exact Or.inr (Or.inl h)
      · exact Or.inl h
      · exact Or.inr (Or.inr h)
    · rintro (h | h | h)
      · exact Or.inl (Or.inr h)
      · exact Or.inl (Or.inl h)
      · exact Or.inr h

/-! ### the durable invariant -/

/-- The block the persisted unspent-output set corresponds to (a database
without marker is a fresh one: genesis). -/
def effMarker (img : Image A) : Chain := img.marker.getD []

/-- Key invariant of every crash image: the marker is an ancestor-or-equal of
the persisted tip, the persisted unspent-output set is the fold up to the
marker, every block between marker and tip is stored, the tip block is stored,
the tip has an index row and the rows are closed under parent. -/
structure Inv (img : Image A) : Prop where
  created : img.created = true
  marker_anc : effMarker img <:+ img.best
  marker_none : img.marker = none → img.best = []
  utxo_eq : img.utxo = utxoOf A (effMarker img)
  between : ∀ n, n <:+ img.best → (effMarker img).length < n.length → n ∈ img.stored
  tip_stored : img.best ∈ img.stored
  tip_row : img.best ∈ keys img.rows
  rows_closed : ∀ n, n ∈ keys img.rows → n.tail ∈ keys img.rows

/-- Local well-formedness of one commit with respect to the image it is applied to. -/
def Safe (img : Image A) : Commit A → Prop
  | .create => False
  | .nop => True
  | .setMarker m => img.marker = none ∧ m = []
  | .storeBlock _ => True
  | .indexRows rs => ∀ c, c ∈ keys rs → c.tail ∈ keys img.rows ∨ c.tail ∈ keys rs
  | .connect n none => n ≠ [] ∧ n.tail = img.best ∧ n ∈ img.stored ∧ n ∈ keys img.rows ∧ img.marker ≠ none
  | .connect n (some u) => n ≠ [] ∧ n.tail = img.best ∧ n ∈ img.stored ∧ n ∈ keys img.rows ∧ u = utxoOf A n
  | .connectPrune n ps none =>
      n ≠ [] ∧ n.tail = img.best ∧ n ∈ img.stored ∧ n ∉ ps ∧ n ∈ keys img.rows ∧ img.marker ≠ none ∧
      (∀ x, x ∈ ps → x <:+ n → x.length ≤ (effMarker img).length)
  | .connectPrune n ps (some u) =>
      n ≠ [] ∧ n.tail = img.best ∧ n ∈ img.stored ∧ n ∉ ps ∧ n ∈ keys img.rows ∧ u = utxoOf A n
  | .disconnect n u => n ≠ [] ∧ n = img.best ∧ n.tail ∈ img.stored ∧ u = utxoOf A n.tail
  | .utxoFlush u m => m <:+ img.best ∧ (effMarker img).length ≤ m.length ∧ u = utxoOf A m

theorem suffix_tail_of_ne {n : Chain} (h : n ≠ []) : n.tail <:+ n := by
  cases n with
  | nil => exact absurd rfl h
  | cons b t => exact List.suffix_cons b t

theorem suffix_of_tail_eq {s n : Chain} (hn : n ≠ []) (hs : s <:+ n) : s = n ∨ s <:+ n.tail := by
  cases n with
  | nil => exact absurd rfl hn
  | cons b t => exact List.suffix_cons_iff.mp hs

theorem safe_preserves {img : Image A} {c : Commit A} (hi : Inv img) (hs : Safe img c) :
    Inv (apply img c) := by
  cases c with
  | create => exact absurd hs (by simp [Safe])
  | nop => exact hi
  | setMarker m =>
    obtain ⟨h1, h2⟩ := hs
    subst h2
    have he : effMarker img = [] := by simp [effMarker, h1]
    exact { created := hi.created
            marker_anc := by simp [apply, effMarker]
            marker_none := by simp [apply]
            utxo_eq := by
              have := hi.utxo_eq; rw [he] at this
              simpa [apply, effMarker] using this
            between := by
              have := hi.between; rw [he] at this
              simpa [apply, effMarker] using this
            tip_stored := hi.tip_stored
            tip_row := hi.tip_row
            rows_closed := hi.rows_closed }
  | storeBlock n =>
    exact { created := hi.created
            marker_anc := hi.marker_anc
            marker_none := hi.marker_none
            utxo_eq := hi.utxo_eq
            between := fun s h1 h2 => List.mem_cons_of_mem _ (hi.between s h1 h2)
            tip_stored := List.mem_cons_of_mem _ hi.tip_stored
            tip_row := hi.tip_row
            rows_closed := hi.rows_closed }
  | indexRows rs =>
    exact { created := hi.created
            marker_anc := hi.marker_anc
            marker_none := hi.marker_none
            utxo_eq := hi.utxo_eq
            between := hi.between
            tip_stored := hi.tip_stored
            tip_row := by
              show img.best ∈ keys (rs.foldl _ img.rows)
              rw [mem_keys_foldl_upsert]; exact Or.inl hi.tip_row
            rows_closed := by
              intro n hn
              show n.tail ∈ keys (rs.foldl _ img.rows)
              have hn' : n ∈ keys (rs.foldl (fun r e => upsert r e.1 e.2) img.rows) := hn
              rw [mem_keys_foldl_upsert] at hn' ⊢
              rcases hn' with h | h
              · exact Or.inl (hi.rows_closed n h)
              · exact hs n h }
  | connect n fl =>
    cases fl with
    | none =>
      obtain ⟨h1, h2, h3, h4, h5⟩ := hs
      have hm : effMarker (apply img (.connect n none)) = effMarker img := rfl
      exact { created := hi.created
              marker_anc := by
                rw [hm]; show effMarker img <:+ n
                exact List.IsSuffix.trans (h2 ▸ hi.marker_anc) (suffix_tail_of_ne h1)
              marker_none := fun h => absurd h h5
              utxo_eq := hi.utxo_eq
              between := by
                intro s hs1 hs2
                rw [hm] at hs2
                rcases suffix_of_tail_eq h1 (show s <:+ n from hs1) with h | h
                · subst h; exact h3
                · exact hi.between s (h2 ▸ h) hs2
              tip_stored := h3
              tip_row := h4
              rows_closed := hi.rows_closed }
    | some u =>
      obtain ⟨h1, h2, h3, h4, h5⟩ := hs
      have hm : effMarker (apply img (.connect n (some u))) = n := rfl
      exact { created := hi.created
              marker_anc := by rw [hm]; exact List.suffix_refl n
              marker_none := by simp [apply]
              utxo_eq := by rw [hm]; exact h5
              between := by
                intro s hs1 hs2
                rw [hm] at hs2
                have := List.IsSuffix.length_le (show s <:+ n from hs1)
                omega
              tip_stored := h3
              tip_row := h4
              rows_closed := hi.rows_closed }
  | connectPrune n ps fl =>
    have hmemf : ∀ x, x ∈ img.stored → x ∉ ps → x ∈ img.stored.filter (· ∉ ps) := by
      intro x hx hnp; exact List.mem_filter.mpr ⟨hx, by simpa using hnp⟩
    cases fl with
    | none =>
      obtain ⟨h1, h2, h3, h3', h4, h5, h6⟩ := hs
      have hm : effMarker (apply img (.connectPrune n ps none)) = effMarker img := rfl
      exact { created := hi.created
              marker_anc := by
                rw [hm]; show effMarker img <:+ n
                exact List.IsSuffix.trans (h2 ▸ hi.marker_anc) (suffix_tail_of_ne h1)
              marker_none := fun h => absurd h h5
              utxo_eq := hi.utxo_eq
              between := by
                intro s hs1 hs2
                rw [hm] at hs2
                have hs1' : s <:+ n := hs1
                have hnp : s ∉ ps := fun hin => by
                  have := h6 s hin hs1'
                  omega
                refine hmemf s ?_ hnp
                rcases suffix_of_tail_eq h1 hs1' with h | h
                · subst h; exact h3
                · exact hi.between s (h2 ▸ h) hs2
              tip_stored := hmemf n h3 h3'
              tip_row := h4
              rows_closed := hi.rows_closed }
    | some u =>
      obtain ⟨h1, h2, h3, h3', h4, h5⟩ := hs
      have hm : effMarker (apply img (.connectPrune n ps (some u))) = n := rfl
      exact { created := hi.created
              marker_anc := by rw [hm]; exact List.suffix_refl n
              marker_none := by simp [apply]
              utxo_eq := by rw [hm]; exact h5
              between := by
                intro s hs1 hs2
                rw [hm] at hs2
                have := List.IsSuffix.length_le (show s <:+ n from hs1)
                omega
              tip_stored := hmemf n h3 h3'
              tip_row := h4
              rows_closed := hi.rows_closed }
  | disconnect n u =>
    obtain ⟨h1, h2, h3, h4⟩ := hs
    have hm : effMarker (apply img (.disconnect n u)) = n.tail := rfl
    exact { created := hi.created
            marker_anc := by rw [hm]; exact List.suffix_refl _
            marker_none := by simp [apply]
            utxo_eq := by rw [hm]; exact h4
            between := by
              intro s hs1 hs2
              rw [hm] at hs2
              have := List.IsSuffix.length_le (show s <:+ n.tail from hs1)
              omega
            tip_stored := h3
            tip_row := hi.rows_closed n (h2 ▸ hi.tip_row)
            rows_closed := hi.rows_closed }
  | utxoFlush u m =>
    obtain ⟨h1, h2, h3⟩ := hs
    have hm : effMarker (apply img (.utxoFlush u m)) = m := rfl
    exact { created := hi.created
            marker_anc := by rw [hm]; exact h1
            marker_none := by simp [apply]
            utxo_eq := by rw [hm]; exact h3
            between := by
              intro s hs1 hs2
              rw [hm] at hs2
              exact hi.between s hs1 (by omega)
            tip_stored := hi.tip_stored
            tip_row := hi.tip_row
            rows_closed := hi.rows_closed }

end BV.C04

namespace BV.C04
variable {A : UtxoAlg}

/-- The image of a database that has not been created yet is also a legal crash image. -/
def Inv' (img : Image A) : Prop := img = Image.empty A ∨ Inv img

def Safe' (img : Image A) (c : Commit A) : Prop :=
  match c with
  | .create => img = Image.empty A
  | .nop => True
  | c => img.created = true ∧ Safe img c

theorem inv_create : Inv (apply (Image.empty A) .create) :=
  { created := rfl
    marker_anc := by simp [apply, effMarker, Image.empty]
    marker_none := fun _ => rfl
    utxo_eq := rfl
    between := by
      intro n h1 h2
      have : n = [] := by simpa [apply, Image.empty] using h1
      subst this
      simp [effMarker, apply, Image.empty] at h2
    tip_stored := by simp [apply, Image.empty]
    tip_row := by simp [apply, Image.empty, upsert, keys]
    rows_closed := by
      intro n hn
      have : n = [] := by simpa [apply, Image.empty, upsert, keys] using hn
      subst this
      simp [apply, Image.empty, upsert, keys] }

theorem safe_preserves' {img : Image A} {c : Commit A} (hi : Inv' img) (hs : Safe' img c) :
    Inv' (apply img c) := by
  have key : ∀ c, img.created = true → Safe img c → Inv' (apply img c) := by
    intro c hc hs
    rcases hi with h | h
    · rw [h] at hc; simp [Image.empty] at hc
    · exact Or.inr (safe_preserves h hs)
  cases c with
  | create =>
    have : img = Image.empty A := hs
    subst this
    exact Or.inr inv_create
  | nop => exact hi
  | setMarker m => exact key _ hs.1 hs.2
  | storeBlock n => exact key _ hs.1 hs.2
  | indexRows rs => exact key _ hs.1 hs.2
  | connect n fl => exact key _ hs.1 hs.2
  | connectPrune n ps fl => exact key _ hs.1 hs.2
  | disconnect n u => exact key _ hs.1 hs.2
  | utxoFlush u m => exact key _ hs.1 hs.2

theorem inv_of_inv' {img : Image A} (h : Inv' img) (hc : img.created = true) : Inv img := by
  rcases h with h | h
  · rw [h] at hc; simp [Image.empty] at hc
  · exact h

/-! ### the spend journal covers the active chain (pruning off) -/

/-- Every block of the persisted active chain has its spend-journal entry: what a
later reorganisation needs to disconnect it. -/
def JI (img : Image A) : Prop := ∀ s, s <:+ img.best → s ≠ [] → s ∈ img.journal

def isPrune : Commit A → Bool
  | .connectPrune _ _ _ => true
  | _ => false

theorem ji_empty : JI (Image.empty A) := by
  intro s hs hne
  exact absurd (List.suffix_nil.mp hs) hne

theorem ji_preserves {img : Image A} {c : Commit A} (hj : JI img) (hs : Safe' img c) (hnp : isPrune c = false) :
    JI (apply img c) := by
  cases c with
  | create =>
    have : img = Image.empty A := hs
    subst this
    intro s hs' hne
    exact absurd (List.suffix_nil.mp hs') hne
  | nop => exact hj
  | setMarker m => exact hj
  | storeBlock n => exact hj
  | indexRows rs => exact hj
  | connectPrune n ps fl => simp [isPrune] at hnp
  | connect n fl =>
    have hsafe : n ≠ [] ∧ n.tail = img.best := by
      cases fl with
      | none => exact ⟨hs.2.1, hs.2.2.1⟩
      | some u => exact ⟨hs.2.1, hs.2.2.1⟩
    have key : ∀ s, s <:+ n → s ≠ [] → s ∈ n :: img.journal := by
      intro s hs' hne
      rcases suffix_of_tail_eq hsafe.1 hs' with h | h
      · rw [h]; exact List.mem_cons_self
      · exact List.mem_cons_of_mem _ (hj s (hsafe.2 ▸ h) hne)
    cases fl <;> exact key
  | disconnect n u =>
    obtain ⟨_, h1, h2, _, _⟩ := hs
    intro s hs' hne
    have hs'' : s <:+ n.tail := hs'
    show s ∈ img.journal.filter (· ≠ n)
    refine List.mem_filter.mpr ⟨hj s (h2 ▸ List.IsSuffix.trans hs'' (suffix_tail_of_ne h1)) hne, ?_⟩
    have hl := List.IsSuffix.length_le hs''
    have : s ≠ n := by
      intro e; subst e
      cases s with
      | nil => exact h1 rfl
      | cons b t => simp at hl; omega
    simpa using this
  | utxoFlush u m => exact hj

end BV.C04
