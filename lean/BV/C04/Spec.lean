/-
C04 — Spec: what "recovers to a consistent, previously-active state" means.

A block is identified by the path that leads to it: a `Chain` is the list of
blocks from the tip down to (excluding) genesis, tip first; `[]` is the genesis
block (whose coinbase is not part of the unspent-output set).  The parent of
`b :: c` is `c`, an ancestor is a suffix (`<:+`), the height is the length.
Identifying a block with its path builds the collision-freeness of block hashes
into the model.

The unspent-output arithmetic is property C03's subject; here it is an abstract
algebra: connecting a block is a function on states, disconnecting (with the
spend journal of that block) is a function too, and `Lawful` says that
disconnecting undoes connecting.
-/
namespace BV.C04

structure Blk where
  id     : Nat
  spends : List Nat
  bad    : Bool
deriving DecidableEq, Repr

abbrev Chain := List Blk

structure UtxoAlg where
  U     : Type
  empty : U
  /-- `checkConnectBlock` accepts the block on top of this state. -/
  ok    : Blk → U → Bool
  conn  : Blk → U → U
  /-- disconnect with the spend journal entry that `conn` produced. -/
  disc  : Blk → U → U

/-- Disconnecting a block (with its journal entry) undoes connecting it
(C03's guarantee; explicit hypothesis of the C04 theorems). -/
def UtxoAlg.Lawful (A : UtxoAlg) : Prop := ∀ b u, A.disc b (A.conn b u) = u

/-- The unspent-output set of a chain: the fold of its blocks, genesis first. -/
def utxoOf (A : UtxoAlg) : Chain → A.U
  | [] => A.empty
  | b :: c => A.conn b (utxoOf A c)

/-- What a reopened node shows. -/
structure Observed (A : UtxoAlg) where
  tip   : Chain
  utxo  : A.U
  index : List Chain

/-- The first three clauses of the property for one reopened node:
`active` = the tips the node had made active before the crash,
`acked`  = the blocks whose storage was acknowledged before the crash. -/
structure RecoverOk (A : UtxoAlg) (active acked : List Chain) (o : Observed A) : Prop where
  tip_active  : o.tip ∈ active
  utxo_fold   : o.utxo = utxoOf A o.tip
  index_knows : ∀ n, n ∈ acked → n ∈ o.index

/-! ### Persisted-state vocabulary (pinned against the compiled tree in Props) -/

/-- Metadata buckets/keys of the chain state: block index rows, hash→height,
height→hash, best state, utxo consistency marker, journal version, spend
journal, utxo set version, utxo set. -/
def Const.names : List String :=
  ["blockheaderidx", "hashidx", "heightidx", "chainstate", "utxostateconsistency",
   "spendjournalversion", "spendjournal", "utxosetversion", "utxosetv2"]

/-- `statusDataStored, statusValid, statusValidateFailed, statusInvalidAncestor, statusHeaderStored`. -/
def Const.statusDataStored : Nat := 1
def Const.statusValid : Nat := 2
def Const.statusValidateFailed : Nat := 4
def Const.statusInvalidAncestor : Nat := 8
def Const.statusHeaderStored : Nat := 16

end BV.C04
