/-
C04 ∘ C03: the unspent-output algebra of the crash-recovery model instantiated with
C03's protocol definitions (core-only; imports C03, edits nothing there).

A C04 block `⟨id, spends, bad⟩` is the C03 block whose coinbase is transaction
`8*id` with one spendable output and whose j-th further transaction (`8*id + j`)
spends outpoint `(spends[j-1], 0)` and creates one spendable output — exactly the
blocks the C04 harness builds.  A state is C03's `UtxoSet` together with the height
and the spend journal (C03's `journalOf`) of every connected block; connecting
applies C03's `applyBlock` when C03's executable check `blockOk` (BIP30 scan on,
coinbase maturity 1 as in the harness parameters) accepts the block, disconnecting
runs C03's `undoBlock` with the journalled entries.
-/
import BV.C04.Spec
import BV.C03.Valid
import BV.C03.Undo
namespace BV.C04
open BV.C03 BV.C03.Spec

def spendable : Out := ⟨0, [0x51]⟩

def mkTxs (id : Nat) : Nat → List Nat → List Tx
  | _, [] => []
  | j, o :: os => ⟨8 * id + j, [(o, 0)], [spendable]⟩ :: mkTxs id (j + 1) os

/-- The C03 block of a C04 block. -/
def toBlock (b : Blk) : Block := ⟨b.id, ⟨8 * b.id, [], [spendable]⟩, mkTxs b.id 1 b.spends⟩

structure C03State where
  set     : UtxoSet
  height  : Nat
  journal : List (Option (List Entry))

/-- coinbase maturity of the harness parameters -/
def maturity : Nat := 1

def c03ok (b : Blk) (s : C03State) : Bool := blockOk true maturity s.set (s.height + 1) (toBlock b)

def c03conn (b : Blk) (s : C03State) : C03State :=
  if c03ok b s then
    ⟨applyBlock s.set (s.height + 1) (toBlock b), s.height + 1,
     some (journalOf s.set (s.height + 1) (toBlock b)) :: s.journal⟩
  else ⟨s.set, s.height + 1, none :: s.journal⟩   -- never happens in a run: only accepted blocks are connected

def c03disc (b : Blk) (s : C03State) : C03State :=
  match s.journal with
  | [] => s
  | none :: js => ⟨s.set, s.height - 1, js⟩
  | some j :: js => ⟨(BV.C03.Lemmas.undoBlock (toBlock b) j s.set).getD s.set, s.height - 1, js⟩

def C03Alg : UtxoAlg where
  U := C03State
  empty := ⟨Spec.empty, 0, []⟩
  ok b s := !b.bad && c03ok b s
  conn := c03conn
  disc := c03disc

end BV.C04
