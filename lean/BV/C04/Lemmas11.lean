/-
C04 — Lemmas, part 11: the validity tower through reorganisation, delivery,
workloads and start-up.
-/
import BV.C04.Lemmas10
namespace BV.C04

variable {A : UtxoAlg}

theorem vn_reorg {base : Image A} {nd : Node A} (hA : A.Lawful) (cfg : Cfg) (hp : cfg.prune = none) {n : Chain}
    (g : Good base nd) (h : VN base nd) (hn : n ∈ keys nd.index) : VN base (reorg cfg nd n).1 := by
  have hf1 : forkOf nd.tip n <:+ nd.tip := forkOf_suffix_left _ _
  have hf2 : forkOf nd.tip n <:+ n := forkOf_suffix_right _ _
  have has : ∀ a, a ∈ chainsOn (forkOf nd.tip n) (blocksAbove n (forkOf nd.tip n).length) → a ∈ keys nd.index := by
    intro a ha
    have := chainsOn_suffix ha
    rw [blocksAbove_append hf2] at this
    exact closed_suffix g.core.idx_closed hn this
  have hv0 : discAll nd.utxo nd.tip (nd.tip.length - (forkOf nd.tip n).length) = utxoOf A (forkOf nd.tip n) := by
    rw [g.utxo_eq, discAll_utxoOf hA, suffix_drop hf1]
  unfold reorg
  simp only
  split
  · obtain ⟨c1, _, _⟩ := markInvAnc_spec
      ((chainsOn (forkOf nd.tip n) (blocksAbove n (forkOf nd.tip n).length)).reverse.takeWhile
        (fun a => !(statusOf nd.index a).knownInvalid)) nd g.core
      (fun a ha => has a (List.mem_reverse.mp ((List.takeWhile_sublist _).subset ha)))
    exact vn_flushDirty (vn_markInvAnc _ _ h) c1.img_eq
  · split
    · exact vn_flushDirty h g.core.img_eq
    · obtain ⟨c1, e1, f1, s1⟩ := verifyAttach_spec (blocksAbove n (forkOf nd.tip n).length) nd
        (discAll nd.utxo nd.tip (nd.tip.length - (forkOf nd.tip n).length)) (forkOf nd.tip n) g.core has
      obtain ⟨v1, o1⟩ := vn_verifyAttach (blocksAbove n (forkOf nd.tip n).length) nd
        (discAll nd.utxo nd.tip (nd.tip.length - (forkOf nd.tip n).length)) (forkOf nd.tip n) h hv0
      generalize verifyAttach nd (discAll nd.utxo nd.tip (nd.tip.length - (forkOf nd.tip n).length))
        (forkOf nd.tip n) (blocksAbove n (forkOf nd.tip n).length) = r1 at c1 e1 f1 s1 v1 o1 ⊢
      obtain ⟨nd1, ok⟩ := r1
      simp only at c1 e1 f1 s1 v1 o1 ⊢
      have g1 : Good base nd1 := good_of_frame g c1 f1
      cases ok with
      | false => exact vn_flushDirty v1 c1.img_eq
      | true =>
        simp only [Bool.not_true, Bool.false_eq_true, if_false]
        obtain ⟨g2, e2, t2⟩ := disconnectN_spec hA (nd.tip.length - (forkOf nd.tip n).length) nd1 g1
        have v2 := vn_disconnectN hA (nd.tip.length - (forkOf nd.tip n).length) nd1 g1 v1
        generalize disconnectN (nd.tip.length - (forkOf nd.tip n).length) nd1 = r2 at g2 e2 t2 v2 ⊢
        obtain ⟨nd2, ok2⟩ := r2
        simp only at g2 e2 t2 v2 ⊢
        cases ok2 with
        | false => exact vn_flushDirty v2 g2.core.img_eq
        | true =>
          simp only
          have htip : nd2.tip = forkOf nd.tip n := by
            rw [t2 rfl, f1.1]; exact suffix_drop hf1
          have hall : ∀ a, a ∈ chainsOn nd2.tip (blocksAbove n (forkOf nd.tip n).length) →
              a ∈ nd2.img.stored ∧ a ∈ keys nd2.index := by
            intro a ha
            rw [htip] at ha
            refine ⟨e2.1 _ ?_, e2.2.1 _ (e1.2.1 _ (has a ha))⟩
            rw [f1.2.2]; exact s1 rfl a ha
          have hoks : ∀ b p, (b :: p) ∈ chainsOn nd2.tip (blocksAbove n (forkOf nd.tip n).length) →
              A.ok b (utxoOf A p) = true := by
            intro b p hm
            rw [htip] at hm
            exact o1 rfl b p hm
          obtain ⟨g3, _⟩ := connectAll_spec cfg hp (blocksAbove n (forkOf nd.tip n).length) nd2 g2 hall
          have v3 := vn_connectAll cfg hp (blocksAbove n (forkOf nd.tip n).length) nd2 g2 v2 hall hoks
          rw [htip] at g3 v3
          generalize connectAll cfg (chainsOn (forkOf nd.tip n) (blocksAbove n (forkOf nd.tip n).length)) nd2
            = r3 at g3 v3 ⊢
          obtain ⟨nd3, ok3⟩ := r3
          simp only at g3 v3 ⊢
          cases ok3 <;> exact vn_flushDirty v3 g3.core.img_eq

theorem vn_deliver {base : Image A} {nd : Node A} (hA : A.Lawful) (cfg : Cfg) (hp : cfg.prune = none)
    (g : Good base nd) (h : VN base nd) (b : Blk) (p : Chain) : VN base (deliver cfg nd b p).1 := by
  unfold deliver
  simp only
  split
  · exact h
  · split
    · exact h
    · split
      · exact ⟨h.sv, h.idx⟩
      · rename_i h3n
        have h3 : p ∈ keys nd.index := Decidable.not_not.mp h3n
        split
        · exact h
        · obtain ⟨c1, _⟩ := core_step (nd' := emit nd (.storeBlock (b :: p))) g.core (c := .storeBlock (b :: p))
            trivial rfl rfl rfl rfl rfl g.core.tip_eq
          have g1 : Good base (emit nd (.storeBlock (b :: p))) := ⟨c1, g.utxo_eq, g.marker_some⟩
          have hst1 : (b :: p) ∈ (emit nd (.storeBlock (b :: p))).img.stored := by simp [emit, apply]
          have v1 : VN base (emit nd (.storeBlock (b :: p))) := vn_emit h g.core.img_eq trivial
          obtain ⟨g2, e2, m2⟩ := good_setStatus g1 (a := b :: p) {} (Or.inr h3)
          have v2 : VN base (setStatus (emit nd (.storeBlock (b :: p))) (b :: p) {}) :=
            vn_setStatus v1 (fun hv => by simp at hv)
          obtain ⟨g3, e3⟩ := good_flushDirty g2
          have v3 := vn_flushDirty v2 g2.core.img_eq
          have hidx3 : (b :: p) ∈ keys (flushDirty (setStatus (emit nd (.storeBlock (b :: p))) (b :: p) {})).index :=
            e3.2.1 _ m2
          have hst3 : (b :: p) ∈ (flushDirty (setStatus (emit nd (.storeBlock (b :: p))) (b :: p) {})).img.stored :=
            e3.1 _ (e2.1 _ hst1)
          generalize flushDirty (setStatus (emit nd (.storeBlock (b :: p))) (b :: p) {}) = nd3 at g3 v3 hidx3 hst3 ⊢
          split
          · rename_i h5
            split
            · rename_i h6
              have hokp : A.ok b (utxoOf A p) = true := by rw [h5, ← g3.utxo_eq]; exact h6
              obtain ⟨g4, e4, _⟩ := good_setStatus g3 (a := b :: p) { valid := true } (Or.inl hidx3)
              have v4 : VN base (setStatus nd3 (b :: p) { valid := true }) :=
                vn_setStatus v3 (fun _ b' p' e => by injection e with e1 e2; rw [← e1, ← e2]; exact hokp)
              obtain ⟨g5, e5⟩ := good_flushDirty g4
              have v5 := vn_flushDirty v4 g4.core.img_eq
              have e35 := Ext.trans e4 e5
              have htip5 : (flushDirty (setStatus nd3 (b :: p) { valid := true })).tip = p := by
                rw [flushDirty_tip]; exact h5.symm
              generalize flushDirty (setStatus nd3 (b :: p) { valid := true }) = nd5 at g5 v5 e35 htip5 ⊢
              have hspec := connectBlock_spec (nd := { nd5 with utxo := A.conn b nd5.utxo }) cfg hp (n := b :: p)
                (core_with_utxo g5.core _) g5.marker_some (e35.1 _ hst3) (e35.2.1 _ hidx3)
                (by show A.conn b nd5.utxo = utxoOf A (b :: p); rw [g5.utxo_eq, htip5]; rfl)
              have hok := hspec.2.2 (by simp) (by show p = nd5.tip; exact htip5.symm)
              have v6 := vn_connectBlock (nd := { nd5 with utxo := A.conn b nd5.utxo }) cfg hp (n := b :: p)
                (core_with_utxo g5.core _) ⟨v5.sv, v5.idx⟩
                (fun b' e => by
                  injection e with e1 _
                  rw [← e1]
                  show A.ok b (utxoOf A nd5.tip) = true
                  rw [htip5]; exact hokp)
              generalize connectBlock cfg { nd5 with utxo := A.conn b nd5.utxo } (b :: p) = r at hspec hok v6 ⊢
              obtain ⟨nd6, ok⟩ := r
              simp only at hok
              subst hok
              exact v6
            · obtain ⟨g4, _, _⟩ := good_setStatus g3 (a := b :: p) { failed := true } (Or.inl hidx3)
              exact vn_flushDirty (vn_setStatus v3 (fun hv => by simp at hv)) g4.core.img_eq
          · split
            · exact v3
            · exact vn_reorg hA cfg hp g3 v3 hidx3

theorem vn_step {base : Image A} {nd : Node A} (hA : A.Lawful) (cfg : Cfg) (hp : cfg.prune = none)
    (g : Good base nd) (h : VN base nd) (o : Op) : VN base (step cfg nd o).1 := by
  cases o with
  | deliver b p => exact vn_deliver hA cfg hp g h b p
  | header b p =>
    simp only [step]
    split
    · exact h
    · split
      · exact ⟨h.sv, h.idx⟩
      · exact h
  | flushReq => exact vn_flushRequired h g.core.img_eq
  | flushIfNeeded => exact vn_flushIfNeeded cfg _ h g.core.img_eq
  | flushPeriodic =>
    show VN base (if cfg.cacheAlways then flushRequired nd else emit nd .nop)
    split
    · exact vn_flushRequired h g.core.img_eq
    · exact vn_emit h g.core.img_eq trivial

theorem vn_runOps {base : Image A} (hA : A.Lawful) (cfg : Cfg) (hp : cfg.prune = none) (ops : List Op) :
    ∀ (nd : Node A), Good base nd → VN base nd → VN base (runOps cfg nd ops) := by
  induction ops with
  | nil => intro nd _ h; exact h
  | cons o rest ih =>
    intro nd g h
    exact ih _ (step_spec hA cfg hp g o).1 (vn_step hA cfg hp g h o)

/-! ### start-up -/

theorem flushIfNeeded_img_eq {base : Image A} (cfg : Cfg) {nd : Node A} (a : Chain)
    (hi : nd.img = replay base nd.log) :
    (flushIfNeeded cfg nd a).img = replay base (flushIfNeeded cfg nd a).log := by
  unfold flushIfNeeded
  split
  · exact emit_img_eq hi _
  · split
    · exact emit_img_eq (nd := { nd with lastFlush := some a }) hi _
    · exact emit_img_eq hi _

theorem vn_replayBlocks {base : Image A} (cfg : Cfg) (bs : List Blk) : ∀ (cur : Chain) (nd nd' : Node A),
    VN base nd → nd.img = replay base nd.log → replayBlocks cfg bs cur nd = .ok nd' → VN base nd' := by
  induction bs with
  | nil => intro cur nd nd' h _ r; simp only [replayBlocks] at r; injection r with r; rw [← r]; exact h
  | cons b rest ih =>
    intro cur nd nd' h hi r
    simp only [replayBlocks] at r
    split at r
    · exact absurd r (by simp)
    · exact ih _ _ _ (vn_flushIfNeeded cfg _ (nd := { nd with utxo := A.conn b nd.utxo }) ⟨h.sv, h.idx⟩ hi)
        (flushIfNeeded_img_eq cfg _ (nd := { nd with utxo := A.conn b nd.utxo }) hi) r

theorem vn_initConsistent {base : Image A} (cfg : Cfg) {nd nd' : Node A} (h : VN base nd)
    (hi : nd.img = replay base nd.log) (r : initConsistent cfg nd = .ok nd') : VN base nd' := by
  unfold initConsistent at r
  split at r
  · injection r with r; rw [← r]
    have := vn_emit h hi (c := .setMarker nd.tip) trivial
    exact ⟨this.sv, this.idx⟩
  · split at r
    · injection r with r; rw [← r]; exact ⟨h.sv, h.idx⟩
    · split at r
      · exact absurd r (by simp)
      · simp only at r
        exact vn_replayBlocks cfg _ _ { nd with lastFlush := some _ } nd' ⟨h.sv, h.idx⟩ hi r

theorem vn_markValid {base : Image A} (l : List Chain) : ∀ (nd : Node A), VN base nd →
    (∀ a, a ∈ l → ∀ b p, a = b :: p → A.ok b (utxoOf A p) = true) → VN base (markValid nd l) := by
  induction l with
  | nil => intro nd h _; exact h
  | cons a rest ih =>
    intro nd h hall
    simp only [markValid]
    split
    · exact ih nd h (fun x hx => hall x (by simp [hx]))
    · exact ih _ (vn_setStatus h (fun _ b p e => hall a (by simp) b p e)) (fun x hx => hall x (by simp [hx]))

/-- start-up on an image whose chain and rows are justified gives a justified node -/
theorem vn_recover {img : Image A} (cfg : Cfg) (hi : Inv img) (hv : VI img) {rn : Node A}
    (r : recover cfg img = .ok rn) : VN img rn := by
  unfold recover at r
  simp only [hi.created, Bool.not_true, Bool.false_eq_true, if_false] at r
  split at r
  · exact absurd r (by simp)
  · split at r
    · exact absurd r (by simp)
    · split at r
      · exact absurd r (by simp)
      · have c0 : Core img (bootNode img img.rows img.best) :=
          { img_eq := rfl
            sound := sound_nil (Or.inr hi)
            created := hi.created
            tip_eq := rfl
            idx_closed := hi.rows_closed
            idx_rows := fun n hn => Or.inl hn
            dirty_idx := fun n hn => by simp [bootNode] at hn }
        have v0 : VN img (bootNode img img.rows img.best) := ⟨soundV_nil hv, hv.2⟩
        obtain ⟨c1, _, _⟩ := markValid_spec (suffixes img.best) _ c0
          (fun a ha => closed_suffix hi.rows_closed hi.tip_row (mem_suffixes.mp ha))
        have v1 := vn_markValid (suffixes img.best) _ v0
          (fun a ha b p e => hv.1 b p (e ▸ mem_suffixes.mp ha))
        obtain ⟨c2, _⟩ := core_flushDirty c1
        have v2 := vn_flushDirty v1 c1.img_eq
        have v3 := vn_emit v2 c2.img_eq (c := .nop) trivial
        exact vn_initConsistent cfg v3 (emit_img_eq c2.img_eq _) r

theorem vi_empty : VI (Image.empty A) := ⟨vchain_nil, fun _ _ _ hm => by simp [Image.empty] at hm⟩

theorem vn_recover_empty (cfg : Cfg) {nd0 : Node A} (r : recover cfg (Image.empty A) = .ok nd0) :
    VN (Image.empty A) nd0 := by
  unfold recover at r
  have hcr : (Image.empty A).created = false := rfl
  simp only [hcr, Bool.not_false, if_true] at r
  have v0 : VN (Image.empty A) (bootNode (Image.empty A) [([], genesisStatus)] []) :=
    ⟨soundV_nil vi_empty, fun b p s hm => by simp [bootNode] at hm⟩
  have hi0 : (bootNode (Image.empty A) [([], genesisStatus)] []).img
      = replay (Image.empty A) (bootNode (Image.empty A) [([], genesisStatus)] []).log := rfl
  have v1 := vn_emit v0 hi0 (c := .create) trivial
  have v2 := vn_emit v1 (emit_img_eq hi0 _) (c := .nop) trivial
  exact vn_initConsistent cfg v2 (emit_img_eq (emit_img_eq hi0 _) _) r

/-- Every prefix of every workload's commit list: the persisted active chain consists of
blocks that `A.ok` accepted on the fold of their predecessors, and every row marked
valid is justified. -/
theorem prefix_valid_aux (hA : A.Lawful) (cfg : Cfg) (hp : cfg.prune = none) (ops : List Op) (nd0 : Node A)
    (h0 : recover cfg (Image.empty A) = .ok nd0) (k : Nat) :
    VI (replay (Image.empty A) ((runOps cfg nd0 ops).log.take k)) := by
  obtain ⟨nd0', r0, g0, _⟩ := recover_empty_spec (A := A) cfg
  have v0 := vn_recover_empty cfg r0
  rw [r0] at h0
  have hnd : nd0' = nd0 := by injection h0
  subst hnd
  exact (vn_runOps hA cfg hp ops nd0' g0 v0).sv k

end BV.C04
