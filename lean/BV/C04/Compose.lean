/-
C04 composition lemmas: (1) the C03 instance of the unspent-output algebra is
lawful — by C03's `undoBlock_applyBlock` (= `BV.C03.undo_apply_id`) and
`blockOk_valid` — and its fold is C03's Spec fold; (2) C05's durability model
(`BV.C05.prefix_durable`, here through the same lemmas `crash_safe`/`init_inv`)
supplies "a crash leaves the image of a prefix of the commits".
-/
import BV.C04.Lemmas11
import BV.C04.C03Alg
import BV.C03.ValidLemmas
import BV.C05.Lemmas2
namespace BV.C04
open BV.C03 BV.C03.Spec

/-! ### (1) C03 -/

theorem c03_lawful : C03Alg.Lawful := by
  intro b s
  show c03disc b (c03conn b s) = s
  unfold c03conn
  by_cases h : c03ok b s = true
  · rw [if_pos h]
    have hv : validBlock s.set (s.height + 1) (toBlock b) :=
      BV.C03.Lemmas.blockOk_valid maturity s.set (s.height + 1) (toBlock b) h
    have hu := BV.C03.Lemmas.undoBlock_applyBlock s.set (s.height + 1) (toBlock b) hv
    simp only [c03disc, hu, Option.getD_some, Nat.add_sub_cancel]
    cases s; rfl
  · rw [if_neg h]
    simp only [c03disc, Nat.add_sub_cancel]
    cases s; rfl

theorem c03_height (c : Chain) : (utxoOf C03Alg c).height = c.length := by
  induction c with
  | nil => rfl
  | cons b c ih =>
    show (c03conn b (utxoOf C03Alg c)).height = _
    unfold c03conn
    split <;> simp [ih]

/-- Every block of the chain is accepted by C03's check on top of its predecessors. -/
def ChainOk : Chain → Prop
  | [] => True
  | b :: c => c03ok b (utxoOf C03Alg c) = true ∧ ChainOk c

/-- The fold used by the C04 theorems IS C03's Spec fold of the corresponding C03
blocks (tip-first `utxoRev`, i.e. `Spec.utxoOf` of the genesis-first chain). -/
theorem c03_fold (c : Chain) (h : ChainOk c) :
    (utxoOf C03Alg c).set = BV.C03.Lemmas.utxoRev (c.map toBlock) := by
  induction c with
  | nil => rfl
  | cons b c ih =>
    obtain ⟨h1, h2⟩ := h
    show (c03conn b (utxoOf C03Alg c)).set = _
    unfold c03conn
    rw [if_pos h1]
    simp only [List.map_cons, BV.C03.Lemmas.utxoRev, List.length_map]
    rw [ih h2, c03_height]

theorem c03_fold_spec (c : Chain) (h : ChainOk c) :
    (utxoOf C03Alg c).set = Spec.utxoOf (c.reverse.map toBlock) := by
  rw [c03_fold c h, ← BV.C03.Lemmas.utxoOf_reverse, List.map_reverse]

theorem chainOk_of_vchain : ∀ (c : Chain), VChain C03Alg c → ChainOk c := by
  intro c
  induction c with
  | nil => intro _; trivial
  | cons b c ih =>
    intro h
    refine ⟨?_, ih (vchain_suffix h (List.suffix_cons b c))⟩
    have := h b c (List.suffix_refl _)
    have h2 : (!b.bad && c03ok b (utxoOf C03Alg c)) = true := this
    simp only [Bool.and_eq_true] at h2
    exact h2.2

/-- For every workload and every prefix of its commit list the reopened node's unspent-output
set is C03's Spec fold of the blocks of its tip — no validity hypothesis left: that the
persisted chain consists of blocks C03's check accepted is `prefix_valid_aux`. -/
theorem recovered_is_c03_fold (cfg cfg' : Cfg) (hp : cfg.prune = none) (ops : List Op)
    (nd0 : Node C03Alg) (h0 : recover cfg (Image.empty C03Alg) = .ok nd0) (k : Nat) :
    ∃ rn, recover cfg' (replay (Image.empty C03Alg) ((runOps cfg nd0 ops).log.take k)) = .ok rn ∧
      rn.tip ∈ activeTips ((runOps cfg nd0 ops).log.take k) ∧
      rn.utxo.set = Spec.utxoOf (rn.tip.reverse.map toBlock) ∧
      (∀ n, n ∈ rowKeys ((runOps cfg nd0 ops).log.take k) → n ∈ keys rn.index) := by
  have hvi := prefix_valid_aux c03_lawful cfg hp ops nd0 h0 k
  obtain ⟨nd0', r0, g0, _⟩ := recover_empty_spec (A := C03Alg) cfg
  rw [r0] at h0
  have hnd : nd0' = nd0 := by injection h0
  subst hnd
  obtain ⟨gfin, _⟩ := runOps_spec c03_lawful cfg hp ops nd0' g0
  have hs := (gfin.core.sound k).1
  rcases hs with hs | hs
  · rw [hs]
    obtain ⟨rn, r, g, t⟩ := recover_empty_spec (A := C03Alg) cfg'
    refine ⟨rn, r, ?_, ?_, ?_⟩
    · rw [t]; exact List.mem_cons_self
    · rw [g.utxo_eq, t]; rfl
    · intro n hn
      have := (rows_replay _ (Image.empty C03Alg) n).mpr (Or.inr hn)
      rw [hs] at this
      simp [Image.empty, keys] at this
  · obtain ⟨rn, r, g, t, hrows⟩ := recover_spec cfg' hs
    refine ⟨rn, r, ?_, ?_, ?_⟩
    · rw [t]
      rcases best_replay ((runOps cfg nd0' ops).log.take k) (Image.empty C03Alg) with h | h
      · rw [h]; exact List.mem_cons_self
      · exact List.mem_cons_of_mem _ h
    · rw [g.utxo_eq]
      apply c03_fold_spec
      rw [t]
      exact chainOk_of_vchain _ hvi.1
    · intro n hn
      exact hrows n ((rows_replay _ (Image.empty C03Alg) n).mpr (Or.inr hn))

/-! ### (2) C05 -/

open BV.C05 in
/-- C05's `prefix_durable` for C04's commits: run the commit list of a node
through ffldb's write path (each commit taking the cache or the flush path,
explicit flushes in between) and let a crash strike between ANY two I/O steps:
the image on disk is `replay` of a prefix of the commit list.  What remains
assumed is what C05's durability model assumes: a leveldb transaction commit is
atomic and durable (goleveldb), and block data reaches the disk when synced. -/
theorem crash_image_is_prefix {A : UtxoAlg} (evs : List (DEvent (Commit A)))
    (d : DState (Image A) (Commit A))
    (hc : CrashAt apply (BV.C05.init (Image.empty A)) evs d) :
    d.nDisk ≤ d.nSynced ∧ d.nDisk ≤ (commitsOf evs).length ∧
    crashImage d = replay (Image.empty A) ((commitsOf evs).take d.nDisk) := by
  have := BV.C05.Lemmas.crash_safe apply (Image.empty A) (BV.C05.init (Image.empty A)) evs d
    (BV.C05.Lemmas.init_inv apply (Image.empty A)) hc
  simp only [BV.C05.Lemmas.CrashSafe, BV.C05.init, List.nil_append] at this
  exact this

end BV.C04
