/-
C04 — Lemmas, part 9: every block of every persisted active chain was accepted
by `A.ok` on top of its predecessors (so that, for the C03 instance, the fold of a
recovered tip is C03's Spec fold).  A parallel tower next to `Good`: `VN`.
-/
import BV.C04.Lemmas8
namespace BV.C04

variable {A : UtxoAlg}

/-- every block of the chain passed `A.ok` on the fold of its predecessors -/
def VChain (A : UtxoAlg) (c : Chain) : Prop := ∀ b p, (b :: p) <:+ c → A.ok b (utxoOf A p) = true

/-- every index entry marked valid passed `A.ok` on the fold of its parent chain -/
def IV (A : UtxoAlg) (r : Rows) : Prop :=
  ∀ b p s, (b :: p, s) ∈ r → s.valid = true → A.ok b (utxoOf A p) = true

def VI (img : Image A) : Prop := VChain A img.best ∧ IV A img.rows

def SafeV (img : Image A) : Commit A → Prop
  | .indexRows rs => IV A rs
  | .connect n _ => ∃ b, n = b :: img.best ∧ A.ok b (utxoOf A img.best) = true
  | .connectPrune n _ _ => ∃ b, n = b :: img.best ∧ A.ok b (utxoOf A img.best) = true
  | .disconnect n _ => n = img.best
  | _ => True

theorem vchain_nil : VChain A [] := by
  intro b p h
  have := List.suffix_nil.mp h
  simp at this

theorem vchain_cons {b : Blk} {p : Chain} (h : VChain A p) (hok : A.ok b (utxoOf A p) = true) :
    VChain A (b :: p) := by
  intro b' p' hs
  rcases List.suffix_cons_iff.mp hs with h1 | h1
  · injection h1 with hb hp; subst hb; subst hp; exact hok
  · exact h b' p' h1

theorem vchain_suffix {c s : Chain} (h : VChain A c) (hs : s <:+ c) : VChain A s :=
  fun b p hbp => h b p (List.IsSuffix.trans hbp hs)

theorem mem_upsert {r : Rows} {c : Chain} {s : Status} {e : Chain × Status} (h : e ∈ upsert r c s) :
    e = (c, s) ∨ e ∈ r := by
  induction r with
  | nil => simp [upsert] at h; exact Or.inl h
  | cons x t ih =>
    unfold upsert at h
    split at h
    · rcases List.mem_cons.mp h with h1 | h1
      · exact Or.inl h1
      · exact Or.inr (List.mem_cons_of_mem _ h1)
    · rcases List.mem_cons.mp h with h1 | h1
      · exact Or.inr (h1 ▸ List.mem_cons_self)
      · rcases ih h1 with h2 | h2
        · exact Or.inl h2
        · exact Or.inr (List.mem_cons_of_mem _ h2)

theorem mem_foldl_upsert (rs : Rows) : ∀ (r : Rows) (e : Chain × Status),
    e ∈ rs.foldl (fun r e => upsert r e.1 e.2) r → e ∈ rs ∨ e ∈ r := by
  induction rs with
  | nil => intro r e h; exact Or.inr h
  | cons x t ih =>
    intro r e h
    simp only [List.foldl_cons] at h
    rcases ih _ e h with h1 | h1
    · exact Or.inl (List.mem_cons_of_mem _ h1)
    · rcases mem_upsert h1 with h2 | h2
      · left; rw [h2]; exact List.mem_cons_self
      · exact Or.inr h2

theorem iv_upsert {r : Rows} {a : Chain} {s : Status} (h : IV A r)
    (hs : s.valid = true → ∀ b p, a = b :: p → A.ok b (utxoOf A p) = true) : IV A (upsert r a s) := by
  intro b p s' hm hv
  rcases mem_upsert hm with h1 | h1
  · injection h1 with h2 h3
    subst h3
    exact hs hv b p h2.symm
  · exact h b p s' h1 hv

theorem lookup_mem {r : Rows} {c : Chain} {s : Status} (h : r.lookup c = some s) : (c, s) ∈ r := by
  induction r with
  | nil => simp at h
  | cons x t ih =>
    obtain ⟨k, v⟩ := x
    simp only [List.lookup_cons] at h
    split at h
    · rename_i heq
      injection h with h
      have : c = k := by simpa using heq
      rw [this, h]; exact List.mem_cons_self
    · exact List.mem_cons_of_mem _ (ih h)

theorem iv_statusOf {r : Rows} (h : IV A r) {b : Blk} {p : Chain}
    (hv : (statusOf r (b :: p)).valid = true) : A.ok b (utxoOf A p) = true := by
  unfold statusOf at hv
  cases hl : r.lookup (b :: p) with
  | none => rw [hl] at hv; simp at hv
  | some s => rw [hl] at hv; exact h b p s (lookup_mem hl) hv

theorem vi_apply {img : Image A} {c : Commit A} (h : VI img) (hs : SafeV img c) : VI (apply img c) := by
  obtain ⟨h1, h2⟩ := h
  cases c with
  | create =>
    refine ⟨vchain_nil, ?_⟩
    show IV A (upsert img.rows [] genesisStatus)
    exact iv_upsert h2 (fun _ b p e => by simp at e)
  | nop => exact ⟨h1, h2⟩
  | setMarker m => exact ⟨h1, h2⟩
  | storeBlock n => exact ⟨h1, h2⟩
  | indexRows rs =>
    refine ⟨h1, ?_⟩
    intro b p s hm hv
    rcases mem_foldl_upsert rs img.rows _ hm with h3 | h3
    · exact hs b p s h3 hv
    · exact h2 b p s h3 hv
  | connect n fl =>
    obtain ⟨b, hn, hok⟩ := hs
    subst hn
    cases fl <;> exact ⟨vchain_cons h1 hok, h2⟩
  | connectPrune n ps fl =>
    obtain ⟨b, hn, hok⟩ := hs
    subst hn
    cases fl <;> exact ⟨vchain_cons h1 hok, h2⟩
  | disconnect n u =>
    have hn : n = img.best := hs
    refine ⟨?_, h2⟩
    show VChain A n.tail
    rw [hn]
    apply vchain_suffix h1
    cases img.best with
    | nil => exact List.suffix_refl _
    | cons b t => exact List.suffix_cons b t
  | utxoFlush u m => exact ⟨h1, h2⟩

def SoundV (base : Image A) (log : List (Commit A)) : Prop := ∀ k, VI (replay base (log.take k))

theorem soundV_snoc {base : Image A} {log : List (Commit A)} {c : Commit A}
    (h : SoundV base log) (hs : SafeV (replay base log) c) : SoundV base (log ++ [c]) := by
  intro k
  by_cases hk : k ≤ log.length
  · rw [List.take_append_of_le_length hk]; exact h k
  · have h1 : (log ++ [c]).take k = log ++ [c] := List.take_of_length_le (by simp; omega)
    rw [h1, replay_snoc]
    have h2 := h log.length
    rw [List.take_length] at h2
    exact vi_apply h2 hs

theorem soundV_nil {base : Image A} (h : VI base) : SoundV base [] := by
  intro k
  have : (([] : List (Commit A)).take k) = [] := by cases k <;> rfl
  rw [this]; exact h

/-- the validity tower next to `Good` -/
structure VN (base : Image A) (nd : Node A) : Prop where
  sv : SoundV base nd.log
  idx : IV A nd.index

theorem VN.vi {base : Image A} {nd : Node A} (h : VN base nd) (hi : nd.img = replay base nd.log) : VI nd.img := by
  have := h.sv nd.log.length
  rw [List.take_length, ← hi] at this
  exact this

theorem vn_emit {base : Image A} {nd : Node A} (h : VN base nd) (hi : nd.img = replay base nd.log)
    {c : Commit A} (hs : SafeV nd.img c) : VN base (emit nd c) :=
  ⟨soundV_snoc h.sv (hi ▸ hs), h.idx⟩

theorem vn_setStatus {base : Image A} {nd : Node A} (h : VN base nd) {a : Chain} {s : Status}
    (hs : s.valid = true → ∀ b p, a = b :: p → A.ok b (utxoOf A p) = true) : VN base (setStatus nd a s) :=
  ⟨h.sv, iv_upsert h.idx hs⟩

/-- a status derived from the current one keeps its justification -/
theorem vn_setStatus_keep {base : Image A} {nd : Node A} (h : VN base nd) {a : Chain} {s : Status}
    (hs : s.valid = true → (statusOf nd.index a).valid = true) : VN base (setStatus nd a s) :=
  vn_setStatus h (fun hv b p e => by subst e; exact iv_statusOf h.idx (hs hv))

theorem vn_flushDirty {base : Image A} {nd : Node A} (h : VN base nd) (hi : nd.img = replay base nd.log) :
    VN base (flushDirty nd) := by
  unfold flushDirty
  split
  · exact h
  · refine vn_emit (nd := { nd with dirty := [] }) ⟨h.sv, h.idx⟩ hi ?_
    intro b p s hm hv
    simp only [List.mem_map] at hm
    obtain ⟨c, _, hc⟩ := hm
    injection hc with h1 h2
    subst h1; subst h2
    exact iv_statusOf h.idx hv

end BV.C04
