/-
C04 — Lemmas, part 4: reorganisation, block delivery, whole workloads.
-/
import BV.C04.Lemmas3
namespace BV.C04

variable {A : UtxoAlg}

/-- Changes confined to the in-memory block index. -/
def Frame (nd nd' : Node A) : Prop := nd'.tip = nd.tip ∧ nd'.utxo = nd.utxo ∧ nd'.img = nd.img

theorem Frame.refl (nd : Node A) : Frame nd nd := ⟨rfl, rfl, rfl⟩
theorem Frame.trans {a b c : Node A} (h1 : Frame a b) (h2 : Frame b c) : Frame a c :=
  ⟨h2.1.trans h1.1, h2.2.1.trans h1.2.1, h2.2.2.trans h1.2.2⟩

theorem good_of_frame {base : Image A} {nd nd' : Node A} (h : Good base nd) (c : Core base nd')
    (f : Frame nd nd') : Good base nd' :=
  ⟨c, by rw [f.2.1, f.1]; exact h.utxo_eq, by rw [f.2.2]; exact h.marker_some⟩

theorem good_flushDirty {base : Image A} {nd : Node A} (h : Good base nd) :
    Good base (flushDirty nd) ∧ Ext nd (flushDirty nd) := by
  obtain ⟨c, e⟩ := core_flushDirty h.core
  exact ⟨⟨c, by rw [flushDirty_utxo, flushDirty_tip]; exact h.utxo_eq,
    by rw [flushDirty_marker]; exact h.marker_some⟩, e⟩

theorem markInvAnc_spec {base : Image A} (l : List Chain) : ∀ (nd : Node A), Core base nd →
    (∀ a, a ∈ l → a ∈ keys nd.index) →
    Core base (markInvAnc nd l) ∧ Ext nd (markInvAnc nd l) ∧ Frame nd (markInvAnc nd l) := by
  induction l with
  | nil => intro nd h _; exact ⟨h, Ext.refl nd, Frame.refl nd⟩
  | cons a rest ih =>
    intro nd h hall
    simp only [markInvAnc]
    obtain ⟨c1, e1, _⟩ := core_setStatus h { statusOf nd.index a with invAnc := true }
      (Or.inl (hall a (by simp)))
    obtain ⟨c2, e2, f2⟩ := ih _ c1 (fun x hx => e1.2.1 _ (hall x (by simp [hx])))
    exact ⟨c2, Ext.trans e1 e2, Frame.trans (⟨rfl, rfl, rfl⟩ : Frame nd (setStatus nd a _)) f2⟩

theorem verifyAttach_spec {base : Image A} (bs : List Blk) : ∀ (nd : Node A) (v : A.U) (cur : Chain),
    Core base nd → (∀ a, a ∈ chainsOn cur bs → a ∈ keys nd.index) →
    Core base (verifyAttach nd v cur bs).1 ∧ Ext nd (verifyAttach nd v cur bs).1 ∧
    Frame nd (verifyAttach nd v cur bs).1 ∧
    ((verifyAttach nd v cur bs).2 = true → ∀ a, a ∈ chainsOn cur bs → a ∈ nd.img.stored) := by
  induction bs with
  | nil =>
    intro nd v cur h _
    exact ⟨h, Ext.refl nd, Frame.refl nd, fun _ a ha => by simp [chainsOn] at ha⟩
  | cons b rest ih =>
    intro nd v cur h hall
    have hrest : ∀ a, a ∈ chainsOn (b :: cur) rest → a ∈ keys nd.index :=
      fun a ha => hall a (by simp only [chainsOn, List.mem_cons]; exact Or.inr ha)
    have hidx : (b :: cur) ∈ keys nd.index := hall _ (by simp [chainsOn])
    simp only [verifyAttach]
    by_cases hst : (b :: cur) ∈ nd.img.stored
    · rw [if_neg (fun hh => hh hst)]
      by_cases hv : (statusOf nd.index (b :: cur)).valid = true
      · rw [if_pos hv]
        obtain ⟨c1, e1, f1, s1⟩ := ih nd (A.conn b v) (b :: cur) h hrest
        refine ⟨c1, e1, f1, fun hok a ha => ?_⟩
        simp only [chainsOn, List.mem_cons] at ha
        rcases ha with ha | ha
        · subst ha; exact hst
        · exact s1 hok a ha
      · rw [if_neg hv]
        by_cases hok : A.ok b v = true
        · rw [if_pos hok]
          obtain ⟨c0, e0, _⟩ := core_setStatus h { statusOf nd.index (b :: cur) with valid := true }
            (Or.inl hidx)
          obtain ⟨c1, e1, f1, s1⟩ := ih _ (A.conn b v) (b :: cur) c0 (fun a ha => e0.2.1 _ (hrest a ha))
          refine ⟨c1, Ext.trans e0 e1,
            Frame.trans (⟨rfl, rfl, rfl⟩ : Frame nd (setStatus nd (b :: cur) _)) f1, fun hok' a ha => ?_⟩
          simp only [chainsOn, List.mem_cons] at ha
          rcases ha with ha | ha
          · subst ha; exact hst
          · exact s1 hok' a ha
        · rw [if_neg hok]
          obtain ⟨c0, e0, _⟩ := core_setStatus h { statusOf nd.index (b :: cur) with failed := true }
            (Or.inl hidx)
          obtain ⟨c1, e1, f1⟩ := markInvAnc_spec (chainsOn (b :: cur) rest) _ c0
            (fun a ha => e0.2.1 _ (hrest a ha))
          exact ⟨c1, Ext.trans e0 e1,
            Frame.trans (⟨rfl, rfl, rfl⟩ : Frame nd (setStatus nd (b :: cur) _)) f1,
            fun hf => absurd hf (by simp)⟩
    · rw [if_pos hst]
      exact ⟨h, Ext.refl nd, Frame.refl nd, fun hf => absurd hf (by simp)⟩

theorem reorg_spec {base : Image A} {nd : Node A} (hA : A.Lawful) (cfg : Cfg) (hp : cfg.prune = none) {n : Chain}
    (h : Good base nd) (hn : n ∈ keys nd.index) :
    Good base (reorg cfg nd n).1 ∧ Ext nd (reorg cfg nd n).1 := by
  have hf1 : forkOf nd.tip n <:+ nd.tip := forkOf_suffix_left _ _
  have hf2 : forkOf nd.tip n <:+ n := forkOf_suffix_right _ _
  have has : ∀ a, a ∈ chainsOn (forkOf nd.tip n) (blocksAbove n (forkOf nd.tip n).length) → a ∈ keys nd.index := by
    intro a ha
    have := chainsOn_suffix ha
    rw [blocksAbove_append hf2] at this
    exact closed_suffix h.core.idx_closed hn this
  unfold reorg
  simp only
  split
  · -- known-invalid member
    obtain ⟨c1, e1, f1⟩ := markInvAnc_spec
      ((chainsOn (forkOf nd.tip n) (blocksAbove n (forkOf nd.tip n).length)).reverse.takeWhile
        (fun a => !(statusOf nd.index a).knownInvalid)) nd h.core
      (fun a ha => has a (List.mem_reverse.mp ((List.takeWhile_sublist _).subset ha)))
    obtain ⟨g2, e2⟩ := good_flushDirty (good_of_frame h c1 f1)
    exact ⟨g2, Ext.trans e1 e2⟩
  · split
    · exact good_flushDirty h
    · obtain ⟨c1, e1, f1, s1⟩ := verifyAttach_spec (blocksAbove n (forkOf nd.tip n).length) nd
        (discAll nd.utxo nd.tip (nd.tip.length - (forkOf nd.tip n).length)) (forkOf nd.tip n) h.core has
      cases hva : verifyAttach nd (discAll nd.utxo nd.tip (nd.tip.length - (forkOf nd.tip n).length))
          (forkOf nd.tip n) (blocksAbove n (forkOf nd.tip n).length) with
      | mk nd1 ok =>
        rw [hva] at c1 e1 f1 s1
        simp only at c1 e1 f1 s1 ⊢
        have g1 : Good base nd1 := good_of_frame h c1 f1
        cases ok with
        | false =>
          obtain ⟨g2, e2⟩ := good_flushDirty g1
          exact ⟨g2, Ext.trans e1 e2⟩
        | true =>
          simp only [Bool.not_true, Bool.false_eq_true, if_false]
          obtain ⟨g2, e2, t2⟩ := disconnectN_spec hA (nd.tip.length - (forkOf nd.tip n).length) nd1 g1
          cases hdn : disconnectN (nd.tip.length - (forkOf nd.tip n).length) nd1 with
          | mk nd2 ok2 =>
            rw [hdn] at g2 e2 t2
            simp only at g2 e2 t2 ⊢
            cases ok2 with
            | false =>
              obtain ⟨g3, e3⟩ := good_flushDirty g2
              exact ⟨g3, Ext.trans e1 (Ext.trans e2 e3)⟩
            | true =>
              simp only
              have htip : nd2.tip = forkOf nd.tip n := by
                rw [t2 rfl, f1.1]; exact suffix_drop hf1
              have hall : ∀ a, a ∈ chainsOn nd2.tip (blocksAbove n (forkOf nd.tip n).length) →
                  a ∈ nd2.img.stored ∧ a ∈ keys nd2.index := by
                intro a ha
                rw [htip] at ha
                refine ⟨e2.1 _ ?_, e2.2.1 _ (e1.2.1 _ (has a ha))⟩
                rw [f1.2.2]; exact s1 rfl a ha
              obtain ⟨g3, e3⟩ := connectAll_spec cfg hp (blocksAbove n (forkOf nd.tip n).length) nd2 g2 hall
              rw [htip] at g3 e3
              cases hca : connectAll cfg (chainsOn (forkOf nd.tip n) (blocksAbove n (forkOf nd.tip n).length)) nd2 with
              | mk nd3 ok3 =>
                rw [hca] at g3 e3
                simp only at g3 e3 ⊢
                obtain ⟨g4, e4⟩ := good_flushDirty g3
                cases ok3 <;> exact ⟨g4, Ext.trans e1 (Ext.trans e2 (Ext.trans e3 e4))⟩

theorem good_setStatus {base : Image A} {nd : Node A} (h : Good base nd) {a : Chain} (s : Status)
    (ha : a ∈ keys nd.index ∨ a.tail ∈ keys nd.index) :
    Good base (setStatus nd a s) ∧ Ext nd (setStatus nd a s) ∧ a ∈ keys (setStatus nd a s).index := by
  obtain ⟨c, e, m⟩ := core_setStatus h.core s ha
  exact ⟨good_of_frame h c ⟨rfl, rfl, rfl⟩, e, m⟩

theorem deliver_spec {base : Image A} {nd : Node A} (hA : A.Lawful) (cfg : Cfg) (hp : cfg.prune = none)
    (h : Good base nd)
    (b : Blk) (p : Chain) :
    Good base (deliver cfg nd b p).1 ∧ Ext nd (deliver cfg nd b p).1 ∧
    (((deliver cfg nd b p).2 = .okMain ∨ (deliver cfg nd b p).2 = .okSide) →
      (b :: p) ∈ keys (deliver cfg nd b p).1.img.rows) := by
  unfold deliver
  simp only
  by_cases h1 : (b :: p) ∈ keys nd.index
  · rw [if_pos h1]; exact ⟨h, Ext.refl nd, fun hh => by simp at hh⟩
  rw [if_neg h1]
  by_cases h2 : (b :: p) ∈ nd.orphans
  · rw [if_pos h2]; exact ⟨h, Ext.refl nd, fun hh => by simp at hh⟩
  rw [if_neg h2]
  by_cases h3n : p ∉ keys nd.index
  · rw [if_pos h3n]
    exact ⟨⟨⟨h.core.img_eq, h.core.sound, h.core.created, h.core.tip_eq, h.core.idx_closed,
      h.core.idx_rows, h.core.dirty_idx⟩, h.utxo_eq, h.marker_some⟩, ⟨fun _ hx => hx, fun _ hx => hx, fun hm => hm, fun _ hx => hx, List.prefix_refl _⟩, fun hh => by simp at hh⟩
  rw [if_neg h3n]
  have h3 : p ∈ keys nd.index := Decidable.not_not.mp h3n
  by_cases h4 : (statusOf nd.index p).knownInvalid = true
  · rw [if_pos h4]; exact ⟨h, Ext.refl nd, fun hh => by simp at hh⟩
  rw [if_neg h4]
  -- store, index row
  obtain ⟨c1, e1⟩ := core_step (nd' := emit nd (.storeBlock (b :: p))) h.core (c := .storeBlock (b :: p))
    trivial rfl rfl rfl rfl rfl h.core.tip_eq
  have g1 : Good base (emit nd (.storeBlock (b :: p))) := ⟨c1, h.utxo_eq, h.marker_some⟩
  have hst1 : (b :: p) ∈ (emit nd (.storeBlock (b :: p))).img.stored := by simp [emit, apply]
  obtain ⟨g2, e2, m2⟩ := good_setStatus g1 (a := b :: p) {} (Or.inr h3)
  obtain ⟨g3, e3⟩ := good_flushDirty g2
  have hidx3 : (b :: p) ∈ keys (flushDirty (setStatus (emit nd (.storeBlock (b :: p))) (b :: p) {})).index :=
    e3.2.1 _ m2
  have hst3 : (b :: p) ∈ (flushDirty (setStatus (emit nd (.storeBlock (b :: p))) (b :: p) {})).img.stored :=
    e3.1 _ (e2.1 _ hst1)
  have e03 := Ext.trans e1 (Ext.trans e2 e3)
  have hrow3 : (b :: p) ∈ keys (flushDirty (setStatus (emit nd (.storeBlock (b :: p))) (b :: p) {})).img.rows :=
    rows_of_flushed g3.core (flushDirty_dirty _) hidx3
  generalize flushDirty (setStatus (emit nd (.storeBlock (b :: p))) (b :: p) {}) = nd3 at g3 hidx3 hst3 e03 hrow3 ⊢
  by_cases h5 : p = nd3.tip
  · rw [if_pos h5]
    by_cases h6 : A.ok b nd3.utxo = true
    · rw [if_pos h6]
      obtain ⟨g4, e4, m4⟩ := good_setStatus g3 (a := b :: p) { valid := true } (Or.inl hidx3)
      obtain ⟨g5, e5⟩ := good_flushDirty g4
      have e35 := Ext.trans e4 e5
      have htip5 : (flushDirty (setStatus nd3 (b :: p) { valid := true })).tip = p := by
        rw [flushDirty_tip]; exact h5.symm
      generalize flushDirty (setStatus nd3 (b :: p) { valid := true }) = nd5 at g5 e35 htip5 ⊢
      have hspec := connectBlock_spec (nd := { nd5 with utxo := A.conn b nd5.utxo }) cfg hp (n := b :: p)
        (core_with_utxo g5.core _) g5.marker_some (e35.1 _ hst3) (e35.2.1 _ hidx3)
        (by show A.conn b nd5.utxo = utxoOf A (b :: p); rw [g5.utxo_eq, htip5]; rfl)
      have hok := hspec.2.2 (by simp) (by show p = nd5.tip; exact htip5.symm)
      cases hcb : connectBlock cfg { nd5 with utxo := A.conn b nd5.utxo } (b :: p) with
      | mk nd6 ok =>
        rw [hcb] at hspec hok
        simp only at hok
        subst hok
        simp only
        obtain ⟨g6, _, e6⟩ := hspec.1 rfl
        have e6' : Ext nd5 nd6 := e6
        exact ⟨g6, Ext.trans e03 (Ext.trans e35 e6'), fun _ => e6'.2.2.2.1 _ (e35.2.2.2.1 _ hrow3)⟩
    · rw [if_neg h6]
      obtain ⟨g4, e4, _⟩ := good_setStatus g3 (a := b :: p) { failed := true } (Or.inl hidx3)
      obtain ⟨g5, e5⟩ := good_flushDirty g4
      exact ⟨g5, Ext.trans e03 (Ext.trans e4 e5), fun _ => e5.2.2.2.1 _ (e4.2.2.2.1 _ hrow3)⟩
  · rw [if_neg h5]
    by_cases h7 : (b :: p).length ≤ nd3.tip.length
    · rw [if_pos h7]; exact ⟨g3, e03, fun _ => hrow3⟩
    · rw [if_neg h7]
      obtain ⟨g4, e4⟩ := reorg_spec hA cfg hp g3 hidx3
      exact ⟨g4, Ext.trans e03 e4, fun _ => e4.2.2.2.1 _ hrow3⟩

theorem step_spec {base : Image A} {nd : Node A} (hA : A.Lawful) (cfg : Cfg) (hp : cfg.prune = none)
    (h : Good base nd) (o : Op) :
    Good base (step cfg nd o).1 ∧ Ext nd (step cfg nd o).1 := by
  cases o with
  | deliver b p => exact ⟨(deliver_spec hA cfg hp h b p).1, (deliver_spec hA cfg hp h b p).2.1⟩
  | header b p =>
    simp only [step]
    split
    · exact ⟨h, Ext.refl nd⟩
    · split
      · exact ⟨⟨⟨h.core.img_eq, h.core.sound, h.core.created, h.core.tip_eq, h.core.idx_closed,
          h.core.idx_rows, h.core.dirty_idx⟩, h.utxo_eq, h.marker_some⟩,
          fun _ hx => hx, fun _ hx => hx, fun hm => hm, fun _ hx => hx, List.prefix_refl _⟩
      · exact ⟨h, Ext.refl nd⟩
  | flushReq =>
    obtain ⟨c, e⟩ := core_flushRequired h.core h.utxo_eq
    exact ⟨⟨c, h.utxo_eq, e.2.2.1 h.marker_some⟩, e⟩
  | flushPeriodic =>
    show Good base (if cfg.cacheAlways then flushRequired nd else emit nd .nop) ∧
      Ext nd (if cfg.cacheAlways then flushRequired nd else emit nd .nop)
    split
    · obtain ⟨c, e⟩ := core_flushRequired h.core h.utxo_eq
      exact ⟨⟨c, h.utxo_eq, e.2.2.1 h.marker_some⟩, e⟩
    · obtain ⟨c, e⟩ := core_step (nd' := emit nd .nop) h.core (c := .nop) trivial rfl rfl rfl rfl rfl h.core.tip_eq
      exact ⟨⟨c, h.utxo_eq, e.2.2.1 h.marker_some⟩, e⟩
  | flushIfNeeded =>
    obtain ⟨c, e⟩ := core_flushIfNeeded cfg h.core (at_ := nd.tip) (List.suffix_refl _)
      (by have := List.IsSuffix.length_le h.core.inv.marker_anc
          rw [h.core.tip_eq] at this; exact this) h.utxo_eq
    refine ⟨⟨c, ?_, e.2.2.1 h.marker_some⟩, e⟩
    show (flushIfNeeded cfg nd nd.tip).utxo = utxoOf A (flushIfNeeded cfg nd nd.tip).tip
    rw [flushIfNeeded_utxo, flushIfNeeded_tip]; exact h.utxo_eq

theorem runOps_spec {base : Image A} (hA : A.Lawful) (cfg : Cfg) (hp : cfg.prune = none) (ops : List Op) : ∀ (nd : Node A),
    Good base nd → Good base (runOps cfg nd ops) ∧ Ext nd (runOps cfg nd ops) := by
  induction ops with
  | nil => intro nd h; exact ⟨h, Ext.refl nd⟩
  | cons o rest ih =>
    intro nd h
    obtain ⟨g1, e1⟩ := step_spec hA cfg hp h o
    obtain ⟨g2, e2⟩ := ih _ g1
    exact ⟨g2, Ext.trans e1 e2⟩

end BV.C04
