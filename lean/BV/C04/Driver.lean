/- C04 line-protocol driver (core-only). -/
import BV.C04.Model
import BV.C04.C03Alg
namespace BV.C04.Driver
open BV.C04

/-- The driver runs the model on C03's protocol definitions of the unspent-output set
(`BV.C04.C03Alg`: `applyBlock`, `journalOf`, `undoBlock`, `blockOk` of BV.C03). -/
abbrev A := C03Alg

structure PBlk where
  id : Nat
  parent : Nat
  blk : Blk

def parseSpends (s : String) : Option (List Nat) :=
  if s == "-" then some [] else (s.splitOn ".").mapM (·.toNat?)

def parseBlk (t : String) : Option PBlk :=
  match t.splitOn ":" with
  | [i, p, sp] => do
    let i ← i.toNat?; let p ← p.toNat?; let sp ← parseSpends sp
    pure ⟨i, p, ⟨i, sp, false⟩⟩
  | [i, p, sp, "x"] => do
    let i ← i.toNat?; let p ← p.toNat?; let sp ← parseSpends sp
    pure ⟨i, p, ⟨i, sp, true⟩⟩
  | _ => none

/-- id ↦ chain, genesis = 0 ↦ []. -/
abbrev Table := List (Nat × Chain)

def buildTable : List PBlk → Table → Option Table
  | [], t => some t
  | b :: rest, t =>
    if b.id == 0 || b.id > 4000 || (t.lookup b.id).isSome || b.blk.spends.length ≥ 8 then none
    else match t.lookup b.parent with
      | none => none
      | some pc => buildTable rest (t ++ [(b.id, b.blk :: pc)])

def parseBlocks (s : String) : Option Table :=
  if s == "-" then some [(0, [])]
  else do
    let bs ← (s.splitOn ",").mapM parseBlk
    buildTable bs [(0, [])]

def parseOp (t : Table) (s : String) : Option Op :=
  if s == "f" then some .flushReq
  else if s == "i" then some .flushIfNeeded
  else if s == "p" then some .flushPeriodic
  else if s.startsWith "h" then do
    let id ← (s.drop 1).toString.toNat?
    if id == 0 then none else
    match t.lookup id with
    | some (b :: p) => some (.header b p)
    | _ => none
  else if s.startsWith "d" then do
    let id ← (s.drop 1).toString.toNat?
    if id == 0 then none else
    match t.lookup id with
    | some (b :: p) => some (.deliver b p)
    | _ => none
  else none

def parseOps (t : Table) (s : String) : Option (List Op) :=
  if s == "-" then some [] else (s.splitOn ",").mapM (parseOp t)

def cid : Chain → Nat
  | [] => 0
  | b :: _ => b.id

def joinOr (xs : List String) : String := if xs.isEmpty then "-" else ".".intercalate xs

def sortNat (xs : List Nat) : List Nat := xs.foldl (fun acc x => ins x acc) []

def natsStr (xs : List Nat) : String := joinOr (xs.map toString)

def statusNum (c : Chain) (s : Status) : Nat :=
  if c == [] then Const.statusDataStored + Const.statusValid else
  Const.statusDataStored + Const.statusHeaderStored + (if s.valid then Const.statusValid else 0)
    + (if s.failed then Const.statusValidateFailed else 0) + (if s.invAnc then Const.statusInvalidAncestor else 0)

def rowsStr (r : Rows) : String :=
  let ids := sortNat (r.map (fun e => cid e.1))
  joinOr (ids.map (fun i =>
    match r.find? (fun e => cid e.1 == i) with
    | some e => s!"{i}/{statusNum e.1 e.2}"
    | none => "?"))

/-- every outpoint a block of the workload can create: `8*id + j`, output 0 -/
def candsOf (ops : List Op) : List Nat :=
  sortNat (ops.flatMap (fun o => match o with
    | .deliver b p => (b :: p).flatMap (fun x => (List.range (x.spends.length + 1)).map (fun j => 8 * x.id + j))
    | _ => []))

/-- the unspent outpoints of a C03 set among the candidates, ascending -/
def utxoStr (cands : List Nat) (u : C03State) : String :=
  natsStr (cands.filter (fun o => (u.set (o, 0)).isSome))

/-- Σ height / number of coinbase entries over the unspent candidates (C03 `Entry.height`, `Entry.coinbase`) -/
def uhStr (cands : List Nat) (u : C03State) : String :=
  let es := cands.filterMap (fun o => u.set (o, 0))
  s!"{(es.map (·.height)).sum}/{(es.filter (·.coinbase)).length}"

def persStr (cands : List Nat) (img : Image A) : String :=
  let marker := match img.marker with | none => "-" | some m => toString (cid m)
  let hidx := if img.created then natsStr ((suffixes img.best).reverse.map cid) else "-"
  s!"best={cid img.best} marker={marker} rows={rowsStr img.rows} stored={natsStr (sortNat (img.stored.map cid))} journal={natsStr (sortNat (img.journal.map cid))} hidx={hidx} nutxo={(cands.filter (fun o => (img.utxo.set (o, 0)).isSome)).length}"

def resStr : Option Res → String
  | none => "ok"
  | some .okMain => "ok10"
  | some .okSide => "ok00"
  | some .orphan => "ok01"
  | some .dup => "rej"
  | some .rej => "rej"
  | some .err => "err"

/-- per op: result, log length before/after, tip before/after. -/
structure OpRec where
  res : Option Res
  s : Nat
  e : Nat
  old : Chain
  new : Chain
  acked : Option Chain

def runRec (cfg : Cfg) : List Op → Node A → List OpRec → Node A × List OpRec
  | [], nd, acc => (nd, acc.reverse)
  | o :: rest, nd, acc =>
    let (nd', r) := step cfg nd o
    let ack := match o, r with
      | .deliver b p, some .okMain => some (b :: p)
      | .deliver b p, some .okSide => some (b :: p)
      | _, _ => none
    runRec cfg rest nd' (⟨r, nd.log.length, nd'.log.length, nd.tip, nd'.tip, ack⟩ :: acc)

def isConnect : Commit A → Bool
  | .connect _ _ => true
  | .connectPrune _ _ _ => true
  | .disconnect _ _ => true   -- a reorganisation that dies after its disconnects still moved the tip
  | _ => false

/-- 1-based index of the last connect commit among log positions (s, e]. -/
def lastConnect (log : List (Commit A)) (s e : Nat) : Nat :=
  ((List.range (e - s)).foldl (fun acc i => if (log.drop (s + i)).head?.any isConnect then s + i + 1 else acc) 0)

def windowStr (log : List (Commit A)) (recs : List OpRec) (k : Nat) : String :=
  match recs.find? (fun r => r.old != r.new && r.s + 2 ≤ k && k < lastConnect log r.s r.e) with
  | some r => s!"{cid r.old}:{cid r.new}"
  | none => "-"

def corruptStr : Corrupt → String
  | _ => "err"

/-- transactions in the tip block / on the whole chain (genesis has one). -/
def numTx : Chain → Nat
  | [] => 1
  | b :: _ => 1 + b.spends.length

def totalTx : Chain → Nat
  | [] => 1
  | b :: p => 1 + b.spends.length + totalTx p

def isDeliver : Op → Bool
  | .deliver _ _ => true
  | _ => false

def ackedAt (recs : List OpRec) (k : Nat) : List Chain :=
  recs.filterMap (fun r => if r.e ≤ k then r.acked else none)

/-- reopen an image and feed the deliveries again: `r=… fin=…`. -/
def reopenStr (cfg : Cfg) (cands : List Nat) (img : Image A) (acked : List Chain) (ops : List Op) (specTip : Chain) : String :=
  match recover cfg img with
  | .error _ => "r=must-reopen"   -- the Spec's demand: every crash image reopens
  | .ok rn =>
    let missing := (acked.filter (fun c => c ∉ keys rn.index)).length
    let chain := natsStr ((suffixes rn.tip).reverse.map cid)
    let after := runOps cfg rn (ops.filter isDeliver)
    -- secondary read APIs on the reopened node: MainChainHasBlock over all known blocks,
    -- BlockByHash/BlockHeightByHash and FetchSpendJournal along the main chain
    let mc := natsStr (sortNat ((suffixes rn.tip).map cid))
    let onDisk := (suffixes rn.tip).filter (fun c => c ∈ rn.img.stored)
    let bb := onDisk.length
    let sj := (onDisk.filter (fun c => match c with
      | [] => false
      | b :: _ => b.spends.isEmpty || c ∈ rn.img.journal)).length
    s!"r=ok,{cid rn.tip},{chain},{utxoStr cands rn.utxo},{missing} ur=0 uh={uhStr cands rn.utxo} mc={mc} bb={bb} sj={sj} bs={rn.tip.length}/{numTx rn.tip}/{totalTx rn.tip} fin={cid specTip};{cid after.tip};{utxoStr cands after.utxo}"

def resList (recs : List OpRec) : String := ".".intercalate (recs.map (fun r => resStr r.res))

def handleImg (cfg cfg2 : Cfg) (base : Image A) (ops : List Op) (k : Nat) : String :=
  match recover cfg base with
  | .error _ => "new:err"
  | .ok nd0 =>
    let (fin, recs) := runRec cfg ops nd0 []
    let n := fin.log.length
    if k > n then s!"n={n} out-of-range" else
    let img := replay base (fin.log.take k)
    s!"n={n} res={resList recs} sv=0 {persStr (candsOf ops) img} w={windowStr fin.log recs k} {reopenStr cfg2 (candsOf ops) img (ackedAt recs k) ops fin.tip}"

def handleImg2 (cfg cfg2 cfg3 : Cfg) (base : Image A) (ops : List Op) (k j : Nat) : String :=
  match recover cfg base with
  | .error _ => "new:err"
  | .ok nd0 =>
    let (fin, recs) := runRec cfg ops nd0 []
    let n := fin.log.length
    if k > n then s!"n={n} out-of-range" else
    let img := replay base (fin.log.take k)
    match recover cfg2 img with
    | .error _ => s!"n={n} r1=new:err"
    | .ok rn =>
      let (fin2, recs2) := runRec cfg2 (ops.filter isDeliver) rn []
      let n2 := fin2.log.length
      if j > n2 then s!"n={n} n2={n2} out-of-range" else
      let img2 := replay img (fin2.log.take j)
      let acked := ackedAt recs k ++ ackedAt recs2 j
      s!"n={n} n2={n2} res2={resList recs2} {persStr (candsOf ops) img2} w1={windowStr fin.log recs k} w={windowStr fin2.log recs2 j} {reopenStr cfg3 (candsOf ops) img2 acked ops fin.tip}"

def parsePrune (s : String) : Option (Option (Nat × Nat)) :=
  if s == "0" then some none else
  match s.splitOn ":" with
  | [a, b] => do
    let a ← a.toNat?
    let b ← b.toNat?
    if b == 0 || a < b then none else some (some (a, b))
  | _ => none

def parseCache1 (s : String) : Option Bool :=
  if s == "0" then some true else if s == "1" then some false else none

/-- `a | a>b | a>b>c`: cache of the first, second, third process life. -/
def parseCache (s : String) : Option (Bool × Bool × Bool) :=
  match s.splitOn ">" with
  | [a] => do let a ← parseCache1 a; pure (a, a, a)
  | [a, b] => do let a ← parseCache1 a; let b ← parseCache1 b; pure (a, b, b)
  | [a, b, c] => do let a ← parseCache1 a; let b ← parseCache1 b; let c ← parseCache1 c; pure (a, b, c)
  | _ => none

def setup (cache prune blocks ops : String) : Option ((Cfg × Cfg × Cfg) × Image A × List Op) := do
  let (c1, c2, c3) ← parseCache cache
  let pr ← parsePrune prune
  let t ← parseBlocks blocks
  let os ← parseOps t ops
  match pr with
  | none => pure ((⟨c1, none⟩, ⟨c2, none⟩, ⟨c3, none⟩), Image.empty A, os)
  | some (target, fmax) =>
    pure ((⟨c1, some target⟩, ⟨c2, some target⟩, ⟨c3, some target⟩), { Image.empty A with fileMax := fmax }, os)

def handle : List String → String
  | ["img", cache, prune, blocks, ops, k] =>
    match setup cache prune blocks ops, k.toNat? with
    | some ((cfg, cfg2, _), base, os), some k => if k == 0 then "malformed" else handleImg cfg cfg2 base os k
    | _, _ => "malformed"
  | ["torn", cache, prune, blocks, ops, k] =>
    -- a partial block record after the write cursor is cut off by the store on open: same answer
    match setup cache prune blocks ops, k.toNat? with
    | some ((cfg, cfg2, _), base, os), some k => if k == 0 then "malformed" else handleImg cfg cfg2 base os k
    | _, _ => "malformed"
  | ["par", cache, prune, blocks, ops, ks] =>
    match setup cache prune blocks ops, (ks.splitOn ".").mapM (·.toNat?) with
    | some ((cfg, cfg2, _), base, os), some ks =>
      if ks.any (· == 0) || ks.length < 2 || ks.length > 32 then "malformed"
      else " | ".intercalate (ks.map (fun k => handleImg cfg cfg2 base os k))
    | _, _ => "malformed"
  | ["sync", cache, prune, blocks, ops, k] =>
    -- block files cut back to their last-fsynced length: the store syncs block data before the
    -- metadata that references it, so nothing the image refers to is lost: same answer
    match setup cache prune blocks ops, k.toNat? with
    | some ((cfg, cfg2, _), base, os), some k => if k == 0 then "malformed" else handleImg cfg cfg2 base os k
    | _, _ => "malformed"
  | ["flt", cache, prune, blocks, ops, f, k] =>
    -- a write failure injected at an index flush whose error the code handles by design, then a
    -- crash: no exact prediction, the Spec's demand is that the property's clauses hold
    match setup cache prune blocks ops, f.toNat?, k.toNat? with
    | some _, some f, some k => if f == 0 || k == 0 then "malformed" else "flt=ok"
    | _, _, _ => "malformed"
  | ["lazy", cache, prune, blocks, ops, k] =>
    -- lazily flushed metadata cache: every 7th commit is written through, and ffldb flushes on its own
    -- after a commit that deletes block files (prune); a power loss after commit k leaves the image of
    -- the durable prefix (C05's prefix durability)
    match setup cache prune blocks ops, k.toNat? with
    | some ((cfg, cfg2, _), base, os), some k =>
      if k < 7 then "malformed"
      else
        let r := handleImg cfg cfg2 base os k
        if (r.splitOn " out-of-range").length > 1 then r
        else
          match recover cfg base with
          | .error _ => r
          | .ok nd0 =>
            let log := (runOps cfg nd0 os).log
            let durable := (List.range (k + 1)).foldl (fun acc j =>
              if j ≥ 1 && (j % 7 == 0 || (log.drop (j - 1)).head?.any (fun c => match c with
                | .connectPrune _ _ _ => true | _ => false)) then j else acc) 0
            handleImg cfg cfg2 base os durable
    | _, _ => "malformed"
  | ["img2", cache, prune, blocks, ops, k, j] =>
    match setup cache prune blocks ops, k.toNat?, j.toNat? with
    | some ((cfg, cfg2, cfg3), base, os), some k, some j =>
      if k == 0 || j == 0 then "malformed" else handleImg2 cfg cfg2 cfg3 base os k j
    | _, _, _ => "malformed"
  | "img" :: _ => "malformed"
  | "torn" :: _ => "malformed"
  | "sync" :: _ => "malformed"
  | "lazy" :: _ => "malformed"
  | "flt" :: _ => "malformed"
  | "img2" :: _ => "malformed"
  | "par" :: _ => "malformed"
  | _ => "bad-op"

end BV.C04.Driver
