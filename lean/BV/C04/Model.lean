/-
C04 — Model: persistence of btcd's chain state as a list of atomic commits
(one per `db.Update`), the node that produces them (`maybeAcceptBlock`,
`connectBestChain`, `connectBlock`, `disconnectBlock`, `reorganizeChain`,
`FlushUtxoCache`) and the start-up path (`initChainState` +
`InitConsistentState`) that reads a crash image back.  core-only.

Mirrors: blockchain/accept.go, chain.go, chainio.go, utxocache.go, blockindex.go.
-/
import BV.C04.Spec
namespace BV.C04

/-- Validation status of a block-index entry (`statusDataStored|statusHeaderStored`
is implied: only blocks with data get a row). -/
structure Status where
  valid  : Bool := false
  failed : Bool := false
  invAnc : Bool := false
deriving DecidableEq, Repr

def Status.knownInvalid (s : Status) : Bool := s.failed || s.invAnc

abbrev Rows := List (Chain × Status)

def keys (r : Rows) : List Chain := r.map Prod.fst

def upsert (r : Rows) (c : Chain) (s : Status) : Rows :=
  match r with
  | [] => [(c, s)]
  | e :: t => if e.1 = c then (c, s) :: t else e :: upsert t c s

def statusOf (r : Rows) (c : Chain) : Status := (r.lookup c).getD {}

/-- The durable state (what a directory copy contains). -/
structure Image (A : UtxoAlg) where
  created : Bool
  stored  : List Chain
  rows    : Rows
  best    : Chain
  journal : List Chain
  utxo    : A.U
  marker  : Option Chain
  /-- roll-over limit of the flat block files (0 = a single unbounded file). -/
  fileMax : Nat
  /-- block files still on disk, oldest first: bytes used, blocks. -/
  files   : List (Nat × List Chain)

def Image.empty (A : UtxoAlg) : Image A :=
  { created := false, stored := [], rows := [], best := [], journal := [], utxo := A.empty, marker := none,
    fileMax := 0, files := [] }

/-- Serialized size of the harness' block at the given height (header, count,
BIP34 coinbase, 61-byte spends) — what decides the block-file layout. -/
def blkSize (height : Nat) (b : Blk) : Nat :=
  80 + 1 + 61 + (if height ≤ 16 then 1 else if height ≤ 127 then 2 else 3) + 3 + 61 * b.spends.length

def recSize : Chain → Nat
  | [] => 285 + 12
  | b :: p => blkSize (p.length + 1) b + 12

/-- `blockStore.writeBlock`: append to the last file, roll over when the record does not fit. -/
def addToFiles (fileMax : Nat) (files : List (Nat × List Chain)) (n : Chain) : List (Nat × List Chain) :=
  match files.reverse with
  | [] => [(recSize n, [n])]
  | (used, cs) :: older =>
    if fileMax ≠ 0 ∧ used + recSize n > fileMax then files ++ [(recSize n, [n])]
    else (older.reverse) ++ [(used + recSize n, cs ++ [n])]

/-- One atomic database transaction. -/
inductive Commit (A : UtxoAlg) where
  /-- `createChainState`: buckets, genesis row, best state, genesis block. -/
  | create
  /-- a committed transaction that changes nothing this model observes
      (bucket-version check at start-up; `FlushIfNeeded` that does not flush). -/
  | nop
  /-- `InitConsistentState` on a database without marker. -/
  | setMarker (m : Chain)
  /-- `maybeAcceptBlock`: `dbStoreBlock`. -/
  | storeBlock (n : Chain)
  /-- `blockIndex.flushToDB`. -/
  | indexRows (rs : Rows)
  /-- `connectBlock`: best state, height index, spend journal
      (+ utxo flush and marker when pruning forces one). -/
  | connect (n : Chain) (flush : Option A.U)
  /-- `connectBlock` whose `PruneBlocks` deleted block files: the blocks in them and
      their journal entries go; `flush` is the forced utxo flush of `flushNeededAfterPrune`. -/
  | connectPrune (n : Chain) (pruned : List Chain) (flush : Option A.U)
  /-- `disconnectBlock`: best state := parent, height index, cache flush with the
      parent as marker, the disconnect view, journal removal. -/
  | disconnect (n : Chain) (u : A.U)
  /-- `utxoCache.flush` that writes: all cached entries and the marker. -/
  | utxoFlush (u : A.U) (m : Chain)

variable {A : UtxoAlg}

def genesisStatus : Status := { valid := true }

def apply (img : Image A) : Commit A → Image A
  | .create => { img with created := true, stored := [] :: img.stored,
                          rows := upsert img.rows [] genesisStatus, best := [],
                          files := addToFiles img.fileMax img.files [] }
  | .nop => img
  | .setMarker m => { img with marker := some m }
  | .storeBlock n => { img with stored := n :: img.stored,
                                files := if n ∈ img.stored then img.files else addToFiles img.fileMax img.files n }
  | .indexRows rs => { img with rows := rs.foldl (fun r e => upsert r e.1 e.2) img.rows }
  | .connect n none => { img with best := n, journal := n :: img.journal }
  | .connect n (some u) => { img with best := n, journal := n :: img.journal, utxo := u, marker := some n }
  | .connectPrune n ps none =>
    { img with best := n, journal := n :: img.journal.filter (· ∉ ps), stored := img.stored.filter (· ∉ ps),
               files := img.files.filter (fun f => f.2.all (· ∉ ps)) }
  | .connectPrune n ps (some u) =>
    { img with best := n, journal := n :: img.journal.filter (· ∉ ps), stored := img.stored.filter (· ∉ ps),
               files := img.files.filter (fun f => f.2.all (· ∉ ps)), utxo := u, marker := some n }
  | .disconnect n u => { img with best := n.tail, journal := img.journal.filter (· ≠ n), utxo := u,
                                  marker := some n.tail }
  | .utxoFlush u m => { img with utxo := u, marker := some m }

def replay (img : Image A) (cs : List (Commit A)) : Image A := cs.foldl apply img

/-- Configuration: `cacheAlways` = utxo cache of size 0 (every `FlushIfNeeded`
away from the last flush point writes); otherwise the cache never fills up. -/
structure Cfg where
  cacheAlways : Bool
  /-- prune target in bytes (`Config.Prune`), none = pruning off. -/
  prune : Option Nat := none
deriving DecidableEq, Repr

/-- `PruneBlocks`: the blocks in the files that go so that the estimated total
(last file's size + `fileMax` per older file) drops to the target; the last file stays. -/
def pruneList (target : Nat) (img : Image A) : List Chain :=
  match img.files.reverse with
  | [] => []
  | (lastUsed, _) :: older =>
    if older = [] then []
    else
      let total := lastUsed + img.fileMax * older.length
      if total ≤ target then []
      else
        let k := min older.length ((total - target + img.fileMax - 1) / img.fileMax)
        ((img.files.take k).map (·.2)).flatten

/-- The running node: in-memory state, the durable image it writes to, and the
log of commits it has made (oldest first). -/
structure Node (A : UtxoAlg) where
  index     : Rows
  dirty     : List Chain
  tip       : Chain
  utxo      : A.U                -- what cache ∪ database answer (C03's abstraction map)
  lastFlush : Option Chain       -- `lastFlushHash` (none = zero hash)
  orphans   : List Chain         -- orphan pool (in memory only)
  hdrs      : List Chain := []   -- header-only index nodes (`ProcessBlockHeader`; never written to disk)
  img       : Image A
  log       : List (Commit A)

def emit (nd : Node A) (c : Commit A) : Node A :=
  { nd with img := apply nd.img c, log := nd.log ++ [c] }

def setStatus (nd : Node A) (c : Chain) (s : Status) : Node A :=
  { nd with index := upsert nd.index c s, dirty := if c ∈ nd.dirty then nd.dirty else nd.dirty ++ [c] }

/-- `blockIndex.flushToDB`: one commit with the rows of all dirty nodes, none if clean. -/
def flushDirty (nd : Node A) : Node A :=
  if nd.dirty = [] then nd
  else emit { nd with dirty := [] } (.indexRows (nd.dirty.map (fun c => (c, statusOf nd.index c))))

/-- `db.Update(utxoCache.flush(FlushIfNeeded, state at))`. -/
def flushIfNeeded (cfg : Cfg) (nd : Node A) (at_ : Chain) : Node A :=
  if nd.lastFlush = some at_ then emit nd .nop
  else if cfg.cacheAlways then emit { nd with lastFlush := some at_ } (.utxoFlush nd.utxo at_)
  else emit nd .nop

/-- `db.Update(utxoCache.flush(FlushRequired, best snapshot))`. -/
def flushRequired (nd : Node A) : Node A :=
  emit { nd with lastFlush := some nd.tip } (.utxoFlush nd.utxo nd.tip)

/-- `connectBlock` (the cache has already connected the transactions).  The
first check is the assertion "connectBlock must be called with a block that
extends the main chain". -/
def connectBlock (cfg : Cfg) (nd : Node A) (n : Chain) : Node A × Bool :=
  if n = [] ∨ n.tail ≠ nd.tip then (nd, false)
  else
    let nd := flushDirty nd
    let ps := match cfg.prune with
      | none => []
      | some t => pruneList t nd.img
    if ps = [] then
      let nd := emit nd (.connect n none)
      (flushIfNeeded cfg { nd with tip := n } n, true)
    else
      -- `flushNeededAfterPrune`
      let needFlush := match nd.lastFlush with
        | none => true
        | some m => m ∉ keys nd.index ∨ ps.any (fun x => x ∈ keys nd.index ∧ m.length ≤ x.length)
      if needFlush then
        let nd := emit nd (.connectPrune n ps (some nd.utxo))
        (flushIfNeeded cfg { nd with tip := n, lastFlush := some n } n, true)
      else
        let nd := emit nd (.connectPrune n ps none)
        (flushIfNeeded cfg { nd with tip := n } n, true)

/-- `disconnectBlock` of the current tip; fails when the parent block cannot
be loaded from the database. -/
def disconnectTip (nd : Node A) : Node A × Bool :=
  match nd.tip with
  | [] => (nd, false)
  | b :: p =>
    if p ∉ nd.img.stored then (nd, false)
    else
      let nd := flushDirty nd
      let u := A.disc b nd.utxo
      let nd := emit nd (.disconnect (b :: p) u)
      ({ nd with tip := p, utxo := u, lastFlush := some p }, true)

def disconnectN : Nat → Node A → Node A × Bool
  | 0, nd => (nd, true)
  | k + 1, nd =>
    match disconnectTip nd with
    | (nd, true) => disconnectN k nd
    | (nd, false) => (nd, false)

/-- connect loop of `reorganizeChain`: the attach nodes lowest first. -/
def connectAll (cfg : Cfg) : List Chain → Node A → Node A × Bool
  | [], nd => (nd, true)
  | [] :: _, nd => (nd, false)
  | (b :: c) :: rest, nd =>
    match connectBlock cfg { nd with utxo := A.conn b nd.utxo } (b :: c) with
    | (nd, true) => connectAll cfg rest nd
    | (nd, false) => (nd, false)

/-- All ancestors-or-self of a chain, the chain itself first, genesis last. -/
def suffixes : Chain → List Chain
  | [] => [[]]
  | b :: c => (b :: c) :: suffixes c

/-- First suffix of `a` that is also a suffix of `b` (`chainView.FindFork`). -/
def forkOf (a b : Chain) : Chain := ((suffixes a).find? (fun s => s.isSuffixOf b)).getD []

/-- Blocks of `n` above its suffix of length `k`, lowest first. -/
def blocksAbove (n : Chain) (k : Nat) : List Blk := (n.take (n.length - k)).reverse

def markInvAnc (nd : Node A) : List Chain → Node A
  | [] => nd
  | a :: rest => markInvAnc (setStatus nd a { statusOf nd.index a with invAnc := true }) rest

/-- chains `b₁ :: cur`, `b₂ :: b₁ :: cur`, … -/
def chainsOn (cur : Chain) : List Blk → List Chain
  | [] => []
  | b :: rest => (b :: cur) :: chainsOn (b :: cur) rest

/-- attach part of `verifyReorganizationValidity` over a view `v` positioned at `cur`. -/
def verifyAttach (nd : Node A) (v : A.U) (cur : Chain) : List Blk → Node A × Bool
  | [] => (nd, true)
  | b :: rest =>
    let a := b :: cur
    if a ∉ nd.img.stored then (nd, false)
    else
      let st := statusOf nd.index a
      if st.valid then verifyAttach nd (A.conn b v) a rest
      else if A.ok b v then verifyAttach (setStatus nd a { st with valid := true }) (A.conn b v) a rest
      else (markInvAnc (setStatus nd a { st with failed := true }) (chainsOn a rest), false)

def discAll (v : A.U) : Chain → Nat → A.U
  | _, 0 => v
  | [], _ => v
  | b :: p, k + 1 => discAll (A.disc b v) p k

inductive Res where
  | dup | orphan | rej | okMain | okSide
  /-- a non-rule error (block data missing, assertion) -/
  | err
deriving DecidableEq, Repr

/-- `getReorganizeNodes` + `reorganizeChain` + final index flush towards the stored chain `n`. -/
def reorg (cfg : Cfg) (nd : Node A) (n : Chain) : Node A × Res :=
  let fork := forkOf nd.tip n
  let bs := blocksAbove n fork.length
  let as_ := chainsOn fork bs
  if as_.any (fun a => (statusOf nd.index a).knownInvalid) then
    -- the members above the highest known-invalid one are marked; reorganizeChain gets two empty lists
    (flushDirty (markInvAnc nd (as_.reverse.takeWhile (fun a => !(statusOf nd.index a).knownInvalid))), .okMain)
  else
    let nDetach := nd.tip.length - fork.length
    let detach := ((suffixes nd.tip).take nDetach)
    if detach.any (fun d => d ∉ nd.img.stored || d ∉ nd.img.journal) then (flushDirty nd, .err)
    else
      let (nd, ok) := verifyAttach nd (discAll nd.utxo nd.tip nDetach) fork bs
      if !ok then (flushDirty nd, if as_.any (fun a => a ∉ nd.img.stored) then .err else .rej)
      else
        match disconnectN nDetach nd with
        | (nd, false) => (flushDirty nd, .err)
        | (nd, true) =>
          match connectAll cfg as_ nd with
          | (nd, false) => (flushDirty nd, .err)
          | (nd, true) => (flushDirty nd, .okMain)

/-- `ProcessBlock` of block `b` whose parent is `p`. -/
def deliver (cfg : Cfg) (nd : Node A) (b : Blk) (p : Chain) : Node A × Res :=
  let n := b :: p
  if n ∈ keys nd.index then (nd, .dup)
  else if n ∈ nd.orphans then (nd, .dup)
  else if p ∉ keys nd.index then ({ nd with orphans := n :: nd.orphans }, .orphan)
  else if (statusOf nd.index p).knownInvalid then (nd, .rej)
  else
    let nd := emit nd (.storeBlock n)
    let nd := flushDirty (setStatus nd n {})
    if p = nd.tip then
      if A.ok b nd.utxo then
        let nd := flushDirty (setStatus nd n { valid := true })
        match connectBlock cfg { nd with utxo := A.conn b nd.utxo } n with
        | (nd, true) => (nd, .okMain)
        | (nd, false) => (flushDirty nd, .err)
      else
        (flushDirty (setStatus nd n { failed := true }), .rej)
    else if n.length ≤ nd.tip.length then (nd, .okSide)
    else reorg cfg nd n

inductive Op where
  | deliver (b : Blk) (p : Chain)
  /-- `ProcessBlockHeader`: adds a header-only node; makes no commit. -/
  | header (b : Blk) (p : Chain)
  | flushReq
  | flushIfNeeded
  /-- `FlushUtxoCache(FlushPeriodic)` less than the periodic interval after the last
      flush: writes when the cache is at its limit, without the "already flushed here" shortcut. -/
  | flushPeriodic
deriving DecidableEq, Repr

/-- `maybeAcceptBlockHeader`: the parent must be known (as a block or as a header) and not known invalid -/
def hdrParentOk (nd : Node A) (p : Chain) : Bool :=
  if p ∈ keys nd.index then !(statusOf nd.index p).knownInvalid else decide (p ∈ nd.hdrs)

def step (cfg : Cfg) (nd : Node A) : Op → Node A × Option Res
  | .deliver b p => let (nd, r) := deliver cfg nd b p; (nd, some r)
  | .header b p =>
    if (b :: p) ∈ keys nd.index then
      (nd, if (statusOf nd.index (b :: p)).knownInvalid then some .rej else none)
    else if hdrParentOk nd p then
      ({ nd with hdrs := (b :: p) :: nd.hdrs }, none)
    else (nd, some .rej)
  | .flushReq => (flushRequired nd, none)
  | .flushIfNeeded => (flushIfNeeded cfg nd nd.tip, none)
  | .flushPeriodic => (if cfg.cacheAlways then flushRequired nd else emit nd .nop, none)

def runOps (cfg : Cfg) (nd : Node A) (ops : List Op) : Node A :=
  ops.foldl (fun nd o => (step cfg nd o).1) nd

/-! ### start-up -/

inductive Corrupt where
  | missingParent | noTip | tipNotStored | markerUnknown | blockMissing
deriving DecidableEq, Repr

/-- replay loop of `InitConsistentState`. -/
def replayBlocks (cfg : Cfg) : List Blk → Chain → Node A → Except Corrupt (Node A)
  | [], _, nd => .ok nd
  | b :: rest, cur, nd =>
    let a := b :: cur
    if a ∉ nd.img.stored then .error .blockMissing
    else
      let nd := { nd with utxo := A.conn b nd.utxo }
      replayBlocks cfg rest a (flushIfNeeded cfg nd a)

def initConsistent (cfg : Cfg) (nd : Node A) : Except Corrupt (Node A) :=
  match nd.img.marker with
  | none => .ok { emit nd (.setMarker nd.tip) with lastFlush := some nd.tip }
  | some m =>
    if m = nd.tip then .ok { nd with lastFlush := some m }
    else if m ∉ keys nd.index then .error .markerUnknown
    else
      let fork := forkOf nd.tip m
      -- until a flush of the replay loop writes, the last flush point is the marker
      -- (fix of F-C04-b; `flushNeededAfterPrune` relies on it)
      replayBlocks cfg (blocksAbove nd.tip fork.length) fork { nd with lastFlush := some m }

def markValid (nd : Node A) : List Chain → Node A
  | [] => nd
  | c :: rest =>
    let st := statusOf nd.index c
    markValid (if st.valid then nd else setStatus nd c { st with valid := true }) rest

/-- The node right after `blockchain.New` has allocated it: empty cache, nothing dirty. -/
def bootNode (img : Image A) (index : Rows) (tip : Chain) : Node A :=
  { index := index, dirty := [], tip := tip, utxo := img.utxo, lastFlush := none, orphans := [],
    img := img, log := [] }

/-- `blockchain.New` on an image: `initChainState` (or `createChainState`),
the bucket-version transaction, `InitConsistentState`. The returned node's
`log` holds the commits made by the start-up itself. -/
def recover (cfg : Cfg) (img : Image A) : Except Corrupt (Node A) :=
  if !img.created then
    let nd := emit (bootNode img [([], genesisStatus)] []) .create
    initConsistent cfg (emit nd .nop)
  else if img.rows.any (fun e => e.1 ≠ [] && e.1.tail ∉ keys img.rows) then .error .missingParent
  else if img.best ∉ keys img.rows then .error .noTip
  else if img.best ∉ img.stored then .error .tipNotStored
  else
    let nd := flushDirty (markValid (bootNode img img.rows img.best) (suffixes img.best))
    initConsistent cfg (emit nd .nop)

end BV.C04

namespace BV.C04

/-! ### The concrete unspent-output algebra used by the correspondence driver

Outpoints are numbers: block `id`, transaction `j` creates outpoint `8*id + j`
(`j = 0` is the coinbase, transaction `j ≥ 1` spends `spends[j-1]`).  A state is
an ascending list of outpoints. -/

def ins (x : Nat) : List Nat → List Nat
  | [] => [x]
  | y :: t => if x < y then x :: y :: t else if x = y then y :: t else y :: ins x t

def connTxs (id : Nat) : Nat → List Nat → List Nat → Option (List Nat)
  | _, [], u => some u
  | j, o :: os, u => if o ∈ u then connTxs id (j + 1) os (ins (8 * id + j) (u.filter (· ≠ o))) else none

/-- Sets of outpoints with the spend journal kept as a stack of the states the
connected blocks were applied to: `conn` computes the new set and journals the
old one, `disc` restores the journaled state — what `disconnectTransactions` does
with the stxos of the block.  Lawful by construction (`Props`). -/
def SetAlg : UtxoAlg where
  U := List Nat × List (List Nat)
  empty := ([], [])
  ok b u := !b.bad && (connTxs b.id 1 b.spends u.1).isSome
  conn b u := (ins (8 * b.id) ((connTxs b.id 1 b.spends u.1).getD u.1), u.1 :: u.2)
  disc _ u := (u.2.headD [], u.2.tail)

end BV.C04
