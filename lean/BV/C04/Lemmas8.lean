/-
C04 — Lemmas, part 8: the block-store / index split (a block whose raw data is
stored but whose index row is not durable must be re-deliverable), and the
in-memory last flush point equals the persisted marker.
-/
import BV.C04.Lemmas7
namespace BV.C04

variable {A : UtxoAlg}

/-! ### what start-up leaves in memory -/

theorem flushDirty_orphans (nd : Node A) : (flushDirty nd).orphans = nd.orphans := by
  unfold flushDirty; split <;> rfl
theorem flushIfNeeded_index (cfg : Cfg) (nd : Node A) (a : Chain) : (flushIfNeeded cfg nd a).index = nd.index := by
  unfold flushIfNeeded; split
  · rfl
  · split <;> rfl
theorem flushIfNeeded_orphans (cfg : Cfg) (nd : Node A) (a : Chain) :
    (flushIfNeeded cfg nd a).orphans = nd.orphans := by
  unfold flushIfNeeded; split
  · rfl
  · split <;> rfl

theorem replayBlocks_mem (cfg : Cfg) (bs : List Blk) : ∀ (cur : Chain) (nd nd' : Node A),
    replayBlocks cfg bs cur nd = .ok nd' → nd'.index = nd.index ∧ nd'.orphans = nd.orphans := by
  induction bs with
  | nil => intro cur nd nd' r; simp only [replayBlocks] at r; injection r with r; rw [← r]; exact ⟨rfl, rfl⟩
  | cons b rest ih =>
    intro cur nd nd' r
    simp only [replayBlocks] at r
    split at r
    · exact absurd r (by simp)
    · have := ih _ _ _ r
      rw [flushIfNeeded_index, flushIfNeeded_orphans] at this
      exact this

theorem initConsistent_mem (cfg : Cfg) {nd nd' : Node A} (r : initConsistent cfg nd = .ok nd') :
    nd'.index = nd.index ∧ nd'.orphans = nd.orphans := by
  unfold initConsistent at r
  split at r
  · injection r with r; rw [← r]; exact ⟨rfl, rfl⟩
  · split at r
    · injection r with r; rw [← r]; exact ⟨rfl, rfl⟩
    · split at r
      · exact absurd r (by simp)
      · simp only at r
        exact replayBlocks_mem cfg _ _ { nd with lastFlush := some _ } nd' r

theorem markValid_mem (l : List Chain) : ∀ (nd : Node A), (∀ a, a ∈ l → a ∈ keys nd.index) →
    (markValid nd l).orphans = nd.orphans ∧ (∀ x, x ∈ keys (markValid nd l).index → x ∈ keys nd.index) := by
  induction l with
  | nil => intro nd _; exact ⟨rfl, fun _ h => h⟩
  | cons a rest ih =>
    intro nd hall
    simp only [markValid]
    split
    · exact ih nd (fun x hx => hall x (by simp [hx]))
    · have ha : a ∈ keys nd.index := hall a (by simp)
      obtain ⟨h1, h2⟩ := ih (setStatus nd a { statusOf nd.index a with valid := true })
        (fun x hx => mem_keys_upsert.mpr (Or.inr (hall x (by simp [hx]))))
      refine ⟨h1, fun x hx => ?_⟩
      rcases mem_keys_upsert.mp (h2 x hx) with h | h
      · rw [h]; exact ha
      · exact h

/-- After start-up on an image that satisfies the invariant the in-memory index
has exactly the persisted rows and the orphan pool is empty. -/
theorem recover_mem {img : Image A} (cfg : Cfg) (hi : Inv img) {rn : Node A} (r : recover cfg img = .ok rn) :
    rn.orphans = [] ∧ (∀ x, x ∈ keys rn.index → x ∈ keys img.rows) := by
  unfold recover at r
  simp only [hi.created, Bool.not_true, Bool.false_eq_true, if_false] at r
  split at r
  · exact absurd r (by simp)
  · split at r
    · exact absurd r (by simp)
    · split at r
      · exact absurd r (by simp)
      · obtain ⟨h1, h2⟩ := initConsistent_mem cfg r
        obtain ⟨m1, m2⟩ := markValid_mem (suffixes img.best) (bootNode img img.rows img.best)
          (fun a ha => closed_suffix hi.rows_closed hi.tip_row (mem_suffixes.mp ha))
        refine ⟨?_, ?_⟩
        · rw [h2]; show (flushDirty _).orphans = []
          rw [flushDirty_orphans, m1]; rfl
        · intro x hx
          rw [h1] at hx
          have hx' : x ∈ keys (flushDirty (markValid (bootNode img img.rows img.best) (suffixes img.best))).index := hx
          rw [flushDirty_index] at hx'
          exact m2 x hx'

/-! ### re-delivery of a block that is not in the index -/

def Res.fresh (r : Res) : Prop := r ≠ .dup ∧ r ≠ .orphan

theorem reorg_res (cfg : Cfg) (nd : Node A) (n : Chain) : (reorg cfg nd n).2.fresh := by
  unfold reorg
  simp only
  repeat' split
  all_goals (constructor <;> simp)

/-- A block that the index does not know, whose parent it knows and does not
consider invalid, is processed (not refused as duplicate or orphan) and ends up
with a durable index row. -/
theorem deliver_fresh_spec {base : Image A} {nd : Node A} (hA : A.Lawful) (cfg : Cfg) (hp : cfg.prune = none)
    (h : Good base nd) (b : Blk) (p : Chain)
    (h1 : (b :: p) ∉ keys nd.index) (h2 : (b :: p) ∉ nd.orphans) (h3 : p ∈ keys nd.index)
    (h4 : ¬ (statusOf nd.index p).knownInvalid = true) :
    Good base (deliver cfg nd b p).1 ∧ (deliver cfg nd b p).2.fresh ∧
    (b :: p) ∈ keys (deliver cfg nd b p).1.img.rows ∧ (b :: p) ∈ keys (deliver cfg nd b p).1.index := by
  unfold deliver
  simp only
  rw [if_neg h1, if_neg h2, if_neg (fun hh => hh h3), if_neg h4]
  obtain ⟨c1, e1⟩ := core_step (nd' := emit nd (.storeBlock (b :: p))) h.core (c := .storeBlock (b :: p))
    trivial rfl rfl rfl rfl rfl h.core.tip_eq
  have g1 : Good base (emit nd (.storeBlock (b :: p))) := ⟨c1, h.utxo_eq, h.marker_some⟩
  have hst1 : (b :: p) ∈ (emit nd (.storeBlock (b :: p))).img.stored := by simp [emit, apply]
  obtain ⟨g2, e2, m2⟩ := good_setStatus g1 (a := b :: p) {} (Or.inr h3)
  obtain ⟨g3, e3⟩ := good_flushDirty g2
  have hidx3 : (b :: p) ∈ keys (flushDirty (setStatus (emit nd (.storeBlock (b :: p))) (b :: p) {})).index :=
    e3.2.1 _ m2
  have hst3 : (b :: p) ∈ (flushDirty (setStatus (emit nd (.storeBlock (b :: p))) (b :: p) {})).img.stored :=
    e3.1 _ (e2.1 _ hst1)
  have hrow3 : (b :: p) ∈ keys (flushDirty (setStatus (emit nd (.storeBlock (b :: p))) (b :: p) {})).img.rows :=
    rows_of_flushed g3.core (flushDirty_dirty _) hidx3
  generalize flushDirty (setStatus (emit nd (.storeBlock (b :: p))) (b :: p) {}) = nd3 at g3 hidx3 hst3 hrow3 ⊢
  by_cases h5 : p = nd3.tip
  · rw [if_pos h5]
    by_cases h6 : A.ok b nd3.utxo = true
    · rw [if_pos h6]
      obtain ⟨g4, e4, m4⟩ := good_setStatus g3 (a := b :: p) { valid := true } (Or.inl hidx3)
      obtain ⟨g5, e5⟩ := good_flushDirty g4
      have e35 := Ext.trans e4 e5
      have htip5 : (flushDirty (setStatus nd3 (b :: p) { valid := true })).tip = p := by
        rw [flushDirty_tip]; exact h5.symm
      generalize flushDirty (setStatus nd3 (b :: p) { valid := true }) = nd5 at g5 e35 htip5 ⊢
      have hspec := connectBlock_spec (nd := { nd5 with utxo := A.conn b nd5.utxo }) cfg hp (n := b :: p)
        (core_with_utxo g5.core _) g5.marker_some (e35.1 _ hst3) (e35.2.1 _ hidx3)
        (by show A.conn b nd5.utxo = utxoOf A (b :: p); rw [g5.utxo_eq, htip5]; rfl)
      have hok := hspec.2.2 (by simp) (by show p = nd5.tip; exact htip5.symm)
      cases hcb : connectBlock cfg { nd5 with utxo := A.conn b nd5.utxo } (b :: p) with
      | mk nd6 ok =>
        rw [hcb] at hspec hok
        simp only at hok
        subst hok
        simp only
        obtain ⟨g6, _, e6⟩ := hspec.1 rfl
        have e6' : Ext nd5 nd6 := e6
        exact ⟨g6, ⟨by simp, by simp⟩, e6'.2.2.2.1 _ (e35.2.2.2.1 _ hrow3), e6'.2.1 _ (e35.2.1 _ hidx3)⟩
    · rw [if_neg h6]
      obtain ⟨g4, e4, _⟩ := good_setStatus g3 (a := b :: p) { failed := true } (Or.inl hidx3)
      obtain ⟨g5, e5⟩ := good_flushDirty g4
      exact ⟨g5, ⟨by simp, by simp⟩, e5.2.2.2.1 _ (e4.2.2.2.1 _ hrow3), e5.2.1 _ (e4.2.1 _ hidx3)⟩
  · rw [if_neg h5]
    by_cases h7 : (b :: p).length ≤ nd3.tip.length
    · rw [if_pos h7]; exact ⟨g3, ⟨by simp, by simp⟩, hrow3, hidx3⟩
    · rw [if_neg h7]
      obtain ⟨g4, e4⟩ := reorg_spec hA cfg hp g3 hidx3
      exact ⟨g4, reorg_res cfg nd3 (b :: p), e4.2.2.2.1 _ hrow3, e4.2.1 _ hidx3⟩

/-- Store/index split: an image in which block `b :: p` has no index row — in
particular the image right after its `dbStoreBlock` commit, where the raw block
is stored — reopens into a node that processes a re-delivery of the block
(neither "duplicate" nor "orphan") and commits its index row. -/
theorem redeliverable_aux (hA : A.Lawful) (cfg : Cfg) (hp : cfg.prune = none) {img : Image A} (hi : Inv img)
    {rn : Node A} (r : recover cfg img = .ok rn) (b : Blk) (p : Chain)
    (hn : (b :: p) ∉ keys img.rows) (hpr : p ∈ keys img.rows)
    (hv : ¬ (statusOf rn.index p).knownInvalid = true) :
    (deliver cfg rn b p).2.fresh ∧ (b :: p) ∈ keys (deliver cfg rn b p).1.img.rows ∧
    (b :: p) ∈ keys (deliver cfg rn b p).1.index := by
  obtain ⟨rn0, r0, g0, _, hrows⟩ := recover_spec cfg hi
  rw [r0] at r
  have hrn : rn0 = rn := by injection r
  subst hrn
  obtain ⟨ho, hsub⟩ := recover_mem cfg hi r0
  have := deliver_fresh_spec hA cfg hp g0 b p (fun hh => hn (hsub _ hh)) (by rw [ho]; simp) (hrows _ hpr) hv
  exact ⟨this.2.1, this.2.2.1, this.2.2.2⟩

/-! ### the in-memory last flush point is the persisted marker

What `flushNeededAfterPrune` relies on, and what F-C04-b broke.  Purely
structural: holds for every configuration, pruning included. -/

def LF (nd : Node A) : Prop := nd.lastFlush = nd.img.marker

theorem lf_setStatus {nd : Node A} (a : Chain) (s : Status) (h : LF nd) : LF (setStatus nd a s) := h

theorem lf_flushDirty {nd : Node A} (h : LF nd) : LF (flushDirty nd) := by
  unfold LF; rw [flushDirty_lastFlush, flushDirty_marker]; exact h

theorem lf_flushIfNeeded (cfg : Cfg) {nd : Node A} (a : Chain) (h : LF nd) : LF (flushIfNeeded cfg nd a) := by
  unfold flushIfNeeded
  split
  · exact h
  · split
    · rfl
    · exact h

theorem lf_flushRequired {nd : Node A} : LF (flushRequired nd) := rfl

theorem lf_connectBlock (cfg : Cfg) {nd : Node A} (n : Chain) (h : LF nd) : LF (connectBlock cfg nd n).1 := by
  unfold connectBlock
  split
  · exact h
  · simp only
    have h1 := lf_flushDirty h
    repeat' split
    all_goals (apply lf_flushIfNeeded; first | exact h1 | rfl)

theorem lf_disconnectTip {nd : Node A} (h : LF nd) : LF (disconnectTip nd).1 := by
  unfold disconnectTip
  split
  · exact h
  · split
    · exact h
    · rfl

theorem lf_disconnectN (k : Nat) : ∀ (nd : Node A), LF nd → LF (disconnectN k nd).1 := by
  induction k with
  | zero => intro nd h; exact h
  | succ k ih =>
    intro nd h
    unfold disconnectN
    have h1 := lf_disconnectTip h
    generalize disconnectTip nd = r at h1 ⊢
    obtain ⟨nd1, ok⟩ := r
    cases ok with
    | false => exact h1
    | true => exact ih nd1 h1

theorem lf_connectAll (cfg : Cfg) (l : List Chain) : ∀ (nd : Node A), LF nd → LF (connectAll cfg l nd).1 := by
  induction l with
  | nil => intro nd h; exact h
  | cons a rest ih =>
    intro nd h
    cases a with
    | nil => exact h
    | cons b c =>
      simp only [connectAll]
      have h1 := lf_connectBlock cfg (nd := { nd with utxo := A.conn b nd.utxo }) (b :: c) h
      generalize connectBlock cfg { nd with utxo := A.conn b nd.utxo } (b :: c) = r at h1 ⊢
      obtain ⟨nd1, ok⟩ := r
      cases ok with
      | false => exact h1
      | true => exact ih nd1 h1

theorem lf_markInvAnc (l : List Chain) : ∀ (nd : Node A), LF nd → LF (markInvAnc nd l) := by
  induction l with
  | nil => intro nd h; exact h
  | cons a rest ih => intro nd h; simp only [markInvAnc]; exact ih _ h

theorem lf_verifyAttach (bs : List Blk) : ∀ (nd : Node A) (v : A.U) (cur : Chain), LF nd →
    LF (verifyAttach nd v cur bs).1 := by
  induction bs with
  | nil => intro nd v cur h; exact h
  | cons b rest ih =>
    intro nd v cur h
    simp only [verifyAttach]
    split
    · exact h
    · split
      · exact ih _ _ _ h
      · split
        · exact ih _ _ _ h
        · exact lf_markInvAnc _ _ h

theorem lf_reorg (cfg : Cfg) {nd : Node A} (n : Chain) (h : LF nd) : LF (reorg cfg nd n).1 := by
  unfold reorg
  simp only
  split
  · exact lf_flushDirty (lf_markInvAnc _ _ h)
  · split
    · exact lf_flushDirty h
    · have h1 := lf_verifyAttach (blocksAbove n (forkOf nd.tip n).length) nd
        (discAll nd.utxo nd.tip (nd.tip.length - (forkOf nd.tip n).length)) (forkOf nd.tip n) h
      generalize verifyAttach nd (discAll nd.utxo nd.tip (nd.tip.length - (forkOf nd.tip n).length))
        (forkOf nd.tip n) (blocksAbove n (forkOf nd.tip n).length) = r1 at h1 ⊢
      obtain ⟨nd1, ok⟩ := r1
      simp only at h1 ⊢
      cases ok with
      | false => exact lf_flushDirty h1
      | true =>
        simp only [Bool.not_true, Bool.false_eq_true, if_false]
        have h2 := lf_disconnectN (nd.tip.length - (forkOf nd.tip n).length) nd1 h1
        generalize disconnectN (nd.tip.length - (forkOf nd.tip n).length) nd1 = r2 at h2 ⊢
        obtain ⟨nd2, ok2⟩ := r2
        simp only at h2 ⊢
        cases ok2 with
        | false => exact lf_flushDirty h2
        | true =>
          simp only
          have h3 := lf_connectAll cfg (chainsOn (forkOf nd.tip n) (blocksAbove n (forkOf nd.tip n).length)) nd2 h2
          generalize connectAll cfg (chainsOn (forkOf nd.tip n) (blocksAbove n (forkOf nd.tip n).length)) nd2
            = r3 at h3 ⊢
          obtain ⟨nd3, ok3⟩ := r3
          simp only at h3 ⊢
          cases ok3 <;> exact lf_flushDirty h3

theorem lf_deliver (cfg : Cfg) {nd : Node A} (b : Blk) (p : Chain) (h : LF nd) : LF (deliver cfg nd b p).1 := by
  unfold deliver
  simp only
  split
  · exact h
  · split
    · exact h
    · split
      · exact h
      · split
        · exact h
        · have h3 : LF (flushDirty (setStatus (emit nd (.storeBlock (b :: p))) (b :: p) {})) :=
            lf_flushDirty (show LF (emit nd (.storeBlock (b :: p))) from h)
          generalize flushDirty (setStatus (emit nd (.storeBlock (b :: p))) (b :: p) {}) = nd3 at h3 ⊢
          split
          · split
            · have h5 : LF (flushDirty (setStatus nd3 (b :: p) { valid := true })) := lf_flushDirty h3
              have h6 := lf_connectBlock cfg
                (nd := { flushDirty (setStatus nd3 (b :: p) { valid := true }) with
                         utxo := A.conn b (flushDirty (setStatus nd3 (b :: p) { valid := true })).utxo }) (b :: p) h5
              generalize connectBlock cfg
                { flushDirty (setStatus nd3 (b :: p) { valid := true }) with
                  utxo := A.conn b (flushDirty (setStatus nd3 (b :: p) { valid := true })).utxo } (b :: p) = r at h6 ⊢
              obtain ⟨nd6, ok⟩ := r
              cases ok with
              | true => exact h6
              | false => exact lf_flushDirty h6
            · exact lf_flushDirty h3
          · split
            · exact h3
            · exact lf_reorg cfg _ h3

theorem lf_step (cfg : Cfg) {nd : Node A} (o : Op) (h : LF nd) : LF (step cfg nd o).1 := by
  cases o with
  | deliver b p => exact lf_deliver cfg b p h
  | header b p =>
    simp only [step]
    split
    · exact h
    · split
      · exact h
      · exact h
  | flushReq => exact lf_flushRequired
  | flushIfNeeded => exact lf_flushIfNeeded cfg _ h
  | flushPeriodic =>
    show LF (if cfg.cacheAlways then flushRequired nd else emit nd .nop)
    split
    · exact lf_flushRequired
    · exact h

theorem lf_runOps (cfg : Cfg) (ops : List Op) : ∀ (nd : Node A), LF nd → LF (runOps cfg nd ops) := by
  induction ops with
  | nil => intro nd h; exact h
  | cons o rest ih => intro nd h; exact ih _ (lf_step cfg o h)

theorem lf_replayBlocks (cfg : Cfg) (bs : List Blk) : ∀ (cur : Chain) (nd nd' : Node A), LF nd →
    replayBlocks cfg bs cur nd = .ok nd' → LF nd' := by
  induction bs with
  | nil => intro cur nd nd' h r; simp only [replayBlocks] at r; injection r with r; rw [← r]; exact h
  | cons b rest ih =>
    intro cur nd nd' h r
    simp only [replayBlocks] at r
    split at r
    · exact absurd r (by simp)
    · exact ih _ _ _ (lf_flushIfNeeded cfg _ (show LF ({ nd with utxo := A.conn b nd.utxo } : Node A) from h)) r

/-- Start-up establishes it whatever the image (this is the fix of F-C04-b). -/
theorem lf_initConsistent (cfg : Cfg) {nd nd' : Node A} (r : initConsistent cfg nd = .ok nd') : LF nd' := by
  unfold initConsistent at r
  split at r
  · injection r with r; rw [← r]; rfl
  · rename_i m hm
    split at r
    · injection r with r; rw [← r]; exact hm.symm
    · split at r
      · exact absurd r (by simp)
      · simp only at r
        exact lf_replayBlocks cfg _ _ { nd with lastFlush := some m } nd' hm.symm r

theorem lf_recover (cfg : Cfg) {img : Image A} {rn : Node A} (r : recover cfg img = .ok rn) : LF rn := by
  unfold recover at r
  split at r
  · exact lf_initConsistent cfg r
  · split at r
    · exact absurd r (by simp)
    · split at r
      · exact absurd r (by simp)
      · split at r
        · exact absurd r (by simp)
        · exact lf_initConsistent cfg r

end BV.C04
