/-
C04 — Chain state recovers to a consistent, previously-active state after any crash.

Setting.  Persistence is a list of atomic commits (one per `db.Update`); by the
prefix-durability of the store (C05, the named premise of this property) a
crash leaves `replay image₀ (log.take k)` for some `k`.  `runOps cfg nd₀ ops`
is the node processing a workload (`deliver` = `ProcessBlock` incl. side
chains, reorganisations of any depth, invalid blocks; `flushReq` /
`flushIfNeeded` = `FlushUtxoCache`; `cfg.cacheAlways` = cache size 0 vs ∞) and
`recover cfg' img` is `blockchain.New` on an image (`initChainState` +
`InitConsistentState`).  `A.Lawful` (disconnecting with the spend journal undoes
connecting) is C03's guarantee, an explicit hypothesis.
Pruning is not part of the model (see meta/C04.json).
-/
import BV.C04.Compose
import BV.Generated.C04
namespace BV.C04

/-- Key invariant, for EVERY prefix of EVERY workload's commit list: the image is
the empty directory or satisfies `Inv` (marker ancestor-or-equal of the
persisted tip ∧ blocks between marker and tip stored ∧ persisted utxo = fold to
the marker ∧ tip block stored ∧ index rows closed under parent). -/
theorem prefix_invariant (A : UtxoAlg) (hA : A.Lawful) (cfg : Cfg) (hp : cfg.prune = none) (ops : List Op)
    (nd0 : Node A)
    (h0 : recover cfg (Image.empty A) = .ok nd0) (k : Nat) :
    Inv' (replay (Image.empty A) ((runOps cfg nd0 ops).log.take k)) := by
  obtain ⟨nd0', r0, g0, _⟩ := recover_empty_spec (A := A) cfg
  rw [r0] at h0
  have hnd : nd0' = nd0 := by injection h0
  subst hnd
  exact ((runOps_spec hA cfg hp ops nd0' g0).1.core.sound k).1

/-- For every workload and EVERY prefix length k: every block of the persisted
active chain has its spend-journal entry in the image (pruning off) — what a
reorganisation after the restart needs in order to disconnect it. -/
theorem prefix_journal (A : UtxoAlg) (hA : A.Lawful) (cfg : Cfg) (hp : cfg.prune = none) (ops : List Op)
    (nd0 : Node A) (h0 : recover cfg (Image.empty A) = .ok nd0) (k : Nat) :
    JI (replay (Image.empty A) ((runOps cfg nd0 ops).log.take k)) := by
  obtain ⟨nd0', r0, g0, _⟩ := recover_empty_spec (A := A) cfg
  rw [r0] at h0
  have hnd : nd0' = nd0 := by injection h0
  subst hnd
  exact ((runOps_spec hA cfg hp ops nd0' g0).1.core.sound k).2 ji_empty

/-- For every workload and EVERY prefix length `k` of its commit list, reopening
(with any cache configuration `cfg'`) succeeds and yields a tip that a commit of
the prefix had made active, `utxo = fold (chain tip)`, and an index that knows
every block whose index row was committed in the prefix. -/
theorem prefix_recovers (A : UtxoAlg) (hA : A.Lawful) (cfg cfg' : Cfg) (hp : cfg.prune = none) (ops : List Op)
    (nd0 : Node A)
    (h0 : recover cfg (Image.empty A) = .ok nd0) (k : Nat) :
    ∃ rn, recover cfg' (replay (Image.empty A) ((runOps cfg nd0 ops).log.take k)) = .ok rn ∧
      RecoverOk A (activeTips ((runOps cfg nd0 ops).log.take k)) (rowKeys ((runOps cfg nd0 ops).log.take k))
        ⟨rn.tip, rn.utxo, keys rn.index⟩ :=
  prefix_recovers_aux hA cfg cfg' hp ops nd0 h0 k

/-- A block whose delivery was acknowledged (`ProcessBlock` returned without
error, on the main or a side chain) has its index row in every crash image taken
at or after the end of that delivery — so by `prefix_recovers` the reopened
index knows it. -/
theorem acked_indexed (A : UtxoAlg) (hA : A.Lawful) (cfg : Cfg) (hp : cfg.prune = none) (ops1 ops2 : List Op)
    (nd0 : Node A)
    (h0 : recover cfg (Image.empty A) = .ok nd0) (b : Blk) (p : Chain)
    (hack : (deliver cfg (runOps cfg nd0 ops1) b p).2 = .okMain ∨
            (deliver cfg (runOps cfg nd0 ops1) b p).2 = .okSide)
    (k : Nat) (hk : (deliver cfg (runOps cfg nd0 ops1) b p).1.log.length ≤ k) :
    (b :: p) ∈ rowKeys ((runOps cfg (deliver cfg (runOps cfg nd0 ops1) b p).1 ops2).log.take k) :=
  acked_indexed_aux hA cfg hp ops1 ops2 nd0 h0 b p hack k hk

/-- `ProcessBlockHeader` leaves no durable trace: no commit, same image (header-only
index nodes are never written), so it cannot create a crash point. -/
theorem header_no_commit (A : UtxoAlg) (cfg : Cfg) (nd : Node A) (b : Blk) (p : Chain) :
    (step cfg nd (.header b p)).1.log = nd.log ∧ (step cfg nd (.header b p)).1.img = nd.img := by
  simp only [step]
  split
  · exact ⟨rfl, rfl⟩
  · split <;> exact ⟨rfl, rfl⟩

/-- The block-store / index split, precisely: `maybeAcceptBlock` commits the raw
block (`dbStoreBlock`) and its index row (`flushToDB`) in two transactions.  In
ANY image that satisfies the invariant (by `prefix_invariant`: any crash image)
in which block `b :: p` has no index row — in particular the image right after
its `dbStoreBlock` commit — while its parent has one and is not known invalid,
the reopened node does not refuse a re-delivery of the block as duplicate or
orphan: it processes it and commits its index row.  (A row-less stored block
that could not be delivered again would be stranded forever.) -/
theorem redeliverable (A : UtxoAlg) (hA : A.Lawful) (cfg : Cfg) (hp : cfg.prune = none) (img : Image A)
    (hi : Inv img) (rn : Node A) (r : recover cfg img = .ok rn) (b : Blk) (p : Chain)
    (hn : (b :: p) ∉ keys img.rows) (hpr : p ∈ keys img.rows)
    (hv : ¬ (statusOf rn.index p).knownInvalid = true) :
    ((deliver cfg rn b p).2 ≠ .dup ∧ (deliver cfg rn b p).2 ≠ .orphan) ∧
    (b :: p) ∈ keys (deliver cfg rn b p).1.img.rows ∧ (b :: p) ∈ keys (deliver cfg rn b p).1.index :=
  redeliverable_aux hA cfg hp hi r b p hn hpr hv

/-- Crash during recovery: every image at a commit boundary of the recovery's own
log satisfies the invariant again, and reopening it yields the same tip with
`utxo = fold (chain tip)` and an index that still contains every persisted row. -/
theorem recover_idempotent (A : UtxoAlg) (cfg cfg' : Cfg) (img : Image A) (hi : Inv img) (rn : Node A)
    (r : recover cfg img = .ok rn) (j : Nat) :
    Inv (replay img (rn.log.take j)) ∧
    ∃ rn', recover cfg' (replay img (rn.log.take j)) = .ok rn' ∧ rn'.tip = rn.tip ∧
      rn'.utxo = utxoOf A rn.tip ∧ (∀ x, x ∈ keys img.rows → x ∈ keys rn'.index) :=
  recover_idempotent_aux cfg cfg' hi r j

/-- Crash, reopen, continue with ANY further workload, crash again (to any
depth, since the conclusion re-establishes the hypothesis `Inv`): every prefix
of the second life's commit list — the recovery's own commits first — is an image
that satisfies the invariant and reopens with `utxo = fold (chain tip)` on the
image's tip or a tip that a commit of the second life made active, the index
still containing every row persisted before. -/
theorem relife_recovers (A : UtxoAlg) (hA : A.Lawful) (cfg cfg' : Cfg) (hp : cfg.prune = none) (img : Image A)
    (hi : Inv img) (rn : Node A) (r : recover cfg img = .ok rn) (ops : List Op) (k : Nat) :
    Inv (replay img ((runOps cfg rn ops).log.take k)) ∧
    ∃ rn', recover cfg' (replay img ((runOps cfg rn ops).log.take k)) = .ok rn' ∧
      rn'.utxo = utxoOf A rn'.tip ∧
      (rn'.tip = img.best ∨ rn'.tip ∈ ((runOps cfg rn ops).log.take k).filterMap bestOf) ∧
      (∀ x, x ∈ keys img.rows → x ∈ keys rn'.index) :=
  relife_recovers_aux hA cfg cfg' hp hi r ops k

/-- Convergence, partial: once a later delivery re-triggers chain selection and
ends on the main chain and moves the tip (hypothesis = negation of F-C04-a), the node — whatever crash/recovery history it has — is on that block's
chain with `utxo = fold`, i.e. in the same observable state as any other run
that activated the same block.  What is missing for the full last sentence of
the property: nothing at start-up or at re-delivery re-activates a heavier
branch that is already stored (`converges_full_fails`). -/
theorem converges_partial (A : UtxoAlg) (hA : A.Lawful) (cfg₁ cfg₂ : Cfg) (hp₁ : cfg₁.prune = none)
    (hp₂ : cfg₂.prune = none) (base₁ base₂ : Image A)
    (nd₁ nd₂ : Node A) (g₁ : Good base₁ nd₁) (g₂ : Good base₂ nd₂) (b : Blk) (p : Chain)
    (h₁ : (deliver cfg₁ nd₁ b p).2 = .okMain) (h₂ : (deliver cfg₂ nd₂ b p).2 = .okMain)
    (v₁ : (deliver cfg₁ nd₁ b p).1.tip ≠ nd₁.tip) (v₂ : (deliver cfg₂ nd₂ b p).1.tip ≠ nd₂.tip) :
    (deliver cfg₁ nd₁ b p).1.tip = (deliver cfg₂ nd₂ b p).1.tip ∧
    (deliver cfg₁ nd₁ b p).1.utxo = (deliver cfg₂ nd₂ b p).1.utxo ∧
    (deliver cfg₁ nd₁ b p).1.tip = b :: p :=
  converges_aux hA cfg₁ cfg₂ hp₁ hp₂ g₁ g₂ b p h₁ h₂ v₁ v₂

/-- F-C04-a: the last sentence of the property fails for the code as it is.
Witness: one block `A1` delivered on a fresh database (8 commits); the process
dies after commit 5 (the block's index row is durable, the block is not yet
connected); the reopened node is on genesis, and feeding `A1` again is refused as
a duplicate, so the final tip is genesis instead of `A1`. -/
theorem converges_full_fails :
    ¬ ∀ (cfg : Cfg) (ops : List Op) (k : Nat),
        crashTip (A := FreeAlg) cfg ops k = plainTip (A := FreeAlg) cfg ops := by
  intro h
  exact absurd (h ⟨true, none⟩ [.deliver ⟨1, [], false⟩ []] 5) (by decide)

/-- The same inside a reorganisation (A1 active, B1–B2 delivered, crash after the
first disconnect commit): the node stays on genesis although B2 is stored. -/
theorem converges_full_fails_reorg :
    crashTip (A := FreeAlg) ⟨false, none⟩
      [.deliver ⟨1, [], false⟩ [], .deliver ⟨2, [], false⟩ [],
       .deliver ⟨3, [], false⟩ [⟨2, [], false⟩]] 14 = some [] ∧
    plainTip (A := FreeAlg) ⟨false, none⟩
      [.deliver ⟨1, [], false⟩ [], .deliver ⟨2, [], false⟩ [],
       .deliver ⟨3, [], false⟩ [⟨2, [], false⟩]] = some [⟨3, [], false⟩, ⟨2, [], false⟩] := by
  decide

/-- The prune guard (`flushNeededAfterPrune`), commit level: when the in-memory
last flush point IS the persisted marker `m` (what the fix of F-C04-b restores
after a replay at start-up) and the block being connected is itself not in a
pruned file, the connect commit that deletes the blocks `ps` — with the forced
utxo flush exactly when some deleted block is at or above the marker's height —
preserves the invariant.  (Node-level theorems above are for pruning off; with
pruning on the model is tied to the code by the correspondence run only.) -/
theorem prune_guard_preserves (A : UtxoAlg) (img : Image A) (hi : Inv img) (n m : Chain) (ps : List Chain)
    (hm : img.marker = some m) (hn : n ≠ []) (ht : n.tail = img.best) (hst : n ∈ img.stored)
    (hnp : n ∉ ps) (hrow : n ∈ keys img.rows) :
    Inv (apply img (.connectPrune n ps
      (if ps.any (fun x => decide (m.length ≤ x.length)) then some (utxoOf A n) else none))) := by
  have he : effMarker img = m := by simp [effMarker, hm]
  by_cases hf : ps.any (fun x => decide (m.length ≤ x.length)) = true
  · rw [if_pos hf]
    exact safe_preserves hi ⟨hn, ht, hst, hnp, hrow, rfl⟩
  · rw [if_neg hf]
    refine safe_preserves hi ⟨hn, ht, hst, hnp, hrow, by rw [hm]; simp, ?_⟩
    intro x hx _
    rw [he]
    have : ¬ (m.length ≤ x.length) := by
      intro hle
      exact hf (List.any_eq_true.mpr ⟨x, hx, by simpa using hle⟩)
    omega

/-- The first hypothesis of `prune_guard_preserves` is an invariant of the (fixed)
code: after start-up on ANY image and any workload, under EVERY configuration
(pruning on or off, any cache size), the in-memory last flush point equals the
persisted utxo consistency marker.  This is exactly what F-C04-b violated. -/
theorem last_flush_is_marker (A : UtxoAlg) (cfg : Cfg) (img : Image A) (rn : Node A)
    (r : recover cfg img = .ok rn) (ops : List Op) :
    (runOps cfg rn ops).lastFlush = (runOps cfg rn ops).img.marker :=
  lf_runOps cfg ops rn (lf_recover cfg r)

/-- F-C04-b (fixed in the tree, commit 0272d521): why the guard has to compare
with the persisted marker.  Image: chain 1–3 active, marker at block 1, all
stored.  Had the guard compared the deleted heights with the tip (height 3), a
prune of blocks 1–2 while connecting block 4 would not flush — and the
resulting image cannot be reopened: the replay from the marker needs block 2. -/
theorem prune_guard_needs_marker :
    let b : Nat → Blk := fun i => ⟨i, [], false⟩
    let c3 : Chain := [b 3, b 2, b 1]
    let img : Image FreeAlg :=
      { created := true, stored := [b 4 :: c3, c3, [b 2, b 1], [b 1], []],
        rows := [([], genesisStatus), ([b 1], {valid := true}), ([b 2, b 1], {valid := true}),
                 (c3, {valid := true}), (b 4 :: c3, {valid := true})],
        best := c3, journal := [], utxo := [b 1], marker := some [b 1], fileMax := 0, files := [] }
    (∃ rn, recover ⟨false, none⟩ img = .ok rn ∧ rn.tip = c3) ∧
    recoverErr (recover ⟨false, none⟩ (apply img (.connectPrune (b 4 :: c3) [[b 2, b 1], [b 1]] none)))
      = some .blockMissing := by
  refine ⟨⟨_, rfl, rfl⟩, ?_⟩
  decide

/-- F-C04-c (known finding): the hypothesis `n ∉ ps` of `prune_guard_preserves`
is not guaranteed by the code.  Same image as above, marker at the tip this
time; connecting block 4 while its own block file is pruned (forced flush
included) leaves an image that cannot be reopened: the tip's block is gone. -/
theorem prune_of_connected_block_fails :
    let b : Nat → Blk := fun i => ⟨i, [], false⟩
    let c3 : Chain := [b 3, b 2, b 1]
    let img : Image FreeAlg :=
      { created := true, stored := [b 4 :: c3, c3, [b 2, b 1], [b 1], []],
        rows := [([], genesisStatus), ([b 1], {valid := true}), ([b 2, b 1], {valid := true}),
                 (c3, {valid := true}), (b 4 :: c3, {valid := true})],
        best := c3, journal := [], utxo := c3, marker := some c3, fileMax := 0, files := [] }
    recoverErr (recover ⟨false, none⟩
      (apply img (.connectPrune (b 4 :: c3) [b 4 :: c3, [b 1]] (some (b 4 :: c3))))) = some .tipNotStored := by
  decide

/-- The hypotheses are satisfiable: the free algebra (state = list of connected
blocks) is lawful, a fresh node exists and is `Good`. -/
example : FreeAlg.Lawful := fun _ _ => rfl

/-- The algebra the correspondence driver runs (sets of outpoints + journal) is lawful too. -/
example : SetAlg.Lawful := fun _ _ => rfl

example : ∃ nd0 : Node FreeAlg, recover ⟨true, none⟩ (Image.empty FreeAlg) = .ok nd0 ∧
    Good (Image.empty FreeAlg) nd0 := by
  obtain ⟨nd0, r, g, _⟩ := recover_empty_spec (A := FreeAlg) ⟨true, none⟩
  exact ⟨nd0, r, g⟩

/-! ### Composition with C03 (unspent-output fold, undo) and C05 (prefix durability) -/

/-- C03 discharges the `Lawful` hypothesis: for the algebra built from C03's protocol
definitions (`applyBlock`, `journalOf`, `undoBlock`, the executable check `blockOk`),
"disconnecting with the spend journal undoes connecting" is C03's theorem
`undo_apply_id` (`undoBlock_applyBlock`) together with `blockOk_valid`. -/
theorem c03_lawful_instance : C03Alg.Lawful := c03_lawful

/-- The fold the C04 theorems talk about IS C03's Spec fold: for a chain whose blocks
C03's check accepts on top of their predecessors, the set component of
`utxoOf C03Alg chain` equals `BV.C03.Spec.utxoOf` of the corresponding C03 blocks
(genesis side first). -/
theorem fold_is_c03_fold (c : Chain) (h : ChainOk c) :
    (utxoOf C03Alg c).set = BV.C03.Spec.utxoOf (c.reverse.map toBlock) :=
  c03_fold_spec c h

/-- For every workload and EVERY prefix of its commit list: every block of the
persisted active chain was accepted by `A.ok` on the fold of its predecessors, and
every index row marked valid is justified the same way (pruning off). -/
theorem prefix_valid (A : UtxoAlg) (hA : A.Lawful) (cfg : Cfg) (hp : cfg.prune = none) (ops : List Op)
    (nd0 : Node A) (h0 : recover cfg (Image.empty A) = .ok nd0) (k : Nat) :
    VChain A (replay (Image.empty A) ((runOps cfg nd0 ops).log.take k)).best ∧
    IV A (replay (Image.empty A) ((runOps cfg nd0 ops).log.take k)).rows :=
  prefix_valid_aux hA cfg hp ops nd0 h0 k

/-- The first clauses of the property in C03's own terms, no `Lawful` and no validity
hypothesis: for every workload, every prefix k and any reopen configuration, the
reopened node is on a previously-active tip, its unspent-output set is
`BV.C03.Spec.utxoOf` of the C03 blocks of that tip's chain, and its index knows every
block whose row was committed. -/
theorem recovered_utxo_is_c03_fold (cfg cfg' : Cfg) (hp : cfg.prune = none) (ops : List Op)
    (nd0 : Node C03Alg) (h0 : recover cfg (Image.empty C03Alg) = .ok nd0) (k : Nat) :
    ∃ rn, recover cfg' (replay (Image.empty C03Alg) ((runOps cfg nd0 ops).log.take k)) = .ok rn ∧
      rn.tip ∈ activeTips ((runOps cfg nd0 ops).log.take k) ∧
      rn.utxo.set = BV.C03.Spec.utxoOf (rn.tip.reverse.map toBlock) ∧
      (∀ n, n ∈ rowKeys ((runOps cfg nd0 ops).log.take k) → n ∈ keys rn.index) :=
  recovered_is_c03_fold cfg cfg' hp ops nd0 h0 k

/-- `prefix_recovers` on C03's definitions, WITHOUT the `Lawful` hypothesis. -/
theorem prefix_recovers_c03 (cfg cfg' : Cfg) (hp : cfg.prune = none) (ops : List Op)
    (nd0 : Node C03Alg) (h0 : recover cfg (Image.empty C03Alg) = .ok nd0) (k : Nat) :
    ∃ rn, recover cfg' (replay (Image.empty C03Alg) ((runOps cfg nd0 ops).log.take k)) = .ok rn ∧
      RecoverOk C03Alg (activeTips ((runOps cfg nd0 ops).log.take k)) (rowKeys ((runOps cfg nd0 ops).log.take k))
        ⟨rn.tip, rn.utxo, keys rn.index⟩ :=
  prefix_recovers C03Alg c03_lawful cfg cfg' hp ops nd0 h0 k

/-- C05 supplies the prefix premise (`BV.C05.prefix_durable`, instantiated with C04's
`apply`): push the node's commit list through ffldb's write path — every commit taking
the cache or the flush path, explicit flushes in between (`evs`, any interleaving whose
commits are the node's log) — and let a crash strike between ANY two I/O micro-steps.
The image on disk is `replay` of the first `d.nDisk` commits, and the block data of
at least those commits had been fsynced before (`nDisk ≤ nSynced`): a power loss that
drops everything not fsynced (the `sync` crash images of the harness) loses nothing the
image refers to. -/
theorem crash_image_prefix (A : UtxoAlg) (evs : List (BV.C05.DEvent (Commit A)))
    (d : BV.C05.DState (Image A) (Commit A))
    (hc : BV.C05.CrashAt apply (BV.C05.init (Image.empty A)) evs d) :
    d.nDisk ≤ d.nSynced ∧ d.nDisk ≤ (BV.C05.commitsOf evs).length ∧
    BV.C05.crashImage d = replay (Image.empty A) ((BV.C05.commitsOf evs).take d.nDisk) :=
  crash_image_is_prefix evs d hc

/-- End to end across C03, C04 and C05: for every workload, every way ffldb's cache
schedules the node's commits and every crash point between two I/O steps, reopening
the crash image succeeds on a previously-active tip whose unspent-output set is
`BV.C03.Spec.utxoOf` of its chain, with an index that knows every committed row.  Hypotheses left: pruning off; and what C05's
durability model assumes — a goleveldb transaction commit is atomic and durable and
synced block data is on disk. -/
theorem crash_recovers_composed (cfg cfg' : Cfg) (hp : cfg.prune = none) (ops : List Op)
    (nd0 : Node C03Alg) (h0 : recover cfg (Image.empty C03Alg) = .ok nd0)
    (evs : List (BV.C05.DEvent (Commit C03Alg)))
    (hev : BV.C05.commitsOf evs = (runOps cfg nd0 ops).log)
    (d : BV.C05.DState (Image C03Alg) (Commit C03Alg))
    (hc : BV.C05.CrashAt apply (BV.C05.init (Image.empty C03Alg)) evs d) :
    ∃ rn, recover cfg' (BV.C05.crashImage d) = .ok rn ∧
      rn.tip ∈ activeTips ((runOps cfg nd0 ops).log.take d.nDisk) ∧
      rn.utxo.set = BV.C03.Spec.utxoOf (rn.tip.reverse.map toBlock) ∧
      (∀ n, n ∈ rowKeys ((runOps cfg nd0 ops).log.take d.nDisk) → n ∈ keys rn.index) := by
  obtain ⟨_, _, himg⟩ := crash_image_is_prefix evs d hc
  rw [himg, hev]
  exact recovered_is_c03_fold cfg cfg' hp ops nd0 h0 d.nDisk

/-- The schedule hypothesis is satisfiable for every commit list (e.g. every commit on
the flush path). -/
example (A : UtxoAlg) (log : List (Commit A)) :
    BV.C05.commitsOf (log.map (fun c => BV.C05.DEvent.commit c true)) = log := by
  induction log with
  | nil => rfl
  | cons c r ih => simp only [List.map_cons, BV.C05.commitsOf, ih]

/-! ### pins -/

theorem pin_names : Generated.C04.names = Const.names := by decide
theorem pin_status_bits : Generated.C04.statusBits =
    [(Const.statusDataStored : Int), Const.statusValid, Const.statusValidateFailed,
     Const.statusInvalidAncestor, Const.statusHeaderStored] := by decide
theorem pin_versions : Generated.C04.utxoSetVersion = 2 ∧ Generated.C04.spendJournalVersion = 1 := by decide

end BV.C04
