/-
C04 — Lemmas, part 7: acknowledged blocks are indexed; a delivery that ends on
the main chain puts the node on that block's chain.
-/
import BV.C04.Lemmas6
namespace BV.C04

variable {A : UtxoAlg}

theorem acked_indexed_aux (hA : A.Lawful) (cfg : Cfg) (hp : cfg.prune = none) (ops1 ops2 : List Op) (nd0 : Node A)
    (h0 : recover cfg (Image.empty A) = .ok nd0) (b : Blk) (p : Chain)
    (hack : (deliver cfg (runOps cfg nd0 ops1) b p).2 = .okMain ∨
            (deliver cfg (runOps cfg nd0 ops1) b p).2 = .okSide)
    (k : Nat) (hk : (deliver cfg (runOps cfg nd0 ops1) b p).1.log.length ≤ k) :
    (b :: p) ∈ rowKeys ((runOps cfg (deliver cfg (runOps cfg nd0 ops1) b p).1 ops2).log.take k) := by
  obtain ⟨nd0', r0, g0, _⟩ := recover_empty_spec (A := A) cfg
  rw [r0] at h0
  have hnd : nd0' = nd0 := by injection h0
  subst hnd
  have g1 := (runOps_spec hA cfg hp ops1 nd0' g0).1
  obtain ⟨g2, _, hrow⟩ := deliver_spec hA cfg hp g1 b p
  have hr := hrow hack
  rw [g2.core.img_eq] at hr
  rcases (rows_replay _ _ _).mp hr with h | h
  · simp [Image.empty, keys] at h
  · have e3 := (runOps_spec hA cfg hp ops2 _ g2).2
    obtain ⟨t, ht⟩ := e3.2.2.2.2
    rw [← ht, List.take_append, List.take_of_length_le hk]
    unfold rowKeys
    rw [List.flatMap_append]
    exact List.mem_append_left _ h

/-- Crash, reopen, continue with any workload, crash again: every prefix of the
second life's commit list (recovery's own commits first) is again an image that
satisfies the invariant and reopens consistently. -/
theorem relife_recovers_aux (hA : A.Lawful) (cfg cfg' : Cfg) (hp : cfg.prune = none) {img : Image A}
    (hi : Inv img) {rn : Node A} (r : recover cfg img = .ok rn) (ops : List Op) (k : Nat) :
    Inv (replay img ((runOps cfg rn ops).log.take k)) ∧
    ∃ rn', recover cfg' (replay img ((runOps cfg rn ops).log.take k)) = .ok rn' ∧
      rn'.utxo = utxoOf A rn'.tip ∧
      (rn'.tip = img.best ∨ rn'.tip ∈ ((runOps cfg rn ops).log.take k).filterMap bestOf) ∧
      (∀ x, x ∈ keys img.rows → x ∈ keys rn'.index) := by
  obtain ⟨rn0, r0, g0, _, _⟩ := recover_spec cfg hi
  rw [r0] at r
  have hrn : rn0 = rn := by injection r
  subst hrn
  obtain ⟨gfin, _⟩ := runOps_spec hA cfg hp ops rn0 g0
  have hinv : Inv (replay img ((runOps cfg rn0 ops).log.take k)) :=
    inv_of_inv' (gfin.core.sound k).1 (created_replay _ _ hi.created)
  obtain ⟨rn', r', g', t', hrows⟩ := recover_spec cfg' hinv
  refine ⟨hinv, rn', r', g'.utxo_eq, ?_, ?_⟩
  · rw [t']
    exact best_replay _ img
  · intro x hx
    exact hrows x ((rows_replay _ img x).mpr (Or.inl hx))

/-! ### where a successful delivery leaves the tip -/

theorem connectBlock_tip (cfg : Cfg) (nd : Node A) (n : Chain) (h : (connectBlock cfg nd n).2 = true) :
    (connectBlock cfg nd n).1.tip = n := by
  unfold connectBlock at h ⊢
  split
  · rename_i hc; simp [hc] at h
  · simp only
    repeat' split
    all_goals (simp only [flushIfNeeded_tip])

theorem connectBlock_ok_of (cfg : Cfg) (nd : Node A) (n : Chain) (hc : ¬(n = [] ∨ n.tail ≠ nd.tip)) :
    (connectBlock cfg nd n).2 = true := by
  unfold connectBlock
  rw [if_neg hc]
  simp only
  repeat' split
  all_goals rfl

theorem connectBlock_tip_false (cfg : Cfg) (nd : Node A) (n : Chain) (h : (connectBlock cfg nd n).2 = false) :
    (connectBlock cfg nd n).1.tip = nd.tip := by
  by_cases hc : n = [] ∨ n.tail ≠ nd.tip
  · unfold connectBlock; rw [if_pos hc]
  · rw [connectBlock_ok_of cfg nd n hc] at h; exact absurd h (by simp)

theorem connectAll_tip (cfg : Cfg) (l : List Chain) : ∀ (nd : Node A), (connectAll cfg l nd).2 = true →
    (connectAll cfg l nd).1.tip = l.getLast?.getD nd.tip := by
  induction l with
  | nil => intro nd _; rfl
  | cons a rest ih =>
    intro nd h
    cases a with
    | nil => simp [connectAll] at h
    | cons b c =>
      simp only [connectAll] at h ⊢
      have hct := connectBlock_tip cfg { nd with utxo := A.conn b nd.utxo } (b :: c)
      generalize connectBlock cfg { nd with utxo := A.conn b nd.utxo } (b :: c) = r at h hct ⊢
      obtain ⟨nd1, ok⟩ := r
      · cases ok with
        | false => simp at h
        | true =>
          simp only at h ⊢
          rw [ih nd1 h]
          have ht : nd1.tip = b :: c := hct rfl
          rw [ht, List.getLast?_cons]
          cases rest.getLast? <;> rfl

theorem chainsOn_last (bs : List Blk) : ∀ (cur : Chain),
    (chainsOn cur bs).getLast?.getD cur = bs.reverse ++ cur := by
  induction bs with
  | nil => intro cur; rfl
  | cons b rest ih =>
    intro cur
    simp only [chainsOn, List.getLast?_cons]
    have := ih (b :: cur)
    simp only [Option.getD_some, List.reverse_cons, List.append_assoc, List.singleton_append]
    exact this

theorem disconnectTip_tip (nd : Node A) (h : (disconnectTip nd).2 = true) :
    (disconnectTip nd).1.tip = nd.tip.tail := by
  unfold disconnectTip at h ⊢
  cases ht : nd.tip with
  | nil => rw [ht] at h; simp at h
  | cons b p =>
    rw [ht] at h
    simp only at h ⊢
    split
    · rename_i hc; simp [hc] at h
    · rfl

theorem disconnectN_tip (k : Nat) : ∀ (nd : Node A), (disconnectN k nd).2 = true →
    (disconnectN k nd).1.tip = nd.tip.drop k := by
  induction k with
  | zero => intro nd _; simp [disconnectN]
  | succ k ih =>
    intro nd h
    unfold disconnectN at h ⊢
    have hdt := disconnectTip_tip nd
    generalize disconnectTip nd = r at h hdt ⊢
    obtain ⟨nd1, ok⟩ := r
    cases ok with
    | false => simp at h
    | true =>
      simp only at h ⊢
      rw [ih nd1 h, hdt rfl, List.drop_tail]

theorem markInvAnc_tip (l : List Chain) : ∀ (nd : Node A), (markInvAnc nd l).tip = nd.tip := by
  induction l with
  | nil => intro nd; rfl
  | cons a rest ih => intro nd; simp only [markInvAnc]; rw [ih]; rfl

theorem verifyAttach_tip (bs : List Blk) : ∀ (nd : Node A) (v : A.U) (cur : Chain),
    (verifyAttach nd v cur bs).1.tip = nd.tip := by
  induction bs with
  | nil => intro nd v cur; rfl
  | cons b rest ih =>
    intro nd v cur
    simp only [verifyAttach]
    split
    · rfl
    · split
      · exact ih _ _ _
      · split
        · rw [ih]; rfl
        · simp only; rw [markInvAnc_tip]; rfl

theorem reorg_okMain_tip (cfg : Cfg) (nd : Node A) (n : Chain) (h : (reorg cfg nd n).2 = .okMain)
    (hmoved : (reorg cfg nd n).1.tip ≠ nd.tip) : (reorg cfg nd n).1.tip = n := by
  have hf1 : forkOf nd.tip n <:+ nd.tip := forkOf_suffix_left _ _
  have hf2 : forkOf nd.tip n <:+ n := forkOf_suffix_right _ _
  unfold reorg at h hmoved ⊢
  simp only at h hmoved ⊢
  split at h
  · rename_i hc
    rw [if_pos hc] at hmoved
    exfalso; apply hmoved
    simp only; rw [flushDirty_tip, markInvAnc_tip]
  · rename_i hc
    rw [if_neg hc] at hmoved ⊢
    split at h
    · simp at h
    · rename_i hd
      rw [if_neg hd] at hmoved ⊢
      have hvt := verifyAttach_tip (blocksAbove n (forkOf nd.tip n).length) nd
        (discAll nd.utxo nd.tip (nd.tip.length - (forkOf nd.tip n).length)) (forkOf nd.tip n)
      generalize verifyAttach nd (discAll nd.utxo nd.tip (nd.tip.length - (forkOf nd.tip n).length))
          (forkOf nd.tip n) (blocksAbove n (forkOf nd.tip n).length) = r1 at h hmoved hvt ⊢
      obtain ⟨nd1, ok⟩ := r1
      · simp only at h hmoved hvt ⊢
        cases ok with
        | false =>
          simp only [Bool.not_false, if_true] at h
          split at h <;> simp at h
        | true =>
          simp only [Bool.not_true, Bool.false_eq_true, if_false] at h hmoved ⊢
          have hdt := disconnectN_tip (nd.tip.length - (forkOf nd.tip n).length) nd1
          generalize disconnectN (nd.tip.length - (forkOf nd.tip n).length) nd1 = r2 at h hmoved hdt ⊢
          obtain ⟨nd2, ok2⟩ := r2
          · simp only at h hmoved hdt ⊢
            cases ok2 with
            | false => simp at h
            | true =>
              simp only at h hmoved ⊢
              have ht2 : nd2.tip = forkOf nd.tip n := by
                rw [hdt rfl, hvt]; exact suffix_drop hf1
              have hct := connectAll_tip cfg (chainsOn (forkOf nd.tip n) (blocksAbove n (forkOf nd.tip n).length)) nd2
              generalize connectAll cfg (chainsOn (forkOf nd.tip n) (blocksAbove n (forkOf nd.tip n).length)) nd2
                = r3 at h hmoved hct ⊢
              obtain ⟨nd3, ok3⟩ := r3
              · simp only at h hmoved hct ⊢
                cases ok3 with
                | false => simp at h
                | true =>
                  simp only at ⊢
                  rw [flushDirty_tip, hct rfl, ht2, chainsOn_last, blocksAbove_append hf2]

theorem deliver_okMain_tip (cfg : Cfg) (nd : Node A) (b : Blk) (p : Chain)
    (h : (deliver cfg nd b p).2 = .okMain) (hmoved : (deliver cfg nd b p).1.tip ≠ nd.tip) :
    (deliver cfg nd b p).1.tip = b :: p := by
  unfold deliver at h hmoved ⊢
  simp only at h hmoved ⊢
  split at h
  · simp at h
  · rename_i h1
    rw [if_neg h1] at hmoved ⊢
    split at h
    · simp at h
    · rename_i h2
      rw [if_neg h2] at hmoved ⊢
      split at h
      · simp at h
      · rename_i h3
        rw [if_neg h3] at hmoved ⊢
        split at h
        · simp at h
        · rename_i h4
          rw [if_neg h4] at hmoved ⊢
          have ht3 : (flushDirty (setStatus (emit nd (.storeBlock (b :: p))) (b :: p) {})).tip = nd.tip := by
            rw [flushDirty_tip]; rfl
          generalize flushDirty (setStatus (emit nd (.storeBlock (b :: p))) (b :: p) {}) = nd3 at h hmoved ht3 ⊢
          split at h
          · rename_i h5
            rw [if_pos h5] at hmoved ⊢
            split at h
            · rename_i h6
              rw [if_pos h6] at hmoved ⊢
              have hct := connectBlock_tip cfg
                  { flushDirty (setStatus nd3 (b :: p) { valid := true }) with
                    utxo := A.conn b (flushDirty (setStatus nd3 (b :: p) { valid := true })).utxo } (b :: p)
              generalize connectBlock cfg
                  { flushDirty (setStatus nd3 (b :: p) { valid := true }) with
                    utxo := A.conn b (flushDirty (setStatus nd3 (b :: p) { valid := true })).utxo } (b :: p)
                  = r at h hmoved hct ⊢
              obtain ⟨nd6, ok⟩ := r
              · cases ok with
                | false => simp at h
                | true => exact hct rfl
            · simp at h
          · rename_i h5
            rw [if_neg h5] at hmoved ⊢
            split at h
            · simp at h
            · rename_i h7
              rw [if_neg h7] at hmoved ⊢
              exact reorg_okMain_tip cfg nd3 (b :: p) h (by rw [ht3]; exact hmoved)

/-- The free algebra: a state is the list of connected blocks. -/
def FreeAlg : UtxoAlg where
  U := List Blk
  empty := []
  ok b _ := !b.bad
  conn b u := b :: u
  disc _ u := u.tail

/-- The reason a start-up fails, if it fails. -/
def recoverErr (r : Except Corrupt (Node A)) : Option Corrupt :=
  match r with
  | .error e => some e
  | .ok _ => none

/-- Final tip of the uninterrupted run of a workload on a fresh database. -/
def plainTip (cfg : Cfg) (ops : List Op) : Option Chain :=
  match recover (A := A) cfg (Image.empty A) with
  | .ok nd0 => some (runOps cfg nd0 ops).tip
  | .error _ => none

/-- Final tip when the process dies after the `k`-th commit, the database is
reopened and every delivery of the workload is fed again. -/
def crashTip (cfg : Cfg) (ops : List Op) (k : Nat) : Option Chain :=
  match recover (A := A) cfg (Image.empty A) with
  | .ok nd0 =>
    match recover cfg (replay (Image.empty A) ((runOps cfg nd0 ops).log.take k)) with
    | .ok rn => some (runOps cfg rn ops).tip
    | .error _ => none
  | .error _ => none

theorem converges_aux (hA : A.Lawful) (cfg₁ cfg₂ : Cfg) (hp₁ : cfg₁.prune = none) (hp₂ : cfg₂.prune = none) {base₁ base₂ : Image A} {nd₁ nd₂ : Node A}
    (g₁ : Good base₁ nd₁) (g₂ : Good base₂ nd₂) (b : Blk) (p : Chain)
    (h₁ : (deliver cfg₁ nd₁ b p).2 = .okMain) (h₂ : (deliver cfg₂ nd₂ b p).2 = .okMain)
    (v₁ : (deliver cfg₁ nd₁ b p).1.tip ≠ nd₁.tip) (v₂ : (deliver cfg₂ nd₂ b p).1.tip ≠ nd₂.tip) :
    (deliver cfg₁ nd₁ b p).1.tip = (deliver cfg₂ nd₂ b p).1.tip ∧
    (deliver cfg₁ nd₁ b p).1.utxo = (deliver cfg₂ nd₂ b p).1.utxo ∧
    (deliver cfg₁ nd₁ b p).1.tip = b :: p := by
  have t1 := deliver_okMain_tip cfg₁ nd₁ b p h₁ v₁
  have t2 := deliver_okMain_tip cfg₂ nd₂ b p h₂ v₂
  have u1 := (deliver_spec hA cfg₁ hp₁ g₁ b p).1.utxo_eq
  have u2 := (deliver_spec hA cfg₂ hp₂ g₂ b p).1.utxo_eq
  exact ⟨t1.trans t2.symm, by rw [u1, u2, t1, t2], t1⟩

end BV.C04
