/- C12 helper lemmas: the utxo view (association list) under merge / spend / add. Core-only. -/
import BV.C12.Model
namespace BV.C12

theorem View.get_cons (k : OutPoint) (en : Entry) (v : View) (op : OutPoint) :
    View.get ((k, en) :: v) op = if k = op then some en else View.get v op := by
  simp [View.get]

theorem View.get_nil (op : OutPoint) : View.get [] op = none := by simp [View.get]

/-- unspent lookup -/
def View.live (v : View) (op : OutPoint) (en : Entry) : Prop := v.get op = some en ∧ en.spent = false

theorem View.avail_iff (v : View) (op : OutPoint) :
    v.avail op = true ↔ ∃ en, v.live op en := by
  unfold View.avail View.live
  cases h : v.get op with
  | none => simp
  | some en => simp

/-! ### spendIns -/

theorem spendIns_get_of_not_mem (ins : List Inp) : ∀ (v : View) (op : OutPoint),
    op ∉ ins.map (·.op) → (spendIns v ins).get op = v.get op := by
  induction ins with
  | nil => intro v op _; rfl
  | cons i rest ih =>
    intro v op hn
    simp only [List.map_cons, List.mem_cons, not_or] at hn
    unfold spendIns
    cases hg : v.get i.op with
    | none => simp only []; exact ih v op hn.2
    | some e0 =>
      simp only []
      rw [ih _ op hn.2, View.get_cons]
      have : ¬ i.op = op := fun h => hn.1 h.symm
      simp [this]

/-- an entry that is already spent stays dead through `spendIns` -/
theorem spendIns_dead (ins : List Inp) : ∀ (v : View) (op : OutPoint) (en : Entry),
    v.get op = some en → en.spent = true → (spendIns v ins).avail op = false := by
  induction ins with
  | nil =>
    intro v op en hg hs
    simp [spendIns, View.avail, hg, hs]
  | cons i rest ih =>
    intro v op en hg hs
    unfold spendIns
    cases hgi : v.get i.op with
    | none => simp only []; exact ih v op en hg hs
    | some e0 =>
      simp only []
      by_cases hio : i.op = op
      · apply ih _ op { e0 with spent := true }
        · rw [View.get_cons]; simp [hio]
        · rfl
      · apply ih _ op en
        · rw [View.get_cons]; simp [hio, hg]
        · exact hs

theorem spendIns_none (ins : List Inp) : ∀ (v : View) (op : OutPoint),
    v.get op = none → (spendIns v ins).avail op = false := by
  induction ins with
  | nil => intro v op hg; simp [spendIns, View.avail, hg]
  | cons i rest ih =>
    intro v op hg
    unfold spendIns
    cases hgi : v.get i.op with
    | none => simp only []; exact ih v op hg
    | some e0 =>
      simp only []
      by_cases hio : i.op = op
      · rw [hio] at hgi; rw [hg] at hgi; cases hgi
      · apply ih
        rw [View.get_cons]; simp [hio, hg]

theorem spendIns_dead_of_mem (ins : List Inp) : ∀ (v : View) (op : OutPoint),
    op ∈ ins.map (·.op) → (spendIns v ins).avail op = false := by
  induction ins with
  | nil => intro v op h; simp at h
  | cons i rest ih =>
    intro v op hm
    simp only [List.map_cons, List.mem_cons] at hm
    by_cases hio : i.op = op
    · unfold spendIns
      cases hgi : v.get i.op with
      | none =>
        simp only []
        apply spendIns_none
        rw [← hio]; exact hgi
      | some e0 =>
        simp only []
        apply spendIns_dead rest _ op { e0 with spent := true }
        · rw [View.get_cons]; simp [hio]
        · rfl
    · have hr : op ∈ rest.map (·.op) := by
        rcases hm with h | h
        · exact absurd h.symm hio
        · exact h
      unfold spendIns
      cases hgi : v.get i.op with
      | none => simp only []; exact ih v op hr
      | some e0 => simp only []; exact ih _ op hr

/-- what is live after `spendIns` was live before and is not one of the spent inputs -/
theorem spendIns_live (ins : List Inp) (v : View) (op : OutPoint) (en : Entry)
    (h : (spendIns v ins).live op en) : v.live op en ∧ op ∉ ins.map (·.op) := by
  have hnm : op ∉ ins.map (·.op) := by
    intro hm
    have := spendIns_dead_of_mem ins v op hm
    have h2 : (spendIns v ins).avail op = true := (View.avail_iff _ _).2 ⟨en, h⟩
    rw [this] at h2; cases h2
  refine ⟨?_, hnm⟩
  have := spendIns_get_of_not_mem ins v op hnm
  exact ⟨by rw [← this]; exact h.1, h.2⟩

/-! ### addOuts -/

theorem addOuts_get_other (outs : List Out) : ∀ (v : View) (j : Nat) (h : Int) (i0 : Nat) (op : OutPoint),
    (∀ i, op ≠ OutPoint.p j i) → (addOuts v j h i0 outs).get op = v.get op := by
  induction outs with
  | nil => intro v j h i0 op _; rfl
  | cons o rest ih =>
    intro v j h i0 op hne
    unfold addOuts
    by_cases hs : o.spendable = true
    · simp only [hs, if_true]
      rw [ih _ j h (i0 + 1) op hne, View.get_cons]
      have : ¬ OutPoint.p j i0 = op := fun hh => hne i0 hh.symm
      simp [this]
    · simp only [hs]
      exact ih v j h (i0 + 1) op hne

/-- an entry of `addOuts` for an output of `j` is either fresh (a spendable output) or was there before -/
theorem addOuts_get_p (outs : List Out) : ∀ (v : View) (j : Nat) (h : Int) (i0 i : Nat) (en : Entry),
    (addOuts v j h i0 outs).get (OutPoint.p j i) = some en →
      (∃ o, i0 ≤ i ∧ outs[i - i0]? = some o ∧ o.spendable = true ∧ en = ⟨o.value, h, false, false⟩)
      ∨ v.get (OutPoint.p j i) = some en := by
  induction outs with
  | nil => intro v j h i0 i en hg; right; exact hg
  | cons o rest ih =>
    intro v j h i0 i en hg
    unfold addOuts at hg
    by_cases hs : o.spendable = true
    · simp only [hs, if_true] at hg
      rcases ih _ j h (i0 + 1) i en hg with ⟨o', hle, ho', hsp, hen⟩ | hold
      · left
        refine ⟨o', by omega, ?_, hsp, hen⟩
        have : i - i0 = (i - (i0 + 1)) + 1 := by omega
        rw [this, List.getElem?_cons_succ]; exact ho'
      · rw [View.get_cons] at hold
        by_cases hi : i0 = i
        · subst hi
          simp at hold
          left
          exact ⟨o, Nat.le_refl _, by simp, hs, hold.symm⟩
        · have : ¬ OutPoint.p j i0 = OutPoint.p j i := by
            intro hh; injection hh with _ h2; exact hi h2
          simp [this] at hold
          right; exact hold
    · simp only [hs] at hg
      rcases ih _ j h (i0 + 1) i en hg with ⟨o', hle, ho', hsp, hen⟩ | hold
      · left
        refine ⟨o', by omega, ?_, hsp, hen⟩
        have : i - i0 = (i - (i0 + 1)) + 1 := by omega
        rw [this, List.getElem?_cons_succ]; exact ho'
      · right; exact hold

/-! ### mergeIns -/

/-- every live entry after merging was live before or is the chain entry of one of the inputs -/
theorem mergeIns_live (ins : List Inp) : ∀ (v : View) (op : OutPoint) (en : Entry),
    (mergeIns v ins).live op en →
      v.live op en ∨ ∃ i ∈ ins, ∃ c, i.op = op ∧ i.chain = some c ∧ en = ⟨c.value, c.height, c.coinbase, false⟩ := by
  induction ins with
  | nil => intro v op en h; left; exact h
  | cons i rest ih =>
    intro v op en h
    unfold mergeIns at h
    cases hc : i.chain with
    | none =>
      simp only [hc] at h
      rcases ih v op en h with h1 | ⟨i', hi', c, h2⟩
      · left; exact h1
      · right; exact ⟨i', List.mem_cons_of_mem _ hi', c, h2⟩
    | some c =>
      simp only [hc] at h
      by_cases ha : v.avail i.op = true
      · simp only [ha, if_true] at h
        rcases ih v op en h with h1 | ⟨i', hi', c', h2⟩
        · left; exact h1
        · right; exact ⟨i', List.mem_cons_of_mem _ hi', c', h2⟩
      · simp only [ha] at h
        rcases ih _ op en h with h1 | ⟨i', hi', c', h2⟩
        · unfold View.live at h1
          rw [View.get_cons] at h1
          by_cases hio : i.op = op
          · simp [hio] at h1
            right
            exact ⟨i, List.mem_cons_self, c, hio, hc, h1.1.symm⟩
          · simp [hio] at h1
            left; exact h1
        · right; exact ⟨i', List.mem_cons_of_mem _ hi', c', h2⟩

end BV.C12
