/- C12 helper lemmas: the selection loop and the first pass establish / preserve the invariant. -/
import BV.C12.Lemmas2
namespace BV.C12
open Spec

variable {Q : Type} {ops : QueueOps Q}

theorem selectCore_inv {e : Env} {pool : List Tx} (hp : PoolOk pool) (he : EnvOk e) (law : QueueLaw ops)
    {s : St Q} (h : Inv e pool law s) {it : Item} (hok : ItemOk e pool it) {t : Tx}
    (hit : pool[it.idx]? = some t) (hseg : ¬ (e.segwit = false ∧ t.hasWitness = true))
    {reserve bpw cost : Nat}
    (hres : reserve = if (e.segwit && !s.witnessIncluded && t.hasWitness) = true then WITNESS_RESERVE else 0)
    (hbpw : bpw = (s.blockWeight + reserve + t.weight % U32) % U32)
    (hcost : cost = if allAvail s.view t = true then t.sigCost else 0) :
    Inv e pool law (selectCore ops e s it t reserve bpw cost) := by
  unfold selectCore
  by_cases c2 : (decide (bpw < s.blockWeight) || decide (bpw ≥ e.maxWeight)) = true
  · simp only [c2, if_true]; exact h
  · simp only [c2]
    by_cases c3 : s.sigCost + cost > MAX_BLOCK_SIGOPS_COST
    · simp only [c3, if_true]; exact h
    · simp only [c3]
      by_cases c4 : (s.byFee && decide (it.feePerKB < e.minFreeFee) && decide (bpw ≥ e.minWeight)) = true
      · simp only [c4, if_true]; exact h
      · simp only [c4]
        simp only [Bool.or_eq_true, decide_eq_true_eq, not_or, Nat.not_le, ge_iff_le, Nat.not_lt] at c2
        have hs1 : ∀ (s1 : St Q), Inv e pool law s1 → s1.view = s.view → s1.blockWeight = s.blockWeight →
            s1.witnessIncluded = s.witnessIncluded → s1.sigCost = s.sigCost →
            Inv e pool law
              (if (!checkInputs s1.view e t) = true then s1
               else if (!t.scriptsOk) = true then s1
               else commitTx ops e s1 it t bpw cost reserve) := by
          intro s1 h1 hv hbw hwi hsc
          by_cases c6 : (!checkInputs s1.view e t) = true
          · simp only [c6, if_true]; exact h1
          · simp only [c6]
            by_cases c7 : (!t.scriptsOk) = true
            · simp only [c7, if_true]; exact h1
            · simp only [c7]
              apply commitTx_inv hp he law h1 hit hok hseg
              · rw [hwi]; exact hres
              · rw [hbw]; exact hbpw
              · rw [hbw]; omega
              · exact c2.2
              · rw [hv]; exact hcost
              · rw [hsc]; omega
              · simpa using c6
              · simpa using c7
        by_cases csw : (!s.byFee && (decide (bpw ≥ e.prioSize) || decide (it.prio ≤ e.minHighPrio))) = true
        · simp only [csw, if_true, Bool.true_and]
          by_cases c5 : (decide (bpw > e.prioSize) || decide (it.prio < e.minHighPrio)) = true
          · simp only [c5, if_true]
            exact Inv_push law (Inv_switch law h) true it hok
          · simp only [c5]
            exact hs1 _ (Inv_switch law h) rfl rfl rfl rfl
        · simp only [csw, Bool.false_and]
          exact hs1 _ h rfl rfl rfl rfl

theorem selectStep_inv {e : Env} {pool : List Tx} (hp : PoolOk pool) (he : EnvOk e) (law : QueueLaw ops)
    {s : St Q} (h : Inv e pool law s) {it : Item} (hok : ItemOk e pool it) :
    Inv e pool law (selectStep ops e pool s it) := by
  unfold selectStep
  cases hit : pool[it.idx]? with
  | none => exact h
  | some t =>
    simp only
    by_cases c1 : (!e.segwit && t.hasWitness) = true
    · simp only [c1, if_true]; exact h
    · simp only [c1]
      apply selectCore_inv hp he law h hok hit
      · intro hh
        apply c1
        simp [hh.1, hh.2]
      · rfl
      · rfl
      · rfl

theorem selectLoop_inv {e : Env} {pool : List Tx} (hp : PoolOk pool) (he : EnvOk e) (law : QueueLaw ops) :
    ∀ (fuel : Nat) (s : St Q), Inv e pool law s → Inv e pool law (selectLoop ops e pool fuel s) := by
  intro fuel
  induction fuel with
  | zero => intro s h; exact h
  | succ n ih =>
    intro s h
    unfold selectLoop
    cases hpop : ops.pop s.byFee s.queue with
    | none => exact h
    | some r =>
      obtain ⟨it, q⟩ := r
      simp only
      have hl := law.pop _ _ _ _ hpop
      apply ih
      apply selectStep_inv hp he law
      · exact Inv_queue law h q (fun x hx => h.qOk x (hl.2 x hx))
      · exact h.qOk it hl.1


/-! ## First pass -/

theorem scanDeps_false (n : Nat) : ∀ (ins : List Inp) (acc d : List Nat),
    scanDeps n ins acc = (false, d) →
      ∃ i ∈ ins, i.chain = none ∧ ∀ j k, i.op = OutPoint.p j k → ¬ j < n := by
  intro ins
  induction ins with
  | nil => intro acc d h; simp [scanDeps] at h
  | cons a rest ih =>
    intro acc d h
    unfold scanDeps at h
    cases hc : a.chain with
    | some c =>
      simp only [hc] at h
      rcases ih _ _ h with ⟨i, hi, r⟩
      exact ⟨i, List.mem_cons_of_mem _ hi, r⟩
    | none =>
      simp only [hc] at h
      cases hop : a.op with
      | p j k =>
        simp only [hop] at h
        by_cases hj : j < n
        · simp only [hj, if_true] at h
          rcases ih _ _ h with ⟨i, hi, r⟩
          exact ⟨i, List.mem_cons_of_mem _ hi, r⟩
        · refine ⟨a, List.mem_cons_self, hc, ?_⟩
          intro j' k' hh
          rw [hop] at hh
          injection hh with h1 _
          rw [← h1]; exact hj
      | u k =>
        refine ⟨a, List.mem_cons_self, hc, ?_⟩
        intro j' k' hh; rw [hop] at hh; cases hh
      | x k =>
        refine ⟨a, List.mem_cons_self, hc, ?_⟩
        intro j' k' hh; rw [hop] at hh; cases hh
      | null =>
        refine ⟨a, List.mem_cons_self, hc, ?_⟩
        intro j' k' hh; rw [hop] at hh; cases hh

structure PrepInv (e : Env) (pool : List Tx) (law : QueueLaw ops) (p : Prep Q) : Prop where
  viewSrc : ∀ op en, p.view.live op en → ∃ t ∈ pool, ∃ i ∈ t.ins, ∃ c, i.op = op ∧ i.chain = some c
    ∧ en = ⟨c.value, c.height, c.coinbase, false⟩
  qOk : ∀ x, law.mem p.queue x → ItemOk e pool x
  wOk : ∀ x ∈ p.waiting, ItemOk e pool x

theorem prepStep_inv {e : Env} {pool : List Tx} (law : QueueLaw ops) (byFee : Bool) {p : Prep Q}
    (h : PrepInv e pool law p) {idx : Nat} {t : Tx} (hit : pool[idx]? = some t) :
    PrepInv e pool law (prepStep ops e pool.length byFee p idx t) := by
  have ht : t ∈ pool := mem_of_getElem? hit
  unfold prepStep
  by_cases c1 : isCoinbase t = true
  · simp only [c1, if_true]; exact h
  · simp only [c1]
    by_cases c2 : (!isFinalized t e.nextHeight (templateClock e)) = true
    · simp only [c2, if_true]; exact h
    · simp only [c2]
      have hncb : isCoinbase t = false := by simpa using c1
      have hfin : isFinalized t e.nextHeight (templateClock e) = true := by simpa using c2
      cases hsd : scanDeps pool.length t.ins [] with
      | mk ok deps =>
        cases ok with
        | false =>
          simp only
          by_cases c3 : deps.isEmpty = true
          · simp only [c3, if_true]; exact h
          · simp only [c3]
            refine { h with wOk := ?_ }
            intro x hx
            rcases List.mem_append.1 hx with h1 | h1
            · exact h.wOk x h1
            · simp at h1
              rw [h1]
              exact ⟨t, hit, hncb, hfin, Or.inr (scanDeps_false _ _ _ _ hsd)⟩
        | true =>
          simp only
          have hitem : ItemOk e pool ⟨idx, t.fee, t.prio, t.feePerKB, deps⟩ :=
            ⟨t, hit, hncb, hfin, Or.inl rfl⟩
          have hview : ∀ op en, (mergeIns p.view t.ins).live op en → ∃ t ∈ pool, ∃ i ∈ t.ins, ∃ c,
              i.op = op ∧ i.chain = some c ∧ en = ⟨c.value, c.height, c.coinbase, false⟩ := by
            intro op en hl
            rcases mergeIns_live _ _ _ _ hl with h1 | ⟨i, hi, c, ho, hc, hen⟩
            · exact h.viewSrc op en h1
            · exact ⟨t, ht, i, hi, c, ho, hc, hen⟩
          by_cases c3 : deps.isEmpty = true
          · simp only [c3, if_true]
            refine { viewSrc := hview, qOk := ?_, wOk := h.wOk }
            intro x hx
            rcases law.push _ _ _ x hx with h1 | h1
            · exact h.qOk x h1
            · rw [h1]; exact hitem
          · simp only [c3]
            refine { viewSrc := hview, qOk := h.qOk, wOk := ?_ }
            intro x hx
            rcases List.mem_append.1 hx with h1 | h1
            · exact h.wOk x h1
            · simp at h1
              rw [h1]; exact hitem

theorem prepLoop_inv {e : Env} {pool : List Tx} (law : QueueLaw ops) (byFee : Bool) :
    ∀ (rest pre : List Tx) (idx : Nat) (p : Prep Q), pool = pre ++ rest → idx = pre.length →
      PrepInv e pool law p → PrepInv e pool law (prepLoop ops e pool.length byFee p idx rest) := by
  intro rest
  induction rest with
  | nil => intro pre idx p _ _ h; exact h
  | cons t rest ih =>
    intro pre idx p hpool hidx h
    unfold prepLoop
    apply ih (pre ++ [t]) (idx + 1)
    · rw [hpool]; simp
    · rw [hidx]; simp
    · apply prepStep_inv law byFee h
      rw [hpool, hidx]
      simp

theorem initSt_inv {e : Env} {pool : List Tx} (hp : PoolOk pool) (he : EnvOk e) (law : QueueLaw ops)
    {p : Prep Q} (h : PrepInv e pool law p) : Inv e pool law (initSt e p) := by
  have hU : e.headerOverhead * WITNESS_SCALE + e.cbWeight < U32 := Nat.lt_trans he.base he.maxU32
  refine
    { selValid := by intro j hj; cases hj
      selNodup := List.nodup_nil
      viewOk := ?_
      spentOk := by intro op hop; cases hop
      conn := ⟨[], rfl, fun _ => rfl, fun _ => Int.le_refl _⟩
      txsOk := by intro t ht; cases ht
      deps := rfl
      fees := rfl
      feeSum := rfl
      sigs := rfl
      sigSum := by show e.cbSigCost = e.cbSigCost + 0; omega
      sigLim := he.cbSig
      weight := ?_
      weightLim := ?_
      wiOnly := by intro hh; cases hh
      qOk := h.qOk
      wOk := h.wOk }
  · intro op en hl
    rcases h.viewSrc op en hl with ⟨t, ht, i, hi, c, ho, hc, hen⟩
    have hns : op ∉ spentOps pool (initSt e p).sel := by
      intro hh
      have : spentOps pool (initSt e p).sel = [] := rfl
      rw [this] at hh
      cases hh
    refine ⟨hns, Or.inl ?_⟩
    rcases isWorldOutput_iff (hp.chainOnlyU t ht i hi (by simp [hc])) with ⟨k, hk⟩
    refine ⟨c, k, by rw [← ho]; exact hk, ?_, hen⟩
    rw [← ho]; exact chainGet_of_mem hp ht hi hc
  · show initWeight e = _
    unfold initWeight
    rw [Nat.mod_eq_of_lt hU]
    have h1 : (initSt e p).witnessIncluded = false := rfl
    have h2 : (initSt e p).sel = [] := rfl
    rw [h1, h2]
    simp [txsOf]
  · show initWeight e < e.maxWeight
    unfold initWeight
    rw [Nat.mod_eq_of_lt hU]
    exact he.base

theorem runSelect_inv {e : Env} {pool : List Tx} (hp : PoolOk pool) (he : EnvOk e) (law : QueueLaw ops)
    (fuel : Nat) : Inv e pool law (runSelect ops e pool fuel) := by
  unfold runSelect
  apply selectLoop_inv hp he law
  apply initSt_inv hp he law
  apply prepLoop_inv law _ pool [] 0 _ rfl rfl
  exact { viewSrc := by intro op en hl; simp [View.live, View.get] at hl
          qOk := fun x hx => absurd hx (law.empty x)
          wOk := by intro x hx; cases hx }

end BV.C12
