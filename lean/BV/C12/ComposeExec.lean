/- C12 composition, executable side: a neutral `Shell` for a template (everything outside the
selection satisfied, oracle costs / weights packed into C01's fact fields) so that the driver can
evaluate C01's rule predicates on the block description of every template it renders. Core-only. -/
import BV.C12.Compose
namespace BV.C12
open Spec

def neutralShell (e : Env) (pool : List Tx) (tpl : Template) : Shell :=
  { P := { bip34H := 1, bip65H := 1, bip66H := 1
           csvH := if e.csv then 1 else 0, segH := if e.segwit then 1 else 0, tapH := 0
           bip94 := false, maturity := e.maturity, subsidyInterval := e.halving
           powLimit := 2 ^ 255, blocksPerRetarget := 2016, bip34HashOk := true }
    version := 0x20000000
    bits := 0x207fffff
    expectedBits := 0x207fffff
    target := 2 ^ 255 - 1
    hashNum := 0
    prevTime := e.mtp
    strippedSize := 0
    totalSize := (Spec.blockWeight e pool tpl : Int)
    merkleOk := true
    dupTxids := false
    cbHeight := e.nextHeight
    cb := { version := 1, lockTime := 0
            ins := [{ null := true, seq := 0xffffffff, avail := false, isCb := false, originHeight := 0,
                      originPrevMTP := 0, amount := 0, p2shSigops := 0, witSigops := 0, failsAlways := false,
                      failsUnder := 0 }]
            outs := [tpl.cbValue]
            strippedSize := 0, dupInputs := false, script0Len := 10
            legacySigops := (e.cbSigCost : Int) / 4
            hasWitness := tpl.commitment, overwrites := false }
    txStripped := fun _ => 0
    legacy := fun j => if e.segwit then 0 else match pool[j]? with
      | some t => (t.sigCost : Int) / 4
      | none => 0
    p2sh := fun _ _ => 0
    wit := fun j op => if e.segwit then match pool[j]? with
      | some t => (match t.ins with
        | i :: _ => if i.op = op then (t.sigCost : Int) else 0
        | [] => 0)
      | none => 0 else 0
    overwrites := fun _ => false }

/-- all of C01's rules on the template's block description -/
def c01Valid (e : Env) (pool : List Tx) (tpl : Template) : Bool :=
  BV.C01.Rule.all.all (fun r => BV.C01.ruleOk r (descOf e pool tpl (neutralShell e pool tpl)))

end BV.C12
