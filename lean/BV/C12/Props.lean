/- C12 property theorems.

All theorems quantify over every pool content, every environment (tip height, clocks, deployment
states, coinbase shape, policy), every amount of loop fuel and EVERY priority-queue implementation that
only hands back what was put in (`QueueLaw`; `heapLaw` shows container/heap is one) — the property
does not depend on the order in which transactions are considered.  They are about the model of the
FIXED generator (F-C12-a: lock times against the past median time once CSV is active; F-C12-b: the
witness-commitment weight is reserved only together with the transaction that needs it). -/
import BV.C12.Model
import BV.C12.Spec
import BV.C12.Gen
import BV.C12.Lemmas4
import BV.C12.Lemmas5
import BV.C12.Lemmas6
import BV.C12.Compose3
import BV.C12.Coinbase
import BV.Generated.C12
namespace BV.C12
open Spec

variable {Q : Type} {ops : QueueOps Q}

/-! ## Ordering -/

/-- Every selected transaction comes after every pool transaction it spends from. -/
theorem deps_before_dependents (law : QueueLaw ops) (e : Env) (pool : List Tx) (fuel : Nat)
    (hp : PoolOk pool) (he : EnvOk e) :
    depsBefore pool (candidate ops e pool fuel).sel [] = true :=
  (runSelect_inv hp he law fuel).deps

/-- … in particular a transaction one of whose pool parents was skipped is not selected: every pool
parent of a selected transaction is selected. -/
theorem dependency_selected (law : QueueLaw ops) (e : Env) (pool : List Tx) (fuel : Nat)
    (hp : PoolOk pool) (he : EnvOk e) (j : Nat) (hj : j ∈ (candidate ops e pool fuel).sel)
    (t : Tx) (ht : pool[j]? = some t) (i : Inp) (hi : i ∈ t.ins) (k k' : Nat)
    (hop : i.op = OutPoint.p k k') (hc : i.chain = none) :
    k ∈ (candidate ops e pool fuel).sel := by
  have := depsBefore_mem pool _ [] (deps_before_dependents law e pool fuel hp he) j hj t ht i hi k k' hop hc
  simpa using this

/-- No transaction is selected twice and the selection connects in block order: every input is an
unspent, mature chain output or an output of an earlier selected transaction, and no outpoint is spent
twice. -/
theorem selection_connects (law : QueueLaw ops) (e : Env) (pool : List Tx) (fuel : Nat)
    (hp : PoolOk pool) (he : EnvOk e) :
    (candidate ops e pool fuel).sel.Nodup ∧ ∃ realFees, connect e pool (candidate ops e pool fuel).sel = some realFees := by
  have h := runSelect_inv hp he law fuel (e := e)
  refine ⟨h.selNodup, ?_⟩
  rcases h.conn with ⟨rf, hfold, _⟩
  refine ⟨rf, ?_⟩
  show connect e pool (runSelect ops e pool fuel).sel = some rf
  unfold connect; rw [hfold]; rfl

/-! ## Limits -/

/-- The finished block (real header and transaction-count size, coinbase with the commitment when
present) weighs strictly less than the policy maximum, hence at most the consensus maximum when the
policy does not exceed it; its sigop cost is within the consensus limit. -/
theorem limits_respected (law : QueueLaw ops) (e : Env) (pool : List Tx) (fuel : Nat)
    (hp : PoolOk pool) (he : EnvOk e) :
    Spec.blockWeight e pool (candidate ops e pool fuel) < e.maxWeight
    ∧ (e.maxWeight ≤ MAX_BLOCK_WEIGHT → Spec.blockWeight e pool (candidate ops e pool fuel) ≤ MAX_BLOCK_WEIGHT)
    ∧ Spec.sigOpCost e pool (candidate ops e pool fuel) ≤ MAX_BLOCK_SIGOPS_COST := by
  have h := runSelect_inv hp he law fuel (e := e)
  have hw : Spec.blockWeight e pool (candidate ops e pool fuel) ≤ (runSelect ops e pool fuel).blockWeight :=
    spec_weight_le h he.overhead
  have hs : Spec.sigOpCost e pool (candidate ops e pool fuel) = (runSelect ops e pool fuel).sigCost :=
    spec_sigs_eq h
  have hl := h.weightLim
  refine ⟨by omega, fun hm => by omega, ?_⟩
  rw [hs]; exact h.sigLim

theorem policy_ok (law : QueueLaw ops) (e : Env) (pool : List Tx) (fuel : Nat)
    (hp : PoolOk pool) (he : EnvOk e) : policyOk e pool (candidate ops e pool fuel) = true := by
  have := limits_respected law e pool fuel hp he
  simp [policyOk, this.1, this.2.2]

/-! ## Accounting -/

/-- The coinbase pays the subsidy plus the sum of the selected transactions' (descriptor) fees,
`Fees[0]` is minus that sum, `Fees[i]` is the fee of the i-th transaction, `SigOpCosts` are the coinbase
cost followed by each transaction's recomputed cost; a commitment is present iff it is needed. -/
theorem coinbase_accounting (law : QueueLaw ops) (e : Env) (pool : List Tx) (fuel : Nat)
    (hp : PoolOk pool) (he : EnvOk e) :
    let tpl := candidate ops e pool fuel
    let fs := (txsOf pool tpl.sel).map (·.fee)
    tpl.cbValue = (subsidy e : Int) + fs.sum ∧ tpl.fees = (-fs.sum) :: fs
    ∧ sigsOk e pool tpl = true := by
  have h := runSelect_inv hp he law fuel (e := e)
  simp only
  refine ⟨?_, ?_, ?_⟩
  · show (subsidy e : Int) + (runSelect ops e pool fuel).totalFees = _
    rw [h.feeSum, h.fees]; rfl
  · show (-(runSelect ops e pool fuel).totalFees) :: (runSelect ops e pool fuel).fees = _
    rw [h.feeSum, h.fees]; rfl
  · show ((e.cbSigCost :: (runSelect ops e pool fuel).sigs) == _) = true
    rw [h.sigs]
    simp [txsOf, candidate, templateOf]

/-- The template carries a witness commitment exactly when a selected transaction has witness data. -/
theorem commitment_iff_witness (law : QueueLaw ops) (e : Env) (pool : List Tx) (fuel : Nat)
    (hp : PoolOk pool) (he : EnvOk e) :
    (candidate ops e pool fuel).commitment = true
      ↔ ∃ t ∈ txsOf pool (candidate ops e pool fuel).sel, t.hasWitness = true := by
  have h := runSelect_inv hp he law fuel (e := e)
  constructor
  · exact h.wiOnly
  · rintro ⟨t, ht, hw⟩
    exact ((h.txsOk t ht).2.2.2 hw).2

/-- With a source that reports real fees the reported fees and the coinbase value equal the
independently computed ones (inputs − outputs of every transaction in block context). -/
theorem coinbase_accounting_real (law : QueueLaw ops) (e : Env) (pool : List Tx) (fuel : Nat)
    (hp : PoolOk pool) (he : EnvOk e) (hh : honestFeesB e pool = true) :
    accountingOk e pool (candidate ops e pool fuel) = true := by
  have h := runSelect_inv hp he law fuel (e := e)
  rcases h.conn with ⟨rf, hfold, hhon, _⟩
  have hrf := hhon (honest_of_check hh)
  have hconn : connect e pool (candidate ops e pool fuel).sel = some rf := by
    show connect e pool (runSelect ops e pool fuel).sel = some rf
    unfold connect; rw [hfold]; rfl
  unfold accountingOk
  rw [hconn]
  have h1 : (candidate ops e pool fuel).fees = (-(runSelect ops e pool fuel).totalFees) :: (runSelect ops e pool fuel).fees := rfl
  have h2 : (candidate ops e pool fuel).cbValue = (subsidy e : Int) + (runSelect ops e pool fuel).totalFees := rfl
  rw [h1, h2, h.feeSum, hrf]
  simp

/-! ## Validity and success of generation -/

/-- The candidate template satisfies the block-level consensus rules of `Spec.blockValid`: no second
coinbase, no duplicates, every transaction final on the clock CONSENSUS uses, inputs connect in
order without double spends, coinbase value within subsidy + fees, scripts hold (oracle bit),
sigop-cost and weight limits, witness data only with segwit and then with a commitment, BIP68
sequence locks (which the generator does not look at: the hypothesis `hseq` is the pool's admission
check), amounts within range, header time after the median time and within two hours of the clock. -/
theorem template_valid (law : QueueLaw ops) (e : Env) (pool : List Tx) (fuel : Nat)
    (hp : PoolOk pool) (he : EnvOk e) (hno : feesNotOverstatedB e pool = true)
    (hseq : pool.all (seqLocksOk e) = true) (hmax : e.maxWeight ≤ MAX_BLOCK_WEIGHT) :
    blockValid e pool (candidate ops e pool fuel) = true :=
  blockValid_of_inv (runSelect_inv hp he law fuel) he (notOverstated_of_check hno)
    (List.all_eq_true.1 hseq) hmax

/-- Generation succeeds whenever every pooled transaction was admitted on the current chain (its
sequence locks hold for the next block, its fee is not overstated) and the policy is within
consensus: the generator's final self-check never refuses its own selection.  No hypothesis about
lock-time finality is needed (the clause F-C12-a violated): the generator selects on the clock
consensus uses.  `Spec.blockValid` covers every block-level rule that depends on the choice of
transactions, the header time and the coinbase value; what remains outside is script execution (an
oracle bit per transaction) and the fixed shape of the coinbase (BIP34 height, version bits), which
the correspondence run checks through `CheckConnectBlockTemplate` / `ProcessBlock`. -/
theorem generation_succeeds (law : QueueLaw ops) (e : Env) (pool : List Tx) (fuel : Nat)
    (hp : PoolOk pool) (he : EnvOk e) (hno : feesNotOverstatedB e pool = true)
    (hseq : pool.all (seqLocksOk e) = true) (hmax : e.maxWeight ≤ MAX_BLOCK_WEIGHT) :
    newBlockTemplate ops e pool fuel = Result.ok (candidate ops e pool fuel) := by
  unfold newBlockTemplate
  simp [template_valid law e pool fuel hp he hno hseq hmax]

/-- `UpdateBlockTime` / `UpdateExtraNonce`: a generated template stays valid when the clock has moved
forward (the header takes max(now', MTP+1)) and the coinbase script is replaced (coinbase weight
`cbw'`), as long as the block with the new coinbase is within the consensus weight. -/
theorem update_keeps_valid (law : QueueLaw ops) (e : Env) (pool : List Tx) (fuel : Nat)
    (hp : PoolOk pool) (he : EnvOk e) (hno : feesNotOverstatedB e pool = true)
    (hseq : pool.all (seqLocksOk e) = true)
    (hmax : e.maxWeight ≤ MAX_BLOCK_WEIGHT) (now' : Int) (cbw' : Nat) (hn : e.now ≤ now')
    (hw : Spec.blockWeight (e.updated now' cbw') pool (candidate ops e pool fuel) ≤ MAX_BLOCK_WEIGHT) :
    blockValid (e.updated now' cbw') pool (candidate ops e pool fuel) = true :=
  blockValid_updated e pool _ now' cbw' hn (template_valid law e pool fuel hp he hno hseq hmax) hw

/-- … in particular updating only the time never invalidates it. -/
theorem update_time_keeps_valid (law : QueueLaw ops) (e : Env) (pool : List Tx) (fuel : Nat)
    (hp : PoolOk pool) (he : EnvOk e) (hno : feesNotOverstatedB e pool = true)
    (hseq : pool.all (seqLocksOk e) = true)
    (hmax : e.maxWeight ≤ MAX_BLOCK_WEIGHT) (now' : Int) (hn : e.now ≤ now') :
    blockValid (e.updated now' e.cbWeight) pool (candidate ops e pool fuel) = true := by
  apply update_keeps_valid law e pool fuel hp he hno hseq hmax now' e.cbWeight hn
  have := (limits_respected law e pool fuel hp he).2.1 hmax
  exact this

/-- container/heap is a lawful queue, so all of the above holds for the algorithm the driver runs. -/
theorem template_valid_heap (e : Env) (pool : List Tx) (fuel : Nat)
    (hp : PoolOk pool) (he : EnvOk e) (hno : feesNotOverstatedB e pool = true)
    (hseq : pool.all (seqLocksOk e) = true) (hmax : e.maxWeight ≤ MAX_BLOCK_WEIGHT) :
    blockValid e pool (candidate heapOps e pool fuel) = true :=
  template_valid heapLaw e pool fuel hp he hno hseq hmax

/-- The fuel the driver uses is enough: the model's loop ends because the queue is empty, exactly like
Go's `for priorityQueue.Len() > 0` (each iteration retires an item for good, except the single re-push
at the priority→fee switch). -/
theorem fuel_sufficient (e : Env) (pool : List Tx) (fuel : Nat) (hf : defaultFuel pool ≤ fuel) :
    heapOps.pop (runSelect heapOps e pool fuel).byFee (runSelect heapOps e pool fuel).queue = none :=
  runSelect_done heapSize e pool fuel hf

/-- Templates are values: generating another template (from any other pool) leaves a template that
was handed out earlier exactly as it was — in particular still valid.  In the pure model this holds by
construction; the correspondence op `two` is what ties the implementation to it (an implementation
whose templates share mutable memory, e.g. a commitment script aliasing a package-level buffer,
breaks it). -/
theorem templates_are_values (e : Env) (poolA poolB : List Tx) (fuelA fuelB : Nat) :
    (generateTwice ops e poolA poolB fuelA fuelB).1 = newBlockTemplate ops e poolA fuelA
    ∧ (generateTwice ops e poolA poolB fuelA fuelB).2 = newBlockTemplate ops e poolB fuelB :=
  ⟨rfl, rfl⟩

/-- … so the earlier template of two is valid after the later one exists. -/
theorem earlier_template_stays_valid (law : QueueLaw ops) (e : Env) (poolA poolB : List Tx) (fuelA fuelB : Nat)
    (hp : PoolOk poolA) (he : EnvOk e) (hno : feesNotOverstatedB e poolA = true)
    (hseq : poolA.all (seqLocksOk e) = true) (hmax : e.maxWeight ≤ MAX_BLOCK_WEIGHT) :
    (generateTwice ops e poolA poolB fuelA fuelB).1 = Result.ok (candidate ops e poolA fuelA)
    ∧ blockValid e poolA (candidate ops e poolA fuelA) = true :=
  ⟨generation_succeeds law e poolA fuelA hp he hno hseq hmax, template_valid law e poolA fuelA hp he hno hseq hmax⟩

/-! ## Composition with the sibling properties -/

/-- **`Spec.blockValid` is C01's validity.**  Any template satisfying `Spec.blockValid` satisfies every
one of C01's 36 consensus rules (`C01.Valid`) on its block description `descOf` — the description is
DERIVED from the abstract template for everything the generator decides (transactions, order,
per-input availability / origin / amounts as `Spec.connect` sees them, lock times and sequences,
coinbase value, commitment presence, header time); the facts outside the selection are a `Shell`
with explicit hypotheses `ShellOk`: proof of work solved and bits as required (C09), header version,
merkle root / no duplicate txids / sizes / BIP34 height (C13), legacy-sigop pre-check, BIP30, the
split of each oracle sigop cost and of the block weight into C13's components, the coinbase's own
shape, deployment heights and parameters agreeing with the environment. -/
theorem blockValid_implies_c01 (e : Env) (pool : List Tx) (tpl : Template) (sh : Shell)
    (hp : PoolOk pool) (hshape : ShapeOk pool) (hs : ShellOk e pool tpl sh)
    (hv : blockValid e pool tpl = true) : BV.C01.Valid (descOf e pool tpl sh) :=
  blockValid_c01 hp hshape hs hv

/-- **End to end (C12 ∘ C01):** the template the generator produces satisfies C01's `Valid` — "the
template is a consensus-valid block given script-ok oracle bits and proof of work solved". -/
theorem template_valid_c01 (law : QueueLaw ops) (e : Env) (pool : List Tx) (fuel : Nat) (sh : Shell)
    (hp : PoolOk pool) (he : EnvOk e) (hno : feesNotOverstatedB e pool = true)
    (hseq : pool.all (seqLocksOk e) = true) (hmax : e.maxWeight ≤ MAX_BLOCK_WEIGHT)
    (hshape : ShapeOk pool) (hs : ShellOk e pool (candidate ops e pool fuel) sh) :
    BV.C01.Valid (descOf e pool (candidate ops e pool fuel) sh) :=
  blockValid_c01 hp hshape hs (template_valid law e pool fuel hp he hno hseq hmax)

/-- C09: the subsidy in the coinbase rule is `calcBlockSubsidy`; C01's `subsidy` is the same number. -/
theorem subsidy_is_c09 (e : Env) :
    subsidy e = BV.C09.calcBlockSubsidy e.nextHeight e.halving
    ∧ BV.C01.subsidy e.nextHeight e.halving = (subsidy e : Int) :=
  ⟨subsidy_eq_c09 e, c01_subsidy_eq e⟩

/-- C13: `Spec.blockWeight` is `GetBlockWeight` of coinbase + selected transactions when the weight
oracles are `GetTransactionWeight` of the real transactions. -/
theorem blockWeight_is_c13 (e : Env) (pool : List Tx) (tpl : Template) (cb : BV.C13.Tx) (txs : List BV.C13.Tx)
    (hcb : BV.C13.txWeight cb = e.cbWeight + (if tpl.commitment then WITNESS_RESERVE else 0))
    (htx : txs.map BV.C13.txWeight = (txsOf pool tpl.sel).map (·.weight))
    (hlen : txs.length = tpl.sel.length) :
    Spec.blockWeight e pool tpl = BV.C13.blockWeight (cb :: txs) :=
  spec_blockWeight_c13 e pool tpl cb txs hcb htx hlen

/-- C13: the model's lock-time finality is `IsFinalTx`. -/
theorem finality_is_c13 (t : Tx) (h c : Int)
    (hflag : t.allSeqMax = t.ins.all (fun i => decide (i.sequence = BV.C13.Spec.SEQUENCE_FINAL))) :
    isFinalized t h c = BV.C13.Spec.isFinal t.lockTime (t.ins.map (·.sequence)) h c :=
  isFinalized_eq_c13 t h c hflag

/-- C13: `Spec.seqLocksOk` is BIP68's `sequenceLocks` + `locksSatisfied`. -/
theorem bip68_is_c13 (e : Env) (t : Tx) (hcs : e.csv = true) (hv : ¬ t.version < 2)
    (hcb : isCoinbase t = false) :
    seqLocksOk e t = true ↔
      BV.C13.Spec.locksSatisfied (BV.C13.Spec.sequenceLocks true (t.ins.map (seqInputOf e))).1
        (BV.C13.Spec.sequenceLocks true (t.ins.map (seqInputOf e))).2 e.nextHeight e.mtp = true :=
  seqLocksOk_c13 e t hcs hv hcb

/-- C13 (script builder, `ExtractCoinbaseHeight`): the coinbase script the generator writes —
`AddInt64(height).AddInt64(int64(extraNonce)).AddData(flags)` — carries the BIP34 height consensus
reads back, and its length is within the consensus bounds 2..100, for every height below 2^31, EVERY
uint64 extra nonce (as int64, including the minimum, cf. F-C12-c) and any flags of at most 75 bytes: the
`bip34Height` and `cbScriptLen` rules hold for the generated coinbase at creation and after every
`UpdateExtraNonce`. -/
theorem coinbase_script_ok (height : Nat) (hh : height < 2 ^ 31) (nonce : Int) (hn : nonce.natAbs < 256 ^ 8)
    (flags : BV.C13.Spec.Bytes) (hf : flags.length ≤ 75) :
    BV.C13.extractCoinbaseHeight (coinbaseScript height nonce flags) = BV.C13.HeightResult.ok (height : Int)
    ∧ 2 ≤ (coinbaseScript height nonce flags).length
    ∧ (coinbaseScript height nonce flags).length ≤ 100 :=
  ⟨coinbaseScript_height height hh nonce flags, coinbaseScript_min_len height nonce flags,
   coinbaseScript_max_len height hh nonce hn flags hf⟩

/-- Inputs are values: however often the generator is called with the same inputs, every call returns
the same template (the correspondence op `reuse` checks this of the implementation, sequentially and
concurrently, and that the caller's objects are unchanged). -/
theorem repeated_generation_agrees (e : Env) (pool : List Tx) (fuel n : Nat) :
    (List.replicate n (newBlockTemplate ops e pool fuel)).all (fun r => r = newBlockTemplate ops e pool fuel) = true := by
  rw [List.all_eq_true]
  intro r hr
  simp [List.eq_of_mem_replicate hr]

/-! ## F-C12-a: why the clock matters -/

/-- A lock time between the past median time and the wall clock with a non-final sequence is final
on the wall clock and not final on the median time … -/
theorem finality_clocks_disagree :
    ∃ (t : Tx) (h mtp now : Int), mtp < now ∧ isFinalized t h now = true ∧ isFinalized t h mtp = false :=
  ⟨{ ins := [], outs := [], lockTime := 1600011400, allSeqMax := false, fee := 0, feePerKB := 0, prio := 0,
     weight := 0, sigCost := 0, hasWitness := false, scriptsOk := true }, 25, 1600011400, 1600015600,
   by decide, by decide, by decide⟩

/-- … so a template selected on the wall clock (the generator before the fix: the same algorithm
run with `csv := false`) is refused by consensus with CSV active, for as long as such a
transaction stays in the pool. -/
def f12aEnv : Env :=
  { nextHeight := 25, now := 1600015600, mtp := 1600011400, segwit := true, csv := true, cbWeight := 304,
    cbSigCost := 0, halving := 10, maturity := 3, minWeight := 0, maxWeight := 3996000, prioSize := 0,
    minFreeFee := 1000 }

def f12aPool : List Tx :=
  [{ ins := [{ op := OutPoint.u 34, chain := some { value := 65000000, height := 6, coinbase := false } }], outs := [⟨64984666, true⟩], lockTime := 1600015598,
     allSeqMax := false, fee := 15334, feePerKB := 251377, prio := 4723556754560909312, weight := 244,
     sigCost := 0, hasWitness := false, scriptsOk := true }]

theorem wallclock_selection_refused :
    blockValid f12aEnv f12aPool (candidate heapOps { f12aEnv with csv := false } f12aPool 6) = false := by
  decide

theorem mediantime_selection_accepted :
    newBlockTemplate heapOps f12aEnv f12aPool 6
      = Result.ok { sel := [], fees := [0], sigs := [0], cbValue := 1250000000, commitment := false } := by
  decide

/-! ## The hypotheses are satisfiable -/

def examplePool : List Tx :=
  [{ ins := [{ op := OutPoint.u 1, chain := some { value := 100000, height := 5, coinbase := false } }], outs := [⟨60000, true⟩, ⟨30000, true⟩], lockTime := 0,
     allSeqMax := true, fee := 10000, feePerKB := 40000, prio := 5, weight := 400, sigCost := 4,
     hasWitness := false, scriptsOk := true },
   { ins := [{ op := OutPoint.p 0 1, chain := none }], outs := [⟨29000, true⟩], lockTime := 0, allSeqMax := true, fee := 1000,
     feePerKB := 5000, prio := 0, weight := 300, sigCost := 1, hasWitness := true, scriptsOk := true }]

example : PoolOk examplePool :=
  ⟨by decide, by decide, by decide, by decide, by decide⟩

example : EnvOk f12aEnv := ⟨by decide, by decide, by decide, by decide, by decide⟩

example : honestFeesB f12aEnv examplePool = true ∧ feesNotOverstatedB f12aEnv examplePool = true
    ∧ examplePool.all (seqLocksOk f12aEnv) = true ∧ f12aEnv.maxWeight ≤ MAX_BLOCK_WEIGHT := by decide

/-- a version-2 transaction whose relative lock of 3 blocks on an output confirmed 2 blocks ago is not
yet met: the generator would select it, consensus refuses the block -/
example :
    seqLocksOk f12aEnv
      { ins := [{ op := OutPoint.u 7, chain := some { value := 5000, height := 23, coinbase := false }, sequence := 3 }],
        outs := [⟨4000, true⟩], lockTime := 0, allSeqMax := false, fee := 1000, feePerKB := 9000, prio := 1,
        weight := 244, sigCost := 0, hasWitness := false, scriptsOk := true, version := 2 } = false := by decide

example : (candidate heapOps f12aEnv examplePool 8).sel = [0, 1] := by decide

/-! ## Pinned constants (regenerated from the compiled tree on every run) -/

/-- wire format: 80-byte block header, 9-byte maximal varint (the least a generator must reserve) -/
theorem pin_headerOverhead_parts :
    Generated.C12.maxBlockHeaderPayload + Generated.C12.maxVarIntPayload = BLOCK_HEADER_OVERHEAD
    ∧ Generated.C12.maxVarIntPayload = MAX_VARINT_PAYLOAD := by decide
theorem pin_witnessScale : Generated.C12.witnessScaleFactor = WITNESS_SCALE := by decide
theorem pin_maxBlockWeight : Generated.C12.maxBlockWeight = MAX_BLOCK_WEIGHT := by decide
theorem pin_maxBlockSigOpsCost : Generated.C12.maxBlockSigOpsCost = MAX_BLOCK_SIGOPS_COST := by decide
theorem pin_witnessReserve :
    Generated.C12.coinbaseWitnessDataLen = COINBASE_WITNESS_DATA_LEN
    ∧ Generated.C12.coinbaseWitnessPkScriptLength = COINBASE_WITNESS_PKSCRIPT_LEN
    ∧ WITNESS_RESERVE = 224 := by decide
theorem pin_maxSatoshi : Generated.C12.maxSatoshi = MAX_SATOSHI := by decide
theorem pin_maxTimeOffset : Generated.C12.maxTimeOffsetSeconds = MAX_TIME_OFFSET := by decide
theorem pin_sequenceLock :
    Generated.C12.sequenceLockTimeDisabled = SEQ_DISABLED ∧ Generated.C12.sequenceLockTimeIsSeconds = SEQ_IS_SECONDS
    ∧ Generated.C12.sequenceLockTimeMask + 1 = SEQ_MASK
    ∧ (2 : Int) ^ Generated.C12.sequenceLockTimeGranularity.toNat = SEQ_GRANULARITY
    ∧ Generated.C12.maxTxInSequenceNum = MAX_SEQUENCE := by decide
theorem pin_lockTimeThreshold : Generated.C12.lockTimeThreshold = LOCKTIME_THRESHOLD := by decide
theorem pin_baseSubsidy : Generated.C12.baseSubsidy = BASE_SUBSIDY := by decide

end BV.C12
