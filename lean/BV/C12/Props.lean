/- C12 property theorems. -/
import BV.C12.Model
import BV.C12.Spec
import BV.C12.Gen
import BV.Generated.C12
namespace BV.C12

/-! ## Pinned constants (regenerated from the compiled tree on every run) -/

theorem pin_minHighPriority : Generated.C12.minHighPriorityBits = MIN_HIGH_PRIORITY_BITS := by decide
theorem pin_blockHeaderOverhead : Generated.C12.blockHeaderOverhead = BLOCK_HEADER_OVERHEAD := by decide
theorem pin_headerOverhead_parts :
    Generated.C12.maxBlockHeaderPayload + Generated.C12.maxVarIntPayload = BLOCK_HEADER_OVERHEAD
    ∧ Generated.C12.maxVarIntPayload = MAX_VARINT_PAYLOAD := by decide
theorem pin_witnessScale : Generated.C12.witnessScaleFactor = WITNESS_SCALE := by decide
theorem pin_maxBlockWeight : Generated.C12.maxBlockWeight = MAX_BLOCK_WEIGHT := by decide
theorem pin_maxBlockSigOpsCost : Generated.C12.maxBlockSigOpsCost = MAX_BLOCK_SIGOPS_COST := by decide
theorem pin_witnessReserve :
    Generated.C12.coinbaseWitnessDataLen = COINBASE_WITNESS_DATA_LEN
    ∧ Generated.C12.coinbaseWitnessPkScriptLength = COINBASE_WITNESS_PKSCRIPT_LEN
    ∧ WITNESS_RESERVE = 224 := by decide
theorem pin_lockTimeThreshold : Generated.C12.lockTimeThreshold = LOCKTIME_THRESHOLD := by decide
theorem pin_baseSubsidy : Generated.C12.baseSubsidy = BASE_SUBSIDY := by decide
theorem pin_unminedHeight : Generated.C12.unminedHeight = 2147483647 := by decide
theorem pin_coinbaseFlags : Generated.C12.coinbaseFlags = "/P2SH/btcd/" := by decide
theorem pin_regtestRelayNonStd : Generated.C12.regtestRelayNonStd = true := by decide

end BV.C12
