/- C12 helper lemmas: hypotheses, the loop invariant and its preservation. Core-only. -/
import BV.C12.Model
import BV.C12.Spec
import BV.C12.Gen
import BV.C12.LemmasView
namespace BV.C12
open Spec

/-! ## Hypotheses -/

/-- The only thing the theorems need from the priority queue: what comes out was put in.  (The
order in which it comes out is irrelevant for the property.) -/
structure QueueLaw {Q : Type} (ops : QueueOps Q) where
  mem : Q → Item → Prop
  empty : ∀ x, ¬ mem ops.empty x
  push : ∀ b q y x, mem (ops.push b q y) x → mem q x ∨ x = y
  pop : ∀ b q y q', ops.pop b q = some (y, q') → mem q y ∧ ∀ x, mem q' x → mem q x
  reinit : ∀ b q x, mem (ops.reinit b q) x → mem q x

def isWorldOutput : OutPoint → Bool
  | OutPoint.u _ => true
  | _ => false

theorem isWorldOutput_iff {op : OutPoint} (h : isWorldOutput op = true) : ∃ k, op = OutPoint.u k := by
  cases op with
  | u k => exact ⟨k, rfl⟩
  | p j i => simp [isWorldOutput] at h
  | x n => simp [isWorldOutput] at h
  | null => simp [isWorldOutput] at h

/-- Well-formedness of the abstract pool (what transaction sanity and the abstraction guarantee). -/
structure PoolOk (pool : List Tx) : Prop where
  /-- only world outputs are on the chain (pool transactions are not mined yet) -/
  chainOnlyU : ∀ t ∈ pool, ∀ i ∈ t.ins, i.chain.isSome = true → isWorldOutput i.op = true
  /-- all inputs referring to one outpoint carry the same chain information -/
  consistent : ∀ t ∈ pool, ∀ t' ∈ pool, ∀ i ∈ t.ins, ∀ i' ∈ t'.ins, i.op = i'.op → i.chain = i'.chain
  /-- `CheckTransactionSanity`: no duplicate inputs, at least one input -/
  insNodup : ∀ t ∈ pool, (t.ins.map (·.op)).Nodup
  insNonempty : ∀ t ∈ pool, t.ins ≠ []
  /-- no single transaction is heavier than a block -/
  weightBound : ∀ t ∈ pool, t.weight ≤ MAX_BLOCK_WEIGHT

/-- The policy leaves room for the empty block, and values fit their Go types. -/
structure EnvOk (e : Env) : Prop where
  base : e.headerOverhead * WITNESS_SCALE + e.cbWeight < e.maxWeight
  /-- the generator reserves at least the header and a maximal transaction-count varint -/
  overhead : BLOCK_HEADER_OVERHEAD ≤ e.headerOverhead
  maxU32 : e.maxWeight < U32
  cbSig : e.cbSigCost ≤ MAX_BLOCK_SIGOPS_COST
  /-- the node's clock is at most two hours behind the median time -/
  clock : e.mtp + 1 ≤ e.now + MAX_TIME_OFFSET

/-- Decidable form of "the source reports the real fee": the fee of every transaction whose inputs
all exist (on the chain or as outputs of pool transactions) is inputs − outputs. -/
def honestFeesB (e : Env) (pool : List Tx) : Bool :=
  pool.all (fun t => match inputsValue e pool (List.range pool.length) t.ins with
    | some total => decide (t.fee = (total : Int) - (sumOuts t : Int))
    | none => true)

/-- Decidable form of "the source does not overstate any fee". -/
def feesNotOverstatedB (e : Env) (pool : List Tx) : Bool :=
  pool.all (fun t => match inputsValue e pool (List.range pool.length) t.ins with
    | some total => decide (t.fee ≤ (total : Int) - (sumOuts t : Int))
    | none => true)

/-- The source reports the real fee of every transaction. -/
def HonestFees (e : Env) (pool : List Tx) : Prop :=
  ∀ t ∈ pool, ∀ earlier total, inputsValue e pool earlier t.ins = some total →
    t.fee = (total : Int) - (sumOuts t : Int)

/-- The source does not overstate any fee. -/
def FeesNotOverstated (e : Env) (pool : List Tx) : Prop :=
  ∀ t ∈ pool, ∀ earlier total, inputsValue e pool earlier t.ins = some total →
    t.fee ≤ (total : Int) - (sumOuts t : Int)

theorem inputValue_range (e : Env) (pool : List Tx) (earlier : List Nat) (op : OutPoint) (v : Nat)
    (h : inputValue e pool earlier op = some v) : inputValue e pool (List.range pool.length) op = some v := by
  cases op with
  | p j i =>
    simp only [inputValue] at h ⊢
    by_cases hc : earlier.contains j = true
    · simp only [hc, if_true] at h
      cases hp : pool[j]? with
      | none => simp [hp] at h
      | some pt =>
        have hj : j < pool.length := by
          rcases List.getElem?_eq_some_iff.1 hp with ⟨hl, _⟩; exact hl
        have : (List.range pool.length).contains j = true := by simpa using hj
        simp only [this, if_true]
        simpa [hp] using h
    · exfalso
      simp at h
      apply hc
      simpa using h.1
  | u k => simpa [inputValue] using h
  | x n => simpa [inputValue] using h
  | null => simpa [inputValue] using h

theorem inputsValue_range (e : Env) (pool : List Tx) (earlier : List Nat) : ∀ (ins : List Inp) (v : Nat),
    inputsValue e pool earlier ins = some v → inputsValue e pool (List.range pool.length) ins = some v := by
  intro ins
  induction ins with
  | nil => intro v h; simpa [inputsValue] using h
  | cons a rest ih =>
    intro v h
    simp only [inputsValue] at h ⊢
    cases h1 : inputValue e pool earlier a.op with
    | none => simp [h1] at h
    | some x =>
      cases h2 : inputsValue e pool earlier rest with
      | none => simp [h1, h2] at h
      | some y =>
        simp only [h1, h2] at h
        rw [inputValue_range e pool earlier a.op x h1, ih y h2]
        exact h

theorem honest_of_check {e : Env} {pool : List Tx} (h : honestFeesB e pool = true) : HonestFees e pool := by
  intro t ht earlier total hv
  unfold honestFeesB at h
  rw [List.all_eq_true] at h
  have := h t ht
  rw [inputsValue_range e pool earlier t.ins total hv] at this
  simpa using this

theorem notOverstated_of_check {e : Env} {pool : List Tx} (h : feesNotOverstatedB e pool = true) :
    FeesNotOverstated e pool := by
  intro t ht earlier total hv
  unfold feesNotOverstatedB at h
  rw [List.all_eq_true] at h
  have := h t ht
  rw [inputsValue_range e pool earlier t.ins total hv] at this
  simpa using this

/-! ## Small facts -/

theorem txsOf_append (pool : List Tx) (sel : List Nat) (j : Nat) (t : Tx) (h : pool[j]? = some t) :
    txsOf pool (sel ++ [j]) = txsOf pool sel ++ [t] := by
  simp [txsOf, List.filterMap_append, h]

theorem txsOf_nil (pool : List Tx) : txsOf pool [] = [] := rfl

theorem spentOps_append (pool : List Tx) (sel : List Nat) (j : Nat) (t : Tx) (h : pool[j]? = some t) :
    spentOps pool (sel ++ [j]) = spentOps pool sel ++ t.ins.map (·.op) := by
  simp [spentOps, txsOf_append pool sel j t h]

theorem mem_of_getElem? {pool : List Tx} {j : Nat} {t : Tx} (h : pool[j]? = some t) : t ∈ pool :=
  List.mem_of_getElem? h

theorem lt_of_getElem? {pool : List Tx} {j : Nat} {t : Tx} (h : pool[j]? = some t) : j < pool.length := by
  rcases List.getElem?_eq_some_iff.1 h with ⟨hl, _⟩; exact hl

theorem mem_txsOf {pool : List Tx} {sel : List Nat} {t : Tx} (h : t ∈ txsOf pool sel) :
    ∃ j ∈ sel, pool[j]? = some t := by
  simp only [txsOf, List.mem_filterMap] at h
  exact h

theorem depsBefore_append (pool : List Tx) : ∀ (l acc : List Nat) (j : Nat),
    depsBefore pool (l ++ [j]) acc = (depsBefore pool l acc && depCheck pool j (acc ++ l)) := by
  intro l
  induction l with
  | nil => intro acc j; simp [depsBefore]
  | cons a rest ih =>
    intro acc j
    simp only [List.cons_append, depsBefore]
    rw [ih (acc ++ [a]) j, Bool.and_assoc]
    simp

theorem foldlM_snoc {α β : Type} (f : β → α → Option β) (l : List α) (a : α) (b : β) :
    (l ++ [a]).foldlM f b = (l.foldlM f b).bind (fun b' => f b' a) := by
  rw [List.foldlM_append]
  cases h : l.foldlM f b with
  | none => rfl
  | some b' =>
    show (List.foldlM f b' [a]) = f b' a
    simp [List.foldlM]

/-! ### chainGet -/

theorem chainGet_some_exists {pool : List Tx} {op : OutPoint} {c : ChainUtxo}
    (h : chainGet pool op = some c) : ∃ t ∈ pool, ∃ i ∈ t.ins, i.op = op ∧ i.chain = some c := by
  unfold chainGet at h
  rcases List.exists_of_findSome?_eq_some h with ⟨i, hi, hf⟩
  rcases List.mem_flatMap.1 hi with ⟨t, ht, hit⟩
  by_cases ho : i.op = op
  · simp [ho] at hf
    exact ⟨t, ht, i, hit, ho, hf⟩
  · simp [ho] at hf

theorem chainGet_of_mem {pool : List Tx} (hp : PoolOk pool) {t : Tx} (ht : t ∈ pool) {i : Inp}
    (hi : i ∈ t.ins) {c : ChainUtxo} (hc : i.chain = some c) : chainGet pool i.op = some c := by
  cases hg : chainGet pool i.op with
  | none =>
    unfold chainGet at hg
    have := (List.findSome?_eq_none_iff.1 hg) i (List.mem_flatMap.2 ⟨t, ht, hi⟩)
    simp [hc] at this
  | some c' =>
    rcases chainGet_some_exists hg with ⟨t', ht', i', hi', ho, hc'⟩
    have := hp.consistent t ht t' ht' i hi i' hi' ho.symm
    rw [hc, hc'] at this
    rw [this]

/-! ## Items, views -/

/-- A transaction with an input that is neither on the chain nor an output of a pool transaction. -/
def Blocked (pool : List Tx) (t : Tx) : Prop :=
  ∃ i ∈ t.ins, i.chain = none ∧ ∀ j k, i.op = OutPoint.p j k → ¬ j < pool.length

def ItemOk (e : Env) (pool : List Tx) (it : Item) : Prop :=
  ∃ t, pool[it.idx]? = some t ∧ isCoinbase t = false
    ∧ isFinalized t e.nextHeight (templateClock e) = true
    ∧ (it.fee = t.fee ∨ Blocked pool t)

theorem ItemOk_deps {e : Env} {pool : List Tx} {it : Item} (d : List Nat) (h : ItemOk e pool it) :
    ItemOk e pool { it with dependsOn := d } := h

/-- Every live entry of the view is an unspent chain output or an output of a selected transaction,
carries the right data, and is not consumed by a selected transaction. -/
def ViewOk (e : Env) (pool : List Tx) (sel : List Nat) (v : View) : Prop :=
  ∀ op en, v.live op en →
    op ∉ spentOps pool sel ∧
    ((∃ c k, op = OutPoint.u k ∧ chainGet pool op = some c ∧ en = ⟨c.value, c.height, c.coinbase, false⟩)
     ∨ (∃ j i t o, op = OutPoint.p j i ∧ j ∈ sel ∧ pool[j]? = some t ∧ t.outs[i]? = some o
          ∧ o.spendable = true ∧ en = ⟨o.value, e.nextHeight, false, false⟩))

def SpentOk (pool : List Tx) (sel : List Nat) : Prop :=
  ∀ op ∈ spentOps pool sel, (∃ k, op = OutPoint.u k) ∨ (∃ j i, op = OutPoint.p j i ∧ j ∈ sel)

/-! ### checkInputs against a good view -/

theorem checkInputsAux_live (v : View) (h m : Int) : ∀ (ins : List Inp) (acc tot : Nat),
    checkInputsAux v h m ins acc = some tot → ∀ i ∈ ins, ∃ en, v.live i.op en := by
  intro ins
  induction ins with
  | nil => intro acc tot _ i hi; simp at hi
  | cons a rest ih =>
    intro acc tot hc i hi
    unfold checkInputsAux at hc
    cases hg : v.get a.op with
    | none => simp [hg] at hc
    | some en =>
      simp only [hg] at hc
      by_cases hs : en.spent = true
      · simp [hs] at hc
      · simp only [hs] at hc
        by_cases hmat : (en.coinbase && decide (h - en.height < m)) = true
        · simp [hmat] at hc
        · simp only [hmat] at hc
          by_cases hr1 : en.value > MAX_SATOSHI
          · simp [hr1] at hc
          · simp only [hr1, if_false] at hc
            by_cases hr2 : acc + en.value > MAX_SATOSHI
            · simp [hr2] at hc
            · simp only [hr2, if_false] at hc
              rcases List.mem_cons.1 hi with h1 | h1
              · subst h1
                exact ⟨en, hg, by simpa using hs⟩
              · exact ih _ _ hc i h1

theorem inputValue_of_live {e : Env} {pool : List Tx} {sel : List Nat} {v : View}
    (hv : ViewOk e pool sel v) {op : OutPoint} {en : Entry} (hl : v.live op en)
    (hm : ¬ (en.coinbase = true ∧ e.nextHeight - en.height < e.maturity)) :
    inputValue e pool sel op = some en.value := by
  rcases (hv op en hl).2 with ⟨c, k, hop, hcg, hen⟩ | ⟨j, i, t, o, hop, hj, hpt, hto, hsp, hen⟩
  · subst hop
    simp only [inputValue, hcg]
    subst hen
    simp only at hm
    by_cases hcb : c.coinbase = true
    · have : ¬ e.nextHeight - c.height < e.maturity := fun h => hm ⟨hcb, h⟩
      simp [hcb, this]
    · simp [hcb]
  · subst hop
    have hc : sel.contains j = true := by simpa using hj
    simp only [inputValue, hc, if_true, hpt, hto, hsp]
    subst hen
    rfl

theorem checkInputsAux_inputsValue {e : Env} {pool : List Tx} {sel : List Nat} {v : View}
    (hv : ViewOk e pool sel v) : ∀ (ins : List Inp) (acc tot : Nat),
    checkInputsAux v e.nextHeight e.maturity ins acc = some tot →
      ∃ x, inputsValue e pool sel ins = some x ∧ tot = acc + x := by
  intro ins
  induction ins with
  | nil =>
    intro acc tot hc
    simp [checkInputsAux] at hc
    exact ⟨0, rfl, by omega⟩
  | cons a rest ih =>
    intro acc tot hc
    unfold checkInputsAux at hc
    cases hg : v.get a.op with
    | none => simp [hg] at hc
    | some en =>
      simp only [hg] at hc
      by_cases hs : en.spent = true
      · simp [hs] at hc
      · simp only [hs] at hc
        by_cases hmat : (en.coinbase && decide (e.nextHeight - en.height < e.maturity)) = true
        · simp [hmat] at hc
        · simp only [hmat] at hc
          have hc2 : checkInputsAux v e.nextHeight e.maturity rest (acc + en.value) = some tot := by
            by_cases hr1 : en.value > MAX_SATOSHI
            · simp [hr1] at hc
            · by_cases hr2 : acc + en.value > MAX_SATOSHI
              · simp [hr1, hr2] at hc
              · simpa [hr1, hr2] using hc
          rcases ih _ _ hc2 with ⟨x, hx, htot⟩
          have hl : v.live a.op en := ⟨hg, by simpa using hs⟩
          have hm : ¬ (en.coinbase = true ∧ e.nextHeight - en.height < e.maturity) := by
            intro hh
            apply hmat
            simp [hh.1, hh.2]
          have hiv := inputValue_of_live hv hl hm
          refine ⟨en.value + x, ?_, by omega⟩
          simp [inputsValue, hiv, hx]

theorem checkInputsAux_le_max (v : View) (h m : Int) : ∀ (ins : List Inp) (acc tot : Nat),
    checkInputsAux v h m ins acc = some tot → acc ≤ MAX_SATOSHI → tot ≤ MAX_SATOSHI := by
  intro ins
  induction ins with
  | nil => intro acc tot hc ha; simp [checkInputsAux] at hc; omega
  | cons a rest ih =>
    intro acc tot hc ha
    unfold checkInputsAux at hc
    cases hg : v.get a.op with
    | none => simp [hg] at hc
    | some en =>
      simp only [hg] at hc
      by_cases hs : en.spent = true
      · simp [hs] at hc
      · simp only [hs] at hc
        by_cases hmat : (en.coinbase && decide (h - en.height < m)) = true
        · simp [hmat] at hc
        · simp only [hmat] at hc
          by_cases hr1 : en.value > MAX_SATOSHI
          · simp [hr1] at hc
          · simp only [hr1, if_false] at hc
            by_cases hr2 : acc + en.value > MAX_SATOSHI
            · simp [hr2] at hc
            · simp only [hr2, if_false] at hc
              exact ih _ _ hc (by omega)

/-- a blocked transaction never passes `CheckTransactionInputs` -/
theorem blocked_not_live {e : Env} {pool : List Tx} (hp : PoolOk pool) {sel : List Nat} {v : View}
    (hv : ViewOk e pool sel v) (hsel : ∀ j ∈ sel, j < pool.length) {t : Tx} (ht : t ∈ pool)
    (hb : Blocked pool t) : ¬ (∀ i ∈ t.ins, ∃ en, v.live i.op en) := by
  intro hall
  rcases hb with ⟨i, hi, hnone, hnp⟩
  rcases hall i hi with ⟨en, hl⟩
  rcases (hv i.op en hl).2 with ⟨c, k, _, hcg, _⟩ | ⟨j, k, t', o, hop, hj, _⟩
  · rcases chainGet_some_exists hcg with ⟨t', ht', i', hi', ho, hc'⟩
    have := hp.consistent t ht t' ht' i hi i' hi' ho.symm
    rw [hnone, hc'] at this
    cases this
  · exact hnp j k hop (hsel j hj)

end BV.C12
