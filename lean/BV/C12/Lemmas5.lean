/- C12 helper lemmas: updating the time / extra nonce of a template. Core-only. -/
import BV.C12.Lemmas4
namespace BV.C12
open Spec

/-- `UpdateBlockTime` (clock moved to `now'`) and `UpdateExtraNonce` (coinbase weight becomes `cbw'`). -/
def Env.updated (e : Env) (now' : Int) (cbw' : Nat) : Env := { e with now := now', cbWeight := cbw' }

theorem inputValue_updated (e : Env) (n : Int) (w : Nat) (pool : List Tx) (earlier : List Nat) (op : OutPoint) :
    inputValue (e.updated n w) pool earlier op = inputValue e pool earlier op := by
  cases op <;> rfl

theorem inputsValue_updated (e : Env) (n : Int) (w : Nat) (pool : List Tx) (earlier : List Nat) :
    ∀ ins, inputsValue (e.updated n w) pool earlier ins = inputsValue e pool earlier ins := by
  intro ins
  induction ins with
  | nil => rfl
  | cons a rest ih => simp only [inputsValue, inputValue_updated, ih]

theorem connectStep_updated (e : Env) (n : Int) (w : Nat) (pool : List Tx) :
    connectStep (e.updated n w) pool = connectStep e pool := by
  funext st j
  unfold connectStep
  simp only [inputsValue_updated]

theorem connect_updated (e : Env) (n : Int) (w : Nat) (pool : List Tx) (sel : List Nat) :
    connect (e.updated n w) pool sel = connect e pool sel := by
  unfold connect
  rw [connectStep_updated]

theorem headerTime_mono (e : Env) (n : Int) (w : Nat) (h : e.now ≤ n) :
    consensusClock e ≤ consensusClock (e.updated n w) := by
  unfold consensusClock headerTime Env.updated
  simp only
  cases hc : e.csv with
  | true => simp
  | false =>
    simp only [Bool.false_eq_true, if_false]
    by_cases h1 : e.now < e.mtp + 1
    · by_cases h2 : n < e.mtp + 1
      · simp [h1, h2]
      · simp only [h1, h2, if_true, if_false]; omega
    · by_cases h2 : n < e.mtp + 1
      · omega
      · simp only [h1, h2, if_false]; exact h

/-- A valid template stays valid when its time is moved forward and its extra nonce changed, as long
as the block with the new coinbase is still within the consensus weight. -/
theorem blockValid_updated (e : Env) (pool : List Tx) (tpl : Template) (n : Int) (w : Nat)
    (hn : e.now ≤ n) (hv : blockValid e pool tpl = true)
    (hw : Spec.blockWeight (e.updated n w) pool tpl ≤ MAX_BLOCK_WEIGHT) :
    blockValid (e.updated n w) pool tpl = true := by
  unfold blockValid at hv ⊢
  rw [connect_updated]
  simp only [Bool.and_eq_true, List.all_eq_true, decide_eq_true_eq] at hv ⊢
  obtain ⟨⟨⟨⟨⟨⟨⟨⟨⟨⟨⟨⟨h1, h2⟩, h3⟩, h4⟩, h5⟩, h6⟩, h7⟩, _⟩, h9⟩, h10⟩, h11⟩, h12⟩, h13⟩ := hv
  refine ⟨⟨⟨⟨⟨⟨⟨⟨⟨⟨⟨⟨h1, h2⟩, h3⟩, ?_⟩, h5⟩, h6⟩, h7⟩, hw⟩, h9⟩, h10⟩, h11⟩, ?_⟩, ?_⟩
  · intro t ht
    exact isFinalized_mono t _ _ _ (headerTime_mono e n w hn) (h4 t ht)
  · show e.mtp < headerTime (e.updated n w)
    unfold headerTime Env.updated; simp only; split <;> omega
  · show headerTime (e.updated n w) ≤ n + MAX_TIME_OFFSET
    have h13' : headerTime e ≤ e.now + MAX_TIME_OFFSET := h13
    unfold headerTime at h13'
    unfold headerTime Env.updated; simp only
    unfold MAX_TIME_OFFSET at *
    split <;> split at h13' <;> omega

end BV.C12
