/- C12 helper lemmas: the loop invariant and its preservation by one selection. Core-only. -/
import BV.C12.Lemmas
namespace BV.C12
open Spec

structure Inv {Q : Type} (e : Env) (pool : List Tx) {ops : QueueOps Q} (law : QueueLaw ops)
    (s : St Q) : Prop where
  selValid : ∀ j ∈ s.sel, j < pool.length
  selNodup : s.sel.Nodup
  viewOk : ViewOk e pool s.sel s.view
  spentOk : SpentOk pool s.sel
  conn : ∃ rf, s.sel.foldlM (connectStep e pool) ([], []) = some (s.sel, rf)
    ∧ (HonestFees e pool → rf = s.fees) ∧ (FeesNotOverstated e pool → s.fees.sum ≤ rf.sum)
  txsOk : ∀ t ∈ txsOf pool s.sel, isCoinbase t = false
    ∧ isFinalized t e.nextHeight (templateClock e) = true ∧ t.scriptsOk = true
    ∧ (t.hasWitness = true → e.segwit = true ∧ s.witnessIncluded = true)
  deps : depsBefore pool s.sel [] = true
  fees : s.fees = (txsOf pool s.sel).map (·.fee)
  feeSum : s.totalFees = s.fees.sum
  sigs : s.sigs = (txsOf pool s.sel).map (·.sigCost)
  sigSum : s.sigCost = e.cbSigCost + s.sigs.sum
  sigLim : s.sigCost ≤ MAX_BLOCK_SIGOPS_COST
  weight : s.blockWeight = e.headerOverhead * WITNESS_SCALE + e.cbWeight
    + (if s.witnessIncluded then WITNESS_RESERVE else 0) + ((txsOf pool s.sel).map (·.weight)).sum
  weightLim : s.blockWeight < e.maxWeight
  wiOnly : s.witnessIncluded = true → ∃ t ∈ txsOf pool s.sel, t.hasWitness = true
  qOk : ∀ x, law.mem s.queue x → ItemOk e pool x
  wOk : ∀ x ∈ s.waiting, ItemOk e pool x

variable {Q : Type} {ops : QueueOps Q}

theorem Inv_queue {e : Env} {pool : List Tx} (law : QueueLaw ops) {s : St Q} (h : Inv e pool law s)
    (q : Q) (hq : ∀ x, law.mem q x → ItemOk e pool x) : Inv e pool law { s with queue := q } :=
  { h with qOk := hq }

theorem Inv_switch {e : Env} {pool : List Tx} (law : QueueLaw ops) {s : St Q} (h : Inv e pool law s) :
    Inv e pool law (switchSt ops s) :=
  { h with qOk := fun x hx => h.qOk x (law.reinit _ _ x hx) }

theorem Inv_push {e : Env} {pool : List Tx} (law : QueueLaw ops) {s : St Q} (h : Inv e pool law s)
    (b : Bool) (it : Item) (hit : ItemOk e pool it) :
    Inv e pool law { s with queue := ops.push b s.queue it } := by
  have hq : ∀ x, law.mem (ops.push b s.queue it) x → ItemOk e pool x := by
    intro x hx
    rcases law.push _ _ _ x hx with h1 | h1
    · exact h.qOk x h1
    · rw [h1]; exact hit
  exact { h with qOk := hq }

theorem release_ok (law : QueueLaw ops) (P : Item → Prop)
    (hP : ∀ it d, P it → P { it with dependsOn := d }) (byFee : Bool) (j : Nat) :
    ∀ (w : List Item) (q : Q), (∀ x ∈ w, P x) → (∀ x, law.mem q x → P x) →
      (∀ x ∈ (release ops byFee j w q).1, P x) ∧ (∀ x, law.mem (release ops byFee j w q).2 x → P x) := by
  intro w
  induction w with
  | nil => intro q _ hq; exact ⟨by intro x hx; simp [release] at hx, by simpa [release] using hq⟩
  | cons it rest ih =>
    intro q hw hq
    have hit : P it := hw it List.mem_cons_self
    have hrest : ∀ x ∈ rest, P x := fun x hx => hw x (List.mem_cons_of_mem _ hx)
    unfold release
    by_cases hc : it.dependsOn.contains j = true
    · simp only [hc, if_true]
      by_cases he : (it.dependsOn.filter (· ≠ j)).isEmpty = true
      · simp only [he, if_true]
        apply ih _ hrest
        intro x hx
        rcases law.push _ _ _ x hx with h1 | h1
        · exact hq x h1
        · rw [h1]; exact hP it _ hit
      · simp only [he]
        have := ih q hrest hq
        refine ⟨?_, this.2⟩
        intro x hx
        rcases List.mem_cons.1 hx with h1 | h1
        · rw [h1]; exact hP it _ hit
        · exact this.1 x h1
    · simp only [hc]
      have := ih q hrest hq
      refine ⟨?_, this.2⟩
      intro x hx
      rcases List.mem_cons.1 hx with h1 | h1
      · rw [h1]; exact hit
      · exact this.1 x h1

theorem ops_mem_spentOps {pool : List Tx} {sel : List Nat} {j : Nat} {t : Tx} (hj : j ∈ sel)
    (ht : pool[j]? = some t) {op : OutPoint} (hop : op ∈ t.ins.map (·.op)) : op ∈ spentOps pool sel := by
  unfold spentOps
  apply List.mem_flatMap.2
  refine ⟨t, ?_, hop⟩
  simp only [txsOf, List.mem_filterMap]
  exact ⟨j, hj, ht⟩

theorem no_wrap {bw reserve w maxW bpw : Nat} (hbw : bw < maxW) (hmax : maxW < U32)
    (hres : reserve ≤ WITNESS_RESERVE) (hw : w ≤ MAX_BLOCK_WEIGHT)
    (hbpw : bpw = (bw + reserve + w % U32) % U32) (h1 : ¬ bpw < bw) : bpw = bw + reserve + w := by
  have hR : WITNESS_RESERVE = 224 := by decide
  unfold U32 at *
  unfold MAX_BLOCK_WEIGHT at hw
  rw [hR] at hres
  omega


theorem witness_reserve_ne : (WITNESS_RESERVE != 0) = true := by decide

/-- Selecting a transaction that passed all of the loop's checks preserves the invariant. -/
theorem commitTx_inv {e : Env} {pool : List Tx} (hp : PoolOk pool) (he : EnvOk e) (law : QueueLaw ops)
    {s : St Q} (h : Inv e pool law s) {it : Item} {t : Tx}
    (hit : pool[it.idx]? = some t) (hok : ItemOk e pool it)
    (hseg : ¬ (e.segwit = false ∧ t.hasWitness = true))
    {reserve bpw cost : Nat}
    (hres : reserve = if (e.segwit && !s.witnessIncluded && t.hasWitness) = true then WITNESS_RESERVE else 0)
    (hbpw : bpw = (s.blockWeight + reserve + t.weight % U32) % U32)
    (hw1 : ¬ bpw < s.blockWeight) (hw2 : bpw < e.maxWeight)
    (hcost : cost = if allAvail s.view t = true then t.sigCost else 0)
    (hsig : s.sigCost + cost ≤ MAX_BLOCK_SIGOPS_COST)
    (hci : checkInputs s.view e t = true) (hso : t.scriptsOk = true) :
    Inv e pool law (commitTx ops e s it t bpw cost reserve) := by
  have ht : t ∈ pool := mem_of_getElem? hit
  rcases hok with ⟨t', ht', hncb, hfin, hfee⟩
  rw [hit] at ht'
  cases ht'
  -- what CheckTransactionInputs established
  cases hca : checkInputsAux s.view e.nextHeight e.maturity t.ins 0 with
  | none => simp [checkInputs, hncb, hca] at hci
  | some total =>
  have hci2 : sumOuts t ≤ total := by simpa [checkInputs, hncb, hca] using hci
  have hlive : ∀ i ∈ t.ins, ∃ en, s.view.live i.op en := checkInputsAux_live _ _ _ _ _ _ hca
  rcases checkInputsAux_inputsValue h.viewOk _ _ _ hca with ⟨x, hx, htot⟩
  have htx : x = total := by omega
  subst htx
  have hfee' : it.fee = t.fee := by
    rcases hfee with h1 | h1
    · exact h1
    · exact absurd hlive (blocked_not_live hp h.viewOk h.selValid ht h1)
  have hnotin : it.idx ∉ s.sel := by
    intro hin
    cases hins : t.ins with
    | nil => exact hp.insNonempty t ht hins
    | cons i0 rest =>
      have hi0 : i0 ∈ t.ins := by rw [hins]; exact List.mem_cons_self
      rcases hlive i0 hi0 with ⟨en, hl⟩
      exact (h.viewOk _ _ hl).1 (ops_mem_spentOps hin hit (List.mem_map.2 ⟨i0, hi0, rfl⟩))
  have havail : allAvail s.view t = true := by
    unfold allAvail
    rw [List.all_eq_true]
    intro i hi
    exact (View.avail_iff _ _).2 (hlive i hi)
  have hcost' : cost = t.sigCost := by rw [hcost]; simp [havail]
  have hresle : reserve ≤ WITNESS_RESERVE := by rw [hres]; split <;> omega
  have hbpw' : bpw = s.blockWeight + reserve + t.weight :=
    no_wrap h.weightLim he.maxU32 hresle (hp.weightBound t ht) hbpw hw1
  have htxs := txsOf_append pool s.sel it.idx t hit
  have hspent := spentOps_append pool s.sel it.idx t hit
  -- the queue after releasing the dependants
  have hrel := release_ok law (ItemOk e pool) (fun it d hh => ItemOk_deps d hh) s.byFee it.idx
    s.waiting s.queue h.wOk h.qOk
  refine
    { selValid := ?_, selNodup := ?_, viewOk := ?_, spentOk := ?_, conn := ?_, txsOk := ?_, deps := ?_,
      fees := ?_, feeSum := ?_, sigs := ?_, sigSum := ?_, sigLim := ?_, weight := ?_, weightLim := ?_,
      wiOnly := ?_, qOk := hrel.2, wOk := hrel.1 }
  · -- selValid
    intro j hj
    rcases List.mem_append.1 hj with h1 | h1
    · exact h.selValid j h1
    · simp at h1; rw [h1]; exact lt_of_getElem? hit
  · -- selNodup
    show (s.sel ++ [it.idx]).Nodup
    rw [List.nodup_append]
    refine ⟨h.selNodup, by simp, ?_⟩
    intro a ha b hb
    simp at hb
    intro hab
    rw [hab, hb] at ha
    exact hnotin ha
  · -- viewOk
    intro op en hl
    show op ∉ spentOps pool (s.sel ++ [it.idx]) ∧ _
    rw [hspent]
    have hlv : (addOuts (spendIns s.view t.ins) it.idx e.nextHeight 0 t.outs).live op en := hl
    -- is `op` one of the fresh outputs?
    by_cases hfresh : ∃ i o, op = OutPoint.p it.idx i ∧ t.outs[i]? = some o ∧ o.spendable = true
        ∧ en = ⟨o.value, e.nextHeight, false, false⟩
    · rcases hfresh with ⟨i, o, hop, hto, hsp, hen⟩
      refine ⟨?_, Or.inr ⟨it.idx, i, t, o, hop, (List.mem_append_right _ List.mem_cons_self : it.idx ∈ s.sel ++ [it.idx]), hit, hto, hsp, hen⟩⟩
      intro hmem
      rcases List.mem_append.1 hmem with h1 | h1
      · rcases h.spentOk op h1 with ⟨k, hk⟩ | ⟨j, i', hj, hjs⟩
        · rw [hop] at hk; cases hk
        · rw [hop] at hj; injection hj with hj1 _; rw [← hj1] at hjs; exact hnotin hjs
      · rcases List.mem_map.1 h1 with ⟨i', hi', hio⟩
        rcases hlive i' hi' with ⟨en', hl'⟩
        rcases (h.viewOk _ _ hl').2 with ⟨c, k, hk, _⟩ | ⟨j, i'', t'', o'', hj, hjs, _⟩
        · rw [hio, hop] at hk; cases hk
        · rw [hio, hop] at hj; injection hj with hj1 _; rw [← hj1] at hjs; exact hnotin hjs
    · -- then it was live in the old view and is not one of the spent inputs
      have hold : (spendIns s.view t.ins).live op en := by
        refine ⟨?_, hlv.2⟩
        by_cases hform : ∃ i, op = OutPoint.p it.idx i
        · rcases hform with ⟨i, hop⟩
          have hg := hlv.1
          rw [hop] at hg
          rcases addOuts_get_p t.outs _ _ _ 0 i en hg with ⟨o, _, ho, hsp, hen⟩ | hg'
          · exfalso
            apply hfresh
            exact ⟨i, o, hop, by simpa using ho, hsp, hen⟩
          · rw [hop]; exact hg'
        · have hne : ∀ i, op ≠ OutPoint.p it.idx i := fun i hh => hform ⟨i, hh⟩
          rw [← addOuts_get_other t.outs _ it.idx e.nextHeight 0 op hne]
          exact hlv.1
      rcases spendIns_live _ _ _ _ hold with ⟨hl0, hnm⟩
      have := h.viewOk op en hl0
      refine ⟨?_, ?_⟩
      · intro hmem
        rcases List.mem_append.1 hmem with h1 | h1
        · exact this.1 h1
        · exact hnm h1
      · rcases this.2 with h1 | ⟨j, i, t'', o, hop, hj, rest⟩
        · exact Or.inl h1
        · exact Or.inr ⟨j, i, t'', o, hop, List.mem_append_left _ hj, rest⟩
  · -- spentOk
    intro op hop
    show (∃ k, op = OutPoint.u k) ∨ ∃ j i, op = OutPoint.p j i ∧ j ∈ s.sel ++ [it.idx]
    have hop' : op ∈ spentOps pool s.sel ++ t.ins.map (·.op) := by rw [← hspent]; exact hop
    rcases List.mem_append.1 hop' with h1 | h1
    · rcases h.spentOk op h1 with hk | ⟨j, i, hj, hjs⟩
      · exact Or.inl hk
      · exact Or.inr ⟨j, i, hj, List.mem_append_left _ hjs⟩
    · rcases List.mem_map.1 h1 with ⟨i', hi', hio⟩
      rcases hlive i' hi' with ⟨en', hl'⟩
      rcases (h.viewOk _ _ hl').2 with ⟨c, k, hk, _⟩ | ⟨j, i'', t'', o'', hj, hjs, _⟩
      · exact Or.inl ⟨k, by rw [← hio]; exact hk⟩
      · exact Or.inr ⟨j, i'', by rw [← hio]; exact hj, List.mem_append_left _ hjs⟩
  · -- conn
    rcases h.conn with ⟨rf, hfold, hhon, hnot⟩
    refine ⟨rf ++ [(x : Int) - (sumOuts t : Int)], ?_, ?_, ?_⟩
    · show (s.sel ++ [it.idx]).foldlM (connectStep e pool) ([], []) = _
      rw [foldlM_snoc, hfold]
      show connectStep e pool (s.sel, rf) it.idx = _
      unfold connectStep
      simp only [hit]
      have hnd : decide ((t.ins.map (·.op)).Nodup) = true := by simpa using hp.insNodup t ht
      have hnlt : ¬ x < sumOuts t := by omega
      have hmaxs : ¬ x > MAX_SATOSHI := by
        have := checkInputsAux_le_max _ _ _ _ _ _ hca (Nat.zero_le _)
        omega
      simp [hnd, hx, hnlt, hmaxs]
      refine ⟨?_, rfl⟩
      intro i hi
      rcases hlive i hi with ⟨en', hl'⟩
      exact (h.viewOk _ _ hl').1
    · intro hh
      show rf ++ [(x : Int) - (sumOuts t : Int)] = s.fees ++ [it.fee]
      rw [hhon hh, hfee', hh t ht s.sel x hx]
    · intro hh
      show (s.fees ++ [it.fee]).sum ≤ (rf ++ [(x : Int) - (sumOuts t : Int)]).sum
      have h1 := hnot hh
      have h2 := hh t ht s.sel x hx
      simp only [List.sum_append, List.sum_cons, List.sum_nil]
      rw [hfee']
      omega
  · -- txsOk
    intro t1 ht1
    have ht1' : t1 ∈ txsOf pool s.sel ++ [t] := by rw [← htxs]; exact ht1
    show _ ∧ _ ∧ _ ∧ (t1.hasWitness = true → e.segwit = true ∧ (s.witnessIncluded || (reserve != 0)) = true)
    rcases List.mem_append.1 ht1' with h1 | h1
    · rcases h.txsOk t1 h1 with ⟨a, b, c, d⟩
      refine ⟨a, b, c, ?_⟩
      intro hw
      rcases d hw with ⟨d1, d2⟩
      exact ⟨d1, by simp [d2]⟩
    · simp at h1
      subst h1
      refine ⟨hncb, hfin, hso, ?_⟩
      intro hw
      have hsg : e.segwit = true := by
        cases hs : e.segwit with
        | true => rfl
        | false => exact absurd ⟨hs, hw⟩ hseg
      refine ⟨hsg, ?_⟩
      cases hwi : s.witnessIncluded with
      | true => simp
      | false =>
        rw [hres]
        simp [hsg, hwi, hw, witness_reserve_ne]
  · -- deps
    show depsBefore pool (s.sel ++ [it.idx]) [] = true
    rw [depsBefore_append, h.deps]
    simp only [Bool.true_and, List.nil_append]
    unfold depCheck
    simp only [hit]
    rw [List.all_eq_true]
    intro i hi
    rcases hlive i hi with ⟨en, hl⟩
    cases hop : i.op with
    | u k => rfl
    | x n => rfl
    | null => rfl
    | p k k' =>
      simp only
      by_cases hcn : i.chain.isNone = true
      · simp only [hcn, if_true]
        rcases (h.viewOk _ _ hl).2 with ⟨c, k2, hk, _⟩ | ⟨j, i'', t'', o'', hj, hjs, _⟩
        · rw [hop] at hk; cases hk
        · rw [hop] at hj; injection hj with hj1 _
          rw [hj1]; simpa using hjs
      · simp [hcn]
  · -- fees
    show s.fees ++ [it.fee] = (txsOf pool (s.sel ++ [it.idx])).map (·.fee)
    rw [htxs, List.map_append, h.fees, hfee']; rfl
  · -- feeSum
    show s.totalFees + it.fee = (s.fees ++ [it.fee]).sum
    rw [h.feeSum]; simp [List.sum_append]
  · -- sigs
    show s.sigs ++ [cost] = (txsOf pool (s.sel ++ [it.idx])).map (·.sigCost)
    rw [htxs, List.map_append, h.sigs, hcost']; rfl
  · -- sigSum
    show s.sigCost + cost = e.cbSigCost + (s.sigs ++ [cost]).sum
    rw [h.sigSum]; simp [List.sum_append]; omega
  · -- sigLim
    exact hsig
  · -- weight
    show bpw = e.headerOverhead * WITNESS_SCALE + e.cbWeight
      + (if (s.witnessIncluded || (reserve != 0)) = true then WITNESS_RESERVE else 0)
      + ((txsOf pool (s.sel ++ [it.idx])).map (·.weight)).sum
    rw [htxs, hbpw', h.weight]
    simp only [List.map_append, List.sum_append, List.map_cons, List.map_nil, List.sum_cons, List.sum_nil]
    cases hwi : s.witnessIncluded with
    | true =>
      have : reserve = 0 := by rw [hres]; simp [hwi]
      simp [this]
      omega
    | false =>
      by_cases hc : (e.segwit && t.hasWitness) = true
      · have : reserve = WITNESS_RESERVE := by
          rw [hres]; simp only [hwi]; simp at hc; simp [hc.1, hc.2]
        rw [this]
        simp [witness_reserve_ne]
        omega
      · have : reserve = 0 := by
          rw [hres]; simp only [hwi]
          simp at hc
          by_cases hsg : e.segwit = true
          · simp [hsg, hc hsg]
          · simp [hsg]
        simp [this]
        omega
  · -- weightLim
    exact hw2
  · -- wiOnly
    intro hwi'
    have hwi2 : (s.witnessIncluded || (reserve != 0)) = true := hwi'
    show ∃ t1 ∈ txsOf pool (s.sel ++ [it.idx]), t1.hasWitness = true
    rw [htxs]
    cases hwi : s.witnessIncluded with
    | true =>
      rcases h.wiOnly hwi with ⟨t1, ht1, hw1'⟩
      exact ⟨t1, List.mem_append_left _ ht1, hw1'⟩
    | false =>
      refine ⟨t, by simp, ?_⟩
      rw [hwi] at hwi2
      simp only [Bool.false_or, bne_iff_ne, ne_eq] at hwi2
      cases hhw : t.hasWitness with
      | true => rfl
      | false =>
        exfalso
        apply hwi2
        rw [hres]
        simp [hhw]

end BV.C12
