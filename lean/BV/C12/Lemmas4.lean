/- C12 helper lemmas: container/heap only permutes, and the consequences of the invariant for the
finished template. Core-only. -/
import BV.C12.Lemmas3
namespace BV.C12
open Spec

/-! ## container/heap never invents or loses an element we did not ask for -/

theorem mem_swap {q : List Item} {i j : Nat} {x : Item} (h : x ∈ swap q i j) : x ∈ q := by
  unfold swap at h
  cases hi : q[i]? with
  | none => simp [hi] at h; exact h
  | some a =>
    cases hj : q[j]? with
    | none => simp [hi, hj] at h; exact h
    | some b =>
      simp only [hi, hj] at h
      rcases List.mem_or_eq_of_mem_set h with h1 | h1
      · rcases List.mem_or_eq_of_mem_set h1 with h2 | h2
        · exact h2
        · rw [h2]; exact List.mem_of_getElem? hj
      · rw [h1]; exact List.mem_of_getElem? hi

theorem mem_heapUp (byFee : Bool) : ∀ (fuel : Nat) (q : List Item) (j : Nat) (x : Item),
    x ∈ heapUp byFee fuel q j → x ∈ q := by
  intro fuel
  induction fuel with
  | zero => intro q j x h; exact h
  | succ n ih =>
    intro q j x h
    unfold heapUp at h
    simp only at h
    split at h
    · exact h
    · exact mem_swap (ih _ _ _ h)

theorem mem_heapDown (byFee : Bool) : ∀ (fuel : Nat) (q : List Item) (i n : Nat) (x : Item),
    x ∈ heapDown byFee fuel q i n → x ∈ q := by
  intro fuel
  induction fuel with
  | zero => intro q i n x h; exact h
  | succ k ih =>
    intro q i n x h
    unfold heapDown at h
    by_cases c1 : 2 * i + 1 ≥ n
    · simp only [c1, if_true] at h; exact h
    · simp only [c1, if_false] at h
      by_cases c2 : (!lessAt byFee q (pickChild byFee q (2 * i + 1) n) i) = true
      · simp only [c2, if_true] at h; exact h
      · simp only [c2] at h
        exact mem_swap (ih _ _ _ _ h)

theorem mem_foldl_heapDown (byFee : Bool) (f n : Nat) : ∀ (l : List Nat) (q : List Item) (x : Item),
    x ∈ l.foldl (fun q i => heapDown byFee f q i n) q → x ∈ q := by
  intro l
  induction l with
  | nil => intro q x h; exact h
  | cons a rest ih =>
    intro q x h
    simp only [List.foldl_cons] at h
    exact mem_heapDown byFee _ _ _ _ _ (ih _ _ h)

theorem mem_heapInit (byFee : Bool) (q : List Item) (x : Item) (h : x ∈ heapInit byFee q) : x ∈ q := by
  unfold heapInit at h
  exact mem_foldl_heapDown byFee _ _ _ _ _ h

theorem mem_heapPush (byFee : Bool) (q : List Item) (y x : Item) (h : x ∈ heapPush byFee q y) :
    x ∈ q ∨ x = y := by
  unfold heapPush at h
  have := mem_heapUp byFee _ _ _ _ h
  rcases List.mem_append.1 this with h1 | h1
  · exact Or.inl h1
  · simp at h1; exact Or.inr h1

theorem mem_heapPop (byFee : Bool) (q : List Item) (y : Item) (q' : List Item)
    (h : heapPop byFee q = some (y, q')) : y ∈ q ∧ ∀ x, x ∈ q' → x ∈ q := by
  unfold heapPop at h
  by_cases h0 : q.length = 0
  · simp [h0] at h
  · simp only [h0, if_false] at h
    cases hl : (heapDown byFee (q.length - 1 + 1) (swap q 0 (q.length - 1)) 0 (q.length - 1)).getLast? with
    | none => simp [hl] at h
    | some z =>
      simp only [hl] at h
      injection h with h
      injection h with h1 h2
      have hsub : ∀ x, x ∈ heapDown byFee (q.length - 1 + 1) (swap q 0 (q.length - 1)) 0 (q.length - 1) → x ∈ q :=
        fun x hx => mem_swap (mem_heapDown byFee _ _ _ _ _ hx)
      constructor
      · rw [← h1]
        exact hsub z (List.mem_of_getLast? hl)
      · intro x hx
        rw [← h2] at hx
        exact hsub x (List.dropLast_subset _ hx)

/-- container/heap satisfies the queue law. -/
def heapLaw : QueueLaw heapOps where
  mem := fun q x => x ∈ q
  empty := by intro x h; cases h
  push := fun b q y x h => mem_heapPush b q y x h
  pop := fun b q y q' h => mem_heapPop b q y q' h
  reinit := fun b q x h => mem_heapInit b q x h

/-! ## Consequences of the invariant -/

theorem isFinalized_mono (t : Tx) (h a b : Int) (hab : a ≤ b) (hf : isFinalized t h a = true) :
    isFinalized t h b = true := by
  unfold isFinalized at *
  by_cases h0 : t.lockTime = 0
  · simp [h0]
  · simp only [h0, if_false] at *
    by_cases hth : t.lockTime < LOCKTIME_THRESHOLD
    · simp only [hth, if_true] at *
      exact hf
    · simp only [hth, if_false] at *
      by_cases hlt : (t.lockTime : Int) < a
      · have : (t.lockTime : Int) < b := by omega
        simp [this]
      · simp only [hlt, if_false] at hf
        by_cases hlb : (t.lockTime : Int) < b
        · simp [hlb]
        · simp [hlb, hf]

theorem templateClock_le_consensusClock (e : Env) : templateClock e ≤ consensusClock e := by
  unfold templateClock consensusClock headerTime
  by_cases hc : e.csv = true
  · simp [hc]
  · simp only [hc, if_false]
    split <;> omega

theorem varIntSize_le (n : Nat) : varIntSize n ≤ MAX_VARINT_PAYLOAD := by
  unfold varIntSize MAX_VARINT_PAYLOAD
  split
  · omega
  · split
    · omega
    · split <;> omega

variable {Q : Type} {ops : QueueOps Q}

theorem spec_weight_le {e : Env} {pool : List Tx} {law : QueueLaw ops} {s : St Q} (h : Inv e pool law s)
    (ho : BLOCK_HEADER_OVERHEAD ≤ e.headerOverhead) :
    Spec.blockWeight e pool (templateOf e s) ≤ s.blockWeight := by
  rw [h.weight]
  unfold Spec.blockWeight templateOf
  simp only
  have := varIntSize_le (s.sel.length + 1)
  unfold MAX_VARINT_PAYLOAD at this
  unfold BLOCK_HEADER_OVERHEAD at ho
  unfold WITNESS_SCALE
  omega

theorem spec_sigs_eq {e : Env} {pool : List Tx} {law : QueueLaw ops} {s : St Q} (h : Inv e pool law s) :
    Spec.sigOpCost e pool (templateOf e s) = s.sigCost := by
  rw [h.sigSum, h.sigs]
  rfl

theorem blockValid_of_inv {e : Env} {pool : List Tx} {law : QueueLaw ops} {s : St Q}
    (h : Inv e pool law s) (he : EnvOk e) (hno : FeesNotOverstated e pool)
    (hseq : ∀ t ∈ pool, seqLocksOk e t = true) (hmax : e.maxWeight ≤ MAX_BLOCK_WEIGHT) :
    Spec.blockValid e pool (templateOf e s) = true := by
  rcases h.conn with ⟨rf, hfold, _, hnot⟩
  have hconn : connect e pool s.sel = some rf := by
    unfold connect; rw [hfold]; rfl
  have hw := spec_weight_le h he.overhead
  have hs := spec_sigs_eq h
  unfold Spec.blockValid
  have hsel : (templateOf e s).sel = s.sel := rfl
  have hcb : (templateOf e s).cbValue = (subsidy e : Int) + s.totalFees := rfl
  have hcm : (templateOf e s).commitment = s.witnessIncluded := rfl
  rw [hsel, hconn, hs]
  simp only [Bool.and_eq_true, List.all_eq_true, decide_eq_true_eq, Bool.or_eq_true, Bool.not_eq_true']
  refine ⟨⟨⟨⟨⟨⟨⟨⟨⟨⟨⟨⟨?_, h.selNodup⟩, ?_⟩, ?_⟩, ?_⟩, ?_⟩, h.sigLim⟩, ?_⟩, ?_⟩, ?_⟩, ?_⟩, ?_⟩, ?_⟩
  · exact h.selValid
  · intro t ht; exact (h.txsOk t ht).1
  · intro t ht
    exact isFinalized_mono t _ _ _ (templateClock_le_consensusClock e) (h.txsOk t ht).2.1
  · rw [hcb, h.feeSum]
    have := hnot hno
    omega
  · intro t ht; exact (h.txsOk t ht).2.2.1
  · have := h.weightLim; omega
  · by_cases hsg : e.segwit = true
    · exact Or.inl hsg
    · right
      intro t ht
      cases hw' : t.hasWitness with
      | false => rfl
      | true => exact absurd ((h.txsOk t ht).2.2.2 hw').1 hsg
  · rw [hcm]
    by_cases hwi : s.witnessIncluded = true
    · exact Or.inl hwi
    · right
      intro t ht
      cases hw' : t.hasWitness with
      | false => rfl
      | true => exact absurd ((h.txsOk t ht).2.2.2 hw').2 hwi
  · intro t ht
    rcases mem_txsOf ht with ⟨j, _, hj⟩
    exact hseq t (mem_of_getElem? hj)
  · unfold headerTime; split <;> omega
  · have := he.clock
    unfold MAX_TIME_OFFSET at *
    unfold headerTime; split <;> omega

theorem depsBefore_mem (pool : List Tx) : ∀ (l acc : List Nat), depsBefore pool l acc = true →
    ∀ j ∈ l, ∀ t, pool[j]? = some t → ∀ i ∈ t.ins, ∀ k k', i.op = OutPoint.p k k' → i.chain = none →
      k ∈ acc ++ l := by
  intro l
  induction l with
  | nil => intro acc _ j hj; cases hj
  | cons a rest ih =>
    intro acc h j hj t ht i hi k k' hop hc
    simp only [depsBefore, Bool.and_eq_true] at h
    rcases List.mem_cons.1 hj with h1 | h1
    · subst h1
      have hd := h.1
      unfold depCheck at hd
      simp only [ht, List.all_eq_true] at hd
      have := hd i hi
      simp only [hop, hc, Option.isNone_none, if_true] at this
      have hk : k ∈ acc := by simpa using this
      exact List.mem_append_left _ hk
    · have h3 : k ∈ acc ++ [a] ++ rest := ih (acc ++ [a]) h.2 j h1 t ht i hi k k' hop hc
      simpa using h3

end BV.C12
