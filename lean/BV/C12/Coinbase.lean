/- C12 composition with C13's script-builder model: the signature script of the coinbase the generator
builds (`standardCoinbaseScript`: height, extra nonce, flags) and what consensus reads back from it. -/
import BV.C13.LemmasHeight
namespace BV.C12
open BV.C13

/-- `standardCoinbaseScript(nextBlockHeight, extraNonce)`: `AddInt64(height).AddInt64(int64(extraNonce))
.AddData(flags)`; `nonce` is the extra nonce after the uint64 → int64 conversion, `flags` the
implementation's coinbase flags (any byte string of at most 75 bytes). -/
def coinbaseScript (height : Nat) (nonce : Int) (flags : Spec.Bytes) : Spec.Bytes :=
  addInt64 (height : Int) ++ addInt64 nonce ++ addDataSmall flags

/-- BIP34: consensus (`ExtractCoinbaseHeight`, C13) reads the block height back from the generated
coinbase script, for every height, every extra nonce and every flags string — at the template's
creation and after any `UpdateExtraNonce`. -/
theorem coinbaseScript_height (height : Nat) (hh : height < 2 ^ 31) (nonce : Int) (flags : Spec.Bytes) :
    extractCoinbaseHeight (coinbaseScript height nonce flags) = HeightResult.ok (height : Int) := by
  unfold coinbaseScript
  rw [List.append_assoc]
  exact Lemmas.coinbaseHeight_roundtrip height hh _

theorem addInt64_ne_nil (v : Int) : addInt64 v ≠ [] := by
  unfold addInt64
  split
  · simp
  · split
    · simp
    · unfold addDataSmall
      split
      · simp
      · split
        · simp
        · split <;> simp

/-- the script is never shorter than the consensus minimum of 2 bytes -/
theorem coinbaseScript_min_len (height : Nat) (nonce : Int) (flags : Spec.Bytes) :
    2 ≤ (coinbaseScript height nonce flags).length := by
  unfold coinbaseScript
  have h1 := addInt64_ne_nil (height : Int)
  have h2 := addInt64_ne_nil nonce
  simp only [List.length_append]
  have l1 : 1 ≤ (addInt64 (height : Int)).length := by
    cases h : addInt64 (height : Int) with
    | nil => exact absurd h h1
    | cons a r => simp
  have l2 : 1 ≤ (addInt64 nonce).length := by
    cases h : addInt64 nonce with
    | nil => exact absurd h h2
    | cons a r => simp
  omega

theorem scriptNumMag_len : ∀ (k n : Nat), n < 256 ^ k → (scriptNumMag n).length ≤ k := by
  intro k
  induction k with
  | zero =>
    intro n hn
    have : n = 0 := by simpa using hn
    subst this
    rw [scriptNumMag]; simp
  | succ k ih =>
    intro n hn
    rw [scriptNumMag]
    by_cases h0 : n = 0
    · simp [h0]
    · simp only [h0, if_false, List.length_cons]
      have : n / 256 < 256 ^ k := by
        rw [Nat.pow_succ] at hn
        exact Nat.div_lt_of_lt_mul (by rw [Nat.mul_comm]; exact hn)
      have := ih (n / 256) this
      omega

theorem scriptNumBytes_len (v : Int) (hv : v.natAbs < 256 ^ 8) : (scriptNumBytes v).length ≤ 9 := by
  unfold scriptNumBytes
  have hm := scriptNumMag_len 8 v.natAbs hv
  by_cases h0 : v = 0
  · simp [h0]
  · simp only [h0, if_false]
    split
    · simp only [List.length_append, List.length_cons, List.length_nil]; omega
    · split
      · simp only [List.length_append, List.length_cons, List.length_nil, List.length_dropLast]; omega
      · omega

theorem addDataSmall_len (d : Spec.Bytes) : (addDataSmall d).length ≤ d.length + 1 := by
  unfold addDataSmall
  split
  · simp
  · split
    · simp
    · split
      · simp
      · simp

theorem addInt64_len (v : Int) (hv : v.natAbs < 256 ^ 8) : (addInt64 v).length ≤ 10 := by
  unfold addInt64
  split
  · simp
  · split
    · simp
    · have := addDataSmall_len (scriptNumBytes v)
      have := scriptNumBytes_len v hv
      omega

/-- … and never longer than the consensus maximum of 100 bytes, for every int64 extra nonce, every
int32 height and flags of at most 75 bytes (`MaxCoinbaseScriptLen`; `UpdateExtraNonce`'s own length
check can therefore never fire) -/
theorem coinbaseScript_max_len (height : Nat) (hh : height < 2 ^ 31) (nonce : Int) (hn : nonce.natAbs < 256 ^ 8)
    (flags : Spec.Bytes) (hf : flags.length ≤ 75) : (coinbaseScript height nonce flags).length ≤ 100 := by
  unfold coinbaseScript
  have h1 := addInt64_len (height : Int) (by
    have : ((height : Int)).natAbs = height := by simp
    rw [this]
    have : (2 : Nat) ^ 31 < 256 ^ 8 := by decide
    omega)
  have h2 := addInt64_len nonce hn
  have h3 := addDataSmall_len flags
  simp only [List.length_append]
  omega

end BV.C12
