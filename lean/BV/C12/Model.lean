/- C12 model: executable mirror of `mining.NewBlockTemplate` (mining/mining.go) over abstract
transaction descriptors.  Core-only.

What is abstracted: transaction hashes are pool indices, outpoints are a small sum type, scripts are
an oracle bit (`scriptsOk` = `ValidateTransactionScripts` under the standard flags with every input
available), weight / sigop cost / priority are oracle numbers computed by btcd's own primitives (their
definitions are C13's subject).  Everything the template generator itself decides is modelled: the
first pass over the source (coinbase / finality / missing-input skips, the dependency registration
with its early-exit quirk, the merged utxo view), the priority queue with container/heap's exact
sift rules, the second pass (witness handling and commitment reservation, weight / sigop / free-fee
limits, the priority→fee switch, `CheckTransactionInputs`, spending into the view, release of
dependants), the coinbase patch and the final self-check. -/
namespace BV.C12

/-! ## Protocol constants (pinned against the compiled tree in Props) -/

def WITNESS_SCALE : Nat := 4
def MAX_BLOCK_WEIGHT : Nat := 4000000
def MAX_BLOCK_SIGOPS_COST : Nat := 80000
/-- 80-byte header + 9-byte maximal transaction-count varint: what a generator must reserve at least
(`Env.headerOverhead` is the value the implementation actually reserves). -/
def BLOCK_HEADER_OVERHEAD : Nat := 89
def MAX_VARINT_PAYLOAD : Nat := 9
def COINBASE_WITNESS_DATA_LEN : Nat := 32
def COINBASE_WITNESS_PKSCRIPT_LEN : Nat := 38
def LOCKTIME_THRESHOLD : Nat := 500000000
def BASE_SUBSIDY : Nat := 5000000000
def U32 : Nat := 4294967296
/-- `btcutil.MaxSatoshi` = 21e6 BTC. -/
def MAX_SATOSHI : Nat := 2100000000000000
/-- `MaxTimeOffsetSeconds`: a block may be at most two hours ahead of the node's clock. -/
def MAX_TIME_OFFSET : Int := 7200
/-- BIP68: `SequenceLockTimeDisabled` (bit 31), `SequenceLockTimeIsSeconds` (bit 22), the 16-bit mask and
the 512-second granularity of time-based relative locks. -/
def SEQ_DISABLED : Nat := 2147483648
def SEQ_IS_SECONDS : Nat := 4194304
def SEQ_MASK : Nat := 65536
def SEQ_GRANULARITY : Nat := 512
def MAX_SEQUENCE : Nat := 4294967295

/-- Weight the witness commitment adds to a coinbase: one more output (8-byte value, 1-byte script
length, 38-byte script, all non-witness ⇒ ×4) plus marker, flag, witness item count, item length and
the 32-byte item (witness data ⇒ ×1). -/
def WITNESS_RESERVE : Nat :=
  WITNESS_SCALE * (8 + 1 + COINBASE_WITNESS_PKSCRIPT_LEN) + (2 + 1 + 1 + COINBASE_WITNESS_DATA_LEN)

/-! ## Abstract transactions -/

inductive OutPoint where
  /-- output `k` of the world catalogue (a transaction that is not in the pool) -/
  | u (k : Nat)
  /-- output `i` of pool transaction `j` -/
  | p (j i : Nat)
  /-- an outpoint nobody knows -/
  | x (n : Nat)
  /-- the null outpoint of a coinbase -/
  | null
  deriving DecidableEq, Repr, Inhabited

structure ChainUtxo where
  value : Nat
  height : Int
  coinbase : Bool
  /-- past median time of the block BEFORE the one that holds the output (BIP68 time locks) -/
  mtpPrev : Int := 0
  deriving DecidableEq, Repr, Inhabited

structure Inp where
  op : OutPoint
  /-- what the chain's utxo set says about `op` when the template is built -/
  chain : Option ChainUtxo
  /-- `TxIn.Sequence` -/
  sequence : Nat := 4294967295
  deriving DecidableEq, Repr, Inhabited

structure Out where
  value : Nat
  /-- `false` for provably unspendable scripts (never enter a utxo view) -/
  spendable : Bool
  deriving DecidableEq, Repr, Inhabited

structure Tx where
  ins : List Inp
  outs : List Out
  lockTime : Nat
  allSeqMax : Bool
  /-- `TxDesc.Fee`, `TxDesc.FeePerKB` as handed over by the source -/
  fee : Int
  feePerKB : Int
  /-- order key of the float64 priority (its IEEE-754 bits; priorities are non-negative) -/
  prio : Nat
  weight : Nat
  sigCost : Nat
  hasWitness : Bool
  scriptsOk : Bool
  /-- `MsgTx.Version` (BIP68 applies from version 2) -/
  version : Nat := 1
  deriving Repr, Inhabited

structure Env where
  nextHeight : Int
  now : Int
  mtp : Int
  segwit : Bool
  csv : Bool
  cbWeight : Nat
  cbSigCost : Nat
  halving : Int
  maturity : Int
  minWeight : Nat
  maxWeight : Nat
  prioSize : Nat
  minFreeFee : Int
  /-- internal policy / tuning values of the generator, read from the tree by the harness and passed
  on the line (the model is parametric in them): the order key of `MinHighPriority` and the bytes
  reserved for header + transaction count (`blockHeaderOverhead`) -/
  minHighPrio : Nat := 4722999750989709312
  headerOverhead : Nat := 89
  deriving Repr, Inhabited

def isCoinbase (t : Tx) : Bool :=
  match t.ins with
  | [i] => i.op == OutPoint.null
  | _ => false

/-- `blockchain.IsFinalizedTransaction`. -/
def isFinalized (t : Tx) (height time : Int) : Bool :=
  if t.lockTime = 0 then true
  else
    let ref := if t.lockTime < LOCKTIME_THRESHOLD then height else time
    if (t.lockTime : Int) < ref then true else t.allSeqMax

/-- The clock the template evaluates lock times against: the past median time once CSV (BIP113) is
active, the adjusted wall clock before. -/
def templateClock (e : Env) : Int := if e.csv then e.mtp else e.now

/-- The header timestamp the generator picks (`medianAdjustedTime`). -/
def headerTime (e : Env) : Int := if e.now < e.mtp + 1 then e.mtp + 1 else e.now

/-- The clock consensus evaluates lock times against (`checkConnectBlock`/`checkBlockContext`). -/
def consensusClock (e : Env) : Int := if e.csv then e.mtp else headerTime e

/-- `CalcBlockSubsidy`. -/
def subsidy (e : Env) : Nat :=
  if e.halving = 0 then BASE_SUBSIDY
  else
    let q := Int.tdiv e.nextHeight e.halving
    if q < 0 then 0 else if q.toNat ≥ 64 then 0 else BASE_SUBSIDY >>> q.toNat

/-! ## Utxo view (association list, first match wins) -/

structure Entry where
  value : Nat
  height : Int
  coinbase : Bool
  spent : Bool
  deriving DecidableEq, Repr, Inhabited

abbrev View := List (OutPoint × Entry)

def View.get (v : View) (op : OutPoint) : Option Entry :=
  match v with
  | [] => none
  | (k, e) :: rest => if k = op then some e else View.get rest op

/-- present and unspent -/
def View.avail (v : View) (op : OutPoint) : Bool :=
  match v.get op with
  | some e => !e.spent
  | none => false

/-- `mergeUtxoView` for the entries one transaction fetched from the chain. -/
def mergeIns (v : View) : List Inp → View
  | [] => v
  | i :: rest =>
    match i.chain with
    | some c => if v.avail i.op then mergeIns v rest
                else mergeIns ((i.op, ⟨c.value, c.height, c.coinbase, false⟩) :: v) rest
    | none => mergeIns v rest

/-- `spendTransaction`, first half: mark every input that is in the view as spent. -/
def spendIns (v : View) : List Inp → View
  | [] => v
  | i :: rest =>
    match v.get i.op with
    | some e => spendIns ((i.op, { e with spent := true }) :: v) rest
    | none => spendIns v rest

/-- `spendTransaction`, second half (`AddTxOuts`): the spendable outputs become fresh entries. -/
def addOuts (v : View) (j : Nat) (height : Int) : Nat → List Out → View
  | _, [] => v
  | i, o :: rest =>
    if o.spendable then addOuts ((OutPoint.p j i, ⟨o.value, height, false, false⟩) :: v) j height (i + 1) rest
    else addOuts v j height (i + 1) rest

def spendTx (v : View) (j : Nat) (t : Tx) (height : Int) : View :=
  addOuts (spendIns v t.ins) j height 0 t.outs

def allAvail (v : View) (t : Tx) : Bool := t.ins.all (fun i => v.avail i.op)

/-- `blockchain.CheckTransactionInputs` (existence, coinbase maturity, amount ranges, inputs cover
outputs). -/
def checkInputsAux (v : View) (height maturity : Int) : List Inp → Nat → Option Nat
  | [], acc => some acc
  | i :: rest, acc =>
    match v.get i.op with
    | some e =>
      if e.spent then none
      else if e.coinbase && decide (height - e.height < maturity) then none
      else if e.value > MAX_SATOSHI then none
      else if acc + e.value > MAX_SATOSHI then none
      else checkInputsAux v height maturity rest (acc + e.value)
    | none => none

def sumOuts (t : Tx) : Nat := (t.outs.map (·.value)).sum

def checkInputs (v : View) (e : Env) (t : Tx) : Bool :=
  if isCoinbase t then true else
  match checkInputsAux v e.nextHeight e.maturity t.ins 0 with
  | some total => decide (sumOuts t ≤ total)
  | none => false

/-! ## Priority queue: container/heap, exactly -/

structure Item where
  idx : Nat
  fee : Int
  prio : Nat
  feePerKB : Int
  /-- pool indices this item still waits for -/
  dependsOn : List Nat
  deriving Repr, Inhabited

/-- `txPQByPriority` / `txPQByFee`. -/
def less (byFee : Bool) (a b : Item) : Bool :=
  if byFee then
    if a.feePerKB = b.feePerKB then decide (a.prio > b.prio) else decide (a.feePerKB > b.feePerKB)
  else
    if a.prio = b.prio then decide (a.feePerKB > b.feePerKB) else decide (a.prio > b.prio)

def swap (q : List Item) (i j : Nat) : List Item :=
  match q[i]?, q[j]? with
  | some a, some b => (q.set i b).set j a
  | _, _ => q

def lessAt (byFee : Bool) (q : List Item) (i j : Nat) : Bool :=
  match q[i]?, q[j]? with
  | some a, some b => less byFee a b
  | _, _ => false

/-- `heap.up`. -/
def heapUp (byFee : Bool) : Nat → List Item → Nat → List Item
  | 0, q, _ => q
  | fuel + 1, q, j =>
    let i := (j - 1) / 2
    if i = j || !lessAt byFee q j i then q
    else heapUp byFee fuel (swap q i j) i

/-- the smaller (per `Less`) of the children `j1`, `j1 + 1` of a node, within the first `n` elements -/
def pickChild (byFee : Bool) (q : List Item) (j1 n : Nat) : Nat :=
  if j1 + 1 < n && lessAt byFee q (j1 + 1) j1 then j1 + 1 else j1

/-- `heap.down` over the first `n` elements. -/
def heapDown (byFee : Bool) : Nat → List Item → Nat → Nat → List Item
  | 0, q, _, _ => q
  | fuel + 1, q, i, n =>
    if 2 * i + 1 ≥ n then q
    else if !lessAt byFee q (pickChild byFee q (2 * i + 1) n) i then q
    else heapDown byFee fuel (swap q i (pickChild byFee q (2 * i + 1) n)) (pickChild byFee q (2 * i + 1) n) n

/-- `heap.Init`. -/
def heapInit (byFee : Bool) (q : List Item) : List Item :=
  let n := q.length
  (List.range (n / 2)).reverse.foldl (fun q i => heapDown byFee (n + 1) q i n) q

/-- `heap.Push`. -/
def heapPush (byFee : Bool) (q : List Item) (x : Item) : List Item :=
  let q := q ++ [x]
  heapUp byFee (q.length + 1) q (q.length - 1)

/-- `heap.Pop`: swap the root with the last element, sift the new root down over the first `n-1`
elements, remove the last element. -/
def heapPop (byFee : Bool) (q : List Item) : Option (Item × List Item) :=
  if q.length = 0 then none
  else
    let n := q.length - 1
    let q := swap q 0 n
    let q := heapDown byFee (n + 1) q 0 n
    match q.getLast? with
    | some x => some (x, q.dropLast)
    | none => none

/-- The queue operations the selection loop uses.  The property theorems hold for EVERY such
structure (the property does not depend on the order of selection); the driver instantiates it with
container/heap. -/
structure QueueOps (Q : Type) where
  empty : Q
  push : Bool → Q → Item → Q
  pop : Bool → Q → Option (Item × Q)
  reinit : Bool → Q → Q

def heapOps : QueueOps (List Item) where
  empty := []
  push := heapPush
  pop := heapPop
  reinit := heapInit

/-! ## First pass over the source (`mempoolLoop`) -/

/-- Result of scanning the inputs of one transaction for pool dependencies.
`none` = an input is neither on the chain nor in the pool (`continue mempoolLoop`); the list holds the
parents registered so far in both cases. -/
def scanDeps (poolSize : Nat) : List Inp → List Nat → (Bool × List Nat)
  | [], acc => (true, acc)
  | i :: rest, acc =>
    match i.chain with
    | some _ => scanDeps poolSize rest acc
    | none =>
      match i.op with
      | OutPoint.p j _ =>
        if j < poolSize then scanDeps poolSize rest (if acc.contains j then acc else acc ++ [j])
        else (false, acc)
      | _ => (false, acc)

structure Prep (Q : Type) where
  queue : Q
  /-- items registered in `dependers` (including those of transactions skipped half-way) -/
  waiting : List Item
  view : View

def prepStep {Q : Type} (ops : QueueOps Q) (e : Env) (poolSize : Nat) (byFee : Bool)
    (s : Prep Q) (idx : Nat) (t : Tx) : Prep Q :=
  if isCoinbase t then s
  else if !isFinalized t e.nextHeight (templateClock e) then s
  else
    match scanDeps poolSize t.ins [] with
    | (false, deps) =>
      -- skipped, but already registered as a dependant of `deps` with zeroed priority data
      if deps.isEmpty then s
      else { s with waiting := s.waiting ++ [⟨idx, 0, 0, 0, deps⟩] }
    | (true, deps) =>
      let item : Item := ⟨idx, t.fee, t.prio, t.feePerKB, deps⟩
      let view := mergeIns s.view t.ins
      if deps.isEmpty then { s with queue := ops.push byFee s.queue item, view := view }
      else { s with waiting := s.waiting ++ [item], view := view }

def prepLoop {Q : Type} (ops : QueueOps Q) (e : Env) (poolSize : Nat) (byFee : Bool) :
    Prep Q → Nat → List Tx → Prep Q
  | s, _, [] => s
  | s, idx, t :: rest => prepLoop ops e poolSize byFee (prepStep ops e poolSize byFee s idx t) (idx + 1) rest

/-! ## Second pass (selection) -/

structure St (Q : Type) where
  queue : Q
  waiting : List Item
  byFee : Bool
  blockWeight : Nat
  sigCost : Nat
  totalFees : Int
  witnessIncluded : Bool
  view : View
  /-- selected pool indices, in block order -/
  sel : List Nat
  fees : List Int
  sigs : List Nat

/-- Release the dependants of a freshly selected transaction `j`: every waiting item that lists `j`
loses that dependency and is pushed once it has none left. -/
def release {Q : Type} (ops : QueueOps Q) (byFee : Bool) (j : Nat) :
    List Item → Q → (List Item × Q)
  | [], q => ([], q)
  | it :: rest, q =>
    if it.dependsOn.contains j then
      if (it.dependsOn.filter (· ≠ j)).isEmpty then
        release ops byFee j rest (ops.push byFee q { it with dependsOn := it.dependsOn.filter (· ≠ j) })
      else
        ({ it with dependsOn := it.dependsOn.filter (· ≠ j) } :: (release ops byFee j rest q).1,
          (release ops byFee j rest q).2)
    else
      (it :: (release ops byFee j rest q).1, (release ops byFee j rest q).2)

/-- The priority→fee switch: `sortedByFee = true; SetLessFunc(txPQByFee)` (re-heapify). -/
def switchSt {Q : Type} (ops : QueueOps Q) (s : St Q) : St Q :=
  { s with byFee := true, queue := ops.reinit true s.queue }

/-- Add the transaction to the block: spend it into the view, update the running totals, release
its dependants. -/
def commitTx {Q : Type} (ops : QueueOps Q) (e : Env) (s : St Q) (it : Item) (t : Tx)
    (bpw cost reserve : Nat) : St Q :=
  let view := spendTx s.view it.idx t e.nextHeight
  let r := release ops s.byFee it.idx s.waiting s.queue
  { s with
    queue := r.2, waiting := r.1, view := view,
    blockWeight := bpw, sigCost := s.sigCost + cost,
    totalFees := s.totalFees + it.fee,
    witnessIncluded := s.witnessIncluded || (reserve != 0),
    sel := s.sel ++ [it.idx], fees := s.fees ++ [it.fee], sigs := s.sigs ++ [cost] }

/-- The checks of one iteration once the weight reservation `reserve`, the prospective block weight
`bpw` and the sigop cost `cost` of the popped transaction are known. -/
def selectCore {Q : Type} (ops : QueueOps Q) (e : Env) (s : St Q) (it : Item) (t : Tx)
    (reserve bpw cost : Nat) : St Q :=
  if bpw < s.blockWeight || bpw ≥ e.maxWeight then s
  else if s.sigCost + cost > MAX_BLOCK_SIGOPS_COST then s
  else if s.byFee && it.feePerKB < e.minFreeFee && bpw ≥ e.minWeight then s
  else
    let switch := !s.byFee && (bpw ≥ e.prioSize || it.prio ≤ e.minHighPrio)
    let s1 : St Q := if switch then switchSt ops s else s
    if switch && (bpw > e.prioSize || it.prio < e.minHighPrio) then
      { s1 with queue := ops.push true s1.queue it }
    else if !checkInputs s1.view e t then s1
    else if !t.scriptsOk then s1
    else commitTx ops e s1 it t bpw cost reserve

/-- One iteration of the selection loop for the popped item `it` (queue already without it). -/
def selectStep {Q : Type} (ops : QueueOps Q) (e : Env) (pool : List Tx) (s : St Q) (it : Item) : St Q :=
  match pool[it.idx]? with
  | none => s
  | some t =>
    if !e.segwit && t.hasWitness then s
    else
      -- weight the witness commitment will add if this is the first witness transaction
      let reserve := if e.segwit && !s.witnessIncluded && t.hasWitness then WITNESS_RESERVE else 0
      let bpw := (s.blockWeight + reserve + t.weight % U32) % U32
      let cost := if allAvail s.view t then t.sigCost else 0
      selectCore ops e s it t reserve bpw cost

def selectLoop {Q : Type} (ops : QueueOps Q) (e : Env) (pool : List Tx) : Nat → St Q → St Q
  | 0, s => s
  | fuel + 1, s =>
    match ops.pop s.byFee s.queue with
    | none => s
    | some (it, q) => selectLoop ops e pool fuel (selectStep ops e pool { s with queue := q } it)

/-! ## The template -/

structure Template where
  sel : List Nat
  /-- `Fees`, entry 0 is the coinbase's -/
  fees : List Int
  sigs : List Nat
  cbValue : Int
  commitment : Bool
  deriving Repr, DecidableEq

def initWeight (e : Env) : Nat := (e.headerOverhead * WITNESS_SCALE + e.cbWeight) % U32

def initSt {Q : Type} (e : Env) (p : Prep Q) : St Q :=
  { queue := p.queue, waiting := p.waiting, byFee := e.prioSize == 0, blockWeight := initWeight e,
    sigCost := e.cbSigCost, totalFees := 0, witnessIncluded := false, view := p.view,
    sel := [], fees := [], sigs := [] }

def runSelect {Q : Type} (ops : QueueOps Q) (e : Env) (pool : List Tx) (fuel : Nat) : St Q :=
  let byFee := e.prioSize == 0
  let prep := prepLoop ops e pool.length byFee ⟨ops.empty, [], []⟩ 0 pool
  selectLoop ops e pool fuel (initSt e prep)

def templateOf {Q : Type} (e : Env) (s : St Q) : Template :=
  { sel := s.sel, fees := (-s.totalFees) :: s.fees, sigs := e.cbSigCost :: s.sigs,
    cbValue := (subsidy e : Int) + s.totalFees, commitment := s.witnessIncluded }

/-- The candidate template (before the generator's final self-check). -/
def candidate {Q : Type} (ops : QueueOps Q) (e : Env) (pool : List Tx) (fuel : Nat) : Template :=
  templateOf e (runSelect ops e pool fuel)

/-- Enough fuel for every run: each pop either retires an item for good or is the single re-push
of the priority→fee switch. -/
def defaultFuel (pool : List Tx) : Nat := 2 * pool.length + 4

end BV.C12
