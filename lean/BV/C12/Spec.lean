/- C12 Spec: what a block template must satisfy, stated directly over the abstract transactions of
`Model.lean` (only the data types and per-transaction oracle fields are shared with the model; none
of the generator's bookkeeping — view, queue, running totals — appears here). Core-only. -/
import BV.C12.Model
namespace BV.C12.Spec
open BV.C12

/-- What the chain's utxo set says about an outpoint (read off any pool input that refers to it). -/
def chainGet (pool : List Tx) (op : OutPoint) : Option ChainUtxo :=
  (pool.flatMap (·.ins)).findSome? (fun i => if i.op = op then i.chain else none)

def txsOf (pool : List Tx) (sel : List Nat) : List Tx := sel.filterMap (pool[·]?)

/-- Value an input brings when the transaction sits in a block after the transactions `earlier`
(pool indices) on top of the chain: an unspent, mature chain output, or a spendable output of an
earlier transaction of the same block. -/
def inputValue (e : Env) (pool : List Tx) (earlier : List Nat) (op : OutPoint) : Option Nat :=
  match op with
  | OutPoint.p j i =>
    if earlier.contains j then
      match pool[j]? with
      | some pt => match pt.outs[i]? with
        | some o => if o.spendable then some o.value else none
        | none => none
      | none => none
    else none
  | op =>
    match chainGet pool op with
    | some c => if c.coinbase && decide (e.nextHeight - c.height < e.maturity) then none else some c.value
    | none => none

def inputsValue (e : Env) (pool : List Tx) (earlier : List Nat) : List Inp → Option Nat
  | [] => some 0
  | i :: rest =>
    match inputValue e pool earlier i.op, inputsValue e pool earlier rest with
    | some a, some b => some (a + b)
    | _, _ => none

/-- Outpoints consumed by the transactions `done` (pool indices). -/
def spentOps (pool : List Tx) (done : List Nat) : List OutPoint :=
  (txsOf pool done).flatMap (fun t => t.ins.map (·.op))

/-- Connect one more transaction `j` after the transactions `st.1`; `st.2` collects the real fee
(inputs − outputs) of each connected transaction.  Fails on an unknown index, a double spend (within
the transaction or against an earlier one), a missing / immature input, input value above 21e6 BTC (then so is
no output: outputs are covered by inputs), or outputs above inputs. -/
def connectStep (e : Env) (pool : List Tx) (st : List Nat × List Int) (j : Nat) :
    Option (List Nat × List Int) :=
  match pool[j]? with
  | none => none
  | some t =>
    let ops := t.ins.map (·.op)
    if ops.any (fun op => (spentOps pool st.1).contains op) then none
    else if !decide ops.Nodup then none
    else
      match inputsValue e pool st.1 t.ins with
      | none => none
      | some total =>
        if total > MAX_SATOSHI then none
        else if total < sumOuts t then none
        else some (st.1 ++ [j], st.2 ++ [(total : Int) - (sumOuts t : Int)])

/-- Connect the selected transactions in block order on top of the chain; the result is the list of
their real fees. -/
def connect (e : Env) (pool : List Tx) (sel : List Nat) : Option (List Int) :=
  (sel.foldlM (connectStep e pool) ([], [])).map (·.2)

def varIntSize (n : Nat) : Nat :=
  if n < 0xfd then 1 else if n ≤ 0xffff then 3 else if n ≤ 0xffffffff then 5 else 9

/-- Weight of the finished block: header, transaction count, coinbase (plus the commitment output and
witness nonce when present) and the selected transactions. -/
def blockWeight (e : Env) (pool : List Tx) (tpl : Template) : Nat :=
  WITNESS_SCALE * (80 + varIntSize (tpl.sel.length + 1)) + e.cbWeight
    + (if tpl.commitment then WITNESS_RESERVE else 0) + ((txsOf pool tpl.sel).map (·.weight)).sum

def sigOpCost (e : Env) (pool : List Tx) (tpl : Template) : Nat :=
  e.cbSigCost + ((txsOf pool tpl.sel).map (·.sigCost)).sum

/-- Every input of pool transaction `j` that is an output of another pool transaction (and not on
the chain) refers to one of `earlier`. -/
def depCheck (pool : List Tx) (j : Nat) (earlier : List Nat) : Bool :=
  match pool[j]? with
  | some t => t.ins.all (fun i => match i.op with
      | OutPoint.p k _ => if i.chain.isNone then earlier.contains k else true
      | _ => true)
  | none => false

/-- Every transaction comes after every pool transaction it spends from. -/
def depsBefore (pool : List Tx) : List Nat → List Nat → Bool
  | [], _ => true
  | j :: rest, earlier => depCheck pool j earlier && depsBefore pool rest (earlier ++ [j])

/-- BIP68 (`calcSequenceLock` + `SequenceLockActive` as `checkConnectBlock` applies them): with CSV
active every input of a version ≥ 2 transaction whose sequence has bit 31 clear carries a relative
lock, in blocks (height of the spent output + n − 1 must be below the block height) or, with bit 22, in
512-second units (median time before the spent output's block + n·512 − 1 must be below the median
time before the new block).  Outputs of transactions of the same block count as confirmed in it. -/
def seqLocksOk (e : Env) (t : Tx) : Bool :=
  if !e.csv || decide (t.version < 2) || isCoinbase t then true
  else
    decide (-1 < e.nextHeight) && decide (-1 < e.mtp) &&
    t.ins.all (fun i =>
      if (i.sequence / SEQ_DISABLED) % 2 = 1 then true
      else
        let rel : Int := ((i.sequence % SEQ_MASK : Nat) : Int)
        let src : Int × Int := match i.chain with
          | some c => (c.height, c.mtpPrev)
          | none => (e.nextHeight, e.mtp)
        if (i.sequence / SEQ_IS_SECONDS) % 2 = 1 then decide (src.2 + rel * (SEQ_GRANULARITY : Int) - 1 < e.mtp)
        else decide (src.1 + rel - 1 < e.nextHeight))

/-- The consensus rules a block must satisfy, as far as they concern the choice of transactions
(`CheckConnectBlockTemplate`): valid indices, no second coinbase, no duplicates, every transaction
final on the consensus clock, inputs connect in order without double spends, the coinbase does not
overpay, scripts hold, sigop-cost and weight limits, witness data only with segwit and then with a
commitment, BIP68 sequence locks, header time after the median time and at most two hours ahead of the
node's clock. -/
def blockValid (e : Env) (pool : List Tx) (tpl : Template) : Bool :=
  tpl.sel.all (· < pool.length)
  && tpl.sel.Nodup
  && (txsOf pool tpl.sel).all (fun t => !isCoinbase t)
  && (txsOf pool tpl.sel).all (fun t => isFinalized t e.nextHeight (consensusClock e))
  && (match connect e pool tpl.sel with
      | some fees => decide (tpl.cbValue ≤ (subsidy e : Int) + fees.sum)
      | none => false)
  && (txsOf pool tpl.sel).all (·.scriptsOk)
  && decide (sigOpCost e pool tpl ≤ MAX_BLOCK_SIGOPS_COST)
  && decide (blockWeight e pool tpl ≤ MAX_BLOCK_WEIGHT)
  && (e.segwit || (txsOf pool tpl.sel).all (fun t => !t.hasWitness))
  && (tpl.commitment || (txsOf pool tpl.sel).all (fun t => !t.hasWitness))
  && (txsOf pool tpl.sel).all (seqLocksOk e)
  && decide (e.mtp < headerTime e)
  && decide (headerTime e ≤ e.now + MAX_TIME_OFFSET)

/-- Reported per-transaction fees are the real ones and entry 0 is minus their sum; the coinbase pays
exactly subsidy + fees. -/
def accountingOk (e : Env) (pool : List Tx) (tpl : Template) : Bool :=
  match connect e pool tpl.sel with
  | some fs => tpl.fees == (-fs.sum) :: fs && tpl.cbValue == (subsidy e : Int) + fs.sum
  | none => false

/-- Reported sigop costs are the recomputed ones. -/
def sigsOk (e : Env) (pool : List Tx) (tpl : Template) : Bool :=
  tpl.sigs == e.cbSigCost :: (txsOf pool tpl.sel).map (·.sigCost)

/-- Configured limits: block weight strictly below the policy maximum. -/
def policyOk (e : Env) (pool : List Tx) (tpl : Template) : Bool :=
  decide (blockWeight e pool tpl < e.maxWeight) && decide (sigOpCost e pool tpl ≤ MAX_BLOCK_SIGOPS_COST)

end BV.C12.Spec
