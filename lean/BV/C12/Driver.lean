/- C12 line-protocol driver (core-only). -/
import BV.C12.Model
import BV.C12.Spec
import BV.C12.Gen
import BV.C09.Model
import BV.C12.ComposeExec
import BV.Common.Hex
namespace BV.C12.Driver
open BV.C12

def parseBool? (s : String) : Option Bool :=
  if s == "1" then some true else if s == "0" then some false else none

def kv? (s : String) : Option (String × String) :=
  match s.splitOn "=" with
  | [k, v] => some (k, v)
  | _ => none

def lookup (kvs : List (String × String)) (k : String) : Option String :=
  (kvs.find? (·.1 == k)).map (·.2)

def parseInBase? (s : String) : Option Inp :=
  match s.toList with
  | 'u' :: rest =>
    match (String.ofList rest).splitOn ":" with
    | [k, v, h, cb] => do
      let k ← k.toNat?
      let v ← v.toNat?
      let h ← h.toInt?
      let cb ← parseBool? cb
      pure { op := OutPoint.u k, chain := some { value := v, height := h, coinbase := cb } }
    | [k, v, h, cb, m] => do
      let k ← k.toNat?
      let v ← v.toNat?
      let h ← h.toInt?
      let cb ← parseBool? cb
      let m ← m.toInt?
      pure { op := OutPoint.u k, chain := some { value := v, height := h, coinbase := cb, mtpPrev := m } }
    | _ => none
  | 'g' :: rest => do
    let k ← (String.ofList rest).toNat?
    pure { op := OutPoint.u k, chain := none }
  | 'x' :: rest => do
    let k ← (String.ofList rest).toNat?
    pure { op := OutPoint.x k, chain := none }
  | 'p' :: rest =>
    match (String.ofList rest).splitOn "." with
    | [j, i] => do
      let j ← j.toNat?
      let i ← i.toNat?
      pure { op := OutPoint.p j i, chain := none }
    | _ => none
  | ['c'] => some { op := OutPoint.null, chain := none }
  | _ => none

/-- input token: `<ref>[~<sequence>][!]` -/
def parseIn? (s : String) : Option Inp :=
  let s := if s.endsWith "!" then (s.dropEnd 1).toString else s
  match s.splitOn "~" with
  | [r] => parseInBase? r
  | [r, q] => do
    let i ← parseInBase? r
    let q ← q.toNat?
    pure { i with sequence := q }
  | _ => none

def parseOut? (s : String) : Option Out :=
  match s.toList with
  | k :: rest => do
    let v ← (String.ofList rest).toNat?
    if k ∈ ['T', 'K', 'W', 'S', 'H', 'M'] then pure ⟨v, true⟩
    else if k = 'R' then pure ⟨v, false⟩
    else if k = 'D' then pure ⟨0, false⟩ else none
  | [] => none

def parseLock? (s : String) : Option (Nat × Bool) :=
  if s == "0" then some (0, true) else
  match s.toList with
  | k :: rest =>
    if k = 'H' ∨ k = 'T' then
      match (String.ofList rest).splitOn ":" with
      | [n, am] => do
        let n ← n.toNat?
        let am ← parseBool? am
        pure (n, am)
      | _ => none
    else none
  | [] => none

def parseTx? (s : String) : Option Tx :=
  match s.splitOn "/" with
  | ins :: outs :: lock :: fee :: fpk :: prio :: wt :: sc :: hw :: so :: ver => do
    let ver ← match ver with
      | [] => some 1
      | [v] => v.toNat?
      | _ => none
    let ins ← (ins.splitOn "+").mapM parseIn?
    let outs ← if outs == "-" then some [] else (outs.splitOn "+").mapM parseOut?
    let (lt, am) ← parseLock? lock
    let fee ← fee.toInt?
    let fpk ← fpk.toInt?
    let prio ← prio.toNat?
    let wt ← wt.toNat?
    let sc ← sc.toNat?
    let hw ← parseBool? hw
    let so ← parseBool? so
    pure { ins := ins, outs := outs, lockTime := lt, allSeqMax := am, fee := fee, feePerKB := fpk,
           prio := prio, weight := wt, sigCost := sc, hasWitness := hw, scriptsOk := so, version := ver }
  | _ => none

def parseEnv? (kvs : List (String × String)) : Option Env := do
  let pol ← lookup kvs "pol"
  let (minW, maxW, ps, mf) ← match pol.splitOn ":" with
    | [a, b, c, d] => do
      let a ← a.toNat?
      let b ← b.toNat?
      let c ← c.toNat?
      let d ← d.toInt?
      pure (a, b, c, d)
    | _ => none
  let h ← (← lookup kvs "h").toInt?
  let now ← (← lookup kvs "now").toInt?
  let mtp ← (← lookup kvs "mtp").toInt?
  let seg ← parseBool? (← lookup kvs "seg")
  let csv ← parseBool? (← lookup kvs "csv")
  let cbw ← (← lookup kvs "cbw").toNat?
  let cbs ← (← lookup kvs "cbs").toNat?
  let hv ← (← lookup kvs "hv").toInt?
  let mat ← (← lookup kvs "mat").toInt?
  let mhp ← match lookup kvs "mhp" with
    | some v => v.toNat?
    | none => some 4722999750989709312
  let bho ← match lookup kvs "bho" with
    | some v => v.toNat?
    | none => some 89
  pure { minHighPrio := mhp, headerOverhead := bho, nextHeight := h, now := now, mtp := mtp, segwit := seg, csv := csv, cbWeight := cbw,
         cbSigCost := cbs, halving := hv, maturity := mat, minWeight := minW, maxWeight := maxW,
         prioSize := ps, minFreeFee := mf }

def joinWith {α : Type} (f : α → String) (xs : List α) : String :=
  if xs.isEmpty then "-" else ",".intercalate (xs.map f)

def b2s (b : Bool) : String := if b then "1" else "0"

/-- insertion of a (pool index, fee, sigop cost) triple by pool index -/
def insTriple (x : Nat × Int × Nat) : List (Nat × Int × Nat) → List (Nat × Int × Nat)
  | [] => [x]
  | y :: ys => if x.1 ≤ y.1 then x :: y :: ys else y :: insTriple x ys

def sameKey (pool : List Tx) (a b : Nat) : Bool :=
  match pool[a]?, pool[b]? with
  | some x, some y => x.prio == y.prio && x.feePerKB == y.feePerKB
  | _, _ => false

/-- Canonical order of the rendered selection: the order among transactions whose queue keys
(priority, fee rate) are genuinely equal is internal to the priority queue, so every maximal run of
consecutive selected transactions with identical keys is sorted by pool index.  `run` is the current
run (already sorted). -/
def canonAux (pool : List Tx) : List (Nat × Int × Nat) → List (Nat × Int × Nat) → List (Nat × Int × Nat)
  | [], run => run
  | x :: rest, [] => canonAux pool rest [x]
  | x :: rest, r :: run =>
    if sameKey pool x.1 r.1 then canonAux pool rest (insTriple x (r :: run))
    else (r :: run) ++ canonAux pool rest [x]

/-- the template with selection, fees and sigop costs in canonical order (entry 0 stays) -/
def canonTemplate (pool : List Tx) (t : Template) : Template :=
  match t.fees, t.sigs with
  | f0 :: fs, s0 :: ss =>
    if fs.length = t.sel.length ∧ ss.length = t.sel.length then
      let triples := canonAux pool (List.zip t.sel (List.zip fs ss)) []
      { t with sel := triples.map (·.1), fees := f0 :: triples.map (·.2.1), sigs := s0 :: triples.map (·.2.2) }
    else t
  | _, _ => t

def render (e : Env) (pool : List Tx) (t0 : Template) (pb : Bool) : String :=
  let t := canonTemplate pool t0
  "ok sel=" ++ joinWith toString t.sel
  ++ " fees=" ++ joinWith toString t.fees
  ++ " sig=" ++ joinWith toString t.sigs
  ++ " cbv=" ++ toString t.cbValue
  ++ " wc=" ++ b2s t.commitment
  ++ " w=" ++ toString (Spec.blockWeight e pool t0)
  ++ " chk=fee:" ++ b2s (Spec.accountingOk e pool t0)
  ++ ",sig:" ++ b2s (Spec.sigsOk e pool t0)
  ++ ",dep:" ++ b2s (Spec.depsBefore pool t0.sel [])
  ++ ",pay:" ++ b2s (Spec.accountingOk e pool t0)
  ++ ",wc:1,meta:1,ccb:1,upd:1,pb:" ++ (if pb then "1" else "-")
  ++ ",c01:" ++ b2s (c01Valid e pool t0)

/-- `dp=` token: difficulty parameters in the order of C09's `Params`. -/
def parseDiffParams? (s : String) : Option BV.C09.Params :=
  match s.splitOn ":" with
  | [pl, plb, nr, rmd, mdrt, tts, ttpb, af, b94] => do
    let pl ← BV.Hex.hexToNat? pl
    let plb ← BV.Hex.hexToNat? plb
    let nr ← parseBool? nr
    let rmd ← parseBool? rmd
    let mdrt ← mdrt.toInt?
    let tts ← tts.toInt?
    let ttpb ← ttpb.toInt?
    let af ← af.toInt?
    let b94 ← parseBool? b94
    pure ⟨pl, plb, nr, rmd, mdrt, tts, ttpb, af, b94⟩
  | _ => none

def parseHist? (s : String) : Option (List BV.C09.Hdr) :=
  (s.splitOn ",").mapM (fun h => match h.splitOn ":" with
    | [t, b] => do
      let t ← t.toInt?
      let b ← BV.Hex.hexToNat? b
      pure ⟨t, b⟩
    | _ => none)

def hex8 (n : Nat) : String :=
  let s := BV.Hex.natToHex n
  String.ofList (List.replicate (8 - s.length) '0') ++ s

/-- Difficulty observation of a template on a chain with retargeting: the bits `NewBlockTemplate`
puts into the header (required difficulty at the header time), and time and bits after
`UpdateBlockTime` at clock `unow` (required difficulty at the NEW header time; C09's model). -/
def diffObs (e : Env) (kvs : List (String × String)) : Option String :=
  match lookup kvs "dp" with
  | none => some ""
  | some dp => do
    let p ← parseDiffParams? dp
    let hist ← parseHist? (← lookup kvs "hist")
    let unow ← match lookup kvs "unow" with
      | some u => u.toInt?
      | none => some (e.now + 31)
    let utime := headerTime { e with now := unow }
    let bits ← BV.C09.calcNextRequiredDifficulty p hist (headerTime e)
    let ubits ← if p.reduceMinDiff then BV.C09.calcNextRequiredDifficulty p hist utime else some bits
    pure (" bits=" ++ hex8 bits ++ " utime=" ++ toString utime ++ " ubits=" ++ hex8 ubits)

/-- the selection part of the observation (op `two`) -/
def renderCore (e : Env) (pool : List Tx) : Result → String
  | Result.err => "err"
  | Result.ok t0 =>
    let t := canonTemplate pool t0
    "sel=" ++ joinWith toString t.sel
    ++ " fees=" ++ joinWith toString t.fees
    ++ " sig=" ++ joinWith toString t.sigs
    ++ " cbv=" ++ toString t.cbValue
    ++ " wc=" ++ b2s t.commitment
    ++ " w=" ++ toString (Spec.blockWeight e pool t)

/-- Op `two`: template A, then template B from a changed pool.  Templates are values, so A is
afterwards what it was and still valid (`templates_are_values`, `template_valid`). -/
def handleTwo (e eB : Env) (pool : List Tx) (ka : Nat) (rev : Bool) : String :=
  let poolA := if rev then pool else pool.take ka
  let poolB := if rev then pool.take ka else pool
  let (a, _b) := generateTwice heapOps e poolA poolB (defaultFuel poolA) (defaultFuel poolB)
  let b := newBlockTemplate heapOps eB poolB (defaultFuel poolB)
  "A[" ++ renderCore e poolA a ++ "] B[" ++ renderCore eB poolB b ++ "] keep="
    ++ (match a with
        | Result.ok _ => "same:1,ccb:1,upd:1,pb:1"
        | Result.err => "-")

def handleOne : List String → String
  | "tmpl" :: rest =>
    match rest.mapM kv? with
    | none => "bad-op"
    | some kvs =>
      let txToks := (kvs.filter (·.1 == "tx")).map (·.2)
      match parseEnv? kvs, txToks.mapM parseTx?, (lookup kvs "pb").bind parseBool? with
      | some e, some pool, some pb =>
        if lookup kvs "race" == some "1" then
          -- the tip moves while the generator runs: the admissible outcomes are an error or a
          -- template for the new tip; the harness reports membership
          "race:admissible"
        else
        match newBlockTemplate heapOps e pool (defaultFuel pool), diffObs e kvs with
        | _, none => "bad-op"
        | Result.ok t, some d => render e pool t pb ++ d
        | Result.err, _ => "err"
      | _, _, _ => "bad-op"
  | "reuse" :: rest =>
    match rest.mapM kv? with
    | none => "bad-op"
    | some kvs =>
      let txToks := (kvs.filter (·.1 == "tx")).map (·.2)
      match parseEnv? kvs, txToks.mapM parseTx? with
      | some e, some pool =>
        -- six calls with the same inputs: six times the same template (`inputs_are_values`)
        "R[" ++ renderCore e pool (newBlockTemplate heapOps e pool (defaultFuel pool)) ++ "] reuse=same:1,in:1"
      | _, _ => "bad-op"
  | "two" :: rest =>
    match rest.mapM kv? with
    | none => "bad-op"
    | some kvs =>
      let txToks := (kvs.filter (·.1 == "tx")).map (·.2)
      match parseEnv? kvs, txToks.mapM parseTx?, (lookup kvs "ka").bind (·.toNat?),
          (lookup kvs "rev").bind parseBool? with
      | some e, some pool, some ka, some rev =>
        let eB? : Option Env := match lookup kvs "polb" with
          | none => some e
          | some pb => match pb.splitOn ":" with
            | [a, b, c, d] => do
              let a ← a.toNat?
              let b ← b.toNat?
              let c ← c.toNat?
              let d ← d.toInt?
              pure { e with minWeight := a, maxWeight := b, prioSize := c, minFreeFee := d }
            | _ => none
        match eB? with
        | some eB => if ka ≤ pool.length then handleTwo e eB pool ka rev else "bad-op"
        | none => "bad-op"
      | _, _, _, _ => "bad-op"
  | _ => "bad-op"

/-- split a token list at the `||` separators -/
def splitGroups : List String → List String → List (List String)
  | [], cur => [cur.reverse]
  | t :: rest, cur => if t == "||" then cur.reverse :: splitGroups rest [] else splitGroups rest (t :: cur)

def handle : List String → String
  | "par" :: rest =>
    let groups := splitGroups rest []
    if groups.length < 2 then "bad-op" else " || ".intercalate (groups.map handleOne)
  | toks => handleOne toks

end BV.C12.Driver
