import BV.Common.Loop
import BV.C12.Driver
/-! `drv_c12`: one case per input line `C12 <op> <args…>`, one canonical result line back.
Imports only core-only modules so that it links as a native executable. -/
def main : IO Unit := BV.Loop.run "C12" BV.C12.Driver.handle
