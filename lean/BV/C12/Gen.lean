/- C12: `NewBlockTemplate` = selection (Model) followed by the generator's final self-check against
the consensus rules (`CheckConnectBlockTemplate`, Spec.blockValid). Core-only. -/
import BV.C12.Model
import BV.C12.Spec
namespace BV.C12

inductive Result where
  | ok (t : Template)
  | err
  deriving Repr, DecidableEq

def newBlockTemplate {Q : Type} (ops : QueueOps Q) (e : Env) (pool : List Tx) (fuel : Nat) : Result :=
  let c := candidate ops e pool fuel
  if Spec.blockValid e pool c then Result.ok c else Result.err

end BV.C12
