/- C12: `NewBlockTemplate` = selection (Model) followed by the generator's final self-check against
the consensus rules (`CheckConnectBlockTemplate`, Spec.blockValid). Core-only. -/
import BV.C12.Model
import BV.C12.Spec
namespace BV.C12

inductive Result where
  | ok (t : Template)
  | err
  deriving Repr, DecidableEq

def newBlockTemplate {Q : Type} (ops : QueueOps Q) (e : Env) (pool : List Tx) (fuel : Nat) : Result :=
  let c := candidate ops e pool fuel
  if Spec.blockValid e pool c then Result.ok c else Result.err

/-- Two generator calls in a row: the first template is handed out, the pool changes, the second
template is generated.  The pair is what the caller holds afterwards. -/
def generateTwice {Q : Type} (ops : QueueOps Q) (e : Env) (poolA poolB : List Tx) (fuelA fuelB : Nat) :
    Result × Result :=
  let a := newBlockTemplate ops e poolA fuelA
  let b := newBlockTemplate ops e poolB fuelB
  (a, b)

end BV.C12
