/- C12 composition: `Spec.blockValid` of a template implies every consensus rule of C01 on the
template's block description. Core-only. -/
import BV.C12.Compose
namespace BV.C12
open Spec

theorem sumInt_eq_sum (l : List Int) : C01.sumInt l = l.sum := by
  induction l with
  | nil => rfl
  | cons a rest ih =>
    have : C01.sumInt (a :: rest) = a + C01.sumInt rest := rfl
    rw [this, ih, List.sum_cons]

theorem mem_le_sum : ∀ (l : List Nat) (x : Nat), x ∈ l → x ≤ l.sum := by
  intro l
  induction l with
  | nil => intro x hx; cases hx
  | cons a rest ih =>
    intro x hx
    rw [List.sum_cons]
    rcases List.mem_cons.1 hx with h | h
    · omega
    · have := ih x h; omega

theorem max_money_eq : C01.MAX_MONEY = (MAX_SATOSHI : Int) := by decide

/-- source data of an available input agrees with what the model's BIP68 check reads off the input -/
theorem src_matches {e : Env} {pool : List Tx} (hp : PoolOk pool) {t : Tx} (ht : t ∈ pool) {i : Inp}
    (hi : i ∈ t.ins) {earlier : List Nat} {s : Src} (hs : srcOf e pool earlier i.op = some s) :
    (match i.chain with
      | some c => ((c.height, c.mtpPrev) : Int × Int)
      | none => (e.nextHeight, e.mtp)) = (s.height, s.prevMtp) := by
  cases hop : i.op with
  | p j k =>
    have hcn : i.chain = none := by
      cases hc : i.chain with
      | none => rfl
      | some c =>
        have := hp.chainOnlyU t ht i hi (by simp [hc])
        rw [hop] at this; simp [isWorldOutput] at this
    rw [hop] at hs
    simp only [srcOf] at hs
    rw [hcn]
    by_cases hc : earlier.contains j = true
    · simp only [hc, if_true] at hs
      cases hpj : pool[j]? with
      | none => simp [hpj] at hs
      | some pt =>
        simp only [hpj] at hs
        cases ho : pt.outs[k]? with
        | none => simp [ho] at hs
        | some o =>
          simp only [ho] at hs
          by_cases hsp : o.spendable = true
          · simp only [hsp, if_true] at hs
            injection hs with hs
            rw [← hs]
          · simp [hsp] at hs
    · exfalso
      simp at hs
      apply hc
      simpa using hs.1
  | u k =>
    rw [hop] at hs
    simp only [srcOf] at hs
    cases hg : chainGet pool (OutPoint.u k) with
    | none => simp [hg] at hs
    | some c =>
      simp only [hg, Option.map_some] at hs
      injection hs with hs
      rcases chainGet_some_exists hg with ⟨t', ht', i', hi', ho', hc'⟩
      have := hp.consistent t ht t' ht' i hi i' hi' (by rw [hop, ho'])
      rw [this, hc', ← hs]
  | x k =>
    rw [hop] at hs
    simp only [srcOf] at hs
    cases hg : chainGet pool (OutPoint.x k) with
    | none => simp [hg] at hs
    | some c =>
      simp only [hg, Option.map_some] at hs
      injection hs with hs
      rcases chainGet_some_exists hg with ⟨t', ht', i', hi', ho', hc'⟩
      have := hp.consistent t ht t' ht' i hi i' hi' (by rw [hop, ho'])
      rw [this, hc', ← hs]
  | null =>
    rw [hop, srcOf_null e hp earlier] at hs
    cases hs

theorem src_matches' {e : Env} {pool : List Tx} (hp : PoolOk pool) {t : Tx} (ht : t ∈ pool) {i : Inp}
    (hi : i ∈ t.ins) {earlier : List Nat} {s : Src} (hs : srcOf e pool earlier i.op = some s) :
    (∀ c, i.chain = some c → c.height = s.height ∧ c.mtpPrev = s.prevMtp)
    ∧ (i.chain = none → e.nextHeight = s.height ∧ e.mtp = s.prevMtp) := by
  have h := src_matches hp ht hi hs
  constructor
  · intro c hc
    rw [hc] at h
    simp only at h
    exact ⟨congrArg Prod.fst h, congrArg Prod.snd h⟩
  · intro hc
    rw [hc] at h
    simp only at h
    exact ⟨congrArg Prod.fst h, congrArg Prod.snd h⟩

/-- the subsidy of C01's coinbase rule is the generator's (and C09's `calcBlockSubsidy`) -/
theorem c01_subsidy_eq (e : Env) : C01.subsidy e.nextHeight e.halving = (subsidy e : Int) := by
  unfold C01.subsidy subsidy
  by_cases h0 : e.halving = 0
  · simp [h0, C01.BASE_SUBSIDY, BASE_SUBSIDY]
  · simp only [h0, if_false]
    by_cases hq : Int.tdiv e.nextHeight e.halving < 0
    · simp [hq]
    · simp only [hq, if_false]
      by_cases h64 : Int.tdiv e.nextHeight e.halving ≥ 64
      · have : (Int.tdiv e.nextHeight e.halving).toNat ≥ 64 := by omega
        simp [h64, this]
      · have : ¬ (Int.tdiv e.nextHeight e.halving).toNat ≥ 64 := by omega
        simp only [h64, this, if_false]
        rw [Nat.shiftRight_eq_div_pow]
        simp [C01.BASE_SUBSIDY, BASE_SUBSIDY]

theorem seqLocks_transfer {e : Env} {pool : List Tx} (hp : PoolOk pool) (sh : Shell) (hcs : e.csv = true)
    {t : Tx} (htp : t ∈ pool) {tf : C01.TxFacts} {total : Nat} {earlier : List Nat} {j : Nat}
    (hok : TxOk e tf t total) (heq : tf = txFacts e pool sh earlier j t)
    (hstep : StepOk e pool earlier t total) (hmine : seqLocksOk e t = true) :
    tf.seqLocksOk e.nextHeight e.mtp = true := by
  rcases inputsValue_src e pool earlier t.ins total hstep.value with ⟨hsrc, _⟩
  unfold C01.TxFacts.seqLocksOk
  by_cases hver : t.version < 2
  · have : tf.version < 2 := by rw [heq]; exact hver
    simp [this]
  · have hcbm : isCoinbase t = false := by
      cases hcb : isCoinbase t with
      | false => rfl
      | true =>
        exfalso
        unfold isCoinbase at hcb
        cases hl : t.ins with
        | nil => rw [hl] at hcb; cases hcb
        | cons i rest =>
          cases rest with
          | nil =>
            rw [hl] at hcb
            simp only at hcb
            have hf : inFacts e pool sh earlier j t i ∈ tf.ins := by
              rw [heq]; simp [txFacts, hl]
            have := (hok.ins _ hf).1
            simp [inFacts] at this
            simp at hcb
            exact this hcb
          | cons i2 r => rw [hl] at hcb; cases hcb
    unfold seqLocksOk at hmine
    simp only [hcs, hver, hcbm, Bool.not_true, decide_false, Bool.or_false, Bool.false_eq_true, if_false,
      Bool.and_eq_true, decide_eq_true_eq, List.all_eq_true] at hmine
    obtain ⟨_, hall⟩ := hmine
    have hins : tf.ins.all (fun i => i.null || !i.avail || i.seqLockOk e.nextHeight e.mtp) = true := by
      rw [List.all_eq_true]
      intro f hf
      rw [heq] at hf
      simp only [txFacts, List.mem_map] at hf
      rcases hf with ⟨i, hi, rfl⟩
      rcases hsrc i hi with ⟨s, hs1, _, _⟩
      have hm := src_matches' hp htp hi hs1
      have hmi := hall i hi
      have hseq : C01.InFacts.seqLockOk (inFacts e pool sh earlier j t i) e.nextHeight e.mtp = true := by
        unfold C01.InFacts.seqLockOk
        have c1 : C01.SEQ_LOCKTIME_DISABLE = SEQ_DISABLED := by decide
        have c2 : C01.SEQ_LOCKTIME_TYPE = SEQ_IS_SECONDS := by decide
        have c3 : C01.SEQ_LOCKTIME_MASK + 1 = SEQ_MASK := by decide
        have c4 : (2 : Int) ^ C01.SEQ_LOCKTIME_GRANULARITY = (SEQ_GRANULARITY : Int) := by decide
        simp only [inFacts, hs1, c1, c2, c3, c4]
        by_cases hd : i.sequence / SEQ_DISABLED % 2 = 1
        · simp [hd]
        · simp only [hd, if_false] at hmi ⊢
          cases hch : i.chain with
          | some c =>
            rcases hm.1 c hch with ⟨e1, e2⟩
            simp only [hch] at hmi
            rw [← e1, ← e2]
            exact hmi
          | none =>
            rcases hm.2 hch with ⟨e1, e2⟩
            simp only [hch] at hmi
            rw [← e1, ← e2]
            exact hmi
      simp [hseq]
    simp [hins]

theorem cons_all {α : Type} (p : α → Bool) (a : α) (l : List α) (ha : p a = true) (hl : ∀ x ∈ l, p x = true) :
    (a :: l).all p = true := by
  rw [List.all_eq_true]
  intro x hx
  rcases List.mem_cons.1 hx with h | h
  · rw [h]; exact ha
  · exact hl x h

theorem nonCb_all (cb : C01.TxFacts) (l : List C01.TxFacts) (hcb : cb.isCoinbase = true)
    (q : C01.TxFacts → Bool) (hl : ∀ x ∈ l, q x = true) :
    ((cb :: l).filter (fun t => !t.isCoinbase)).all q = true := by
  rw [List.all_eq_true]
  intro x hx
  rcases List.mem_filter.1 hx with ⟨hm, hn⟩
  rcases List.mem_cons.1 hm with h | h
  · rw [h, hcb] at hn; cases hn
  · exact hl x h

/-- **Composition with C01.**  A template that satisfies `Spec.blockValid` satisfies EVERY consensus
rule of C01 (`C01.Valid`) on its block description, given the facts outside the selection
(`ShellOk`: proof of work solved, bits as required, merkle root and sizes as computed by C13, the
coinbase's own shape, …), pool well-formedness and transaction sanity. -/
theorem blockValid_c01 {e : Env} {pool : List Tx} {tpl : Template} {sh : Shell} (hp : PoolOk pool)
    (hshape : ShapeOk pool) (hs : ShellOk e pool tpl sh) (hv : blockValid e pool tpl = true) :
    C01.Valid (descOf e pool tpl sh) := by
  unfold blockValid at hv
  simp only [Bool.and_eq_true, List.all_eq_true, decide_eq_true_eq] at hv
  obtain ⟨⟨⟨⟨⟨⟨⟨⟨⟨⟨⟨⟨h1, h2⟩, h3⟩, h4⟩, h5⟩, h6⟩, h7⟩, h8⟩, h9⟩, h10⟩, h11⟩, h12⟩, h13⟩ := hv
  cases hc : connect e pool tpl.sel with
  | none => simp [hc] at h5
  | some fees =>
  simp only [hc, decide_eq_true_eq] at h5
  unfold connect at hc
  cases hf : tpl.sel.foldlM (connectStep e pool) ([], []) with
  | none => simp [hf] at hc
  | some st' =>
  simp only [hf, Option.map_some, Option.some.injEq] at hc
  rcases txFactsList_connect hp sh tpl.sel [] [] st' hf with ⟨hA, hB⟩
  have hT : ∀ tf ∈ txFactsList e pool sh tpl.sel [], ∃ j t earlier total, pool[j]? = some t ∧ t ∈ pool
      ∧ t ∈ txsOf pool tpl.sel ∧ tf = txFacts e pool sh earlier j t ∧ TxOk e tf t total
      ∧ StepOk e pool earlier t total := by
    intro tf htf
    rcases hA tf htf with ⟨j, t, earlier, total, hj, hpj, heq, hok⟩
    refine ⟨j, t, earlier, total, hpj, mem_of_getElem? hpj, ?_, heq, ?_, hok⟩
    · simp only [txsOf, List.mem_filterMap]; exact ⟨j, hj, hpj⟩
    · rw [heq]; exact txFacts_ok hp sh hpj hok
  have hcsv : (descOf e pool tpl sh).csv = e.csv := hs.csv
  have hseg : (descOf e pool tpl sh).segwit = e.segwit := hs.seg
  intro r
  by_cases hout : r ∈ outsideRules
  · exact hs.outside r hout
  cases r with
  | powTarget | powHash | bits | timewarp | version | baseSize | txTooBig | cbScriptLen | merkle | dupTx
    | sigopsLegacy | bip34Height | bip30 | feeRange => exact absurd (by decide) hout
  | timeOld =>
    show decide (e.mtp < headerTime e) = true
    simpa using h12
  | timeNew =>
    show decide (headerTime e ≤ e.now + C01.MAX_FUTURE_BLOCK_TIME) = true
    have : C01.MAX_FUTURE_BLOCK_TIME = MAX_TIME_OFFSET := by decide
    rw [this]; simpa using h13
  | noTx => rfl
  | weight =>
    show (!(descOf e pool tpl sh).segwit || decide ((descOf e pool tpl sh).weight ≤ C01.MAX_BLOCK_WEIGHT)) = true
    have hw : (descOf e pool tpl sh).weight = (Spec.blockWeight e pool tpl : Int) := by
      show sh.strippedSize * (C01.WITNESS_SCALE_FACTOR - 1) + sh.totalSize = _
      have : C01.WITNESS_SCALE_FACTOR - 1 = 3 := by decide
      rw [this]; exact hs.weightEq
    have hm : C01.MAX_BLOCK_WEIGHT = (MAX_BLOCK_WEIGHT : Int) := by decide
    rw [hw, hm]
    have : ((Spec.blockWeight e pool tpl : Nat) : Int) ≤ (MAX_BLOCK_WEIGHT : Int) := by omega
    simp [this]
  | firstCoinbase => exact hs.cbIsCb
  | multiCoinbase =>
    show (txFactsList e pool sh tpl.sel []).all (fun t => !t.isCoinbase) = true
    rw [List.all_eq_true]
    intro tf htf
    rcases hT tf htf with ⟨j, t, earlier, total, _, _, _, _, hok, _⟩
    simp [hok.notCb]
  | txNoInputs =>
    show (sh.cb :: txFactsList e pool sh tpl.sel []).all (fun t => !t.ins.isEmpty) = true
    apply cons_all
    · have := hs.cbIsCb
      unfold C01.TxFacts.isCoinbase at this
      cases hl : sh.cb.ins with
      | nil => rw [hl] at this; cases this
      | cons a r => rfl
    · intro tf htf
      rcases hT tf htf with ⟨j, t, earlier, total, _, htp, _, heq, _, _⟩
      have := hp.insNonempty t htp
      rw [heq]
      cases hl : t.ins with
      | nil => exact absurd hl this
      | cons a r => simp [txFacts, hl]
  | txNoOutputs =>
    show (sh.cb :: txFactsList e pool sh tpl.sel []).all (fun t => !t.outs.isEmpty) = true
    apply cons_all
    · cases hl : sh.cb.outs with
      | nil => exact absurd hl hs.cbOuts.1
      | cons a r => rfl
    · intro tf htf
      rcases hT tf htf with ⟨j, t, earlier, total, _, htp, _, heq, _, _⟩
      have := hshape.outsNonempty t htp
      rw [heq]
      cases hl : t.outs with
      | nil => exact absurd hl this
      | cons a r => simp [txFacts, hl]
  | outValue =>
    show (sh.cb :: txFactsList e pool sh tpl.sel []).all (fun t => t.outs.all C01.moneyRange && C01.moneyRange t.outSum) = true
    apply cons_all
    · simp [hs.cbOuts.2.1, hs.cbOuts.2.2]
    · intro tf htf
      rcases hT tf htf with ⟨j, t, earlier, total, _, htp, _, heq, hok, hstep⟩
      have hr := hstep.range
      have hcv := hstep.covers
      have hos := hok.outSum
      simp only [Bool.and_eq_true, List.all_eq_true]
      constructor
      · intro v hvm
        rw [heq] at hvm
        simp only [txFacts, List.mem_map] at hvm
        rcases hvm with ⟨o, ho, rfl⟩
        have hle : o.value ≤ sumOuts t := by
          unfold sumOuts
          exact mem_le_sum _ _ (List.mem_map.2 ⟨o, ho, rfl⟩)
        unfold C01.moneyRange
        rw [max_money_eq]
        have : ((o.value : Nat) : Int) ≤ (MAX_SATOSHI : Int) := by omega
        simp [this]
      · unfold C01.moneyRange
        rw [hos, max_money_eq]
        have : ((sumOuts t : Nat) : Int) ≤ (MAX_SATOSHI : Int) := by omega
        simp [this]
  | dupInputs =>
    show (sh.cb :: txFactsList e pool sh tpl.sel []).all (fun t => !t.dupInputs) = true
    apply cons_all
    · simp [hs.cbNoDup]
    · intro tf htf
      rcases hT tf htf with ⟨j, t, earlier, total, _, htp, _, heq, _, hstep⟩
      rw [heq]
      simp [txFacts, hstep.nodup]
  | nullPrevout =>
    show ((sh.cb :: txFactsList e pool sh tpl.sel []).filter (fun t => !t.isCoinbase)).all (fun t => t.ins.all (fun i => !i.null)) = true
    apply nonCb_all _ _ hs.cbIsCb
    intro tf htf
    rcases hT tf htf with ⟨j, t, earlier, total, _, _, _, _, hok, _⟩
    rw [List.all_eq_true]
    intro f hf
    simp [(hok.ins f hf).1]
  | sigopsCost =>
    show decide ((descOf e pool tpl sh).sigopCost ≤ C01.MAX_BLOCK_SIGOPS_COST) = true
    rw [hs.sigEq]
    have hm : C01.MAX_BLOCK_SIGOPS_COST = (MAX_BLOCK_SIGOPS_COST : Int) := by decide
    rw [hm]
    have : ((Spec.sigOpCost e pool tpl : Nat) : Int) ≤ (MAX_BLOCK_SIGOPS_COST : Int) := by omega
    simp [this]
  | finality =>
    have hcut : (descOf e pool tpl sh).lockCutoff = consensusClock e := by
      unfold C01.Desc.lockCutoff consensusClock
      rw [hcsv]; rfl
    show (sh.cb :: txFactsList e pool sh tpl.sel []).all (fun t => t.final e.nextHeight (descOf e pool tpl sh).lockCutoff) = true
    apply cons_all
    · show sh.cb.final e.nextHeight (descOf e pool tpl sh).lockCutoff = true
      rw [hcut]; exact hs.cbFinal
    · intro tf htf
      rcases hT tf htf with ⟨j, t, earlier, total, _, htp, htx, heq, _, _⟩
      have hfin := h4 t htx
      have hflag := hshape.seqFlag t htp
      show tf.final e.nextHeight (descOf e pool tpl sh).lockCutoff = true
      rw [hcut, heq]
      unfold isFinalized at hfin
      unfold C01.TxFacts.final
      simp only [txFacts]
      by_cases h0 : t.lockTime = 0
      · simp [h0]
      · simp only [h0, if_false] at hfin
        have hth : C01.LOCKTIME_THRESHOLD = (LOCKTIME_THRESHOLD : Int) := by decide
        rw [hth]
        by_cases hlt : (t.lockTime : Int) < (if t.lockTime < LOCKTIME_THRESHOLD then e.nextHeight else consensusClock e)
        · simp [hlt]
        · simp only [hlt, if_false] at hfin
          rw [hflag] at hfin
          have : (t.ins.map (inFacts e pool sh earlier j t)).all (fun i => decide (i.seq = C01.SEQUENCE_FINAL)) = true := by
            rw [List.all_map]
            rw [List.all_eq_true] at hfin ⊢
            intro i hi
            simpa [inFacts] using hfin i hi
          simp [this]
  | witnessCommit =>
    show (!(descOf e pool tpl sh).segwit || decide ((if tpl.commitment then 1 else 0 : Nat) ≠ 2)) = true
    by_cases hcm : tpl.commitment = true <;> simp [hcm]
  | unexpectedWitness =>
    show (((descOf e pool tpl sh).segwit && decide ((if tpl.commitment then 1 else 0 : Nat) ≠ 0))
      || (sh.cb :: txFactsList e pool sh tpl.sel []).all (fun t => !t.hasWitness)) = true
    rw [hseg]
    cases hcm : tpl.commitment with
    | true => simp [hs.commitSeg hcm]
    | false =>
      have hall : (sh.cb :: txFactsList e pool sh tpl.sel []).all (fun t => !t.hasWitness) = true := by
        apply cons_all
        · rw [hs.cbWitness, hcm]; rfl
        · intro tf htf
          rcases hT tf htf with ⟨j, t, earlier, total, _, _, htx, heq, _, _⟩
          have h10' : tpl.commitment = true ∨ ((txsOf pool tpl.sel).all fun t => !t.hasWitness) = true := by
            simpa [Bool.or_eq_true] using h10
          rcases h10' with hh | hh
          · rw [hcm] at hh; cases hh
          · have := (List.all_eq_true.1 hh) t htx
            rw [heq]; simpa [txFacts] using this
      simp [hall]
  | missingInput =>
    show ((sh.cb :: txFactsList e pool sh tpl.sel []).filter (fun t => !t.isCoinbase)).all (fun t => t.ins.all (fun i => i.null || i.avail)) = true
    apply nonCb_all _ _ hs.cbIsCb
    intro tf htf
    rcases hT tf htf with ⟨j, t, earlier, total, _, _, _, _, hok, _⟩
    rw [List.all_eq_true]
    intro f hf
    simp [(hok.ins f hf).2.1]
  | immature =>
    show ((sh.cb :: txFactsList e pool sh tpl.sel []).filter (fun t => !t.isCoinbase)).all (fun t => t.ins.all (fun i =>
      !(i.avail && i.isCb) || decide (sh.P.maturity ≤ e.nextHeight - i.originHeight))) = true
    apply nonCb_all _ _ hs.cbIsCb
    intro tf htf
    rcases hT tf htf with ⟨j, t, earlier, total, _, _, _, _, hok, _⟩
    rw [List.all_eq_true]
    intro f hf
    rcases hok.ins f hf with ⟨_, hav, hmat, _, _⟩
    show (!(f.avail && f.isCb) || decide (sh.P.maturity ≤ e.nextHeight - f.originHeight)) = true
    rw [hs.maturity]
    cases hcb : f.isCb with
    | false => simp
    | true =>
      have := hmat hcb
      have h2 : e.maturity ≤ e.nextHeight - f.originHeight := by omega
      simp [h2]
  | inValue =>
    show ((sh.cb :: txFactsList e pool sh tpl.sel []).filter (fun t => !t.isCoinbase)).all (fun t => !t.allAvail || (t.ins.all (fun i => C01.moneyRange i.amount) && C01.moneyRange t.inSum)) = true
    apply nonCb_all _ _ hs.cbIsCb
    intro tf htf
    rcases hT tf htf with ⟨j, t, earlier, total, _, _, _, _, hok, hstep⟩
    have hr := hstep.range
    have hall : tf.ins.all (fun i => C01.moneyRange i.amount) = true := by
      rw [List.all_eq_true]
      intro f hf
      rcases hok.ins f hf with ⟨_, _, _, h0, hle⟩
      unfold C01.moneyRange
      rw [max_money_eq]
      have : f.amount ≤ (MAX_SATOSHI : Int) := by omega
      simp [h0, this]
    have hsum : C01.moneyRange tf.inSum = true := by
      unfold C01.moneyRange
      rw [hok.inSum, max_money_eq]
      have : ((total : Nat) : Int) ≤ (MAX_SATOSHI : Int) := by omega
      simp [this]
    simp [hall, hsum]
  | spendTooHigh =>
    show ((sh.cb :: txFactsList e pool sh tpl.sel []).filter (fun t => !t.isCoinbase)).all (fun t => !t.allAvail || decide (t.outSum ≤ t.inSum)) = true
    apply nonCb_all _ _ hs.cbIsCb
    intro tf htf
    rcases hT tf htf with ⟨j, t, earlier, total, _, _, _, _, hok, hstep⟩
    have := hstep.covers
    rw [hok.inSum, hok.outSum]
    have h2 : ((sumOuts t : Nat) : Int) ≤ ((total : Nat) : Int) := by omega
    simp [h2]
  | coinbaseValue =>
    show decide (sh.cb.outSum ≤ C01.subsidy e.nextHeight sh.P.subsidyInterval
      + C01.sumInt ((sh.cb :: txFactsList e pool sh tpl.sel []).map (·.fee))) = true
    have hcbfee : sh.cb.fee = 0 := by unfold C01.TxFacts.fee; simp [hs.cbIsCb]
    have hsumfee : C01.sumInt ((sh.cb :: txFactsList e pool sh tpl.sel []).map (·.fee))
        = C01.sumInt ((txFactsList e pool sh tpl.sel []).map (·.fee)) := by
      have : C01.sumInt ((sh.cb :: txFactsList e pool sh tpl.sel []).map (·.fee))
          = sh.cb.fee + C01.sumInt ((txFactsList e pool sh tpl.sel []).map (·.fee)) := rfl
      rw [this, hcbfee]; omega
    have hB' : C01.sumInt ((txFactsList e pool sh tpl.sel []).map (·.fee)) = fees.sum := by
      have h0 : C01.sumInt ([] : List Int) = 0 := rfl
      rw [h0] at hB
      rw [← hc, ← sumInt_eq_sum]
      omega
    have hsub : C01.subsidy e.nextHeight sh.P.subsidyInterval = (subsidy e : Int) := by
      rw [hs.interval]
      exact c01_subsidy_eq e
    rw [hsumfee, hB', hsub, hs.cbValue]
    simpa using h5
  | seqLocks =>
    show (!(descOf e pool tpl sh).csv
      || (sh.cb :: txFactsList e pool sh tpl.sel []).all (fun t => t.seqLocksOk e.nextHeight e.mtp)) = true
    rw [hcsv]
    cases hcs : e.csv with
    | false => rfl
    | true =>
      simp only [Bool.not_true, Bool.false_or]
      apply cons_all
      · unfold C01.TxFacts.seqLocksOk; simp [hs.cbIsCb]
      · intro tf htf
        rcases hT tf htf with ⟨j, t, earlier, total, hpj, htp, htx, heq, hok, hstep⟩
        have hmine := h11 t htx
        exact seqLocks_transfer hp sh hcs htp hok heq hstep hmine
  | scripts =>
    show ((sh.cb :: txFactsList e pool sh tpl.sel []).filter (fun t => !t.isCoinbase)).all (fun t => t.ins.all (fun i => i.null || !i.avail || i.scriptOk (descOf e pool tpl sh).flags)) = true
    apply nonCb_all _ _ hs.cbIsCb
    intro tf htf
    rcases hT tf htf with ⟨j, t, earlier, total, _, _, htx, heq, _, _⟩
    have hso := h6 t htx
    rw [List.all_eq_true]
    intro f hf
    rw [heq] at hf
    simp only [txFacts, List.mem_map] at hf
    rcases hf with ⟨i, _, rfl⟩
    simp [C01.InFacts.scriptOk, inFacts, hso]

end BV.C12
