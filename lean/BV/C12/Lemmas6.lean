/- C12 helper lemmas: the selection loop terminates within the driver's fuel (the final queue is
empty), for every queue with a size function that push/pop/reinit respect. Core-only. -/
import BV.C12.Lemmas4
namespace BV.C12

structure SizeLaw {Q : Type} (ops : QueueOps Q) where
  size : Q → Nat
  empty : size ops.empty = 0
  push : ∀ b q y, size (ops.push b q y) = size q + 1
  pop : ∀ b q y q', ops.pop b q = some (y, q') → size q = size q' + 1
  reinit : ∀ b q, size (ops.reinit b q) = size q

variable {Q : Type} {ops : QueueOps Q}

/-- termination measure of the selection loop -/
def mu (sz : SizeLaw ops) (s : St Q) : Nat :=
  2 * (sz.size s.queue + s.waiting.length) + (if s.byFee then 0 else 1)

theorem release_size (sz : SizeLaw ops) (byFee : Bool) (j : Nat) : ∀ (w : List Item) (q : Q),
    sz.size (release ops byFee j w q).2 + (release ops byFee j w q).1.length = sz.size q + w.length := by
  intro w
  induction w with
  | nil => intro q; simp [release]
  | cons it rest ih =>
    intro q
    unfold release
    by_cases hc : it.dependsOn.contains j = true
    · rw [if_pos hc]
      by_cases he : (it.dependsOn.filter (· ≠ j)).isEmpty = true
      · rw [if_pos he, ih, sz.push]
        simp only [List.length_cons]; omega
      · rw [if_neg he]
        have := ih q
        simp only [List.length_cons]; omega
    · rw [if_neg hc]
      have := ih q
      simp only [List.length_cons]; omega

theorem mu_commit (sz : SizeLaw ops) (e : Env) (s : St Q) (it : Item) (t : Tx) (a b c : Nat) :
    mu sz (commitTx ops e s it t a b c) = mu sz s := by
  unfold mu commitTx
  simp only
  have := release_size sz s.byFee it.idx s.waiting s.queue
  omega

theorem mu_switch (sz : SizeLaw ops) (s : St Q) (h : s.byFee = false) :
    mu sz (switchSt ops s) + 1 = mu sz s := by
  unfold mu switchSt
  simp [sz.reinit, h]

theorem mu_selectCore (sz : SizeLaw ops) (e : Env) (s : St Q) (it : Item) (t : Tx) (r bpw cost : Nat) :
    mu sz (selectCore ops e s it t r bpw cost) ≤ mu sz s + 1 := by
  unfold selectCore
  by_cases c2 : (decide (bpw < s.blockWeight) || decide (bpw ≥ e.maxWeight)) = true
  · simp only [c2, if_true]; omega
  · simp only [c2, Bool.false_eq_true, if_false]
    by_cases c3 : s.sigCost + cost > MAX_BLOCK_SIGOPS_COST
    · simp only [c3, if_true]; omega
    · simp only [c3, Bool.false_eq_true, if_false]
      by_cases c4 : (s.byFee && decide (it.feePerKB < e.minFreeFee) && decide (bpw ≥ e.minWeight)) = true
      · simp only [c4, if_true]; omega
      · simp only [c4, Bool.false_eq_true, if_false]
        have hs1 : ∀ (s1 : St Q), mu sz s1 ≤ mu sz s →
            mu sz (if (!checkInputs s1.view e t) = true then s1
               else if (!t.scriptsOk) = true then s1
               else commitTx ops e s1 it t bpw cost r) ≤ mu sz s + 1 := by
          intro s1 h1
          by_cases c6 : (!checkInputs s1.view e t) = true
          · simp only [c6, if_true]; omega
          · simp only [c6, Bool.false_eq_true, if_false]
            by_cases c7 : (!t.scriptsOk) = true
            · simp only [c7, if_true]; omega
            · simp only [c7, Bool.false_eq_true, if_false]; rw [mu_commit]; omega
        by_cases csw : (!s.byFee && (decide (bpw ≥ e.prioSize) || decide (it.prio ≤ e.minHighPrio))) = true
        · have hbf : s.byFee = false := by
            cases hb : s.byFee with
            | false => rfl
            | true => simp [hb] at csw
          have hsw := mu_switch sz s hbf
          simp only [csw, if_true, Bool.true_and]
          by_cases c5 : (decide (bpw > e.prioSize) || decide (it.prio < e.minHighPrio)) = true
          · simp only [c5, if_true]
            show mu sz { switchSt ops s with queue := ops.push true (switchSt ops s).queue it } ≤ mu sz s + 1
            have : mu sz { switchSt ops s with queue := ops.push true (switchSt ops s).queue it }
                = mu sz (switchSt ops s) + 2 := by
              unfold mu
              simp only [sz.push]
              omega
            rw [this]
            omega
          · simp only [c5, Bool.false_eq_true, if_false]
            exact hs1 _ (by omega)
        · simp only [csw, Bool.false_and, Bool.false_eq_true, if_false]
          exact hs1 _ (Nat.le_refl _)

theorem mu_selectStep (sz : SizeLaw ops) (e : Env) (pool : List Tx) (s : St Q) (it : Item) :
    mu sz (selectStep ops e pool s it) ≤ mu sz s + 1 := by
  unfold selectStep
  cases hit : pool[it.idx]? with
  | none => simp only; omega
  | some t =>
    simp only
    by_cases c1 : (!e.segwit && t.hasWitness) = true
    · simp only [c1, if_true]; omega
    · simp only [c1, Bool.false_eq_true, if_false]
      exact mu_selectCore sz e s it t _ _ _

/-- With fuel ≥ the measure the loop runs until the queue is empty. -/
theorem selectLoop_done (sz : SizeLaw ops) (e : Env) (pool : List Tx) : ∀ (fuel : Nat) (s : St Q),
    mu sz s ≤ fuel →
      ops.pop (selectLoop ops e pool fuel s).byFee (selectLoop ops e pool fuel s).queue = none := by
  intro fuel
  induction fuel with
  | zero =>
    intro s h
    unfold selectLoop
    cases hp : ops.pop s.byFee s.queue with
    | none => rfl
    | some r =>
      obtain ⟨it, q⟩ := r
      have := sz.pop _ _ _ _ hp
      unfold mu at h
      omega
  | succ n ih =>
    intro s h
    unfold selectLoop
    cases hp : ops.pop s.byFee s.queue with
    | none => simp only; exact hp
    | some r =>
      obtain ⟨it, q⟩ := r
      simp only
      apply ih
      have h1 := sz.pop _ _ _ _ hp
      have h2 := mu_selectStep sz e pool { s with queue := q } it
      have h3 : mu sz { s with queue := q } + 2 = mu sz s := by
        unfold mu; simp only; omega
      omega

/-! ### the first pass queues at most one item per transaction -/

theorem prepStep_size (sz : SizeLaw ops) (e : Env) (n : Nat) (byFee : Bool) (p : Prep Q) (idx : Nat) (t : Tx) :
    sz.size (prepStep ops e n byFee p idx t).queue + (prepStep ops e n byFee p idx t).waiting.length
      ≤ sz.size p.queue + p.waiting.length + 1 := by
  unfold prepStep
  by_cases c1 : isCoinbase t = true
  · simp only [c1, if_true]; omega
  · simp only [c1, Bool.false_eq_true, if_false]
    by_cases c2 : (!isFinalized t e.nextHeight (templateClock e)) = true
    · simp only [c2, if_true]; omega
    · simp only [c2, Bool.false_eq_true, if_false]
      cases hsd : scanDeps n t.ins [] with
      | mk ok deps =>
        cases ok with
        | false =>
          simp only
          by_cases c3 : deps.isEmpty = true
          · simp only [c3, if_true]; omega
          · simp only [c3, Bool.false_eq_true, if_false]; simp only [List.length_append, List.length_cons, List.length_nil]; omega
        | true =>
          simp only
          by_cases c3 : deps.isEmpty = true
          · simp only [c3, if_true, sz.push]; omega
          · simp only [c3, Bool.false_eq_true, if_false]; simp only [List.length_append, List.length_cons, List.length_nil]; omega

theorem prepLoop_size (sz : SizeLaw ops) (e : Env) (n : Nat) (byFee : Bool) : ∀ (rest : List Tx) (p : Prep Q) (idx : Nat),
    sz.size (prepLoop ops e n byFee p idx rest).queue + (prepLoop ops e n byFee p idx rest).waiting.length
      ≤ sz.size p.queue + p.waiting.length + rest.length := by
  intro rest
  induction rest with
  | nil => intro p idx; simp [prepLoop]
  | cons t rest ih =>
    intro p idx
    unfold prepLoop
    have h1 := ih (prepStep ops e n byFee p idx t) (idx + 1)
    have h2 := prepStep_size sz e n byFee p idx t
    simp only [List.length_cons]
    omega

theorem runSelect_done (sz : SizeLaw ops) (e : Env) (pool : List Tx) (fuel : Nat)
    (hf : defaultFuel pool ≤ fuel) :
    ops.pop (runSelect ops e pool fuel).byFee (runSelect ops e pool fuel).queue = none := by
  unfold runSelect
  apply selectLoop_done sz
  have := prepLoop_size sz e pool.length (e.prioSize == 0) pool ⟨ops.empty, [], []⟩ 0
  simp only [sz.empty, List.length_nil] at this
  unfold defaultFuel at hf
  unfold mu initSt
  simp only
  split <;> omega

/-! ### container/heap -/

theorem length_swap (q : List Item) (i j : Nat) : (swap q i j).length = q.length := by
  unfold swap
  cases q[i]? <;> cases q[j]? <;> simp

theorem length_heapUp (byFee : Bool) : ∀ (fuel : Nat) (q : List Item) (j : Nat),
    (heapUp byFee fuel q j).length = q.length := by
  intro fuel
  induction fuel with
  | zero => intro q j; rfl
  | succ n ih =>
    intro q j
    unfold heapUp
    simp only
    split
    · rfl
    · rw [ih, length_swap]

theorem length_heapDown (byFee : Bool) : ∀ (fuel : Nat) (q : List Item) (i n : Nat),
    (heapDown byFee fuel q i n).length = q.length := by
  intro fuel
  induction fuel with
  | zero => intro q i n; rfl
  | succ k ih =>
    intro q i n
    unfold heapDown
    by_cases c1 : 2 * i + 1 ≥ n
    · simp only [c1, if_true]
    · simp only [c1, if_false]
      by_cases c2 : (!lessAt byFee q (pickChild byFee q (2 * i + 1) n) i) = true
      · simp only [c2, if_true]
      · simp only [c2, Bool.false_eq_true, if_false]
        rw [ih, length_swap]

theorem length_foldl_heapDown (byFee : Bool) (f n : Nat) : ∀ (l : List Nat) (q : List Item),
    (l.foldl (fun q i => heapDown byFee f q i n) q).length = q.length := by
  intro l
  induction l with
  | nil => intro q; rfl
  | cons a rest ih => intro q; simp only [List.foldl_cons]; rw [ih, length_heapDown]

def heapSize : SizeLaw heapOps where
  size := List.length
  empty := rfl
  push := by
    intro b q y
    show (heapPush b q y).length = q.length + 1
    unfold heapPush
    rw [length_heapUp]; simp
  pop := by
    intro b q y q' h
    show q.length = q'.length + 1
    have h : heapPop b q = some (y, q') := h
    unfold heapPop at h
    by_cases h0 : q.length = 0
    · simp [h0] at h
    · simp only [h0, if_false] at h
      cases hl : (heapDown b (q.length - 1 + 1) (swap q 0 (q.length - 1)) 0 (q.length - 1)).getLast? with
      | none => simp [hl] at h
      | some z =>
        simp only [hl] at h
        injection h with h
        injection h with _ h2
        rw [← h2, List.length_dropLast, length_heapDown, length_swap]
        omega
  reinit := by
    intro b q
    show (heapInit b q).length = q.length
    unfold heapInit
    exact length_foldl_heapDown b _ _ _ _

end BV.C12
