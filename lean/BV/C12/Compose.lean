/- C12 composition: the facts of a generated template as a C01 block description (`BV.C01.Desc`), so
that `Spec.blockValid` can be read as "C01's consensus rules hold".  Everything the generator decides
(selection, order, coinbase value, commitment presence, header time) is DERIVED here from the abstract
template; what lies outside the selection (proof of work, header version and bits, merkle root,
serialized sizes, the split of sigop costs, the coinbase's own shape) is a `Shell` of facts with
explicit hypotheses (`ShellOk`).  Core-only. -/
import BV.C12.Lemmas4
import BV.C01.Spec
namespace BV.C12
open Spec

/-- where an input's coins come from, for a transaction placed after `earlier` in the block -/
structure Src where
  amount : Nat
  isCb : Bool
  height : Int
  prevMtp : Int

def srcOf (e : Env) (pool : List Tx) (earlier : List Nat) : OutPoint → Option Src
  | OutPoint.p j i =>
    if earlier.contains j then
      match pool[j]? with
      | some pt => match pt.outs[i]? with
        | some o => if o.spendable then some ⟨o.value, false, e.nextHeight, e.mtp⟩ else none
        | none => none
      | none => none
    else none
  | op => (chainGet pool op).map (fun c => ⟨c.value, c.coinbase, c.height, c.mtpPrev⟩)

/-- facts outside the choice of transactions -/
structure Shell where
  P : C01.Params
  version : Int
  bits : Nat
  expectedBits : Nat
  target : Int
  hashNum : Nat
  prevTime : Int
  strippedSize : Int
  totalSize : Int
  merkleOk : Bool
  dupTxids : Bool
  cbHeight : Int
  /-- the coinbase the generator built -/
  cb : C01.TxFacts
  txStripped : Nat → Int
  legacy : Nat → Int
  p2sh : Nat → OutPoint → Int
  wit : Nat → OutPoint → Int
  overwrites : Nat → Bool

def inFacts (e : Env) (pool : List Tx) (sh : Shell) (earlier : List Nat) (j : Nat) (t : Tx) (i : Inp) :
    C01.InFacts :=
  let s := srcOf e pool earlier i.op
  { null := i.op == OutPoint.null
    seq := i.sequence
    avail := s.isSome && !(spentOps pool earlier).contains i.op
    isCb := match s with | some x => x.isCb | none => false
    originHeight := match s with | some x => x.height | none => 0
    originPrevMTP := match s with | some x => x.prevMtp | none => 0
    amount := match s with | some x => (x.amount : Int) | none => 0
    p2shSigops := sh.p2sh j i.op
    witSigops := sh.wit j i.op
    failsAlways := !t.scriptsOk
    failsUnder := 0 }

def txFacts (e : Env) (pool : List Tx) (sh : Shell) (earlier : List Nat) (j : Nat) (t : Tx) : C01.TxFacts :=
  { version := t.version
    lockTime := t.lockTime
    ins := t.ins.map (inFacts e pool sh earlier j t)
    outs := t.outs.map (fun o => (o.value : Int))
    strippedSize := sh.txStripped j
    dupInputs := !decide (t.ins.map (·.op)).Nodup
    script0Len := 0
    legacySigops := sh.legacy j
    hasWitness := t.hasWitness
    overwrites := sh.overwrites j }

def txFactsList (e : Env) (pool : List Tx) (sh : Shell) : List Nat → List Nat → List C01.TxFacts
  | [], _ => []
  | j :: rest, earlier =>
    (match pool[j]? with
     | some t => [txFacts e pool sh earlier j t]
     | none => []) ++ txFactsList e pool sh rest (earlier ++ [j])

/-- the block description of a template -/
def descOf (e : Env) (pool : List Tx) (tpl : Template) (sh : Shell) : C01.Desc :=
  { P := sh.P
    C := { height := e.nextHeight, prevMTP := e.mtp, prevTime := sh.prevTime, expectedBits := sh.expectedBits,
           now := e.now }
    H := { version := sh.version, bits := sh.bits, time := headerTime e, target := sh.target,
           hashNum := sh.hashNum }
    B := { strippedSize := sh.strippedSize, totalSize := sh.totalSize
           txs := sh.cb :: txFactsList e pool sh tpl.sel []
           merkleOk := sh.merkleOk, dupTxids := sh.dupTxids
           commit := if tpl.commitment then 1 else 0
           cbHeight := sh.cbHeight } }

/-! ### what one successful `connectStep` says -/

structure StepOk (e : Env) (pool : List Tx) (earlier : List Nat) (t : Tx) (total : Nat) : Prop where
  fresh : ∀ i ∈ t.ins, i.op ∉ spentOps pool earlier
  nodup : (t.ins.map (·.op)).Nodup
  value : inputsValue e pool earlier t.ins = some total
  range : total ≤ MAX_SATOSHI
  covers : sumOuts t ≤ total

theorem connectStep_some {e : Env} {pool : List Tx} {st st' : List Nat × List Int} {j : Nat}
    (h : connectStep e pool st j = some st') :
    ∃ t total, pool[j]? = some t ∧ StepOk e pool st.1 t total
      ∧ st' = (st.1 ++ [j], st.2 ++ [(total : Int) - (sumOuts t : Int)]) := by
  unfold connectStep at h
  cases hp : pool[j]? with
  | none => simp [hp] at h
  | some t =>
    simp only [hp] at h
    simp at h
    obtain ⟨hfresh, hnd, hm⟩ := h
    cases hv : inputsValue e pool st.1 t.ins with
    | none => simp [hv] at hm
    | some total =>
      simp only [hv] at hm
      by_cases c3 : MAX_SATOSHI < total
      · simp [c3] at hm
      · by_cases c4 : total < sumOuts t
        · simp [c3, c4] at hm
        · simp [c3, c4] at hm
          exact ⟨t, total, rfl, ⟨fun i hi => hfresh i hi, hnd, hv, by omega, by omega⟩, hm.symm⟩

/-! ### inputs of a connecting transaction -/

theorem inputValue_eq (e : Env) (pool : List Tx) (earlier : List Nat) (op : OutPoint) :
    inputValue e pool earlier op =
      match srcOf e pool earlier op with
      | some s => if s.isCb && decide (e.nextHeight - s.height < e.maturity) then none else some s.amount
      | none => none := by
  cases op with
  | p j i =>
    simp only [inputValue, srcOf]
    by_cases hc : earlier.contains j = true
    · simp only [hc, if_true]
      cases pool[j]? with
      | none => rfl
      | some pt =>
        simp only
        cases pt.outs[i]? with
        | none => rfl
        | some o =>
          simp only
          by_cases ho : o.spendable = true
          · simp [ho]
          · simp [ho]
    · have hc' : ¬ j ∈ earlier := by simpa using hc
      simp [hc']
  | u k => simp only [inputValue, srcOf]; cases chainGet pool (OutPoint.u k) <;> simp
  | x k => simp only [inputValue, srcOf]; cases chainGet pool (OutPoint.x k) <;> simp
  | null => simp only [inputValue, srcOf]; cases chainGet pool OutPoint.null <;> simp

theorem srcOf_null (e : Env) {pool : List Tx} (hp : PoolOk pool) (earlier : List Nat) :
    srcOf e pool earlier OutPoint.null = none := by
  simp only [srcOf]
  cases hg : chainGet pool OutPoint.null with
  | none => rfl
  | some c =>
    rcases chainGet_some_exists hg with ⟨t, ht, i, hi, ho, hc⟩
    have := hp.chainOnlyU t ht i hi (by simp [hc])
    rw [ho] at this
    simp [isWorldOutput] at this

/-- the amount an input contributes according to `srcOf` -/
def amountOf (e : Env) (pool : List Tx) (earlier : List Nat) (i : Inp) : Nat :=
  match srcOf e pool earlier i.op with
  | some s => s.amount
  | none => 0

theorem inputsValue_src (e : Env) (pool : List Tx) (earlier : List Nat) : ∀ (ins : List Inp) (total : Nat),
    inputsValue e pool earlier ins = some total →
      (∀ i ∈ ins, ∃ s, srcOf e pool earlier i.op = some s
          ∧ ¬ (s.isCb = true ∧ e.nextHeight - s.height < e.maturity) ∧ s.amount ≤ total)
      ∧ (ins.map (amountOf e pool earlier)).sum = total := by
  intro ins
  induction ins with
  | nil =>
    intro total h
    simp [inputsValue] at h
    subst h
    constructor
    · intro i hi; cases hi
    · rfl
  | cons a rest ih =>
    intro total h
    simp only [inputsValue] at h
    cases h1 : inputValue e pool earlier a.op with
    | none => simp [h1] at h
    | some x =>
      cases h2 : inputsValue e pool earlier rest with
      | none => simp [h1, h2] at h
      | some y =>
        simp only [h1, h2] at h
        injection h with h
        rcases ih y h2 with ⟨ih1, ih2⟩
        rw [inputValue_eq] at h1
        cases hs : srcOf e pool earlier a.op with
        | none => simp [hs] at h1
        | some s =>
          simp only [hs] at h1
          by_cases him : (s.isCb && decide (e.nextHeight - s.height < e.maturity)) = true
          · simp [him] at h1
          · simp only [him] at h1
            injection h1 with h1
            constructor
            · intro i hi
              rcases List.mem_cons.1 hi with h3 | h3
              · subst h3
                refine ⟨s, hs, ?_, by omega⟩
                intro hh; apply him; simp [hh.1, hh.2]
              · rcases ih1 i h3 with ⟨s', hs', hm', hle⟩
                exact ⟨s', hs', hm', by omega⟩
            · simp only [List.map_cons, List.sum_cons, amountOf, hs, ih2]
              omega

/-! ### the description of one connecting transaction -/

def castInt (n : Nat) : Int := (n : Int)

theorem sumInt_cast (l : List Nat) : C01.sumInt (l.map castInt) = ((l.sum : Nat) : Int) := by
  induction l with
  | nil => rfl
  | cons a rest ih =>
    have : C01.sumInt ((a :: rest).map castInt) = castInt a + C01.sumInt (rest.map castInt) := rfl
    rw [this, ih, List.sum_cons]
    simp [castInt]

theorem sumInt_append (a b : List Int) : C01.sumInt (a ++ b) = C01.sumInt a + C01.sumInt b := by
  induction a with
  | nil => simp [C01.sumInt]
  | cons x rest ih => simp only [C01.sumInt, List.cons_append, List.foldr_cons] at *; rw [ih]; omega

structure TxOk (e : Env) (tf : C01.TxFacts) (t : Tx) (total : Nat) : Prop where
  notCb : tf.isCoinbase = false
  ins : ∀ f ∈ tf.ins, f.null = false ∧ f.avail = true
    ∧ (f.isCb = true → ¬ e.nextHeight - f.originHeight < e.maturity) ∧ 0 ≤ f.amount ∧ f.amount ≤ (total : Int)
  inSum : tf.inSum = (total : Int)
  outSum : tf.outSum = (sumOuts t : Int)
  allAvail : tf.allAvail = true

theorem txFacts_ok {e : Env} {pool : List Tx} (hp : PoolOk pool) (sh : Shell) {earlier : List Nat} {j : Nat}
    {t : Tx} (ht : pool[j]? = some t) {total : Nat} (hs : StepOk e pool earlier t total) :
    TxOk e (txFacts e pool sh earlier j t) t total := by
  have htm : t ∈ pool := mem_of_getElem? ht
  rcases inputsValue_src e pool earlier t.ins total hs.value with ⟨hsrc, hsum⟩
  have hins : ∀ f ∈ (txFacts e pool sh earlier j t).ins, f.null = false ∧ f.avail = true
      ∧ (f.isCb = true → ¬ e.nextHeight - f.originHeight < e.maturity) ∧ 0 ≤ f.amount
      ∧ f.amount ≤ (total : Int) := by
    intro f hf
    simp only [txFacts, List.mem_map] at hf
    rcases hf with ⟨i, hi, rfl⟩
    rcases hsrc i hi with ⟨s, hs1, hmat, hle⟩
    have hnn : i.op ≠ OutPoint.null := by
      intro hh
      rw [hh, srcOf_null e hp earlier] at hs1
      cases hs1
    have hfresh := hs.fresh i hi
    refine ⟨?_, ?_, ?_, ?_, ?_⟩
    · simp [inFacts, hnn]
    · simp [inFacts, hs1, hfresh]
    · intro hcb
      simp only [inFacts, hs1] at hcb ⊢
      exact fun hh => hmat ⟨hcb, hh⟩
    · simp only [inFacts, hs1]; omega
    · simp only [inFacts, hs1]; omega
  have hnotcb : (txFacts e pool sh earlier j t).isCoinbase = false := by
    unfold C01.TxFacts.isCoinbase
    cases hl : (txFacts e pool sh earlier j t).ins with
    | nil => rfl
    | cons f rest =>
      cases rest with
      | nil =>
        simp only
        exact (hins f (by rw [hl]; exact List.mem_cons_self)).1
      | cons g r => rfl
  refine ⟨hnotcb, hins, ?_, ?_, ?_⟩
  · unfold C01.TxFacts.inSum
    have : (txFacts e pool sh earlier j t).ins.map (·.amount)
        = (t.ins.map (amountOf e pool earlier)).map castInt := by
      simp only [txFacts, List.map_map]
      apply List.map_congr_left
      intro i hi
      rcases hsrc i hi with ⟨s, hs1, _, _⟩
      simp [inFacts, amountOf, hs1, castInt]
    rw [this, sumInt_cast, hsum]
  · unfold C01.TxFacts.outSum sumOuts
    have : (txFacts e pool sh earlier j t).outs = (t.outs.map (·.value)).map castInt := by
      simp only [txFacts, List.map_map]
      rfl
    rw [this, sumInt_cast]
  · unfold C01.TxFacts.allAvail
    rw [List.all_eq_true]
    intro f hf
    rcases hins f hf with ⟨h1, h2, _⟩
    simp [h1, h2]

theorem txFacts_fee {e : Env} {tf : C01.TxFacts} {t : Tx} {total : Nat} (h : TxOk e tf t total) :
    tf.fee = (total : Int) - (sumOuts t : Int) := by
  unfold C01.TxFacts.fee
  simp [h.notCb, h.allAvail, h.inSum, h.outSum]

/-- every transaction description of a connecting selection comes from a successful step, and the
fees C01 computes from the descriptions are the real fees `Spec.connect` collects -/
theorem txFactsList_connect {e : Env} {pool : List Tx} (hp : PoolOk pool) (sh : Shell) :
    ∀ (sel earlier : List Nat) (fs : List Int) (st' : List Nat × List Int),
      sel.foldlM (connectStep e pool) (earlier, fs) = some st' →
      (∀ tf ∈ txFactsList e pool sh sel earlier, ∃ j t earlier' total, j ∈ sel ∧ pool[j]? = some t
          ∧ tf = txFacts e pool sh earlier' j t ∧ StepOk e pool earlier' t total)
      ∧ C01.sumInt st'.2 = C01.sumInt fs + C01.sumInt ((txFactsList e pool sh sel earlier).map (·.fee)) := by
  intro sel
  induction sel with
  | nil =>
    intro earlier fs st' h
    simp [List.foldlM] at h
    subst h
    constructor
    · intro tf htf; simp [txFactsList] at htf
    · simp [txFactsList, C01.sumInt]
  | cons j rest ih =>
    intro earlier fs st' h
    rw [List.foldlM_cons] at h
    cases hstep : connectStep e pool (earlier, fs) j with
    | none => simp [hstep] at h
    | some s1 =>
      rw [hstep] at h
      have h' : rest.foldlM (connectStep e pool) s1 = some st' := h
      rcases connectStep_some hstep with ⟨t, total, ht, hok, hs1⟩
      subst hs1
      rcases ih _ _ _ h' with ⟨ih1, ih2⟩
      have htx := txFacts_ok hp sh ht hok
      constructor
      · intro tf htf
        simp only [txFactsList, ht, List.cons_append, List.nil_append, List.mem_cons] at htf
        rcases htf with h1 | h1
        · exact ⟨j, t, earlier, total, List.mem_cons_self, ht, h1, hok⟩
        · rcases ih1 tf h1 with ⟨j', t', e', tot', hj', r⟩
          exact ⟨j', t', e', tot', List.mem_cons_of_mem _ hj', r⟩
      · rw [ih2, sumInt_append]
        simp only [txFactsList, ht, List.cons_append, List.nil_append, List.map_cons]
        have hf := txFacts_fee htx
        have : C01.sumInt ((txFacts e pool sh earlier j t).fee :: (txFactsList e pool sh rest (earlier ++ [j])).map (·.fee))
            = (txFacts e pool sh earlier j t).fee + C01.sumInt ((txFactsList e pool sh rest (earlier ++ [j])).map (·.fee)) := rfl
        rw [this, hf]
        have h2 : C01.sumInt [(total : Int) - (sumOuts t : Int)] = (total : Int) - (sumOuts t : Int) := by
          simp [C01.sumInt]
        rw [h2]
        omega

/-! ### hypotheses about what lies outside the selection -/

/-- rules that only talk about facts outside the generator's choice of transactions: proof of work,
required bits (C09), header version, time-warp, serialized base size, per-transaction stripped sizes,
coinbase script length and BIP34 height, merkle root and duplicate txids (C13), the legacy sigop
pre-check, BIP30, and the int64 range of the fee sum -/
def outsideRules : List C01.Rule :=
  [.powTarget, .powHash, .bits, .timewarp, .version, .baseSize, .txTooBig, .cbScriptLen, .merkle, .dupTx,
   .sigopsLegacy, .bip34Height, .bip30, .feeRange]

structure ShellOk (e : Env) (pool : List Tx) (tpl : Template) (sh : Shell) : Prop where
  outside : ∀ r ∈ outsideRules, C01.ruleOk r (descOf e pool tpl sh) = true
  csv : C01.deployed sh.P.csvH e.nextHeight = e.csv
  seg : C01.deployed sh.P.segH e.nextHeight = e.segwit
  maturity : sh.P.maturity = e.maturity
  interval : sh.P.subsidyInterval = e.halving
  /-- C13: block weight = 3·stripped + total, and it is the weight the template accounts for -/
  weightEq : sh.strippedSize * 3 + sh.totalSize = (Spec.blockWeight e pool tpl : Int)
  /-- C13: the sigop cost of the described transactions is the oracle cost the generator used -/
  sigEq : (descOf e pool tpl sh).sigopCost = (Spec.sigOpCost e pool tpl : Int)
  cbIsCb : sh.cb.isCoinbase = true
  cbOuts : sh.cb.outs ≠ [] ∧ sh.cb.outs.all C01.moneyRange = true ∧ C01.moneyRange sh.cb.outSum = true
  cbNoDup : sh.cb.dupInputs = false
  cbFinal : sh.cb.final e.nextHeight (consensusClock e) = true
  cbValue : sh.cb.outSum = tpl.cbValue
  cbWitness : sh.cb.hasWitness = tpl.commitment
  commitSeg : tpl.commitment = true → e.segwit = true

/-- shape facts of pool transactions (transaction sanity) that the abstraction does not carry -/
structure ShapeOk (pool : List Tx) : Prop where
  outsNonempty : ∀ t ∈ pool, t.outs ≠ []
  seqFlag : ∀ t ∈ pool, t.allSeqMax = t.ins.all (fun i => decide (i.sequence = C01.SEQUENCE_FINAL))

end BV.C12
