/- C12 composition: the primitives the template model takes as definitions or oracles, tied to the
sibling models: subsidy (C09), block weight (C13), lock-time finality and BIP68 (C13). Core-only. -/
import BV.C12.Compose2
import BV.C09.Model
import BV.C13.Model
namespace BV.C12
open Spec

/-- the subsidy the coinbase is built with is C09's `calcBlockSubsidy` -/
theorem subsidy_eq_c09 (e : Env) : subsidy e = BV.C09.calcBlockSubsidy e.nextHeight e.halving := by
  unfold subsidy BV.C09.calcBlockSubsidy
  rfl

theorem varIntSize_eq_c13 (n : Nat) : varIntSize n = BV.C13.varIntSize n := rfl

theorem sum_weights (l : List BV.C13.Tx) :
    (l.map BV.C13.Tx.baseSize).sum * 3 + (l.map BV.C13.Tx.totalSize).sum = (l.map BV.C13.txWeight).sum := by
  induction l with
  | nil => rfl
  | cons a rest ih =>
    simp only [List.map_cons, List.sum_cons]
    have : BV.C13.txWeight a = a.baseSize * 3 + a.totalSize := rfl
    rw [this]
    omega

/-- C13's `GetBlockWeight` of coinbase + transactions is header, count and the sum of the
transaction weights — the formula `Spec.blockWeight` uses -/
theorem blockWeight_c13 (cb : BV.C13.Tx) (txs : List BV.C13.Tx) :
    BV.C13.blockWeight (cb :: txs)
      = WITNESS_SCALE * (80 + varIntSize (txs.length + 1)) + BV.C13.txWeight cb + (txs.map BV.C13.txWeight).sum := by
  have h := sum_weights (cb :: txs)
  unfold BV.C13.blockWeight
  simp only [List.map_cons, List.sum_cons, List.length_cons] at h ⊢
  have h3 : BV.C13.Spec.WITNESS_SCALE_FACTOR - 1 = 3 := by decide
  rw [h3]
  rw [varIntSize_eq_c13]
  unfold WITNESS_SCALE
  omega

/-- … so when the weight oracles of the line are C13's `GetTransactionWeight` of the real
transactions (coinbase including its commitment), `Spec.blockWeight` IS C13's block weight. -/
theorem spec_blockWeight_c13 (e : Env) (pool : List Tx) (tpl : Template) (cb : BV.C13.Tx) (txs : List BV.C13.Tx)
    (hcb : BV.C13.txWeight cb = e.cbWeight + (if tpl.commitment then WITNESS_RESERVE else 0))
    (htx : txs.map BV.C13.txWeight = (txsOf pool tpl.sel).map (·.weight))
    (hlen : txs.length = tpl.sel.length) :
    Spec.blockWeight e pool tpl = BV.C13.blockWeight (cb :: txs) := by
  rw [blockWeight_c13, hcb, htx, hlen]
  unfold Spec.blockWeight
  omega

/-- lock-time finality of the model is C13's `IsFinalTx` on the transaction's lock time and
sequence numbers -/
theorem isFinalized_eq_c13 (t : Tx) (h c : Int)
    (hflag : t.allSeqMax = t.ins.all (fun i => decide (i.sequence = BV.C13.Spec.SEQUENCE_FINAL))) :
    isFinalized t h c = BV.C13.Spec.isFinal t.lockTime (t.ins.map (·.sequence)) h c := by
  unfold isFinalized BV.C13.Spec.isFinal
  have hth : BV.C13.Spec.LOCKTIME_THRESHOLD = LOCKTIME_THRESHOLD := by decide
  rw [hth, hflag, List.all_map]
  by_cases h0 : t.lockTime = 0
  · simp [h0]
  · by_cases hlt : (t.lockTime : Int) < (if t.lockTime < LOCKTIME_THRESHOLD then h else c)
    · simp [h0, hlt]
    · simp [h0, hlt]
      by_cases hall : ∀ x ∈ t.ins, x.sequence = BV.C13.Spec.SEQUENCE_FINAL
      · have : (t.ins.all fun i => decide (i.sequence = BV.C13.Spec.SEQUENCE_FINAL)) = true := by
          rw [List.all_eq_true]; intro x hx; simpa using hall x hx
        simp [this]
        exact hall
      · have : (t.ins.all fun i => decide (i.sequence = BV.C13.Spec.SEQUENCE_FINAL)) = false := by
          cases hb : (t.ins.all fun i => decide (i.sequence = BV.C13.Spec.SEQUENCE_FINAL)) with
          | false => rfl
          | true =>
            exfalso; apply hall
            intro x hx
            simpa using (List.all_eq_true.1 hb) x hx
        simp [this, hall]

/-! ### BIP68: the per-input form used by `Spec.seqLocksOk` is C13's fold -/

def seqInputOk (i : BV.C13.Spec.SeqInput) (H M : Int) : Prop :=
  if i.seq / BV.C13.Spec.SEQ_DISABLE_FLAG % 2 = 1 then True
  else if i.seq / BV.C13.Spec.SEQ_TYPE_FLAG % 2 = 1 then
    i.prevMtp + ((i.seq % (BV.C13.Spec.SEQ_MASK + 1) * 2 ^ BV.C13.Spec.SEQ_GRANULARITY : Nat) : Int) - 1 < M
  else i.height + ((i.seq % (BV.C13.Spec.SEQ_MASK + 1) : Nat) : Int) - 1 < H

def seqStep (acc : Int × Int) (i : BV.C13.Spec.SeqInput) : Int × Int :=
  if i.seq / BV.C13.Spec.SEQ_DISABLE_FLAG % 2 = 1 then acc
  else if i.seq / BV.C13.Spec.SEQ_TYPE_FLAG % 2 = 1 then
    (acc.1, max acc.2 (i.prevMtp + ((i.seq % (BV.C13.Spec.SEQ_MASK + 1) * 2 ^ BV.C13.Spec.SEQ_GRANULARITY : Nat) : Int) - 1))
  else (max acc.1 (i.height + ((i.seq % (BV.C13.Spec.SEQ_MASK + 1) : Nat) : Int) - 1), acc.2)

theorem seqFold_lt (H M : Int) : ∀ (ins : List BV.C13.Spec.SeqInput) (acc : Int × Int),
    ((ins.foldl seqStep acc).1 < H ∧ (ins.foldl seqStep acc).2 < M)
      ↔ (acc.1 < H ∧ acc.2 < M ∧ ∀ i ∈ ins, seqInputOk i H M) := by
  intro ins
  induction ins with
  | nil => intro acc; simp
  | cons a rest ih =>
    intro acc
    simp only [List.foldl_cons]
    rw [ih (seqStep acc a)]
    unfold seqStep seqInputOk
    by_cases hd : a.seq / BV.C13.Spec.SEQ_DISABLE_FLAG % 2 = 1
    · simp [hd, seqInputOk]
    · by_cases ht : a.seq / BV.C13.Spec.SEQ_TYPE_FLAG % 2 = 1
      · simp only [hd, ht, if_true, if_false, List.mem_cons, forall_eq_or_imp, seqInputOk]
        constructor
        · rintro ⟨h1, h2, h3⟩; exact ⟨h1, by omega, by omega, h3⟩
        · rintro ⟨h1, h2, h3, h4⟩; exact ⟨h1, by omega, h4⟩
      · simp only [hd, ht, if_false, List.mem_cons, forall_eq_or_imp, seqInputOk]
        constructor
        · rintro ⟨h1, h2, h3⟩; exact ⟨by omega, h2, by omega, h3⟩
        · rintro ⟨h1, h2, h3, h4⟩; exact ⟨by omega, h2, h4⟩

/-- C13's `sequenceLocks` + `locksSatisfied` hold iff every input's relative lock is met (and the
trivial bounds −1 < height, −1 < MTP) — the form `Spec.seqLocksOk` states -/
theorem c13_locks_iff (ins : List BV.C13.Spec.SeqInput) (H M : Int) :
    BV.C13.Spec.locksSatisfied (BV.C13.Spec.sequenceLocks true ins).1 (BV.C13.Spec.sequenceLocks true ins).2 H M = true
      ↔ (-1 < H ∧ -1 < M ∧ ∀ i ∈ ins, seqInputOk i H M) := by
  have hfold : BV.C13.Spec.sequenceLocks true ins = ins.foldl seqStep (-1, -1) := by
    unfold BV.C13.Spec.sequenceLocks
    simp only [Bool.not_true, Bool.false_eq_true, if_false]
    rfl
  rw [hfold]
  unfold BV.C13.Spec.locksSatisfied
  have := seqFold_lt H M ins (-1, -1)
  simp only [decide_eq_true_eq]
  exact this

def seqInputOf (e : Env) (i : Inp) : BV.C13.Spec.SeqInput :=
  match i.chain with
  | some c => ⟨i.sequence, c.height, c.mtpPrev⟩
  | none => ⟨i.sequence, e.nextHeight, e.mtp⟩

/-- `Spec.seqLocksOk` for a version ≥ 2, non-coinbase transaction under CSV is C13's BIP68 evaluation
of its inputs (height / median time of the spent outputs as the chain reports them, same-block
parents counted as confirmed in the block) -/
theorem seqLocksOk_c13 (e : Env) (t : Tx) (hcs : e.csv = true) (hv : ¬ t.version < 2)
    (hcb : isCoinbase t = false) :
    seqLocksOk e t = true ↔
      BV.C13.Spec.locksSatisfied (BV.C13.Spec.sequenceLocks true (t.ins.map (seqInputOf e))).1
        (BV.C13.Spec.sequenceLocks true (t.ins.map (seqInputOf e))).2 e.nextHeight e.mtp = true := by
  rw [c13_locks_iff]
  unfold seqLocksOk
  simp only [hcs, hv, hcb, Bool.not_true, decide_false, Bool.or_false, Bool.false_eq_true, if_false,
    Bool.and_eq_true, decide_eq_true_eq, List.all_eq_true, List.mem_map, forall_exists_index, and_imp,
    forall_apply_eq_imp_iff₂]
  have c1 : BV.C13.Spec.SEQ_DISABLE_FLAG = SEQ_DISABLED := by decide
  have c2 : BV.C13.Spec.SEQ_TYPE_FLAG = SEQ_IS_SECONDS := by decide
  have c3 : BV.C13.Spec.SEQ_MASK + 1 = SEQ_MASK := by decide
  have c4 : 2 ^ BV.C13.Spec.SEQ_GRANULARITY = SEQ_GRANULARITY := by decide
  have hin : ∀ i : Inp, (if i.sequence / SEQ_DISABLED % 2 = 1 then true
        else if i.sequence / SEQ_IS_SECONDS % 2 = 1 then
          decide ((match i.chain with
            | some c => ((c.height, c.mtpPrev) : Int × Int)
            | none => (e.nextHeight, e.mtp)).2 + ((i.sequence % SEQ_MASK : Nat) : Int) * (SEQ_GRANULARITY : Int) - 1 < e.mtp)
        else decide ((match i.chain with
            | some c => ((c.height, c.mtpPrev) : Int × Int)
            | none => (e.nextHeight, e.mtp)).1 + ((i.sequence % SEQ_MASK : Nat) : Int) - 1 < e.nextHeight)) = true
      ↔ seqInputOk (seqInputOf e i) e.nextHeight e.mtp := by
    intro i
    unfold seqInputOk seqInputOf
    rw [c1, c2, c3, c4]
    cases i.chain with
    | some c =>
      simp only
      by_cases hd : i.sequence / SEQ_DISABLED % 2 = 1
      · simp [hd]
      · by_cases ht : i.sequence / SEQ_IS_SECONDS % 2 = 1
        · simp [hd, ht]
        · simp [hd, ht]
    | none =>
      simp only
      by_cases hd : i.sequence / SEQ_DISABLED % 2 = 1
      · simp [hd]
      · by_cases ht : i.sequence / SEQ_IS_SECONDS % 2 = 1
        · simp [hd, ht]
        · simp [hd, ht]
  constructor
  · rintro ⟨⟨h1, h2⟩, h3⟩
    exact ⟨h1, h2, fun i hi => (hin i).1 (h3 i hi)⟩
  · rintro ⟨h1, h2, h3⟩
    exact ⟨⟨h1, h2⟩, fun i hi => (hin i).2 (h3 i hi)⟩

end BV.C12
