/-
C05 helper lemmas, part 7: on forward-only runs the position-based merge algorithm (`mFirst`,
`mNext` with `chooseIterator`/`skipPendingUpdates`) emits exactly `fwdRun`.
-/
import BV.C05.Lemmas5
import BV.C05.Cursor
namespace BV.C05.Lemmas
open BV.C05

section
variable {K V : Type} {cmp : K → K → Ordering}

/-- `Next` of a lawful iterator standing on `x` inside the sorted list `pre ++ x :: rest` -/
theorem itNext_suffix (h : OrdLaws cmp) (pre : List (K × V)) (x : K × V) (rest : List (K × V))
    (hs : SortedKeys cmp (pre ++ x :: rest)) :
    itNext cmp (pre ++ x :: rest) (some x) = rest.head? := by
  unfold SortedKeys at hs
  rw [List.pairwise_append] at hs
  obtain ⟨_, h2, h3⟩ := hs
  rw [List.pairwise_cons] at h2
  obtain ⟨hx, _⟩ := h2
  simp only [itNext]
  have e : pre ++ x :: rest = (pre ++ [x]) ++ rest := by simp
  rw [e, firstGT_append_ge]
  · cases rest with
    | nil => rfl
    | cons y ys =>
      have := hx y (List.mem_cons_self ..)
      simp [firstGT, this]
  · intro p hp
    rcases List.mem_append.mp hp with h1 | h1
    · have := h3 p h1 x (List.mem_cons_self ..)
      rw [gt_of_lt h this]; simp
    · rw [List.mem_singleton] at h1; rw [h1, cmp_refl h]; simp

def dropShadow (sh : K → Bool) : List (K × V) → List (K × V)
  | [] => []
  | x :: xs => if sh x.1 then dropShadow sh xs else x :: xs

/-- `skipPendingUpdates` from the head of a suffix lands on the first unshadowed entry of it -/
theorem skip_suffix (h : OrdLaws cmp) (sh : K → Bool) (A : List (K × V)) (hs : SortedKeys cmp A) :
    ∀ (As pre : List (K × V)) (n : Nat), A = pre ++ As → As.length ≤ n →
      skipLoop sh (itNext cmp A) n As.head? = (dropShadow sh As).head? := by
  intro As
  induction As with
  | nil =>
    intro pre n _ _
    cases n <;> simp [skipLoop, dropShadow]
  | cons x rest ih =>
    intro pre n hA hn
    cases n with
    | zero => simp at hn
    | succ n =>
      simp only [List.head?_cons, skipLoop, dropShadow]
      by_cases hx : sh x.1 = true
      · simp only [hx, if_true]
        have hnext : itNext cmp A (some x) = rest.head? := by
          rw [hA]; exact itNext_suffix h pre x rest (hA ▸ hs)
        rw [hnext]
        exact ih (pre ++ [x]) n (by rw [hA]; simp) (by simpa using hn)
      · simp only [hx, Bool.false_eq_true, if_false, List.head?_cons]

/-- the state `chooseIterator(forwards)` produces from the heads of two suffixes -/
def stOf (cmp : K → K → Ordering) (sh : K → Bool) (A : List (K × V)) (As Bs : List (K × V)) : MergeSt K V :=
  choose cmp sh A true As.head? Bs.head?

theorem stOf_shadowed (h : OrdLaws cmp) (sh : K → Bool) (A : List (K × V)) (hs : SortedKeys cmp A)
    (pre : List (K × V)) (a : K × V) (as Bs : List (K × V)) (hA : A = pre ++ a :: as)
    (hsh : sh a.1 = true) :
    stOf cmp sh A (a :: as) Bs = stOf cmp sh A as Bs := by
  unfold stOf choose
  have hlen : (a :: as).length ≤ A.length := by rw [hA]; simp
  have hlen' : as.length ≤ A.length := by simp at hlen; omega
  simp only [if_true]
  rw [skip_suffix h sh A hs (a :: as) pre A.length hA hlen,
    skip_suffix h sh A hs as (pre ++ [a]) A.length (by rw [hA]; simp) hlen']
  simp [dropShadow, hsh]

theorem forward_run_eq (h : OrdLaws cmp) (sh : K → Bool) (A B : List (K × V))
    (hA : SortedKeys cmp A) (hB : SortedKeys cmp B) :
    ∀ (As Bs preA preB : List (K × V)) (n : Nat), A = preA ++ As → B = preB ++ Bs →
      As.length + Bs.length ≤ n →
      collectFwd cmp sh A B n (stOf cmp sh A As Bs) = fwdRun cmp sh As Bs := by
  intro As
  induction As with
  | nil =>
    intro Bs
    induction Bs with
    | nil =>
      intro preA preB n _ _ _
      cases n <;> simp [collectFwd, stOf, choose, skipLoop, MergeSt.entry, fwdRun]
      all_goals (cases A <;> simp [skipLoop])
    | cons b bs ihb =>
      intro preA preB n hA' hB' hn
      cases n with
      | zero => simp at hn
      | succ n =>
        have hskip : skipLoop sh (itNext cmp A) A.length (none : Option (K × V)) = none := by
          cases A <;> simp [skipLoop]
        have hst : stOf cmp sh A [] (b :: bs) = ⟨none, some b, some false⟩ := by
          simp [stOf, choose, hskip]
        have hnext : mNext cmp sh A B ⟨none, some b, some false⟩ = stOf cmp sh A [] bs := by
          simp only [mNext, stOf, List.head?_nil]
          rw [hB', itNext_suffix h preB b bs (hB' ▸ hB)]
        simp only [fwdRun]
        rw [hst]
        simp only [collectFwd, MergeSt.entry]
        rw [hnext, ihb preA (preB ++ [b]) n hA' (by rw [hB']; simp) (by simp at hn ⊢; omega)]
        simp [fwdRun]
  | cons a as iha =>
    intro Bs preA preB n hA' hB' hn
    by_cases hsh : sh a.1 = true
    · rw [stOf_shadowed h sh A hA preA a as Bs hA' hsh]
      simp only [fwdRun, hsh, if_true]
      exact iha Bs (preA ++ [a]) preB n (by rw [hA']; simp) hB' (by simp at hn ⊢; omega)
    · have hsh' : sh a.1 = false := by simpa using hsh
      have hApos : 0 < A.length := by rw [hA', List.length_append, List.length_cons]; omega
      have hskip : skipLoop sh (itNext cmp A) A.length (some a) = some a := by
        cases hl : A.length with
        | zero => omega
        | succ k => simp [skipLoop, hsh']
      have hnextA : itNext cmp A (some a) = as.head? := by
        rw [hA']; exact itNext_suffix h preA a as (hA' ▸ hA)
      simp only [fwdRun, hsh', Bool.false_eq_true, if_false]
      induction Bs generalizing preB n with
      | nil =>
        cases n with
        | zero => simp at hn
        | succ n =>
          have hst : stOf cmp sh A (a :: as) [] = ⟨some a, none, some true⟩ := by
            simp [stOf, choose, hskip]
          have hnext : mNext cmp sh A B ⟨some a, none, some true⟩ = stOf cmp sh A as [] := by
            simp only [mNext, stOf, List.head?_nil, hnextA]
          rw [hst]
          simp only [collectFwd, MergeSt.entry, fwdRun.go]
          rw [hnext, iha [] (preA ++ [a]) preB n (by rw [hA']; simp) hB' (by simp at hn ⊢; omega)]
      | cons b bs ihb =>
        cases n with
        | zero => simp at hn
        | succ n =>
          simp only [fwdRun.go]
          by_cases hc : cmp a.1 b.1 = .gt
          · have hst : stOf cmp sh A (a :: as) (b :: bs) = ⟨some a, some b, some false⟩ := by
              simp [stOf, choose, hskip, hc]
            have hnext : mNext cmp sh A B ⟨some a, some b, some false⟩ = stOf cmp sh A (a :: as) bs := by
              simp only [mNext, stOf, List.head?_cons]
              rw [hB', itNext_suffix h preB b bs (hB' ▸ hB)]
            rw [hst]
            simp only [collectFwd, MergeSt.entry, hc, if_true]
            rw [hnext, ihb (preB ++ [b]) n (by rw [hB']; simp) (by simp at hn ⊢; omega)]
          · have hst : stOf cmp sh A (a :: as) (b :: bs) = ⟨some a, some b, some true⟩ := by
              simp only [stOf, choose, List.head?_cons, if_true, hskip]
              cases hcab : cmp a.1 b.1 <;> simp_all
            have hnext : mNext cmp sh A B ⟨some a, some b, some true⟩ = stOf cmp sh A as (b :: bs) := by
              simp only [mNext, stOf, List.head?_cons, hnextA]
            rw [hst]
            simp only [collectFwd, MergeSt.entry, hc, if_false]
            rw [hnext, iha (b :: bs) (preA ++ [a]) preB n (by rw [hA']; simp) hB'
              (by simp at hn ⊢; omega)]

end
end BV.C05.Lemmas

namespace BV.C05.Lemmas
open BV.C05
section
variable {K V : Type} {cmp : K → K → Ordering}

/-- the entries from the first one `≥ k` on -/
def fromGE (cmp : K → K → Ordering) (k : K) (xs : List (K × V)) : List (K × V) :=
  xs.dropWhile (fun x => cmp k x.1 == .gt)

theorem firstGE_eq_head (k : K) (xs : List (K × V)) :
    firstGE cmp k xs = (fromGE cmp k xs).head? := by
  induction xs with
  | nil => rfl
  | cons x xs ih =>
    simp only [firstGE, fromGE, List.dropWhile]
    by_cases hx : cmp k x.1 = .gt
    · simp only [hx, if_true, beq_self_eq_true]; exact ih
    · have : (cmp k x.1 == Ordering.gt) = false := by
        cases hc : cmp k x.1 <;> simp_all
      simp [hx, this]

theorem fromGE_suffix (k : K) (xs : List (K × V)) :
    xs = xs.takeWhile (fun x => cmp k x.1 == .gt) ++ fromGE cmp k xs :=
  (List.takeWhile_append_dropWhile).symm

/-- `Seek k` followed by `Next` until exhaustion -/
theorem seek_run_eq (h : OrdLaws cmp) (sh : K → Bool) (A B : List (K × V))
    (hA : SortedKeys cmp A) (hB : SortedKeys cmp B) (k : K) (n : Nat)
    (hn : A.length + B.length ≤ n) :
    collectFwd cmp sh A B n (mSeek cmp sh A B k) =
      fwdRun cmp sh (fromGE cmp k A) (fromGE cmp k B) := by
  have e : mSeek cmp sh A B k = stOf cmp sh A (fromGE cmp k A) (fromGE cmp k B) := by
    simp only [mSeek, stOf, firstGE_eq_head]
  rw [e]
  apply forward_run_eq h sh A B hA hB _ _ _ _ n (fromGE_suffix k A) (fromGE_suffix k B)
  have h1 : (fromGE cmp k A).length ≤ A.length := by
    unfold fromGE; exact List.Sublist.length_le (List.dropWhile_sublist _)
  have h2 : (fromGE cmp k B).length ≤ B.length := by
    unfold fromGE; exact List.Sublist.length_le (List.dropWhile_sublist _)
  omega

end
end BV.C05.Lemmas
