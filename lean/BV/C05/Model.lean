/-
C05 Model, part (a): the treap of database/internal/treap (immutable.go, mutable.go, treapiter.go).
Executable mirror of the Go algorithms; priorities (`rand.Int()` in Go) are inputs. core-only.

The immutable and the mutable treap perform the same searches and rotations (the mutable one in
place, the immutable one on cloned nodes along the search path), so one pure model serves both;
persistence of old versions is what a pure value gives for free and is stated as a theorem anyway.
-/
import BV.C05.Spec
namespace BV.C05

inductive Treap (K V : Type) where
  | nil : Treap K V
  | node (l : Treap K V) (k : K) (v : V) (p : Nat) (r : Treap K V) : Treap K V
  deriving Repr

namespace Treap
variable {K V : Type}

/-- in-order contents (`ForEach`) -/
def toList : Treap K V → List (K × V)
  | nil => []
  | node l k v _ r => toList l ++ (k, v) :: toList r

def count : Treap K V → Nat
  | nil => 0
  | node l _ _ _ r => count l + 1 + count r

variable (cmp : K → K → Ordering)

/-- `get`: binary search. -/
def get (k : K) : Treap K V → Option V
  | nil => none
  | node l k' v' _ r =>
    match cmp k k' with
    | .lt => get k l
    | .gt => get k r
    | .eq => some v'

/-- `put`: descend to the insertion point; an existing key only has its value replaced (second
component `false`: no rotations follow). A new leaf (second component `true`) is rotated upwards
while its priority is smaller than its parent's; the first parent with a priority `≤` stops the
loop (`break`) for good. -/
def putAux (k : K) (v : V) (p : Nat) : Treap K V → Treap K V × Bool
  | nil => (node nil k v p nil, true)
  | node l k' v' p' r =>
    match cmp k k' with
    | .eq => (node l k' v p' r, false)
    | .lt =>
      match putAux k v p l with
      | (node a kk vv pp b, true) =>
        if pp < p' then (node a kk vv pp (node b k' v' p' r), true)   -- rotate right
        else (node (node a kk vv pp b) k' v' p' r, false)
      | (l', _) => (node l' k' v' p' r, false)
    | .gt =>
      match putAux k v p r with
      | (node a kk vv pp b, true) =>
        if pp < p' then (node (node l k' v' p' a) kk vv pp b, true)   -- rotate left
        else (node l k' v' p' (node a kk vv pp b), false)
      | (r', _) => (node l k' v' p' r', false)

def put (k : K) (v : V) (p : Nat) (t : Treap K V) : Treap K V := (putAux cmp k v p t).1

/-- Rotating the node to delete downwards until it is a leaf, always lifting the child chosen by
`left.priority >= right.priority` (left) else right, and then unlinking it, amounts to this merge of
its two subtrees. -/
def merge : Treap K V → Treap K V → Treap K V
  | nil, r => r
  | node ll lk lv lp lr, r =>
    let rec go : Treap K V → Treap K V
      | nil => node ll lk lv lp lr
      | node rl rk rv rp rr =>
        if lp ≥ rp then node ll lk lv lp (merge lr (node rl rk rv rp rr))
        else node (go rl) rk rv rp rr
    go r

/-- `Delete` -/
def delete (k : K) : Treap K V → Treap K V
  | nil => nil
  | node l k' v' p' r =>
    match cmp k k' with
    | .lt => node (delete k l) k' v' p' r
    | .gt => node l k' v' p' (delete k r)
    | .eq => merge l r

/-! ### iterator (treapiter.go) on one version of the tree

`seek key exactMatch greater`: the selected node is the last node on the search path at which the
search turned towards the smaller side (`greater`) resp. the larger side (`¬ greater`); an exact hit
is returned at once when `exactMatch`. -/

def seekAux (k : K) (exact greater : Bool) : Treap K V → Option (K × V) → Option (K × V)
  | nil, sel => sel
  | node l k' v' _ r, sel =>
    match cmp k k' with
    | .lt => seekAux k exact greater l (if greater then some (k', v') else sel)
    | .gt => seekAux k exact greater r (if greater then sel else some (k', v'))
    | .eq =>
      if exact then some (k', v')
      else if greater then seekAux k exact greater r sel
      else seekAux k exact greater l sel

def leftmost : Treap K V → Option (K × V)
  | nil => none
  | node nil k v _ _ => some (k, v)
  | node l _ _ _ _ => leftmost l

def rightmost : Treap K V → Option (K × V)
  | nil => none
  | node _ k v _ nil => some (k, v)
  | node _ _ _ _ r => rightmost r

end Treap

/-- range limits of an iterator: start inclusive, limit exclusive, each optional -/
structure Range (K : Type) where
  start : Option K
  limit : Option K

/-- `limitIterator` -/
def limitIter {K V : Type} (cmp : K → K → Ordering) (rg : Range K) : Option (K × V) → Option (K × V)
  | none => none
  | some x =>
    match rg.start with
    | some s => if cmp x.1 s = .lt then none else
      (match rg.limit with
       | some l => if cmp x.1 l = .lt then some x else none
       | none => some x)
    | none =>
      (match rg.limit with
       | some l => if cmp x.1 l = .lt then some x else none
       | none => some x)

/-- iterator state: `isNew` and the node it is positioned at -/
structure IterSt (K V : Type) where
  isNew : Bool
  cur : Option (K × V)

namespace Treap
variable {K V : Type} (cmp : K → K → Ordering)

def iterSeek (t : Treap K V) (rg : Range K) (k : K) (exact greater : Bool) : Option (K × V) :=
  limitIter cmp rg (seekAux cmp k exact greater t none)

/-- `First`: with a start key a seek; otherwise the left-most node WITHOUT a limit check (as in the
Go code); an empty tree leaves the iterator exhausted. -/
def iterFirst (t : Treap K V) (rg : Range K) (st : IterSt K V) : IterSt K V × Bool :=
  match rg.start with
  | some s => let c := iterSeek cmp t rg s true true; (⟨false, c⟩, c.isSome)
  | none =>
    match leftmost t with
    | some x => (⟨false, some x⟩, true)
    | none => (⟨false, none⟩, false)

def iterLast (t : Treap K V) (rg : Range K) (st : IterSt K V) : IterSt K V × Bool :=
  match rg.limit with
  | some l => let c := iterSeek cmp t rg l false false; (⟨false, c⟩, c.isSome)
  | none =>
    match rightmost t with
    | some x => (⟨false, some x⟩, true)
    | none => (⟨false, none⟩, false)

/-- `Next`; the walk over the parent stack is modelled by its re-seek form (`ForceReseek` path):
the successor of the current key. -/
def iterNext (t : Treap K V) (rg : Range K) (st : IterSt K V) : IterSt K V × Bool :=
  if st.isNew then iterFirst cmp t rg st else
  match st.cur with
  | none => (st, false)
  | some x => let c := iterSeek cmp t rg x.1 false true; (⟨false, c⟩, c.isSome)

def iterPrev (t : Treap K V) (rg : Range K) (st : IterSt K V) : IterSt K V × Bool :=
  if st.isNew then iterLast cmp t rg st else
  match st.cur with
  | none => (st, false)
  | some x => let c := iterSeek cmp t rg x.1 false false; (⟨false, c⟩, c.isSome)

def iterSeekOp (t : Treap K V) (rg : Range K) (k : K) : IterSt K V × Bool :=
  let c := iterSeek cmp t rg k true true; (⟨false, c⟩, c.isSome)

end Treap

/-- one update of a treap version; the priority is the value `rand.Int()` returned in Go -/
inductive TOp (K V : Type) where
  | put (k : K) (v : V) (p : Nat)
  | del (k : K)

def Treap.applyOp {K V : Type} (cmp : K → K → Ordering) (t : Treap K V) : TOp K V → Treap K V
  | .put k v p => Treap.put cmp k v p t
  | .del k => Treap.delete cmp k t

/-- the same update on the Spec map -/
def mapApplyOp {K V : Type} (cmp : K → K → Ordering) (m : List (K × V)) : TOp K V → List (K × V)
  | .put k v _ => insertSorted cmp k v m
  | .del k => eraseKey cmp k m

/-- size accounting of a treap (`nodeFieldsSize` + key + value lengths) -/
def nodeFieldsSize : Nat := 72

def Treap.size : Treap Key Val → Nat
  | .nil => 0
  | .node l k v _ r => Treap.size l + (nodeFieldsSize + k.length + v.length) + Treap.size r

end BV.C05
